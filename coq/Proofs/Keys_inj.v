(* Proofs/Keys_inj.v — lookup keys and file names of different key spaces never coincide; the prefix
   test of getElementPath recovers the key space and the hash of every lookup key; compressed reads
   are guarded to the CAS. *)
From BR Require Import Base.Prelude Model.Keys Proofs.Keys_strings.
Open Scope string_scope.
Open Scope Z_scope.

(* ---- lookup keys *)
Lemma lookup_key_inj k h k' h' : lookup_key k h = lookup_key k' h' -> k = k' /\ h = h'.
Proof. destruct k, k'; cbn; intros E; inversion E; split; reflexivity. Qed.

Lemma lookup_key_kinds_disjoint k h k' h' : k <> k' -> lookup_key k h <> lookup_key k' h'.
Proof. intros N E. apply lookup_key_inj in E as [E _]. contradiction. Qed.

(* ---- getElementPath's prefix test *)
Lemma element_kind_lookup_key k h : element_kind (lookup_key k h) = k.
Proof. destruct k; reflexivity. Qed.

Lemma element_hash_lookup_key k h : String.length h = 64%nat -> element_hash (lookup_key k h) = h.
Proof.
  intros L. unfold element_hash. destruct k; cbn [lookup_key kind_string append String.length]; rewrite L; reflexivity.
Qed.

Lemma element_path_lookup_key dir k h legacy size random :
  String.length h = 64%nat ->
  element_path dir (lookup_key k h) legacy size random =
  match file_location k legacy h size random with
  | Ok loc => Ok (path_join [dir; loc])
  | r => r
  end.
Proof.
  intros L. unfold element_path.
  rewrite element_kind_lookup_key, (element_hash_lookup_key k h L).
  assert (E : (String.length (lookup_key k h) <? 64)%nat = false).
  { apply Nat.ltb_ge. destruct k; cbn [lookup_key kind_string append String.length]; lia. }
  rewrite E. reflexivity.
Qed.

(* ---- file names.  For a well-formed hash and a random suffix without '/' and '.', every file name
   is <DirName>/<hash[:2]>/<hash>-<rest>. *)
Definition rand_ok (r : string) : bool :=
  all_chars (fun c => negb (is_slash c) && negb (Ascii.eqb c ".")) r.

Lemma plain_chars_seg_ok s :
  String.eqb s "" = false -> all_chars (fun c => negb (is_slash c) && negb (Ascii.eqb c ".")) s = true ->
  seg_ok s = true.
Proof.
  intros NE H. unfold seg_ok. rewrite NE. cbn [negb andb].
  assert (S : no_slash s = true).
  { unfold no_slash. eapply all_chars_impl; [|exact H]. intros c Hc. apply andb_true_iff in Hc as [Hc _]. exact Hc. }
  rewrite S. cbn [andb].
  assert (D : forall t, all_chars (fun c => negb (is_slash c) && negb (Ascii.eqb c ".")) t = true ->
                       t <> "." /\ t <> "..").
  { intros t Ht. split; intros ->; cbn in Ht; discriminate. }
  destruct (D s H) as [D1 D2]. unfold is_dot, is_dotdot.
  apply String.eqb_neq in D1, D2. rewrite D1, D2. reflexivity.
Qed.

Lemma hex_plain s :
  all_chars is_lower_hex s = true ->
  all_chars (fun c => negb (is_slash c) && negb (Ascii.eqb c ".")) s = true.
Proof.
  apply all_chars_impl. intros c Hc. destruct (hex_not_special c Hc) as (A & B & _). rewrite A, B. reflexivity.
Qed.

Lemma file_location_shape k legacy h size random :
  is_hash h = true -> rand_ok random = true ->
  exists rest, file_location k legacy h size random = Ok (dir_name k ++ "/" ++ take 2 h ++ "/" ++ h ++ "-" ++ rest).
Proof.
  intros Hh Hr. pose proof (is_hash_length h Hh) as L. pose proof (is_hash_hex h Hh) as X.
  unfold file_location. rewrite L. cbn [Nat.ltb Nat.leb].
  assert (S2 : seg_ok (take 2 h) = true).
  { apply plain_chars_seg_ok.
    - destruct h as [|a [|b h]]; cbn in L; try discriminate. reflexivity.
    - apply hex_plain. apply all_chars_take. exact X. }
  assert (S3 : seg_ok (h ++ "-" ++ random) = true).
  { apply plain_chars_seg_ok.
    - destruct h as [|a h]; [discriminate|reflexivity].
    - rewrite all_chars_app, (hex_plain h X). cbn [andb append all_chars].
      unfold rand_ok in Hr. rewrite Hr. reflexivity. }
  destruct k.
  - exists random. rewrite path_join3_plain by (first [reflexivity|assumption]). reflexivity.
  - destruct legacy; [exists (random ++ ".v1")|exists (Z_to_dec size ++ "-" ++ random)]; reflexivity.
  - exists random. rewrite path_join3_plain by (first [reflexivity|assumption]). reflexivity.
Qed.

Lemma dir_name_prefix_inj k k' x x' : dir_name k ++ "/" ++ x = dir_name k' ++ "/" ++ x' -> k = k' /\ x = x'.
Proof. destruct k, k'; cbn; intros E; inversion E; split; reflexivity. Qed.

(* two entries stored in the same file belong to the same key space and have the same hash *)
Lemma file_location_inj k legacy h size random k' legacy' h' size' random' p :
  is_hash h = true -> is_hash h' = true -> rand_ok random = true -> rand_ok random' = true ->
  file_location k legacy h size random = Ok p ->
  file_location k' legacy' h' size' random' = Ok p ->
  k = k' /\ h = h'.
Proof.
  intros Hh Hh' Hr Hr' E E'.
  destruct (file_location_shape k legacy h size random Hh Hr) as (rest & S).
  destruct (file_location_shape k' legacy' h' size' random' Hh' Hr') as (rest' & S').
  pose proof (is_hash_length h Hh) as L. pose proof (is_hash_length h' Hh') as L'.
  assert (T : String.length (take 2 h) = String.length (take 2 h')) by (rewrite !take_length by lia; reflexivity).
  rewrite S in E. rewrite S' in E'. clear S S'.
  set (t := take 2 h) in *. set (t' := take 2 h') in *. clearbody t t'.
  injection E as <-. injection E' as E'.
  apply dir_name_prefix_inj in E' as [-> E']. split; [reflexivity|].
  apply sapp_inv_len in E' as [_ E']; [|symmetry; exact T].
  cbn [append] in E'. injection E' as E'.
  apply sapp_inv_len in E' as [E' _]; [symmetry; exact E'|congruence].
Qed.

(* the file name of an entry starts with the directory of its key space *)
Lemma file_location_in_dir k legacy h size random p :
  is_hash h = true -> rand_ok random = true ->
  file_location k legacy h size random = Ok p -> starts_with (dir_name k ++ "/") p = true.
Proof.
  intros Hh Hr E. destruct (file_location_shape k legacy h size random Hh Hr) as (rest & S).
  rewrite S in E. injection E as <-.
  change (dir_name k ++ "/" ++ take 2 h ++ "/" ++ h ++ "-" ++ rest)
    with (dir_name k ++ String "/" (take 2 h ++ "/" ++ h ++ "-" ++ rest)).
  destruct k; reflexivity.
Qed.

(* ---- compressed reads *)
Lemma zstd_allowed_iff k : zstd_allowed k = true <-> k = CAS.
Proof. destruct k; cbn; split; intros H; try discriminate; reflexivity. Qed.

Lemma get_guard_spec k zstd : get_guard k zstd = Ok tt \/ (get_guard k zstd = Err EBadRequest /\ zstd = true /\ k <> CAS).
Proof. destruct k, zstd; cbn; auto; right; repeat split; discriminate. Qed.

Lemma http_serves_zstd_only_cas k a : http_serves_zstd k a = true -> k = CAS.
Proof. destruct k; cbn; intros H; try discriminate; reflexivity. Qed.
