(* Proofs/Casblob_spec.v — the independent format description (Model/FormatSpec.v) against the
   reader and writer models: byte-access bridges, tables, slices. *)
From BR Require Import Base.Prelude Gen.Consts Gen.Funcs Model.Casblob Model.FormatSpec
  Proofs.Casblob_le Proofs.Casblob_header Proofs.Casblob_lists Proofs.Casblob_nopanic
  Proofs.Casblob_read.
Open Scope list_scope.
Open Scope Z_scope.

(* ------------------------------------------------------------------ *)
(* byte access: positional (spec) = sequential little-endian reads (model), on real bytes *)

Definition in_range (f : list Z) : Prop := forallb is_byte f = true.

Lemma nth_in_range f i : in_range f -> 0 <= nth i f 0 <= 255.
Proof.
  unfold in_range. revert i; induction f as [|x t IH]; intros i H.
  - destruct i; simpl; lia.
  - cbn [forallb] in H. apply andb_true_iff in H as [Hx Ht]. unfold is_byte in Hx.
    destruct i as [|i]; cbn [nth]; [lia|apply IH; exact Ht].
Qed.

Lemma skipn_cons_nth {A} i (f : list A) x t d :
  skipn i f = x :: t -> nth i f d = x /\ skipn (S i) f = t.
Proof.
  revert f; induction i as [|i IH]; intros f H.
  - simpl in H. subst f. split; reflexivity.
  - destruct f as [|y f']; [simpl in H; discriminate|]. cbn [skipn] in H.
    destruct (IH f' H) as [H1 H2]. split; [exact H1|exact H2].
Qed.

Lemma skipn_nil_nth {A} i (f : list A) d : skipn i f = [] -> nth i f d = d /\ skipn (S i) f = [].
Proof.
  revert f; induction i as [|i IH]; intros f H.
  - simpl in H. subst f. split; reflexivity.
  - destruct f as [|y f']; [split; reflexivity|]. cbn [skipn] in H.
    destruct (IH f' H) as [H1 H2]. split; [exact H1|exact H2].
Qed.

Definition le_at (f : list Z) (i n : nat) : Z := le_dec (firstn n (skipn i f)).

Lemma le_at_0 f i : le_at f i 0 = 0.
Proof. reflexivity. Qed.

Lemma le_at_S f i n : le_at f i (S n) = (nth i f 0) mod 256 + 256 * le_at f (S i) n.
Proof.
  unfold le_at. destruct (skipn i f) as [|x t] eqn:E.
  - destruct (skipn_nil_nth i f 0 E) as [-> ->]. rewrite !firstn_nil. reflexivity.
  - destruct (skipn_cons_nth i f x t 0 E) as [-> ->]. reflexivity.
Qed.

Lemma u8_bridge f i : in_range f -> u8_of (skipn i f) = byte_at f i.
Proof.
  intros R. unfold u8_of, byte_at. change (le_dec (firstn 1 (skipn i f))) with (le_at f i 1).
  rewrite le_at_S, le_at_0. pose proof (nth_in_range f i R). rewrite Z.mod_small by lia. lia.
Qed.

Lemma u32_bridge f i : in_range f -> u32_of (skipn i f) = u32_at f i.
Proof.
  intros R. unfold u32_of, u32_at, byte_at. change (le_dec (firstn 4 (skipn i f))) with (le_at f i 4).
  rewrite !le_at_S, le_at_0.
  replace (i + 1)%nat with (S i) by lia. replace (i + 2)%nat with (S (S i)) by lia.
  replace (i + 3)%nat with (S (S (S i))) by lia.
  pose proof (nth_in_range f i R). pose proof (nth_in_range f (S i) R).
  pose proof (nth_in_range f (S (S i)) R). pose proof (nth_in_range f (S (S (S i))) R).
  rewrite !Z.mod_small by lia. lia.
Qed.

Lemma u32_at_range f i : in_range f -> 0 <= u32_at f i < 4294967296.
Proof. intros R. rewrite <- u32_bridge by exact R. apply u32_of_range. Qed.

Lemma wrap64_u64 u : 0 <= u < two64 ->
  wrap64 u = if u <? 9223372036854775808 then u else u - 18446744073709551616.
Proof.
  intros H. unfold wrap64, two63, two64 in *.
  destruct (u <? 9223372036854775808) eqn:E.
  - rewrite Z.mod_small by lia. lia.
  - replace (u + 9223372036854775808) with ((u - 9223372036854775808) + 1 * 18446744073709551616) by lia.
    rewrite Z.mod_add by lia. rewrite Z.mod_small by lia. lia.
Qed.

Lemma le_at_split f i : le_at f i 8 = le_at f i 4 + 4294967296 * le_at f (i + 4) 4.
Proof.
  rewrite !le_at_S, !le_at_0.
  replace (i + 4)%nat with (S (S (S (S i)))) by lia. lia.
Qed.

Lemma i64_bridge f i : in_range f -> i64_of (skipn i f) = i64_at f i.
Proof.
  intros R. unfold i64_of, i64_at, u64_at.
  change (le_dec (firstn 8 (skipn i f))) with (le_at f i 8). rewrite le_at_split.
  change (le_at f i 4) with (u32_of (skipn i f)). change (le_at f (i + 4) 4) with (u32_of (skipn (i + 4) f)).
  rewrite !u32_bridge by exact R.
  pose proof (u32_at_range f i R). pose proof (u32_at_range f (i + 4) R).
  apply wrap64_u64. unfold two64. lia.
Qed.

Lemma table_bridge f pos n : in_range f -> decode_offsets n (skipn pos f) = table_at f pos n.
Proof.
  intros R. revert pos; induction n as [|n IH]; intros pos; [reflexivity|].
  cbn [decode_offsets table_at]. rewrite i64_bridge by exact R. rewrite skipn_skipn, IH. reflexivity.
Qed.

(* the converse direction needs the bytes of an encoded header to be bytes *)
Lemma in_range_app a b : in_range a -> in_range b -> in_range (a ++ b).
Proof. unfold in_range. intros Ha Hb. rewrite forallb_app, Ha, Hb. reflexivity. Qed.

Lemma bytes_ok_in_range l : bytes_ok l = true -> in_range l.
Proof.
  unfold bytes_ok, in_range. intros H. rewrite forallb_forall in *. intros x Hx.
  specialize (H x Hx). unfold byte_ok in H. unfold is_byte. lia.
Qed.

Lemma in_range_le_enc n v : in_range (le_enc n v).
Proof. apply bytes_ok_in_range, le_enc_bytes_ok. Qed.

Lemma in_range_flat_map offs : in_range (flat_map enc_i64 offs).
Proof.
  induction offs as [|x t IH]; [reflexivity|]. cbn [flat_map].
  apply in_range_app; [apply in_range_le_enc|exact IH].
Qed.

Lemma in_range_encode_header h : in_range (encode_header h).
Proof.
  unfold encode_header. repeat (apply in_range_app; [apply in_range_le_enc|]). apply in_range_flat_map.
Qed.

Lemma in_range_concat (l : list (list Z)) : Forall in_range l -> in_range (List.concat l).
Proof.
  induction 1 as [|x t Hx _ IH]; [reflexivity|]. cbn [List.concat]. apply in_range_app; assumption.
Qed.

(* ------------------------------------------------------------------ *)
(* strictly increasing tables *)

Lemma strictly_increasing_loop l prev :
  strictly_increasing l = true -> l <> [] -> prev < hd 0 l ->
  increasing_from prev l = Some (last l 0) /\ hd 0 l <= last l 0.
Proof.
  revert prev; induction l as [|a t IH]; intros prev H Hne Hp; [congruence|].
  cbn [hd] in Hp. cbn [increasing_from]. replace (a <=? prev) with false by lia.
  destruct t as [|b t'].
  - simpl. split; [reflexivity|lia].
  - cbn [strictly_increasing] in H. apply andb_true_iff in H as [Hab Ht].
    destruct (IH a Ht ltac:(discriminate) ltac:(cbn [hd]; lia)) as [E1 E2].
    change (last (a :: b :: t') 0) with (last (b :: t') 0).
    split; [exact E1|cbn [hd] in *; lia].
Qed.

Lemma strictly_increasing_offsets_from pos lens :
  Forall (fun l => 0 < l) lens -> strictly_increasing (offsets_from pos lens) = true.
Proof.
  revert pos; induction lens as [|l t IH]; intros pos H; [reflexivity|].
  pose proof (Forall_inv H) as Hl. pose proof (Forall_inv_tail H) as Ht. cbv beta in Hl.
  cbn [offsets_from]. specialize (IH (pos + l) Ht).
  destruct t as [|l' t']; cbn [offsets_from strictly_increasing] in *;
    (apply andb_true_iff; split; [lia|exact IH]).
Qed.

(* ------------------------------------------------------------------ *)
(* slices *)

Lemma zlen_slice f a b : 0 <= a <= b -> b <= zlen f -> zlen (slice f a b) = b - a.
Proof.
  intros H1 H2. unfold slice, zlen in *. rewrite firstn_length, skipn_length. lia.
Qed.

Lemma firstn_plus {A} (l : list A) n m : firstn (n + m) l = firstn n l ++ firstn m (skipn n l).
Proof.
  revert l; induction n as [|n IH]; intros l; [reflexivity|].
  destruct l as [|x t]; [simpl; rewrite firstn_nil; reflexivity|].
  cbn [Nat.add firstn skipn app]. rewrite IH. reflexivity.
Qed.

Lemma slice_app f a b c : 0 <= a <= b -> b <= c ->
  slice f a b ++ slice f b c = slice f a c.
Proof.
  intros H1 H2. unfold slice.
  replace (Z.to_nat b) with (Z.to_nat a + Z.to_nat (b - a))%nat by lia.
  rewrite <- skipn_skipn.
  replace (Z.to_nat (c - a)) with (Z.to_nat (b - a) + Z.to_nat (c - b))%nat by lia.
  set (g := skipn (Z.to_nat a) f). set (n := Z.to_nat (b - a)). set (m := Z.to_nat (c - b)).
  rewrite firstn_plus. reflexivity.
Qed.

Lemma slice_to_end f a : 0 <= a -> slice f a (zlen f) = zskipn a f.
Proof.
  intros Ha. unfold slice, zskipn. apply firstn_all2. rewrite skipn_length. unfold zlen. lia.
Qed.

Lemma slices_partition f offs :
  strictly_increasing offs = true -> offs <> [] -> 0 <= hd 0 offs -> last offs 0 <= zlen f ->
  List.concat (slices f offs) = slice f (hd 0 offs) (last offs 0) /\
  offs = offsets_from (hd 0 offs) (map zlen (slices f offs)) /\
  hd 0 offs <= last offs 0 /\
  Forall (fun l => 0 < l) (map zlen (slices f offs)).
Proof.
  induction offs as [|a t IH]; intros H Hne H0 Hl; [congruence|].
  destruct t as [|b t'].
  - cbn. unfold slice. replace (Z.to_nat (a - a)) with 0%nat by lia. cbn.
    repeat split; try lia. constructor.
  - cbn [strictly_increasing] in H. apply andb_true_iff in H as [Hab Ht].
    change (last (a :: b :: t') 0) with (last (b :: t') 0) in *.
    cbn [hd] in *.
    destruct (IH Ht ltac:(discriminate) ltac:(cbn [hd]; lia) Hl) as (E1 & E2 & E3 & E4).
    cbn [hd] in E1, E2, E3.
    change (slices f (a :: b :: t')) with (slice f a b :: slices f (b :: t')).
    cbn [List.concat map]. rewrite E1.
    assert (Hz : zlen (slice f a b) = b - a) by (apply zlen_slice; lia).
    split; [apply slice_app; lia|]. split; [|split; [lia|]].
    + cbn [offsets_from]. rewrite Hz. replace (a + (b - a)) with b by lia. rewrite <- E2. reflexivity.
    + constructor; [lia|exact E4].
Qed.

Lemma slices_of_frames (frames : list (list Z)) hd0 pos :
  zlen hd0 = pos -> Forall (fun fr => fr <> []) frames ->
  slices (hd0 ++ List.concat frames) (offsets_from pos (map zlen frames)) = frames.
Proof.
  revert hd0 pos; induction frames as [|fr t IH]; intros hd0 pos Hp Hne; [reflexivity|].
  pose proof (Forall_inv Hne) as Hfr. pose proof (Forall_inv_tail Hne) as Ht.
  cbn [map offsets_from List.concat].
  assert (E : exists rest, offsets_from (pos + zlen fr) (map zlen t) = (pos + zlen fr) :: rest)
    by (destruct (map zlen t); eexists; reflexivity).
  destruct E as [rest E]. set (F := hd0 ++ fr ++ List.concat t).
  rewrite E.
  change (slices F (pos :: (pos + zlen fr) :: rest))
    with (slice F pos (pos + zlen fr) :: slices F ((pos + zlen fr) :: rest)).
  rewrite <- E. unfold F. f_equal.
  - unfold slice. replace (Z.to_nat (pos + zlen fr - pos)) with (List.length fr) by (unfold zlen; lia).
    rewrite skipn_app_exact by (unfold zlen in Hp; lia).
    apply firstn_app_exact. reflexivity.
  - rewrite app_assoc. apply IH; [rewrite zlen_app; lia|exact Ht].
Qed.

(* ------------------------------------------------------------------ *)
(* number of chunks *)

Lemma cdiv_of_pieces c L r : 0 < c -> 0 < r <= c -> 1 <= L -> cdiv ((L - 1) * c + r) c = L.
Proof.
  intros Hc Hr HL. unfold cdiv.
  destruct (Z.eq_dec r c) as [->|Hne].
  - replace ((L - 1) * c + c) with (L * c) by lia.
    rewrite Z.mod_mul, Z.div_mul by lia. reflexivity.
  - assert (Hd : ((L - 1) * c + r) / c = L - 1).
    { symmetry. apply (Z.div_unique _ _ _ r); lia. }
    assert (Hm : ((L - 1) * c + r) mod c = r).
    { symmetry. apply (Z.mod_unique _ _ (L - 1)); lia. }
    rewrite Hd, Hm. replace (r =? 0) with false by lia. lia.
Qed.

(* ------------------------------------------------------------------ *)
(* the converse of validate_ok_inv *)

Lemma validate_ok_intro fsz r :
  r_magic r = skippableFrameMagicNumber ->
  2 <= r_num r -> 29 + 8 * r_num r <= fsz -> fsz <= maxAlloc ->
  (r_comp r = Zstandard ->
     0 < r_chunk r /\ 0 < r_usize r /\ r_num r - 1 = cdiv (r_usize r) (r_chunk r)) ->
  r_frame r = 8 * r_num r + 21 ->
  8 * r_num r <= zlen (r_rest r) ->
  table_ok fsz (decode_offsets (Z.to_nat (r_num r)) (r_rest r)) ->
  validate fsz r =
  Ok (mkHeader (r_usize r) (r_comp r) (r_chunk r) (decode_offsets (Z.to_nat (r_num r)) (r_rest r))).
Proof.
  intros Hm Hn Hfit Ha Hz Hf Hr Ht. unfold validate.
  rewrite Hm, Z.eqb_refl. cbn [negb].
  replace (r_num r <? 2) with false by lia.
  assert (Hq : Z.quot (fsz - chunkTableOffset) 8 = (fsz - 29) / 8).
  { unfold chunkTableOffset. apply Z.quot_div_nonneg; lia. }
  rewrite Hq. replace (r_num r >? (fsz - 29) / 8) with false by lia.
  match goal with |- bind ?zb _ = _ => assert (Hzb : zb = Ok tt) end.
  { destruct (r_comp r =? Zstandard) eqn:Ec; [|reflexivity].
    apply Z.eqb_eq in Ec. destruct (Hz Ec) as (Hk & Hu & Hcnt).
    replace (r_chunk r =? 0) with false by lia.
    unfold go_quot, go_rem. replace (r_chunk r =? 0) with false by lia. cbn [bind].
    destruct (quot_rem_nonneg (r_usize r) (r_chunk r)) as [Eq Er]; try lia.
    rewrite Eq, Er. unfold cdiv in Hcnt.
    replace (r_usize r <=? 0) with false by lia. cbn [orb].
    rewrite Hcnt, Z.eqb_refl. reflexivity. }
  rewrite Hzb. cbn [bind].
  replace (r_frame r =? r_num r * 8 + 8 + 1 + 4 + 8) with true by lia. cbn [negb].
  unfold go_make.
  replace ((r_num r <? 0) || (r_num r * 8 >? maxAlloc)) with false by lia. cbn [bind].
  replace (zlen (r_rest r) <? 8 * r_num r) with false by lia.
  unfold table_ok in Ht. rewrite Ht, Z.eqb_refl. reflexivity.
Qed.
