(* Proofs/Front_limit.v — C18 on the front-end adapters: for every write path, which layer refuses an
   item whose declared logical size exceeds max_blob_size, with which status, and that the state is
   untouched; and that the handler-level checks do not refuse an item of exactly the limit.

   Who enforces the limit:
     HTTP PUT            handler  (contentLength > h.maxCasBlobSizeBytes -> 400)        [then disk layer]
     ByteStream.Write    handler  (size > s.maxCasBlobSizeBytes -> InvalidArgument)      [then disk layer]
     SpliceBlob          handler  if maxCasBlobSizeBytes > 0 (-> InvalidArgument), else only the disk layer,
                                  whose refusal SpliceBlob reports as Unknown
     BatchUpdateBlobs    disk layer only (Put: size > c.maxBlobSize -> 400 -> InvalidArgument per blob)
     inlined AR blobs    disk layer only (-> InvalidArgument for the call; the ActionResult is not stored)
     FetchBlob           disk layer only (the refusal is reported as NOT_FOUND, like every failed fetch) *)
From BR Require Import Base.Prelude Model.LRU Model.Disk Proofs.Disk_ack Model.Front Proofs.Front_base Proofs.Front_ack.
Open Scope Z_scope.

(* ---------------- HTTP PUT ---------------- *)

Lemma http_put_limit c d u hash cl xd ce b rnd len :
  http_declared cl xd = Some len -> len > fc_http_max c ->
  http_put c d u hash cl xd ce b rnd = (d, bad).
Proof.
  intros HD HL. unfold http_put. destruct (negb u); [reflexivity|]. rewrite HD.
  destruct (len =? -1); [reflexivity|].
  destruct ((len =? 0) && negb (String.eqb hash emptySha256)); [reflexivity|].
  replace (len >? fc_http_max c) with true by lia. reflexivity.
Qed.

(* at or below the limit the handler's own checks pass: the answer is the disk layer's *)
Lemma http_put_within_limit c d hash cl xd ce b rnd len :
  http_declared cl xd = Some len -> 0 < len <= fc_http_max c -> ce <> CeOther ->
  http_put c d true hash cl xd ce b rnd =
  (let '(d', r) := disk_put c d CAS hash len (stream_of b) rnd in (d', match r with None => SOk | Some e => SErr e end)).
Proof.
  intros HD HL HC. unfold http_put. cbn [negb]. rewrite HD.
  replace (len =? -1) with false by lia. replace (len =? 0) with false by lia. cbn [andb].
  replace (len >? fc_http_max c) with false by lia.
  destruct ce; try reflexivity. congruence.
Qed.

(* ---------------- BatchUpdateBlobs: the disk layer ---------------- *)

Lemma bu_one_limit c d e :
  b_clean (bu_body e) = true -> bu_size e > c_maxblob (fc_disk c) ->
  bu_one c d e = (d, bad).
Proof.
  intros Hclean HL. unfold bu_one.
  destruct (bu_comp e) as [| |n] eqn:EC; [| |reflexivity].
  - cbn. destruct (b_len (bu_body e) =? bu_size e) eqn:E; cbn; [|reflexivity].
    rewrite disk_put_refused by lia. reflexivity.
  - rewrite Hclean. cbn. destruct (b_len (bu_body e) =? bu_size e) eqn:E; cbn; [|reflexivity].
    rewrite disk_put_refused by lia. reflexivity.
Qed.

(* a blob in a supported encoding whose decoded length is the digest size goes to the disk layer as it
   is: BatchUpdateBlobs has no other check of its own *)
Lemma bu_one_wellformed c d e :
  (forall n, bu_comp e <> COther n) -> b_clean (bu_body e) = true -> b_len (bu_body e) = bu_size e ->
  bu_one c d e =
  (let '(d', r) := disk_put c d CAS (bu_hash e) (bu_size e) (stream_of (bu_body e)) (bu_rnd e) in (d', put_status EInternal r)).
Proof.
  intros HC Hclean HL. unfold bu_one.
  destruct (bu_comp e) as [| |n] eqn:EC; [| |exfalso; eapply HC; reflexivity].
  - cbn. rewrite HL. rewrite Z.eqb_refl. reflexivity.
  - rewrite Hclean. cbn. rewrite HL. rewrite Z.eqb_refl. reflexivity.
Qed.

(* ---------------- ByteStream.Write ---------------- *)

Lemma bs_write_limit c d z hash size m0 rest ab b rnd :
  size > fc_grpc_max c -> bs_write c d (WN z hash size) (m0 :: rest) ab b rnd = (d, bad).
Proof.
  intros HL. unfold bs_write. destruct (size <? 0); [reflexivity|].
  destruct (negb (validate_hash hash size)); [reflexivity|].
  replace (size >? fc_grpc_max c) with true by lia. reflexivity.
Qed.

Lemma bs_write_within_limit c d z hash size m0 rest ab b rnd :
  0 <= size <= fc_grpc_max c -> validate_hash hash size = true ->
  bs_shortcut (snd (fst (disk_contains c d CAS hash size))) hash size = false -> wm_off m0 = 0 ->
  bs_write c d (WN z hash size) (m0 :: rest) ab b rnd =
  (let d1 := fst (fst (disk_contains c d CAS hash size)) in
   let '(piped, e) := recv_loop z size 0 true (m0 :: rest) ab in
   let '(d2, r) := disk_put c d1 CAS hash size (bs_stream z b piped (match e with Some _ => true | None => false end)) rnd in
   match e with Some x => (d2, SErr x) | None => (d2, put_status EInternal r) end).
Proof.
  intros HL HV HC HO. unfold bs_write.
  replace (size <? 0) with false by lia. rewrite HV. cbn [negb].
  replace (size >? fc_grpc_max c) with false by lia.
  destruct (disk_contains c d CAS hash size) as [[d1 ex] fs]. cbn [fst snd] in *. rewrite HC.
  rewrite HO. reflexivity.
Qed.

(* ---------------- SpliceBlob ---------------- *)

Lemma splice_limit c d dfn cs h s computed concat_ok cid rnd :
  fc_grpc_max c > 0 -> s > fc_grpc_max c ->
  splice c d dfn cs (Some (h, s)) computed concat_ok cid rnd = (d, bad).
Proof.
  intros HM HL. unfold splice. destruct (negb ((dfn =? 0) || (dfn =? 1))); [reflexivity|].
  destruct cs as [|k0 ks]; [reflexivity|]. destruct (check_chunks (k0 :: ks) 0); [|reflexivity].
  replace (fc_grpc_max c >? 0) with true by lia. replace (s >? fc_grpc_max c) with true by lia. reflexivity.
Qed.

Lemma feed_chunks_err c : forall cs d acc d1 p x,
  feed_chunks c d cs acc = (d1, p, Some x) -> x = ENotFound \/ x = EInternal.
Proof.
  induction cs as [|k t IH]; intros d acc d1 p x EF; cbn in EF; [inversion EF|].
  destruct (disk_get c d CAS (ck_hash k) (ck_size k) 0 false) as [d2 g]. destruct g.
  - eapply IH; exact EF.
  - inversion EF; auto.
  - inversion EF; auto.
Qed.

(* without a caller digest the size is the (checked) sum of the chunk sizes; the chunks are read for
   hashing first, so the refusal may be preceded by NotFound / Unknown for a missing chunk *)
Lemma splice_limit_computed c d dfn cs computed concat_ok cid rnd total d' st :
  fc_grpc_max c > 0 -> check_chunks cs 0 = Some total -> total > fc_grpc_max c ->
  splice c d dfn cs None computed concat_ok cid rnd = (d', st) ->
  st = bad \/ st = SErr ENotFound \/ st = SErr EInternal.
Proof.
  intros HM HC HL. unfold splice. destruct (negb ((dfn =? 0) || (dfn =? 1))); [intros H; inversion H; auto|].
  destruct cs as [|k0 ks]; [intros H; inversion H; auto|]. rewrite HC.
  destruct (feed_chunks c d (k0 :: ks) 0) as [[d1 p] e] eqn:EF.
  destruct e as [x|].
  - intros H; inversion H; subst.
    pose proof (feed_chunks_err _ _ _ _ _ _ _ EF) as H0.
    destruct H0 as [-> | ->]; auto.
  - replace (fc_grpc_max c >? 0) with true by lia. replace (total >? fc_grpc_max c) with true by lia.
    intros H; inversion H; auto.
Qed.

(* with maxCasBlobSizeBytes = 0 (not reachable through main.go, which refuses max_blob_size <= 0) only
   the disk layer stands in the way: an OK then means the size was within the disk layer's limit, or
   the blob was reported present beforehand *)
Lemma splice_ok_within_disk_limit c d dfn cs blob computed concat_ok cid rnd d' :
  splice c d dfn cs blob computed concat_ok cid rnd = (d', SOk) ->
  exists h s, splice_digest cs blob computed = Some (h, s) /\
    ((exists dx, snd (fst (disk_contains c dx CAS h s)) = true) \/ s <= c_maxblob (fc_disk c)).
Proof.
  unfold splice, splice_digest. intros H. dif H.
  destruct cs as [|k0 ks] eqn:Ecs; [inversion H|]. rewrite <- Ecs in *.
  destruct (check_chunks cs 0) as [total|] eqn:ECK; [|inversion H].
  destruct blob as [[h s]|].
  - exists h, s. split; [reflexivity|]. dif H. dif H. dif H. dif H. dif H.
    destruct (disk_contains c d CAS h s) as [[d2 ex] fs] eqn:EC.
    destruct ex; [left; exists d; rewrite EC; reflexivity|right].
    destruct (feed_chunks c d2 cs 0) as [[d3 piped] werr].
    destruct (disk_put c d3 CAS h s _ rnd) as [d4 r] eqn:HP. destruct r; [inversion H|].
    apply orb_false_iff in E1 as [E1 _].
    destruct (disk_put_ok_any _ _ _ _ _ _ _ _ HP) as [G|(S1 & _)]; lia.
  - destruct (feed_chunks c d cs 0) as [[d1 p0] e0]. destruct e0; [inversion H|].
    exists computed, total. split; [reflexivity|]. dif H. dif H. dif H. dif H. dif H.
    destruct (disk_contains c d1 CAS computed total) as [[d2 ex] fs] eqn:EC.
    destruct ex; [left; exists d1; rewrite EC; reflexivity|right].
    destruct (feed_chunks c d2 cs 0) as [[d3 piped] werr].
    destruct (disk_put c d3 CAS computed total _ rnd) as [d4 r] eqn:HP. destruct r; [inversion H|].
    apply orb_false_iff in E1 as [E1 _].
    destruct (disk_put_ok_any _ _ _ _ _ _ _ _ HP) as [G|(S1 & _)]; lia.
Qed.

(* ---------------- blobs inlined in UpdateActionResult: the disk layer ---------------- *)

Definition inl_oversize (c : fcfg) (i : inl_blob) : Prop :=
  in_present i = true /\ snd (inl_digest i) > c_maxblob (fc_disk c).

(* some inlined blob over the limit: storing the inlined blobs fails, at that blob at the latest *)
Lemma put_inlined_limit c : forall l d i,
  In i l -> inl_oversize c i -> exists d1 e, put_inlined c d l = (d1, Some e).
Proof.
  induction l as [|j t IH]; intros d i Hin Hov; [inversion Hin|]. cbn.
  destruct Hin as [->|Hin].
  - destruct Hov as [HP HS]. rewrite HP. cbn. destruct (inl_digest i) as [h s]. cbn in HS.
    rewrite disk_put_refused by lia. eexists; eexists; reflexivity.
  - destruct (in_present j); cbn; [|eapply IH; eassumption].
    destruct (inl_digest j) as [h s]. destruct (disk_put c d CAS h s (inl_stream j) (in_rnd j)) as [d1 r].
    destruct r; [eexists; eexists; reflexivity|eapply IH; eassumption].
Qed.

(* ... and when it is the first inlined blob the answer is InvalidArgument and nothing changed *)
Lemma put_inlined_limit_first c d i t :
  inl_oversize c i -> put_inlined c d (i :: t) = (d, Some EBadRequest).
Proof.
  intros [HP HS]. cbn. rewrite HP. cbn. destruct (inl_digest i) as [h s]. cbn in HS.
  rewrite disk_put_refused by lia. reflexivity.
Qed.

Lemma update_ar_limit c d ahash asize valid files so se arlen rnd i :
  In i (files ++ [so; se]) -> inl_oversize c i ->
  exists d1 st, update_ar c d ahash asize valid files so se arlen rnd = (d1, st) /\ st <> SOk /\
    (* the ActionResult itself was not stored: the call ended at or before the inlined blobs *)
    (d1 = d \/ exists e, put_inlined c d (files ++ [so; se]) = (d1, Some e)).
Proof.
  intros Hin Hov. unfold update_ar.
  destruct (negb (validate_hash ahash asize)); [exists d, bad; split; [reflexivity|split; [discriminate|left; reflexivity]]|].
  destruct (negb valid); [exists d, (SErr EInternal); split; [reflexivity|split; [discriminate|left; reflexivity]]|].
  destruct (arlen =? 0); [exists d, (SErr EInternal); split; [reflexivity|split; [discriminate|left; reflexivity]]|].
  destruct (put_inlined_limit c _ d i Hin Hov) as [d1 [e HE]]. rewrite HE.
  exists d1, (SErr (grpc_code e EInternal)). split; [reflexivity|]. split; [discriminate|]. right. exists e. reflexivity.
Qed.

(* the ActionResult that carries inlined data is itself an item: its Put (kind AC) obeys the same limit *)
Lemma update_ar_carrier_limit c d ahash asize files so se arlen rnd d1 :
  validate_hash ahash asize = true -> arlen > c_maxblob (fc_disk c) -> arlen <> 0 ->
  put_inlined c d (files ++ [so; se]) = (d1, None) ->
  update_ar c d ahash asize true files so se arlen rnd = (d1, bad).
Proof.
  intros HV HL HN HP. unfold update_ar. rewrite HV. cbn [negb]. replace (arlen =? 0) with false by lia.
  rewrite HP. rewrite disk_put_refused by lia. reflexivity.
Qed.

(* ---------------- FetchBlob: the disk layer ---------------- *)

(* the size an upstream reply would be stored under *)
Definition up_size (u : upstream) (sri : option string) : Z :=
  match sri, up_cl u <? 0 with Some _, false => up_cl u | _, _ => b_len (up_body u) end.

Lemma fetch_item_limit c d u sri :
  up_size u sri > c_maxblob (fc_disk c) ->
  fetch_item c d u sri = (d, Err ENotFound) \/ fetch_item c d u sri = (d, Err EBadRequest).
Proof.
  unfold up_size, fetch_item. intros HL. destruct (negb (up_ok u)); [left; reflexivity|].
  destruct sri as [h|]; [destruct (up_cl u <? 0)|].
  - destruct (negb (b_clean (up_body u))); [left; reflexivity|].
    destruct (negb (String.eqb h (up_actual u))); [left; reflexivity|]. rewrite disk_put_refused by lia. right. reflexivity.
  - rewrite disk_put_refused by lia. right. reflexivity.
  - destruct (up_cl u <? 0); (destruct (negb (b_clean (up_body u))); [left; reflexivity|]; rewrite disk_put_refused by lia; right; reflexivity).
Qed.

Lemma fetch_uris_limit c sri : forall us d,
  Forall (fun u => up_size u sri > c_maxblob (fc_disk c)) us ->
  fetch_uris c d us sri = (d, SErr ENotFound, None).
Proof.
  induction us as [|u t IH]; intros d HF; [reflexivity|]. inversion HF; subst. cbn.
  destruct (fetch_item_limit c d u sri H1) as [-> | ->]; apply IH; assumption.
Qed.

(* ---------------- what GetCapabilities advertises ---------------- *)

Lemma advertised_is_enforced z m :
  capabilities_max (wired z m) = m /\ fc_http_max (wired z m) = m /\ fc_grpc_max (wired z m) = m /\
  c_maxblob (fc_disk (wired z m)) = m.
Proof. repeat split. Qed.
