(* Proofs/Casblob_lists.v — chunk tables, concatenations and fixed-size pieces. *)
From BR Require Import Base.Prelude Gen.Consts Gen.Funcs Model.Casblob Proofs.Casblob_le.
Open Scope list_scope.
Open Scope Z_scope.

Lemma in_firstn {A} (x : A) k l : In x (firstn k l) -> In x l.
Proof.
  revert l; induction k as [|k IH]; intros l H; [destruct H|].
  destruct l as [|y t]; [destruct H|]. destruct H as [->|H]; [left; reflexivity|right; apply IH; exact H].
Qed.

Definition zsum (l : list Z) : Z := sumZ (fun x => x) l.

Lemma zsum_app a b : zsum (a ++ b) = zsum a + zsum b.
Proof. apply sumZ_app. Qed.

Lemma zlen_concat (l : list (list Z)) : zlen (List.concat l) = zsum (map zlen l).
Proof.
  induction l as [|x t IH]; [reflexivity|].
  cbn [List.concat map]. rewrite zlen_app, IH. reflexivity.
Qed.

Lemma zskipn_app_exact {A} (a b : list A) n : zlen a = n -> zskipn n (a ++ b) = b.
Proof. intros H. unfold zskipn. apply skipn_app_exact. subst n. symmetry. apply to_nat_zlen. Qed.

Lemma zfirstn_app_exact {A} (a b : list A) n : zlen a = n -> zfirstn n (a ++ b) = a.
Proof. intros H. unfold zfirstn. apply firstn_app_exact. subst n. symmetry. apply to_nat_zlen. Qed.

Lemma zskipn_0 {A} (l : list A) : zskipn 0 l = l.
Proof. reflexivity. Qed.

Lemma zskipn_add {A} (l : list A) a b : 0 <= a -> 0 <= b -> zskipn (a + b) l = zskipn b (zskipn a l).
Proof. intros Ha Hb. unfold zskipn. rewrite Z2Nat.inj_add by lia. rewrite skipn_skipn. reflexivity. Qed.

Lemma zskipn_all {A} (l : list A) n : zlen l <= n -> zskipn n l = [].
Proof. intros H. unfold zskipn. apply skipn_all2. unfold zlen in H. lia. Qed.

(* ------------------------------------------------------------------ *)
(* offsets_from *)

Lemma offsets_from_length pos lens : List.length (offsets_from pos lens) = S (List.length lens).
Proof.
  revert pos; induction lens as [|l t IH]; intros pos; [reflexivity|].
  cbn [offsets_from List.length]. rewrite IH. reflexivity.
Qed.

Lemma offsets_from_nth pos lens k :
  (k <= List.length lens)%nat -> nth k (offsets_from pos lens) 0 = pos + zsum (firstn k lens).
Proof.
  revert pos k; induction lens as [|l t IH]; intros pos k Hk.
  - destruct k; [simpl; unfold zsum; simpl; lia|simpl in Hk; lia].
  - destruct k as [|k]; [simpl; unfold zsum; simpl; lia|].
    cbn [offsets_from nth firstn]. rewrite IH by (simpl in Hk; lia).
    unfold zsum. cbn [sumZ]. lia.
Qed.

Lemma offsets_from_last pos lens : last (offsets_from pos lens) 0 = pos + zsum lens.
Proof.
  revert pos; induction lens as [|l t IH]; intros pos.
  - simpl. unfold zsum; simpl. lia.
  - cbn [offsets_from].
    assert (E : forall x r, last (x :: offsets_from (pos + l) r) 0 = last (offsets_from (pos + l) r) 0).
    { intros x r. destruct r; reflexivity. }
    rewrite E, IH. unfold zsum. cbn [sumZ]. lia.
Qed.

(* strictly positive lengths give a table that passes the "should increase" loop *)
Lemma increasing_offsets_from prev pos lens :
  prev < pos -> Forall (fun l => 0 < l) lens ->
  increasing_from prev (offsets_from pos lens) = Some (pos + zsum lens).
Proof.
  revert prev pos; induction lens as [|l t IH]; intros prev pos Hp Hl.
  - simpl. replace (pos <=? prev) with false by lia. unfold zsum; simpl. f_equal. lia.
  - inversion Hl as [|? ? H1 H2]; subst. cbn [offsets_from increasing_from].
    replace (pos <=? prev) with false by lia.
    rewrite IH by (try lia; exact H2). unfold zsum. cbn [sumZ]. f_equal. lia.
Qed.

Lemma offsets_from_bound pos lens x :
  0 <= pos -> Forall (fun l => 0 <= l) lens -> In x (offsets_from pos lens) ->
  pos <= x <= pos + zsum lens.
Proof.
  revert pos; induction lens as [|l t IH]; intros pos Hp Hl Hin.
  - simpl in Hin. destruct Hin as [<-|[]]. unfold zsum; simpl. lia.
  - inversion Hl as [|? ? H1 H2]; subst. cbn [offsets_from] in Hin.
    unfold zsum; cbn [sumZ]. fold (zsum t).
    destruct Hin as [<-|Hin].
    + assert (0 <= zsum t) by (apply sumZ_nonneg; intros y Hy; rewrite Forall_forall in H2; apply H2; exact Hy). lia.
    + apply IH in Hin; [|lia|exact H2]. lia.
Qed.

(* ------------------------------------------------------------------ *)
(* skipping whole frames in a concatenation *)

Lemma concat_skipn_cons {A} (l : list (list A)) k :
  (k < List.length l)%nat ->
  List.concat (skipn k l) = nth k l [] ++ List.concat (skipn (S k) l).
Proof.
  revert k; induction l as [|x t IH]; intros k Hk; [simpl in Hk; lia|].
  destruct k as [|k]; [reflexivity|]. cbn [skipn nth]. apply IH. simpl in Hk; lia.
Qed.

Lemma skipn_concat_frames (frames : list (list Z)) k :
  (k <= List.length frames)%nat ->
  zskipn (zsum (firstn k (map zlen frames))) (List.concat frames) = List.concat (skipn k frames).
Proof.
  revert k; induction frames as [|f t IH]; intros k Hk.
  - destruct k; [reflexivity|simpl in Hk; lia].
  - destruct k as [|k]; [reflexivity|].
    cbn [map firstn List.concat skipn]. unfold zsum. cbn [sumZ]. fold (zsum (firstn k (map zlen t))).
    rewrite zskipn_add.
    + rewrite zskipn_app_exact by reflexivity. apply IH. simpl in Hk; lia.
    + apply zlen_nonneg.
    + apply sumZ_nonneg. intros x Hx. apply in_firstn in Hx.
      apply in_map_iff in Hx as (y & <- & _). apply zlen_nonneg.
Qed.
