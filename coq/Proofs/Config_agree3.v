(* Proofs/Config_agree3.v — Part 4: the configurations the two front ends hand to validateConfig,
   written out field by field; GC.get and GC.NewFromYaml are shown to have exactly this shape. *)
From BR Require Import Base.Prelude Gen.Config Model.Config Bridge.Bridge_Config Proofs.Config_agree Proofs.Config_agree2.
Open Scope string_scope.
Open Scope Z_scope.

Definition flags_HTTPAddress (ctx : Ctx) : string :=
  if String.eqb (Ctx_String ctx "http_address") "" then join_host_port (Ctx_String ctx "host") (itoa (Ctx_Int ctx "port"))
  else Ctx_String ctx "http_address".
Definition flags_GRPCAddress (ctx : Ctx) : string :=
  if String.eqb (Ctx_String ctx "grpc_address") "" && (Ctx_Int ctx "grpc_port" >? 0)
  then join_host_port (Ctx_String ctx "host") (itoa (Ctx_Int ctx "grpc_port")) else Ctx_String ctx "grpc_address".
Definition flags_ProfileAddress (ctx : Ctx) : string :=
  if String.eqb (Ctx_String ctx "profile_address") "" && (Ctx_Int ctx "profile_port" >? 0)
  then join_host_port (Ctx_String ctx "profile_host") (itoa (Ctx_Int ctx "profile_port"))
  else if String.eqb (Ctx_String ctx "profile_address") "none" then "" else Ctx_String ctx "profile_address".

Definition yaml_HTTPAddress (y : YamlData) : string :=
  if String.eqb (yS y "http_address" "") "" then join_host_port (yS y "host" "") (itoa (yI y "port" 0))
  else yS y "http_address" "".
Definition yaml_GRPCAddress (y : YamlData) : string :=
  if String.eqb (yS y "grpc_address" "") "" && (yI y "grpc_port" 0 >? 0)
  then join_host_port (yS y "host" "") (itoa (yI y "grpc_port" 0)) else yS y "grpc_address" "".
Definition yaml_ProfileAddress (y : YamlData) : string :=
  if String.eqb (yS y "profile_address" "") "" && (yI y "profile_port" 0 >? 0)
  then join_host_port (yS y "profile_host" "") (itoa (yI y "profile_port" 0))
  else if String.eqb (yS y "profile_address" "") "none" then "" else yS y "profile_address" "".

(* the configuration get() hands to validateConfig, field by field (hHTTPBackend / hGRPCBackend:
   the two URL sections, built separately because url.Parse can fail) *)
Definition flags_cfg (ctx : Ctx) (hHTTPBackend hGRPCBackend : option URLBackendConfig) : Config :=
  mkConfig
    (flags_HTTPAddress ctx)
    (flags_GRPCAddress ctx)
    (flags_ProfileAddress ctx)
    (Ctx_String ctx "dir")
    (Ctx_Int ctx "max_size")
    (Ctx_Int ctx "max_size_hard_limit")
    (Ctx_String ctx "storage_mode")
    (Ctx_String ctx "zstd_implementation")
    (Ctx_String ctx "htpasswd_file")
    (if negb (String.eqb (Ctx_String ctx "ldap.url") "") then Some {| LDAPConfig_URL := Ctx_String ctx "ldap.url";
     LDAPConfig_BaseDN := Ctx_String ctx "ldap.base_dn";
     LDAPConfig_BindUser := Ctx_String ctx "ldap.bind_user";
     LDAPConfig_BindPassword := Ctx_String ctx "ldap.bind_password";
     LDAPConfig_UsernameAttribute := Ctx_String ctx "ldap.username_attribute";
     LDAPConfig_GroupsQuery := Ctx_String ctx "ldap.groups_query";
     LDAPConfig_CacheTime := Ctx_Duration ctx "ldap.cache_time" |} else None)
    (Ctx_String ctx "min_tls_version")
    (Ctx_String ctx "tls_ca_file")
    (Ctx_String ctx "tls_cert_file")
    (Ctx_String ctx "tls_key_file")
    (Ctx_Bool ctx "allow_unauthenticated_reads")
    (if negb (String.eqb (Ctx_String ctx "s3.bucket") "") then Some {| S3CloudStorageConfig_Endpoint := Ctx_String ctx "s3.endpoint";
     S3CloudStorageConfig_Bucket := Ctx_String ctx "s3.bucket";
     S3CloudStorageConfig_Prefix := Ctx_String ctx "s3.prefix";
     S3CloudStorageConfig_AuthMethod := Ctx_String ctx "s3.auth_method";
     S3CloudStorageConfig_AccessKeyID := Ctx_String ctx "s3.access_key_id";
     S3CloudStorageConfig_SecretAccessKey := Ctx_String ctx "s3.secret_access_key";
     S3CloudStorageConfig_SessionToken := Ctx_String ctx "s3.session_token";
     S3CloudStorageConfig_SignatureType := Ctx_String ctx "s3.signature_type";
     S3CloudStorageConfig_DisableSSL := Ctx_Bool ctx "s3.disable_ssl";
     S3CloudStorageConfig_UpdateTimestamps := Ctx_Bool ctx "s3.update_timestamps";
     S3CloudStorageConfig_IAMRoleEndpoint := Ctx_String ctx "s3.iam_role_endpoint";
     S3CloudStorageConfig_Region := Ctx_String ctx "s3.region";
     S3CloudStorageConfig_KeyVersion := None;
     S3CloudStorageConfig_AWSProfile := Ctx_String ctx "s3.aws_profile";
     S3CloudStorageConfig_AWSSharedCredentialsFile := Ctx_String ctx "s3.aws_shared_credentials_file";
     S3CloudStorageConfig_BucketLookupType := Ctx_String ctx "s3.bucket_lookup_type";
     S3CloudStorageConfig_MaxIdleConns := Ctx_Int ctx "s3.max_idle_conns" |} else None)
    (if negb (String.eqb (Ctx_String ctx "azblob.tenant_id") "") then Some {| AzBlobStorageConfig_StorageAccount := Ctx_String ctx "azblob.storage_account";
     AzBlobStorageConfig_ContainerName := Ctx_String ctx "azblob.container_name";
     AzBlobStorageConfig_Prefix := Ctx_String ctx "azblob.prefix";
     AzBlobStorageConfig_AuthMethod := Ctx_String ctx "azblob.auth_method";
     AzBlobStorageConfig_TenantID := Ctx_String ctx "azblob.tenant_id";
     AzBlobStorageConfig_ClientID := Ctx_String ctx "azblob.client_id";
     AzBlobStorageConfig_ClientSecret := Ctx_String ctx "azblob.client_secret";
     AzBlobStorageConfig_CertPath := Ctx_String ctx "azblob.cert_path";
     AzBlobStorageConfig_SharedKey := Ctx_String ctx "azblob.shared_key";
     AzBlobStorageConfig_UpdateTimestamps := Ctx_Bool ctx "azblob.update_timestamps" |} else None)
    (if negb (String.eqb (Ctx_String ctx "gcs_proxy.bucket") "") then Some {| GoogleCloudStorageConfig_Bucket := Ctx_String ctx "gcs_proxy.bucket";
     GoogleCloudStorageConfig_UseDefaultCredentials := Ctx_Bool ctx "gcs_proxy.use_default_credentials";
     GoogleCloudStorageConfig_JSONCredentialsFile := Ctx_String ctx "gcs_proxy.json_credentials_file" |} else None)
    hHTTPBackend
    hGRPCBackend
    (Ctx_Int ctx "num_uploaders")
    (Ctx_Int ctx "max_queued_uploads")
    (Ctx_Duration ctx "idle_timeout")
    (Ctx_Bool ctx "disable_http_ac_validation")
    (Ctx_Bool ctx "disable_grpc_ac_deps_check")
    (Ctx_Bool ctx "enable_ac_key_instance_mangling")
    (Ctx_Bool ctx "enable_endpoint_metrics")
    pkgvar_defaultDurationBuckets
    (Ctx_Bool ctx "http_metrics_prefix")
    (Ctx_Bool ctx "experimental_remote_asset_api")
    (Ctx_Duration ctx "http_read_timeout")
    (Ctx_Duration ctx "http_write_timeout")
    (Ctx_String ctx "access_log_level")
    (Ctx_String ctx "log_timezone")
    (Ctx_Int64 ctx "max_blob_size")
    (Ctx_Int64 ctx "max_proxy_blob_size").

(* the configuration NewFromYaml hands to validateConfig *)
Definition yaml_cfg (y : YamlData) (hHTTPBackend hGRPCBackend : option URLBackendConfig) : Config :=
  mkConfig
    (yaml_HTTPAddress y)
    (yaml_GRPCAddress y)
    (yaml_ProfileAddress y)
    (yS y "dir" "")
    (yI y "max_size" 0)
    (yI y "max_size_hard_limit" 0)
    (yS y "storage_mode" "zstd")
    (yS y "zstd_implementation" "go")
    (yS y "htpasswd_file" "")
    (if yaml_present y ["ldap.url"; "ldap.base_dn"; "ldap.bind_user"; "ldap.bind_password"; "ldap.username_attribute"; "ldap.groups_query"; "ldap.cache_time"] then Some {| LDAPConfig_URL := yS y "ldap.url" "";
     LDAPConfig_BaseDN := yS y "ldap.base_dn" "";
     LDAPConfig_BindUser := yS y "ldap.bind_user" "";
     LDAPConfig_BindPassword := yS y "ldap.bind_password" "";
     LDAPConfig_UsernameAttribute := yS y "ldap.username_attribute" "";
     LDAPConfig_GroupsQuery := yS y "ldap.groups_query" "";
     LDAPConfig_CacheTime := yD y "ldap.cache_time" 0 |} else None)
    (yS y "min_tls_version" "1.0")
    (yS y "tls_ca_file" "")
    (yS y "tls_cert_file" "")
    (yS y "tls_key_file" "")
    (yB y "allow_unauthenticated_reads" false)
    (if yaml_present y ["s3_proxy.endpoint"; "s3_proxy.bucket"; "s3_proxy.prefix"; "s3_proxy.auth_method"; "s3_proxy.access_key_id"; "s3_proxy.secret_access_key"; "s3_proxy.session_token"; "s3_proxy.signature_type"; "s3_proxy.disable_ssl"; "s3_proxy.update_timestamps"; "s3_proxy.iam_role_endpoint"; "s3_proxy.region"; "s3_proxy.key_version"; "s3_proxy.aws_profile"; "s3_proxy.aws_shared_credentials_file"; "s3_proxy.bucket_lookup_type"; "s3_proxy.max_idle_conns"] then Some {| S3CloudStorageConfig_Endpoint := yS y "s3_proxy.endpoint" "";
     S3CloudStorageConfig_Bucket := yS y "s3_proxy.bucket" "";
     S3CloudStorageConfig_Prefix := yS y "s3_proxy.prefix" "";
     S3CloudStorageConfig_AuthMethod := yS y "s3_proxy.auth_method" "";
     S3CloudStorageConfig_AccessKeyID := yS y "s3_proxy.access_key_id" "";
     S3CloudStorageConfig_SecretAccessKey := yS y "s3_proxy.secret_access_key" "";
     S3CloudStorageConfig_SessionToken := yS y "s3_proxy.session_token" "";
     S3CloudStorageConfig_SignatureType := yS y "s3_proxy.signature_type" "";
     S3CloudStorageConfig_DisableSSL := yB y "s3_proxy.disable_ssl" false;
     S3CloudStorageConfig_UpdateTimestamps := yB y "s3_proxy.update_timestamps" false;
     S3CloudStorageConfig_IAMRoleEndpoint := yS y "s3_proxy.iam_role_endpoint" "";
     S3CloudStorageConfig_Region := yS y "s3_proxy.region" "";
     S3CloudStorageConfig_KeyVersion := yP y "s3_proxy.key_version" None;
     S3CloudStorageConfig_AWSProfile := yS y "s3_proxy.aws_profile" "";
     S3CloudStorageConfig_AWSSharedCredentialsFile := yS y "s3_proxy.aws_shared_credentials_file" "";
     S3CloudStorageConfig_BucketLookupType := yS y "s3_proxy.bucket_lookup_type" "";
     S3CloudStorageConfig_MaxIdleConns := yI y "s3_proxy.max_idle_conns" 0 |} else None)
    (if yaml_present y ["azblob_proxy.storage_account"; "azblob_proxy.container_name"; "azblob_proxy.prefix"; "azblob_proxy.auth_method"; "azblob_proxy.tenant_id"; "azblob_proxy.client_id"; "azblob_proxy.client_secret"; "azblob_proxy.cert_path"; "azblob_proxy.shared_key"; "azblob_proxy.update_timestamps"] then Some {| AzBlobStorageConfig_StorageAccount := yS y "azblob_proxy.storage_account" "";
     AzBlobStorageConfig_ContainerName := yS y "azblob_proxy.container_name" "";
     AzBlobStorageConfig_Prefix := yS y "azblob_proxy.prefix" "";
     AzBlobStorageConfig_AuthMethod := yS y "azblob_proxy.auth_method" "";
     AzBlobStorageConfig_TenantID := yS y "azblob_proxy.tenant_id" "";
     AzBlobStorageConfig_ClientID := yS y "azblob_proxy.client_id" "";
     AzBlobStorageConfig_ClientSecret := yS y "azblob_proxy.client_secret" "";
     AzBlobStorageConfig_CertPath := yS y "azblob_proxy.cert_path" "";
     AzBlobStorageConfig_SharedKey := yS y "azblob_proxy.shared_key" "";
     AzBlobStorageConfig_UpdateTimestamps := yB y "azblob_proxy.update_timestamps" false |} else None)
    (if yaml_present y ["gcs_proxy.bucket"; "gcs_proxy.use_default_credentials"; "gcs_proxy.json_credentials_file"] then Some {| GoogleCloudStorageConfig_Bucket := yS y "gcs_proxy.bucket" "";
     GoogleCloudStorageConfig_UseDefaultCredentials := yB y "gcs_proxy.use_default_credentials" false;
     GoogleCloudStorageConfig_JSONCredentialsFile := yS y "gcs_proxy.json_credentials_file" "" |} else None)
    hHTTPBackend
    hGRPCBackend
    (yI y "num_uploaders" 100)
    (yI y "max_queued_uploads" 1000000)
    (yD y "idle_timeout" 0)
    (yB y "disable_http_ac_validation" false)
    (yB y "disable_grpc_ac_deps_check" false)
    (yB y "enable_ac_key_instance_mangling" false)
    (yB y "enable_endpoint_metrics" false)
    (option_map sort_Z (yL y "endpoint_metrics_duration_buckets" pkgvar_defaultDurationBuckets))
    (yB y "http_metrics_prefix" false)
    (yB y "experimental_remote_asset_api" false)
    (yD y "http_read_timeout" 0)
    (yD y "http_write_timeout" 0)
    (yS y "access_log_level" "all")
    (yS y "log_timezone" "UTC")
    (yI y "max_blob_size" 9223372036854775807)
    (yI y "max_proxy_blob_size" 9223372036854775807).

Definition flags_HTTPBackend (ctx : Ctx) (u : URL) : URLBackendConfig := {| URLBackendConfig_BaseURL := Some u; URLBackendConfig_CertFile := Ctx_String ctx "http_proxy.cert_file"; URLBackendConfig_KeyFile := Ctx_String ctx "http_proxy.key_file"; URLBackendConfig_CaFile := Ctx_String ctx "http_proxy.ca_file" |}.
Definition yaml_HTTPBackend (y : YamlData) (u : URL) : URLBackendConfig := {| URLBackendConfig_BaseURL := Some u; URLBackendConfig_CertFile := yS y "http_proxy.cert_file" ""; URLBackendConfig_KeyFile := yS y "http_proxy.key_file" ""; URLBackendConfig_CaFile := yS y "http_proxy.ca_file" "" |}.

Definition flags_GRPCBackend (ctx : Ctx) (u : URL) : URLBackendConfig := {| URLBackendConfig_BaseURL := Some u; URLBackendConfig_CertFile := Ctx_String ctx "grpc_proxy.cert_file"; URLBackendConfig_KeyFile := Ctx_String ctx "grpc_proxy.key_file"; URLBackendConfig_CaFile := Ctx_String ctx "grpc_proxy.ca_file" |}.
Definition yaml_GRPCBackend (y : YamlData) (u : URL) : URLBackendConfig := {| URLBackendConfig_BaseURL := Some u; URLBackendConfig_CertFile := yS y "grpc_proxy.cert_file" ""; URLBackendConfig_KeyFile := yS y "grpc_proxy.key_file" ""; URLBackendConfig_CaFile := yS y "grpc_proxy.ca_file" "" |}.

(* Comparisons of a generated function with its written-out shape must FAIL FAST when the source
   changed: both sides are normalised with a fixed list of definitions to unfold (validateConfig and
   the readers stay folded) and then compared syntactically; a bounded conversion is the fallback. *)
Ltac same_term :=
  lazymatch goal with
  | |- ?a = ?b => first [ constr_eq a b | fail 1 "the two sides differ" ]
  end; exact eq_refl.

Definition url_section (present : bool) (parsed : option URL) (mk : URL -> URLBackendConfig) (e : Z)
  : result (option URLBackendConfig) :=
  if present then match parsed with Some u => Ok (Some (mk u)) | None => Err (EOther e) end else Ok None.

Lemma flags_shape up ctx :
  get (model_ext up) ctx =
  if negb (String.eqb (Ctx_String ctx "config_file") "") then newFromYamlFile (model_ext up) (Ctx_String ctx "config_file") else
  bind (url_section (negb (String.eqb (Ctx_String ctx "http_proxy.url") "")) (up (Ctx_String ctx "http_proxy.url")) (flags_HTTPBackend ctx) 301)
    (fun hc =>
  bind (url_section (negb (String.eqb (Ctx_String ctx "grpc_proxy.url") "")) (up (Ctx_String ctx "grpc_proxy.url")) (flags_GRPCBackend ctx) 302)
    (fun gb =>
  bind (validateConfig (model_ext up) (flags_cfg ctx hc gb)) (fun c => Ok c))).
Proof.
  cbv beta iota zeta delta [get newFromArgs flags_cfg url_section flags_HTTPBackend flags_GRPCBackend
    flags_HTTPAddress flags_GRPCAddress flags_ProfileAddress model_ext url_Parse net_JoinHostPort strconv_Itoa
    newFromYamlFile].
  same_term.
Qed.

Definition http_keys : list string := ["http_proxy.url"; "http_proxy.cert_file"; "http_proxy.key_file"; "http_proxy.ca_file"].
Definition grpc_keys : list string := ["grpc_proxy.url"; "grpc_proxy.cert_file"; "grpc_proxy.key_file"; "grpc_proxy.ca_file"].
Definition dummy_url : URL := mkURL "" "".

Definition yaml_section (present : bool) (u : URL) (mk : URL -> URLBackendConfig) : option URLBackendConfig :=
  if present then Some (mk u) else None.

(* NewFromYaml's post-processing of the unmarshalled document *)
Definition yaml_post (yc : YamlConfig) : Config :=
  let c := YamlConfig_Config yc in
  let c := if String.eqb (Config_HTTPAddress c) ""
           then set_Config_HTTPAddress (join_host_port (YamlConfig_Host yc) (itoa (YamlConfig_Port yc))) c else c in
  let c := if String.eqb (Config_GRPCAddress c) "" && (YamlConfig_GRPCPort yc >? 0)
           then set_Config_GRPCAddress (join_host_port (YamlConfig_Host yc) (itoa (YamlConfig_GRPCPort yc))) c else c in
  let c := if String.eqb (Config_ProfileAddress c) "" && (YamlConfig_ProfilePort yc >? 0)
           then set_Config_ProfileAddress (join_host_port (YamlConfig_ProfileHost yc) (itoa (YamlConfig_ProfilePort yc))) c
           else if String.eqb (Config_ProfileAddress c) "none" then set_Config_ProfileAddress "" c else c in
  match Config_MetricsDurationBuckets c with
  | Some g => set_Config_MetricsDurationBuckets (Some (sort_Z g)) c
  | None => c
  end.

(* the struct NewFromYaml pre-populates (taken out of the generated function) *)
Definition yaml_defaults : YamlConfig :=
  ltac:(let t := eval cbv beta delta [NewFromYaml] in (NewFromYaml (model_ext (fun _ => None)) (fun _ => None)) in
        lazymatch t with (let v := ?d in _) => exact d end).

Lemma NewFromYaml_shape up y :
  NewFromYaml (model_ext up) y =
  match yaml_Unmarshal_by_tags up y yaml_defaults with
  | Some yc => bind (validateConfig (model_ext up) (yaml_post yc)) (fun c => Ok c)
  | None => Err (EOther 201)
  end.
Proof.
  cbv beta iota zeta delta [NewFromYaml yaml_post yaml_defaults model_ext yaml_Unmarshal net_JoinHostPort strconv_Itoa
    sort_Float64s].
  same_term.
Qed.

Lemma yaml_post_normal yc :
  yaml_post yc =
  let c0 := YamlConfig_Config yc in
  let h := if String.eqb (Config_HTTPAddress c0) "" then join_host_port (YamlConfig_Host yc) (itoa (YamlConfig_Port yc)) else Config_HTTPAddress c0 in
  let g := if String.eqb (Config_GRPCAddress c0) "" && (YamlConfig_GRPCPort yc >? 0)
           then join_host_port (YamlConfig_Host yc) (itoa (YamlConfig_GRPCPort yc)) else Config_GRPCAddress c0 in
  let p := if String.eqb (Config_ProfileAddress c0) "" && (YamlConfig_ProfilePort yc >? 0)
           then join_host_port (YamlConfig_ProfileHost yc) (itoa (YamlConfig_ProfilePort yc))
           else if String.eqb (Config_ProfileAddress c0) "none" then "" else Config_ProfileAddress c0 in
  set_Config_MetricsDurationBuckets (option_map sort_Z (Config_MetricsDurationBuckets c0))
    (set_Config_ProfileAddress p (set_Config_GRPCAddress g (set_Config_HTTPAddress h c0))).
Proof.
  unfold yaml_post. cbv zeta. rewrite post_http.
  set (c1 := set_Config_HTTPAddress _ _).
  replace (Config_GRPCAddress c1) with (Config_GRPCAddress (YamlConfig_Config yc)) by (subst c1; destruct (YamlConfig_Config yc); reflexivity).
  rewrite post_grpc.
  replace (Config_GRPCAddress c1) with (Config_GRPCAddress (YamlConfig_Config yc)) by (subst c1; destruct (YamlConfig_Config yc); reflexivity).
  set (c2 := set_Config_GRPCAddress _ _).
  replace (Config_ProfileAddress c2) with (Config_ProfileAddress (YamlConfig_Config yc))
    by (subst c2 c1; destruct (YamlConfig_Config yc); reflexivity).
  rewrite post_profile.
  replace (Config_ProfileAddress c2) with (Config_ProfileAddress (YamlConfig_Config yc))
    by (subst c2 c1; destruct (YamlConfig_Config yc); reflexivity).
  set (c3 := set_Config_ProfileAddress _ _).
  rewrite post_buckets.
  replace (Config_MetricsDurationBuckets c3) with (Config_MetricsDurationBuckets (YamlConfig_Config yc))
    by (subst c3 c2 c1; destruct (YamlConfig_Config yc); reflexivity).
  reflexivity.
Qed.

Lemma yaml_shape up y : yaml_types_ok y = true ->
  NewFromYaml (model_ext up) y =
  match (if yaml_present y http_keys then up (yS y "http_proxy.url" "") else Some dummy_url) with
  | None => Err (EOther 201)
  | Some u0 =>
    match (if yaml_present y grpc_keys then up (yS y "grpc_proxy.url" "") else Some dummy_url) with
    | None => Err (EOther 201)
    | Some u1 =>
      bind (validateConfig (model_ext up)
              (yaml_cfg y (yaml_section (yaml_present y http_keys) u0 (yaml_HTTPBackend y))
                          (yaml_section (yaml_present y grpc_keys) u1 (yaml_GRPCBackend y))))
           (fun c => Ok c)
    end
  end.
Proof.
  intros T. rewrite NewFromYaml_shape. unfold yaml_Unmarshal_by_tags. rewrite T. cbn [negb].
  fold http_keys. fold grpc_keys. fold dummy_url.
  destruct (if yaml_present y http_keys then up (yS y "http_proxy.url" "") else Some dummy_url) as [u0|]; [|reflexivity].
  destruct (if yaml_present y grpc_keys then up (yS y "grpc_proxy.url" "") else Some dummy_url) as [u1|]; [|reflexivity].
  f_equal. f_equal. rewrite yaml_post_normal. vm_compute. same_term.
Qed.

(* ------------------------------------------------------------------ *)
(* Part 5: the two configurations are equal up to [canon] *)

Section Main.
  Variable up : string -> option URL.
  Variable s : settings.
  Hypothesis Hflags : flags_ok s = true.
  Hypothesis Hyaml : yaml_keys_ok s = true.
  Hypothesis Hlisten : listeners_explicit s = true.
  Hypothesis Hcache : lookup "ldap.cache_time" s = None.
  Hypothesis Hsec : sections_triggered s = true.
  Hypothesis Hs3 : s3_defaults_given s = true.

  Let G := fun n => lookup n s.
  Let ctx := ctx_of G.
  Let y := yaml_data_of G.

  Ltac trig t := rewrite (str_given_flag s Hflags t "") by (vm_compute; reflexivity).
  Ltac rS k yk d := try rewrite (ctxS s Hflags k yk d) by (vm_compute; reflexivity).
  Ltac rB k yk d := try rewrite (ctxB s Hflags k yk d) by (vm_compute; reflexivity).
  Ltac rD k yk d := try rewrite (ctxD s Hflags k yk d) by (vm_compute; reflexivity).
  Ltac rI k yk d :=
    let H := fresh in
    assert (H := ctxI s Hflags k yk d); destruct H as [?H ?H]; [vm_compute; reflexivity|vm_compute; reflexivity|];
    repeat match goal with E : Ctx_Int _ k = _ |- _ => try rewrite E; clear E
                      | E : Ctx_Int64 _ k = _ |- _ => try rewrite E; clear E end.
  Ltac sec ytrig trig :=
    let fls := eval vm_compute in (flags_for trig) in
    match goal with
    | |- context [yaml_present _ (?h :: ?t)] =>
      rewrite (section_present s Hflags (h :: t) fls trig ytrig)
        by first [ vm_compute; reflexivity
                 | apply (trig_imp s Hsec); unfold trig_table; simpl; repeat (first [left; reflexivity | right])
                 | simpl; repeat (first [left; reflexivity | right]) ]
    end.
  (* every flag read as the read of its YAML key *)
  Ltac reads :=
    unfold ctx, y, G; try rewrite (cache_time_zero s Hcache);
    rS "dir" "dir" ""; rI "max_size" "max_size" 0; rI "max_size_hard_limit" "max_size_hard_limit" (-1); rS
    "storage_mode" "storage_mode" "zstd"; rS "zstd_implementation" "zstd_implementation" "go"; rS
    "http_address" "http_address" ""; rS "host" "host" ""; rI "port" "port" 8080; rS "grpc_address"
    "grpc_address" ""; rI "grpc_port" "grpc_port" 9092; rS "profile_address" "profile_address" ""; rS
    "profile_host" "profile_host" "127.0.0.1"; rI "profile_port" "profile_port" 0; rD "http_read_timeout"
    "http_read_timeout" 0; rD "http_write_timeout" "http_write_timeout" 0; rS "htpasswd_file" "htpasswd_file"
    ""; rS "min_tls_version" "min_tls_version" "1.0"; rS "tls_ca_file" "tls_ca_file" ""; rS "tls_cert_file"
    "tls_cert_file" ""; rS "tls_key_file" "tls_key_file" ""; rB "allow_unauthenticated_reads"
    "allow_unauthenticated_reads" false; rD "idle_timeout" "idle_timeout" 0; rI "max_queued_uploads"
    "max_queued_uploads" 1000000; rI "max_blob_size" "max_blob_size" 9223372036854775807; rI
    "max_proxy_blob_size" "max_proxy_blob_size" 9223372036854775807; rI "num_uploaders" "num_uploaders" 100;
    rS "grpc_proxy.url" "grpc_proxy.url" ""; rS "grpc_proxy.key_file" "grpc_proxy.key_file" ""; rS
    "grpc_proxy.cert_file" "grpc_proxy.cert_file" ""; rS "grpc_proxy.ca_file" "grpc_proxy.ca_file" ""; rS
    "http_proxy.url" "http_proxy.url" ""; rS "http_proxy.key_file" "http_proxy.key_file" ""; rS
    "http_proxy.cert_file" "http_proxy.cert_file" ""; rS "http_proxy.ca_file" "http_proxy.ca_file" ""; rS
    "gcs_proxy.bucket" "gcs_proxy.bucket" ""; rB "gcs_proxy.use_default_credentials"
    "gcs_proxy.use_default_credentials" false; rS "gcs_proxy.json_credentials_file"
    "gcs_proxy.json_credentials_file" ""; rS "ldap.url" "ldap.url" ""; rS "ldap.base_dn" "ldap.base_dn" ""; rS
    "ldap.bind_user" "ldap.bind_user" ""; rS "ldap.bind_password" "ldap.bind_password" ""; rS
    "ldap.username_attribute" "ldap.username_attribute" "uid"; rS "ldap.groups_query" "ldap.groups_query" "";
    rS "s3.endpoint" "s3_proxy.endpoint" ""; rS "s3.bucket" "s3_proxy.bucket" ""; rS "s3.bucket_lookup_type"
    "s3_proxy.bucket_lookup_type" "auto"; rS "s3.prefix" "s3_proxy.prefix" ""; rS "s3.auth_method"
    "s3_proxy.auth_method" ""; rS "s3.access_key_id" "s3_proxy.access_key_id" ""; rS "s3.secret_access_key"
    "s3_proxy.secret_access_key" ""; rS "s3.session_token" "s3_proxy.session_token" ""; rS "s3.signature_type"
    "s3_proxy.signature_type" ""; rS "s3.aws_shared_credentials_file" "s3_proxy.aws_shared_credentials_file"
    ""; rS "s3.aws_profile" "s3_proxy.aws_profile" "default"; rB "s3.disable_ssl" "s3_proxy.disable_ssl"
    false; rB "s3.update_timestamps" "s3_proxy.update_timestamps" false; rS "s3.iam_role_endpoint"
    "s3_proxy.iam_role_endpoint" ""; rS "s3.region" "s3_proxy.region" ""; rI "s3.max_idle_conns"
    "s3_proxy.max_idle_conns" 0; rS "azblob.tenant_id" "azblob_proxy.tenant_id" ""; rS
    "azblob.storage_account" "azblob_proxy.storage_account" ""; rS "azblob.container_name"
    "azblob_proxy.container_name" ""; rS "azblob.prefix" "azblob_proxy.prefix" ""; rB
    "azblob.update_timestamps" "azblob_proxy.update_timestamps" false; rS "azblob.auth_method"
    "azblob_proxy.auth_method" ""; rS "azblob.shared_key" "azblob_proxy.shared_key" ""; rS "azblob.client_id"
    "azblob_proxy.client_id" ""; rS "azblob.client_secret" "azblob_proxy.client_secret" ""; rS
    "azblob.cert_path" "azblob_proxy.cert_path" ""; rB "disable_http_ac_validation"
    "disable_http_ac_validation" false; rB "disable_grpc_ac_deps_check" "disable_grpc_ac_deps_check" false; rB
    "enable_ac_key_instance_mangling" "enable_ac_key_instance_mangling" false; rB "enable_endpoint_metrics"
    "enable_endpoint_metrics" false; rB "http_metrics_prefix" "http_metrics_prefix" false; rB
    "experimental_remote_asset_api" "experimental_remote_asset_api" false; rS "access_log_level"
    "access_log_level" "all"; rS "log_timezone" "log_timezone" "UTC".

  (* a key that is no flag is not among the settings *)
  Lemma not_a_flag k : find_flag k cli_flags = None -> G k = None.
  Proof.
    intros F. destruct (G k) as [v|] eqn:E; [|reflexivity].
    apply (G_typed s Hflags) in E. unfold flag_accepts in E. rewrite F in E. discriminate.
  Qed.

  Lemma y_given_S k yk d d' : flag_is k KString (VS d) = true -> settings_key yk = k -> present s k = true ->
    yS y yk d = yS y yk d'.
  Proof.
    intros F K P. unfold y, yaml_data_of, yS. rewrite K. unfold present in P. fold (G k) in P.
    destruct (G k) as [v|] eqn:E; [|discriminate].
    pose proof (typed_as s Hflags _ _ _ _ F E) as T. destruct v; simpl in T; try discriminate. reflexivity.
  Qed.

  Lemma y_given_I k yk d d' : (flag_is k KInt (VI d) || flag_is k KInt64 (VI d)) = true -> settings_key yk = k ->
    present s k = true -> yI y yk d = yI y yk d'.
  Proof.
    intros F K P. unfold y, yaml_data_of, yI. rewrite K. unfold present in P. fold (G k) in P.
    destruct (G k) as [v|] eqn:E; [|discriminate].
    apply orb_true_iff in F. destruct F as [F|F]; pose proof (typed_as s Hflags _ _ _ _ F E) as T;
      destruct v; simpl in T; try discriminate; reflexivity.
  Qed.

  Lemma y_nonempty k yk d : str_given s k = true -> settings_key yk = k -> String.eqb (yS y yk d) "" = false.
  Proof.
    intros P K. unfold y, yaml_data_of, yS. rewrite K. unfold str_given in P. fold (G k) in P.
    destruct (G k) as [[x| | | |]|]; try discriminate. unfold nonempty in P. apply negb_true_iff in P. exact P.
  Qed.

  Lemma y_not_pos k yk : (flag_is k KInt (VI 0) || flag_is k KInt64 (VI 0)) = true -> settings_key yk = k ->
    int_pos s k = false -> (yI y yk 0 >? 0) = false.
  Proof.
    intros F K P. unfold y, yaml_data_of, yI. rewrite K. unfold int_pos in P. fold (G k) in P.
    destruct (G k) as [v|] eqn:E; [|reflexivity].
    apply orb_true_iff in F. destruct F as [F|F]; pose proof (typed_as s Hflags _ _ _ _ F E) as T;
      destruct v; simpl in T; try discriminate; exact P.
  Qed.

  Lemma http_address_eq : flags_HTTPAddress ctx = yaml_HTTPAddress y.
  Proof.
    unfold flags_HTTPAddress, yaml_HTTPAddress, ctx, y, G.
    rS "http_address" "http_address" ""; rS "host" "host" ""; rI "port" "port" 8080. fold G. fold y.
    unfold listeners_explicit in Hlisten. apply andb_true_iff in Hlisten as [H _]. apply andb_true_iff in H as [H _].
    apply orb_true_iff in H as [H|H].
    - rewrite (y_nonempty "http_address" "http_address" "" H) by reflexivity. reflexivity.
    - rewrite (y_given_I "port" "port" 8080 0) by (try exact H; vm_compute; reflexivity). reflexivity.
  Qed.

  Lemma grpc_address_eq : flags_GRPCAddress ctx = yaml_GRPCAddress y.
  Proof.
    unfold flags_GRPCAddress, yaml_GRPCAddress, ctx, y, G.
    rS "grpc_address" "grpc_address" ""; rS "host" "host" ""; rI "grpc_port" "grpc_port" 9092. fold G. fold y.
    unfold listeners_explicit in Hlisten. apply andb_true_iff in Hlisten as [H _]. apply andb_true_iff in H as [_ H].
    apply orb_true_iff in H as [H|H].
    - rewrite (y_nonempty "grpc_address" "grpc_address" "" H) by reflexivity. reflexivity.
    - rewrite (y_given_I "grpc_port" "grpc_port" 9092 0) by (try exact H; vm_compute; reflexivity). reflexivity.
  Qed.

  Lemma profile_address_eq : flags_ProfileAddress ctx = yaml_ProfileAddress y.
  Proof.
    unfold flags_ProfileAddress, yaml_ProfileAddress, ctx, y, G.
    rS "profile_address" "profile_address" ""; rS "profile_host" "profile_host" "127.0.0.1"; rI "profile_port" "profile_port" 0.
    fold G. fold y.
    unfold listeners_explicit in Hlisten. apply andb_true_iff in Hlisten as [_ H].
    apply orb_true_iff in H as [H|H]; [apply orb_true_iff in H as [H|H]|].
    - rewrite (y_nonempty "profile_address" "profile_address" "" H) by reflexivity. reflexivity.
    - apply negb_true_iff in H.
      rewrite (y_not_pos "profile_port" "profile_port") by (try exact H; vm_compute; reflexivity).
      rewrite andb_false_r. reflexivity.
    - rewrite (y_given_S "profile_host" "profile_host" "127.0.0.1" "") by (try exact H; vm_compute; reflexivity). reflexivity.
  Qed.

  Lemma hard_limit_eq : Z.max 0 (yI y "max_size_hard_limit" (-1)) = Z.max 0 (yI y "max_size_hard_limit" 0).
  Proof.
    unfold y, yaml_data_of, yI. destruct (G (settings_key "max_size_hard_limit")) as [[]|]; reflexivity.
  Qed.

  Lemma buckets_eq : pkgvar_defaultDurationBuckets =
    option_map sort_Z (yL y "endpoint_metrics_duration_buckets" pkgvar_defaultDurationBuckets).
  Proof.
    unfold y, yaml_data_of, yL. change (settings_key "endpoint_metrics_duration_buckets") with "endpoint_metrics_duration_buckets".
    rewrite not_a_flag by (vm_compute; reflexivity). vm_compute. reflexivity.
  Qed.

  Lemma key_version_eq : None = yP y "s3_proxy.key_version" None.
  Proof.
    unfold y, yaml_data_of, yP. change (settings_key "s3_proxy.key_version") with "s3_proxy.key_version".
    rewrite not_a_flag by (vm_compute; reflexivity). reflexivity.
  Qed.

  Lemma ldap_eq u b bu bp gq ct :
    canon_ldap (mkLDAPConfig u b bu bp (yS y "ldap.username_attribute" "uid") gq ct)
    = canon_ldap (mkLDAPConfig u b bu bp (yS y "ldap.username_attribute" "") gq ct).
  Proof.
    unfold y, yaml_data_of, yS. destruct (G (settings_key "ldap.username_attribute")) as [[]|]; reflexivity.
  Qed.

  Lemma ldap_section_eq (b : bool) u bd bu bp gq ct :
    option_map canon_ldap (if b then Some (mkLDAPConfig u bd bu bp (yS y "ldap.username_attribute" "uid") gq ct) else None)
    = option_map canon_ldap (if b then Some (mkLDAPConfig u bd bu bp (yS y "ldap.username_attribute" "") gq ct) else None).
  Proof. destruct b; [|reflexivity]. cbn [option_map]. f_equal. apply ldap_eq. Qed.

  Lemma s3_section_eq a1 a2 a3 a4 a5 a6 a7 a8 a9 a10 a11 a12 a13 a15 a17 :
    (if str_given s "s3.bucket"
     then Some (mkS3CloudStorageConfig a1 a2 a3 a4 a5 a6 a7 a8 a9 a10 a11 a12 a13 (yS y "s3_proxy.aws_profile" "default") a15
                  (yS y "s3_proxy.bucket_lookup_type" "auto") a17) else None)
    = (if str_given s "s3.bucket"
       then Some (mkS3CloudStorageConfig a1 a2 a3 a4 a5 a6 a7 a8 a9 a10 a11 a12 a13 (yS y "s3_proxy.aws_profile" "") a15
                    (yS y "s3_proxy.bucket_lookup_type" "") a17) else None).
  Proof.
    destruct (str_given s "s3.bucket") eqn:E; [|reflexivity].
    unfold s3_defaults_given in Hs3. rewrite E in Hs3. cbn [negb orb] in Hs3. apply andb_true_iff in Hs3 as [P1 P2].
    rewrite (y_given_S "s3.aws_profile" "s3_proxy.aws_profile" "default" "") by (try exact P2; vm_compute; reflexivity).
    rewrite (y_given_S "s3.bucket_lookup_type" "s3_proxy.bucket_lookup_type" "auto" "") by (try exact P1; vm_compute; reflexivity).
    reflexivity.
  Qed.

  Lemma cfg_eq hc gb : canon (flags_cfg ctx hc gb) = canon (yaml_cfg y hc gb).
  Proof.
    unfold canon, flags_cfg, yaml_cfg.
    cbn [Config_HTTPAddress Config_GRPCAddress Config_ProfileAddress Config_Dir Config_MaxSize Config_MaxSizeHardLimit
         Config_StorageMode Config_ZstdImplementation Config_HtpasswdFile Config_LDAP Config_MinTLSVersion Config_TLSCaFile
         Config_TLSCertFile Config_TLSKeyFile Config_AllowUnauthenticatedReads Config_S3CloudStorage Config_AzBlobConfig
         Config_GoogleCloudStorage Config_HTTPBackend Config_GRPCBackend Config_NumUploaders Config_MaxQueuedUploads
         Config_IdleTimeout Config_DisableHTTPACValidation Config_DisableGRPCACDepsCheck Config_EnableACKeyInstanceMangling
         Config_EnableEndpointMetrics Config_MetricsDurationBuckets Config_HttpMetricsPrefix Config_ExperimentalRemoteAssetAPI
         Config_HTTPReadTimeout Config_HTTPWriteTimeout Config_AccessLogLevel Config_LogTimezone Config_MaxBlobSize
         Config_MaxProxyBlobSize].
    rewrite http_address_eq, grpc_address_eq, profile_address_eq, <- buckets_eq.
    unfold ctx, y, G.
    trig "gcs_proxy.bucket"; trig "ldap.url"; trig "s3.bucket"; trig "azblob.tenant_id".
    reads.
    sec "ldap.url" "ldap.url". sec "s3_proxy.bucket" "s3.bucket". sec "azblob_proxy.tenant_id" "azblob.tenant_id".
    sec "gcs_proxy.bucket" "gcs_proxy.bucket".
    fold G. fold y.
    rewrite hard_limit_eq, <- key_version_eq.
    rewrite ldap_section_eq, s3_section_eq. same_term.
  Qed.

  Lemma http_backend_eq u : flags_HTTPBackend ctx u = yaml_HTTPBackend y u.
  Proof.
    unfold flags_HTTPBackend, yaml_HTTPBackend, ctx, y, G.
    rS "http_proxy.cert_file" "http_proxy.cert_file" ""; rS "http_proxy.key_file" "http_proxy.key_file" "";
    rS "http_proxy.ca_file" "http_proxy.ca_file" "". reflexivity.
  Qed.

  Lemma grpc_backend_eq u : flags_GRPCBackend ctx u = yaml_GRPCBackend y u.
  Proof.
    unfold flags_GRPCBackend, yaml_GRPCBackend, ctx, y, G.
    rS "grpc_proxy.cert_file" "grpc_proxy.cert_file" ""; rS "grpc_proxy.key_file" "grpc_proxy.key_file" "";
    rS "grpc_proxy.ca_file" "grpc_proxy.ca_file" "". reflexivity.
  Qed.

  Theorem agree : eff (from_flags (model_ext up) s) = eff (from_yaml (model_ext up) s).
  Proof.
    unfold from_flags, from_yaml. rewrite Hflags, Hyaml.
    rewrite flags_shape, (yaml_shape up _ (yaml_types s Hflags Hcache)).
    rewrite (config_file_empty s Hyaml). cbn [String.eqb negb].
    trig "http_proxy.url". trig "grpc_proxy.url".
    rS "http_proxy.url" "http_proxy.url" "". rS "grpc_proxy.url" "grpc_proxy.url" "".
    unfold http_keys, grpc_keys. sec "http_proxy.url" "http_proxy.url". sec "grpc_proxy.url" "grpc_proxy.url".
    fold G. fold ctx. fold y.
    unfold url_section, yaml_section.
    destruct (str_given s "http_proxy.url"); [destruct (up (yS y "http_proxy.url" "")) as [uh|]|];
      (destruct (str_given s "grpc_proxy.url"); [destruct (up (yS y "grpc_proxy.url" "")) as [ug|]|]);
      cbv beta iota delta [bind]; try lazymatch goal with |- eff (Err _) = eff (Err _) => reflexivity end.
    all: apply finish_eff; rewrite ?http_backend_eq, ?grpc_backend_eq; apply cfg_eq.
  Qed.
End Main.

(* the statement for the settings both syntaxes express alike *)
Theorem agree_partial up s : expressible_in_both s ->
  eff (from_flags (model_ext up) s) = eff (from_yaml (model_ext up) s).
Proof. intros [[Hf [Hy Hl]] [Hc [Hs H3]]]. apply agree; assumption. Qed.
