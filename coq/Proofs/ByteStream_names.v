(* Proofs/ByteStream_names.v — resource names: for every instance prefix without the reserved segment
   and every trailing metadata the parsers yield the embedded hash, size and compressor;
   QueryWriteStatus. *)
From BR Require Import Base.Prelude Model.Keys Model.ByteStream Proofs.Keys_strings.
Open Scope string_scope.
Open Scope Z_scope.

Lemma after_first_skip (kw : string -> bool) pre f rest :
  forallb (fun x => negb (kw x)) pre = true -> kw f = true ->
  after_first kw (pre ++ f :: rest)%list = Some (f, rest).
Proof.
  intros Hp Hf. induction pre as [|a pre IH]; cbn [List.app after_first].
  - rewrite Hf. reflexivity.
  - cbn [forallb] in Hp. apply andb_true_iff in Hp as [Ha Hp]. apply negb_true_iff in Ha.
    rewrite Ha. apply IH. exact Hp.
Qed.

Lemma parse_size_hash_ok h szs sz cmp :
  parse_int64 szs = Some sz -> 0 <= sz -> validate_hash h sz = Ok tt ->
  parse_size_hash h szs cmp = Ok (h, sz, cmp).
Proof.
  intros P N V. unfold parse_size_hash, lift_validate. rewrite P.
  destruct (sz <? 0) eqn:E; [lia|]. rewrite V. reflexivity.
Qed.

Definition not_kw (w : string) (seg : string) : bool := negb (String.eqb w seg).

(* ---- write names, on the list of path segments *)
Lemma parse_write_fields_blobs inst uuid h szs sz meta :
  forallb (not_kw "uploads") inst = true ->
  parse_int64 szs = Some sz -> 0 <= sz -> validate_hash h sz = Ok tt ->
  parse_write_fields (inst ++ "uploads" :: uuid :: "blobs" :: h :: szs :: meta)%list = Ok (h, sz, cmp_identity).
Proof.
  intros Hi P N V. unfold parse_write_fields.
  rewrite (after_first_skip (String.eqb "uploads") inst "uploads"); [|exact Hi|reflexivity].
  cbn [String.eqb Ascii.eqb]. apply parse_size_hash_ok; assumption.
Qed.

Lemma parse_write_fields_zstd inst uuid h szs sz meta :
  forallb (not_kw "uploads") inst = true ->
  parse_int64 szs = Some sz -> 0 <= sz -> validate_hash h sz = Ok tt ->
  parse_write_fields (inst ++ "uploads" :: uuid :: "compressed-blobs" :: "zstd" :: h :: szs :: meta)%list
  = Ok (h, sz, cmp_zstd).
Proof.
  intros Hi P N V. unfold parse_write_fields.
  rewrite (after_first_skip (String.eqb "uploads") inst "uploads"); [|exact Hi|reflexivity].
  cbn. apply parse_size_hash_ok; assumption.
Qed.

(* ---- read names *)
Definition not_read_kw (seg : string) : bool :=
  negb (String.eqb seg "blobs" || String.eqb seg "compressed-blobs").

Lemma parse_read_fields_blobs inst h szs sz :
  forallb not_read_kw inst = true ->
  parse_int64 szs = Some sz -> 0 <= sz -> validate_hash h sz = Ok tt ->
  parse_read_fields (inst ++ ["blobs"; h; szs])%list = Ok (h, sz, cmp_identity).
Proof.
  intros Hi P N V. unfold parse_read_fields.
  rewrite (after_first_skip _ inst "blobs"); [|exact Hi|reflexivity].
  cbn [String.eqb Ascii.eqb]. apply parse_size_hash_ok; assumption.
Qed.

Lemma parse_read_fields_zstd inst h szs sz :
  forallb not_read_kw inst = true ->
  parse_int64 szs = Some sz -> 0 <= sz -> validate_hash h sz = Ok tt ->
  parse_read_fields (inst ++ ["compressed-blobs"; "zstd"; h; szs])%list = Ok (h, sz, cmp_zstd).
Proof.
  intros Hi P N V. unfold parse_read_fields.
  rewrite (after_first_skip _ inst "compressed-blobs"); [|exact Hi|reflexivity].
  cbn. apply parse_size_hash_ok; assumption.
Qed.

(* ---- the same on strings: the name is the segments joined by "/" *)
Lemma parse_write_resource_join segs :
  segs <> [] -> forallb no_slash segs = true ->
  parse_write_resource (join_slash segs) = parse_write_fields segs.
Proof. intros N S. unfold parse_write_resource. rewrite split_join_slash by assumption. reflexivity. Qed.

Lemma parse_read_resource_join segs :
  segs <> [] -> forallb no_slash segs = true ->
  parse_read_resource (join_slash segs) = parse_read_fields segs.
Proof. intros N S. unfold parse_read_resource. rewrite split_join_slash by assumption. reflexivity. Qed.

Lemma names_write inst uuid h szs sz meta (z : bool) :
  forallb (not_kw "uploads") inst = true ->
  forallb no_slash (inst ++ uuid :: h :: szs :: meta)%list = true ->
  parse_int64 szs = Some sz -> 0 <= sz -> validate_hash h sz = Ok tt ->
  parse_write_resource
    (join_slash (inst ++ "uploads" :: uuid ::
                 (if z then ["compressed-blobs"; "zstd"] else ["blobs"]) ++ h :: szs :: meta)%list)
  = Ok (h, sz, if z then cmp_zstd else cmp_identity).
Proof.
  intros Hi Hs P N V.
  rewrite forallb_app in Hs. apply andb_true_iff in Hs as [Hs1 Hs2].
  rewrite parse_write_resource_join.
  - destruct z; cbn [List.app]; [apply parse_write_fields_zstd|apply parse_write_fields_blobs]; assumption.
  - destruct inst; discriminate.
  - rewrite forallb_app, Hs1. cbn [forallb andb] in *.
    apply andb_true_iff in Hs2 as [Hu Hs2]. rewrite Hu.
    destruct z; cbn [List.app forallb]; rewrite Hs2; reflexivity.
Qed.

Lemma names_read inst h szs sz (z : bool) :
  forallb not_read_kw inst = true ->
  forallb no_slash (inst ++ [h; szs])%list = true ->
  parse_int64 szs = Some sz -> 0 <= sz -> validate_hash h sz = Ok tt ->
  parse_read_resource
    (join_slash (inst ++ (if z then ["compressed-blobs"; "zstd"] else ["blobs"]) ++ [h; szs])%list)
  = Ok (h, sz, if z then cmp_zstd else cmp_identity).
Proof.
  intros Hi Hs P N V.
  rewrite forallb_app in Hs. apply andb_true_iff in Hs as [Hs1 Hs2].
  rewrite parse_read_resource_join.
  - destruct z; cbn [List.app]; [apply parse_read_fields_zstd|apply parse_read_fields_blobs]; assumption.
  - destruct inst, z; discriminate.
  - rewrite forallb_app, Hs1. destruct z; cbn [List.app forallb andb] in *; rewrite Hs2; reflexivity.
Qed.

(* ---- accepted names are well formed: the hash passed validateHash and the size is non-negative *)
Lemma parse_size_hash_inv h szs cmp x :
  parse_size_hash h szs cmp = Ok x ->
  exists sz, x = (h, sz, cmp) /\ parse_int64 szs = Some sz /\ 0 <= sz /\ validate_hash h sz = Ok tt.
Proof.
  unfold parse_size_hash, lift_validate. destruct (parse_int64 szs) as [sz|]; [|discriminate].
  destruct (sz <? 0) eqn:E; [discriminate|]. destruct (validate_hash h sz) as [[]| | |] eqn:V; try discriminate.
  intros H. injection H as <-. exists sz. split; [reflexivity|]. split; [reflexivity|]. split; [lia|exact V].
Qed.

Lemma parse_write_fields_inv fields h sz cmp :
  parse_write_fields fields = Ok (h, sz, cmp) ->
  0 <= sz /\ validate_hash h sz = Ok tt /\ (cmp = cmp_identity \/ cmp = cmp_zstd).
Proof.
  unfold parse_write_fields. destruct (after_first _ fields) as [[k rem]|]; [|discriminate].
  destruct rem as [|u [|r1 [|r2 [|r3 rest]]]]; try discriminate.
  destruct (String.eqb r1 "blobs").
  - intros H. apply parse_size_hash_inv in H as (s & E & _ & N & V). injection E as <- <- <-. auto.
  - destruct rest as [|r4 rest]; [discriminate|].
    destruct (String.eqb r1 "compressed-blobs" && String.eqb r2 "zstd"); [|discriminate].
    intros H. apply parse_size_hash_inv in H as (s & E & _ & N & V). injection E as <- <- <-. auto.
Qed.

(* ---- QueryWriteStatus *)
Lemma qws_spec present name :
  match parse_write_resource name with
  | Ok (h, sz, _) =>
      query_write_status present name =
        if contains present h sz then Ok (sz, true) else Ok (0, false)
  | Err e => query_write_status present name = Err e
  | _ => True
  end.
Proof. unfold query_write_status. destruct (parse_write_resource name) as [[[h sz] c]| | |]; auto. Qed.

Lemma qws_complete_iff present name sz :
  query_write_status present name = Ok (sz, true) <->
  exists h c, parse_write_resource name = Ok (h, sz, c) /\ contains present h sz = true.
Proof.
  unfold query_write_status. split.
  - destruct (parse_write_resource name) as [[[h s] c]| | |]; try discriminate.
    destruct (contains present h s) eqn:C; intros H; inversion H; subst. eauto.
  - intros (h & c & -> & ->). reflexivity.
Qed.

Lemma qws_incomplete_iff present name cs :
  query_write_status present name = Ok (cs, false) <->
  cs = 0 /\ exists h sz c, parse_write_resource name = Ok (h, sz, c) /\ contains present h sz = false.
Proof.
  unfold query_write_status. split.
  - destruct (parse_write_resource name) as [[[h s] c]| | |]; try discriminate.
    destruct (contains present h s) eqn:C; intros H; inversion H; subst. split; [reflexivity|eauto].
  - intros (-> & h & sz & c & -> & ->). reflexivity.
Qed.
