(* Proofs/LRU_spec.v — what every index operation does to (a) the invariant, (b) the reserved
   bytes, (c) the multiset of entries the index is responsible for: those in the recency list plus
   those queued for file removal.  Used by the disk-level proofs (reservation accounting, directory
   invariant). *)
From Coq Require Import Permutation.
From BR Require Import Base.Prelude Model.LRU Proofs.LRU_inv.
Open Scope Z_scope.

Definition all_entries (s : state) : list entry := map ent (order s) ++ evq s.

Lemma evict_conserve cond s s' stuck :
  EvictSpec cond s s' stuck -> Permutation (all_entries s') (all_entries s).
Proof.
  intros [ev Hord Hevq _ _ _ _ _ _]. unfold all_entries. rewrite Hord, Hevq, map_app.
  rewrite <- app_assoc.
  (* rest ++ q ++ ev   ~   ev ++ rest ++ q *)
  etransitivity; [|apply Permutation_app_comm].
  rewrite <- app_assoc. reflexivity.
Qed.

Lemma evict_res cond s s' stuck : EvictSpec cond s s' stuck ->
  res s' = res s /\ maxs s' = maxs s /\ hard s' = hard s.
Proof. intros [ev _ _ _ _ (H1 & H2 & H3 & _) _ _ _]. auto. Qed.

(* ---------------- Add ---------------- *)

Lemma add_spec k v s s' r : Inv s -> item_ok v -> add k v s = (s', r) ->
  Inv s' /\ res s' = res s /\ maxs s' = maxs s /\ hard s' = hard s /\
  ((r = Ok false /\ order s' = order s /\ evq s' = evq s /\ cur s' = cur s /\ unc s' = unc s) \/
   (r = Ok true /\ Permutation (all_entries s') (mkEntry k v :: all_entries s))).
Proof.
  intros HI Hv Hadd. pose proof (add_inv_eq k v s s' r HI Hv Hadd) as (HI' & _ & _).
  split; [exact HI'|]. revert Hadd. pose proof HI as (HA & Hm & Hp). unfold add.
  destruct (roundUp4k (sizeOnDisk v) >? maxs s) eqn:E0;
    [intros H; inversion H; subst s' r; repeat split; try reflexivity; left; repeat split; reflexivity|].
  set (r0 := roundUp4k (sizeOnDisk v)) in *.
  assert (HA1 : AcctD 0 0 (upd_peak r0 s)) by (apply upd_peak_acct; exact HA).
  destruct (find_key k (order (upd_peak r0 s))) as [e|] eqn:Ef.
  - apply find_key_In in Ef as [Hin Hkey]. simpl in Hin.
    destruct (res (upd_peak r0 s) + (r0 - roundUp4k (sizeOnDisk (evalue (ent e)))) >? maxs (upd_peak r0 s)) eqn:E1;
      [intros H; inversion H; subst s' r; repeat split; try reflexivity; left; repeat split; reflexivity|].
    set (delta := r0 - roundUp4k (sizeOnDisk (evalue (ent e)))) in *.
    set (ud := roundUp4k (size v) - roundUp4k (size (evalue (ent e)))).
    assert (Hve : item_ok (evalue (ent e))).
    { destruct HA as [_ _ _ _ _ _ _ Hit _]. rewrite Forall_forall in Hit. apply Hit; exact Hin. }
    pose proof (touch_acct 0 0 (upd_peak r0 s) e v HA1 Hin Hv) as HT. simpl in HT. rewrite Hkey in HT.
    set (s2 := enqueue (mkEntry (ekey (ent e)) (evalue (ent e)))
         (set_order (remove_id (eid e) (order (upd_peak r0 s)) ++ [mkElem (eid e) (mkEntry k v)]) (upd_peak r0 s))).
    assert (HA2 : AcctD delta ud s2) by (apply enqueue_acct; [exact HT|simpl; exact Hve]).
    pose proof (evict_while_spec (fun c => c + delta >? maxs s2) delta ud s2 HA2) as HS.
    destruct (evict_while (fun c => c + delta >? maxs s2) s2) as [s3 stuck] eqn:EE.
    destruct HS as [HA3 HES]. pose proof (evict_conserve _ _ _ _ HES) as HP.
    pose proof (evict_res _ _ _ _ HES) as (Hr3 & Hm3 & Hh3).
    destruct stuck.
    + intros H. exfalso.
      pose proof (add_inv_eq k v s s3 (Hang "lru.Add: eviction loop on empty list") HI Hv) as HX.
      assert (Hadd' : add k v s = (s3, Hang "lru.Add: eviction loop on empty list")).
      { unfold add. fold r0. rewrite E0.
        assert (Ef' : find_key k (order (upd_peak r0 s)) = Some e).
        { apply find_key_Some_iff; [destruct HA1; assumption|exact Hin|exact Hkey]. }
        rewrite Ef'. fold delta. rewrite E1. fold ud. fold s2.
        rewrite EE. reflexivity. }
      destruct (HX Hadd') as (_ & Hh & _). discriminate.
    + intros H; inversion H; subst s' r. simpl. repeat split; try assumption.
      right. split; [reflexivity|].
      unfold all_entries in *. simpl. etransitivity; [exact HP|].
      unfold s2, enqueue, set_order. simpl.
      assert (He : ent e = mkEntry (ekey (ent e)) (evalue (ent e))) by (destruct (ent e); reflexivity).
      rewrite <- He.
      destruct HA as [_ Hi _ _ _ _ _ _ _].
      pose proof (remove_id_perm (order s) e Hi Hin) as HPe.
      rewrite (Permutation_map ent HPe). simpl. rewrite map_app. simpl.
      (* (R ++ [new]) ++ (q ++ [old])  ~  new :: old :: R ++ q *)
      rewrite <- app_assoc. simpl.
      apply Permutation_sym. apply Permutation_cons_app.
      rewrite app_assoc. etransitivity; [|apply Permutation_app_comm]. simpl. reflexivity.
  - destruct (res (upd_peak r0 s) + r0 >? maxs (upd_peak r0 s)) eqn:E1;
      [intros H; inversion H; subst s' r; repeat split; try reflexivity; left; repeat split; reflexivity|].
    set (e' := mkElem (next (upd_peak r0 s)) (mkEntry k v)).
    set (s2 := mkState (order (upd_peak r0 s) ++ [e']) (S (next (upd_peak r0 s))) (cur (upd_peak r0 s))
                       (unc (upd_peak r0 s)) (res (upd_peak r0 s)) (maxs (upd_peak r0 s)) (hard (upd_peak r0 s))
                       (evq (upd_peak r0 s)) (qbytes (upd_peak r0 s)) (peak (upd_peak r0 s))).
    (* the loop is characterised without needing the accounting: use the generic spec through Inv *)
    assert (HA2 : AcctD r0 (roundUp4k (size v)) s2).
    { apply find_key_None in Ef. simpl in Ef.
      destruct HA1 as [Hk Hi Hf Hc Hu Hr Hq Hit Hqi]. simpl in Hk, Hi, Hf, Hc, Hu, Hr, Hq, Hit, Hqi.
      constructor; simpl.
      - rewrite map_app. simpl. apply NoDup_app_snoc; assumption.
      - rewrite map_app. simpl. apply NoDup_app_snoc; [assumption|].
        intros Hx. apply in_map_iff in Hx as (x & Hx1 & Hx2). rewrite Forall_forall in Hf.
        specialize (Hf x Hx2). simpl in Hx1. lia.
      - apply Forall_app; split.
        + eapply Forall_impl; [|exact Hf]. simpl. intros; lia.
        + constructor; [simpl; lia|constructor].
      - rewrite sumZ_app. simpl. change (r4k_disk e') with r0. lia.
      - rewrite sumZ_app. simpl. change (r4k_size e') with (roundUp4k (size v)). lia.
      - exact Hr.
      - exact Hq.
      - apply Forall_app; split; [assumption|]. constructor; [simpl; exact Hv|constructor].
      - exact Hqi. }
    pose proof (evict_while_spec (fun c => c + r0 >? maxs s2) r0 (roundUp4k (size v)) s2 HA2) as HS.
    destruct (evict_while (fun c => c + r0 >? maxs s2) s2) as [s3 stuck] eqn:EE.
    destruct HS as [HA3 HES]. pose proof (evict_conserve _ _ _ _ HES) as HP.
    pose proof (evict_res _ _ _ _ HES) as (Hr3 & Hm3 & Hh3).
    destruct stuck.
    + intros H. exfalso.
      assert (Hadd' : add k v s = (s3, Hang "lru.Add: eviction loop on empty list")).
      { unfold add. fold r0. rewrite E0, Ef, E1. fold e'. fold s2. rewrite EE. reflexivity. }
      destruct (add_inv_eq k v s s3 _ HI Hv Hadd') as (_ & Hh & _). discriminate.
    + intros H; inversion H; subst s' r. simpl. repeat split; try assumption.
      right. split; [reflexivity|].
      unfold all_entries in *. simpl. etransitivity; [exact HP|].
      unfold s2. simpl. rewrite map_app. simpl. rewrite <- app_assoc. simpl.
      apply Permutation_sym. apply Permutation_cons_app. reflexivity.
Qed.

(* ---------------- Reserve / Unreserve ---------------- *)

Lemma reserve_spec n s : Inv s ->
  let '(s', r) := reserve n s in
  Inv s' /\ maxs s' = maxs s /\ hard s' = hard s /\ Permutation (all_entries s') (all_entries s) /\
  ((r = Ok tt /\ res s' = res s + n /\ 0 <= n) \/
   ((r = Err EBadRequest \/ r = Err EInsufficient) /\ res s' = res s /\ order s' = order s /\ evq s' = evq s
     /\ cur s' = cur s)).
Proof.
  intros HI. pose proof (reserve_inv n s HI) as [HI' _]. pose proof HI as (HA & Hm & Hp).
  revert HI'. unfold reserve, sumLargerThan.
  destruct (n =? 0) eqn:E0.
  { simpl. intros HI'. split; [exact HI'|]. do 3 (split; [reflexivity|]). left. repeat split; lia. }
  destruct (n <? 0) eqn:E1.
  { simpl. intros HI'. split; [exact HI'|]. do 3 (split; [reflexivity|]). right. repeat split; auto. }
  destruct (n >? maxs s) eqn:E2.
  { simpl. intros HI'. split; [exact HI'|]. do 3 (split; [reflexivity|]). right. repeat split; auto. }
  destruct (n + res s >? maxs s) eqn:E3.
  { simpl. intros HI'. split; [exact HI'|]. do 3 (split; [reflexivity|]). right. repeat split; auto. }
  assert (HI1 : Inv (upd_peak n s)) by (split; [apply upd_peak_acct; exact HA|simpl; auto]).
  destruct ((hard (upd_peak n s) >? 0) && (total_disk s n >? hard (upd_peak n s))) eqn:E4.
  { simpl. intros HI'. split; [exact HI'|]. do 3 (split; [reflexivity|]). right. repeat split; auto. }
  pose proof (evict_while_spec (fun c => n + c >? maxs (upd_peak n s)) 0 0 (upd_peak n s) (proj1 HI1)) as HS.
  destruct (evict_while (fun c => n + c >? maxs (upd_peak n s)) (upd_peak n s)) as [s2 stuck].
  destruct HS as [HA2 HES]. pose proof (evict_conserve _ _ _ _ HES) as HP.
  pose proof (evict_res _ _ _ _ HES) as (Hr3 & Hm3 & Hh3).
  destruct stuck.
  - exfalso. destruct HES as [ev _ _ _ _ _ _ Hstuck _]. destruct (Hstuck eq_refl) as [Hnil Hc].
    destruct HA2 as [_ _ _ Hc2 _ _ _ _ _]. rewrite Hnil in Hc2. simpl in Hc2, Hc, Hr3. lia.
  - simpl. intros HI'. split; [exact HI'|]. simpl in Hm3, Hh3, Hr3.
    split; [exact Hm3|]. split; [exact Hh3|]. split; [exact HP|].
    left. repeat split; simpl in *; lia.
Qed.

Lemma unreserve_spec n s :
  let '(s', r) := unreserve n s in
  maxs s' = maxs s /\ hard s' = hard s /\ order s' = order s /\ evq s' = evq s /\
  ((r = Ok tt /\ res s' = res s - n /\ cur s' = cur s - n) \/ (r = Err EInternal /\ s' = s)).
Proof.
  unfold unreserve.
  destruct (n =? 0) eqn:E0; [simpl; repeat split; left; repeat split; lia|].
  destruct (n <? 0) eqn:E1; [simpl; repeat split; right; split; reflexivity|].
  destruct ((cur s - n <? 0) || (res s - n <? 0)) eqn:E2; simpl; repeat split.
  - right; split; reflexivity.
  - left; repeat split; reflexivity.
Qed.

Lemma unreserve_ok n s : 0 <= n <= res s -> res s <= cur s -> snd (unreserve n s) = Ok tt.
Proof.
  intros H1 H2. unfold unreserve.
  destruct (n =? 0) eqn:E0; [reflexivity|].
  destruct (n <? 0) eqn:E1; [lia|].
  destruct ((cur s - n <? 0) || (res s - n <? 0)) eqn:E2; [|reflexivity].
  apply orb_true_iff in E2. lia.
Qed.

(* ---------------- Get / removal / remover ---------------- *)

Lemma get_spec k s : Inv s ->
  let '(s', r) := get k s in
  Inv s' /\ res s' = res s /\ maxs s' = maxs s /\ hard s' = hard s /\ evq s' = evq s /\ cur s' = cur s /\
  Permutation (order s') (order s) /\
  match r with
  | Some (v, id) => exists e, find_key k (order s) = Some e /\ In e (order s) /\ evalue (ent e) = v /\ eid e = id
                              /\ In e (order s')
  | None => find_key k (order s) = None /\ s' = s
  end.
Proof.
  intros HI. pose proof (get_inv k s HI) as HI'. revert HI'. unfold get.
  destruct (find_key k (order s)) as [e|] eqn:E; simpl; intros HI'.
  - pose proof E as E'. apply find_key_In in E' as [Hin Hk].
    destruct HI as ([_ Hi _ _ _ _ _ _ _] & _ & _).
    split; [exact HI'|]. do 5 (split; [reflexivity|]). split.
    + apply Permutation_sym. etransitivity; [apply (remove_id_perm (order s) e Hi Hin)|].
      apply Permutation_cons_append.
    + exists e. split; [reflexivity|]. split; [exact Hin|]. split; [reflexivity|]. split; [reflexivity|].
      apply in_or_app. right. left. reflexivity.
  - split; [exact HI'|]. do 5 (split; [reflexivity|]). split; [reflexivity|]. split; reflexivity.
Qed.

Lemma remove_elem_conserve e s : In e (order s) -> NoDup (map eid (order s)) ->
  Permutation (all_entries (remove_elem e s)) (all_entries s) /\ res (remove_elem e s) = res s
  /\ maxs (remove_elem e s) = maxs s /\ hard (remove_elem e s) = hard s.
Proof.
  intros Hin Hi. repeat split. unfold all_entries, remove_elem, enqueue. simpl.
  rewrite (Permutation_map ent (remove_id_perm (order s) e Hi Hin)). simpl.
  rewrite app_assoc. etransitivity; [apply Permutation_app_comm|]. simpl. reflexivity.
Qed.

Lemma remove_element_spec id s s' : Inv s -> remove_element id s = Some s' ->
  Inv s' /\ Permutation (all_entries s') (all_entries s) /\ res s' = res s /\ maxs s' = maxs s /\ hard s' = hard s.
Proof.
  intros HI H. split; [eapply remove_element_inv; eassumption|].
  unfold remove_element in H. destruct (find_id id (order s)) as [e|] eqn:E; [|discriminate].
  inversion H; subst. apply find_id_In in E as [Hin _].
  destruct HI as ([_ Hi _ _ _ _ _ _ _] & _ & _). apply remove_elem_conserve; assumption.
Qed.

Lemma evictor_step_spec s : Inv s ->
  let '(s', r) := evictor_step s in
  Inv s' /\ res s' = res s /\ maxs s' = maxs s /\ hard s' = hard s /\ order s' = order s /\ cur s' = cur s /\
  match r with
  | Some en => evq s = en :: evq s'
  | None => evq s = [] /\ s' = s
  end.
Proof.
  intros HI. pose proof (evictor_step_inv s HI) as HI'. revert HI'. unfold evictor_step.
  destruct (evq s) as [|en t]; simpl; intros HI'; (split; [exact HI'|]); do 5 (split; [reflexivity|]).
  - split; reflexivity.
  - reflexivity.
Qed.
