(* Proofs/Load_main.v — start-up on a directory of the population grammar: the statements of C09
   assembled from Load_scan.v (creation, migration, scan) and Load_loop.v (the Add loop). *)
From Coq Require Import Permutation Sorting.Sorted.
From BR Require Import Base.Prelude Model.LRU Model.Names Model.Load Proofs.LRU_inv
  Proofs.Names_strings Proofs.Names_roundtrip Proofs.Load_add Proofs.Load_loop Proofs.Load_scan.
Open Scope Z_scope.
Open Scope list_scope.

(* start-up succeeds, and everything Load_loop says about the result holds *)
Theorem startup_loaded mx hd t :
  population_ok t = true -> 0 < mx ->
  exists files s present,
    scanned t = Ok files /\ Forall file_fits files /\
    startup mx hd t = Ok (s, present) /\ Loaded mx files s present.
Proof.
  intros Hp Hmx. destruct (scanned_ok_population t Hp) as (files & Hs & HF).
  destruct (load_files_spec mx hd files Hmx HF) as (s & present & Hl & HL).
  exists files, s, present. split; [exact Hs|]. split; [exact HF|]. split; [|exact HL].
  rewrite startup_scanned, Hs. exact Hl.
Qed.

Theorem startup_succeeds mx hd t :
  population_ok t = true -> 0 < mx -> exists s present, startup mx hd t = Ok (s, present).
Proof.
  intros Hp Hmx. destruct (startup_loaded mx hd t Hp Hmx) as (files & s & present & _ & _ & H & _).
  exists s, present. exact H.
Qed.

(* whoever is not a candidate is too large on its own or superseded by a later file of its key *)
Lemma cands_complete mx : forall l, StronglySorted older_eq l -> forall x, In x l ->
  In x (cands mx l) \/ fitsb mx x = false \/
  exists y, In y l /\ sf_key y = sf_key x /\ fitsb mx y = true /\ sf_atime x <= sf_atime y.
Proof.
  induction 1 as [|a r Hs IH Ha]; intros x Hin; [destruct Hin|]. simpl.
  destruct Hin as [->|Hin].
  - destruct (fitsb mx x) eqn:F; [|right; left; reflexivity]. simpl.
    destruct (existsb (fun y => String.eqb (sf_key y) (sf_key x) && fitsb mx y) r) eqn:Ex; simpl.
    + right. right. apply existsb_exists in Ex as (y & Hy & Hc). apply andb_true_iff in Hc as [Hk Hf].
      apply String.eqb_eq in Hk. exists y. repeat split; auto. rewrite Forall_forall in Ha. apply Ha, Hy.
    + left. left. reflexivity.
  - destruct (IH x Hin) as [H|[H|(y & Hy & H)]].
    + left. destruct (fitsb mx a && _); [right|]; exact H.
    + right. left. exact H.
    + right. right. exists y. split; [right; exact Hy|exact H].
Qed.

(* C09_oldest_first: survivors are a suffix, in access-time order, of the candidates *)
Theorem survivors_oldest_first mx hd t files s present :
  population_ok t = true -> 0 < mx -> scanned t = Ok files -> startup mx hd t = Ok (s, present) ->
  exists evicted survivors,
    cands mx (sort_atime files) = evicted ++ survivors /\
    map ent (order s) = map sf_entry survivors /\
    StronglySorted older_eq survivors /\
    (forall y z, In y evicted -> In z survivors -> sf_atime y <= sf_atime z) /\
    (NoDup (map sf_atime files) -> forall y z, In y evicted -> In z survivors -> sf_atime y < sf_atime z) /\
    (forall x, In x files -> In x survivors \/ In x evicted \/ fitsb mx x = false \/
       exists y, In y files /\ sf_key y = sf_key x /\ fitsb mx y = true /\ sf_atime x <= sf_atime y).
Proof.
  intros Hp Hmx Hs Hst.
  destruct (startup_loaded mx hd t Hp Hmx) as (files' & s' & present' & Hs' & HF & Hst' & HL).
  rewrite Hs in Hs'. inversion Hs'; subst files'. rewrite Hst in Hst'. inversion Hst'; subst s' present'.
  destruct HL as [_ _ _ _ (pre & S & Hc & HE & _ & _)].
  exists pre, S. split; [exact Hc|]. split; [exact HE|].
  pose proof (cands_sorted mx _ (sort_atime_sorted files)) as Hsorted. rewrite Hc in Hsorted.
  split.
  { clear - Hsorted. induction pre as [|a pre IH]; simpl in *; [exact Hsorted|]. inversion Hsorted; subst. apply IH. assumption. }
  split; [apply sorted_app_le; exact Hsorted|].
  split.
  - intros Hnd y z Hy Hz. pose proof (sorted_app_le pre S Hsorted y z Hy Hz) as Hle.
    assert (Hne : sf_atime y <> sf_atime z).
    { assert (Hnd' : NoDup (map sf_atime (pre ++ S))).
      { rewrite <- Hc. apply cands_nodup_atime.
        eapply Permutation_NoDup; [apply Permutation_map, Permutation_sym, sort_atime_perm|exact Hnd]. }
      rewrite map_app in Hnd'. clear - Hnd' Hy Hz. induction pre as [|a pre IH]; simpl in *; [tauto|].
      inversion Hnd' as [|? ? Hn Hr]; subst. destruct Hy as [->|Hy]; [|apply IH; assumption].
      intros Heq. apply Hn. apply in_or_app. right. rewrite Heq. apply in_map. exact Hz. }
    lia.
  - intros x Hx.
    assert (Hx' : In x (sort_atime files)) by (eapply Permutation_in; [apply Permutation_sym, sort_atime_perm|exact Hx]).
    destruct (cands_complete mx _ (sort_atime_sorted files) x Hx') as [H|[H|(y & Hy & H)]].
    + rewrite Hc in H. apply in_app_or in H as [H|H]; [right; left|left]; exact H.
    + right. right. left. exact H.
    + right. right. right. exists y. split; [|exact H].
      eapply Permutation_in; [apply sort_atime_perm|exact Hy].
Qed.

(* C09 "keeps what fits": when the indexable files fit together nothing is evicted *)
Theorem keeps_all_when_fits mx hd t files s present :
  population_ok t = true -> 0 < mx -> scanned t = Ok files -> startup mx hd t = Ok (s, present) ->
  sumZ (fit_r mx) files <= mx ->
  map ent (order s) = map sf_entry (cands mx (sort_atime files)) /\
  Permutation present (map sf_place (cands mx (sort_atime files))).
Proof.
  intros Hp Hmx Hs Hst Hsum.
  destruct (startup_loaded mx hd t Hp Hmx) as (files' & s' & present' & Hs' & HF & Hst' & HL).
  rewrite Hs in Hs'. inversion Hs'; subst files'. rewrite Hst in Hst'. inversion Hst'; subst s' present'.
  destruct HL as [_ _ _ _ (pre & S & Hc & HE & HP & Hfull)].
  rewrite (Hfull Hsum) in Hc. simpl in Hc. rewrite Hc. split; assumption.
Qed.

(* C09_content: a survivor is indexed under the key of its directory and name, with the size its
   name carries (or its file size) and its file size on disk, and its file is still there *)
Theorem survivors_content mx hd t files s present :
  population_ok t = true -> 0 < mx -> scanned t = Ok files -> startup mx hd t = Ok (s, present) ->
  exists survivors,
    map ent (order s) = map sf_entry survivors /\ incl survivors files /\
    Permutation present (map sf_place survivors) /\
    Forall (fun x =>
      item_place (sf_key x) (sf_item x) = sf_place x /\
      print_name (s_parsed x) = f_name (s_file x) /\
      sf_key x = lookup_key (s_kind x) (p_hash (s_parsed x)) /\
      sizeOnDisk (sf_item x) = f_size (s_file x) /\
      size (sf_item x) = match p_size (s_parsed x) with Some n => n | None => f_size (s_file x) end) survivors.
Proof.
  intros Hp Hmx Hs Hst.
  unfold scanned, scan_all in Hs.
  destruct (mkdirs_ok t Hp) as (t1 & Hm & Hready). rewrite Hm in Hs. simpl in Hs.
  destruct (migrate_ok t1 Hready) as (t2 & Hmg & Hok & Hno). rewrite Hmg in Hs. simpl in Hs.
  destruct (scan_tree_ok t2 Hok Hno) as (fs & Hsc & HSO). rewrite Hsc in Hs. inversion Hs; subst fs.
  assert (Hs2 : scanned t = Ok files) by (unfold scanned, scan_all; rewrite Hm; simpl; rewrite Hmg; simpl; exact Hsc).
  destruct (startup_loaded mx hd t Hp Hmx) as (files' & s' & present' & Hs' & HF & Hst' & HL).
  rewrite Hs2 in Hs'. inversion Hs'; subst files'. rewrite Hst in Hst'. inversion Hst'; subst s' present'.
  destruct HL as [_ _ _ _ (pre & S & Hc & HE & HP & _)].
  assert (Hincl : incl S files).
  { intros y Hy. eapply Permutation_in; [apply sort_atime_perm|]. apply (cands_incl mx). rewrite Hc.
    apply in_or_app. right. exact Hy. }
  exists S. repeat split; auto.
  rewrite Forall_forall in *. intros x Hx. specialize (HSO x (Hincl x Hx)). specialize (HF x (Hincl x Hx)).
  destruct HSO as (Hsn & _ & _). destruct (scan_name_spec _ _ Hsn) as [Hpr _].
  destruct HF as [Hpl _]. repeat split; auto.
Qed.

(* C09_accounting: the index invariant holds, the queue is empty, the accounted size is the sum of
   the rounded sizes of the indexed entries and at most max_size, and the files left are exactly
   the files of the indexed entries *)
Theorem startup_accounting mx hd t s present :
  population_ok t = true -> 0 < mx -> startup mx hd t = Ok (s, present) ->
  Inv s /\ maxs s = mx /\ res s = 0 /\ evq s = [] /\
  cur s = entries_size s /\ cur s <= mx /\ unc s = logical_size s /\
  stats s = (entries_size s, 0, Z.of_nat (List.length (order s)), logical_size s) /\
  NoDup (map key_of (order s)) /\
  Permutation present (map eplace (map ent (order s))).
Proof.
  intros Hp Hmx Hst.
  destruct (startup_loaded mx hd t Hp Hmx) as (files & s' & present' & Hs & HF & Hst' & HL).
  rewrite Hst in Hst'. inversion Hst'; subst s' present'.
  destruct HL as [HI Hmax Hres Hq (pre & S & Hc & HE & HP & _)].
  pose proof HI as ([Hk _ _ Hcur Hunc _ _ _ _] & Hle & _).
  unfold entries_size, logical_size, stats.
  change (fun e : elem => roundUp4k (sizeOnDisk (evalue (ent e)))) with r4k_disk.
  change (fun e : elem => roundUp4k (size (evalue (ent e)))) with r4k_size.
  assert (Hc0 : cur s = sumZ r4k_disk (order s)) by lia.
  assert (Hu0 : unc s = sumZ r4k_size (order s)) by lia.
  split; [exact HI|]. split; [exact Hmax|]. split; [exact Hres|]. split; [exact Hq|].
  split; [exact Hc0|]. split; [lia|]. split; [exact Hu0|].
  split; [rewrite Hres, Hc0, Hu0; reflexivity|]. split; [exact Hk|].
  fold (E s). rewrite HE.
    assert (HS : Forall file_fits S).
    { rewrite Forall_forall in *. intros y Hy. apply HF.
      eapply Permutation_in; [apply sort_atime_perm|]. apply (cands_incl mx). rewrite Hc.
      apply in_or_app. right. exact Hy. }
    rewrite (places_of_fitting S HS). exact HP.
Qed.
