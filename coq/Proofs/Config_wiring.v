(* Proofs/Config_wiring.v — finite checks over the generated tables (flags, yaml tags, the wiring of
   get -> newFromArgs), and the concrete witnesses for the places where the front ends differ. *)
From BR Require Import Base.Prelude Gen.Config Model.Config.
Open Scope string_scope.
Open Scope Z_scope.

Definition count {A} (p : A -> bool) (l : list A) : nat := List.length (filter p l).

(* text after the last '.' ("s3.bucket" -> "bucket") *)
Fixpoint last_component_aux (acc : string) (s : string) : string :=
  match s with
  | EmptyString => acc
  | String c t => if Ascii.eqb c "."%char then last_component_aux t t else last_component_aux acc t
  end.
Definition last_component (s : string) : string := last_component_aux s s.

(* YamlConfig's deprecated keys; fields only the YAML file can set; flags nothing reads *)
Definition deprecated_fields : list string := ["Host"; "Port"; "GRPCPort"; "ProfileHost"; "ProfilePort"].
Definition yaml_only_fields : list string := ["MetricsDurationBuckets"; "S3CloudStorage.KeyVersion"].
Definition dead_flags : list string := ["s3.key_version"].
Definition switch_flags : list string := ["config_file"].
(* read with an accessor of another type than the flag's: ctx.Duration on the IntFlag ldap.cache_time *)
Definition mistyped_reads : list string := ["LDAP.CacheTime"].

Definition accessor_fits (acc : string) (k : kind) : bool :=
  match k with
  | KString => String.eqb acc "String"
  | KInt | KInt64 => String.eqb acc "Int" || String.eqb acc "Int64"
  | KBool => String.eqb acc "Bool"
  | KDuration => String.eqb acc "Duration"
  | _ => false
  end.

Definition flags_feeding (p : string) : nat :=
  count (fun r => String.eqb (fst (fst r)) p) flag_wiring + count (fun r => String.eqb (fst r) p) derived_wiring.

Definition is_read (f : string) : bool := existsb (fun r => String.eqb (snd r) f) get_reads.

(* 1. every basic field: one yaml key (unique both ways); one flag, except the YAML-only fields;
      the deprecated YAML keys have a flag of the same name that get() reads *)
Definition fields_ok : bool :=
  forallb (fun r =>
    let '(p, yp, k) := r in
    Nat.eqb (count (fun r' => String.eqb (fst (fst r')) p) yaml_fields) 1
    && Nat.eqb (count (fun r' => String.eqb (snd (fst r')) yp) yaml_fields) 1
    && (if mem_str p deprecated_fields then Nat.eqb (count (fun f => String.eqb (fl_name f) yp) cli_flags) 1 && is_read yp
        else if mem_str p yaml_only_fields then Nat.eqb (flags_feeding p) 0
        else Nat.eqb (flags_feeding p) 1)) yaml_fields.

(* 2. every wiring row: the flag exists once, is read with an accessor of its own type (except
      mistyped_reads), the field has a yaml key, and the two are named alike: identical for top-level
      fields, same last component inside a section *)
Definition rows_ok : bool :=
  forallb (fun r =>
    let '(p, acc, f) := r in
    match find_flag f cli_flags, yaml_of_field p yaml_fields with
    | Some fl, Some yp =>
      Nat.eqb (count (fun f' => String.eqb (fl_name f') f) cli_flags) 1
      && (accessor_fits acc (fl_kind fl) || mem_str p mistyped_reads)
      && (if String.eqb (last_component p) p then String.eqb yp f
          else String.eqb (last_component yp) (last_component f))
    | _, _ => false
    end) flag_wiring
  && forallb (fun r => forallb (fun af => match find_flag (snd af) cli_flags with
                                          | Some fl => accessor_fits (fst af) (fl_kind fl) | None => false end) (snd r)
                       && match yaml_of_field (fst r) yaml_fields with
                          | Some yp => existsb (fun af => String.eqb (snd af) yp) (snd r) | None => false end)
             derived_wiring.

(* 3. every flag: distinct name, at least one environment variable, no environment variable shared
      with another flag, and get() reads it (except the switch to the YAML file and dead_flags) *)
Definition all_env : list string := flat_map fl_env cli_flags.
Definition flags_table_ok : bool :=
  forallb (fun f =>
    Nat.eqb (count (fun f' => String.eqb (fl_name f') (fl_name f)) cli_flags) 1
    && negb (Nat.eqb (List.length (fl_env f)) 0)
    && forallb (fun e => Nat.eqb (count (String.eqb e) all_env) 1) (fl_env f)
    && (is_read (fl_name f) || mem_str (fl_name f) dead_flags)
    && kind_accepts (fl_kind f) (fl_default f)) cli_flags
  && forallb is_read switch_flags.

Definition wiring_ok : bool := fields_ok && rows_ok && flags_table_ok.

Lemma wiring_checked : wiring_ok = true.
Proof. vm_compute. reflexivity. Qed.

Lemma one_flag_per_field p yp k :
  In (p, yp, k) yaml_fields -> mem_str p deprecated_fields = false -> mem_str p yaml_only_fields = false ->
  flags_feeding p = 1%nat
  /\ count (fun r' => String.eqb (fst (fst r')) p) yaml_fields = 1%nat
  /\ count (fun r' => String.eqb (snd (fst r')) yp) yaml_fields = 1%nat.
Proof.
  intros Hin D Y. pose proof wiring_checked as W. unfold wiring_ok in W.
  apply andb_true_iff in W as [W _]. apply andb_true_iff in W as [W _].
  unfold fields_ok in W. rewrite forallb_forall in W. specialize (W _ Hin). cbv beta iota in W.
  rewrite D, Y in W. apply andb_true_iff in W as [W W3]. apply andb_true_iff in W as [W1 W2].
  apply Nat.eqb_eq in W1, W2, W3. auto.
Qed.

(* ------------------------------------------------------------------ *)
(* where the front ends differ: concrete settings *)

Definition up_any (t : string) : option URL := Some (mkURL "" t).
Definition base_settings : settings :=
  [("dir", VS "/data"); ("max_size", VI 5); ("port", VI 8080); ("grpc_port", VI 9092)].

(* F19: ldap.cache_time — the flag's value is dropped (stays at the default), the YAML key is refused *)
Definition s_cache_time : settings :=
  (base_settings ++ [("ldap.url", VS "ldap://l"); ("ldap.base_dn", VS "dc=x"); ("ldap.cache_time", VI 100)])%list.
Lemma cache_time_differs :
  settings_valid s_cache_time /\ sections_triggered s_cache_time = true /\ s3_defaults_given s_cache_time = true
  /\ eff (from_flags (model_ext up_any) s_cache_time) <> eff (from_yaml (model_ext up_any) s_cache_time)
  /\ from_yaml (model_ext up_any) s_cache_time = Err (EOther 201)
  /\ option_map (fun c => option_map LDAPConfig_CacheTime (Config_LDAP c))
       (match from_flags (model_ext up_any) s_cache_time with Ok c => Some c | _ => None end) = Some (Some 3600).
Proof. vm_compute. repeat split; try reflexivity. discriminate. Qed.

(* F21: azblob keys without azblob.tenant_id — the flags build no backend, the YAML file does *)
Definition s_no_trigger : settings :=
  (base_settings ++ [("azblob.storage_account", VS "a"); ("azblob.container_name", VS "c");
                    ("azblob.auth_method", VS "shared_key"); ("azblob.shared_key", VS "k")])%list.
Lemma no_trigger_differs :
  settings_valid s_no_trigger /\ lookup "ldap.cache_time" s_no_trigger = None /\ s3_defaults_given s_no_trigger = true
  /\ eff (from_flags (model_ext up_any) s_no_trigger) <> eff (from_yaml (model_ext up_any) s_no_trigger)
  /\ (exists c, from_flags (model_ext up_any) s_no_trigger = Ok c /\ Config_AzBlobConfig c = None)
  /\ (exists c a, from_yaml (model_ext up_any) s_no_trigger = Ok c /\ Config_AzBlobConfig c = Some a).
Proof.
  vm_compute. repeat split; try reflexivity; try discriminate.
  - eexists. split; reflexivity.
  - eexists. eexists. split; reflexivity.
Qed.

(* omitted s3 keys: flag defaults "auto" / "default", YAML "" *)
Definition s_s3_defaults : settings :=
  (base_settings ++ [("s3.bucket", VS "b"); ("s3.endpoint", VS "e:9000"); ("s3.auth_method", VS "iam_role")])%list.
Lemma s3_defaults_differ :
  settings_valid s_s3_defaults /\ lookup "ldap.cache_time" s_s3_defaults = None /\ sections_triggered s_s3_defaults = true
  /\ eff (from_flags (model_ext up_any) s_s3_defaults) <> eff (from_yaml (model_ext up_any) s_s3_defaults).
Proof. vm_compute. repeat split; try reflexivity. discriminate. Qed.

(* a setting both front ends accept and agree on: listeners, TLS, htpasswd, an https proxy with
   client certificate, limits *)
Definition s_good : settings :=
  [("dir", VS "/data"); ("max_size", VI 100); ("http_address", VS "0.0.0.0:8080"); ("grpc_port", VI 9092); ("host", VS "::1");
   ("profile_address", VS "none"); ("htpasswd_file", VS "/etc/htpasswd"); ("tls_cert_file", VS "/c.pem"); ("tls_key_file", VS "/k.pem");
   ("allow_unauthenticated_reads", VB true); ("idle_timeout", VD 45000000000); ("max_blob_size", VI 10485760);
   ("http_proxy.url", VS "https://cache:8080/c"); ("http_proxy.cert_file", VS "/cc.pem"); ("http_proxy.key_file", VS "/ck.pem")].
Definition up_good (t : string) : option URL := if String.eqb t "https://cache:8080/c" then Some (mkURL "https" t) else None.
Lemma good_agrees :
  expressible_in_both s_good
  /\ eff (from_flags (model_ext up_good) s_good) = eff (from_yaml (model_ext up_good) s_good)
  /\ exists c, from_yaml (model_ext up_good) s_good = Ok c /\ Config_GRPCAddress c = "[::1]:9092" /\ Config_ProfileAddress c = "".
Proof. vm_compute. repeat split; try reflexivity. eexists. repeat split; reflexivity. Qed.
