(* Proofs/ACDeps_backend.v — C06 with a backend: GetValidatedActionResult (Model/ACDeps.v) for ANY
   configuration (backend configured or not, any max_proxy_blob_size) and any Contains behaviour
   [has_of] of the backend, under the assumption that the backend MISSES on Get ([b_of] is constantly
   [BMiss]): the AC entry and the Tree blobs are then read locally, and the fail-fast find-missing
   asks the backend exactly for the locally absent digests within max_proxy_blob_size.
   (The local-hit path of a Get never looks at the backend's Get behaviour: [get_local_hit_exact].) *)
From Coq Require Import Permutation.
From BR Require Import Base.Prelude Model.LRU Proofs.LRU_inv Proofs.LRU_spec.
From BR Require Import Model.Disk Proofs.Disk_ack Proofs.Disk_fun_fm Proofs.Disk_fun_put Proofs.Disk_fun_get.
From BR Require Import Proofs.ACDeps_base.
From BR Require Import Model.ActionResult Proofs.ActionResult_validate Model.ACDeps Proofs.ACDeps_spec Proofs.ACDeps_props.
Open Scope Z_scope.

Ltac conj := repeat match goal with |- _ /\ _ => split end.

(* ------------------------------------------------------------------ *)
(* a read that finds entry and file: exact, for every backend behaviour *)

Lemma get_local_hit_exact c d k h sz off zstd b rnd v f :
  Inv (lru d) -> get_guard k h sz off zstd = None ->
  local_hit (lru d) (Disk.files d) k h sz = Some (v, f) ->
  exec c d (RGet k h sz off zstd b rnd) = (set_lru (fst (LRU.get (lookup_key k h) (lru d))) d, Some (hit_of k v f)).
Proof.
  intros HI EG EL. rewrite exec_get_eq. unfold get_fun. rewrite EG. cbv zeta.
  apply local_hit_iff in EL as (Hp & Hm & Hf & Hv).
  pose proof (get_same (lookup_key k h) (lru d) HI) as HG.
  destruct (LRU.get (lookup_key k h) (lru d)) as [l' g]. destruct HG as (_ & _ & Hg). cbn [fst].
  unfold peek in Hp. destruct (find_key (lookup_key k h) (order (lru d))) as [e|]; [|discriminate].
  inversion Hp as [Hve]. subst g. rewrite Hve, Hm, Hf. unfold get_validate_fun. rewrite Hv. reflexivity.
Qed.

(* ------------------------------------------------------------------ *)
(* fail-fast find-missing that does not stop early touches every digest, with or without backend *)

Lemma fm_loop_touch c ds bs ff h tm : forall m todo acc d n,
  (List.length todo <= m)%nat -> (2 * List.length todo + 1 <= n)%nat -> Inv (lru d) ->
  ff && existsb (fun x => negb (present c (lru d) x)) todo = false ->
  lru (fst (run_thread c n d (mkThread (RFindMissing ds bs ff) (FMBatch todo acc) h tm)))
  = fst (fm_local (lru d) todo).
Proof.
  induction m as [|m IH]; intros todo acc d n Hm Hn HI Hall.
  - destruct todo as [|x todo]; [|cbn in Hm; lia].
    destruct n as [|n]; [cbn in Hn; lia|]. rewrite run_thread_S, tstep_fm_nil.
    erewrite run_done by reflexivity. reflexivity.
  - destruct todo as [|x todo].
    { destruct n as [|n]; [cbn in Hn; lia|]. rewrite run_thread_S, tstep_fm_nil.
      erewrite run_done by reflexivity. reflexivity. }
    destruct n as [|n]; [cbn in Hn; lia|]. rewrite run_thread_S, tstep_fm_batch.
    pose proof (firstn_batch_spec batchSize (x :: todo)) as HB.
    destruct (firstn_batch batchSize (x :: todo)) as [batch rest]. destruct HB as [HB1 HB2].
    assert (Hne : batch <> []) by (apply HB2; [discriminate|unfold batchSize; discriminate]).
    assert (Hlen : (List.length rest < List.length (x :: todo))%nat).
    { rewrite HB1, app_length. destruct batch; [congruence|cbn; lia]. }
    rewrite HB1 in Hall |- *. clear HB2. cbn [List.length] in Hm, Hn, Hlen.
    rewrite existsb_app in Hall.
    rewrite fm_local_app.
    pose proof (fm_local_spec batch (lru d) HI) as HL.
    destruct (fm_local (lru d) batch) as [l' res]. destruct HL as (HI' & HS & ->).
    assert (Hrest : ff && existsb (fun x0 => negb (present c l' x0)) rest = false).
    { destruct ff; [|reflexivity]. cbn [andb] in *. apply orb_false_iff in Hall as [_ Hall].
      rewrite <- Hall. apply existsb_ext'. intros y. rewrite (present_same _ _ _ _ HS). reflexivity. }
    assert (Go : forall acc', lru (fst (run_thread c n (set_lru l' d)
                   (mkThread (RFindMissing ds bs ff) (FMBatch rest acc') h tm)))
                 = fst (let '(l2, r2) := fm_local l' rest in (l2, map (local_out (lru d)) batch ++ r2))).
    { intros acc'. specialize (IH rest acc' (set_lru l' d) n). cbn [lru set_lru] in IH.
      rewrite IH; [|lia|lia|exact HI'|exact Hrest]. destruct (fm_local l' rest); reflexivity. }
    cbv zeta. rewrite count_some_local.
    destruct (existsb (fun x0 => negb (present_local (lru d) (fst x0))) batch) eqn:EL; cbn [negb]; [|apply Go].
    destruct (c_proxy c) eqn:EP; cbn [negb].
    + destruct (acc_proxy c (lru d) batch EP) as [HA1 HA2].
      destruct n as [|n]; [lia|]. rewrite run_thread_S, tstep_fm_proxy, HA2.
      assert (EF : ff && existsb (fun x0 => negb (present c (lru d) x0)) batch = false).
      { destruct ff; [|reflexivity]. cbn [andb] in *. apply orb_false_iff in Hall as [Hall _]. exact Hall. }
      rewrite EF.
      specialize (IH rest (acc ++ map (fun o : option slot => match o with
                           | Some ((h0, sz), bh) => if sz >? c_maxproxy c then Some (h0, sz)
                                                    else match bh with BHasYes _ => None | BHasNo => Some (h0, sz) end
                           | None => None end) (map (local_out (lru d)) batch)) (set_lru l' d) n).
      cbn [lru set_lru] in IH. rewrite IH; [|lia|lia|exact HI'|exact Hrest]. destruct (fm_local l' rest); reflexivity.
    + destruct (acc_no_proxy c (lru d) batch EP) as [HA1 HA2].
      destruct ff; [|apply Go].
      exfalso. cbn [andb] in Hall. apply orb_false_iff in Hall as [Hall _]. rewrite HA2, EL in Hall. discriminate.
Qed.

Lemma Forall2_impl {A B} (R R' : A -> B -> Prop) l l' :
  (forall a b, R a b -> R' a b) -> Forall2 R l l' -> Forall2 R' l l'.
Proof. intros H HF. induction HF; constructor; auto. Qed.

(* the backend's word for each digest *)
Definition asked (has_of : string -> bhas) (xs : list (string * Z)) : list slot := map (fun x => (x, has_of (fst x))) xs.

Lemma fm_todo_asked has_of xs : fm_todo xs (map (fun x => has_of (fst x)) xs) = asked has_of xs.
Proof.
  unfold fm_todo, asked. generalize (repeat BHasNo (List.length xs)). intros pad.
  induction xs as [|x t IH]; cbn; [reflexivity|]. rewrite IH. reflexivity.
Qed.

(* present, counting the backend's word: local with the stated size, or asked (within the limit) and yes *)
Definition present_b (c : cfg) (has_of : string -> bhas) (l : LRU.state) (x : string * Z) : bool :=
  present c l (x, has_of (fst x)).

Lemma existsb_asked c has_of l xs :
  existsb (fun s => negb (present c l s)) (asked has_of xs) = negb (forallb (present_b c has_of l) xs).
Proof.
  unfold asked, present_b. induction xs as [|x t IH]; cbn; [reflexivity|]. rewrite IH, negb_andb. reflexivity.
Qed.

Theorem fm_failfast_backend c has_of d xs d' r :
  Inv (lru d) ->
  exec c d (RFindMissing xs (map (fun x => has_of (fst x)) xs) true) = (d', r) ->
  Disk.files d' = Disk.files d /\ handed d' = handed d /\ Inv (lru d') /\ LruSame (lru d) (lru d') /\
  if forallb (present_b c has_of (lru d)) xs
  then r = Some (Missing []) /\ lru d' = touch_all (touch_keys xs) (lru d)
  else r = Some MissingFailFast.
Proof.
  intros HI H. destruct (exec_fm c d xs (map (fun x => has_of (fst x)) xs) true HI) as (d2 & H1 & H2 & H3 & H4 & H5).
  rewrite H in H1. inversion H1; subst d2 r. clear H1.
  split; [exact H4|]. split; [exact H5|]. split; [exact H2|]. split; [exact H3|].
  rewrite fm_todo_asked. unfold fm_result. cbn [andb]. rewrite existsb_asked.
  destruct (forallb (present_b c has_of (lru d)) xs) eqn:EA; cbn [negb]; [|reflexivity].
  split.
  - rewrite app_nil_l, flat_slot_out, existsb_filter_nil; [reflexivity|]. rewrite existsb_asked, EA. reflexivity.
  - set (bs := map (fun x => has_of (fst x)) xs) in *.
    assert (Hd : d' = fst (run_thread c (fuel_for (RFindMissing xs bs true)) d (spawn (RFindMissing xs bs true)))).
    { unfold exec in H. destruct (run_thread c _ d _) as [d3 t3]. inversion H. reflexivity. }
    rewrite Hd.
    change (fuel_for (RFindMissing xs bs true)) with (2 * List.length xs + 8)%nat.
    change (spawn (RFindMissing xs bs true)) with (mkThread (RFindMissing xs bs true) (FMBatch (fm_todo xs bs) []) 0 None).
    unfold bs. rewrite fm_todo_asked.
    rewrite (fm_loop_touch c xs (map (fun x => has_of (fst x)) xs) true 0 None (List.length (asked has_of xs))
               (asked has_of xs) [] d (2 * List.length xs + 8)%nat (le_n _));
      [|unfold asked; rewrite map_length; lia|exact HI|cbn [andb]; rewrite existsb_asked, EA; reflexivity].
    rewrite fm_local_touch. unfold asked. rewrite map_map. cbn [fst]. rewrite map_id. reflexivity.
Qed.

(* ------------------------------------------------------------------ *)

Section Backend.
  Variable c : cfg.
  Variable dec_ar : Z -> option action_result.
  Variable dec_tree : Z -> option tree.
  Variable b_of : string -> bget.
  Variable has_of : string -> bhas.
  Hypothesis b_miss : forall h, b_of h = BMiss.

  (* reading the trees when they are all held locally *)
  Lemma read_trees_local : forall ds ts d1, Inv (lru d1) -> Forall DirOK ds ->
    trees_read dec_tree d1 ds ts ->
    read_trees c dec_tree b_of d1 ds
    = (set_lru (touch_all (touch_keys (map dig (tree_digests ds))) (lru d1)) d1, Some (Some ts)).
  Proof.
    induction ds as [|od rest IH]; intros ts d1 HI Hok Hr; cbn [read_trees].
    { inversion Hr; subst. cbn. destruct d1; reflexivity. }
    inversion Hr as [|? t ? ts' Hrel Hr']; subst. destruct Hrel as (g & cid & Hg & Hc & Ht).
    inversion Hok as [|? ? [g' [Hg' Hwf]] Hok']; subst. rewrite Hg in Hg'. inversion Hg'; subst g'. rewrite Hg.
    unfold tree_digests. cbn [map somes]. rewrite Hg. cbn [somes map]. fold (tree_digests rest).
    pose proof (tree_guard g Hwf) as EG. destruct Hwf as [_ Hsz].
    unfold cas_blob in Hc.
    destruct ((size_bytes g <=? 0) && String.eqb (hash g) emptySha256) eqn:ES.
    - rewrite (get_guarded c d1 _ _ _ _ _ _ _ _ EG). inversion Hc; subst cid.
      assert (E0 : (0 =? size_bytes g) = true) by lia. rewrite E0. cbn [negb]. rewrite Ht.
      assert (EE : is_empty_digest (dig g) = true).
      { unfold is_empty_digest, dig. cbn [fst snd]. apply andb_true_iff in ES as [_ ->]. lia. }
      unfold touch_keys at 1. cbn [filter]. rewrite EE. cbn [negb]. fold (touch_keys (map dig (tree_digests rest))).
      rewrite (IH ts' d1 HI Hok' Hr'). reflexivity.
    - destruct (local_hit (lru d1) (Disk.files d1) CAS (hash g) (size_bytes g)) as [[v f]|] eqn:EL; [|discriminate].
      inversion Hc; subst cid.
      rewrite (get_local_hit_exact c d1 CAS (hash g) (size_bytes g) 0 false _ _ v f HI EG EL).
      unfold hit_of. cbn [kind_eqb].
      apply local_hit_iff in EL as (Hpk & Hmm & _ & _).
      pose proof (peek_item_ok _ _ _ HI Hpk) as [Hv0 _].
      assert (Esz : (size v =? size_bytes g) = true) by (unfold mismatch in Hmm; lia). rewrite Esz. cbn [negb]. rewrite Ht.
      assert (EE : is_empty_digest (dig g) = false).
      { unfold is_empty_digest, dig. cbn [fst snd]. apply andb_false_iff in ES as [ES|ES]; [|rewrite ES; apply andb_false_r].
        assert (E1 : (size_bytes g =? 0) = false) by lia. rewrite E1. reflexivity. }
      unfold touch_keys at 1. cbn [filter]. rewrite EE. cbn [negb map]. fold (touch_keys (map dig (tree_digests rest))).
      cbn [touch_all fold_left dig fst]. fold (touch_all (touch_keys (map dig (tree_digests rest)))).
      pose proof (get_same (lookup_key CAS (hash g)) (lru d1) HI) as HG.
      destruct (LRU.get (lookup_key CAS (hash g)) (lru d1)) as [l' gg]. destruct HG as (HI' & HS & _). cbn [fst].
      assert (Hr2 : trees_read dec_tree (set_lru l' d1) rest ts').
      { unfold trees_read in *. eapply Forall2_impl; [|exact Hr']. intros od' t' (g' & cid' & H1 & H2 & H3).
        exists g', cid'. conj; try assumption. rewrite (cas_blob_same d1 (set_lru l' d1)); [exact H2|exact HS|reflexivity]. }
      rewrite (IH ts' (set_lru l' d1) HI' Hok' Hr2). reflexivity.
  Qed.

  (* … and conversely: the trees were all read only if they are all held locally *)
  Lemma read_trees_sound : forall ds d1 d2 ts, Inv (lru d1) -> Forall DirOK ds ->
    read_trees c dec_tree b_of d1 ds = (d2, Some (Some ts)) -> trees_read dec_tree d1 ds ts.
  Proof.
    induction ds as [|od rest IH]; intros d1 d2 ts HI Hok; cbn [read_trees].
    { intros H; inversion H; subst. constructor. }
    inversion Hok as [|? ? [g [Hg Hwf]] Hok']; subst. rewrite Hg.
    pose proof (tree_guard g Hwf) as EG. destruct Hwf as [_ Hsz]. rewrite (b_miss (hash g)).
    destruct (exec c d1 (RGet CAS (hash g) (size_bytes g) 0 false BMiss "fetched")) as [d1' r] eqn:E.
    pose proof (get_local_spec c d1 CAS (hash g) (size_bytes g) 0 false BMiss "fetched" d1' r HI (or_introl eq_refl) E) as HL.
    rewrite EG in HL.
    destruct ((size_bytes g <=? 0) && String.eqb (hash g) emptySha256) eqn:ES.
    - destruct HL as [-> ->]. destruct (negb (0 =? size_bytes g)); [discriminate|].
      destruct (dec_tree 0) as [t|] eqn:Et; [|discriminate].
      destruct (read_trees c dec_tree b_of d1 rest) as [d3 r3] eqn:ER.
      destruct r3 as [[ts'|]|]; try discriminate. intros H; inversion H; subst.
      constructor; [|eapply IH; eassumption]. exists g, 0. conj; try assumption. unfold cas_blob. rewrite ES. reflexivity.
    - destruct HL as (F1 & F2 & F3 & HL).
      destruct (local_hit (lru d1) (Disk.files d1) CAS (hash g) (size_bytes g)) as [[v f]|] eqn:EL.
      + destruct HL as [-> HS]. unfold hit_of. cbn [kind_eqb].
        destruct (negb (size v =? size_bytes g)); [discriminate|].
        destruct (dec_tree (f_cid f)) as [t|] eqn:Et; [|discriminate].
        destruct (read_trees c dec_tree b_of d1' rest) as [d3 r3] eqn:ER.
        destruct r3 as [[ts'|]|]; try discriminate. intros H; inversion H; subst.
        constructor.
        * exists g, (f_cid f). conj; try assumption. unfold cas_blob. rewrite ES, EL. reflexivity.
        * pose proof (IH d1' _ ts' F3 Hok' ER) as Hr. unfold trees_read in *.
          eapply Forall2_impl; [|exact Hr]. intros od' t' (g' & cid' & H1 & H2 & H3).
          exists g', cid'. conj; try assumption. rewrite <- (cas_blob_same d1 d1'); [exact H2|exact HS|exact F1].
      + destruct HL as [[->|[e ->]] _]; discriminate.
  Qed.

  (* entry valid and trees readable: the outcome is decided by the dependency check *)
  Theorem deps_decide d key ar ts d' o :
    Inv (lru d) -> ac_entry dec_ar d key ar -> valid ar = true ->
    trees_read dec_tree d (somes (ar_dirs ar)) ts ->
    get_validated c dec_ar dec_tree b_of has_of d key = (d', o) ->
    Disk.files d' = Disk.files d /\ handed d' = handed d /\ Inv (lru d') /\ LruSame (lru d) (lru d') /\
    if forallb (present_b c has_of (lru d)) (map dig (pending ar ts))
    then o = ACHit ar /\ lru d' = touch_all (hit_keys key ar ts) (lru d)
    else o = ACMiss.
  Proof.
    intros HI Hac Hv Hr. apply ac_entry_hit in Hac as [HK (v & f & EL & Hlen & ED)].
    unfold get_validated.
    assert (EG : get_guard AC key (-1) 0 false = None).
    { rewrite ac_guard. assert (E : (Z.of_nat (String.length key) =? hashLen) = true) by lia. rewrite E. reflexivity. }
    rewrite (get_local_hit_exact c d AC key (-1) 0 false _ _ v f HI EG EL).
    unfold hit_of. cbn [kind_eqb].
    assert (EF : (f_len f <=? 0) = false) by lia. rewrite EF, ED, Hv. cbn [negb].
    pose proof (get_same (lookup_key AC key) (lru d) HI) as HG.
    destruct (LRU.get (lookup_key AC key) (lru d)) as [l1 gg] eqn:EGet. destruct HG as (HI1 & HS1 & _). cbn [fst].
    assert (Hr1 : trees_read dec_tree (set_lru l1 d) (somes (ar_dirs ar)) ts).
    { unfold trees_read in *. eapply Forall2_impl; [|exact Hr]. intros od' t' (g' & cid' & H1 & H2 & H3).
      exists g', cid'. conj; try assumption. rewrite (cas_blob_same d (set_lru l1 d)); [exact H2|exact HS1|reflexivity]. }
    rewrite (read_trees_local _ ts (set_lru l1 d) HI1 (wf_dirs_ok ar Hv) Hr1). cbn [lru set_lru].
    set (l2 := touch_all (touch_keys (map dig (tree_digests (somes (ar_dirs ar))))) l1).
    destruct (touch_all_same (touch_keys (map dig (tree_digests (somes (ar_dirs ar))))) l1 HI1) as [HI2 HS2]. fold l2 in HI2, HS2.
    assert (HS02 : LruSame (lru d) l2) by (eapply same_trans; eassumption).
    change (map (fun g => (hash g, size_bytes g)) (pending ar ts)) with (map dig (pending ar ts)).
    match goal with |- context [exec c ?dd (RFindMissing ?xs ?bs true)] =>
      destruct (exec c dd (RFindMissing xs bs true)) as [d3 r3] eqn:EFM;
      destruct (fm_failfast_backend c has_of dd xs d3 r3 HI2 EFM) as (K1 & K2 & K3 & K4 & K5) end.
    cbn [lru set_lru Disk.files handed] in *.
    assert (EQ : forallb (present_b c has_of l2) (map dig (pending ar ts))
                 = forallb (present_b c has_of (lru d)) (map dig (pending ar ts))).
    { apply forallb_ext'. intros x. unfold present_b. apply present_same. exact HS02. }
    rewrite EQ in K5.
    destruct (forallb (present_b c has_of (lru d)) (map dig (pending ar ts))).
    - destruct K5 as [-> K5]. intros H; inversion H; subst.
      conj; try assumption; try reflexivity; [eapply same_trans; eassumption|].
      rewrite K5. unfold hit_keys, l2. cbn [touch_all fold_left]. rewrite EGet. cbn [fst].
      fold (touch_all (touch_keys (map dig (tree_digests (somes (ar_dirs ar)))) ++ touch_keys (map dig (pending ar ts)))).
      rewrite touch_all_app. reflexivity.
    - subst r3. intros H; inversion H; subst. conj; try assumption; try reflexivity. eapply same_trans; eassumption.
  Qed.

  (* a hit only ever comes out of that path *)
  Theorem hit_path d key d' ar :
    Inv (lru d) -> get_validated c dec_ar dec_tree b_of has_of d key = (d', ACHit ar) ->
    ac_entry dec_ar d key ar /\ valid ar = true /\ exists ts, trees_read dec_tree d (somes (ar_dirs ar)) ts.
  Proof.
    intros HI. unfold get_validated. rewrite (b_miss key).
    destruct (exec c d (RGet AC key (-1) 0 false BMiss "fetched")) as [d1 r] eqn:E.
    pose proof (get_local_spec c d AC key (-1) 0 false BMiss "fetched" d1 r HI (or_introl eq_refl) E) as HL.
    rewrite ac_guard in HL.
    destruct (negb (Z.of_nat (String.length key) =? hashLen)) eqn:EK; [destruct HL as [-> _]; discriminate|].
    apply negb_false_iff in EK. destruct HL as (F1 & F2 & F3 & HL).
    destruct (local_hit (lru d) (Disk.files d) AC key (-1)) as [[v f]|] eqn:EL.
    2:{ destruct HL as [[->|[e ->]] _]; discriminate. }
    destruct HL as [-> HS]. unfold hit_of. cbn [kind_eqb].
    destruct (f_len f <=? 0) eqn:EF; [discriminate|].
    destruct (dec_ar (f_cid f)) as [ar0|] eqn:ED; [|discriminate].
    destruct (valid ar0) eqn:EV; [|discriminate]. cbn [negb].
    destruct (read_trees c dec_tree b_of d1 (somes (ar_dirs ar0))) as [d2 rt] eqn:ER.
    destruct rt as [[ts|]|]; try discriminate.
    destruct (exec c d2 _) as [d3 r3]. destruct r3 as [[| | | | | |[|]|]|]; try discriminate.
    intros H; inversion H; subst ar0.
    split; [apply ac_entry_hit; split; [lia|]; exists v, f; conj; try assumption; lia|]. split; [exact EV|].
    exists ts. pose proof (read_trees_sound _ _ _ _ F3 (wf_dirs_ok ar EV) ER) as Hr. unfold trees_read in *.
    eapply Forall2_impl; [|exact Hr]. intros od' t' (g' & cid' & Q1 & Q2 & Q3).
    exists g', cid'. conj; try assumption. rewrite <- (cas_blob_same d d1); [exact Q2|exact HS|exact F1].
  Qed.

  (* what [present_b] says, as a proposition *)
  Definition backed (g : digest) (l : LRU.state) : Prop :=
    present_local l (hash g, size_bytes g) = true \/
    (c_proxy c = true /\ size_bytes g <= c_maxproxy c /\ exists x, has_of (hash g) = BHasYes x).

  Lemma present_b_iff l g : present_b c has_of l (dig g) = true <-> backed g l.
  Proof. unfold present_b, backed, dig. cbn [fst]. rewrite fm_present_cases. cbn [snd]. reflexivity. Qed.

  Lemma forallb_backed l gs :
    forallb (present_b c has_of l) (map dig gs) = true <-> forall g, In g gs -> backed g l.
  Proof.
    rewrite forallb_forall. split.
    - intros H g Hg. apply present_b_iff. apply H. apply in_map. exact Hg.
    - intros H x Hx. apply in_map_iff in Hx as (g & <- & Hg). apply present_b_iff. apply H. exact Hg.
  Qed.

  Lemma trees_read_fun d : forall ds ts ts', trees_read dec_tree d ds ts -> trees_read dec_tree d ds ts' -> ts = ts'.
  Proof.
    intros ds ts ts' H. revert ts'. induction H as [|od t ds ts Hrel Hr IH]; intros ts' H'; inversion H' as [|? t' ? ts2 Hrel' Hr']; subst; [reflexivity|].
    destruct Hrel as (g & cid & Hg & Hc & Ht). destruct Hrel' as (g' & cid' & Hg' & Hc' & Ht').
    rewrite Hg in Hg'. inversion Hg'; subst g'. rewrite Hc in Hc'. inversion Hc'; subst cid'. rewrite Ht in Ht'. inversion Ht'; subst t'.
    f_equal. apply IH. exact Hr'.
  Qed.

  (* ---------------- (1) ---------------- *)
  Theorem hit_sound_backend d key d' ar :
    Inv (lru d) -> get_validated c dec_ar dec_tree b_of has_of d key = (d', ACHit ar) ->
    ac_entry dec_ar d key ar /\ valid ar = true /\
    exists ts, trees_read dec_tree d (somes (ar_dirs ar)) ts /\
               forall g, In g (referenced ar ts) -> backed g (lru d).
  Proof.
    intros HI H. destruct (hit_path d key d' ar HI H) as (Hac & Hv & ts & Hr).
    split; [exact Hac|]. split; [exact Hv|]. exists ts. split; [exact Hr|].
    destruct (deps_decide d key ar ts d' _ HI Hac Hv Hr H) as (_ & _ & _ & _ & HD).
    destruct (forallb (present_b c has_of (lru d)) (map dig (pending ar ts))) eqn:EA; [|discriminate].
    intros g Hg. destruct (referenced_cases dec_ar dec_tree d ar ts g Hr Hv Hg) as [H1|H1]; [|left; exact H1].
    apply (proj1 (forallb_backed _ _) EA). exact H1.
  Qed.

  (* ---------------- (2) ---------------- *)
  Theorem absent_is_miss_backend d key ar ts d' o g :
    Inv (lru d) -> get_validated c dec_ar dec_tree b_of has_of d key = (d', o) ->
    ac_entry dec_ar d key ar -> valid ar = true -> trees_read dec_tree d (somes (ar_dirs ar)) ts ->
    In g (referenced ar ts) -> present_local (lru d) (hash g, size_bytes g) = false ->
    (c_proxy c = false \/ size_bytes g > c_maxproxy c \/ has_of (hash g) = BHasNo) ->
    o = ACMiss.
  Proof.
    intros HI H Hac Hv Hr Hg Hn Hb.
    destruct (deps_decide d key ar ts d' o HI Hac Hv Hr H) as (_ & _ & _ & _ & HD).
    destruct (forallb (present_b c has_of (lru d)) (map dig (pending ar ts))) eqn:EA; [|exact HD].
    exfalso. change (hash g, size_bytes g) with (dig g) in Hn.
    destruct (referenced_cases dec_ar dec_tree d ar ts g Hr Hv Hg) as [H1|H1]; [|rewrite H1 in Hn; discriminate].
    destruct (proj1 (forallb_backed _ _) EA g H1) as [H2|(H2 & H3 & x & H4)].
    - unfold dig in Hn. rewrite H2 in Hn. discriminate.
    - destruct Hb as [Hb|[Hb|Hb]]; [congruence|lia|congruence].
  Qed.

  (* ---------------- (3) ---------------- *)
  Theorem hit_complete_backend d key ar ts :
    Inv (lru d) -> ac_entry dec_ar d key ar -> valid ar = true -> trees_read dec_tree d (somes (ar_dirs ar)) ts ->
    (forall g, In g (referenced ar ts) -> backed g (lru d)) ->
    exists d', get_validated c dec_ar dec_tree b_of has_of d key = (d', ACHit ar).
  Proof.
    intros HI Hac Hv Hr Hall.
    destruct (get_validated c dec_ar dec_tree b_of has_of d key) as [d' o] eqn:E. exists d'. f_equal.
    destruct (deps_decide d key ar ts d' o HI Hac Hv Hr E) as (_ & _ & _ & _ & HD).
    assert (EA : forallb (present_b c has_of (lru d)) (map dig (pending ar ts)) = true).
    { apply forallb_backed. intros g Hg. apply Hall. apply pending_incl_referenced. exact Hg. }
    rewrite EA in HD. apply HD.
  Qed.

  (* ---------------- (4) ---------------- *)
  Theorem hit_touches_backend d key d' ar :
    Inv (lru d) -> get_validated c dec_ar dec_tree b_of has_of d key = (d', ACHit ar) ->
    exists ts, trees_read dec_tree d (somes (ar_dirs ar)) ts /\
      let ks := hit_keys key ar ts in
      lru d' = touch_all ks (lru d) /\
      order (lru d') = fold_left (fun o k => touch k o) ks (order (lru d)) /\
      (exists T, order (lru d') = filter (fun e => negb (touched ks e)) (order (lru d)) ++ T /\
                 Permutation T (filter (touched ks) (order (lru d)))) /\
      LruSame (lru d) (lru d') /\ Disk.files d' = Disk.files d /\ handed d' = handed d /\ Inv (lru d').
  Proof.
    intros HI H. destruct (hit_path d key d' ar HI H) as (Hac & Hv & ts & Hr). exists ts. split; [exact Hr|].
    destruct (deps_decide d key ar ts d' _ HI Hac Hv Hr H) as (Hf & Hh & HI' & HS & HD).
    destruct (forallb (present_b c has_of (lru d)) (map dig (pending ar ts))); [|discriminate].
    destruct HD as [_ Hl]. cbv zeta. split; [exact Hl|]. split; [rewrite Hl; apply touch_all_order|].
    pose proof HI as ([Hk Hi _ _ _ _ _ _ _] & _). split.
    - rewrite Hl, touch_all_order. apply fold_touch_shape; assumption.
    - conj; assumption.
  Qed.

  (* once entry and trees are read locally, the call changes nothing but the recency order, whatever
     the outcome: nothing is fetched, reserved or written by the dependency check *)
  Theorem deps_check_frame d key ar ts d' o :
    Inv (lru d) -> ac_entry dec_ar d key ar -> valid ar = true ->
    trees_read dec_tree d (somes (ar_dirs ar)) ts ->
    get_validated c dec_ar dec_tree b_of has_of d key = (d', o) ->
    Disk.files d' = Disk.files d /\ handed d' = handed d /\ Inv (lru d') /\ LruSame (lru d) (lru d') /\
    (o = ACHit ar \/ o = ACMiss).
  Proof.
    intros HI Hac Hv Hr H. destruct (deps_decide d key ar ts d' o HI Hac Hv Hr H) as (Hf & Hh & HI' & HS & HD).
    conj; try assumption. destruct (forallb _ _); [left; apply HD|right; exact HD].
  Qed.
End Backend.
