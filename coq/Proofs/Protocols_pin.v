(* Proofs/Protocols_pin.v — the SpliceBlob theorems restated for the code as it is: the drain
   parameter of the model is COMPUTED from the source text of diskCache.Put that go2coq regenerates
   on every check (Gen.DiskSrc.src_diskCache_Put), so a change of Put that stops consuming its
   reader on some return path (an early `r = nil`, a removed drain) breaks [put_drains_pinned], and
   with it every theorem below.  The verbatim pin of the same text is Bridge_Disk.src_diskCache_Put_pinned. *)
From BR Require Import Base.Prelude Gen.DiskSrc Bridge.Bridge_Disk Model.Keys Model.Protocols
  Proofs.Protocols_base Proofs.Protocols_splice.
Open Scope nat_scope.

(* Put opens with the deferred drain of r and gives r up (r = nil) only after writeAndCloseFile
   has read it to the end: on every return path the read end is consumed *)
Lemma put_drains_pinned : put_drains Gen.DiskSrc.src_diskCache_Put = true.
Proof. vm_compute. reflexivity. Qed.

(* what the counter-example variant looks like in the text: an `r = nil` on the path where
   lru.Reserve fails is refused by [put_drains] *)
Example put_drains_rejects_early_release :
  put_drains (put_drain_prefix ++ " if err != nil { c.mu.Unlock() r = nil return err } " ++ put_release_point ++ " return nil }")%string = false.
Proof. vm_compute. reflexivity. Qed.

Theorem splice_no_hang_code :
  forall n s, reach (splice_cstep (put_drains Gen.DiskSrc.src_diskCache_Put)) (splice_init, n) s -> s_h (fst s) = HRet ->
    all_runs_end_in (splice_cstep (put_drains Gen.DiskSrc.src_diskCache_Put))
      (fun s' => s_h (fst s') = HRet /\ s_w (fst s') = WExit /\ s_wclosed (fst s') = true /\ s_rcopen (fst s') = false) s.
Proof. rewrite put_drains_pinned. exact splice_no_hang. Qed.

Theorem splice_total_code :
  forall n s, reach (splice_cstep (put_drains Gen.DiskSrc.src_diskCache_Put)) (splice_init, n) s ->
    all_runs_end_in (splice_cstep (put_drains Gen.DiskSrc.src_diskCache_Put)) (fun s' => splice_final (fst s') = true) s.
Proof. rewrite put_drains_pinned. exact splice_total. Qed.
