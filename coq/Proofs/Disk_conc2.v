(* Proofs/Disk_conc2.v — C07, second part: every step of every thread program establishes what the
   next program counter says about the value it carries; the ghost invariant holds along every run
   whose file names are fresh; the theorems about readers (whole value, stable stream), progress. *)
From Coq Require Import Permutation.
From BR Require Import Base.Prelude Model.LRU Proofs.LRU_inv Proofs.LRU_spec Model.Disk
  Proofs.Disk_inv1 Proofs.Disk_inv2 Proofs.Disk_inv Proofs.Disk_conc.
Open Scope Z_scope.

Definition EntriesLogged (l : LRU.state) (X : list xcommit) : Prop :=
  forall en, In en (all_entries l) ->
    exists cid, In (entry_path en, (ekey en, cid, size (evalue en), sizeOnDisk (evalue en))) X.
Definition LogFiles (fs : list file) (X : list xcommit) : Prop :=
  forall p key cid lsz len f, In (p, (key, cid, lsz, len)) X -> find_file p fs = Some f ->
    f_complete f = true /\ f_cid f = cid /\ f_len f = len
    /\ (p_legacy p = false -> is_cas_key key = true -> f_logical f = lsz).
Definition LogRaw (X : list xcommit) : Prop :=
  forall p key cid lsz len, In (p, (key, cid, lsz, len)) X -> is_cas_key key = false -> lsz = len.

Definition ValStep (c : cfg) (d : dstate) (X : list xcommit) (t : thread) : Prop :=
  forall d' t', tstep c d t = Some (d', t') ->
  Inv (lru d) -> thread_ok c (files d) t -> val_ok c (files d) X t ->
  EntriesLogged (lru d) X -> LogFiles (files d) X -> LogRaw X ->
  val_ok c (files d') (X ++ xcommit_of t t') t'.

Ltac dm H := match type of H with
  | (if ?b then _ else _) = _ => destruct b eqn:?
  | match ?x with _ => _ end = _ => destruct x eqn:?
  end.
Ltac fin H := inv H; unfold val_ok; simpl; auto.
Ltac triv := intros d' t' H _ _ _ _ _ _; unfold tstep in H; cbn [t_pc t_req t_held t_tmp] in H;
  repeat dm H; try discriminate H; fin H.

(* a lookup hit returns a logged value *)
Lemma get_logged k l l' v id X : Inv l -> LRU.get k l = (l', Some (v, id)) -> EntriesLogged l X ->
  exists cid, In (path_of k v, (k, cid, size v, sizeOnDisk v)) X.
Proof.
  intros HI E HE. pose proof (get_spec k l HI) as GS. rewrite E in GS.
  destruct GS as (_ & _ & _ & _ & _ & _ & _ & e & Hf & Hin & Hv & _).
  apply find_key_In in Hf as [_ Hk]. unfold key_of in Hk.
  destruct (HE (ent e)) as [cid H].
  { unfold all_entries. apply in_or_app. left. apply in_map. exact Hin. }
  exists cid. unfold entry_path in H. rewrite Hk, Hv in H. exact H.
Qed.

(* opening the file of a logged value yields exactly that value *)
Lemma open_logged X X' fs k hash v cid f :
  In (path_of (lookup_key k hash) v, (lookup_key k hash, cid, size v, sizeOnDisk v)) X ->
  find_file (path_of (lookup_key k hash) v) fs = Some f -> LogFiles fs X -> LogRaw X ->
  In (lookup_key k hash, f_cid f, size v, f_len f) (map snd (X ++ X'))
  /\ (kind_eqb k CAS = false -> size v = f_len f)
  /\ f_complete f = true
  /\ (kind_eqb k CAS = true -> legacy v = false -> f_logical f = size v).
Proof.
  intros Hin Hf HL HR. destruct (HL _ _ _ _ _ _ Hin Hf) as (Hcomp & Hc & Hl & Hlg). rewrite Hc, Hl.
  split; [|split; [|split]].
  - rewrite map_app. apply in_or_app. left. apply (in_map snd) in Hin. exact Hin.
  - intros Hk. apply (HR _ _ _ _ _ Hin). rewrite is_cas_lookup_key. exact Hk.
  - exact Hcomp.
  - intros Hk Hleg. apply Hlg; [exact Hleg|rewrite is_cas_lookup_key; exact Hk].
Qed.

Lemma val_PutStart c d X k hash sz st rnd h tmp :
  ValStep c d X (mkThread (RPut k hash sz st rnd) PutStart h tmp).
Proof.
  intros d' t' H HI _ HV HE HL HRaw. unfold tstep in H. simpl in H.
  do 3 (match type of H with (if ?b then _ else _) = _ => destruct b end; [fin H|]).
  match type of H with (if ?b then _ else _) = _ => destruct b eqn:E2 end.
  { do 2 (dm H; [fin H|]). inv H. unfold val_ok. simpl. left.
    apply andb_true_iff in E2 as [E2 E3]. apply andb_true_iff in E2 as [E2 E4].
    destruct k; try discriminate. apply String.eqb_eq in E3. repeat split; auto. lia. }
  repeat dm H; fin H.
Qed.

Lemma val_PutCommit c d X k hash sz st rnd h tmp od :
  ValStep c d X (mkThread (RPut k hash sz st rnd) (PutCommit od) h tmp).
Proof.
  intros d' t' H HI _ HV HE HL HRaw. unfold tstep in H. cbn [t_pc t_req t_held t_tmp] in H.
  repeat dm H; try discriminate H; inv H; unfold val_ok; simpl; auto;
    (right; exists od; rewrite map_app; apply in_or_app; right; unfold xcommit_of; simpl; left; reflexivity).
Qed.

Lemma val_PutFinish c d X k hash sz st rnd h tmp :
  ValStep c d X (mkThread (RPut k hash sz st rnd) PutFinish h tmp).
Proof.
  intros d' t' H HI [Hr [Hp1 Hp2]] HV HE HL HRaw. simpl in Hp1. subst tmp.
  unfold tstep in H. simpl in H.
  match type of H with (if ?b then _ else _) = _ => destruct b eqn:EG end; [|fin H].
  inv H. unfold val_ok. simpl. split; [|split].
  - eexists _, _. split; [reflexivity|].
    split; [destruct (c_proxy c); simpl; rewrite path_eqb_refl; reflexivity|split; reflexivity].
  - intros Hk. rewrite Hk. reflexivity.
  - exact EG.
Qed.

Lemma val_GetStart c d X k hash sz off zstd b rnd h tmp :
  ValStep c d X (mkThread (RGet k hash sz off zstd b rnd) GetStart h tmp).
Proof.
  intros d' t' H HI _ HV HE HL HRaw. unfold tstep in H. simpl in H.
  do 2 (match type of H with (if ?b then _ else _) = _ => destruct b end; [fin H|]).
  match type of H with (if ?b then _ else _) = _ => destruct b eqn:E2 end.
  { inv H. unfold val_ok. simpl. left.
    apply andb_true_iff in E2 as [E2 E3]. apply andb_true_iff in E2 as [E2 E4].
    destruct k; try discriminate. apply String.eqb_eq in E3. repeat split; auto. lia. }
  do 3 (match type of H with (if ?b then _ else _) = _ => destruct b end; [fin H|]).
  destruct (LRU.get (lookup_key k hash) (lru d)) as [l' g] eqn:EG.
  destruct g as [[v id]|]; [|fin H].
  match type of H with (if ?b then _ else _) = _ => destruct b end; [fin H|].
  inv H. unfold val_ok. simpl. eapply get_logged in EG; [|exact HI|exact HE].
  destruct EG as [cid Hin]. exists cid. apply in_or_app. left. exact Hin.
Qed.

Lemma val_GetOpen c d X k hash sz off zstd b rnd h tmp v id :
  ValStep c d X (mkThread (RGet k hash sz off zstd b rnd) (GetOpen v id) h tmp).
Proof.
  intros d' t' H HI _ HV HE HL HRaw. unfold val_ok in HV. simpl in HV. destruct HV as [cid Hin].
  unfold tstep in H. simpl in H.
  match type of H with match ?x with _ => _ end = _ => destruct x as [f|] eqn:EF end; [|fin H].
  inv H. unfold val_ok. simpl. eapply open_logged; eassumption.
Qed.

Lemma val_GetSlow c d X k hash sz off zstd b rnd h tmp :
  ValStep c d X (mkThread (RGet k hash sz off zstd b rnd) GetSlow h tmp).
Proof.
  intros d' t' H HI _ HV HE HL HRaw. unfold tstep in H. simpl in H.
  destruct (LRU.get (lookup_key k hash) (lru d)) as [l' g] eqn:EG.
  destruct g as [[v id]|]; [|fin H].
  match type of H with match ?x with _ => _ end = _ => destruct x as [f|] eqn:EF end.
  - inv H. unfold val_ok. simpl. eapply get_logged in EG; [|exact HI|exact HE].
    destruct EG as [cid Hin]. eapply open_logged; eassumption.
  - dm H; fin H.
Qed.

Lemma val_GetValidate c d X k hash sz off zstd b rnd h tmp v id f :
  ValStep c d X (mkThread (RGet k hash sz off zstd b rnd) (GetValidate v id f) h tmp).
Proof.
  intros d' t' H HI _ HV HE HL HRaw. unfold val_ok in HV. simpl in HV. destruct HV as (Hin & Hraw & Hcomp & Hlg).
  assert (Hin' : In (lookup_key k hash, f_cid f, size v, f_len f)
                    (map snd (X ++ xcommit_of (mkThread (RGet k hash sz off zstd b rnd) (GetValidate v id f) h tmp) t'))).
  { rewrite map_app. apply in_or_app. left. exact Hin. }
  unfold tstep in H. simpl in H. destruct (kind_eqb k CAS) eqn:EK.
  - match type of H with (if ?b then _ else _) = _ => destruct b eqn:Eok end;
      inv H; unfold val_ok; simpl; auto; [right; exact Hin'|].
    destruct (legacy v) eqn:EL; [discriminate|]. rewrite Hcomp in Eok. simpl in Eok.
    apply orb_false_iff in Eok as [E1 E2]. specialize (Hlg eq_refl eq_refl).
    repeat split; auto; lia.
  - dm H; inv H; unfold val_ok; simpl; auto. right. rewrite (Hraw eq_refl) in Hin'. exact Hin'.
Qed.

Lemma val_GetCheck c d X k hash sz off zstd b rnd h tmp cl :
  ValStep c d X (mkThread (RGet k hash sz off zstd b rnd) (GetCheck cl) h tmp).
Proof.
  intros d' t' H HI [Hr [Hp1 Hp2]] HV HE HL HRaw. simpl in Hp1. subst tmp.
  unfold tstep in H. simpl in H. destruct b as [| |cl0 full dl berr cid lg]; try (fin H).
  destruct (negb (kind_eqb k CAS) || negb (c_zstd c)) eqn:ER.
  - destruct (negb (dl =? cl)) eqn:E1; [fin H|]. inv H. unfold val_ok. simpl.
    split; [eexists; split; [reflexivity|rewrite path_eqb_refl; reflexivity]|]. split; [reflexivity|].
    split; [intros _; lia|]. intros Hz. apply andb_true_iff in Hz as [Hz1 Hz2]. rewrite Hz1, Hz2 in ER. discriminate.
  - dm H; [|fin H]. inv H. unfold val_ok. simpl.
    split; [eexists; split; [reflexivity|rewrite path_eqb_refl; reflexivity]|]. split; [reflexivity|].
    split; [intros Hk; rewrite Hk in ER; discriminate|]. intros _.
    match goal with E : (_ && (lg =? cl)) = true |- _ => apply andb_true_iff in E; destruct E as [_ E] end. lia.
Qed.

Lemma val_GetCommit c d X k hash sz off zstd b rnd h tmp cl od f :
  ValStep c d X (mkThread (RGet k hash sz off zstd b rnd) (GetCommit cl od f) h tmp).
Proof.
  intros d' t' H HI _ HV HE HL HRaw. unfold val_ok in HV. simpl in HV. destruct HV as (_ & Hlen & _ & _).
  unfold tstep in H. cbn [t_pc t_req t_held t_tmp] in H.
  repeat dm H; try discriminate H; inv H; unfold val_ok; simpl; auto;
    (right; rewrite map_app; apply in_or_app; right; unfold xcommit_of; simpl; left; rewrite Hlen; reflexivity).
Qed.

Lemma val_Cleanup c d X req r h tmp : ValStep c d X (mkThread req (Cleanup r) h tmp).
Proof.
  intros d' t' H HI _ HV HE HL HRaw. unfold val_ok in HV. simpl in HV.
  assert (HV' : forall Y, resp_ok (map snd (X ++ Y)) req r).
  { intros Y. eapply resp_ok_mono; [|exact HV]. rewrite map_app. apply incl_appl, incl_refl. }
  unfold tstep in H. destruct req; cbn [t_pc t_req t_held t_tmp] in H;
    repeat dm H; try discriminate H; inv H; unfold val_ok; cbn [t_pc t_req goto];
    first [exact (HV' _) | destruct r; simpl; exact I].
Qed.

Theorem tstep_val c d X t : ValStep c d X t.
Proof.
  destruct t as [req pc h tmp].
  destruct pc; try apply val_Cleanup; destruct req;
    first [ apply val_PutStart | apply val_PutCommit | apply val_PutFinish | apply val_GetStart | apply val_GetOpen | apply val_GetSlow
          | apply val_GetValidate | apply val_GetCheck | apply val_GetCommit | triv ].
Qed.

(* ------------------------------------------------------------------ *)
(* program counter and request always belong to the same program *)

Definition wf_thread (t : thread) : Prop := pc_matches (t_pc t) (t_req t) = true.

Lemma tstep_wf c d t d' t' : tstep c d t = Some (d', t') -> wf_thread t'.
Proof.
  destruct t as [req pc h tmp]. intros H. unfold tstep in H.
  destruct pc; destruct req; cbn [t_pc t_req t_held t_tmp] in H;
    repeat dm H; try discriminate H; inv H; reflexivity.
Qed.

Lemma spawn_wf r : wf_thread (spawn r).
Proof. destruct r; reflexivity. Qed.

Lemma Forall_upd_nth {A} (P : A -> Prop) x : forall l i, Forall P l -> P x -> Forall P (upd_nth i x l).
Proof.
  induction l as [|y t IH]; intros [|i] HF Hx; simpl; inversion HF; subst; constructor; auto.
Qed.

Lemma sstep_wf c s l : Forall wf_thread (thr s) -> Forall wf_thread (thr (sstep c s l)).
Proof.
  intros HF. destruct l as [r|i|]; simpl.
  - apply Forall_app; split; [exact HF|]. constructor; [apply spawn_wf|constructor].
  - destruct (nth_error (thr s) i) as [t|] eqn:En; [|exact HF].
    destruct (tstep c (sd s) t) as [[d' t']|] eqn:Et; [|exact HF]. simpl.
    apply Forall_upd_nth; [exact HF|eapply tstep_wf; exact Et].
  - destruct (evictor_step (sd s)); [simpl|]; exact HF.
Qed.

Lemma srun_wf c ls : forall s, Forall wf_thread (thr s) -> Forall wf_thread (thr (srun c s ls)).
Proof. induction ls as [|l r IH]; intros s H; simpl; [exact H|]. apply IH, sstep_wf, H. Qed.

(* ------------------------------------------------------------------ *)
(* the remover, spawning, every label *)

Lemma NoDup_app_disj {A} (l1 l2 : list A) x : NoDup (l1 ++ l2) -> In x l1 -> ~ In x l2.
Proof.
  induction l1 as [|y t IH]; simpl; intros ND Hin; [tauto|]. inversion ND as [|? ? Hn ND']; subst.
  destruct Hin as [->|Hin]; [|apply IH; assumption].
  intros Hx. apply Hn. apply in_or_app. right. exact Hx.
Qed.

Lemma conc_evict c d d' ts X M :
  SysInv c (mkSys d ts) -> ConcInv c (mkSys d ts) X M -> evictor_step d = Some d' ->
  ConcInv c (mkSys d' ts) X M.
Proof.
  intros [HI HR HH HT HD HN HF] [CF CM CT CL CR CE CV] H. simpl in *. unfold evictor_step in H.
  pose proof (evictor_step_spec (lru d) HI) as HS.
  destruct (LRU.evictor_step (lru d)) as [l' [en|]]; [|discriminate]. inversion H; subst d'; clear H.
  destruct HS as (HI' & Hres & Hm & _ & Ho & _ & Hq). simpl.
  fold (entry_path en). set (p := entry_path en) in *.
  assert (HA : forall e, In e (all_entries l') -> In e (all_entries (lru d))).
  { unfold all_entries. rewrite Ho, Hq. intros e. rewrite !in_app_iff. simpl. tauto. }
  assert (Hp : ~ In p (tmp_paths ts)).
  { apply (NoDup_app_disj (map entry_path (all_entries (lru d)))).
    - eapply Permutation_NoDup; eassumption.
    - apply in_map. unfold all_entries. rewrite Hq. apply in_or_app. right. left. reflexivity. }
  assert (Hframe : forall q, q <> p -> find_file q (remove_file p (files d)) = find_file q (files d)).
  { intros q Hq'. apply find_file_remove_other. exact Hq'. }
  constructor; simpl.
  - intros q Hq'. apply CF. eapply remove_file_incl; exact Hq'.
  - exact CM.
  - exact CT.
  - intros q key cid lsz len f Hin Hf. destruct (path_eqb q p) eqn:E.
    + apply path_eqb_eq in E. subst q. rewrite find_file_remove_same in Hf by exact HN. discriminate.
    + rewrite Hframe in Hf; [eapply CL; eassumption|]. intros ->. rewrite path_eqb_refl in E. discriminate.
  - exact CR.
  - intros e He. apply CE, HA, He.
  - apply (others_val c (files d) _ X); auto using incl_refl.
    intros q Hq'. apply Hframe. intros ->. exact (Hp Hq').
Qed.

Lemma conc_spawn c s r X M : ConcInv c s X M -> ConcInv c (mkSys (sd s) (thr s ++ [spawn r])) X M.
Proof.
  intros [CF CM CT CL CR CE CV]. constructor; simpl; auto.
  - unfold tmp_paths. rewrite flat_map_app. simpl. rewrite app_nil_r. exact CT.
  - apply Forall_app; split; [exact CV|]. constructor; [|constructor]. destruct r; exact I.
Qed.

Definition step_xcommits (c : cfg) (s : sys) (l : label) : list xcommit :=
  match step_pair c s l with Some (t, t') => xcommit_of t t' | None => [] end.

Lemma step_xcommits_snd c s l : map snd (step_xcommits c s l) = step_commits c s l.
Proof.
  unfold step_xcommits, step_commits. destruct (step_pair c s l) as [[t t']|]; [|reflexivity].
  apply xcommit_of_snd.
Qed.

Lemma conc_step c s l X M :
  label_ok l -> SysInv c s -> ConcInv c s X M ->
  (forall p, In p (step_created c s l) -> ~ In p M) ->
  ConcInv c (sstep c s l) (X ++ step_xcommits c s l) (M ++ step_created c s l).
Proof.
  intros Hl HS HC Hfresh. unfold step_xcommits, step_created in *. destruct l as [r|i|]; simpl in *.
  - rewrite !app_nil_r. apply conc_spawn. exact HC.
  - destruct (nth_error (thr s) i) as [t|] eqn:En; [|rewrite !app_nil_r; exact HC].
    destruct (tstep c (sd s) t) as [[d' t']|] eqn:Et; [|rewrite !app_nil_r; exact HC].
    destruct s as [d ts]. simpl in *.
    assert (Hin : In t ts) by (eapply nth_error_In; exact En).
    pose proof (held_le_res c _ t HS Hin) as Hh. simpl in Hh.
    assert (Hok : thread_ok c (files d) t).
    { destruct HS as [_ _ _ HT _ _ _]. simpl in HT. rewrite Forall_forall in HT. apply HT. exact Hin. }
    assert (Hv : val_ok c (files d) X t).
    { destruct HC as [_ _ _ _ _ _ CV]. simpl in CV. rewrite Forall_forall in CV. apply CV. exact Hin. }
    destruct (tstep_effect c d t d' t' Et (si_inv _ _ HS) Hh Hok) as [HE HT'].
    assert (HV' : val_ok c (files d') (X ++ xcommit_of t t') t').
    { apply (tstep_val c d X t d' t' Et (si_inv _ _ HS) Hok Hv); destruct HC; assumption. }
    destruct (upd_nth_split ts i t t' En) as (l1 & l2 & E1 & E2). rewrite E2. rewrite E1 in HS, HC.
    eapply conc_preserves; eassumption.
  - rewrite !app_nil_r. destruct (evictor_step (sd s)) as [d'|] eqn:Ee; [|exact HC].
    destruct s as [d ts]. simpl in *. eapply conc_evict; eassumption.
Qed.

Lemma conc_init c mx hd : ConcInv c (sinit mx hd) [] [].
Proof. constructor; simpl; try tauto. constructor. Qed.

Lemma conc_run c ls : forall s X M,
  Forall label_ok ls -> SysInv c s -> ConcInv c s X M -> fresh_from c s M ls ->
  exists X' M', ConcInv c (srun c s ls) X' M' /\ map snd X' = map snd X ++ commits c s ls.
Proof.
  induction ls as [|l r IH]; intros s X M Hok HS HC Hf; simpl.
  - exists X, M. rewrite app_nil_r. split; [exact HC|reflexivity].
  - inversion Hok as [|? ? Hl Hr]; subst. destruct Hf as [Hf1 Hf2].
    destruct (IH (sstep c s l) (X ++ step_xcommits c s l) (M ++ step_created c s l)) as (X' & M' & H1 & H2);
      [assumption|apply sstep_inv; assumption|apply conc_step; assumption|exact Hf2|].
    exists X', M'. split; [exact H1|]. rewrite H2, map_app, step_xcommits_snd, app_assoc. reflexivity.
Qed.

(* ------------------------------------------------------------------ *)
(* C07: readers *)

(* every answered read is the empty-blob shortcut or exactly one committed upload/fetch of that key *)
Theorem whole_value c mx hd ls :
  0 < mx -> Forall label_ok ls -> fresh_names c (sinit mx hd) ls ->
  forall t k hash sz off zstd b rnd s cid flen,
    In t (thr (srun c (sinit mx hd) ls)) ->
    t_req t = RGet k hash sz off zstd b rnd -> t_pc t = Done (GetHit s cid flen) ->
    (k = CAS /\ hash = emptySha256 /\ sz <= 0 /\ s = 0 /\ cid = 0 /\ flen = 0)
    \/ In (lookup_key k hash, cid, s, flen) (commits c (sinit mx hd) ls).
Proof.
  intros Hm Hok Hf t k hash sz off zstd b rnd s cid flen Hin Hreq Hpc.
  destruct (conc_run c ls (sinit mx hd) [] [] Hok (sinit_inv c mx hd Hm) (conc_init c mx hd) Hf)
    as (X' & M' & [_ _ _ _ _ _ CV] & HX). simpl in HX.
  rewrite Forall_forall in CV. specialize (CV t Hin). unfold val_ok in CV. rewrite Hpc, Hreq in CV.
  simpl in CV. rewrite HX in CV. exact CV.
Qed.

(* a logged upload was verified: exact length, clean end of stream, hash (CAS) — stated for the
   thread about to commit, in every reachable state of a run with fresh names *)
Theorem commit_verified c mx hd ls :
  0 < mx -> Forall label_ok ls -> fresh_names c (sinit mx hd) ls ->
  forall t k hash sz st rnd od,
    In t (thr (srun c (sinit mx hd) ls)) ->
    t_req t = RPut k hash sz st rnd -> t_pc t = PutCommit od ->
    st_len st = sz /\ st_err st = false /\ (k = CAS -> st_hash_ok st = true).
Proof.
  intros Hm Hok Hf t k hash sz st rnd od Hin Hreq Hpc.
  destruct (conc_run c ls (sinit mx hd) [] [] Hok (sinit_inv c mx hd Hm) (conc_init c mx hd) Hf)
    as (X' & M' & [_ _ _ _ _ _ CV] & _).
  rewrite Forall_forall in CV. specialize (CV t Hin). unfold val_ok in CV. rewrite Hpc, Hreq in CV.
  destruct CV as (_ & _ & Hg). unfold put_good in Hg.
  apply andb_true_iff in Hg as [Hg _]. apply andb_true_iff in Hg as [Hg H3].
  apply andb_true_iff in Hg as [H1 H2]. split; [lia|]. split; [destruct (st_err st); [discriminate|reflexivity]|].
  intros ->. simpl in H3. exact H3.
Qed.

(* once the file is open the response is a function of the reader's own state *)
Definition validate_result (c : cfg) (t : thread) : thread :=
  match tstep c (dinit 1 0) t with Some (_, t') => t' | None => t end.

Theorem stream_stable c t v id f :
  t_pc t = GetValidate v id f -> wf_thread t ->
  forall d, tstep c d t = Some (d, validate_result c t).
Proof.
  destruct t as [req pc h tmp]. unfold wf_thread. simpl. intros -> Hwf d.
  destruct req; try discriminate Hwf. unfold validate_result, tstep. simpl.
  repeat match goal with |- context [if ?b then _ else _] => destruct b end; reflexivity.
Qed.

(* labels other than [LStep i] leave thread i alone *)
Lemma nth_error_upd_other {A} (x : A) : forall l i j, i <> j -> nth_error (upd_nth j x l) i = nth_error l i.
Proof.
  induction l as [|y t IH]; intros [|i] [|j] H; simpl; try reflexivity; try congruence.
  apply IH. congruence.
Qed.

Theorem other_labels_keep_thread c s l i t :
  l <> LStep i -> nth_error (thr s) i = Some t -> nth_error (thr (sstep c s l)) i = Some t.
Proof.
  intros Hl Hn. destruct l as [r|j|]; simpl.
  - rewrite nth_error_app1; [exact Hn|]. apply nth_error_Some. congruence.
  - destruct (nth_error (thr s) j) as [tj|]; [|exact Hn].
    destruct (tstep c (sd s) tj) as [[d' t']|]; [|exact Hn]. simpl.
    rewrite nth_error_upd_other; [exact Hn|]. intros ->. apply Hl. reflexivity.
  - destruct (evictor_step (sd s)); exact Hn.
Qed.

(* ------------------------------------------------------------------ *)
(* C07: progress *)

Definition name_taken (c : cfg) (d : dstate) (t : thread) : Prop :=
  match t_pc t, t_req t with
  | PutCreate, RPut k hash sz st rnd => exists f, find_file (tmp_path c k hash sz rnd) (files d) = Some f
  | GetCreate cl, RGet k hash sz off zstd (BFound _ _ _ _ _ _) rnd =>
      exists f, find_file (tmp_path c k hash cl rnd) (files d) = Some f
  | _, _ => False
  end.

Lemma tstep_enabled c d t : wf_thread t -> tstep c d t = None ->
  (exists r, t_pc t = Done r) \/ name_taken c d t.
Proof.
  destruct t as [req pc h tmp]. unfold wf_thread, name_taken. simpl. intros Hwf H. unfold tstep in H.
  destruct pc; destruct req; try discriminate Hwf; cbn [t_pc t_req t_held t_tmp] in H;
    try (left; eexists; reflexivity);
    repeat dm H; try discriminate H; right; eexists; eassumption.
Qed.

Theorem progress c mx hd ls t :
  In t (thr (srun c (sinit mx hd) ls)) ->
  (forall r, t_pc t <> Done r) -> ~ name_taken c (sd (srun c (sinit mx hd) ls)) t ->
  tstep c (sd (srun c (sinit mx hd) ls)) t <> None.
Proof.
  intros Hin Hnd Hnt H.
  assert (Hwf : wf_thread t).
  { pose proof (srun_wf c ls (sinit mx hd) (Forall_nil _)) as HF. rewrite Forall_forall in HF. apply HF, Hin. }
  destruct (tstep_enabled c _ t Hwf H) as [[r Hr]|Hx]; [exact (Hnd r Hr)|exact (Hnt Hx)].
Qed.

(* ------------------------------------------------------------------ *)
(* a checker for [fresh_names] on concrete runs *)

Fixpoint fresh_fromb (c : cfg) (s : sys) (made : list path) (ls : list label) : bool :=
  match ls with
  | [] => true
  | l :: r => forallb (fun p => negb (existsb (path_eqb p) made)) (step_created c s l)
              && fresh_fromb c (sstep c s l) (made ++ step_created c s l) r
  end.

Lemma fresh_fromb_ok c ls : forall s made, fresh_fromb c s made ls = true -> fresh_from c s made ls.
Proof.
  induction ls as [|l r IH]; intros s made H; simpl in *; [exact I|].
  apply andb_true_iff in H as [H1 H2]. split; [|apply IH; exact H2].
  intros p Hp Hin. rewrite forallb_forall in H1. specialize (H1 p Hp).
  apply negb_true_iff in H1. assert (existsb (path_eqb p) made = true); [|congruence].
  apply existsb_exists. exists p. split; [exact Hin|apply path_eqb_refl].
Qed.

(* ------------------------------------------------------------------ *)
(* C07: an indexed value is found (partial form of "found if acknowledged") *)

Lemma run_thread_step c f d t d' t' :
  tstep c d t = Some (d', t') -> run_thread c (S f) d t = run_thread c f d' t'.
Proof. intros H. simpl. rewrite H. reflexivity. Qed.

Lemma run_thread_stop c f d t : tstep c d t = None -> run_thread c (S f) d t = (d, t).
Proof. intros H. simpl. rewrite H. reflexivity. Qed.

Theorem found_if_indexed c mx hd ls :
  0 < mx -> Forall label_ok ls -> fresh_names c (sinit mx hd) ls ->
  let s := srun c (sinit mx hd) ls in
  forall k hash sz off zstd b rnd v,
    Z.of_nat (String.length hash) = hashLen ->
    kind_eqb k CAS && (sz <=? 0) && String.eqb hash emptySha256 = false ->
    negb (kind_eqb k CAS) && zstd = false -> 0 <= off -> (sz > 0 -> off < sz) ->
    peek (lookup_key k hash) (lru (sd s)) = Some v ->
    sz = -1 \/ sz = size v ->
    exists d' cid flen,
      exec c (sd s) (RGet k hash sz off zstd b rnd) = (d', Some (GetHit (size v) cid flen)) /\
      In (lookup_key k hash, cid, size v, flen) (commits c (sinit mx hd) ls) /\
      files d' = files (sd s).
Proof.
  intros Hm Hok Hf s k hash sz off zstd b rnd v Hlen Hshort Hz Hoff Hoff2 Hpeek Hsz.
  destruct (conc_run c ls (sinit mx hd) [] [] Hok (sinit_inv c mx hd Hm) (conc_init c mx hd) Hf)
    as (X & M & [_ _ _ CL CR CE _] & HX). simpl in HX. fold s in CL, CR, CE.
  pose proof (srun_inv c mx hd ls Hm Hok) as [HI _ _ _ _ _ HF]. fold s in HI, HF.
  set (d := sd s) in *. set (key := lookup_key k hash) in *.
  unfold peek in Hpeek. destruct (find_key key (order (lru d))) as [e|] eqn:Efind; [|discriminate].
  assert (Hv : evalue (ent e) = v) by (inversion Hpeek; reflexivity). clear Hpeek.
  pose proof (find_key_In _ _ _ Efind) as [Hin Hkey]. unfold key_of in Hkey.
  assert (Hen : In (ent e) (all_entries (lru d))).
  { unfold all_entries. apply in_or_app. left. apply in_map. exact Hin. }
  assert (Hpath : entry_path (ent e) = path_of key v) by (unfold entry_path; rewrite Hkey, Hv; reflexivity).
  destruct (HF _ Hen) as (f & Hfile & Hcomp & Hflen). rewrite Hpath in Hfile.
  destruct (CE _ Hen) as [cid Hlog]. rewrite Hpath, Hkey, Hv in Hlog.
  destruct (CL _ _ _ _ _ _ Hlog Hfile) as (_ & Hcid & Hl & Hlogical).
  assert (Hcommit : In (key, f_cid f, size v, f_len f) (commits c (sinit mx hd) ls)).
  { rewrite <- HX, Hcid, Hl. apply (in_map snd) in Hlog. exact Hlog. }
  (* step 1: the lookup *)
  set (l' := set_order (remove_id (eid e) (order (lru d)) ++ [e]) (lru d)).
  assert (S1 : tstep c d (spawn (RGet k hash sz off zstd b rnd))
               = Some (set_lru l' d, mkThread (RGet k hash sz off zstd b rnd) (GetOpen v (eid e)) 0 None)).
  { assert (Hnn : 0 <= size v).
    { destruct HI as ([_ _ _ _ _ _ _ Hit _] & _ & _). rewrite Forall_forall in Hit.
      specialize (Hit e Hin). rewrite Hv in Hit. apply Hit. }
    unfold tstep. simpl. fold key. rewrite Hlen, Z.eqb_refl. simpl.
    replace (sz <? -1) with false by lia. rewrite Hshort, Hz.
    replace (off <? 0) with false by lia. replace ((sz >? 0) && (off >=? sz)) with false by lia.
    unfold LRU.get. rewrite Efind. rewrite Hv.
    replace (mismatch sz (size v)) with false by (unfold mismatch; lia). reflexivity. }
  (* step 2: the open *)
  assert (S2 : tstep c (set_lru l' d) (mkThread (RGet k hash sz off zstd b rnd) (GetOpen v (eid e)) 0 None)
               = Some (set_lru l' d, mkThread (RGet k hash sz off zstd b rnd) (GetValidate v (eid e) f) 0 None)).
  { unfold tstep. simpl. fold key. rewrite Hfile. reflexivity. }
  (* step 3: validation *)
  assert (S3 : exists t3, tstep c (set_lru l' d) (mkThread (RGet k hash sz off zstd b rnd) (GetValidate v (eid e) f) 0 None)
               = Some (set_lru l' d, t3) /\ t_pc t3 = Done (GetHit (size v) (f_cid f) (f_len f))).
  { unfold tstep. simpl. destruct (kind_eqb k CAS) eqn:EK.
    - assert (Hok' : (if legacy v then true else f_complete f && ((sz =? -1) || (f_logical f =? sz))) = true).
      { destruct (legacy v) eqn:EL; [reflexivity|]. rewrite Hcomp. simpl.
        destruct Hsz as [->| ->]; [reflexivity|]. rewrite Hlogical; [lia| |].
        - unfold path_of. simpl. exact EL.
        - unfold key. rewrite is_cas_lookup_key. exact EK. }
      rewrite Hok'. eexists. split; reflexivity.
    - assert (Hraw : size v = f_len f).
      { rewrite Hl. apply (CR _ _ _ _ _ Hlog). unfold key. rewrite is_cas_lookup_key. exact EK. }
      replace (mismatch sz (f_len f)) with false by (unfold mismatch; lia).
      eexists. split; [reflexivity|]. simpl. rewrite Hraw. reflexivity. }
  destruct S3 as (t3 & S3 & Hpc3).
  assert (S4 : tstep c (set_lru l' d) t3 = None).
  { destruct t3 as [req3 pc3 h3 tmp3]. simpl in Hpc3. subst pc3. unfold tstep. simpl. destruct req3; reflexivity. }
  exists (set_lru l' d), (f_cid f), (f_len f). split; [|split; [exact Hcommit|reflexivity]].
  unfold exec, fuel_for. change 24%nat with (S (S (S (S 20)))).
  rewrite (run_thread_step _ _ _ _ _ _ S1), (run_thread_step _ _ _ _ _ _ S2), (run_thread_step _ _ _ _ _ _ S3),
    (run_thread_stop _ _ _ _ S4).
  unfold response_of. rewrite Hpc3. reflexivity.
Qed.
