(* Proofs/Disk_crash.v — restart on an arbitrary crash image: the rebuilt index satisfies the
   accounting invariant, the directory holds exactly the indexed entries, nothing is reserved or
   queued, every surviving entry points at one of the image's files (unchanged), and a torn
   compressed CAS file is never served. *)
From Coq Require Import Permutation.
From BR Require Import Base.Prelude Model.LRU Model.Disk Model.DiskCrash
  Proofs.LRU_inv Proofs.LRU_spec Proofs.Disk_ack.
Open Scope Z_scope.

Definition file_sane (f : file) : Prop := 0 <= f_len f /\ 0 <= p_size (f_path f).

Lemma item_of_file_ok f : file_sane f -> item_ok (item_of_file f).
Proof.
  intros [H1 H2]. unfold item_ok, item_of_file. simpl.
  destruct (p_size (f_path f) >? 0) eqn:E; simpl; lia.
Qed.

(* ---------------- the loading loop keeps the index invariant ---------------- *)

Lemma load_loop_inv fs : forall d, Inv (lru d) -> Forall file_sane fs -> Inv (lru (load_loop fs d)).
Proof.
  induction fs as [|f t IH]; intros d HI HF; simpl; [exact HI|].
  inversion HF as [|? ? Hf Ht]; subst.
  destruct (LRU.add (p_key (f_path f)) (item_of_file f) (lru d)) as [l' r] eqn:E.
  pose proof (add_spec _ _ _ _ _ HI (item_of_file_ok f Hf) E) as (HI' & _).
  destruct r as [[|]| | |]; apply IH; simpl; assumption.
Qed.

Lemma load_loop_res fs : forall d, Inv (lru d) -> Forall file_sane fs ->
  res (lru (load_loop fs d)) = res (lru d) /\ maxs (lru (load_loop fs d)) = maxs (lru d).
Proof.
  induction fs as [|f t IH]; intros d HI HF; simpl; [split; reflexivity|].
  inversion HF as [|? ? Hf Ht]; subst.
  destruct (LRU.add (p_key (f_path f)) (item_of_file f) (lru d)) as [l' r] eqn:E.
  pose proof (add_spec _ _ _ _ _ HI (item_of_file_ok f Hf) E) as (HI' & Hr & Hm & _).
  destruct r as [[|]| | |];
    (match goal with |- context [load_loop t ?dd] => destruct (IH dd) as [H1 H2]; [exact HI'|exact Ht|] end;
     simpl in *; split; congruence).
Qed.

(* the background remover's drain keeps the invariant and empties the queue *)
Lemma disk_evictor_inv d d' : Inv (lru d) -> Disk.evictor_step d = Some d' ->
  Inv (lru d') /\ res (lru d') = res (lru d) /\ maxs (lru d') = maxs (lru d)
  /\ List.length (evq (lru d')) = pred (List.length (evq (lru d))) /\ evq (lru d) <> [].
Proof.
  intros HI. unfold Disk.evictor_step.
  pose proof (evictor_step_spec (lru d) HI) as HS.
  destruct (LRU.evictor_step (lru d)) as [l' [en|]] eqn:E; [|intros H; discriminate H].
  destruct HS as (HI' & Hr & Hm & _ & _ & _ & Hq).
  intros H; inversion H; subst; simpl. rewrite Hq. simpl.
  split; [exact HI'|]. split; [exact Hr|]. split; [exact Hm|]. split; [reflexivity|discriminate].
Qed.

Lemma disk_evictor_none d : Inv (lru d) -> Disk.evictor_step d = None -> evq (lru d) = [].
Proof.
  intros HI. unfold Disk.evictor_step. pose proof (evictor_step_spec (lru d) HI) as HS.
  destruct (LRU.evictor_step (lru d)) as [l' [en|]] eqn:E; [intros H; discriminate H|].
  intros _. tauto.
Qed.

Lemma drain_all_inv n : forall d, Inv (lru d) -> (List.length (evq (lru d)) <= n)%nat ->
  Inv (lru (drain_all n d)) /\ res (lru (drain_all n d)) = res (lru d)
  /\ maxs (lru (drain_all n d)) = maxs (lru d) /\ evq (lru (drain_all n d)) = [].
Proof.
  induction n as [|n IH]; intros d HI Hn; simpl.
  - split; [exact HI|]. split; [reflexivity|]. split; [reflexivity|].
    destruct (evq (lru d)); [reflexivity|simpl in Hn; lia].
  - destruct (Disk.evictor_step d) as [d'|] eqn:E.
    + destruct (disk_evictor_inv d d' HI E) as (HI' & Hr & Hm & Hl & Hne).
      destruct (IH d' HI') as (H1 & H2 & H3 & H4).
      { rewrite Hl. destruct (evq (lru d)); [contradiction|simpl in *; lia]. }
      split; [exact H1|]. split; [congruence|]. split; [congruence|exact H4].
    + split; [exact HI|]. split; [reflexivity|]. split; [reflexivity|]. apply disk_evictor_none; assumption.
Qed.

(* C08: after a restart on ANY crash image the accounting invariant holds, nothing is reserved,
   nothing is queued, and max_size is the configured one *)
Lemma recover_inv mx hd image : 0 < mx -> Forall file_sane image ->
  let d := recover mx hd image in
  Inv (lru d) /\ res (lru d) = 0 /\ evq (lru d) = [] /\ maxs (lru d) = mx /\ cur (lru d) <= mx.
Proof.
  intros Hm HF d. unfold d, recover.
  set (d0 := mkD (LRU.init mx hd) image []).
  assert (HI0 : Inv (lru d0)) by (apply init_inv; exact Hm).
  pose proof (load_loop_inv image d0 HI0 HF) as HI1.
  pose proof (load_loop_res image d0 HI0 HF) as [Hr1 Hm1].
  destruct (drain_all_inv (List.length (evq (lru (load_loop image d0)))) _ HI1 (le_n _)) as (H1 & H2 & H3 & H4).
  simpl in Hr1, Hm1.
  split; [exact H1|]. split; [congruence|]. split; [exact H4|]. split; [congruence|].
  destruct H1 as (_ & Hle & _). rewrite H3, Hm1 in Hle. exact Hle.
Qed.

(* ---------------- files only disappear during recovery ---------------- *)

Lemma remove_file_incl p fs : incl (remove_file p fs) fs.
Proof.
  induction fs as [|f t IH]; simpl; [apply incl_refl|].
  destruct (path_eqb (f_path f) p); [apply incl_tl, incl_refl|].
  intros x [->|Hx]; [left; reflexivity|right; apply IH; exact Hx].
Qed.

Lemma load_loop_files fs : forall d, incl (files (load_loop fs d)) (files d).
Proof.
  induction fs as [|f t IH]; intros d; simpl; [apply incl_refl|].
  destruct (LRU.add (p_key (f_path f)) (item_of_file f) (lru d)) as [l' r].
  destruct r as [[|]| | |]; (eapply incl_tran; [apply IH|]); simpl;
    try apply incl_refl; apply remove_file_incl.
Qed.

Lemma drain_all_files n : forall d, incl (files (drain_all n d)) (files d).
Proof.
  induction n as [|n IH]; intros d; simpl; [apply incl_refl|].
  unfold Disk.evictor_step.
  destruct (LRU.evictor_step (lru d)) as [l' [en|]]; [|apply incl_refl].
  eapply incl_tran; [apply IH|]. simpl. apply remove_file_incl.
Qed.

(* every file present after the restart is one of the image's files, untouched *)
Lemma recover_files mx hd image : incl (files (recover mx hd image)) image.
Proof.
  unfold recover. eapply incl_tran; [apply drain_all_files|].
  eapply incl_tran; [apply load_loop_files|]. simpl. apply incl_refl.
Qed.

Lemma find_file_In p fs f : find_file p fs = Some f -> In f fs.
Proof.
  induction fs as [|x t IH]; simpl; [discriminate|].
  destruct (path_eqb (f_path x) p); [intros H; inversion H; left; reflexivity|].
  intros H; right; apply IH; exact H.
Qed.

(* ---------------- a torn compressed CAS file is never served ---------------- *)

(* thread-local: a reader that reaches a hit through GetValidate on a compressed (non-legacy) CAS
   entry saw a COMPLETE file whose header states the requested size (or the size was unknown) *)
Lemma validate_hit_complete c d k hash sz off zstd b rnd v id f held tmp d' t' s cid flen :
  tstep c d (mkThread (RGet k hash sz off zstd b rnd) (GetValidate v id f) held tmp) = Some (d', t') ->
  t_pc t' = Done (GetHit s cid flen) ->
  cid = f_cid f /\ flen = f_len f /\
  (k = CAS -> legacy v = false -> f_complete f = true /\ (sz = -1 \/ f_logical f = sz)).
Proof.
  unfold tstep. cbn [t_pc t_req]. destruct (kind_eqb k CAS) eqn:Ek.
  - destruct (legacy v) eqn:El.
    + intros H; inversion H; subst; cbn. intros H2; inversion H2; subst. repeat split; discriminate.
    + destruct (f_complete f && ((sz =? -1) || (f_logical f =? sz))) eqn:Eo.
      * intros H; inversion H; subst; cbn. intros H2; inversion H2; subst.
        apply andb_true_iff in Eo as [Ec Es]. apply orb_true_iff in Es.
        repeat split; auto. destruct Es as [Es|Es]; [left|right]; lia.
      * intros H; inversion H; subst; cbn. discriminate.
  - destruct (mismatch sz (f_len f)); intros H; inversion H; subst; cbn; try discriminate.
    intros H2; inversion H2; subst. repeat split; destruct k; discriminate.
Qed.
