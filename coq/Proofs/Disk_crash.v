(* Proofs/Disk_crash.v — restart on an arbitrary crash image: the rebuilt index satisfies the
   accounting invariant, the directory holds exactly the indexed entries, nothing is reserved or
   queued, every surviving entry points at one of the image's files (unchanged), and a torn
   compressed CAS file is never served. *)
From Coq Require Import Permutation.
From BR Require Import Base.Prelude Model.LRU Model.Disk Model.DiskCrash
  Proofs.LRU_inv Proofs.LRU_spec Proofs.Disk_ack.
Open Scope Z_scope.

Definition file_sane (f : file) : Prop := 0 <= f_len f /\ 0 <= p_size (f_path f).

Lemma item_of_file_ok f : file_sane f -> item_ok (item_of_file f).
Proof.
  intros [H1 H2]. unfold item_ok, item_of_file. simpl.
  destruct (p_size (f_path f) >? 0) eqn:E; simpl; lia.
Qed.

(* ---------------- the loading loop keeps the index invariant ---------------- *)

Lemma load_loop_inv fs : forall d, Inv (lru d) -> Forall file_sane fs -> Inv (lru (load_loop fs d)).
Proof.
  induction fs as [|f t IH]; intros d HI HF; simpl; [exact HI|].
  inversion HF as [|? ? Hf Ht]; subst.
  destruct (LRU.add (p_key (f_path f)) (item_of_file f) (lru d)) as [l' r] eqn:E.
  pose proof (add_spec _ _ _ _ _ HI (item_of_file_ok f Hf) E) as (HI' & _).
  destruct r as [[|]| | |]; apply IH; simpl; assumption.
Qed.

Lemma load_loop_res fs : forall d, Inv (lru d) -> Forall file_sane fs ->
  res (lru (load_loop fs d)) = res (lru d) /\ maxs (lru (load_loop fs d)) = maxs (lru d).
Proof.
  induction fs as [|f t IH]; intros d HI HF; simpl; [split; reflexivity|].
  inversion HF as [|? ? Hf Ht]; subst.
  destruct (LRU.add (p_key (f_path f)) (item_of_file f) (lru d)) as [l' r] eqn:E.
  pose proof (add_spec _ _ _ _ _ HI (item_of_file_ok f Hf) E) as (HI' & Hr & Hm & _).
  destruct r as [[|]| | |];
    (match goal with |- context [load_loop t ?dd] => destruct (IH dd) as [H1 H2]; [exact HI'|exact Ht|] end;
     simpl in *; split; congruence).
Qed.

(* the background remover's drain keeps the invariant and empties the queue *)
Lemma disk_evictor_inv d d' : Inv (lru d) -> Disk.evictor_step d = Some d' ->
  Inv (lru d') /\ res (lru d') = res (lru d) /\ maxs (lru d') = maxs (lru d)
  /\ List.length (evq (lru d')) = pred (List.length (evq (lru d))) /\ evq (lru d) <> [].
Proof.
  intros HI. unfold Disk.evictor_step.
  pose proof (evictor_step_spec (lru d) HI) as HS.
  destruct (LRU.evictor_step (lru d)) as [l' [en|]] eqn:E; [|intros H; discriminate H].
  destruct HS as (HI' & Hr & Hm & _ & _ & _ & Hq).
  intros H; inversion H; subst; simpl. rewrite Hq. simpl.
  split; [exact HI'|]. split; [exact Hr|]. split; [exact Hm|]. split; [reflexivity|discriminate].
Qed.

Lemma disk_evictor_none d : Inv (lru d) -> Disk.evictor_step d = None -> evq (lru d) = [].
Proof.
  intros HI. unfold Disk.evictor_step. pose proof (evictor_step_spec (lru d) HI) as HS.
  destruct (LRU.evictor_step (lru d)) as [l' [en|]] eqn:E; [intros H; discriminate H|].
  intros _. tauto.
Qed.

Lemma drain_all_inv n : forall d, Inv (lru d) -> (List.length (evq (lru d)) <= n)%nat ->
  Inv (lru (drain_all n d)) /\ res (lru (drain_all n d)) = res (lru d)
  /\ maxs (lru (drain_all n d)) = maxs (lru d) /\ evq (lru (drain_all n d)) = [].
Proof.
  induction n as [|n IH]; intros d HI Hn; simpl.
  - split; [exact HI|]. split; [reflexivity|]. split; [reflexivity|].
    destruct (evq (lru d)); [reflexivity|simpl in Hn; lia].
  - destruct (Disk.evictor_step d) as [d'|] eqn:E.
    + destruct (disk_evictor_inv d d' HI E) as (HI' & Hr & Hm & Hl & Hne).
      destruct (IH d' HI') as (H1 & H2 & H3 & H4).
      { rewrite Hl. destruct (evq (lru d)); [contradiction|simpl in *; lia]. }
      split; [exact H1|]. split; [congruence|]. split; [congruence|exact H4].
    + split; [exact HI|]. split; [reflexivity|]. split; [reflexivity|]. apply disk_evictor_none; assumption.
Qed.

(* C08: after a restart on ANY crash image the accounting invariant holds, nothing is reserved,
   nothing is queued, and max_size is the configured one *)
Lemma recover_inv mx hd image : 0 < mx -> Forall file_sane image ->
  let d := recover mx hd image in
  Inv (lru d) /\ res (lru d) = 0 /\ evq (lru d) = [] /\ maxs (lru d) = mx /\ cur (lru d) <= mx.
Proof.
  intros Hm HF d. unfold d, recover.
  set (d0 := mkD (LRU.init mx hd) image []).
  assert (HI0 : Inv (lru d0)) by (apply init_inv; exact Hm).
  pose proof (load_loop_inv image d0 HI0 HF) as HI1.
  pose proof (load_loop_res image d0 HI0 HF) as [Hr1 Hm1].
  destruct (drain_all_inv (List.length (evq (lru (load_loop image d0)))) _ HI1 (le_n _)) as (H1 & H2 & H3 & H4).
  simpl in Hr1, Hm1.
  split; [exact H1|]. split; [congruence|]. split; [exact H4|]. split; [congruence|].
  destruct H1 as (_ & Hle & _). rewrite H3, Hm1 in Hle. exact Hle.
Qed.

(* ---------------- files only disappear during recovery ---------------- *)

Lemma remove_file_incl p fs : incl (remove_file p fs) fs.
Proof.
  induction fs as [|f t IH]; simpl; [apply incl_refl|].
  destruct (path_eqb (f_path f) p); [apply incl_tl, incl_refl|].
  intros x [->|Hx]; [left; reflexivity|right; apply IH; exact Hx].
Qed.

Lemma load_loop_files fs : forall d, incl (files (load_loop fs d)) (files d).
Proof.
  induction fs as [|f t IH]; intros d; simpl; [apply incl_refl|].
  destruct (LRU.add (p_key (f_path f)) (item_of_file f) (lru d)) as [l' r].
  destruct r as [[|]| | |]; (eapply incl_tran; [apply IH|]); simpl;
    try apply incl_refl; apply remove_file_incl.
Qed.

Lemma drain_all_files n : forall d, incl (files (drain_all n d)) (files d).
Proof.
  induction n as [|n IH]; intros d; simpl; [apply incl_refl|].
  unfold Disk.evictor_step.
  destruct (LRU.evictor_step (lru d)) as [l' [en|]]; [|apply incl_refl].
  eapply incl_tran; [apply IH|]. simpl. apply remove_file_incl.
Qed.

(* every file present after the restart is one of the image's files, untouched *)
Lemma recover_files mx hd image : incl (files (recover mx hd image)) image.
Proof.
  unfold recover. eapply incl_tran; [apply drain_all_files|].
  eapply incl_tran; [apply load_loop_files|]. simpl. apply incl_refl.
Qed.

Lemma find_file_In p fs f : find_file p fs = Some f -> In f fs.
Proof.
  induction fs as [|x t IH]; simpl; [discriminate|].
  destruct (path_eqb (f_path x) p); [intros H; inversion H; left; reflexivity|].
  intros H; right; apply IH; exact H.
Qed.

(* ---------------- a torn compressed CAS file is never served ---------------- *)

(* thread-local: a reader that reaches a hit through GetValidate on a compressed (non-legacy) CAS
   entry saw a COMPLETE file whose header states the requested size (or the size was unknown) *)
Lemma validate_hit_complete c d k hash sz off zstd b rnd v id f held tmp d' t' s cid flen :
  tstep c d (mkThread (RGet k hash sz off zstd b rnd) (GetValidate v id f) held tmp) = Some (d', t') ->
  t_pc t' = Done (GetHit s cid flen) ->
  cid = f_cid f /\ flen = f_len f /\
  (k = CAS -> legacy v = false -> f_complete f = true /\ (sz = -1 \/ f_logical f = sz)).
Proof.
  unfold tstep. cbn [t_pc t_req]. destruct (kind_eqb k CAS) eqn:Ek.
  - destruct (legacy v) eqn:El.
    + intros H; inversion H; subst; cbn. intros H2; inversion H2; subst. repeat split; discriminate.
    + destruct (f_complete f && ((sz =? -1) || (f_logical f =? sz))) eqn:Eo.
      * intros H; inversion H; subst; cbn. intros H2; inversion H2; subst.
        apply andb_true_iff in Eo as [Ec Es]. apply orb_true_iff in Es.
        repeat split; auto. destruct Es as [Es|Es]; [left|right]; lia.
      * intros H; inversion H; subst; cbn. discriminate.
  - destruct (mismatch sz (f_len f)); intros H; inversion H; subst; cbn; try discriminate.
    intros H2; inversion H2; subst. repeat split; destruct k; discriminate.
Qed.

(* ====================================================================== *)
(* The directory after a restart: exactly the files of the indexed entries (C04 across a restart);
   an image that fits is kept whole. *)
From BR Require Proofs.Disk_inv1.

(* a file name as the loader accepts it: compressed CAS names carry a positive logical size, all
   other names none *)
Definition path_wf (f : file) : Prop :=
  if is_cas_key (p_key (f_path f)) && negb (p_legacy (f_path f))
  then 0 < p_size (f_path f) else p_size (f_path f) = 0.

Definition file_entry (f : file) : entry := mkEntry (p_key (f_path f)) (item_of_file f).

Lemma file_entry_path f : path_wf f -> Disk_inv1.entry_path (file_entry f) = f_path f.
Proof.
  unfold path_wf, Disk_inv1.entry_path, file_entry, path_of, item_of_file. simpl.
  destruct (f_path f) as [k s r lg]. simpl.
  destruct (is_cas_key k && negb lg); intros H.
  - replace (s >? 0) with true by lia. reflexivity.
  - subst s. reflexivity.
Qed.

(* directory invariant of the loading loop: files = files of indexed and queued entries + files not
   looked at yet *)
Record DirInv (d : dstate) (rest : list file) : Prop := mkDirInv {
  di_perm : Permutation (map f_path (files d))
              (map Disk_inv1.entry_path (all_entries (lru d)) ++ map f_path rest);
  di_nodup : NoDup (map f_path (files d));
  di_ent : forall en, In en (all_entries (lru d)) ->
             exists f, find_file (Disk_inv1.entry_path en) (files d) = Some f /\ f_len f = sizeOnDisk (evalue en);
  di_rest : forall f, In f rest -> find_file (f_path f) (files d) = Some f }.

Lemma dir_remove d rest p l' :
  DirInv d rest -> all_entries l' = all_entries (lru d) ->
  forall rest', Permutation (map f_path rest) (p :: map f_path rest') -> incl rest' rest ->
  DirInv (mkD l' (remove_file p (files d)) (handed d)) rest'.
Proof.
  intros [DP DN DE DR] Hae rest' HPr Hincl.
  assert (HP0 : Permutation (map f_path (files d))
                  (p :: map Disk_inv1.entry_path (all_entries (lru d)) ++ map f_path rest')).
  { etransitivity; [exact DP|]. etransitivity; [apply Permutation_app_head; exact HPr|].
    apply Permutation_sym, Permutation_middle. }
  assert (HND : NoDup (p :: map Disk_inv1.entry_path (all_entries (lru d)) ++ map f_path rest'))
    by (eapply Permutation_NoDup; eassumption).
  apply NoDup_cons_iff in HND as [Hn HND'].
  assert (Hin : In p (map f_path (files d))).
  { eapply Permutation_in; [apply Permutation_sym; exact HP0|left; reflexivity]. }
  pose proof (Disk_inv1.remove_file_perm p (files d) Hin) as HPf.
  constructor; simpl; rewrite ?Hae.
  - apply (Permutation_cons_inv (a := p)). etransitivity; [apply Permutation_sym; exact HPf|exact HP0].
  - pose proof (Permutation_NoDup HPf DN) as H. inversion H; assumption.
  - intros en Hen. destruct (DE en Hen) as (f & Hf & Hl). exists f. split; [|exact Hl].
    rewrite Disk_inv1.find_file_remove_other; [exact Hf|].
    intros Heq. apply Hn. apply in_or_app. left. rewrite <- Heq. apply in_map. exact Hen.
  - intros f Hf. rewrite Disk_inv1.find_file_remove_other; [apply DR, Hincl, Hf|].
    intros Heq. apply Hn. apply in_or_app. right. rewrite <- Heq. apply in_map. exact Hf.
Qed.

Lemma load_loop_dir fs : forall d, Inv (lru d) -> Forall file_sane fs -> Forall path_wf fs ->
  DirInv d fs -> DirInv (load_loop fs d) [].
Proof.
  induction fs as [|f t IH]; intros d HI HF HW HD; simpl; [exact HD|].
  inversion HF as [|? ? Hf Ht]; subst. inversion HW as [|? ? Hwf Hwt]; subst.
  destruct (LRU.add (p_key (f_path f)) (item_of_file f) (lru d)) as [l' r] eqn:E.
  pose proof (add_spec _ _ _ _ _ HI (item_of_file_ok f Hf) E) as (HI' & _ & _ & _ & Hcase).
  destruct Hcase as [(-> & Ho & Hq & _)|(-> & HP)].
  - apply IH; simpl; try assumption.
    apply (dir_remove d (f :: t) (f_path f) l' HD); [unfold all_entries; rewrite Ho, Hq; reflexivity| |].
    + reflexivity.
    + apply incl_tl, incl_refl.
  - apply IH; simpl; try assumption. destruct HD as [DP DN DE DR].
    constructor; simpl.
    + etransitivity; [exact DP|]. rewrite (Permutation_map Disk_inv1.entry_path HP). simpl.
      fold (file_entry f). rewrite (file_entry_path f Hwf). apply Permutation_sym, Permutation_middle.
    + exact DN.
    + intros en Hen. apply (Permutation_in _ HP) in Hen. destruct Hen as [<-|Hen]; [|apply DE; exact Hen].
      exists f. fold (file_entry f). rewrite (file_entry_path f Hwf). split; [apply DR; left; reflexivity|reflexivity].
    + intros f' Hf'. apply DR. right. exact Hf'.
Qed.

Lemma drain_all_dir n : forall d, Inv (lru d) -> DirInv d [] -> DirInv (drain_all n d) [].
Proof.
  induction n as [|n IH]; intros d HI HD; simpl; [exact HD|].
  destruct (Disk.evictor_step d) as [d'|] eqn:E; [|exact HD].
  destruct (disk_evictor_inv d d' HI E) as (HI' & _). apply IH; [exact HI'|].
  unfold Disk.evictor_step in E. pose proof (evictor_step_spec (lru d) HI) as HS.
  destruct (LRU.evictor_step (lru d)) as [l' [en|]]; [|discriminate]. inversion E; subst d'; clear E.
  destruct HS as (_ & _ & _ & _ & Ho & _ & Hq).
  destruct HD as [DP DN DE DR]. simpl in DP. rewrite app_nil_r in DP.
  fold (Disk_inv1.entry_path en). set (p := Disk_inv1.entry_path en) in *.
  assert (HA : forall e, In e (all_entries l') -> In e (all_entries (lru d))).
  { unfold all_entries. rewrite Ho, Hq. intros e. rewrite !in_app_iff. simpl. tauto. }
  assert (HP0 : Permutation (map f_path (files d)) (p :: map Disk_inv1.entry_path (all_entries l'))).
  { etransitivity; [exact DP|]. unfold all_entries. rewrite Ho, Hq, !map_app. simpl.
    apply Permutation_sym, Permutation_middle. }
  assert (HND : NoDup (p :: map Disk_inv1.entry_path (all_entries l'))) by (eapply Permutation_NoDup; eassumption).
  apply NoDup_cons_iff in HND as [Hn _].
  assert (Hin : In p (map f_path (files d))).
  { eapply Permutation_in; [apply Permutation_sym; exact HP0|left; reflexivity]. }
  pose proof (Disk_inv1.remove_file_perm p (files d) Hin) as HPf.
  constructor; simpl.
  - rewrite app_nil_r. apply (Permutation_cons_inv (a := p)).
    etransitivity; [apply Permutation_sym; exact HPf|exact HP0].
  - pose proof (Permutation_NoDup HPf DN) as H. inversion H; assumption.
  - intros e He. destruct (DE e (HA e He)) as (f & Hf & Hl). exists f. split; [|exact Hl].
    rewrite Disk_inv1.find_file_remove_other; [exact Hf|].
    intros Heq. apply Hn. rewrite <- Heq. apply in_map. exact He.
  - intros f [].
Qed.

Lemma find_file_self fs : NoDup (map f_path fs) -> forall f, In f fs -> find_file (f_path f) fs = Some f.
Proof.
  induction fs as [|x t IH]; simpl; intros ND f Hin; [tauto|]. inversion ND as [|? ? Hn ND']; subst.
  destruct Hin as [->|Hin]; [rewrite Disk_inv1.path_eqb_refl; reflexivity|].
  destruct (path_eqb (f_path x) (f_path f)) eqn:E; [|apply IH; assumption].
  apply Disk_inv1.path_eqb_eq in E. exfalso. apply Hn. rewrite E. apply in_map. exact Hin.
Qed.

(* C08 / C04 across a restart: after recovery the directory holds exactly the files of the indexed
   entries, each one of the image's files with the recorded length *)
Theorem recover_dir mx hd image :
  0 < mx -> NoDup (map f_path image) -> Forall file_sane image -> Forall path_wf image ->
  let d := recover mx hd image in
  Permutation (map f_path (files d)) (map Disk_inv1.entry_path (map ent (order (lru d)))) /\
  NoDup (map f_path (files d)) /\
  (forall e, In e (order (lru d)) ->
     exists f, In f image /\ find_file (Disk_inv1.entry_path (ent e)) (files d) = Some f
               /\ f_len f = sizeOnDisk (evalue (ent e))).
Proof.
  intros Hm HN HF HW d.
  destruct (recover_inv mx hd image Hm HF) as (_ & _ & Hq & _). fold d in Hq.
  unfold d, recover in *.
  set (d0 := mkD (LRU.init mx hd) image []) in *.
  assert (HI0 : Inv (lru d0)) by (apply init_inv; exact Hm).
  assert (HD0 : DirInv d0 image).
  { constructor; simpl; [reflexivity|exact HN|intros en []|apply find_file_self; exact HN]. }
  pose proof (load_loop_dir image d0 HI0 HF HW HD0) as HD1.
  pose proof (load_loop_inv image d0 HI0 HF) as HI1.
  pose proof (drain_all_dir (List.length (evq (lru (load_loop image d0)))) _ HI1 HD1) as [DP DN DE _].
  set (d2 := drain_all _ _) in *.
  unfold all_entries in DP, DE. rewrite Hq in DP, DE. simpl in DP. rewrite !app_nil_r in DP.
  split; [exact DP|]. split; [exact DN|].
  intros e He. destruct (DE (ent e)) as (f & Hf & Hl); [rewrite app_nil_r; apply in_map; exact He|].
  exists f. split; [|split; assumption].
  apply (recover_files mx hd image). unfold recover. fold d0. fold d2. eapply find_file_In. exact Hf.
Qed.

(* ---------------- an image that fits is kept whole ---------------- *)

Definition fkey (f : file) : string := p_key (f_path f).
Definition fblocks (f : file) : Z := roundUp4k (f_len f).

Lemma find_key_notin k l : ~ In k (map key_of l) -> find_key k l = None.
Proof.
  induction l as [|e t IH]; simpl; intros H; [reflexivity|].
  destruct (String.eqb (ekey (ent e)) k) eqn:E.
  - apply String.eqb_eq in E. exfalso. apply H. left. exact E.
  - apply IH. intros Hx. apply H. right. exact Hx.
Qed.

Lemma evict_loop_idle cond l s : cond (cur s) = false -> evict_loop cond l s = (s, false).
Proof. intros H. destruct l; simpl; rewrite H; reflexivity. Qed.

(* adding a new key that fits: accepted, appended, nothing evicted *)
Local Transparent LRU.add.
Lemma add_fits k v s : Inv s -> find_key k (order s) = None -> 0 <= sizeOnDisk v ->
  cur s + roundUp4k (sizeOnDisk v) <= maxs s ->
  exists s', add k v s = (s', Ok true) /\ order s' = order s ++ [mkElem (next s) (mkEntry k v)]
             /\ evq s' = evq s /\ cur s' = cur s + roundUp4k (sizeOnDisk v) /\ maxs s' = maxs s.
Proof.
  intros HI Hf Hv Hfit. pose proof (inv_res_le_cur s HI) as Hrc.
  destruct HI as ([_ _ _ _ _ Hr _ _ _] & _ & _).
  pose proof (roundUp4k_nonneg _ Hv) as Hnn.
  unfold add. set (r := roundUp4k (sizeOnDisk v)) in *.
  replace (r >? maxs s) with false by lia.
  change (order (upd_peak r s)) with (order s). rewrite Hf.
  change (res (upd_peak r s)) with (res s). change (maxs (upd_peak r s)) with (maxs s).
  replace (res s + r >? maxs s) with false by lia.
  unfold evict_while. rewrite evict_loop_idle; [|simpl; lia].
  eexists. split; [reflexivity|]. simpl. repeat split; reflexivity.
Qed.
Local Opaque LRU.add.

Lemma load_loop_fits rest : forall d done,
  Inv (lru d) ->
  map ent (order (lru d)) = map file_entry done -> evq (lru d) = [] ->
  cur (lru d) = sumZ fblocks done ->
  NoDup (map fkey (done ++ rest)) -> Forall file_sane rest ->
  sumZ fblocks (done ++ rest) <= maxs (lru d) ->
  let d' := load_loop rest d in
  files d' = files d /\ map ent (order (lru d')) = map file_entry (done ++ rest) /\ evq (lru d') = []
  /\ Inv (lru d').
Proof.
  induction rest as [|f t IH]; intros d done HI Ho Hq Hc HN HF Hfit; simpl.
  - rewrite app_nil_r. auto.
  - inversion HF as [|? ? Hf Ht]; subst.
    assert (Hnone : find_key (fkey f) (order (lru d)) = None).
    { apply find_key_notin. intros Hin.
      assert (Hk : map key_of (order (lru d)) = map fkey done).
      { unfold key_of. rewrite <- (map_map ent ekey), Ho, map_map. reflexivity. }
      rewrite Hk in Hin. rewrite map_app in HN. simpl in HN. apply NoDup_remove_2 in HN.
      apply HN. apply in_or_app. left. exact Hin. }
    assert (Hsum : sumZ fblocks (done ++ f :: t) = sumZ fblocks done + fblocks f + sumZ fblocks t)
      by (rewrite sumZ_app; simpl; lia).
    assert (Hnn : 0 <= sumZ fblocks t).
    { apply sumZ_nonneg. intros x Hx. rewrite Forall_forall in Ht. apply roundUp4k_nonneg, (Ht x Hx). }
    destruct (add_fits (fkey f) (item_of_file f) (lru d) HI Hnone) as (s' & EA & Ho' & Hq' & Hc' & Hm').
    { simpl. apply Hf. }
    { simpl. unfold fblocks in *. lia. }
    unfold fkey in EA. rewrite EA.
    pose proof (add_spec _ _ _ _ _ HI (item_of_file_ok f Hf) EA) as (HI' & _).
    specialize (IH (mkD s' (files d) (handed d)) (done ++ [f])). simpl in IH.
    rewrite <- app_assoc in IH. simpl in IH. apply IH; try assumption.
    + rewrite Ho', !map_app, Ho. reflexivity.
    + congruence.
    + rewrite Hc', sumZ_app, Hc. simpl. unfold fblocks. lia.
    + congruence.
Qed.

(* C08: if the keys of the image are pairwise distinct and the image fits into max_size, the restart
   keeps every file and indexes it under its key with the item the loader derives from it *)
Theorem recover_keeps_when_fits mx hd image :
  0 < mx -> NoDup (map fkey image) -> Forall file_sane image ->
  sumZ fblocks image <= mx ->
  let d := recover mx hd image in
  files d = image /\ map ent (order (lru d)) = map file_entry image /\
  (forall f, In f image -> peek (fkey f) (lru d) = Some (item_of_file f)).
Proof.
  intros Hm HN HF Hfit d. unfold d, recover.
  set (d0 := mkD (LRU.init mx hd) image []).
  assert (HI0 : Inv (lru d0)) by (apply init_inv; exact Hm).
  destruct (load_loop_fits image d0 [] HI0 eq_refl eq_refl eq_refl HN HF Hfit) as (H1 & H2 & H3 & HI1).
  simpl in H1, H2. rewrite H3. simpl. split; [exact H1|]. split; [exact H2|].
  intros f Hin. apply (in_map file_entry) in Hin. rewrite <- H2 in Hin.
  apply in_map_iff in Hin as (e & He & Hine).
  destruct HI1 as ([Hk _ _ _ _ _ _ _ _] & _). unfold peek.
  rewrite (find_key_Some_iff (fkey f) _ Hk e Hine); [rewrite He; reflexivity|].
  unfold key_of. rewrite He. reflexivity.
Qed.
