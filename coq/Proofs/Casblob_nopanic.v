(* Proofs/Casblob_nopanic.v — on a file whose header readHeader accepted, neither reader can panic
   for an offset within the blob (0 <= offset <= uncompressedSize), whatever the codec does and
   whatever the rest of the file contains; wrong expected sizes are rejected. *)
From BR Require Import Base.Prelude Gen.Consts Gen.Funcs Model.Casblob
  Proofs.Casblob_le Proofs.Casblob_header.
Open Scope list_scope.
Open Scope Z_scope.

(* the "should increase" loop accepted the table: consecutive entries increase, all within (prev, last] *)
Lemma increasing_from_bounds prev l lst :
  increasing_from prev l = Some lst ->
  prev <= lst /\ forall i, (i < List.length l)%nat -> prev < nth i l 0 <= lst.
Proof.
  revert prev; induction l as [|x t IH]; intros prev H.
  - simpl in H. inversion H; subst. split; [lia|]. intros i Hi; simpl in Hi; lia.
  - cbn [increasing_from] in H. destruct (x <=? prev) eqn:E; [discriminate|].
    apply IH in H as [H1 H2]. split; [lia|].
    intros [|i] Hi; cbn [nth].
    + lia.
    + specialize (H2 i). simpl in Hi. assert (Hi' : (i < List.length t)%nat) by lia.
      specialize (H2 Hi'). lia.
Qed.

Lemma increasing_from_step prev l lst i :
  increasing_from prev l = Some lst -> (S i < List.length l)%nat -> nth i l 0 < nth (S i) l 0.
Proof.
  revert prev i; induction l as [|x t IH]; intros prev i H Hi; [simpl in Hi; lia|].
  cbn [increasing_from] in H. destruct (x <=? prev) eqn:E; [discriminate|].
  destruct i as [|i].
  - cbn [nth]. apply increasing_from_bounds in H as [_ H2].
    specialize (H2 0%nat). simpl in Hi. assert (Hi' : (0 < List.length t)%nat) by lia.
    specialize (H2 Hi'). lia.
  - cbn [nth]. eapply IH; [exact H|]. simpl in Hi; lia.
Qed.

(* the facts an accepted header carries (readHeader's post-condition) *)
Record header_facts (file : list Z) (h : header) : Prop := mkFacts {
  hf_small : chunkTableOffset + 16 < zlen file;
  hf_num : 2 <= zlen (h_offs h);
  hf_fit : after_header h <= zlen file;
  hf_table : table_ok (zlen file) (h_offs h);
  hf_chunk : 0 <= h_chunk h < two32;
  hf_magic : u32_of file = skippableFrameMagicNumber;
  hf_frame : u32_of (skipn 4 file) = after_header h - 8;
  hf_usize : h_usize h = i64_of (skipn 8 file);
  hf_comp : h_comp h = u8_of (skipn 16 file);
  hf_chunk_eq : h_chunk h = u32_of (skipn 17 file);
  hf_count : zlen (h_offs h) = i64_of (skipn 21 file);
  hf_offs : h_offs h = decode_offsets (List.length (h_offs h)) (skipn 29 file);
  hf_zstd : h_comp h = Zstandard ->
              0 < h_chunk h /\ 0 < h_usize h /\ zlen (h_offs h) - 1 = cdiv (h_usize h) (h_chunk h) }.

Lemma parse_header_facts file h : parse_header file = Ok h -> header_facts file h.
Proof.
  unfold parse_header. intros H.
  destruct (zlen file <=? chunkTableOffset + 16) eqn:Es; [discriminate|].
  apply validate_ok_inv in H.
  destruct H as (Hm & Hn & Hz & Hf & Hr & -> & Ht).
  cbn [h_offs h_comp h_chunk h_usize] in *.
  unfold decode_raw in *. cbn [r_magic r_num r_comp r_chunk r_usize r_frame r_rest] in *.
  set (num := i64_of (skipn 21 file)) in *.
  assert (Hlen : zlen (decode_offsets (Z.to_nat num) (skipn 29 file)) = num).
  { unfold zlen. rewrite decode_offsets_length. lia. }
  assert (Hq : Z.quot (zlen file - chunkTableOffset) 8 = (zlen file - 29) / 8).
  { unfold chunkTableOffset in *. apply Z.quot_div_nonneg; lia. }
  pose proof (u32_of_range (skipn 17 file)) as Hk.
  constructor; cbn [h_offs h_comp h_chunk h_usize]; unfold after_header; cbn [h_offs];
    try rewrite Hlen; try assumption; try lia.
  - rewrite Hq in Hn. unfold chunkTableOffset. lia.
  - rewrite Hf. unfold chunkTableOffset. lia.
  - rewrite decode_offsets_length. reflexivity.
  - intros Hc. destruct (Hz Hc) as (Hk0 & Hu & Hcnt).
    destruct (quot_rem_nonneg (i64_of (skipn 8 file)) (u32_of (skipn 17 file))) as [Eq Er]; try lia.
    rewrite Eq, Er in Hcnt. unfold cdiv. split; [lia|]. split; [lia|]. exact Hcnt.
Qed.

(* where offset / chunkSize lands, for an offset within the blob *)
Lemma chunk_index_bounds u c n off :
  0 < c -> 0 < u -> n - 1 = cdiv u c -> 0 <= off <= u ->
  0 <= off / c /\ (off mod c = 0 -> off / c <= n - 1) /\ (off mod c <> 0 -> off / c + 1 <= n - 1).
Proof.
  intros Hc Hu Hn Ho. unfold cdiv in Hn.
  pose proof (Z.div_mod off c ltac:(lia)) as E1. pose proof (Z.mod_pos_bound off c Hc) as B1.
  pose proof (Z.div_mod u c ltac:(lia)) as E2. pose proof (Z.mod_pos_bound u c Hc) as B2.
  assert (0 <= off / c) by (apply Z.div_pos; lia).
  assert (0 <= u / c) by (apply Z.div_pos; lia).
  split; [assumption|].
  destruct (u mod c =? 0) eqn:Eu.
  - split; intros Hm; nia.
  - split; intros Hm; nia.
Qed.

Lemma idx_ok l i : 0 <= i < zlen l -> idx l i = Ok (nth (Z.to_nat i) l 0).
Proof. intros H. unfold idx. unfold zlen in H. replace ((i <? 0) || _) with false by lia. reflexivity. Qed.

Section NoPanic.
Variables enc enc_stream : list Z -> list Z.
Variables dec_all dec_stream : list Z -> option (list Z).

Lemma open_blob_never_panics file e : is_panic (open_blob file e) = false.
Proof.
  unfold open_blob. pose proof (parse_header_never_panics file) as H.
  destruct (parse_header file); cbn [bind]; try discriminate; try reflexivity.
  destruct (_ && _); reflexivity.
Qed.

Lemma open_blob_ok file e h : open_blob file e = Ok h -> parse_header file = Ok h.
Proof.
  unfold open_blob. destruct (parse_header file); cbn [bind]; try discriminate.
  destruct (_ && _); [discriminate|]. intros H; exact H.
Qed.

(* seek_chunk and read_first_chunk for an in-range offset: no panic, and what they return *)
Lemma seek_chunk_never_panics file h off :
  header_facts file h -> h_comp h = Zstandard -> 0 <= off <= h_usize h ->
  is_panic (seek_chunk file h off) = false.
Proof.
  intros F Hc Ho. destruct (hf_zstd _ _ F Hc) as (Hk & Hu & Hcnt).
  destruct (chunk_index_bounds _ _ _ off Hk Hu Hcnt Ho) as (Hq0 & Hq1 & Hq2).
  unfold seek_chunk, go_quot, go_rem. replace (h_chunk h =? 0) with false by lia. cbn [bind].
  destruct (quot_rem_nonneg off (h_chunk h)) as [Eq Er]; try lia. rewrite Eq, Er.
  destruct (off / h_chunk h >? 0) eqn:Eg.
  - rewrite idx_ok; [|destruct (off mod h_chunk h =? 0) eqn:Em; lia].
    cbn [bind]. destruct (_ <? 0); reflexivity.
  - cbn [bind]. destruct (_ <? 0); reflexivity.
Qed.

Lemma read_first_chunk_never_panics file h off rest :
  header_facts file h -> h_comp h = Zstandard -> zlen file <= maxAlloc ->
  0 <= off <= h_usize h -> off mod h_chunk h <> 0 ->
  is_panic (read_first_chunk dec_all h (off / h_chunk h) (off mod h_chunk h) rest) = false.
Proof.
  intros F Hc Ha Ho Hm. destruct (hf_zstd _ _ F Hc) as (Hk & Hu & Hcnt).
  destruct (chunk_index_bounds _ _ _ off Hk Hu Hcnt Ho) as (Hq0 & Hq1 & Hq2).
  specialize (Hq2 Hm).
  pose proof (Z.mod_pos_bound off (h_chunk h) Hk) as Bm.
  unfold read_first_chunk.
  rewrite !idx_ok by lia. cbn [bind].
  set (q := off / h_chunk h) in *.
  pose proof (hf_table _ _ F) as Ht. unfold table_ok in Ht.
  assert (Hstep : nth (Z.to_nat q) (h_offs h) 0 < nth (Z.to_nat (q + 1)) (h_offs h) 0).
  { replace (Z.to_nat (q + 1)) with (S (Z.to_nat q)) by lia.
    eapply increasing_from_step; [exact Ht|]. unfold zlen in *. lia. }
  destruct (increasing_from_bounds _ _ _ Ht) as [_ Hb].
  assert (H1 : -1 < nth (Z.to_nat q) (h_offs h) 0 <= zlen file) by (apply Hb; unfold zlen in *; lia).
  assert (H2 : -1 < nth (Z.to_nat (q + 1)) (h_offs h) 0 <= zlen file) by (apply Hb; unfold zlen in *; lia).
  unfold go_make.
  match goal with |- context [(?a <? 0) || (?b >? maxAlloc)] =>
    replace ((a <? 0) || (b >? maxAlloc)) with false by lia end.
  cbn [bind].
  destruct (zlen rest <? _); [reflexivity|].
  destruct (dec_all _); [|reflexivity].
  destruct (_ >? _); [reflexivity|].
  replace (off mod h_chunk h <? 0) with false by lia. reflexivity.
Qed.

Theorem uncompressed_reader_never_panics file h e off :
  parse_header file = Ok h -> zlen file <= maxAlloc -> 0 <= off <= h_usize h ->
  is_panic (uncompressed_reader dec_all dec_stream file e off) = false.
Proof.
  intros Hp Ha Ho. pose proof (parse_header_facts _ _ Hp) as F.
  unfold uncompressed_reader.
  destruct (open_blob file e) as [h'| | |] eqn:Eo; cbn [bind]; try reflexivity;
    try (pose proof (open_blob_never_panics file e) as Hn; rewrite Eo in Hn; discriminate).
  apply open_blob_ok in Eo. rewrite Hp in Eo. inversion Eo; subst h'.
  destruct (h_comp h =? Identity); [reflexivity|].
  destruct (h_comp h =? Zstandard) eqn:Ec; cbn [negb]; [|reflexivity].
  apply Z.eqb_eq in Ec.
  pose proof (seek_chunk_never_panics file h off F Ec Ho) as Hs.
  destruct (seek_chunk file h off) as [[[cn rm] rest]| | |] eqn:Es; cbn [bind]; try reflexivity;
    try discriminate.
  destruct (rm =? 0) eqn:Erm; [destruct (dec_stream rest); reflexivity|].
  (* recover chunkNum and remainder *)
  destruct (hf_zstd _ _ F Ec) as (Hk & Hu & Hcnt).
  unfold seek_chunk, go_quot, go_rem in Es. replace (h_chunk h =? 0) with false in Es by lia.
  cbn [bind] in Es.
  destruct (quot_rem_nonneg off (h_chunk h)) as [Eq Er]; try lia. rewrite Eq, Er in Es.
  match type of Es with bind ?p _ = _ => destruct p as [pos| | |]; cbn [bind] in Es; try discriminate end.
  destruct (pos <? 0); [discriminate|]. inversion Es; subst cn rm rest.
  pose proof (read_first_chunk_never_panics file h off (zskipn pos file) F Ec Ha Ho ltac:(lia)) as Hr.
  destruct (read_first_chunk _ _ _ _ _) as [[tl rest']| | |]; cbn [bind]; try reflexivity; try discriminate.
  destruct (off / h_chunk h =? zlen (h_offs h) - 2); [reflexivity|].
  destruct (dec_stream rest'); reflexivity.
Qed.

Theorem zstd_reader_never_panics file h e off :
  parse_header file = Ok h -> zlen file <= maxAlloc -> 0 <= off <= h_usize h ->
  is_panic (zstd_reader enc enc_stream dec_all file e off) = false.
Proof.
  intros Hp Ha Ho. pose proof (parse_header_facts _ _ Hp) as F.
  unfold zstd_reader.
  destruct (open_blob file e) as [h'| | |] eqn:Eo; cbn [bind]; try reflexivity;
    try (pose proof (open_blob_never_panics file e) as Hn; rewrite Eo in Hn; discriminate).
  apply open_blob_ok in Eo. rewrite Hp in Eo. inversion Eo; subst h'.
  destruct (h_comp h =? Identity); [reflexivity|].
  destruct (h_comp h =? Zstandard) eqn:Ec; cbn [negb]; [|reflexivity].
  apply Z.eqb_eq in Ec.
  destruct (off =? 0); [reflexivity|].
  pose proof (seek_chunk_never_panics file h off F Ec Ho) as Hs.
  destruct (seek_chunk file h off) as [[[cn rm] rest]| | |] eqn:Es; cbn [bind]; try reflexivity;
    try discriminate.
  destruct (rm =? 0) eqn:Erm; [reflexivity|].
  destruct (hf_zstd _ _ F Ec) as (Hk & Hu & Hcnt).
  unfold seek_chunk, go_quot, go_rem in Es. replace (h_chunk h =? 0) with false in Es by lia.
  cbn [bind] in Es.
  destruct (quot_rem_nonneg off (h_chunk h)) as [Eq Er]; try lia. rewrite Eq, Er in Es.
  match type of Es with bind ?p _ = _ => destruct p as [pos| | |]; cbn [bind] in Es; try discriminate end.
  destruct (pos <? 0); [discriminate|]. inversion Es; subst cn rm rest.
  pose proof (read_first_chunk_never_panics file h off (zskipn pos file) F Ec Ha Ho ltac:(lia)) as Hr.
  destruct (read_first_chunk _ _ _ _ _) as [[tl rest']| | |]; cbn [bind]; try reflexivity; try discriminate.
  destruct (off / h_chunk h =? zlen (h_offs h) - 2); reflexivity.
Qed.

(* a read that states a size different from the stored one is refused by both readers *)
Theorem expected_size_mismatch_rejected file h e off :
  parse_header file = Ok h -> e <> -1 -> e <> h_usize h ->
  uncompressed_reader dec_all dec_stream file e off = Err E_expected /\
  zstd_reader enc enc_stream dec_all file e off = Err E_expected.
Proof.
  intros Hp H1 H2. unfold uncompressed_reader, zstd_reader, open_blob. rewrite Hp. cbn [bind].
  replace (e =? -1) with false by lia. replace (h_usize h =? e) with false by lia.
  cbn [negb andb bind]. split; reflexivity.
Qed.

End NoPanic.
