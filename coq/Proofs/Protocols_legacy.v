(* Proofs/Protocols_legacy.v — casblob.GetLegacyZstdReadCloser: the compressing goroutine and the
   owner of the pipe reader.  If the owner closes the reader (at any moment: before the first
   read, in the middle, after EOF or an error) every run is finite for every amount of data and
   ends with the goroutine exited, the file closed and the pipe closed.  If the owner walks away
   without Close there is a run that leaves the goroutine blocked in pw.Write with the file open:
   the obligation "Close on every return path" of the three callers is what the property needs. *)
From BR Require Import Base.Prelude Model.Protocols Proofs.Protocols_base.
From Coq Require Import Relations.
Open Scope nat_scope.

Lemma gpc_eqb_sound a b : gpc_eqb a b = true -> a = b.
Proof. destruct a, b; cbn; intros H; try reflexivity; discriminate. Qed.
Lemma cpc_eqb_sound a b : cpc_eqb a b = true -> a = b.
Proof. destruct a, b; cbn; intros H; try reflexivity; discriminate. Qed.

Lemma lctl_eqb_sound a b : lctl_eqb a b = true -> a = b.
Proof.
  destruct a as [g c w r f], b as [g' c' w' r' f']. unfold lctl_eqb. cbn [l_g l_c l_wclosed l_rclosed l_fopen].
  intros H. apply andb_true_iff in H as [H Hf]. apply andb_true_iff in H as [H Hr].
  apply andb_true_iff in H as [H Hw]. apply andb_true_iff in H as [Hg Hc].
  apply gpc_eqb_sound in Hg. apply cpc_eqb_sound in Hc.
  apply Bool.eqb_prop in Hw. apply Bool.eqb_prop in Hr. apply Bool.eqb_prop in Hf. congruence.
Qed.

Lemma legacy_states_count : List.length (legacy_states true) = 58.
Proof. vm_compute. reflexivity. Qed.

Lemma legacy_checked :
  check (legacy_cstep true) lctl_eqb legacy_rank rankK legacy_final (legacy_states true) = true.
Proof. vm_compute. reflexivity. Qed.

Lemma legacy_init_in n : In (abs (legacy_init, n)) (legacy_states true).
Proof.
  apply (memb_In lctl_eqb lctl_eqb_sound). unfold abs. cbn [fst snd].
  destruct (Nat.eqb n 0); vm_compute; reflexivity.
Qed.

Theorem legacy_total :
  forall n s, reach (legacy_cstep true) (legacy_init, n) s ->
    all_runs_end_in (legacy_cstep true) (fun s' => legacy_final (fst s') = true) s.
Proof.
  intros n s Hr.
  exact (proj2 (checked_total (legacy_cstep true) lctl_eqb lctl_eqb_sound legacy_rank rankK legacy_final
                              (legacy_states true) legacy_checked _ _ (legacy_init_in n) Hr)).
Qed.

Lemma legacy_final_inv c : legacy_final c = true ->
  l_g c = GExit /\ l_c c = CClosed /\ l_wclosed c = true /\ l_fopen c = false.
Proof.
  unfold legacy_final. intros H. apply andb_true_iff in H as [H Hf]. apply andb_true_iff in H as [H Hw].
  apply andb_true_iff in H as [Hg Hc]. apply gpc_eqb_sound in Hg. apply cpc_eqb_sound in Hc.
  destruct (l_fopen c); [discriminate|]. auto.
Qed.

(* once the owner has closed the reader only the goroutine moves *)
Lemma legacy_closed_stays closes s s' :
  l_c (fst s) = CClosed -> step (legacy_cstep closes) s s' -> l_c (fst s') = CClosed.
Proof.
  intros Hc Hs.
  assert (G : forall z c' d, In (c', d) (legacy_cstep closes (fst s) z) -> l_c c' = CClosed).
  { intros z c' d Hin. unfold legacy_cstep, legacy_c in Hin. rewrite Hc in Hin. cbn [app] in Hin.
    unfold legacy_g in Hin.
    destruct (l_g (fst s)), z, (l_rclosed (fst s)), (l_wclosed (fst s)); cbn in Hin;
      repeat (destruct Hin as [Hin|Hin]; [inversion Hin; subst; cbn; exact Hc|]); contradiction. }
  inversion Hs; subst; cbn [fst] in *; eapply G; eassumption.
Qed.

(* no_hang: from every reachable state in which the owner has closed the reader, every run (of
   the goroutine, the only process left) is finite and ends with the goroutine exited, the file
   closed and the write end closed *)
Theorem legacy_no_hang :
  forall n s, reach (legacy_cstep true) (legacy_init, n) s -> l_c (fst s) = CClosed ->
    all_runs_end_in (legacy_cstep true)
      (fun s' => l_g (fst s') = GExit /\ l_c (fst s') = CClosed /\ l_wclosed (fst s') = true /\ l_fopen (fst s') = false) s.
Proof.
  intros n s Hr _. destruct (legacy_total n s Hr) as [Hacc Hend]. split; [exact Hacc|].
  intros s' Hr' Hst. apply legacy_final_inv. apply Hend; assumption.
Qed.

(* an owner that returns without closing the reader leaves the goroutine blocked in pw.Write for
   ever with the file open (one unit of data suffices) *)
Theorem legacy_abandoned_refuted :
  exists n s, reach (legacy_cstep false) (legacy_init, n) s /\
    l_c (fst s) = CGone /\ stuck (legacy_cstep false) s /\ l_g (fst s) = GOffer /\ l_fopen (fst s) = true.
Proof.
  exists 1.
  pose (path := [ (mkL GOffer CHold false false true, 0)
                ; (mkL GOffer CGone false false true, 0) ]).
  exists (last path (legacy_init, 1)). split.
  - apply (path_ok_sound (legacy_cstep false) lctl_eqb lctl_eqb_sound). vm_compute. reflexivity.
  - cbn. repeat split. apply stuck_of_nil. reflexivity.
Qed.

(* a run in which the owner closes while the goroutine is blocked in its first pipe write: the
   goroutine gets io.ErrClosedPipe and winds down *)
Example legacy_early_close_run :
  reach (legacy_cstep true) (legacy_init, 3)
        (mkL GExit CClosed true true false, 2).
Proof.
  pose (path := [ (mkL GOffer CHold false false true, 2)
                ; (mkL GOffer CClosed false true true, 2)
                ; (mkL GFail CClosed false true true, 2)
                ; (mkL GEncClose CClosed true true true, 2)
                ; (mkL GFClose CClosed true true true, 2)
                ; (mkL GPwClose CClosed true true false, 2)
                ; (mkL GExit CClosed true true false, 2) ]).
  change (mkL GExit CClosed true true false, 2) with (last path (legacy_init, 3)).
  apply (path_ok_sound (legacy_cstep true) lctl_eqb lctl_eqb_sound). vm_compute. reflexivity.
Qed.
