(* Proofs/Disk_fun_put.v — the upload program of Model/Disk.v (Put) in big-step form and its
   functional properties in the sequential semantics [exec]: an acknowledged upload is indexed and
   its file complete (C01), a rejected one leaves nothing behind, the explicit sufficient condition
   for an acknowledgement, the size guard (C18) and the hand-off to the backend queue (C12). *)
From Coq Require Import Permutation.
From BR Require Import Base.Prelude Model.LRU Proofs.LRU_inv Proofs.LRU_spec Proofs.LRU_limit Proofs.LRU_order.
Open Scope Z_scope.

(* ------------------------------------------------------------------ *)
(* LRU: an item that fits is accepted; reserve followed by unreserve *)

Lemma add_ok k v s : Inv s -> item_ok v -> roundUp4k (sizeOnDisk v) <= maxs s ->
  res s + add_delta k v s <= maxs s -> snd (add k v s) = Ok true.
Proof.
  intros HI Hv H1 H2. destruct (add k v s) as [s' r] eqn:E.
  destruct (add_inv_eq k v s s' r HI Hv E) as (_ & Hh & _). cbn [snd].
  revert E. unfold add, add_delta in *. cbv zeta.
  destruct (roundUp4k (sizeOnDisk v) >? maxs s) eqn:E0; [lia|].
  change (order (upd_peak (roundUp4k (sizeOnDisk v)) s)) with (order s).
  destruct (find_key k (order s)) as [e|].
  - match goal with |- context [if ?b then _ else _] => destruct b eqn:E1 end; [simpl in E1; lia|].
    match goal with |- context [evict_while ?f ?x] => destruct (evict_while f x) as [s3 [|]] end;
      intros E; inversion E; subst; [discriminate|reflexivity].
  - match goal with |- context [if ?b then _ else _] => destruct b eqn:E1 end; [simpl in E1; lia|].
    match goal with |- context [evict_while ?f ?x] => destruct (evict_while f x) as [s3 [|]] end;
      intros E; inversion E; subst; [discriminate|reflexivity].
Qed.

Lemma add_delta_le k v s : Inv s -> add_delta k v s <= roundUp4k (sizeOnDisk v).
Proof.
  intros ([_ _ _ _ _ _ _ Hit _] & _ & _). unfold add_delta.
  destruct (find_key k (order s)) as [e|] eqn:E; [|lia].
  apply find_key_In in E as [Hin _]. rewrite Forall_forall in Hit. destruct (Hit e Hin) as [_ H].
  pose proof (roundUp4k_nonneg _ H). lia.
Qed.

Lemma find_key_suffix k ev l : find_key k (ev ++ l) = None -> find_key k l = None.
Proof.
  induction ev as [|x t IH]; simpl; [auto|]. destruct (String.eqb (ekey (ent x)) k); [discriminate|exact IH].
Qed.

Lemma reserve_then_unreserve n s s' : Inv s -> 0 < n -> reserve n s = (s', Ok tt) ->
  exists l1, unreserve n s' = (l1, Ok tt) /\ Inv s' /\ Inv l1 /\
    res l1 = res s /\ maxs l1 = maxs s /\ hard l1 = hard s /\ order l1 = order s' /\
    exists ev, order s = ev ++ order s'.
Proof.
  intros HI Hn E. pose proof (reserve_spec n s HI) as HS. rewrite E in HS.
  destruct HS as (HI' & Hm & Hh & _ & [(_ & Hr & _)|([H|H] & _)]); try discriminate.
  destruct (reserve_evicts_lru_prefix n s s' HI E) as (ev & Ho & _).
  assert (H0 : 0 <= res s) by (destruct HI as ([] & _); assumption).
  pose proof (inv_res_le_cur s' HI') as Hrc.
  pose proof (unreserve_ok n s' ltac:(lia) Hrc) as HU.
  pose proof (unreserve_spec n s') as HSp. pose proof (unreserve_inv n s' HI') as HIu.
  destruct (unreserve n s') as [l1 r1]. cbn [fst snd] in *. subst r1.
  destruct HSp as (Hm1 & Hh1 & Ho1 & _ & [(_ & Hr1 & _)|(Hx & _)]); [|discriminate].
  exists l1. split; [reflexivity|]. split; [exact HI'|]. split; [exact HIu|].
  repeat split; try congruence; try lia. exists ev. exact Ho.
Qed.

(* ------------------------------------------------------------------ *)
From BR Require Import Model.Disk Proofs.Disk_ack Proofs.Disk_fun_fm.

(* running a thread, observed through the final state and the response *)
Definition outcome (c : cfg) (n : nat) (d : dstate) (t : thread) : dstate * option response :=
  let '(d', t') := run_thread c n d t in (d', response_of t').

Lemma outcome_S c n d t :
  outcome c (S n) d t =
  match tstep c d t with Some (d', t') => outcome c n d' t' | None => (d, response_of t) end.
Proof. unfold outcome. rewrite run_thread_S. destruct (tstep c d t) as [[d' t']|]; reflexivity. Qed.

Lemma outcome_done c n d t r : t_pc t = Done r -> outcome c n d t = (d, Some r).
Proof. intros H. unfold outcome. rewrite (run_done _ _ _ _ _ H). unfold response_of. rewrite H. reflexivity. Qed.

Lemma exec_outcome c d r : exec c d r = outcome c (fuel_for r) d (spawn r).
Proof. reflexivity. Qed.

(* ---------------- the deferred clean-up ---------------- *)

Definition fail_of (r : response) : response :=
  match r with PutOk | PutErr _ => PutErr EInternal | _ => GetErr EInternal end.

Definition cleanup_fun (d : dstate) (h : Z) (tm : option path) (r : response) : dstate * response :=
  let d1 := match tm with Some p => set_files (remove_file p (files d)) d | None => d end in
  if h >? 0 then
    let '(l', ur) := LRU.unreserve h (lru d1) in
    (set_lru l' d1, match ur with Ok _ => r | _ => fail_of r end)
  else (d1, r).

Lemma tstep_cleanup c d req r h tm :
  tstep c d (mkThread req (Cleanup r) h tm) =
  match tm with
  | Some p => Some (set_files (remove_file p (files d)) d, mkThread req (Cleanup r) h None)
  | None =>
      if h >? 0 then
        let '(l', ur) := LRU.unreserve h (lru d) in
        match ur with
        | Ok _ => Some (set_lru l' d, mkThread req (Done r) 0 None)
        | _ => Some (set_lru l' d, mkThread req (Done (fail_of r)) 0 None)
        end
      else Some (d, mkThread req (Done r) h None)
  end.
Proof. destruct tm; reflexivity. Qed.

Lemma outcome_cleanup_none c req n d r h : (1 <= n)%nat ->
  outcome c n d (mkThread req (Cleanup r) h None) =
  (fst (cleanup_fun d h None r), Some (snd (cleanup_fun d h None r))).
Proof.
  intros Hn. destruct n as [|n]; [lia|]. rewrite outcome_S, tstep_cleanup. unfold cleanup_fun.
  destruct (h >? 0).
  - destruct (LRU.unreserve h (lru d)) as [l' ur]. destruct ur; erewrite outcome_done by reflexivity; reflexivity.
  - erewrite outcome_done by reflexivity. reflexivity.
Qed.

Lemma outcome_cleanup c req n d r h tm : (2 <= n)%nat ->
  outcome c n d (mkThread req (Cleanup r) h tm) =
  (fst (cleanup_fun d h tm r), Some (snd (cleanup_fun d h tm r))).
Proof.
  intros Hn. destruct tm as [p|]; [|apply outcome_cleanup_none; lia].
  destruct n as [|n]; [lia|]. rewrite outcome_S, tstep_cleanup. cbv iota beta.
  rewrite outcome_cleanup_none by lia. reflexivity.
Qed.

(* ---------------- the stages of Put ---------------- *)

Definition put_legacy (c : cfg) (k : kind) : bool := kind_eqb k CAS && negb (c_zstd c).

(* the name the temp file gets (and keeps: the commit does not rename) *)
Definition put_path (c : cfg) (k : kind) (hash : string) (sz : Z) (rnd : string) : path :=
  mkPath (lookup_key k hash) (if kind_eqb k CAS && negb (put_legacy c k) then sz else 0) rnd (put_legacy c k).

(* bytes on disk: the oracle's value for compressed CAS, the logical size otherwise *)
Definition put_od (c : cfg) (k : kind) (sz : Z) (st : stream) : Z :=
  if kind_eqb k CAS && c_zstd c then st_ondisk st else sz.

Definition put_good (c : cfg) (k : kind) (sz : Z) (st : stream) : bool :=
  (st_len st =? sz) && negb (st_err st) && (negb (kind_eqb k CAS) || st_hash_ok st)
  && (negb (kind_eqb k CAS && c_zstd c) || (sz >? 0)).

Definition put_item (c : cfg) (k : kind) (sz : Z) (st : stream) (rnd : string) : item :=
  mkItem sz (put_od c k sz st) rnd (put_legacy c k).

Definition put_file_done (c : cfg) (k : kind) (hash : string) (sz : Z) (st : stream) (rnd : string) : file :=
  mkFile (put_path c k hash sz rnd) (st_cid st) (put_od c k sz st) true sz.

Lemma tstep_put_start c d k hash sz st rnd h tm :
  tstep c d (mkThread (RPut k hash sz st rnd) PutStart h tm) =
  let req := RPut k hash sz st rnd in
  if sz <? 0 then Some (d, mkThread req (Done (PutErr EBadRequest)) h tm) else
  if sz >? c_maxblob c then Some (d, mkThread req (Done (PutErr EBadRequest)) h tm) else
  if negb (Z.of_nat (String.length hash) =? hashLen) then Some (d, mkThread req (Done (PutErr EBadRequest)) h tm) else
  if kind_eqb k CAS && (sz =? 0) && String.eqb hash emptySha256 then
    (if st_len st >? 0 then Some (d, mkThread req (Done (PutErr EBadRequest)) h tm)
     else if st_err st then Some (d, mkThread req (Done (PutErr EInternal)) h tm)
     else Some (d, mkThread req (Done PutOk) h tm)) else
  if sz >? 0 then
    let '(l', r) := LRU.reserve sz (lru d) in
    match r with
    | Ok _ => Some (set_lru l' d, mkThread req PutCreate sz None)
    | _ => Some (set_lru l' d, mkThread req (Done (PutErr (errc_of r))) h tm)
    end
  else Some (d, mkThread req PutCreate h tm).
Proof. reflexivity. Qed.

Lemma tstep_put_create c d k hash sz st rnd h tm :
  tstep c d (mkThread (RPut k hash sz st rnd) PutCreate h tm) =
  let p := put_path c k hash sz rnd in
  match find_file p (files d) with
  | Some _ => None
  | None => Some (set_files (put_file (mkFile p (st_cid st) 0 false sz) (files d)) d,
                  mkThread (RPut k hash sz st rnd) PutWrite h (Some p))
  end.
Proof. reflexivity. Qed.

Lemma tstep_put_write c d k hash sz st rnd h p :
  tstep c d (mkThread (RPut k hash sz st rnd) PutWrite h (Some p)) =
  Some (set_files (put_file (mkFile p (st_cid st) (Z.min (st_len st) (Z.max sz 0)) false sz) (files d)) d,
        mkThread (RPut k hash sz st rnd) PutFinish h (Some p)).
Proof. reflexivity. Qed.

Lemma tstep_put_finish c d k hash sz st rnd h p :
  tstep c d (mkThread (RPut k hash sz st rnd) PutFinish h (Some p)) =
  if put_good c k sz st then
    let od := put_od c k sz st in
    let d1 := set_files (put_file (mkFile p (st_cid st) od true sz) (files d)) d in
    let d2 := if c_proxy c then mkD (lru d1) (files d1) (handed d1 ++ [(lookup_key k hash, sz, od)]) else d1 in
    Some (d2, mkThread (RPut k hash sz st rnd) (PutCommit od) h (Some p))
  else Some (d, mkThread (RPut k hash sz st rnd) (Cleanup (PutErr EInternal)) h (Some p)).
Proof. reflexivity. Qed.

Lemma tstep_put_commit c d k hash sz st rnd h tm od :
  tstep c d (mkThread (RPut k hash sz st rnd) (PutCommit od) h tm) =
  let req := RPut k hash sz st rnd in
  let '(l1, r1) := if h >? 0 then LRU.unreserve h (lru d) else (lru d, Ok tt) in
  match r1 with
  | Ok _ =>
      let '(l2, r2) := LRU.add (lookup_key k hash) (mkItem sz od rnd (put_legacy c k)) l1 in
      match r2 with
      | Ok true => Some (set_lru l2 d, mkThread req (Cleanup PutOk) 0 None)
      | _ => Some (set_lru l2 d, mkThread req (Cleanup (PutErr EInternal)) 0 tm)
      end
  | _ => Some (set_lru l1 d, mkThread req (Cleanup (PutErr EInternal)) h tm)
  end.
Proof. reflexivity. Qed.

(* ---------------- Put in big-step form ---------------- *)

Definition put_commit_fun (c : cfg) (d : dstate) (k : kind) (hash : string) (sz : Z) (st : stream)
    (rnd : string) (h : Z) (p : path) : dstate * response :=
  let '(l1, r1) := if h >? 0 then LRU.unreserve h (lru d) else (lru d, Ok tt) in
  match r1 with
  | Ok _ =>
      let '(l2, r2) := LRU.add (lookup_key k hash) (put_item c k sz st rnd) l1 in
      match r2 with
      | Ok true => cleanup_fun (set_lru l2 d) 0 None PutOk
      | _ => cleanup_fun (set_lru l2 d) 0 (Some p) (PutErr EInternal)
      end
  | _ => cleanup_fun (set_lru l1 d) h (Some p) (PutErr EInternal)
  end.

Definition with_handoff (c : cfg) (k : kind) (hash : string) (sz od : Z) (d : dstate) : dstate :=
  if c_proxy c then mkD (lru d) (files d) (handed d ++ [(lookup_key k hash, sz, od)]) else d.

Definition put_body_fun (c : cfg) (d : dstate) (k : kind) (hash : string) (sz : Z) (st : stream)
    (rnd : string) (h : Z) : dstate * option response :=
  let p := put_path c k hash sz rnd in
  match find_file p (files d) with
  | Some _ => (d, None)
  | None =>
      let d1 := set_files (put_file (mkFile p (st_cid st) 0 false sz) (files d)) d in
      let d2 := set_files (put_file (mkFile p (st_cid st) (Z.min (st_len st) (Z.max sz 0)) false sz) (files d1)) d1 in
      if put_good c k sz st then
        let d3 := set_files (put_file (put_file_done c k hash sz st rnd) (files d2)) d2 in
        let d4 := with_handoff c k hash sz (put_od c k sz st) d3 in
        let '(d5, r) := put_commit_fun c d4 k hash sz st rnd h p in (d5, Some r)
      else
        let '(d5, r) := cleanup_fun d2 h (Some p) (PutErr EInternal) in (d5, Some r)
  end.

Definition put_fun (c : cfg) (d : dstate) (k : kind) (hash : string) (sz : Z) (st : stream) (rnd : string)
  : dstate * option response :=
  if sz <? 0 then (d, Some (PutErr EBadRequest)) else
  if sz >? c_maxblob c then (d, Some (PutErr EBadRequest)) else
  if negb (Z.of_nat (String.length hash) =? hashLen) then (d, Some (PutErr EBadRequest)) else
  if kind_eqb k CAS && (sz =? 0) && String.eqb hash emptySha256 then
    (d, Some (if st_len st >? 0 then PutErr EBadRequest else if st_err st then PutErr EInternal else PutOk)) else
  if sz >? 0 then
    let '(l', r) := LRU.reserve sz (lru d) in
    match r with
    | Ok _ => put_body_fun c (set_lru l' d) k hash sz st rnd sz
    | _ => (set_lru l' d, Some (PutErr (errc_of r)))
    end
  else put_body_fun c d k hash sz st rnd 0.

Lemma pair_eta {A B} (x : A * B) : (let '(a, b) := x in (a, Some b)) = (fst x, Some (snd x)).
Proof. destruct x; reflexivity. Qed.

Lemma outcome_put_body c d k hash sz st rnd h n : (6 <= n)%nat ->
  outcome c n d (mkThread (RPut k hash sz st rnd) PutCreate h None) = put_body_fun c d k hash sz st rnd h.
Proof.
  intros Hn. unfold put_body_fun. cbv zeta.
  destruct n as [|n]; [lia|]. rewrite outcome_S, tstep_put_create. cbv zeta.
  destruct (find_file (put_path c k hash sz rnd) (files d)) as [f|]; [reflexivity|].
  destruct n as [|n]; [lia|]. rewrite outcome_S, tstep_put_write.
  destruct n as [|n]; [lia|]. rewrite outcome_S, tstep_put_finish.
  destruct (put_good c k sz st).
  - cbv zeta. destruct n as [|n]; [lia|]. rewrite outcome_S, tstep_put_commit. cbv zeta.
    rewrite pair_eta. unfold put_commit_fun, put_item, with_handoff, put_file_done.
    match goal with |- context [if h >? 0 then ?a else ?b] => destruct (if h >? 0 then a else b) as [l1 r1] end.
    destruct r1 as [u|e|s|s]; try (rewrite outcome_cleanup by lia; reflexivity).
    match goal with |- context [LRU.add ?a ?b ?x] => destruct (LRU.add a b x) as [l2 r2] end.
    destruct r2 as [[|]|e|s|s]; rewrite outcome_cleanup by lia; reflexivity.
  - rewrite outcome_cleanup by lia. rewrite pair_eta. reflexivity.
Qed.

Theorem exec_put_eq c d k hash sz st rnd :
  exec c d (RPut k hash sz st rnd) = put_fun c d k hash sz st rnd.
Proof.
  rewrite exec_outcome.
  change (spawn (RPut k hash sz st rnd)) with (mkThread (RPut k hash sz st rnd) PutStart 0 None).
  change (fuel_for (RPut k hash sz st rnd)) with (S 23).
  rewrite outcome_S, tstep_put_start. unfold put_fun. cbv zeta.
  destruct (sz <? 0); [apply outcome_done; reflexivity|].
  destruct (sz >? c_maxblob c); [apply outcome_done; reflexivity|].
  destruct (negb (Z.of_nat (String.length hash) =? hashLen)); [apply outcome_done; reflexivity|].
  destruct (kind_eqb k CAS && (sz =? 0) && String.eqb hash emptySha256);
    [destruct (st_len st >? 0); [|destruct (st_err st)]; apply outcome_done; reflexivity|].
  destruct (sz >? 0).
  - destruct (LRU.reserve sz (lru d)) as [l' r].
    destruct r as [u|e|s|s]; try (apply outcome_done; reflexivity). apply outcome_put_body. lia.
  - apply outcome_put_body. lia.
Qed.

(* ------------------------------------------------------------------ *)
(* every way an upload can go, in an invariant index state *)

(* the index as the commit finds it: after the reservation (which may evict) was made and returned *)
Definition reserved_index (d : dstate) (sz : Z) : LRU.state :=
  if sz >? 0 then fst (LRU.reserve sz (lru d)) else lru d.
Definition commit_index (d : dstate) (sz : Z) : LRU.state :=
  if sz >? 0 then fst (LRU.unreserve sz (fst (LRU.reserve sz (lru d)))) else lru d.

Definition handoff (c : cfg) (k : kind) (hash : string) (sz : Z) (st : stream) : list (string * Z * Z) :=
  if c_proxy c then [(lookup_key k hash, sz, put_od c k sz st)] else [].

Lemma shortcut_iff k hash sz :
  kind_eqb k CAS && (sz =? 0) && String.eqb hash emptySha256 = true <-> empty_shortcut k hash sz.
Proof.
  unfold empty_shortcut. split.
  - intros H. apply andb_true_iff in H as [H H3]. apply andb_true_iff in H as [H1 H2].
    apply String.eqb_eq in H3. split; [destruct k; try discriminate; reflexivity|]. split; [lia|exact H3].
  - intros (-> & -> & ->). reflexivity.
Qed.

Lemma cleanup_fun_ok d h tm r l1 :
  (if h >? 0 then LRU.unreserve h (lru d) else (lru d, Ok tt)) = (l1, Ok tt) ->
  cleanup_fun d h tm r =
  (mkD l1 (match tm with Some p => remove_file p (files d) | None => files d end) (handed d), r).
Proof.
  unfold cleanup_fun. intros H. destruct tm as [p|]; cbn [lru set_files files handed];
    destruct (h >? 0).
  - destruct (LRU.unreserve h (lru d)) as [l' ur]. inversion H; subst. reflexivity.
  - inversion H; subst. destruct d; reflexivity.
  - destruct (LRU.unreserve h (lru d)) as [l' ur]. inversion H; subst. reflexivity.
  - inversion H; subst. destruct d; reflexivity.
Qed.

Lemma put_body_cases c d0 k hash sz st rnd h l1 d' r :
  (if h >? 0 then LRU.unreserve h (lru d0) else (lru d0, Ok tt)) = (l1, Ok tt) ->
  Inv l1 -> item_ok (put_item c k sz st rnd) ->
  put_body_fun c d0 k hash sz st rnd h = (d', r) ->
  (find_file (put_path c k hash sz rnd) (files d0) <> None /\ r = None /\ d' = d0) \/
  (find_file (put_path c k hash sz rnd) (files d0) = None /\
   ((put_good c k sz st = false /\ r = Some (PutErr EInternal) /\ d' = mkD l1 (files d0) (handed d0)) \/
    (put_good c k sz st = true /\
     exists l2 r2, LRU.add (lookup_key k hash) (put_item c k sz st rnd) l1 = (l2, r2) /\
      ((r2 = Ok false /\ r = Some (PutErr EInternal) /\
        d' = mkD l2 (files d0) (handed d0 ++ handoff c k hash sz st)) \/
       (r2 = Ok true /\ r = Some PutOk /\
        d' = mkD l2 (put_file_done c k hash sz st rnd :: files d0) (handed d0 ++ handoff c k hash sz st)))))).
Proof.
  intros HU HI1 Hit. unfold put_body_fun. cbv zeta.
  destruct (find_file (put_path c k hash sz rnd) (files d0)) as [f|] eqn:EF.
  - intros H; inversion H; subst. left. repeat split; congruence.
  - intros H. right. split; [reflexivity|]. revert H. unfold set_files. cbn [files lru handed].
    rewrite (put_file_fresh' (mkFile (put_path c k hash sz rnd) (st_cid st) 0 false sz) (files d0)) by exact EF.
    rewrite (put_file_over (mkFile (put_path c k hash sz rnd) (st_cid st) 0 false sz)) by reflexivity.
    destruct (put_good c k sz st) eqn:EG.
    + rewrite (put_file_over _ (put_file_done c k hash sz st rnd)) by reflexivity.
      unfold put_commit_fun, with_handoff, handoff.
      destruct (LRU.add (lookup_key k hash) (put_item c k sz st rnd) l1) as [l2 r2] eqn:EA.
      destruct (add_spec _ _ _ _ _ HI1 Hit EA) as (_ & _ & _ & _ & [(-> & _)|(-> & _)]).
      * destruct (c_proxy c); unfold set_lru; cbn [lru files handed]; rewrite HU, EA;
          unfold cleanup_fun, set_lru, set_files; cbn [lru files handed Z.gtb Z.compare];
          change (put_path c k hash sz rnd) with (f_path (put_file_done c k hash sz st rnd));
          rewrite remove_file_head; intros H; inversion H; subst; rewrite ?app_nil_r;
          right; (split; [reflexivity|]); exists l2, (Ok false); (split; [reflexivity|]);
          left; repeat split; reflexivity.
      * destruct (c_proxy c); unfold set_lru; cbn [lru files handed]; rewrite HU, EA;
          unfold cleanup_fun, set_lru, set_files; cbn [lru files handed Z.gtb Z.compare];
          intros H; inversion H; subst; rewrite ?app_nil_r;
          right; (split; [reflexivity|]); exists l2, (Ok true); (split; [reflexivity|]);
          right; repeat split; reflexivity.
    + rewrite (cleanup_fun_ok _ h _ _ l1) by exact HU. cbn [files handed].
      change (put_path c k hash sz rnd) with
        (f_path (mkFile (put_path c k hash sz rnd) (st_cid st) (Z.min (st_len st) (Z.max sz 0)) false sz)).
      rewrite remove_file_head. intros H; inversion H; subst. left. repeat split; reflexivity.
Qed.

Lemma commit_index_spec d sz : Inv (lru d) ->
  (0 < sz -> snd (LRU.reserve sz (lru d)) = Ok tt) ->
  Inv (commit_index d sz) /\ Inv (reserved_index d sz) /\
  res (commit_index d sz) = res (lru d) /\ maxs (commit_index d sz) = maxs (lru d) /\
  hard (commit_index d sz) = hard (lru d) /\
  (exists ev, order (lru d) = ev ++ order (commit_index d sz)) /\
  (if sz >? 0 then LRU.unreserve sz (reserved_index d sz) else (reserved_index d sz, Ok tt))
    = (commit_index d sz, Ok tt).
Proof.
  intros HI Hres. unfold commit_index, reserved_index. destruct (sz >? 0) eqn:G.
  - destruct (LRU.reserve sz (lru d)) as [l' r0] eqn:ER. cbn [fst snd] in *.
    rewrite Hres in ER by lia.
    destruct (reserve_then_unreserve sz (lru d) l' HI ltac:(lia) ER)
      as (l1 & EU & HI' & HI1 & Hr & Hm & Hh & Ho & ev & Hev).
    rewrite EU. cbn [fst]. split; [exact HI1|]. split; [exact HI'|]. split; [exact Hr|]. split; [exact Hm|].
    split; [exact Hh|]. split; [|reflexivity]. exists ev. rewrite Ho. exact Hev.
  - split; [exact HI|]. split; [exact HI|]. do 3 (split; [reflexivity|]). split; [|reflexivity].
    exists []. reflexivity.
Qed.

Lemma put_item_ok c k sz st rnd : 0 <= sz -> 0 <= st_ondisk st -> item_ok (put_item c k sz st rnd).
Proof. intros H1 H2. unfold item_ok, put_item, put_od. cbn. destruct (kind_eqb k CAS && c_zstd c); lia. Qed.

Theorem put_cases c d k hash sz st rnd d' r :
  Inv (lru d) -> 0 <= st_ondisk st ->
  exec c d (RPut k hash sz st rnd) = (d', r) ->
  (* a guard refuses *)
  (~ put_guards c hash sz /\ d' = d /\ r = Some (PutErr EBadRequest)) \/
  (* the empty blob: nothing to store; data sent for it is refused *)
  (put_guards c hash sz /\ empty_shortcut k hash sz /\ d' = d /\
   ((st_len st <= 0 /\ st_err st = false /\ r = Some PutOk) \/ (0 < st_len st /\ r = Some (PutErr EBadRequest)) \/
    (st_len st <= 0 /\ st_err st = true /\ r = Some (PutErr EInternal)))) \/
  (* the reservation is refused *)
  (put_guards c hash sz /\ ~ empty_shortcut k hash sz /\ 0 < sz /\
   exists e, snd (LRU.reserve sz (lru d)) = Err e /\
             d' = mkD (reserved_index d sz) (files d) (handed d) /\ r = Some (PutErr e)) \/
  (put_guards c hash sz /\ ~ empty_shortcut k hash sz /\ (0 < sz -> snd (LRU.reserve sz (lru d)) = Ok tt) /\
   ((* the temp name is taken: the creator keeps trying *)
    (find_file (put_path c k hash sz rnd) (files d) <> None /\ r = None /\
     d' = mkD (reserved_index d sz) (files d) (handed d)) \/
    (find_file (put_path c k hash sz rnd) (files d) = None /\
     ((* the bytes are not what was declared *)
      (put_good c k sz st = false /\ r = Some (PutErr EInternal) /\
       d' = mkD (commit_index d sz) (files d) (handed d)) \/
      (put_good c k sz st = true /\
       exists l2 r2, LRU.add (lookup_key k hash) (put_item c k sz st rnd) (commit_index d sz) = (l2, r2) /\
        ((* the index refuses the item *)
         (r2 = Ok false /\ r = Some (PutErr EInternal) /\
          d' = mkD l2 (files d) (handed d ++ handoff c k hash sz st)) \/
         (* committed *)
         (r2 = Ok true /\ r = Some PutOk /\
          d' = mkD l2 (put_file_done c k hash sz st rnd :: files d) (handed d ++ handoff c k hash sz st)))))))).
Proof.
  intros HI Hod. rewrite exec_put_eq. unfold put_fun.
  destruct (sz <? 0) eqn:G1.
  { intros H; inversion H; subst. left. split; [unfold put_guards; lia|split; reflexivity]. }
  destruct (sz >? c_maxblob c) eqn:G2.
  { intros H; inversion H; subst. left. split; [unfold put_guards; lia|split; reflexivity]. }
  destruct (negb (Z.of_nat (String.length hash) =? hashLen)) eqn:G3.
  { intros H; inversion H; subst. left. split; [unfold put_guards; apply negb_true_iff in G3; lia|split; reflexivity]. }
  assert (HG : put_guards c hash sz) by (unfold put_guards; apply negb_false_iff in G3; lia).
  destruct (kind_eqb k CAS && (sz =? 0) && String.eqb hash emptySha256) eqn:G4.
  { intros H; inversion H; subst. right. left. apply shortcut_iff in G4.
    split; [exact HG|]. split; [exact G4|]. split; [reflexivity|].
    destruct (st_len st >? 0) eqn:G6; [right; left; split; [lia|reflexivity]|].
    destruct (st_err st) eqn:G7; [right; right|left]; (split; [lia|split; reflexivity]). }
  assert (HS : ~ empty_shortcut k hash sz) by (intros Hc; apply shortcut_iff in Hc; congruence).
  assert (Hit : item_ok (put_item c k sz st rnd)) by (apply put_item_ok; lia).
  intros H. right. right.
  destruct (sz >? 0) eqn:G5.
  - destruct (LRU.reserve sz (lru d)) as [l' r0] eqn:ER.
    pose proof (limit_never_other sz (lru d) HI) as HN. rewrite ER in HN. cbn [snd] in HN.
    destruct r0 as [[]|e|s|s]; try contradiction.
    + right. split; [exact HG|]. split; [exact HS|]. split; [intros _; reflexivity|].
      assert (Hres : 0 < sz -> snd (LRU.reserve sz (lru d)) = Ok tt) by (rewrite ER; reflexivity).
      destruct (commit_index_spec d sz HI Hres) as (HI1 & _ & _ & _ & _ & _ & HU).
      assert (HR : reserved_index d sz = l') by (unfold reserved_index; rewrite G5, ER; reflexivity).
      rewrite HR in *.
      apply (put_body_cases c (set_lru l' d) k hash sz st rnd sz (commit_index d sz)) in H;
        [|rewrite G5 in *; exact HU|exact HI1|exact Hit].
      cbn [set_lru files handed lru] in H.
      destruct H as [(H1 & H2 & H3)|(H1 & H2)]; [left|right; split; [exact H1|exact H2]].
      split; [exact H1|]. split; [exact H2|]. rewrite H3. reflexivity.
    + left. split; [exact HG|]. split; [exact HS|]. split; [lia|]. exists e.
      inversion H; subst. unfold reserved_index. rewrite G5, ER. repeat split; reflexivity.
  - right. split; [exact HG|]. split; [exact HS|]. split; [lia|].
    assert (HR : reserved_index d sz = lru d) by (unfold reserved_index; rewrite G5; reflexivity).
    assert (HC : commit_index d sz = lru d) by (unfold commit_index; rewrite G5; reflexivity).
    rewrite HR, HC.
    apply (put_body_cases c d k hash sz st rnd 0 (lru d)) in H; [|reflexivity|exact HI|exact Hit].
    destruct H as [(H1 & H2 & H3)|(H1 & H2)]; [left|right; split; [exact H1|exact H2]].
    split; [exact H1|]. split; [exact H2|]. rewrite H3. destruct d; reflexivity.
Qed.

(* ------------------------------------------------------------------ *)
(* C01 / C18 / C12 for uploads *)

Ltac conj := repeat match goal with |- _ /\ _ => split end.

Lemma peek_none_suffix k s s' ev : order s = ev ++ order s' -> peek k s = None -> peek k s' = None.
Proof.
  unfold peek. intros Ho. rewrite Ho. destruct (find_key k (ev ++ order s')) eqn:E; [discriminate|].
  intros _. rewrite (find_key_suffix _ _ _ E). reflexivity.
Qed.

(* C01: an acknowledged upload (other than the empty blob) is indexed under its key with the
   declared size, and its file is complete and holds this upload's content *)
Theorem put_ack_present c d k hash sz st rnd d' :
  Inv (lru d) -> 0 <= st_ondisk st ->
  exec c d (RPut k hash sz st rnd) = (d', Some PutOk) ->
  ~ empty_shortcut k hash sz ->
  res (lru d) + roundUp4k (put_od c k sz st) <= maxs (lru d) ->
  peek (lookup_key k hash) (lru d') = Some (put_item c k sz st rnd) /\
  find_file (put_path c k hash sz rnd) (files d') = Some (put_file_done c k hash sz st rnd) /\
  files d' = put_file_done c k hash sz st rnd :: files d /\
  find_file (put_path c k hash sz rnd) (files d) = None /\
  Inv (lru d') /\ res (lru d') = res (lru d).
Proof.
  intros HI Hod H HS Hfit.
  destruct (put_cases _ _ _ _ _ _ _ _ _ HI Hod H)
    as [(_ & _ & Hr)|[(_ & Hs & _)|[(_ & _ & _ & e & _ & _ & Hr)|(HG & _ & Hres &
        [(_ & Hr & _)|(Hfresh & [(_ & Hr & _)|(EG & l2 & r2 & EA & [(_ & Hr & _)|(-> & _ & ->)])])])]]];
    try discriminate; try contradiction.
  destruct HG as [[Hsz0 _] _].
  destruct (commit_index_spec d sz HI Hres) as (HI1 & _ & Hr1 & Hm1 & _).
  pose proof (put_item_ok c k sz st rnd Hsz0 Hod) as Hit.
  destruct (present_after_add _ _ _ _ HI1 Hit EA) as [_ Hp].
  { rewrite Hr1, Hm1. exact Hfit. }
  destruct (add_spec _ _ _ _ _ HI1 Hit EA) as (HI2 & Hr2 & _).
  cbn [lru files]. conj; try assumption; try reflexivity; [|congruence].
  change (put_path c k hash sz rnd) with (f_path (put_file_done c k hash sz st rnd)). apply find_file_head.
Qed.

(* C01: a rejected upload adds nothing: no key becomes present, no reserved bytes and no file stay *)
Theorem put_reject_clean c d k hash sz st rnd d' e :
  Inv (lru d) -> 0 <= st_ondisk st ->
  exec c d (RPut k hash sz st rnd) = (d', Some (PutErr e)) ->
  Inv (lru d') /\ res (lru d') = res (lru d) /\ files d' = files d /\
  (forall k', peek k' (lru d) = None -> peek k' (lru d') = None).
Proof.
  intros HI Hod H.
  destruct (put_cases _ _ _ _ _ _ _ _ _ HI Hod H)
    as [(_ & -> & _)|[(_ & _ & -> & _)|[(_ & _ & Hsz & e' & ER & -> & _)|(HG & _ & Hres &
        [(_ & Hr & _)|(Hfresh & [(_ & _ & ->)|(EG & l2 & r2 & EA & [(-> & _ & ->)|(_ & Hr & _)])])])]]];
    try discriminate.
  - conj; auto.
  - conj; auto.
  - cbn [lru files]. unfold reserved_index. assert (G : (sz >? 0) = true) by lia. rewrite G.
    pose proof (limit_refusal_pure sz (lru d) e' HI ER) as (Ho & _ & _ & Hr & _).
    pose proof (reserve_inv sz (lru d) HI) as [HI' _].
    conj; try assumption; try reflexivity. intros k'. unfold peek. rewrite Ho. auto.
  - destruct HG as [[Hsz0 _] _].
    destruct (commit_index_spec d sz HI Hres) as (HI1 & _ & Hr1 & _ & _ & (ev & Hev) & _).
    cbn [lru files]. conj; try assumption; try reflexivity. intros k'. apply (peek_none_suffix _ _ _ _ Hev).
  - destruct HG as [[Hsz0 _] _].
    destruct (commit_index_spec d sz HI Hres) as (HI1 & _ & Hr1 & _ & _ & (ev & Hev) & _).
    pose proof (put_item_ok c k sz st rnd Hsz0 Hod) as Hit.
    destruct (add_spec _ _ _ _ _ HI1 Hit EA) as (HI2 & Hr2 & _ & _ & [(_ & Ho & _)|(Hx & _)]); [|discriminate].
    cbn [lru files]. conj; try assumption; try reflexivity; [congruence|].
    intros k' Hk. pose proof (peek_none_suffix _ _ _ _ Hev Hk) as Hk1. unfold peek in *. rewrite Ho. exact Hk1.
Qed.

Lemma put_good_of c k sz st : upload_good c k sz st -> (k = CAS -> c_zstd c = true -> 0 < sz) ->
  put_good c k sz st = true.
Proof.
  intros (H1 & H2 & H3) H4. unfold put_good. rewrite H2.
  assert (E : (st_len st =? sz) = true) by lia. rewrite E. cbn [negb andb].
  destruct k; cbn [kind_eqb negb orb andb]; try reflexivity.
  rewrite (H3 eq_refl). cbn [andb]. destruct (c_zstd c) eqn:Ez; [|reflexivity].
  cbn [negb orb]. specialize (H4 eq_refl eq_refl). lia.
Qed.

(* C01: the explicit sufficient condition for an acknowledgement *)
Theorem put_ack_complete c d k hash sz st rnd :
  Inv (lru d) -> 0 <= st_ondisk st ->
  put_guards c hash sz -> upload_good c k sz st -> ~ empty_shortcut k hash sz ->
  (k = CAS -> c_zstd c = true -> 0 < sz) ->
  find_file (put_path c k hash sz rnd) (files d) = None ->
  (0 < sz -> sz <= maxs (lru d) /\ sz + res (lru d) <= maxs (lru d) /\
             (hard (lru d) <= 0 \/ cur (lru d) + qbytes (lru d) + sz <= hard (lru d))) ->
  roundUp4k (put_od c k sz st) <= maxs (lru d) ->
  res (lru d) + add_delta (lookup_key k hash) (put_item c k sz st rnd) (commit_index d sz) <= maxs (lru d) ->
  exists d', exec c d (RPut k hash sz st rnd) = (d', Some PutOk).
Proof.
  intros HI Hod HG HU HS Hz Hfresh Hspace Hfit1 Hfit2.
  assert (Hres : 0 < sz -> snd (LRU.reserve sz (lru d)) = Ok tt).
  { intros Hsz. destruct (Hspace Hsz) as (H1 & H2 & H3).
    apply (limit_admission sz (lru d) HI Hsz H1 H2). exact H3. }
  destruct (exec c d (RPut k hash sz st rnd)) as [d' r] eqn:E. exists d'. f_equal.
  destruct (put_cases _ _ _ _ _ _ _ _ _ HI Hod E)
    as [(Hn & _)|[(_ & Hs & _)|[(_ & _ & Hsz & e' & ER & _)|(_ & _ & _ &
        [(Hx & _)|(_ & [(EG & _)|(_ & l2 & r2 & EA & [(Hr2 & _)|(_ & Hr & _)])])])]]];
    try contradiction.
  - rewrite (Hres Hsz) in ER. discriminate.
  - rewrite (put_good_of c k sz st HU Hz) in EG. discriminate.
  - exfalso. destruct HG as [[Hsz0 _] _].
    destruct (commit_index_spec d sz HI Hres) as (HI1 & _ & Hr1 & Hm1 & _).
    pose proof (put_item_ok c k sz st rnd Hsz0 Hod) as Hit.
    assert (HA : snd (LRU.add (lookup_key k hash) (put_item c k sz st rnd) (commit_index d sz)) = Ok true).
    { apply add_ok; [exact HI1|exact Hit|rewrite Hm1; exact Hfit1|rewrite Hr1, Hm1; exact Hfit2]. }
    rewrite EA in HA. cbn in HA. congruence.
  - exact Hr.
Qed.

(* the same with the simpler (slightly stronger) space condition of [put_ack_present] *)
Corollary put_ack_complete_simple c d k hash sz st rnd :
  Inv (lru d) -> 0 <= st_ondisk st ->
  put_guards c hash sz -> upload_good c k sz st -> ~ empty_shortcut k hash sz ->
  (k = CAS -> c_zstd c = true -> 0 < sz) ->
  find_file (put_path c k hash sz rnd) (files d) = None ->
  (0 < sz -> sz <= maxs (lru d) /\ sz + res (lru d) <= maxs (lru d) /\
             (hard (lru d) <= 0 \/ cur (lru d) + qbytes (lru d) + sz <= hard (lru d))) ->
  res (lru d) + roundUp4k (put_od c k sz st) <= maxs (lru d) ->
  exists d', exec c d (RPut k hash sz st rnd) = (d', Some PutOk).
Proof.
  intros HI Hod HG HU HS Hz Hfresh Hspace Hfit.
  assert (Hres : 0 < sz -> snd (LRU.reserve sz (lru d)) = Ok tt).
  { intros Hsz. destruct (Hspace Hsz) as (H1 & H2 & H3).
    apply (limit_admission sz (lru d) HI Hsz H1 H2). exact H3. }
  assert (H0 : 0 <= res (lru d)) by (destruct HI as ([] & _); assumption).
  destruct HG as [[Hsz0 Hmb] Hlen].
  destruct (commit_index_spec d sz HI Hres) as (HI1 & _ & Hr1 & Hm1 & _).
  pose proof (add_delta_le (lookup_key k hash) (put_item c k sz st rnd) _ HI1) as Hd. cbn [sizeOnDisk put_item] in Hd.
  apply put_ack_complete; try assumption; [repeat split; assumption|lia|lia].
Qed.

(* C18: an upload above max_blob_size is refused with a client error and changes nothing at all *)
Theorem put_oversize_rejected c d k hash sz st rnd :
  sz > c_maxblob c -> exec c d (RPut k hash sz st rnd) = (d, Some (PutErr EBadRequest)).
Proof.
  intros H. rewrite exec_put_eq. unfold put_fun. destruct (sz <? 0); [reflexivity|].
  assert (E : (sz >? c_maxblob c) = true) by lia. rewrite E. reflexivity.
Qed.

(* C18: exactly when the upload is refused as a bad request *)
Theorem put_badrequest_iff c d k hash sz st rnd d' :
  Inv (lru d) -> 0 <= st_ondisk st ->
  (exec c d (RPut k hash sz st rnd) = (d', Some (PutErr EBadRequest)) <->
   d' = (if (0 <=? sz) && (sz <=? c_maxblob c) && (Z.of_nat (String.length hash) =? hashLen)
            && negb (kind_eqb k CAS && (sz =? 0) && String.eqb hash emptySha256)
         then mkD (reserved_index d sz) (files d) (handed d) else d) /\
   (sz < 0 \/ sz > c_maxblob c \/ Z.of_nat (String.length hash) <> hashLen \/
    (empty_shortcut k hash sz /\ 0 < st_len st) \/
    (~ empty_shortcut k hash sz /\ sz > maxs (lru d)))).
Proof.
  intros HI Hod. split.
  - intros H.
    destruct (put_cases _ _ _ _ _ _ _ _ _ HI Hod H)
      as [(Hn & -> & _)|[(HG & Hs & -> & [(_ & _ & Hr)|[(Hl & _)|(_ & _ & Hr)]])|[(HG & Hs & Hsz & e' & ER & -> & Hr)|(_ & _ & _ &
          [(_ & Hr & _)|(_ & [(_ & Hr & _)|(_ & l2 & r2 & _ & [(_ & Hr & _)|(_ & Hr & _)])])])]]];
      try discriminate.
    + unfold put_guards in Hn. split; [|lia].
      destruct ((0 <=? sz) && (sz <=? c_maxblob c) && (Z.of_nat (String.length hash) =? hashLen)) eqn:E;
        [exfalso; apply Hn; lia|reflexivity].
    + split; [|right; right; right; left; split; assumption].
      apply shortcut_iff in Hs. rewrite Hs. cbn [negb]. rewrite andb_false_r. reflexivity.
    + inversion Hr; subst e'. destruct (limit_error_classes sz (lru d) _ HI ER) as [(_ & Hc)|(Hc & _)]; [|discriminate].
      unfold put_guards in HG. split; [|right; right; right; right; split; [exact Hs|lia]].
      assert (E1 : (0 <=? sz) && (sz <=? c_maxblob c) && (Z.of_nat (String.length hash) =? hashLen) = true) by lia.
      rewrite E1. destruct (kind_eqb k CAS && (sz =? 0) && String.eqb hash emptySha256) eqn:E2;
        [apply shortcut_iff in E2; contradiction|reflexivity].
  - intros [Hd Hc]. rewrite exec_put_eq. unfold put_fun.
    destruct (sz <? 0) eqn:G1.
    { assert (E : (0 <=? sz) = false) by lia. rewrite E in Hd. cbn in Hd. subst. reflexivity. }
    destruct (sz >? c_maxblob c) eqn:G2.
    { assert (E : (sz <=? c_maxblob c) = false) by lia. rewrite E, andb_false_r in Hd. cbn in Hd. subst. reflexivity. }
    destruct (negb (Z.of_nat (String.length hash) =? hashLen)) eqn:G3.
    { apply negb_true_iff in G3. rewrite G3, andb_false_r in Hd. cbn in Hd. subst. reflexivity. }
    apply negb_false_iff in G3.
    assert (E1 : (0 <=? sz) && (sz <=? c_maxblob c) && (Z.of_nat (String.length hash) =? hashLen) = true) by lia.
    rewrite E1 in Hd. cbn [andb] in Hd.
    destruct (kind_eqb k CAS && (sz =? 0) && String.eqb hash emptySha256) eqn:G4.
    { cbn in Hd. subst d'. apply shortcut_iff in G4.
      destruct Hc as [Hc|[Hc|[Hc|[[_ Hc]|[Hc _]]]]]; try lia; try contradiction.
      assert (E : (st_len st >? 0) = true) by lia. rewrite E. reflexivity. }
    cbn [negb] in Hd. subst d'.
    assert (HS : ~ empty_shortcut k hash sz) by (intros Hx; apply shortcut_iff in Hx; congruence).
    destruct Hc as [Hc|[Hc|[Hc|[[Hc _]|[_ Hc]]]]]; try lia; try contradiction.
    assert (Hp : 0 < maxs (lru d)) by (destruct HI as (_ & _ & Hp); exact Hp).
    assert (G5 : (sz >? 0) = true) by lia. rewrite G5.
    unfold reserved_index. rewrite G5. rewrite (reserve_oversize sz (lru d) HI Hc). reflexivity.
Qed.

(* C18: at or below the limit the size guard itself passes: the first step refuses as a bad request
   exactly for a negative size, a size above max_blob_size, a malformed hash, data sent for the empty
   blob, or a reservation larger than the whole cache *)
Theorem put_start_badrequest_iff c d k hash sz st rnd d1 t1 :
  Inv (lru d) ->
  tstep c d (spawn (RPut k hash sz st rnd)) = Some (d1, t1) ->
  (t_pc t1 = Done (PutErr EBadRequest) <->
   (sz < 0 \/ sz > c_maxblob c \/ Z.of_nat (String.length hash) <> hashLen \/
    (empty_shortcut k hash sz /\ 0 < st_len st) \/
    (~ empty_shortcut k hash sz /\ sz > maxs (lru d)))).
Proof.
  intros HI. change (spawn (RPut k hash sz st rnd)) with (mkThread (RPut k hash sz st rnd) PutStart 0 None).
  rewrite tstep_put_start. cbv zeta.
  destruct (sz <? 0) eqn:G1. { intros H; inversion H; subst. cbn. split; [intros _; lia|reflexivity]. }
  destruct (sz >? c_maxblob c) eqn:G2. { intros H; inversion H; subst. cbn. split; [intros _; lia|reflexivity]. }
  destruct (negb (Z.of_nat (String.length hash) =? hashLen)) eqn:G3.
  { intros H; inversion H; subst. cbn. apply negb_true_iff in G3. split; [intros _; lia|reflexivity]. }
  apply negb_false_iff in G3.
  destruct (kind_eqb k CAS && (sz =? 0) && String.eqb hash emptySha256) eqn:G4.
  { apply shortcut_iff in G4. destruct (st_len st >? 0) eqn:G5; [|destruct (st_err st)]; intros H; inversion H; subst; cbn.
    - split; [intros _; right; right; right; left; split; [exact G4|lia]|reflexivity].
    - split; [discriminate|]. intros [Hc|[Hc|[Hc|[[_ Hc]|[Hc _]]]]]; try lia; contradiction.
    - split; [discriminate|]. intros [Hc|[Hc|[Hc|[[_ Hc]|[Hc _]]]]]; try lia; contradiction. }
  assert (HS : ~ empty_shortcut k hash sz) by (intros Hx; apply shortcut_iff in Hx; congruence).
  destruct (sz >? 0) eqn:G5.
  - destruct (LRU.reserve sz (lru d)) as [l' r0] eqn:ER.
    pose proof (limit_never_other sz (lru d) HI) as HN. rewrite ER in HN. cbn [snd] in HN.
    assert (ES : snd (LRU.reserve sz (lru d)) = r0) by (rewrite ER; reflexivity).
    destruct r0 as [[]|e|s|s]; try contradiction; intros H; inversion H; subst; cbn [t_pc errc_of].
    + split; [discriminate|]. intros [Hc|[Hc|[Hc|[[Hc _]|[_ Hc]]]]]; try lia; try contradiction.
      rewrite (reserve_oversize sz (lru d) HI Hc) in ER. discriminate.
    + destruct (limit_error_classes sz (lru d) _ HI ES) as [(-> & Hc)|(-> & Hc & _)].
      * split; [intros _; right; right; right; right; split; [exact HS|lia]|reflexivity].
      * split; [discriminate|]. intros [Hx|[Hx|[Hx|[[Hx _]|[_ Hx]]]]]; try lia; contradiction.
  - assert (Hp : 0 < maxs (lru d)) by (destruct HI as (_ & _ & Hp); exact Hp).
    intros H; inversion H; subst. cbn. split; [discriminate|].
    intros [Hc|[Hc|[Hc|[[Hc _]|[_ Hc]]]]]; try lia; contradiction.
Qed.

(* C12: the hand-off to the backend queue happens exactly once, when the file is complete and
   verified, before the commit (so also when the commit is then refused), never otherwise *)
Definition put_reaches_handoff (c : cfg) (d : dstate) (k : kind) (hash : string) (sz : Z) (st : stream) (rnd : string) : Prop :=
  put_guards c hash sz /\ ~ empty_shortcut k hash sz /\ (0 < sz -> snd (LRU.reserve sz (lru d)) = Ok tt) /\
  find_file (put_path c k hash sz rnd) (files d) = None /\ put_good c k sz st = true.

Theorem put_handoff c d k hash sz st rnd d' r :
  Inv (lru d) -> 0 <= st_ondisk st ->
  exec c d (RPut k hash sz st rnd) = (d', r) ->
  (put_reaches_handoff c d k hash sz st rnd /\ c_proxy c = true /\
   handed d' = handed d ++ [(lookup_key k hash, sz, put_od c k sz st)]) \/
  (~ (put_reaches_handoff c d k hash sz st rnd /\ c_proxy c = true) /\ handed d' = handed d).
Proof.
  intros HI Hod H. unfold put_reaches_handoff.
  destruct (put_cases _ _ _ _ _ _ _ _ _ HI Hod H)
    as [(Hn & -> & _)|[(_ & Hs & -> & _)|[(_ & _ & Hsz & e' & ER & -> & _)|(HG & HS & Hres &
        [(Hx & _ & ->)|(Hfresh & [(EG & _ & ->)|(EG & l2 & r2 & EA & [(_ & _ & ->)|(_ & _ & ->)])])])]]].
  - right. split; [tauto|reflexivity].
  - right. split; [tauto|reflexivity].
  - right. split; [|reflexivity]. intros ((_ & _ & Hr & _) & _). rewrite (Hr Hsz) in ER. discriminate.
  - right. split; [tauto|reflexivity].
  - right. split; [|reflexivity]. intros ((_ & _ & _ & _ & Hg) & _). congruence.
  - cbn [handed]. unfold handoff. destruct (c_proxy c).
    + left. conj; auto.
    + right. split; [intros (_ & Hc); discriminate|apply app_nil_r].
  - cbn [handed]. unfold handoff. destruct (c_proxy c).
    + left. conj; auto.
    + right. split; [intros (_ & Hc); discriminate|apply app_nil_r].
Qed.

(* an acknowledged upload (not the empty blob) was handed off exactly once when a backend is configured *)
Corollary put_ack_handoff c d k hash sz st rnd d' :
  Inv (lru d) -> 0 <= st_ondisk st ->
  exec c d (RPut k hash sz st rnd) = (d', Some PutOk) -> ~ empty_shortcut k hash sz ->
  handed d' = handed d ++ (if c_proxy c then [(lookup_key k hash, sz, put_od c k sz st)] else []).
Proof.
  intros HI Hod H HS.
  destruct (put_cases _ _ _ _ _ _ _ _ _ HI Hod H)
    as [(_ & _ & Hr)|[(_ & Hs & _)|[(_ & _ & _ & e & _ & _ & Hr)|(HG & _ & Hres &
        [(_ & Hr & _)|(Hfresh & [(_ & Hr & _)|(EG & l2 & r2 & EA & [(_ & Hr & _)|(_ & _ & ->)])])])]]];
    try discriminate; try contradiction.
  reflexivity.
Qed.

(* [put_ack_present] with the facts about the file spelled out *)
Corollary put_ack_present_file c d k hash sz st rnd d' :
  Inv (lru d) -> 0 <= st_ondisk st ->
  exec c d (RPut k hash sz st rnd) = (d', Some PutOk) ->
  ~ empty_shortcut k hash sz ->
  res (lru d) + roundUp4k (put_od c k sz st) <= maxs (lru d) ->
  peek (lookup_key k hash) (lru d') = Some (mkItem sz (put_od c k sz st) rnd (put_legacy c k)) /\
  (exists f, find_file (put_path c k hash sz rnd) (files d') = Some f /\
             f_complete f = true /\ f_cid f = st_cid st /\ f_len f = put_od c k sz st /\ f_logical f = sz) /\
  find_file (put_path c k hash sz rnd) (files d) = None /\
  Inv (lru d') /\ res (lru d') = res (lru d).
Proof.
  intros HI Hod H HS Hfit. destruct (put_ack_present _ _ _ _ _ _ _ _ HI Hod H HS Hfit) as (H1 & H2 & _ & H4 & H5 & H6).
  split; [exact H1|]. split; [|conj; assumption].
  exists (put_file_done c k hash sz st rnd). conj; try reflexivity. exact H2.
Qed.

(* the path the entry's file is looked up under is the path the upload wrote *)
Lemma is_cas_key_lookup_put k hash : is_cas_key (lookup_key k hash) = kind_eqb k CAS.
Proof. destruct k; destruct hash; reflexivity. Qed.

Lemma path_of_put_item c k hash sz st rnd :
  path_of (lookup_key k hash) (put_item c k sz st rnd) = put_path c k hash sz rnd.
Proof. unfold path_of, put_path, put_item. cbn [legacy size random]. rewrite is_cas_key_lookup_put. reflexivity. Qed.
