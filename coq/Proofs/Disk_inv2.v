(* Proofs/Disk_inv2.v — every step of every thread program (Model/Disk.v, [tstep]) has one of the
   effects of Disk_inv1.v and establishes the facts the next program counter relies on. *)
From Coq Require Import Permutation.
From BR Require Import Base.Prelude Model.LRU Proofs.LRU_inv Proofs.LRU_spec Model.Disk Proofs.Disk_inv1.
Open Scope Z_scope.

(* ------------------------------------------------------------------ *)
(* index operations as used by the thread programs *)

Lemma all_entries_perm l l' : Permutation (order l') (order l) -> evq l' = evq l ->
  Permutation (all_entries l') (all_entries l).
Proof. intros H1 H2. unfold all_entries. rewrite H2. apply Permutation_app_tail, Permutation_map, H1. Qed.

Record Touch (l l' : LRU.state) : Prop := mkTouch {
  to_inv : Inv l';
  to_res : res l' = res l;
  to_maxs : maxs l' = maxs l;
  to_ent : Permutation (all_entries l') (all_entries l) }.

Lemma touch_refl l : Inv l -> Touch l l.
Proof. intros H. constructor; auto. Qed.

Lemma touch_trans l1 l2 l3 : Touch l1 l2 -> Touch l2 l3 -> Touch l1 l3.
Proof. intros [A1 A2 A3 A4] [B1 B2 B3 B4]. constructor; [assumption|congruence|congruence|etransitivity; eassumption]. Qed.

Lemma get_touch k l l' g : Inv l -> LRU.get k l = (l', g) -> Touch l l'.
Proof.
  intros HI E. pose proof (get_spec k l HI) as H. rewrite E in H.
  destruct H as (H1 & H2 & H3 & _ & H5 & _ & H7 & _). constructor; auto. apply all_entries_perm; assumption.
Qed.

Lemma remove_element_touch id l l' : Inv l -> LRU.remove_element id l = Some l' -> Touch l l'.
Proof.
  intros HI E. destruct (remove_element_spec id l l' HI E) as (H1 & H2 & H3 & H4 & _). constructor; auto.
Qed.

Lemma fm_local_touch : forall b l l' r, Inv l -> fm_local l b = (l', r) -> Touch l l'.
Proof.
  induction b as [|[[h sz] bh] t IH]; intros l l' r HI E; simpl in E.
  - inversion E; subst. apply touch_refl, HI.
  - destruct ((sz =? 0) && String.eqb h emptySha256).
    + destruct (fm_local l t) as [l2 r2] eqn:E2. inversion E; subst. eapply IH; eassumption.
    + destruct (LRU.get (lookup_key CAS h) l) as [l1 g] eqn:E1.
      destruct (fm_local l1 t) as [l2 r2] eqn:E2. inversion E; subst.
      pose proof (get_touch _ _ _ _ HI E1) as T1.
      eapply touch_trans; [exact T1|]. eapply IH; [apply T1|exact E2].
Qed.

Lemma reserve_cases n s l' r : Inv s -> LRU.reserve n s = (l', r) ->
  Inv l' /\ maxs l' = maxs s /\ Permutation (all_entries l') (all_entries s) /\
  ((exists u, r = Ok u) /\ res l' = res s + n /\ 0 <= n \/ (forall u, r <> Ok u) /\ res l' = res s).
Proof.
  intros HI E. pose proof (reserve_spec n s HI) as H. rewrite E in H.
  destruct H as (H1 & H2 & _ & H4 & H5). repeat (split; [assumption|]).
  destruct H5 as [(-> & H6 & H7)|([-> | ->] & H6 & _)].
  - left. split; [eexists; reflexivity|auto].
  - right. split; [intros u; discriminate|exact H6].
  - right. split; [intros u; discriminate|exact H6].
Qed.

(* returning a reservation this thread holds never fails *)
Lemma unreserve_held h s l1 r1 : Inv s -> 0 <= h <= res s -> LRU.unreserve h s = (l1, r1) ->
  r1 = Ok tt /\ Inv l1 /\ res l1 = res s - h /\ maxs l1 = maxs s /\ all_entries l1 = all_entries s.
Proof.
  intros HI Hh E. pose proof (unreserve_ok h s Hh (inv_res_le_cur s HI)) as Hok.
  pose proof (unreserve_inv h s HI) as HI1. pose proof (unreserve_spec h s) as HS.
  rewrite E in *. simpl in *. subst r1. destruct HS as (H1 & _ & H3 & H4 & H5).
  split; [reflexivity|]. split; [exact HI1|].
  destruct H5 as [(_ & H5 & _)|(H5 & _)]; [|discriminate].
  repeat split; auto. unfold all_entries. rewrite H3, H4. reflexivity.
Qed.

Lemma is_cas_lookup_key k h : is_cas_key (lookup_key k h) = kind_eqb k CAS.
Proof. destruct k; destruct h; reflexivity. Qed.

Lemma commit_path c k hash sz od rnd :
  path_of (lookup_key k hash) (mkItem sz od rnd (kind_eqb k CAS && negb (c_zstd c))) = tmp_path c k hash sz rnd.
Proof. unfold path_of, tmp_path. simpl. rewrite is_cas_lookup_key. reflexivity. Qed.

(* ------------------------------------------------------------------ *)
(* effects *)

Lemma eff_goto d t pc' : Inv (lru d) -> 0 <= t_held t -> quiet t (goto t pc') -> Effect d t d (goto t pc').
Proof. intros. apply EIndex; simpl; auto; lia. Qed.

Lemma eff_touch d t l' pc' : Touch (lru d) l' -> 0 <= t_held t -> quiet t (goto t pc') ->
  Effect d t (set_lru l' d) (goto t pc').
Proof. intros [H1 H2 H3 H4] Hh Hq. apply EIndex; simpl; auto; lia. Qed.

(* the shape shared by PutCommit and GetCommit *)
Definition commit_step (d : dstate) (t : thread) (key : string) (v : item) (ra rb rc : response)
  : option (dstate * thread) :=
  let '(l1, r1) := if t_held t >? 0 then LRU.unreserve (t_held t) (lru d) else (lru d, Ok tt) in
  match r1 with
  | Ok _ =>
      let '(l2, r2) := LRU.add key v l1 in
      match r2 with
      | Ok true => Some (set_lru l2 d, mkThread (t_req t) (Cleanup ra) 0 None)
      | _ => Some (set_lru l2 d, mkThread (t_req t) (Cleanup rb) 0 (t_tmp t))
      end
  | _ => Some (set_lru l1 d, finish t rc)
  end.

Lemma commit_effect d t key v ra rb rc p d' t' :
  commit_step d t key v ra rb rc = Some (d', t') ->
  Inv (lru d) -> 0 <= t_held t <= res (lru d) -> item_ok v ->
  t_tmp t = Some p -> path_of key v = p -> file_ready (files d) p (sizeOnDisk v) ->
  quiet t (mkThread (t_req t) (Cleanup rb) 0 (t_tmp t)) -> quiet t (finish t rc) ->
  (exists cid, commit_of t (mkThread (t_req t) (Cleanup ra) 0 None) = Some (key, cid, size v, sizeOnDisk v)) ->
  created_of t (mkThread (t_req t) (Cleanup ra) 0 None) = [] ->
  Effect d t d' t' /\ (exists r, t_pc t' = Cleanup r) /\ t_req t' = t_req t.
Proof.
  intros H HI Hh Hv Htmp Hp Hf Hqb Hqc Hca Hna. unfold commit_step in H.
  assert (HU : exists l1, (if t_held t >? 0 then LRU.unreserve (t_held t) (lru d) else (lru d, Ok tt)) = (l1, Ok tt)
               /\ Inv l1 /\ res l1 = res (lru d) - t_held t /\ maxs l1 = maxs (lru d)
               /\ all_entries l1 = all_entries (lru d)).
  { destruct (t_held t >? 0) eqn:E.
    - destruct (LRU.unreserve (t_held t) (lru d)) as [l1 r1] eqn:EU.
      destruct (unreserve_held _ _ _ _ HI Hh EU) as (-> & H1). exists l1. split; [reflexivity|exact H1].
    - exists (lru d). split; [reflexivity|]. split; [exact HI|]. split; [lia|]. split; reflexivity. }
  destruct HU as (l1 & EU & HI1 & Hr1 & Hm1 & He1). rewrite EU in H.
  destruct (LRU.add key v l1) as [l2 r2] eqn:EA.
  destruct (add_spec key v l1 l2 r2 HI1 Hv EA) as (HI2 & Hr2 & Hm2 & _ & Hcase).
  destruct Hcase as [(-> & Ho & Hq & _)|(-> & HP)].
  - inversion H; subst d' t'. split; [|split; [eexists; reflexivity|reflexivity]].
    apply EIndex; try assumption; simpl; auto; try lia; try congruence.
    rewrite <- He1. unfold all_entries. rewrite Ho, Hq. reflexivity.
  - inversion H; subst d' t'. split; [|split; [eexists; reflexivity|reflexivity]].
    apply (ECommit _ _ _ _ p (mkEntry key v)); try assumption; simpl; auto; try lia; try congruence.
Qed.

(* ------------------------------------------------------------------ *)
(* the thread programs, one program counter at a time *)

Definition StepOk (c : cfg) (d : dstate) (t : thread) : Prop :=
  forall d' t', tstep c d t = Some (d', t') ->
  Inv (lru d) -> 0 <= t_held t <= res (lru d) -> thread_ok c (files d) t ->
  Effect d t d' t' /\ thread_ok c (files d') t'.

Lemma some_pair_inj {A B} (a a' : A) (b b' : B) : Some (a, b) = Some (a', b') -> a = a' /\ b = b'.
Proof. intros H. inversion H. auto. Qed.
Ltac inv H := apply some_pair_inj in H; destruct H as [<- <-].
Ltac split_ifs H := repeat match type of H with (if ?b then _ else _) = _ => destruct b eqn:? end.
Ltac ok_idle := solve [split; [assumption | unfold pc_ok, idle; simpl; auto]].
Ltac qt := solve [split; reflexivity].
Ltac by_goto H := solve [inv H; split; [apply eff_goto; [assumption | simpl; lia | qt] | ok_idle]].
Ltac rewrite_eff := match goal with |- Effect _ _ ?d' _ =>
  match d' with context [put_file ?f _] => apply (ERewrite _ _ _ _ f) end end.
Ltac by_touch H T := solve [inv H; split; [apply eff_touch; [exact T | simpl; lia | qt] | ok_idle]].

Lemma step_PutStart c d k hash sz st rnd h tmp :
  StepOk c d (mkThread (RPut k hash sz st rnd) PutStart h tmp).
Proof.
  intros d' t' H HI Hh [Hr [Hp1 Hp2]]. simpl in Hr, Hp1, Hp2, Hh. subst h tmp.
  unfold tstep in H. simpl in H. split_ifs H; try (by_goto H).
  - destruct (reserve sz (lru d)) as [l' r] eqn:ER.
    destruct (reserve_cases _ _ _ _ HI ER) as (HI' & Hm & HP & Hc).
    destruct Hc as [((u & ->) & Hres & Hn)|(Hne & Hres)].
    + inv H. split; [apply EIndex; try qt; simpl; auto; lia|].
      split; [exact Hr|unfold pc_ok; simpl; split; [reflexivity|lia]].
    + destruct r as [u|e|s|s]; [exfalso; exact (Hne u eq_refl)| | |];
        (inv H; split; [apply EIndex; try qt; simpl; auto; lia|ok_idle]).
  - inv H. split; [apply eff_goto; [assumption|simpl; lia|qt]|].
    split; [exact Hr|unfold pc_ok; simpl; split; [reflexivity|lia]].
Qed.

Lemma step_PutCreate c d k hash sz st rnd h tmp :
  StepOk c d (mkThread (RPut k hash sz st rnd) PutCreate h tmp).
Proof.
  intros d' t' H HI Hh [Hr [Hp1 Hp2]]. simpl in Hr, Hp1, Hp2, Hh. subst tmp.
  unfold tstep in H. simpl in H.
  match type of H with match ?x with _ => _ end = _ => destruct x eqn:EF end; [discriminate|].
  inv H. split.
  - match goal with |- Effect _ _ (set_files (put_file ?f _) _) _ => apply (ECreate _ _ _ _ f) end;
      simpl; auto. apply put_file_fresh. exact EF.
  - split; [exact Hr|]. unfold pc_ok; simpl. split; [reflexivity|lia].
Qed.

Lemma step_PutWrite c d k hash sz st rnd h tmp :
  StepOk c d (mkThread (RPut k hash sz st rnd) PutWrite h tmp).
Proof.
  intros d' t' H HI Hh [Hr [Hp1 Hp2]]. simpl in Hr, Hp1, Hp2, Hh. subst tmp.
  unfold tstep in H. simpl in H. inv H. split.
  - rewrite_eff; simpl; try reflexivity; qt.
  - split; [exact Hr|]. unfold pc_ok; simpl. split; [reflexivity|lia].
Qed.

Lemma step_PutFinish c d k hash sz st rnd h tmp :
  StepOk c d (mkThread (RPut k hash sz st rnd) PutFinish h tmp).
Proof.
  intros d' t' H HI Hh [Hr [Hp1 Hp2]]. simpl in Hr, Hp1, Hp2, Hh. subst tmp.
  unfold tstep in H. simpl in H. split_ifs H.
  - inv H. split.
    + rewrite_eff; destruct (c_proxy c); simpl; try reflexivity; qt.
    + split; [exact Hr|]. unfold pc_ok; simpl. split; [reflexivity|]. split; [lia|].
      split; [destruct (kind_eqb k CAS && c_zstd c); lia|].
      eexists. split; [destruct (c_proxy c); simpl; rewrite path_eqb_refl; reflexivity|]. split; reflexivity.
  - inv H. split; [apply eff_goto; [assumption|simpl; lia|qt]|]. split; [exact Hr|exact I].
Qed.

Lemma step_PutCommit c d k hash sz st rnd h tmp od :
  StepOk c d (mkThread (RPut k hash sz st rnd) (PutCommit od) h tmp).
Proof.
  intros d' t' H HI Hh [Hr (Hp1 & Hp2 & Hp3 & Hp4)]. simpl in Hr, Hp1, Hp2, Hp3, Hp4, Hh.
  change (tstep c d (mkThread (RPut k hash sz st rnd) (PutCommit od) h tmp))
    with (commit_step d (mkThread (RPut k hash sz st rnd) (PutCommit od) h tmp) (lookup_key k hash)
            (mkItem sz od rnd (kind_eqb k CAS && negb (c_zstd c))) PutOk (PutErr EInternal) (PutErr EInternal)) in H.
  destruct (commit_effect _ _ _ _ _ _ _ (tmp_path c k hash sz rnd) _ _ H HI Hh) as (HE & (r & Hpc) & Hreq); auto.
  - split; simpl; lia.
  - apply commit_path.
  - qt.
  - qt.
  - eexists; reflexivity.
  - split; [exact HE|]. destruct t' as [req' pc' h' tmp']. simpl in Hpc, Hreq. subst.
    split; [exact Hr|exact I].
Qed.

Lemma step_GetStart c d k hash sz off zstd b rnd h tmp :
  StepOk c d (mkThread (RGet k hash sz off zstd b rnd) GetStart h tmp).
Proof.
  intros d' t' H HI Hh [Hr [Hp1 Hp2]]. simpl in Hr, Hp1, Hp2, Hh. subst h tmp.
  unfold tstep in H. simpl in H. split_ifs H; try (by_goto H).
  destruct (LRU.get (lookup_key k hash) (lru d)) as [l' g] eqn:EG.
  pose proof (get_touch _ _ _ _ HI EG) as T.
  destruct g as [[v id]|]; split_ifs H; by_touch H T.
Qed.

Lemma step_GetOpen c d k hash sz off zstd b rnd h tmp v id :
  StepOk c d (mkThread (RGet k hash sz off zstd b rnd) (GetOpen v id) h tmp).
Proof.
  intros d' t' H HI Hh [Hr [Hp1 Hp2]]. simpl in Hr, Hp1, Hp2, Hh. subst h tmp.
  unfold tstep in H. simpl in H.
  match type of H with match ?x with _ => _ end = _ => destruct x eqn:EF end; by_goto H.
Qed.

Lemma step_GetSlow c d k hash sz off zstd b rnd h tmp :
  StepOk c d (mkThread (RGet k hash sz off zstd b rnd) GetSlow h tmp).
Proof.
  intros d' t' H HI Hh [Hr [Hp1 Hp2]]. simpl in Hr, Hp1, Hp2, Hh. subst h tmp.
  unfold tstep in H. simpl in H.
  destruct (LRU.get (lookup_key k hash) (lru d)) as [l' g] eqn:EG.
  pose proof (get_touch _ _ _ _ HI EG) as T.
  destruct g as [[v id]|]; [|by_touch H T].
  match type of H with match ?x with _ => _ end = _ => destruct x eqn:EF end; [by_touch H T|].
  destruct (LRU.remove_element id l') as [l2|] eqn:ER; [|by_touch H T].
  pose proof (remove_element_touch _ _ _ (to_inv _ _ T) ER) as T2.
  pose proof (touch_trans _ _ _ T T2) as T3. by_touch H T3.
Qed.

Lemma step_GetValidate c d k hash sz off zstd b rnd h tmp v id f :
  StepOk c d (mkThread (RGet k hash sz off zstd b rnd) (GetValidate v id f) h tmp).
Proof.
  intros d' t' H HI Hh [Hr [Hp1 Hp2]]. simpl in Hr, Hp1, Hp2, Hh. subst h tmp.
  unfold tstep in H. simpl in H. split_ifs H; by_goto H.
Qed.

Lemma step_GetDrop c d k hash sz off zstd b rnd h tmp v id :
  StepOk c d (mkThread (RGet k hash sz off zstd b rnd) (GetDrop v id) h tmp).
Proof.
  intros d' t' H HI Hh [Hr [Hp1 Hp2]]. simpl in Hr, Hp1, Hp2, Hh. subst h tmp.
  unfold tstep in H. simpl in H.
  destruct (find_key (lookup_key k hash) (order (lru d))) as [e|]; [|by_goto H].
  split_ifs H; [|by_goto H].
  destruct (LRU.remove_element id (lru d)) as [l2|] eqn:ER; [|by_goto H].
  pose proof (remove_element_touch _ _ _ HI ER) as T2. by_touch H T2.
Qed.

Lemma step_GetProxyDecide c d k hash sz off zstd b rnd h tmp lm :
  StepOk c d (mkThread (RGet k hash sz off zstd b rnd) (GetProxyDecide lm) h tmp).
Proof.
  intros d' t' H HI Hh [Hr [Hp1 Hp2]]. simpl in Hr, Hp1, Hp2, Hh. subst h tmp.
  unfold tstep in H. simpl in H. split_ifs H; try (by_goto H).
  destruct (reserve sz (lru d)) as [l' r] eqn:ER.
  destruct (reserve_cases _ _ _ _ HI ER) as (HI' & Hm & HP & Hc).
  destruct Hc as [((u & ->) & Hres & Hn)|(Hne & Hres)].
  - inv H. split; [apply EIndex; try qt; simpl; auto; lia|]. split; [exact Hr|reflexivity].
  - destruct r as [u|e|s|s]; [exfalso; exact (Hne u eq_refl)| | |];
      (inv H; split; [apply EIndex; try qt; simpl; auto; lia|ok_idle]).
Qed.

Lemma step_GetFetch c d k hash sz off zstd b rnd h tmp :
  StepOk c d (mkThread (RGet k hash sz off zstd b rnd) GetFetch h tmp).
Proof.
  intros d' t' H HI Hh [Hr Hp]. unfold pc_ok in Hp. simpl in Hr, Hp, Hh. subst tmp.
  unfold tstep in H. simpl in H. destruct b as [| |cl full dl berr cid lg]; try (by_goto H).
  split_ifs H; try (by_goto H).
  inv H. split; [apply eff_goto; [assumption|simpl; lia|qt]|]. split; [exact Hr|].
  unfold pc_ok; simpl. split; [reflexivity|].
  match goal with E : (_ || (cl <? 0)) = false |- _ => apply orb_false_iff in E; destruct E as [_ E] end. lia.
Qed.

Lemma step_GetCreate c d k hash sz off zstd b rnd h tmp cl :
  StepOk c d (mkThread (RGet k hash sz off zstd b rnd) (GetCreate cl) h tmp).
Proof.
  intros d' t' H HI Hh [Hr [Hp1 Hp2]]. simpl in Hr, Hp1, Hp2, Hh. subst tmp.
  unfold tstep in H. simpl in H. destruct b as [| |cl0 full dl berr cid lg]; try (by_goto H).
  match type of H with match ?x with _ => _ end = _ => destruct x eqn:EF end; [discriminate|].
  inv H. split.
  - match goal with |- Effect _ _ (set_files (put_file ?f _) _) _ => apply (ECreate _ _ _ _ f) end;
      simpl; auto. apply put_file_fresh. exact EF.
  - split; [exact Hr|]. unfold pc_ok; simpl. split; [reflexivity|lia].
Qed.

Lemma step_GetCopy c d k hash sz off zstd b rnd h tmp cl :
  StepOk c d (mkThread (RGet k hash sz off zstd b rnd) (GetCopy cl) h tmp).
Proof.
  intros d' t' H HI Hh [Hr [Hp1 Hp2]]. simpl in Hr, Hp1, Hp2, Hh. subst tmp.
  unfold tstep in H. simpl in H. destruct b as [| |cl0 full dl berr cid lg]; try (by_goto H).
  destruct berr; inv H.
  - split; [rewrite_eff; simpl; try reflexivity; qt|]. split; [exact Hr|exact I].
  - split; [rewrite_eff; simpl; try reflexivity; qt|]. split; [exact Hr|].
    unfold pc_ok; simpl. split; [reflexivity|lia].
Qed.

Lemma step_GetCheck c d k hash sz off zstd b rnd h tmp cl :
  StepOk c d (mkThread (RGet k hash sz off zstd b rnd) (GetCheck cl) h tmp).
Proof.
  intros d' t' H HI Hh [Hr [Hp1 Hp2]]. simpl in Hr, Hp1, Hp2, Hh. subst tmp.
  unfold tstep in H. simpl in H. destruct b as [| |cl0 full dl berr cid lg]; try (by_goto H).
  split_ifs H; try (by_goto H);
    (inv H; split; [rewrite_eff; simpl; try reflexivity; qt|]; split; [exact Hr|];
     unfold pc_ok; simpl; split; [reflexivity|]; split; [lia|]; split; [lia|];
     eexists; split; [simpl; rewrite path_eqb_refl; reflexivity|split; reflexivity]).
Qed.

Lemma step_GetCommit c d k hash sz off zstd b rnd h tmp cl od f :
  StepOk c d (mkThread (RGet k hash sz off zstd b rnd) (GetCommit cl od f) h tmp).
Proof.
  intros d' t' H HI Hh [Hr (Hp1 & Hp2 & Hp3 & Hp4)]. simpl in Hr, Hp1, Hp2, Hp3, Hp4, Hh.
  change (tstep c d (mkThread (RGet k hash sz off zstd b rnd) (GetCommit cl od f) h tmp))
    with (commit_step d (mkThread (RGet k hash sz off zstd b rnd) (GetCommit cl od f) h tmp) (lookup_key k hash)
            (mkItem cl od rnd (kind_eqb k CAS && negb (c_zstd c)))
            (GetHit cl (f_cid f) (f_len f)) (GetErr EInternal) (GetErr EInternal)) in H.
  destruct (commit_effect _ _ _ _ _ _ _ (tmp_path c k hash cl rnd) _ _ H HI Hh) as (HE & (r & Hpc) & Hreq); auto.
  - split; simpl; lia.
  - apply commit_path.
  - qt.
  - qt.
  - eexists; reflexivity.
  - split; [exact HE|]. destruct t' as [req' pc' h' tmp']. simpl in Hpc, Hreq. subst.
    split; [exact Hr|exact I].
Qed.

Lemma step_HasStart c d k hash sz b h tmp :
  StepOk c d (mkThread (RContains k hash sz b) HasStart h tmp).
Proof.
  intros d' t' H HI Hh [Hr [Hp1 Hp2]]. simpl in Hr, Hp1, Hp2, Hh. subst h tmp.
  unfold tstep in H. simpl in H. split_ifs H; try (by_goto H).
  destruct (LRU.get (lookup_key k hash) (lru d)) as [l' g] eqn:EG.
  pose proof (get_touch _ _ _ _ HI EG) as T.
  destruct g as [[v id]|]; split_ifs H; by_touch H T.
Qed.

Lemma step_HasProxy c d k hash sz b h tmp :
  StepOk c d (mkThread (RContains k hash sz b) HasProxy h tmp).
Proof.
  intros d' t' H HI Hh [Hr [Hp1 Hp2]]. simpl in Hr, Hp1, Hp2, Hh. subst h tmp.
  unfold tstep in H. simpl in H. split_ifs H; try (by_goto H).
  destruct b; split_ifs H; by_goto H.
Qed.

Lemma step_FMBatch c d ds bs ff h tmp todo acc :
  StepOk c d (mkThread (RFindMissing ds bs ff) (FMBatch todo acc) h tmp).
Proof.
  intros d' t' H HI Hh [Hr [Hp1 Hp2]]. simpl in Hr, Hp1, Hp2, Hh. subst h tmp.
  unfold tstep in H. cbn [t_pc t_req] in H.
  destruct todo as [|x todo]; [by_goto H|].
  destruct (firstn_batch batchSize (x :: todo)) as [batch rest].
  destruct (fm_local (lru d) batch) as [l' rs] eqn:EF.
  pose proof (fm_local_touch _ _ _ _ HI EF) as T.
  split_ifs H; by_touch H T.
Qed.

Lemma step_FMProxy c d ds bs ff h tmp slots todo acc :
  StepOk c d (mkThread (RFindMissing ds bs ff) (FMProxy slots todo acc) h tmp).
Proof.
  intros d' t' H HI Hh [Hr [Hp1 Hp2]]. simpl in Hr, Hp1, Hp2, Hh. subst h tmp.
  unfold tstep in H. cbn [t_pc t_req] in H. split_ifs H; by_goto H.
Qed.

Lemma step_Cleanup c d req r h tmp : StepOk c d (mkThread req (Cleanup r) h tmp).
Proof.
  intros d' t' H HI Hh [Hr _]. simpl in Hr, Hh.
  assert (H' : (match tmp with
      | Some p => Some (set_files (remove_file p (files d)) d, mkThread req (Cleanup r) h None)
      | None =>
          if h >? 0 then
            let '(l', ur) := LRU.unreserve h (lru d) in
            match ur with
            | Ok _ => Some (set_lru l' d, mkThread req (Done r) 0 None)
            | _ => Some (set_lru l' d, mkThread req (Done (match r with PutOk | PutErr _ => PutErr EInternal | _ => GetErr EInternal end)) 0 None)
            end
          else Some (d, goto (mkThread req (Cleanup r) h tmp) (Done r))
      end) = Some (d', t')).
  { rewrite <- H. destruct req; reflexivity. }
  clear H. destruct tmp as [p|].
  - inv H'. split; [apply (ERemove _ _ _ _ p); try reflexivity; qt|]. split; [exact Hr|exact I].
  - destruct (h >? 0) eqn:Eh.
    + destruct (LRU.unreserve h (lru d)) as [l1 r1] eqn:EU.
      destruct (unreserve_held _ _ _ _ HI Hh EU) as (-> & HI1 & Hr1 & Hm1 & He1).
      inv H'. split; [|ok_idle]. apply EIndex; try qt; simpl; auto; try lia. rewrite He1. reflexivity.
    + inv H'. split; [apply eff_goto; [assumption|simpl; lia|qt]|].
      split; [exact Hr|]. unfold pc_ok, idle; simpl. split; [lia|reflexivity].
Qed.

Theorem tstep_effect c d t : StepOk c d t.
Proof.
  destruct t as [req pc h tmp].
  destruct pc; try apply step_Cleanup;
    destruct req;
    try (intros d' t' H; unfold tstep in H; cbn [t_pc t_req] in H; discriminate H).
  - apply step_PutStart.
  - apply step_PutCreate.
  - apply step_PutWrite.
  - apply step_PutFinish.
  - apply step_PutCommit.
  - apply step_GetStart.
  - apply step_GetOpen.
  - apply step_GetSlow.
  - apply step_GetValidate.
  - apply step_GetDrop.
  - apply step_GetProxyDecide.
  - apply step_GetFetch.
  - apply step_GetCreate.
  - apply step_GetCopy.
  - apply step_GetCheck.
  - apply step_GetCommit.
  - apply step_HasStart.
  - apply step_HasProxy.
  - apply step_FMBatch.
  - apply step_FMProxy.
Qed.
