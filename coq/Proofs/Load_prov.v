(* Proofs/Load_prov.v — provenance: start-up never invents or alters a file.  Every file the scan
   reports has the size, access time and content of a file of the original directory whose name
   it extends (by nothing, or by a migration suffix). *)
From BR Require Import Base.Prelude Model.LRU Model.Names Model.Load Proofs.Names_strings.
Open Scope Z_scope.
Open Scope list_scope.

Definition meta (f : file) : Z * Z * Z := (f_size f, f_atime f, f_cid f).
Definition derived (g x : file) : Prop := meta x = meta g /\ exists s, f_name x = (f_name g ++ s)%string.

Fixpoint leaf_files (c : list leafent) : list file :=
  match c with [] => [] | LF f :: r => f :: leaf_files r | LD _ :: r => leaf_files r end.
Fixpoint sub_files (l : list subent) : list file :=
  match l with [] => [] | SF f :: r => f :: sub_files r | SD _ c :: r => leaf_files c ++ sub_files r end.
Fixpoint tree_files (t : tree) : list file :=
  match t with [] => [] | TF f :: r => f :: tree_files r | TD _ l :: r => sub_files l ++ tree_files r end.

Definition from_orig (orig fs : list file) : Prop := Forall (fun x => exists g, In g orig /\ derived g x) fs.

Lemma derived_refl g : derived g g.
Proof. split; [reflexivity|]. exists ""%string. symmetry. apply app_nil_r_s. Qed.

Lemma derived_rename g f n s : derived g f -> n = (f_name f ++ s)%string ->
  derived g (mkFile n (f_size f) (f_atime f) (f_cid f)).
Proof.
  intros [Hm (s0 & Hn)] ->. split; [exact Hm|]. exists (s0 ++ s)%string. simpl. rewrite Hn. apply app_assoc_s.
Qed.

Lemma from_orig_incl orig a b : incl a b -> from_orig orig b -> from_orig orig a.
Proof. unfold from_orig. rewrite !Forall_forall. intros Hi H x Hx. apply H, Hi, Hx. Qed.

Definition ent_files (e : leafent) : list file := match e with LF f => [f] | LD _ => [] end.

Lemma leaf_put_files e : forall c c', leaf_put e c = Some c' -> incl (leaf_files c') (ent_files e ++ leaf_files c).
Proof.
  induction c as [|x r IH]; simpl; intros c' H.
  - inversion H; subst. destruct e; simpl; apply incl_refl.
  - destruct (String.eqb (leaf_name x) (leaf_name e)).
    + destruct (same_sort x e) eqn:Es; [|discriminate]. inversion H; subst.
      destruct x, e; simpl in *; try discriminate.
      * intros y [<-|Hy]; [left; reflexivity|right; right; exact Hy].
      * apply incl_refl.
    + destruct (leaf_put e r) as [r'|] eqn:E; [|discriminate]. inversion H; subst.
      specialize (IH r' eq_refl). destruct x as [g|n]; simpl.
      * intros y [<-|Hy]; [apply in_or_app; right; left; reflexivity|].
        apply in_or_app. apply IH in Hy. apply in_app_or in Hy as [Hy|Hy]; [left; exact Hy|right; right; exact Hy].
      * exact IH.
Qed.

Lemma sub_put_files sub e : forall l l', sub_put sub e l = Some l' -> incl (sub_files l') (ent_files e ++ sub_files l).
Proof.
  induction l as [|x r IH]; simpl; intros l' H.
  - destruct (is_hex2 sub); [|discriminate]. inversion H; subst. destruct e; simpl; apply incl_refl.
  - destruct (String.eqb (sub_name x) sub).
    + destruct x as [g|n c]; [discriminate|]. destruct (leaf_put e c) as [c'|] eqn:E; [|discriminate].
      inversion H; subst. simpl. intros y Hy. apply in_or_app. apply in_app_or in Hy as [Hy|Hy].
      * apply (leaf_put_files e c c' E) in Hy. apply in_app_or in Hy as [Hy|Hy]; [left; exact Hy|right; apply in_or_app; left; exact Hy].
      * right. apply in_or_app. right. exact Hy.
    + destruct (sub_put sub e r) as [r'|] eqn:E; [|discriminate]. inversion H; subst.
      specialize (IH r' eq_refl). destruct x as [g|n c]; simpl.
      * intros y [<-|Hy]; [apply in_or_app; right; left; reflexivity|].
        apply in_or_app. apply IH in Hy. apply in_app_or in Hy as [Hy|Hy]; [left; exact Hy|right; right; exact Hy].
      * intros y Hy. apply in_or_app. apply in_app_or in Hy as [Hy|Hy]; [right; apply in_or_app; left; exact Hy|].
        apply IH in Hy. apply in_app_or in Hy as [Hy|Hy]; [left; exact Hy|right; apply in_or_app; right; exact Hy].
Qed.

Lemma top_put_files d sub e : forall t t', top_put d sub e t = Some t' -> incl (tree_files t') (ent_files e ++ tree_files t).
Proof.
  induction t as [|x r IH]; simpl; intros t' H; [discriminate|].
  destruct (String.eqb (top_name x) d).
  - destruct x as [g|n c]; [discriminate|]. destruct (sub_put sub e c) as [c'|] eqn:E; [|discriminate].
    inversion H; subst. simpl. intros y Hy. apply in_or_app. apply in_app_or in Hy as [Hy|Hy].
    + apply (sub_put_files sub e c c' E) in Hy. apply in_app_or in Hy as [Hy|Hy]; [left; exact Hy|right; apply in_or_app; left; exact Hy].
    + right. apply in_or_app. right. exact Hy.
  - destruct (top_put d sub e r) as [r'|] eqn:E; [|discriminate]. inversion H; subst.
    specialize (IH r' eq_refl). destruct x as [g|n c]; simpl.
    + intros y [<-|Hy]; [apply in_or_app; right; left; reflexivity|].
      apply in_or_app. apply IH in Hy. apply in_app_or in Hy as [Hy|Hy]; [left; exact Hy|right; right; exact Hy].
    + intros y Hy. apply in_or_app. apply in_app_or in Hy as [Hy|Hy]; [right; apply in_or_app; left; exact Hy|].
      apply IH in Hy. apply in_app_or in Hy as [Hy|Hy]; [left; exact Hy|right; apply in_or_app; right; exact Hy].
Qed.

Lemma from_orig_put orig d sub e n t t' :
  from_orig orig (tree_files t) -> from_orig orig (ent_files e) ->
  (forall f, e = LF f -> exists s, n = (f_name f ++ s)%string) ->
  top_put d sub (rename_leaf e n) t = Some t' ->
  from_orig orig (tree_files t').
Proof.
  intros Ht He Hn Hp. eapply from_orig_incl; [apply (top_put_files _ _ _ _ _ Hp)|].
  apply Forall_app. split; [|exact Ht].
  destruct e as [f|m]; simpl; [|constructor].
  inversion He as [|? ? (g & Hg & Hd) _]; subst. destruct (Hn f eq_refl) as [s Hs].
  constructor; [|constructor]. exists g. split; [exact Hg|]. eapply derived_rename; eassumption.
Qed.

Lemma leaf_files_cons e r : leaf_files (e :: r) = ent_files e ++ leaf_files r.
Proof. destruct e; reflexivity. Qed.

Lemma migrate_v1_prov orig k d : forall content t,
  from_orig orig (leaf_files content) -> from_orig orig (tree_files t) ->
  from_orig orig (tree_files (migrate_v1 k d content t)).
Proof.
  induction content as [|e r IH]; intros t Hc Ht; [exact Ht|].
  rewrite leaf_files_cons in Hc. apply Forall_app in Hc as [He Hr]. simpl.
  destruct (is_hash (leaf_name e)).
  - destruct (top_put (kind_dir k) d (rename_leaf e (v1_target_name k (leaf_name e))) t) as [t'|] eqn:E; [|exact Ht].
    apply IH; [exact Hr|]. eapply from_orig_put; try eassumption.
    intros f ->. eexists. unfold v1_target_name. reflexivity.
  - destruct (is_dsstore (leaf_name e)); [apply IH; assumption|exact Ht].
Qed.

Lemma migrate_items_prov orig k : forall items t t',
  from_orig orig (sub_files items) -> from_orig orig (tree_files t) ->
  migrate_items k items t = Ok t' -> from_orig orig (tree_files t').
Proof.
  induction items as [|x r IH]; simpl; intros t t' Hi Ht H; [inversion H; subst; exact Ht|].
  destruct x as [f|n content].
  - inversion Hi as [|? ? Hf Hr]; subst.
    destruct (is_hash (f_name f)); [|eapply IH; eassumption].
    destruct (top_put (kind_dir k) (take2 (f_name f)) _ t) as [t1|] eqn:E; [|discriminate].
    eapply IH; [exact Hr| |exact H].
    eapply (from_orig_put orig _ _ (LF f)); try eassumption.
    + constructor; [exact Hf|constructor].
    + intros f0 Hf0. inversion Hf0; subst. eexists. unfold v0_target_name. reflexivity.
  - apply Forall_app in Hi as [Hc Hr].
    destruct (String.length n <? 2)%nat; [discriminate|].
    eapply IH; [exact Hr| |exact H]. apply migrate_v1_prov; assumption.
Qed.

Lemma tree_files_find n t x l : find_top n t = Some (TD x l) -> incl (sub_files l) (tree_files t).
Proof.
  unfold find_top. induction t as [|y r IH]; simpl; [discriminate|].
  destruct (String.eqb (top_name y) n).
  - intros H; inversion H; subst. simpl. apply incl_appl, incl_refl.
  - intros H. specialize (IH H). destruct y; simpl; [apply incl_tl|apply incl_appr]; exact IH.
Qed.

Lemma remove_top_files n t : incl (tree_files (remove_top n t)) (tree_files t).
Proof.
  unfold remove_top. induction t as [|y r IH]; simpl; [apply incl_refl|].
  destruct (negb (String.eqb (top_name y) n)); simpl.
  - destruct y; simpl; [apply incl_cons; [left; reflexivity|apply incl_tl; exact IH]|
      apply incl_app; [apply incl_appl, incl_refl|apply incl_appr; exact IH]].
  - destruct y; simpl; [apply incl_tl|apply incl_appr]; exact IH.
Qed.

Lemma migrate_kind_prov orig k t t' :
  from_orig orig (tree_files t) -> migrate_kind k t = Ok t' -> from_orig orig (tree_files t').
Proof.
  intros Ht. unfold migrate_kind. destruct (find_top (kind_str k) t) as [[g|x items]|] eqn:Ef.
  - discriminate.
  - destruct (migrate_items k items t) as [t1| | |] eqn:Em; simpl; try discriminate.
    intros H; inversion H; subst. eapply from_orig_incl; [apply remove_top_files|].
    eapply migrate_items_prov; [|exact Ht|exact Em].
    eapply from_orig_incl; [eapply tree_files_find; exact Ef|exact Ht].
  - intros H; inversion H; subst. exact Ht.
Qed.

Lemma ensure_top_files k t : tree_files (ensure_top k t) = tree_files t.
Proof.
  unfold ensure_top. destruct (find_top (kind_dir k) t); [reflexivity|].
  induction t as [|y r IH]; simpl; [reflexivity|]. destruct y; simpl; rewrite IH; reflexivity.
Qed.

Lemma scan_leaf_prov k sub : forall c fs, scan_leaf k sub c = Ok fs -> incl (map s_file fs) (leaf_files c).
Proof.
  induction c as [|x r IH]; simpl; intros fs H; [inversion H; subst; apply incl_refl|].
  destruct x as [f|n].
  - destruct (scan_name (f_name f)) as [p| | |]; try discriminate.
    destruct (scan_leaf k sub r) as [l'| | |]; simpl in H; try discriminate. inversion H; subst. simpl.
    apply incl_cons; [left; reflexivity|apply incl_tl, IH; reflexivity].
  - destruct (is_lostfound n); [apply IH; exact H|discriminate].
Qed.

Lemma scan_sub_prov k : forall l fs, scan_sub k l = Ok fs -> incl (map s_file fs) (sub_files l).
Proof.
  induction l as [|x r IH]; simpl; intros fs H; [inversion H; subst; apply incl_refl|].
  destruct x as [f|n c].
  - destruct (is_dsstore (f_name f)); [apply incl_tl, IH; exact H|discriminate].
  - destruct (is_lostfound n); [apply incl_appr, IH; exact H|].
    destruct (negb (is_hex2 n)); [discriminate|].
    destruct (scan_leaf k n c) as [a| | |] eqn:Ea; simpl in H; try discriminate.
    destruct (scan_sub k r) as [b| | |] eqn:Eb; simpl in H; try discriminate. inversion H; subst.
    rewrite map_app. apply incl_app; [apply incl_appl, (scan_leaf_prov k n c a Ea)|apply incl_appr, IH; reflexivity].
Qed.

Lemma scan_tree_prov : forall t fs, scan_tree t = Ok fs -> incl (map s_file fs) (tree_files t).
Proof.
  induction t as [|x r IH]; simpl; intros fs H; [inversion H; subst; apply incl_refl|].
  destruct x as [f|n l].
  - destruct (is_dsstore (f_name f)); [apply incl_tl, IH; exact H|discriminate].
  - destruct (is_lostfound n); [apply incl_appr, IH; exact H|].
    destruct (kind_of_dir n) as [k|]; [|discriminate].
    destruct (scan_sub k l) as [a| | |] eqn:Ea; simpl in H; try discriminate.
    destruct (scan_tree r) as [b| | |] eqn:Eb; simpl in H; try discriminate. inversion H; subst.
    rewrite map_app. apply incl_app; [apply incl_appl, (scan_sub_prov k l a Ea)|apply incl_appr, IH; reflexivity].
Qed.

(* every scanned file carries size, access time and content of an original file whose name it
   extends (for ANY directory on which the scan succeeds, not only those of the grammar) *)
Theorem scanned_provenance t files :
  rbind (mkdirs t) (fun t1 => rbind (migrate t1) scan_tree) = Ok files ->
  from_orig (tree_files t) (map s_file files).
Proof.
  unfold mkdirs. destruct (top_blocked CAS t || top_blocked AC t || top_blocked RAW t); [discriminate|]. simpl.
  set (t1 := ensure_top RAW (ensure_top AC (ensure_top CAS t))).
  assert (H1 : from_orig (tree_files t) (tree_files t1)).
  { subst t1. rewrite !ensure_top_files. unfold from_orig. rewrite Forall_forall. intros x Hx.
    exists x. split; [exact Hx|apply derived_refl]. }
  unfold migrate.
  destruct (migrate_kind AC t1) as [ta| | |] eqn:Ea; simpl; try discriminate.
  destruct (migrate_kind CAS ta) as [tb| | |] eqn:Eb; simpl; try discriminate.
  destruct (migrate_kind RAW tb) as [tc| | |] eqn:Ec; simpl; try discriminate.
  intros Hs. eapply from_orig_incl; [apply scan_tree_prov; exact Hs|].
  eapply migrate_kind_prov; [|exact Ec]. eapply migrate_kind_prov; [|exact Eb].
  eapply migrate_kind_prov; [|exact Ea]. exact H1.
Qed.
