(* Proofs/Front_mode.v — C02 across storage modes: what a read returns does not depend on the storage
   mode the cache is RUNNING in.  The on-disk format of a CAS entry is a property of the entry (the
   [legacy] flag of its index item, i.e. the .v1 file name), fixed when it was written; Get, GetZstd and
   Contains consult that flag, never the current mode (Model/Disk.v, GetValidate).  So a directory
   written under one --storage_mode is served identically after a restart under the other. *)
From BR Require Import Base.Prelude Model.LRU Model.Disk Proofs.Disk_ack Model.Front Proofs.Front_base.
Open Scope Z_scope.

(* two disk configurations without a backend that differ at most in the storage mode *)
Definition same_but_mode (c1 c2 : cfg) : Prop :=
  c_maxblob c1 = c_maxblob c2 /\ c_maxproxy c1 = c_maxproxy c2 /\ c_proxy c1 = false /\ c_proxy c2 = false.

(* the program points of Get / Contains that are reachable without a backend *)
Definition local_pc (p : pc) : bool :=
  match p with
  | GetStart | GetOpen _ _ | GetSlow | GetValidate _ _ _ | GetDrop _ _ | GetProxyDecide _
  | HasStart | HasProxy | Cleanup _ | Done _ => true
  | _ => false
  end.

Definition read_req (r : request) : bool :=
  match r with RGet _ _ _ _ _ _ _ | RContains _ _ _ _ => true | _ => false end.

Lemma tstep_mode c1 c2 d t :
  same_but_mode c1 c2 -> read_req (t_req t) = true -> local_pc (t_pc t) = true ->
  tstep c1 d t = tstep c2 d t /\
  (forall d' t', tstep c1 d t = Some (d', t') -> local_pc (t_pc t') = true).
Proof.
  intros (HB & HP & P1 & P2) HR HL. destruct t as [req p held tmp]. cbn [t_req t_pc] in *.
  destruct req as [k hash sz st rnd|k hash sz off zstd b rnd|k hash sz b|ds bs ff]; try discriminate.
  - destruct p; try discriminate; unfold tstep; cbn [t_req t_pc t_held t_tmp]; try rewrite P1; try rewrite P2; cbn [andb];
      (split; [reflexivity|]); intros d' t'; break_step; intros H; inversion H; subst; reflexivity.
  - destruct p; try discriminate; unfold tstep; cbn [t_req t_pc t_held t_tmp]; try rewrite P1; try rewrite P2; cbn [andb];
      (split; [reflexivity|]); intros d' t'; break_step; intros H; inversion H; subst; reflexivity.
Qed.

Lemma run_thread_mode c1 c2 : same_but_mode c1 c2 -> forall n d t,
  read_req (t_req t) = true -> local_pc (t_pc t) = true ->
  run_thread c1 n d t = run_thread c2 n d t.
Proof.
  intros HS. induction n as [|n IH]; intros d t HR HL; [reflexivity|]. cbn.
  destruct (tstep_mode c1 c2 d t HS HR HL) as [E HN]. rewrite <- E.
  destruct (tstep c1 d t) as [[d' t']|] eqn:ET; [|reflexivity].
  apply IH; [rewrite (tstep_req _ _ _ _ _ ET); exact HR|eapply HN; reflexivity].
Qed.

Lemma exec_mode c1 c2 d r :
  same_but_mode c1 c2 -> read_req r = true -> exec c1 d r = exec c2 d r.
Proof.
  intros HS HR. unfold exec. rewrite (run_thread_mode c1 c2 HS); [reflexivity| |].
  - destruct r; cbn in *; try discriminate; reflexivity.
  - destruct r; cbn in *; try discriminate; reflexivity.
Qed.

(* ---------------- lifted to the front-end configuration and the read adapters ---------------- *)

Lemma set_mode_same z c : c_proxy (fc_disk c) = false -> same_but_mode (fc_disk (set_mode z c)) (fc_disk c).
Proof. intros H. unfold same_but_mode, set_mode. cbn. auto. Qed.

Section mode.
  Variables (c : fcfg) (z : bool).
  Hypothesis Hnoproxy : c_proxy (fc_disk c) = false.

  Lemma disk_get_mode d k hash sz off zs :
    disk_get (set_mode z c) d k hash sz off zs = disk_get c d k hash sz off zs.
  Proof. unfold disk_get. rewrite (exec_mode _ (fc_disk c)); [reflexivity|apply set_mode_same; exact Hnoproxy|reflexivity]. Qed.

  Lemma disk_contains_mode d k hash sz :
    disk_contains (set_mode z c) d k hash sz = disk_contains c d k hash sz.
  Proof. unfold disk_contains. rewrite (exec_mode _ (fc_disk c)); [reflexivity|apply set_mode_same; exact Hnoproxy|reflexivity]. Qed.

  Lemma http_get_mode d hash zs : http_get (set_mode z c) d hash zs = http_get c d hash zs.
  Proof. unfold http_get. rewrite disk_get_mode. reflexivity. Qed.

  Lemma http_head_mode d hash : http_head (set_mode z c) d hash = http_head c d hash.
  Proof. unfold http_head. rewrite disk_contains_mode. reflexivity. Qed.

  Lemma get_blob_data_mode d hash size : get_blob_data (set_mode z c) d hash size = get_blob_data c d hash size.
  Proof. unfold get_blob_data. rewrite disk_get_mode. reflexivity. Qed.

  Lemma batch_read_one_mode d hash size zs :
    batch_read_one (set_mode z c) d hash size zs = batch_read_one c d hash size zs.
  Proof. unfold batch_read_one. rewrite disk_get_mode, get_blob_data_mode. reflexivity. Qed.

  Lemma batch_read_mode zs : forall ds d acc,
    batch_read (set_mode z c) d ds zs acc = batch_read c d ds zs acc.
  Proof.
    induction ds as [|[h s] t IH]; intros d acc; cbn; [reflexivity|].
    destruct (negb (validate_hash h s)); [reflexivity|]. rewrite batch_read_one_mode.
    destruct (batch_read_one c d h s zs) as [d' r]. apply IH.
  Qed.

  Lemma bs_read_mode d nm off lim reads :
    bs_read (set_mode z c) d nm off lim reads = bs_read c d nm off lim reads.
  Proof. unfold bs_read. destruct nm; [reflexivity|]. rewrite disk_get_mode. reflexivity. Qed.

  Lemma tree_walk_mode table : forall fuel d stack acc,
    tree_walk fuel (set_mode z c) d table stack acc = tree_walk fuel c d table stack acc.
  Proof.
    induction fuel as [|f IH]; intros d stack acc; cbn; [reflexivity|].
    destruct stack as [|[[h s] anc] rest]; [reflexivity|].
    destruct (negb (validate_hash h s)); [reflexivity|].
    destruct (existsb (String.eqb h) anc); [apply IH|].
    rewrite get_blob_data_mode. destruct (get_blob_data c d h s) as [d' r].
    destruct r; try apply IH. destruct (decode_dir a table); apply IH.
  Qed.

  Lemma get_tree_mode d root table : get_tree (set_mode z c) d root table = get_tree c d root table.
  Proof.
    unfold get_tree. destruct root as [h s]. destruct (negb (validate_hash h s)); [reflexivity|].
    rewrite get_blob_data_mode. destruct (get_blob_data c d h s) as [d' r].
    destruct r; try reflexivity. destruct (decode_dir a table); [apply tree_walk_mode|reflexivity].
  Qed.

  Lemma inline_read_mode d digest : inline_read (set_mode z c) d digest = inline_read c d digest.
  Proof. unfold inline_read. destruct digest as [[h s]|]; [|reflexivity]. rewrite get_blob_data_mode. reflexivity. Qed.
End mode.
