(* Proofs/Keys_strings.v — elementary facts about byte strings, strings.Split / Join on "/",
   and path.Join on plain segments, used by the key-space and resource-name proofs. *)
From BR Require Import Base.Prelude Model.Keys.
Open Scope string_scope.
Open Scope Z_scope.

Lemma sapp_nil_r s : s ++ "" = s.
Proof. induction s as [|c s IH]; simpl; [reflexivity|rewrite IH; reflexivity]. Qed.

Lemma sapp_assoc a b c : (a ++ b) ++ c = a ++ (b ++ c).
Proof. induction a as [|x a IH]; simpl; [reflexivity|rewrite IH; reflexivity]. Qed.

Lemma slength_app a b : String.length (a ++ b) = (String.length a + String.length b)%nat.
Proof. induction a as [|x a IH]; simpl; [reflexivity|rewrite IH; reflexivity]. Qed.

Lemma sapp_inv_head a b b' : a ++ b = a ++ b' -> b = b'.
Proof. induction a as [|x a IH]; simpl; intros E; [exact E|injection E as E; auto]. Qed.

(* two concatenations with equally long heads *)
Lemma sapp_inv_len a a' b b' :
  String.length a = String.length a' -> a ++ b = a' ++ b' -> a = a' /\ b = b'.
Proof.
  revert a'. induction a as [|x a IH]; intros [|y a'] HL E; simpl in *; try discriminate.
  - split; [reflexivity|exact E].
  - injection E as -> E. injection HL as HL. destruct (IH a' HL E) as [-> ->]. split; reflexivity.
Qed.

Lemma take_length n s : (n <= String.length s)%nat -> String.length (take n s) = n.
Proof.
  revert s. induction n as [|n IH]; intros s H; [destruct s; reflexivity|].
  destruct s as [|c s]; simpl in *; [lia|]. rewrite IH by lia. reflexivity.
Qed.

Lemma drop_app_length a b : drop (String.length a) (a ++ b) = b.
Proof. induction a as [|x a IH]; simpl; [destruct b; reflexivity|exact IH]. Qed.

Lemma starts_with_app p s : starts_with p (p ++ s) = true.
Proof. induction p as [|x p IH]; simpl; [reflexivity|]. rewrite Ascii.eqb_refl. exact IH. Qed.

Lemma starts_with_inv p s : starts_with p s = true -> s = p ++ drop (String.length p) s.
Proof.
  revert s. induction p as [|x p IH]; intros s H; simpl in *.
  - destruct s; reflexivity.
  - destruct s as [|y s]; [discriminate|]. apply andb_true_iff in H as [H1 H2].
    apply Ascii.eqb_eq in H1 as ->. simpl. f_equal. apply IH. exact H2.
Qed.

Lemma all_chars_app p a b : all_chars p (a ++ b) = all_chars p a && all_chars p b.
Proof. induction a as [|x a IH]; simpl; [reflexivity|]. rewrite IH, andb_assoc. reflexivity. Qed.

Lemma all_chars_take p n s : all_chars p s = true -> all_chars p (take n s) = true.
Proof.
  revert s. induction n as [|n IH]; intros s H; [destruct s; reflexivity|].
  destruct s as [|c s]; simpl in *; [reflexivity|].
  apply andb_true_iff in H as [H1 H2]. rewrite H1, (IH s H2). reflexivity.
Qed.

Lemma all_chars_impl (p q : ascii -> bool) s :
  (forall c, p c = true -> q c = true) -> all_chars p s = true -> all_chars q s = true.
Proof.
  intros Hpq. induction s as [|c s IH]; simpl; intros H; [reflexivity|].
  apply andb_true_iff in H as [H1 H2]. rewrite (Hpq c H1), (IH H2). reflexivity.
Qed.

(* hex digits are neither '/' nor '.' nor newline *)
Lemma hex_not_special c :
  is_lower_hex c = true -> is_slash c = false /\ Ascii.eqb c "." = false /\ Ascii.eqb c nl = false.
Proof.
  unfold is_lower_hex. simpl. intros H.
  repeat (apply orb_true_iff in H as [H|H]; [apply Ascii.eqb_eq in H; subst c; repeat split; reflexivity|]).
  discriminate.
Qed.

Lemma is_hash_length h : is_hash h = true -> String.length h = 64%nat.
Proof. unfold is_hash. intros H. apply andb_true_iff in H as [H _]. apply Nat.eqb_eq. exact H. Qed.

Lemma is_hash_hex h : is_hash h = true -> all_chars is_lower_hex h = true.
Proof. unfold is_hash. intros H. apply andb_true_iff in H as [_ H]. exact H. Qed.

(* ------------------------------------------------------------------ *)
(* strings.Split on "/" *)

Lemma split_slash_nonempty s : exists x r, split_slash s = x :: r.
Proof.
  induction s as [|c s (x & r & IH)]; simpl; [eauto|].
  rewrite IH. destruct (is_slash c); eauto.
Qed.

Lemma split_slash_plain x : no_slash x = true -> split_slash x = [x].
Proof.
  induction x as [|c x IH]; simpl; intros H; [reflexivity|].
  apply andb_true_iff in H as [H1 H2]. rewrite (IH H2).
  apply negb_true_iff in H1. rewrite H1. reflexivity.
Qed.

Lemma split_slash_app x y : no_slash x = true -> split_slash (x ++ String "/" y) = x :: split_slash y.
Proof.
  induction x as [|c x IH]; simpl; intros H.
  - destruct (split_slash_nonempty y) as (a & r & E). rewrite E. reflexivity.
  - apply andb_true_iff in H as [H1 H2]. rewrite (IH H2).
    apply negb_true_iff in H1. rewrite H1. reflexivity.
Qed.

(* Split inverts Join on slash-free segments *)
Lemma split_join_slash segs :
  segs <> [] -> forallb no_slash segs = true -> split_slash (join_slash segs) = segs.
Proof.
  induction segs as [|a r IH]; intros Hne H; [congruence|].
  simpl in H. apply andb_true_iff in H as [Ha Hr].
  destruct r as [|b r'].
  - simpl. apply split_slash_plain. exact Ha.
  - change (join_slash (a :: b :: r')) with (a ++ String "/" (join_slash (b :: r'))).
    rewrite split_slash_app by exact Ha. f_equal. apply IH; [discriminate|exact Hr].
Qed.

(* ------------------------------------------------------------------ *)
(* path.Join of three plain segments is their concatenation with "/" *)

Definition seg_ok (s : string) : bool :=
  negb (String.eqb s "") && no_slash s && negb (is_dot s) && negb (is_dotdot s).

Lemma seg_ok_parts s :
  seg_ok s = true ->
  String.eqb s "" = false /\ no_slash s = true /\ is_dot s = false /\ is_dotdot s = false.
Proof.
  unfold seg_ok. intros H. repeat (apply andb_true_iff in H as [H ?]).
  repeat split; try (apply negb_true_iff; assumption); assumption.
Qed.

Lemma no_slash_not_rooted s t :
  no_slash s = true -> String.eqb s "" = false ->
  starts_with "/" (s ++ t) = false /\ String.eqb (s ++ t) "" = false.
Proof.
  destruct s as [|x s]; [discriminate|]. intros H _.
  unfold no_slash in H. cbn [all_chars] in H. apply andb_true_iff in H as [H _].
  apply negb_true_iff in H. unfold is_slash in H.
  cbn [append starts_with]. rewrite Ascii.eqb_sym, H. split; reflexivity.
Qed.

Lemma path_join3_plain a b c :
  seg_ok a = true -> seg_ok b = true -> seg_ok c = true ->
  path_join [a; b; c] = a ++ "/" ++ b ++ "/" ++ c.
Proof.
  intros Ha Hb Hc.
  destruct (seg_ok_parts a Ha) as (Ea & Sa & Da & DDa).
  destruct (seg_ok_parts b Hb) as (Eb & Sb & Db & DDb).
  destruct (seg_ok_parts c Hc) as (Ec & Sc & Dc & DDc).
  unfold path_join. cbn [filter]. rewrite Ea, Eb, Ec. cbn [negb].
  change (join_slash [a; b; c]) with (a ++ String "/" (b ++ String "/" c)).
  change (a ++ "/" ++ b ++ "/" ++ c) with (a ++ String "/" (b ++ String "/" c)).
  set (t := String "/" (b ++ String "/" c)).
  destruct (no_slash_not_rooted a t Sa Ea) as [R NE].
  unfold path_clean. rewrite NE, R. subst t.
  rewrite split_slash_app by exact Sa.
  rewrite split_slash_app by exact Sb.
  rewrite split_slash_plain by exact Sc.
  cbn [clean_segs]. rewrite Ea, Da, DDa. cbn [orb].
  rewrite Eb, Db, DDb. cbn [orb]. rewrite Ec, Dc, DDc. cbn [orb].
  cbn [rev List.app join_slash]. cbn [append].
  set (t := String "/" (b ++ String "/" c)).
  destruct (no_slash_not_rooted a t Sa Ea) as [_ NE2]. rewrite NE2. reflexivity.
Qed.
