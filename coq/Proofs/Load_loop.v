(* Proofs/Load_loop.v — the Add loop of loadExistingFiles over the access-time-sorted scan result:
   survivors are a suffix of the candidates, the files left are exactly the survivors' files, the
   accounting invariant holds, nothing fails. *)
From Coq Require Import Permutation Sorting.Sorted.
From BR Require Import Base.Prelude Model.LRU Model.Names Model.Load Proofs.LRU_inv Proofs.Load_add.
Open Scope Z_scope.
Open Scope list_scope.

Definition r_of (x : sfile) : Z := roundUp4k (f_size (s_file x)).
Definition fitsb (mx : Z) (x : sfile) : bool := r_of x <=? mx.
Definition fit_r (mx : Z) (x : sfile) : Z := if fitsb mx x then r_of x else 0.
Definition eplace (en : entry) : place := item_place (ekey en) (evalue en).

(* getElementPath leads back to the scanned file, and the sizes are sane *)
Definition file_fits (x : sfile) : Prop :=
  item_place (sf_key x) (sf_item x) = sf_place x /\ item_ok (sf_item x).

Definition keep_other (k : string) (y : sfile) : bool := negb (String.eqb (sf_key y) k).

(* the candidates: files that can be indexed at all (rounded size <= max_size) and are not
   superseded by a more recently accessed indexable file of the same key *)
Fixpoint cands (mx : Z) (l : list sfile) : list sfile :=
  match l with
  | [] => []
  | x :: t =>
      if fitsb mx x && negb (existsb (fun y => String.eqb (sf_key y) (sf_key x) && fitsb mx y) t)
      then x :: cands mx t else cands mx t
  end.

Lemma cands_snoc mx P x :
  cands mx (P ++ [x]) =
  if fitsb mx x then filter (keep_other (sf_key x)) (cands mx P) ++ [x] else cands mx P.
Proof.
  induction P as [|a P IH]; simpl.
  - destruct (fitsb mx x); reflexivity.
  - rewrite existsb_app, IH. simpl. rewrite orb_false_r.
    destruct (fitsb mx x) eqn:Fx.
    + rewrite andb_true_r.
      destruct (String.eqb (sf_key x) (sf_key a)) eqn:Ek.
      * rewrite orb_true_r, andb_false_r. simpl.
        assert (Hk : keep_other (sf_key x) a = false).
        { unfold keep_other. rewrite String.eqb_sym, Ek. reflexivity. }
        destruct (fitsb mx a && negb (existsb (fun y => String.eqb (sf_key y) (sf_key a) && fitsb mx y) P));
          simpl; [rewrite Hk|]; reflexivity.
      * rewrite orb_false_r.
        assert (Hk : keep_other (sf_key x) a = true).
        { unfold keep_other. rewrite String.eqb_sym, Ek. reflexivity. }
        destruct (fitsb mx a && negb (existsb (fun y => String.eqb (sf_key y) (sf_key a) && fitsb mx y) P));
          simpl; [rewrite Hk|]; reflexivity.
    + rewrite andb_false_r, orb_false_r. reflexivity.
Qed.

Lemma cands_incl mx l : incl (cands mx l) l.
Proof.
  induction l as [|x t IH]; simpl; [apply incl_refl|].
  destruct (fitsb mx x && _); [apply incl_cons; [left; reflexivity|apply incl_tl, IH]|apply incl_tl, IH].
Qed.

Lemma cands_fit mx l : Forall (fun x => fitsb mx x = true) (cands mx l).
Proof.
  induction l as [|x t IH]; simpl; [constructor|].
  destruct (fitsb mx x) eqn:F; simpl; [|exact IH].
  destruct (negb _); [constructor; assumption|exact IH].
Qed.

Lemma r_of_nonneg x : file_fits x -> 0 <= r_of x.
Proof. intros [_ [_ H]]. apply roundUp4k_nonneg. exact H. Qed.

Lemma fit_r_nonneg mx x : file_fits x -> 0 <= fit_r mx x.
Proof. intros H. unfold fit_r. destruct (fitsb mx x); [apply r_of_nonneg; exact H|lia]. Qed.

Lemma cands_sum mx l : Forall file_fits l -> sumZ r_of (cands mx l) <= sumZ (fit_r mx) l.
Proof.
  induction l as [|x t IH]; simpl; intros HF; [lia|]. inversion HF; subst.
  specialize (IH H2). pose proof (fit_r_nonneg mx x H1) as Hn. unfold fit_r in *.
  destruct (fitsb mx x); simpl; [|lia]. destruct (negb _); simpl; lia.
Qed.

(* ------------------------------------------------------------------ *)
(* multisets of places *)

Lemma place_eq_dec (a b : place) : {a = b} + {a <> b}.
Proof. repeat decide equality. Qed.

Definition cnt (p : place) (l : list place) : nat := count_occ place_eq_dec l p.

Lemma cnt_app p a b : cnt p (a ++ b) = (cnt p a + cnt p b)%nat.
Proof. apply count_occ_app. Qed.

Lemma perm_cnt a b : (forall p, cnt p a = cnt p b) -> Permutation a b.
Proof. intros H. apply (Permutation_count_occ place_eq_dec). exact H. Qed.

Lemma cnt_perm a b : Permutation a b -> forall p, cnt p a = cnt p b.
Proof. intros H. apply (Permutation_count_occ place_eq_dec). exact H. Qed.

Lemma place_eqb_eq a b : place_eqb a b = true <-> a = b.
Proof.
  destruct a as [[k1 s1] n1], b as [[k2 s2] n2]. simpl. split.
  - intros H. apply andb_true_iff in H as [H H3]. apply andb_true_iff in H as [H1 H2].
    apply String.eqb_eq in H2, H3. destruct k1, k2; try discriminate; subst; reflexivity.
  - intros H. inversion H; subst. rewrite !String.eqb_refl. destruct k2; reflexivity.
Qed.

Lemma unlink_some p : forall l l', unlink p l = Some l' -> Permutation l (p :: l').
Proof.
  induction l as [|q r IH]; intros l'; simpl; [discriminate|].
  destruct (place_eqb q p) eqn:E.
  - intros H; inversion H; subst. apply place_eqb_eq in E. subst. reflexivity.
  - destruct (unlink p r) as [r'|]; [|discriminate]. intros H; inversion H; subst.
    rewrite perm_swap. constructor. apply IH. reflexivity.
Qed.

Lemma unlink_in p : forall l, In p l -> exists l', unlink p l = Some l'.
Proof.
  induction l as [|q r IH]; simpl; [tauto|]. intros Hin.
  destruct (place_eqb q p) eqn:E; [eexists; reflexivity|].
  destruct Hin as [->|Hin]; [rewrite (proj2 (place_eqb_eq p p) eq_refl) in E; discriminate|].
  destruct (IH Hin) as [r' ->]. eexists; reflexivity.
Qed.

Lemma unlink_all_perm : forall q present A,
  Permutation present (A ++ map eplace q) -> Permutation (unlink_all q present) A.
Proof.
  unfold unlink_all. induction q as [|en q IH]; intros present A HP; simpl.
  - rewrite app_nil_r in HP. exact HP.
  - simpl in HP.
    assert (Hin : In (eplace en) present).
    { eapply Permutation_in; [apply Permutation_sym; exact HP|]. apply in_or_app. right. left. reflexivity. }
    destruct (unlink_in _ _ Hin) as [pr' Hu]. fold (eplace en). rewrite Hu.
    apply IH. apply unlink_some in Hu.
    apply Permutation_cons_app_inv with (a := eplace en). rewrite <- Hu. exact HP.
Qed.

(* ------------------------------------------------------------------ *)
(* entries of the recency list vs scanned files *)

Definition E (s : state) : list entry := map ent (order s).
Definition er (en : entry) : Z := roundUp4k (sizeOnDisk (evalue en)).

Lemma sum_order_entries l : sumZ r4k_disk l = sumZ er (map ent l).
Proof. induction l as [|e t IH]; simpl; [reflexivity|]. rewrite IH. reflexivity. Qed.

Lemma sum_entries_files S : sumZ er (map sf_entry S) = sumZ r_of S.
Proof. induction S as [|x t IH]; simpl; [reflexivity|]. rewrite IH. reflexivity. Qed.

Lemma inv_cur_sum s S : Inv s -> res s = 0 -> E s = map sf_entry S -> cur s = sumZ r_of S.
Proof.
  intros ([_ _ _ Hc _ _ _ _ _] & _) Hr HE. rewrite Hr in Hc.
  rewrite sum_order_entries in Hc. fold (E s) in Hc. rewrite HE, sum_entries_files in Hc. lia.
Qed.

Definition other_key (k : string) (en : entry) : bool := negb (String.eqb (ekey en) k).

Lemma filter_map_entries k S :
  map sf_entry (filter (keep_other k) S) = filter (other_key k) (map sf_entry S).
Proof.
  induction S as [|x t IH]; simpl; [reflexivity|].
  change (other_key k (sf_entry x)) with (keep_other k x).
  destruct (keep_other k x); simpl; rewrite IH; reflexivity.
Qed.

Lemma filter_entries k l1 old l2 :
  (forall e, In e old -> key_of e = k) -> ~ In k (map key_of (l1 ++ l2)) ->
  filter (other_key k) (map ent (l1 ++ old ++ l2)) = map ent (l1 ++ l2).
Proof.
  intros Hold Hno.
  assert (Hkeep : forall l, ~ In k (map key_of l) -> filter (other_key k) (map ent l) = map ent l).
  { induction l as [|e t IH]; simpl; intros Hn; [reflexivity|].
    assert (Hk : other_key k (ent e) = true).
    { unfold other_key. destruct (String.eqb (ekey (ent e)) k) eqn:Ek; [|reflexivity].
      apply String.eqb_eq in Ek. exfalso. apply Hn. left. exact Ek. }
    rewrite Hk, IH; [reflexivity|]. intros Hc. apply Hn. right. exact Hc. }
  assert (Hdrop : filter (other_key k) (map ent old) = []).
  { clear - Hold. induction old as [|e t IH]; simpl; [reflexivity|].
    assert (Hk : other_key k (ent e) = false).
    { unfold other_key. pose proof (Hold e (or_introl eq_refl)) as Hke. unfold key_of in Hke. rewrite Hke, String.eqb_refl. reflexivity. }
    rewrite Hk. apply IH. intros x Hx. apply Hold. right. exact Hx. }
  rewrite !map_app, !filter_app, Hdrop. simpl.
  rewrite map_app in Hno. rewrite !Hkeep; [reflexivity| |]; intros Hc; apply Hno; apply in_or_app; [right|left]; exact Hc.
Qed.

(* ------------------------------------------------------------------ *)
(* the loop invariant *)

Record J (mx : Z) (all P : list sfile) (s : state) (present : list place) (rest : list sfile) : Prop := mkJ {
  j_all : all = P ++ rest;
  j_inv : Inv s;
  j_res : res s = 0;
  j_max : maxs s = mx;
  j_suffix : exists pre S, cands mx P = pre ++ S /\ E s = map sf_entry S;
  j_files : Permutation present (map eplace (E s) ++ map eplace (evq s) ++ map sf_place rest);
  j_full : sumZ (fit_r mx) all <= mx -> E s = map sf_entry (cands mx P) }.

Lemma sum_fit_nonneg mx l : Forall file_fits l -> 0 <= sumZ (fit_r mx) l.
Proof. intros H. apply sumZ_nonneg. intros x Hx. rewrite Forall_forall in H. apply fit_r_nonneg, H, Hx. Qed.

Lemma step_J mx all P s present x rest :
  Forall file_fits all -> J mx all P s present (x :: rest) ->
  exists s' present',
    (forall k : state -> list place -> result (state * list place), (let '(s1, res) := add (sf_key x) (sf_item x) s in
                match res with
                | Ok true => k s1 present
                | Ok false => match unlink (item_place (sf_key x) (sf_item x)) present with
                              | Some present1 => k s1 present1
                              | None => Err EInternal
                              end
                | Err e => Err e | Panic p => Panic p | Hang h => Hang h
                end) = k s' present') /\
    J mx all (P ++ [x]) s' present' rest.
Proof.
  intros Hall [Hsplit HI Hres Hmax (pre & S & Hc & HE) Hfiles Hfull].
  assert (Hx : file_fits x).
  { rewrite Forall_forall in Hall. apply Hall. rewrite Hsplit. apply in_or_app. right. left. reflexivity. }
  assert (HPf : Forall file_fits P).
  { rewrite Hsplit in Hall. apply Forall_app in Hall. tauto. }
  destruct Hx as [Hplace Hok].
  assert (Hsplit' : all = (P ++ [x]) ++ rest) by (rewrite <- app_assoc; exact Hsplit).
  destruct (add (sf_key x) (sf_item x) s) as [s1 r] eqn:Ea.
  pose proof (add_spec _ _ _ _ _ HI Hok Hres Ea) as Hspec. cbv zeta in Hspec.
  change (roundUp4k (sizeOnDisk (sf_item x))) with (r_of x) in Hspec. rewrite Hmax in Hspec.
  destruct Hspec as [(Hbig & -> & ->) | (Hfit & -> & HI' & Hres' & Hmax' & _ & l1 & old & l2 & ev & Hord & _ & Hold & Hno & Hnew & Hq & Hnil & _)].
  - (* the file alone exceeds max_size: it is unlinked *)
    assert (Fx : fitsb mx x = false) by (unfold fitsb; lia).
    assert (Hin : In (sf_place x) present).
    { eapply Permutation_in; [apply Permutation_sym; exact Hfiles|].
      apply in_or_app. right. apply in_or_app. right. left. reflexivity. }
    rewrite Hplace. destruct (unlink_in _ _ Hin) as [present1 Hu].
    exists s, present1. split; [intros k; rewrite Hu; reflexivity|].
    constructor; auto.
    + exists pre, S. rewrite cands_snoc, Fx. split; assumption.
    + apply unlink_some in Hu. simpl in Hfiles.
      rewrite app_assoc. apply Permutation_cons_app_inv with (a := sf_place x).
      rewrite <- Hu. rewrite app_assoc in Hfiles. exact Hfiles.
    + intros Ht. rewrite cands_snoc, Fx. apply Hfull. exact Ht.
  - (* indexed at the most-recently-used end *)
    assert (Fx : fitsb mx x = true) by (unfold fitsb; lia).
    exists s1, present. split; [intros k; reflexivity|].
    assert (HES : E s = map ent (l1 ++ old ++ l2)) by (unfold E; rewrite Hord; reflexivity).
    assert (Hfilt : forall S0, E s = map sf_entry S0 ->
              map sf_entry (filter (keep_other (sf_key x)) S0 ++ [x]) = map ent ev ++ E s1).
    { intros S0 HS0. rewrite map_app, filter_map_entries, <- HS0, HES, (filter_entries _ _ _ _ Hold Hno).
      exact Hnew. }
    constructor; auto; try lia.
    + rewrite cands_snoc, Fx, Hc, filter_app.
      destruct (map_eq_app _ _ _ _ (Hfilt S HE)) as (Sa & Sb & HS & HSa & HSb).
      exists (filter (keep_other (sf_key x)) pre ++ Sa), Sb. split; [|symmetry; exact HSb].
      rewrite <- !app_assoc. rewrite HS. reflexivity.
    + (* the files: nothing is unlinked by this step; the multiset of places is rearranged *)
      apply perm_cnt. intros p. rewrite (cnt_perm _ _ Hfiles p).
      assert (H1 : forall q, (cnt q (map eplace (map ent (l1 ++ l2))) + cnt q [sf_place x]
                            = cnt q (map eplace (map ent ev)) + cnt q (map eplace (E s1)))%nat).
      { intros q. rewrite <- !cnt_app. rewrite <- (map_app eplace (map ent ev) (E s1)). unfold E.
        rewrite <- Hnew. rewrite (map_app eplace). simpl.
        change (eplace {| ekey := sf_key x; evalue := sf_item x |}) with (item_place (sf_key x) (sf_item x)).
        rewrite Hplace. reflexivity. }
      specialize (H1 p). rewrite Hq, HES.
      change (map sf_place (x :: rest)) with ([sf_place x] ++ map sf_place rest).
      rewrite !map_app, !cnt_app. rewrite !map_app, !cnt_app in H1. lia.
    + intros Ht. specialize (Hfull Ht). rewrite cands_snoc, Fx.
      assert (Hcur : cur s = sumZ r_of (cands mx P)) by (apply inv_cur_sum; assumption).
      assert (Hev : ev = []).
      { apply Hnil. pose proof (cands_sum mx P HPf) as H1.
        assert (H2 : sumZ (fit_r mx) all = sumZ (fit_r mx) P + fit_r mx x + sumZ (fit_r mx) rest)
          by (rewrite Hsplit, sumZ_app; simpl; lia).
        assert (H3 : 0 <= sumZ (fit_r mx) rest).
        { apply sum_fit_nonneg. rewrite Hsplit in Hall. apply Forall_app in Hall as [_ Hall].
          inversion Hall; assumption. }
        assert (Hfx : fit_r mx x = r_of x) by (unfold fit_r; rewrite Fx; reflexivity). lia. }
      pose proof (Hfilt _ Hfull) as H. rewrite Hev in H. simpl in H. symmetry. exact H.
Qed.

Lemma load_loop_J mx all : forall rest P s present,
  Forall file_fits all -> J mx all P s present rest ->
  exists s' present', load_loop rest s present = Ok (s', present') /\ J mx all all s' present' [].
Proof.
  induction rest as [|x rest IH]; intros P s present Hall HJ.
  - exists s, present. split; [reflexivity|].
    destruct HJ as [Hsplit ? ? ? ? ? ?]. rewrite app_nil_r in Hsplit. subst P. constructor; auto.
    rewrite app_nil_r. reflexivity.
  - destruct (step_J mx all P s present x rest Hall HJ) as (s1 & present1 & Hstep & HJ1).
    destruct (IH _ _ _ Hall HJ1) as (s' & present' & Hl & HJ').
    exists s', present'. split; [|exact HJ'].
    simpl. rewrite (Hstep (fun s0 pr => load_loop rest s0 pr)). exact Hl.
Qed.

(* ------------------------------------------------------------------ *)
(* sorting by access time *)

Definition older_eq (a b : sfile) : Prop := sf_atime a <= sf_atime b.

Lemma insert_by_perm x l : Permutation (insert_by x l) (x :: l).
Proof.
  induction l as [|y r IH]; simpl; [reflexivity|].
  destruct (sf_atime x <=? sf_atime y); [reflexivity|]. rewrite perm_swap. constructor. exact IH.
Qed.

Lemma sort_atime_perm l : Permutation (sort_atime l) l.
Proof. induction l as [|x r IH]; simpl; [reflexivity|]. rewrite insert_by_perm. constructor. exact IH. Qed.

Lemma insert_by_sorted x l : StronglySorted older_eq l -> StronglySorted older_eq (insert_by x l).
Proof.
  induction 1 as [|y r Hs IH Hy]; simpl; [constructor; [constructor|constructor]|].
  destruct (sf_atime x <=? sf_atime y) eqn:E.
  - constructor; [constructor; assumption|]. constructor; [unfold older_eq; lia|].
    eapply Forall_impl; [|exact Hy]. unfold older_eq. intros; lia.
  - constructor; [exact IH|].
    eapply Forall_perm; [apply Permutation_sym, insert_by_perm|]. constructor; [unfold older_eq; lia|exact Hy].
Qed.

Lemma sort_atime_sorted l : StronglySorted older_eq (sort_atime l).
Proof. induction l as [|x r IH]; simpl; [constructor|]. apply insert_by_sorted, IH. Qed.

Lemma cands_sorted mx l : StronglySorted older_eq l -> StronglySorted older_eq (cands mx l).
Proof.
  induction 1 as [|x r Hs IH Hx]; simpl; [constructor|].
  destruct (fitsb mx x && _); [|exact IH]. constructor; [exact IH|].
  rewrite Forall_forall in *. intros y Hy. apply Hx. apply (cands_incl mx r). exact Hy.
Qed.

Lemma sorted_app_le pre S : StronglySorted older_eq (pre ++ S) ->
  forall y z, In y pre -> In z S -> sf_atime y <= sf_atime z.
Proof.
  induction pre as [|a pre IH]; simpl; intros Hs y z Hy Hz; [tauto|].
  inversion Hs as [|? ? Hs' Ha]; subst. destruct Hy as [->|Hy]; [|apply IH; assumption].
  rewrite Forall_forall in Ha. apply Ha. apply in_or_app. right. exact Hz.
Qed.

Lemma cands_nodup_atime mx l : NoDup (map sf_atime l) -> NoDup (map sf_atime (cands mx l)).
Proof.
  induction l as [|x r IH]; simpl; intros H; [constructor|]. inversion H as [|? ? Hn Hr]; subst.
  destruct (fitsb mx x && _); [|apply IH; exact Hr]. simpl. constructor; [|apply IH; exact Hr].
  intros Hc. apply Hn. apply in_map_iff in Hc as (y & Hy1 & Hy2). apply in_map_iff. exists y. split; [exact Hy1|].
  apply (cands_incl mx r). exact Hy2.
Qed.

(* ------------------------------------------------------------------ *)
(* loadExistingFiles as a whole *)

Record Loaded (mx : Z) (files : list sfile) (s : state) (present : list place) : Prop := mkLoaded {
  ld_inv : Inv s;
  ld_max : maxs s = mx;
  ld_res : res s = 0;
  ld_queue : evq s = [];
  ld_survivors : exists pre S,
      cands mx (sort_atime files) = pre ++ S /\ E s = map sf_entry S /\
      Permutation present (map sf_place S) /\
      (sumZ (fit_r mx) files <= mx -> pre = []) }.

Lemma sum_fit_perm mx a b : Permutation a b -> sumZ (fit_r mx) a = sumZ (fit_r mx) b.
Proof. apply sumZ_perm. Qed.

Lemma places_of_fitting S : Forall file_fits S -> map eplace (map sf_entry S) = map sf_place S.
Proof.
  induction 1 as [|x t [Hx _] _ IH]; simpl; [reflexivity|]. rewrite IH. unfold eplace at 1. simpl. rewrite Hx. reflexivity.
Qed.

Theorem load_files_spec mx hd files :
  0 < mx -> Forall file_fits files ->
  exists s present, load_files mx hd files = Ok (s, present) /\ Loaded mx files s present.
Proof.
  intros Hmx Hfit. set (sorted := sort_atime files).
  assert (Hperm : Permutation sorted files) by apply sort_atime_perm.
  assert (Hall : Forall file_fits sorted) by (eapply Forall_perm; [apply Permutation_sym; exact Hperm|exact Hfit]).
  assert (HJ0 : J mx sorted [] (init mx hd) (map sf_place files) sorted).
  { constructor; simpl; auto.
    - apply init_inv; exact Hmx.
    - exists [], []. split; reflexivity.
    - apply Permutation_map, Permutation_sym. exact Hperm. }
  destruct (load_loop_J mx sorted sorted [] _ _ Hall HJ0) as (s1 & present1 & Hl & HJ).
  destruct HJ as [_ HI Hres Hmax (pre & S & Hc & HE) Hfiles Hfull].
  pose proof (drain_spec s1 HI) as Hd. unfold load_files. fold sorted. rewrite Hl. unfold rbind, finish.
  destruct (drain s1) as [s2 q]. destruct Hd as (HI2 & -> & Hq2 & Ho2 & Hc2 & Hu2 & Hr2 & Hm2).
  exists s2, (unlink_all (evq s1) present1). split; [reflexivity|].
  constructor; try congruence.
  assert (HS : Forall file_fits S).
  { rewrite Forall_forall in *. intros y Hy. apply Hall. apply (cands_incl mx sorted). rewrite Hc.
    apply in_or_app. right. exact Hy. }
  exists pre, S. split; [exact Hc|]. split; [unfold E; rewrite Ho2; exact HE|]. split.
  - apply unlink_all_perm. simpl in Hfiles. rewrite app_nil_r in Hfiles.
    rewrite HE, (places_of_fitting S HS) in Hfiles. exact Hfiles.
  - intros Ht. rewrite <- (sum_fit_perm mx _ _ Hperm) in Ht. specialize (Hfull Ht).
    rewrite HE, Hc in Hfull.
    assert (Hlen : List.length S = List.length (pre ++ S)) by (rewrite <- (map_length sf_entry S), Hfull, map_length; reflexivity).
    rewrite app_length in Hlen. destruct pre; [reflexivity|simpl in Hlen; lia].
Qed.
