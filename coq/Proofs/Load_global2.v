(* Proofs/Load_global2.v — the loader's Add pass computes [survivors] (Load_global.v): the global
   statement of C09 over the whole load, for load_files and for startup on any directory of the
   population grammar; what is queued for deletion; the refutation of "longest fitting suffix" for
   duplicate keys of different sizes. *)
From Coq Require Import Permutation Sorting.Sorted.
From BR Require Import Base.Prelude Model.LRU Model.Names Model.Load Proofs.LRU_inv Proofs.Load_add
  Proofs.Load_loop Proofs.Load_scan Proofs.Load_main Proofs.Load_global.
Open Scope Z_scope.
Open Scope list_scope.

Lemma sum_ent_files ev A : map ent ev = map sf_entry A -> sumZ r4k_disk ev = sumZ r_of A.
Proof. intros H. rewrite sum_order_entries, H, sum_entries_files. reflexivity. Qed.

(* one Add of the loader, on the level of scanned files *)
Lemma add_E mx x s s' r S :
  Inv s -> res s = 0 -> maxs s = mx -> file_fits x -> E s = map sf_entry S ->
  add (sf_key x) (sf_item x) s = (s', r) ->
  Inv s' /\ res s' = 0 /\ maxs s' = mx /\ r = Ok (fitsb mx x) /\
  E s' = map sf_entry (lstep mx S x) /\
  Permutation (evq s' ++ E s') (evq s ++ E s ++ (if fitsb mx x then [sf_entry x] else [])).
Proof.
  intros HI Hres Hmax [Hplace Hok] HE Ea.
  pose proof (add_spec _ _ _ _ _ HI Hok Hres Ea) as Hspec. cbv zeta in Hspec.
  change (roundUp4k (sizeOnDisk (sf_item x))) with (r_of x) in Hspec. rewrite Hmax in Hspec.
  destruct Hspec as [(Hbig & -> & ->) | (Hfit & -> & HI' & Hres' & Hmax' & _ & l1 & old & l2 & ev & Hord & _ & Hold & Hno & Hnew & Hq & _ & Hneed)].
  - assert (Fx : fitsb mx x = false) by (unfold fitsb; lia).
    unfold lstep. rewrite Fx, !app_nil_r.
    split; [exact HI|]. split; [exact Hres|]. split; [exact Hmax|]. split; [reflexivity|]. split; [exact HE|reflexivity].
  - assert (Fx : fitsb mx x = true) by (unfold fitsb; lia).
    unfold lstep. rewrite Fx. split; [exact HI'|]. split; [exact Hres'|]. split; [congruence|]. split; [reflexivity|].
    assert (HES : E s = map ent (l1 ++ old ++ l2)) by (unfold E; rewrite Hord; reflexivity).
    assert (Hfilt : map sf_entry (filter (keep_other (sf_key x)) S ++ [x]) = map ent ev ++ E s').
    { rewrite map_app, filter_map_entries, <- HE, HES, (filter_entries _ _ _ _ Hold Hno). exact Hnew. }
    split.
    + destruct (map_eq_app _ _ _ _ Hfilt) as (Sa & Sb & HS & HSa & HSb).
      rewrite HS. rewrite (trim_unique mx Sa Sb); [symmetry; exact HSb| |].
      * pose proof (inv_cur_sum s' Sb HI' Hres' (eq_sym HSb)) as Hc. destruct HI' as (_ & Hle & _). lia.
      * intros A1 a A2 HA. subst Sa. rewrite map_app in HSa. simpl in HSa.
        symmetry in HSa. destruct (map_eq_app _ _ _ _ HSa) as (ev1 & ev2' & Hev & Hev1 & Hev2).
        destruct ev2' as [|e0 ev2]; [discriminate|]. simpl in Hev2. injection Hev2 as He0 Hev2.
        specialize (Hneed ev1 e0 ev2 Hev).
        pose proof HI as ([_ _ _ Hcur _ _ _ _ _] & _). rewrite Hres, Hord in Hcur.
        rewrite !sumZ_app in Hcur.
        assert (Htot : sumZ r4k_disk (l1 ++ l2) + r_of x = sumZ r4k_disk ev + sumZ r_of Sb).
        { pose proof (f_equal (sumZ er) Hnew) as Ht. rewrite !sumZ_app in Ht.
          fold (E s') in Ht. rewrite <- HSb, sum_entries_files in Ht.
          rewrite <- !sum_order_entries in Ht. simpl in Ht.
          change (er {| ekey := sf_key x; evalue := sf_item x |}) with (r_of x) in Ht. lia. }
        rewrite Hev in Htot. rewrite !sumZ_app in Htot. simpl in Htot.
        rewrite (sum_ent_files ev2 A2 Hev2) in Htot.
        assert (Hr0 : r4k_disk e0 = r_of a) by (unfold r4k_disk; rewrite He0; reflexivity).
        simpl. rewrite sumZ_app. lia.
    + rewrite Hq, HES. rewrite <- !app_assoc. apply Permutation_app_head.
      unfold E. rewrite <- Hnew.
      rewrite !map_app. rewrite <- !app_assoc.
      change [sf_entry x] with [{| ekey := sf_key x; evalue := sf_item x |}].
      apply Permutation_app_swap_app.
Qed.

(* the whole Add loop *)
Lemma load_loop_survivors mx : forall rest s present s' present' S,
  Inv s -> res s = 0 -> maxs s = mx -> Forall file_fits rest -> E s = map sf_entry S ->
  load_loop rest s present = Ok (s', present') ->
  Inv s' /\ res s' = 0 /\ maxs s' = mx /\
  E s' = map sf_entry (survivors_from mx S rest) /\
  Permutation (evq s' ++ E s') (evq s ++ E s ++ map sf_entry (filter (fitsb mx) rest)).
Proof.
  induction rest as [|x rest IH]; intros s present s' present' S HI Hr Hm HF HE Hl.
  - simpl in Hl. injection Hl as <- <-. simpl. rewrite app_nil_r.
    split; [exact HI|]. split; [exact Hr|]. split; [exact Hm|]. split; [exact HE|reflexivity].
  - inversion HF as [|? ? Hx HF']; subst. simpl in Hl.
    destruct (add (sf_key x) (sf_item x) s) as [s1 r] eqn:Ea.
    destruct (add_E _ x s s1 r S HI Hr eq_refl Hx HE Ea) as (HI1 & Hr1 & Hm1 & -> & HE1 & HP1).
    assert (Hcont : exists present1, load_loop rest s1 present1 = Ok (s', present')).
    { destruct (fitsb (maxs s) x); [eexists; exact Hl|].
      destruct (unlink (item_place (sf_key x) (sf_item x)) present); [eexists; exact Hl|discriminate]. }
    destruct Hcont as [present1 Hl1].
    destruct (IH s1 present1 s' present' _ HI1 Hr1 Hm1 HF' HE1 Hl1) as (HI' & Hr' & Hm' & HE' & HP').
    split; [exact HI'|]. split; [exact Hr'|]. split; [exact Hm'|]. split; [exact HE'|].
    rewrite HP'. rewrite (app_assoc (evq s1)). rewrite HP1. simpl filter.
    destruct (fitsb (maxs s) x); simpl; rewrite <- !app_assoc; reflexivity.
Qed.

(* ------------------------------------------------------------------ *)
(* loadExistingFiles as a whole *)

Record Global (mx : Z) (files : list sfile) (s : state) (present : list place) (q : list entry) : Prop := mkGlobal {
  g_inv : Inv s;
  g_max : maxs s = mx;
  g_res : res s = 0;
  g_evq : evq s = [];
  (* the index holds exactly the survivors, in recency (= access-time) order *)
  g_index : map ent (order s) = map sf_entry (survivors mx (sort_atime files));
  (* the files left are exactly the survivors' files *)
  g_left : Permutation present (map sf_place (survivors mx (sort_atime files)));
  (* accounting = sum over the survivors, within max_size *)
  g_cur : cur s = sumZ r_of (survivors mx (sort_atime files)) /\ cur s <= mx;
  (* every indexable file is either still indexed or was queued for deletion, exactly once *)
  g_queue : Permutation (map sf_entry (filter (fitsb mx) (sort_atime files))) (q ++ map ent (order s)) }.

Lemma survivors_file_fits mx l : Forall file_fits l -> Forall file_fits (survivors mx l).
Proof. rewrite !Forall_forall. intros H y Hy. apply H, (survivors_incl mx l), Hy. Qed.

Theorem load_files_global mx hd files :
  0 < mx -> Forall file_fits files ->
  exists s present s1 present1,
    load_loop (sort_atime files) (init mx hd) (map sf_place files) = Ok (s1, present1) /\
    load_files mx hd files = Ok (s, present) /\ (s, present) = finish (s1, present1) /\
    Global mx files s present (evq s1).
Proof.
  intros Hmx Hfit.
  destruct (load_files_spec mx hd files Hmx Hfit) as (s & present & Hl & HL).
  set (sorted := sort_atime files) in *.
  assert (Hall : Forall file_fits sorted).
  { eapply Forall_perm; [apply Permutation_sym, sort_atime_perm|exact Hfit]. }
  unfold load_files in Hl. fold sorted in Hl.
  destruct (load_loop sorted (init mx hd) (map sf_place files)) as [[s1 present1]| | |] eqn:Ell; try discriminate.
  assert (Hfin : finish (s1, present1) = (s, present)) by (unfold rbind in Hl; congruence). clear Hl.
  exists s, present, s1, present1. split; [reflexivity|]. split; [unfold load_files; fold sorted; rewrite Ell; unfold rbind; rewrite Hfin; reflexivity|].
  split; [symmetry; exact Hfin|].
  destruct (load_loop_survivors mx sorted (init mx hd) _ s1 present1 [] (init_inv mx hd Hmx) eq_refl eq_refl Hall eq_refl Ell)
    as (HI1 & Hr1 & Hm1 & HE1 & HP1).
  unfold finish in Hfin. pose proof (drain_spec s1 HI1) as Hd. destruct (drain s1) as [s2 q].
  destruct Hd as (HI2 & -> & Hq2 & Ho2 & Hc2 & Hu2 & Hr2 & Hm2). injection Hfin as <- <-.
  destruct HL as [HI Hmax Hres Hq (pre & S & Hc & HE & HP & _)]. fold sorted in Hc.
  fold (survivors mx sorted) in HE1.
  assert (HEs : map ent (order s2) = map sf_entry (survivors mx sorted)) by (rewrite Ho2; exact HE1).
  assert (HS : Forall file_fits S).
  { rewrite Forall_forall in *. intros y Hy. apply Hall. apply (cands_incl mx sorted). rewrite Hc.
    apply in_or_app. right. exact Hy. }
  constructor; auto.
  - rewrite HP. rewrite <- (places_of_fitting S HS), <- HE. unfold E. rewrite HEs.
    rewrite (places_of_fitting _ (survivors_file_fits mx sorted Hall)). reflexivity.
  - assert (Hcur : cur s2 = sumZ r_of (survivors mx sorted)) by (apply inv_cur_sum; [exact HI|exact Hres|exact HEs]).
    split; [exact Hcur|]. destruct HI as (_ & Hle & _). lia.
  - simpl in HP1. rewrite Ho2. fold (E s1). symmetry. exact HP1.
Qed.

(* ------------------------------------------------------------------ *)
(* start-up on a directory of the population grammar *)

Theorem startup_global mx hd t files s present :
  population_ok t = true -> 0 < mx -> scanned t = Ok files -> startup mx hd t = Ok (s, present) ->
  Forall file_fits files /\
  exists s1 present1,
    load_loop (sort_atime files) (init mx hd) (map sf_place files) = Ok (s1, present1) /\
    (s, present) = finish (s1, present1) /\
    Global mx files s present (evq s1).
Proof.
  intros Hp Hmx Hs Hst. destruct (scanned_ok_population t Hp) as (files' & Hs' & HF).
  rewrite Hs in Hs'. injection Hs' as <-. split; [exact HF|].
  destruct (load_files_global mx hd files Hmx HF) as (s' & present' & s1 & present1 & Hll & Hlf & Hfin & HG).
  rewrite startup_scanned, Hs in Hst. simpl in Hst. rewrite Hlf in Hst. injection Hst as <- <-.
  exists s1, present1. split; [exact Hll|]. split; [exact Hfin|exact HG].
Qed.

(* the exact global outcome *)
Theorem startup_survivors mx hd t files s present :
  population_ok t = true -> 0 < mx -> scanned t = Ok files -> startup mx hd t = Ok (s, present) ->
  let kept := survivors mx (sort_atime files) in
  map ent (order s) = map sf_entry kept /\
  Permutation present (map sf_place kept) /\
  cur s = sumZ r_of kept /\ sumZ r_of kept <= mx /\
  fitting_suffix mx (cands mx (sort_atime files)) kept /\
  incl kept files.
Proof.
  intros Hp Hmx Hs Hst kept.
  destruct (startup_global mx hd t files s present Hp Hmx Hs Hst) as (HF & s1 & present1 & _ & _ & HG).
  destruct HG as [_ _ _ _ Hi Hl [Hc Hle] _]. fold kept in Hi, Hl, Hc.
  split; [exact Hi|]. split; [exact Hl|]. split; [exact Hc|]. split; [lia|].
  split; [split; [apply survivors_suffix|fold kept; lia]|].
  intros y Hy. eapply Permutation_in; [apply sort_atime_perm|]. apply (survivors_incl mx _ y Hy).
Qed.

Lemma filter_perm {A} (f : A -> bool) l l' : Permutation l l' -> Permutation (filter f l) (filter f l').
Proof.
  induction 1 as [|x l l' _ IH|x y l|l l' l'' _ IH1 _ IH2]; simpl.
  - constructor.
  - destruct (f x); [constructor|]; exact IH.
  - destruct (f x), (f y); try reflexivity. apply perm_swap.
  - eapply perm_trans; eassumption.
Qed.

(* longest fitting suffix, under key_mono (sizes per key non-decreasing in access order) *)
Theorem startup_longest mx hd t files s present :
  population_ok t = true -> 0 < mx -> scanned t = Ok files -> startup mx hd t = Ok (s, present) ->
  key_mono mx (sort_atime files) ->
  exists kept,
    map ent (order s) = map sf_entry kept /\
    longest_fitting_suffix mx (cands mx (sort_atime files)) kept.
Proof.
  intros Hp Hmx Hs Hst Hkm.
  destruct (startup_global mx hd t files s present Hp Hmx Hs Hst) as (HF & s1 & present1 & _ & _ & HG).
  exists (survivors mx (sort_atime files)). split; [apply (g_index _ _ _ _ _ HG)|].
  apply survivors_longest; [lia| |exact Hkm]. apply nonneg_of_fits.
  eapply Forall_perm; [apply Permutation_sym, sort_atime_perm|exact HF].
Qed.

(* distinct keys: the index is the longest fitting suffix of the indexable files in access order *)
Theorem startup_longest_distinct mx hd t files s present :
  population_ok t = true -> 0 < mx -> scanned t = Ok files -> startup mx hd t = Ok (s, present) ->
  NoDup (map sf_key (filter (fitsb mx) files)) ->
  exists kept,
    map ent (order s) = map sf_entry kept /\
    longest_fitting_suffix mx (filter (fitsb mx) (sort_atime files)) kept.
Proof.
  intros Hp Hmx Hs Hst Hnd.
  assert (Hnd' : NoDup (map sf_key (filter (fitsb mx) (sort_atime files)))).
  { eapply Permutation_NoDup; [|exact Hnd]. apply Permutation_map, filter_perm, Permutation_sym, sort_atime_perm. }
  rewrite <- (cands_distinct mx _ Hnd').
  apply (startup_longest mx hd t files s present Hp Hmx Hs Hst). apply key_mono_distinct. exact Hnd'.
Qed.

(* files of one key have one rounded size (in particular: all files have the same rounded size) *)
Theorem startup_longest_same_size mx hd t files s present :
  population_ok t = true -> 0 < mx -> scanned t = Ok files -> startup mx hd t = Ok (s, present) ->
  same_key_same_size mx files ->
  exists kept,
    map ent (order s) = map sf_entry kept /\
    longest_fitting_suffix mx (cands mx (sort_atime files)) kept.
Proof.
  intros Hp Hmx Hs Hst Hss.
  apply (startup_longest mx hd t files s present Hp Hmx Hs Hst). apply key_mono_same_size.
  intros x y Hx Hy. apply Hss; eapply Permutation_in; try apply sort_atime_perm; assumption.
Qed.

(* in general: every candidate that is not kept was, at some moment of the oldest-first pass (after
   the files P), the oldest live candidate of a run e :: K of live candidates exceeding max_size *)
Theorem startup_evicted_reason mx hd t files s present :
  population_ok t = true -> 0 < mx -> scanned t = Ok files -> startup mx hd t = Ok (s, present) ->
  exists evicted kept,
    cands mx (sort_atime files) = evicted ++ kept /\
    map ent (order s) = map sf_entry kept /\
    forall e, In e evicted ->
      exists P rest pre K, sort_atime files = P ++ rest /\ cands mx P = pre ++ e :: K /\
                           sumZ r_of (e :: K) > mx.
Proof.
  intros Hp Hmx Hs Hst.
  destruct (startup_global mx hd t files s present Hp Hmx Hs Hst) as (HF & s1 & present1 & _ & _ & HG).
  destruct (survivors_suffix mx (sort_atime files)) as [pre Hpre].
  exists pre, (survivors mx (sort_atime files)). split; [exact Hpre|]. split; [apply (g_index _ _ _ _ _ HG)|].
  apply evicted_reason. exact Hpre.
Qed.

(* deletion: each indexable file is either kept or handed to the remover exactly once (as
   multisets); the remover's queue q is the eviction queue at the end of the Add loop; with
   pairwise distinct places (a file system) no place is queued twice and no kept file is queued *)
Theorem startup_deleted_once mx hd t files s present :
  population_ok t = true -> 0 < mx -> scanned t = Ok files -> startup mx hd t = Ok (s, present) ->
  exists s1 present1,
    load_loop (sort_atime files) (init mx hd) (map sf_place files) = Ok (s1, present1) /\
    (s, present) = finish (s1, present1) /\
    Permutation (map sf_entry (filter (fitsb mx) (sort_atime files))) (evq s1 ++ map ent (order s)) /\
    Permutation (map sf_place (filter (fitsb mx) files)) (map eplace (evq s1) ++ present) /\
    (NoDup (map sf_place files) -> NoDup (map eplace (evq s1) ++ present)).
Proof.
  intros Hp Hmx Hs Hst.
  destruct (startup_global mx hd t files s present Hp Hmx Hs Hst) as (HF & s1 & present1 & Hll & Hfin & HG).
  exists s1, present1. split; [exact Hll|]. split; [exact Hfin|].
  pose proof (g_queue _ _ _ _ _ HG) as Hq. split; [exact Hq|].
  assert (Hall : Forall file_fits (sort_atime files)).
  { eapply Forall_perm; [apply Permutation_sym, sort_atime_perm|exact HF]. }
  assert (Hpl : Permutation (map sf_place (filter (fitsb mx) files)) (map eplace (evq s1) ++ present)).
  { rewrite (g_left _ _ _ _ _ HG).
    rewrite <- (places_of_fitting _ (survivors_file_fits mx _ Hall)), <- (g_index _ _ _ _ _ HG).
    rewrite <- map_app, <- Hq.
    assert (Hff : Forall file_fits (filter (fitsb mx) (sort_atime files))).
    { rewrite Forall_forall in *. intros y Hy. apply filter_In in Hy as [Hy _]. apply Hall, Hy. }
    rewrite (places_of_fitting _ Hff). apply Permutation_map, filter_perm, Permutation_sym, sort_atime_perm. }
  split; [exact Hpl|].
  intros Hnd. eapply Permutation_NoDup; [exact Hpl|].
  clear - Hnd. induction files as [|x l IH]; simpl; [constructor|]. inversion Hnd as [|? ? Hn Hnd']; subst.
  destruct (fitsb mx x); [|apply IH; exact Hnd']. simpl. constructor; [|apply IH; exact Hnd'].
  intros Hin. apply Hn. apply in_map_iff in Hin as (y & Hy1 & Hy2). apply filter_In in Hy2 as [Hy2 _].
  rewrite <- Hy1. apply in_map. exact Hy2.
Qed.

(* ------------------------------------------------------------------ *)
(* "the survivors are the longest fitting suffix of the candidates" is FALSE in general *)

Open Scope string_scope.
Definition wA := "aa11111111111111111111111111111111111111111111111111111111111111".
Definition wB := "bb22222222222222222222222222222222222222222222222222222222222222".
Definition wC := "cc33333333333333333333333333333333333333333333333333333333333333".
Definition wD := "dd44444444444444444444444444444444444444444444444444444444444444".

(* five files, access times 5 < 10 < 20 < 30 < 40, max_size 4 blocks:
     raw D  5 blocks (too large on its own)       t=5
     cas C  1 block                               t=10
     ac  A  3 blocks                              t=20   (superseded at t=40)
     ac  B  1 block                               t=30
     ac  A' 1 block, same key as A                t=40
   C is evicted when B arrives (C+A+B = 5 blocks), then A' replaces A: the index ends with B, A'
   (2 blocks) although the candidates C, B, A' (3 blocks) fit together. *)
Definition witness_tree (szA szA' : Z) : tree :=
  [TD "ac.v2" [SD "aa" [LF (mkFile (wA ++ "-r1") szA 20 1); LF (mkFile (wA ++ "-r2") szA' 40 2)];
               SD "bb" [LF (mkFile (wB ++ "-r1") 4096 30 3)]];
   TD "cas.v2" [SD "cc" [LF (mkFile (wC ++ "-4096-x1") 4096 10 4)]];
   TD "raw.v2" [SD "dd" [LF (mkFile (wD ++ "-77") 20000 5 5)]]].
Close Scope string_scope.

Definition witness_files (szA szA' : Z) : list sfile :=
  match scanned (witness_tree szA szA') with Ok f => f | _ => [] end.
Definition witness_state (szA szA' : Z) : state :=
  match startup 16384 0 (witness_tree szA szA') with Ok (s, _) => s | _ => init 0 0 end.
Definition witness_left (szA szA' : Z) : list place :=
  match startup 16384 0 (witness_tree szA szA') with Ok (_, p) => p | _ => [] end.

Theorem longest_suffix_refuted :
  exists mx hd t files s present,
    population_ok t = true /\ 0 < mx /\ scanned t = Ok files /\ startup mx hd t = Ok (s, present) /\
    NoDup (map sf_atime files) /\
    exists K', fitting_suffix mx (cands mx (sort_atime files)) K' /\
               (List.length (order s) < List.length K')%nat.
Proof.
  exists 16384, 0, (witness_tree 12288 4096), (witness_files 12288 4096), (witness_state 12288 4096),
    (witness_left 12288 4096).
  split; [vm_compute; reflexivity|]. split; [lia|]. split; [vm_compute; reflexivity|].
  split; [vm_compute; reflexivity|]. split.
  - vm_compute. repeat constructor; simpl; intuition discriminate.
  - exists (cands 16384 (sort_atime (witness_files 12288 4096))). split.
    + split; [exists []; reflexivity|]. vm_compute. discriminate.
    + vm_compute. lia.
Qed.
