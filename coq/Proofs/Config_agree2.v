(* Proofs/Config_agree2.v — Part 3: the two front ends on settings both can express. *)
From BR Require Import Base.Prelude Gen.Config Model.Config Bridge.Bridge_Config Proofs.Config_agree.
Open Scope string_scope.
Open Scope Z_scope.

(* ------------------------------------------------------------------ *)
(* general facts *)

Lemma eff_finish r : eff (bind r (fun c => Ok c)) = eff r.
Proof. destruct r; reflexivity. Qed.

Lemma finish_eff X c1 c2 : canon c1 = canon c2 ->
  eff (bind (validateConfig X c1) (fun c => Ok c)) = eff (bind (validateConfig X c2) (fun c => Ok c)).
Proof.
  intros H. rewrite !eff_finish, !validate_config_bridge.
  rewrite <- (validate_canon X c1), <- (validate_canon X c2), H. reflexivity.
Qed.

(* NewFromYaml's post-processing, as field updates *)
Lemma post_http (b : bool) v c :
  (if b then set_Config_HTTPAddress v c else c) = set_Config_HTTPAddress (if b then v else Config_HTTPAddress c) c.
Proof. destruct b, c; reflexivity. Qed.
Lemma post_grpc (b : bool) v c :
  (if b then set_Config_GRPCAddress v c else c) = set_Config_GRPCAddress (if b then v else Config_GRPCAddress c) c.
Proof. destruct b, c; reflexivity. Qed.
Lemma post_profile (b1 b2 : bool) v c :
  (if b1 then set_Config_ProfileAddress v c else if b2 then set_Config_ProfileAddress "" c else c)
  = set_Config_ProfileAddress (if b1 then v else if b2 then "" else Config_ProfileAddress c) c.
Proof. destruct b1, b2, c; reflexivity. Qed.
Lemma post_buckets c :
  match Config_MetricsDurationBuckets c with
  | Some g => set_Config_MetricsDurationBuckets (Some (sort_Z g)) c
  | None => c
  end = set_Config_MetricsDurationBuckets (option_map sort_Z (Config_MetricsDurationBuckets c)) c.
Proof. destruct c as [? ? ? ? ? ? ? ? ? ? ? ? ? ? ? ? ? ? ? ? ? ? ? ? ? ? ? b ? ? ? ? ? ? ? ?]; destruct b; reflexivity. Qed.

(* a value the flag's type accepts is accepted by the field the YAML key fills *)
Definition kind_sub (fk yk : kind) : bool :=
  kind_eqb fk yk ||
  match fk, yk with
  | KInt64, KInt | KInt, KInt64 | KInt, KIntPtr | KInt64, KIntPtr | KString, KURL => true
  | _, _ => false
  end.
Lemma kind_sub_spec fk yk v : kind_sub fk yk = true -> kind_accepts fk v = true -> kind_accepts yk v = true.
Proof. destruct fk, yk, v; simpl; intros; try discriminate; reflexivity. Qed.

(* finite check over the generated tables: the only YAML key whose field type does not accept what
   its flag accepts is ldap.cache_time (integer flag, time.Duration field) *)
Definition types_table_ok : bool :=
  forallb (fun r => match find_flag (settings_key (snd (fst r))) cli_flags with
                    | Some f => kind_sub (fl_kind f) (snd r) || String.eqb (settings_key (snd (fst r))) "ldap.cache_time"
                    | None => true
                    end) yaml_fields.
Lemma types_table_checked : types_table_ok = true.
Proof. vm_compute. reflexivity. Qed.

(* the sections and their trigger flags, tabulated from the generated wiring *)
Definition trig_table : list (list string * string) :=
  Eval vm_compute in map (fun st => (section_flags (fst st), snd st)) section_triggers.
Definition flags_for (trig : string) : list string :=
  match find (fun r => String.eqb (snd r) trig) trig_table with Some r => fst r | None => [] end.

Lemma sections_triggered_table s :
  sections_triggered s = forallb (fun r => negb (existsb (present s) (fst r)) || str_given s (snd r)) trig_table.
Proof.
  assert (E : trig_table = map (fun st => (section_flags (fst st), snd st)) section_triggers)
    by (vm_compute; reflexivity).
  unfold sections_triggered. rewrite E, forallb_map. cbn beta iota delta [fst snd]. reflexivity.
Qed.

Section Agree.
  Variable up : string -> option URL.
  Variable s : settings.
  Hypothesis Hflags : flags_ok s = true.
  Hypothesis Hyaml : yaml_keys_ok s = true.
  Hypothesis Hlisten : listeners_explicit s = true.
  Hypothesis Hcache : lookup "ldap.cache_time" s = None.
  Hypothesis Hsec : sections_triggered s = true.
  Hypothesis Hs3 : s3_defaults_given s = true.

  Let G := fun n => lookup n s.
  Let ctx := ctx_of G.
  Let y := yaml_data_of G.
  Let X := model_ext up.

  Lemma G_typed k v : G k = Some v -> flag_accepts k v = true.
  Proof. apply (typed s Hflags). Qed.

  Lemma yaml_types : yaml_types_ok y = true.
  Proof.
    unfold yaml_types_ok. apply forallb_forall. intros [[fp yp] yk] Hin. cbn [fst snd].
    unfold y, yaml_data_of. destruct (G (settings_key yp)) as [v|] eqn:E; [|reflexivity].
    pose proof types_table_checked as T. unfold types_table_ok in T.
    rewrite forallb_forall in T. specialize (T _ Hin). cbn [fst snd] in T.
    pose proof (G_typed _ _ E) as A. unfold flag_accepts in A.
    destruct (find_flag (settings_key yp) cli_flags) as [f|]; [|discriminate].
    apply orb_true_iff in T as [T|T].
    - exact (kind_sub_spec _ _ _ T A).
    - apply String.eqb_eq in T. rewrite T in E. unfold G in E. rewrite Hcache in E. discriminate.
  Qed.

  (* a section of the YAML file is there iff one of its flags is among the settings *)
  Definition no_flag (k : string) : bool := match find_flag k cli_flags with Some _ => false | None => true end.

  Lemma present_section (yks fls : list string) :
    forallb (fun yk => mem_str (settings_key yk) fls || no_flag (settings_key yk)) yks = true ->
    yaml_present y yks = true -> existsb (present s) fls = true.
  Proof.
    intros T P. unfold yaml_present in P. apply existsb_exists in P as [yk [Hin P]].
    rewrite forallb_forall in T. specialize (T _ Hin).
    unfold y, yaml_data_of in P. destruct (G (settings_key yk)) as [v|] eqn:E; [|discriminate].
    apply orb_true_iff in T as [T|T].
    - unfold mem_str in T. apply existsb_exists in T as [f [Hf Ef]]. apply String.eqb_eq in Ef. subst f.
      apply existsb_exists. exists (settings_key yk). split; [exact Hf|].
      unfold present. unfold G in E. rewrite E. reflexivity.
    - apply G_typed in E. unfold flag_accepts in E. unfold no_flag in T.
      destruct (find_flag (settings_key yk) cli_flags); discriminate.
  Qed.

  Lemma section_present (yks fls : list string) (trig ytrig : string) :
    forallb (fun yk => mem_str (settings_key yk) fls || no_flag (settings_key yk)) yks = true ->
    (existsb (present s) fls = true -> str_given s trig = true) ->
    settings_key ytrig = trig -> In ytrig yks ->
    yaml_present y yks = str_given s trig.
  Proof.
    intros T Imp K Hin. destruct (str_given s trig) eqn:E.
    - unfold yaml_present. apply existsb_exists. exists ytrig. split; [exact Hin|].
      unfold y, yaml_data_of. rewrite K. unfold str_given in E. unfold G.
      destruct (lookup trig s); [reflexivity|discriminate].
    - destruct (yaml_present y yks) eqn:P; [|reflexivity].
      apply (present_section _ _ T) in P. apply Imp in P. congruence.
  Qed.

  Lemma trig_imp fls trig : In (fls, trig) trig_table ->
    existsb (present s) fls = true -> str_given s trig = true.
  Proof.
    intros Hin P. rewrite sections_triggered_table in Hsec. rewrite forallb_forall in Hsec.
    specialize (Hsec _ Hin). cbn [fst snd] in Hsec. rewrite P in Hsec. exact Hsec.
  Qed.

  Lemma config_file_empty : Ctx_String ctx "config_file" = "".
  Proof.
    assert (E : G "config_file" = None) by (apply (not_yamlable s Hyaml); vm_compute; reflexivity).
    unfold ctx, ctx_of. cbn [Ctx_String]. unfold flag_value. rewrite E. reflexivity.
  Qed.

  (* ctx.Duration on the integer flag ldap.cache_time: "3600" is not a duration *)
  Lemma cache_time_zero : Ctx_Duration ctx "ldap.cache_time" = yD y "ldap.cache_time" 0.
  Proof.
    unfold ctx, ctx_of, y, yaml_data_of, yD. cbn [Ctx_Duration]. unfold flag_value.
    change (settings_key "ldap.cache_time") with "ldap.cache_time". unfold G. rewrite Hcache. reflexivity.
  Qed.

  Ltac trig t := rewrite (str_given_flag s Hflags t "") by (vm_compute; reflexivity).
  Ltac rS k yk d := try rewrite (ctxS s Hflags k yk d) by (vm_compute; reflexivity).
  Ltac rB k yk d := try rewrite (ctxB s Hflags k yk d) by (vm_compute; reflexivity).
  Ltac rD k yk d := try rewrite (ctxD s Hflags k yk d) by (vm_compute; reflexivity).
  Ltac rI k yk d :=
    let H := fresh in
    assert (H := ctxI s Hflags k yk d); destruct H as [?H ?H]; [vm_compute; reflexivity|vm_compute; reflexivity|];
    repeat match goal with E : Ctx_Int _ k = _ |- _ => try rewrite E; clear E
                      | E : Ctx_Int64 _ k = _ |- _ => try rewrite E; clear E end.
  Ltac sec ytrig trig :=
    let fls := eval vm_compute in (flags_for trig) in
    match goal with
    | |- context [yaml_present y (?h :: ?t)] =>
      rewrite (section_present (h :: t) fls trig ytrig)
        by first [ vm_compute; reflexivity
                 | apply trig_imp; unfold trig_table; simpl; repeat (first [left; reflexivity | right])
                 | simpl; repeat (first [left; reflexivity | right]) ]
    end.

  Lemma main : eff (from_flags X s) = eff (from_yaml X s).
  Proof.
    unfold from_flags, from_yaml. rewrite Hflags, Hyaml.
    fold G. fold ctx. fold y.
    unfold NewFromYaml, get.
    change (yaml_Unmarshal X) with (yaml_Unmarshal_by_tags up).
    change (url_Parse X) with up.
    change (net_JoinHostPort X) with join_host_port.
    change (strconv_Itoa X) with itoa.
    change (sort_Float64s X) with sort_Z.
    rewrite config_file_empty. cbn [String.eqb negb].
    rewrite cache_time_zero.
    unfold ctx, y, G.
    trig "http_proxy.url"; trig "grpc_proxy.url"; trig "gcs_proxy.bucket"; trig "ldap.url"; trig "s3.bucket"; trig "azblob.tenant_id".
    rS "dir" "dir" ""; rI "max_size" "max_size" 0; rI "max_size_hard_limit" "max_size_hard_limit" (-1); rS
    "storage_mode" "storage_mode" "zstd"; rS "zstd_implementation" "zstd_implementation" "go"; rS
    "http_address" "http_address" ""; rS "host" "host" ""; rI "port" "port" 8080; rS "grpc_address"
    "grpc_address" ""; rI "grpc_port" "grpc_port" 9092; rS "profile_address" "profile_address" ""; rS
    "profile_host" "profile_host" "127.0.0.1"; rI "profile_port" "profile_port" 0; rD "http_read_timeout"
    "http_read_timeout" 0; rD "http_write_timeout" "http_write_timeout" 0; rS "htpasswd_file" "htpasswd_file"
    ""; rS "min_tls_version" "min_tls_version" "1.0"; rS "tls_ca_file" "tls_ca_file" ""; rS "tls_cert_file"
    "tls_cert_file" ""; rS "tls_key_file" "tls_key_file" ""; rB "allow_unauthenticated_reads"
    "allow_unauthenticated_reads" false; rD "idle_timeout" "idle_timeout" 0; rI "max_queued_uploads"
    "max_queued_uploads" 1000000; rI "max_blob_size" "max_blob_size" 9223372036854775807; rI
    "max_proxy_blob_size" "max_proxy_blob_size" 9223372036854775807; rI "num_uploaders" "num_uploaders" 100;
    rS "grpc_proxy.url" "grpc_proxy.url" ""; rS "grpc_proxy.key_file" "grpc_proxy.key_file" ""; rS
    "grpc_proxy.cert_file" "grpc_proxy.cert_file" ""; rS "grpc_proxy.ca_file" "grpc_proxy.ca_file" ""; rS
    "http_proxy.url" "http_proxy.url" ""; rS "http_proxy.key_file" "http_proxy.key_file" ""; rS
    "http_proxy.cert_file" "http_proxy.cert_file" ""; rS "http_proxy.ca_file" "http_proxy.ca_file" ""; rS
    "gcs_proxy.bucket" "gcs_proxy.bucket" ""; rB "gcs_proxy.use_default_credentials"
    "gcs_proxy.use_default_credentials" false; rS "gcs_proxy.json_credentials_file"
    "gcs_proxy.json_credentials_file" ""; rS "ldap.url" "ldap.url" ""; rS "ldap.base_dn" "ldap.base_dn" ""; rS
    "ldap.bind_user" "ldap.bind_user" ""; rS "ldap.bind_password" "ldap.bind_password" ""; rS
    "ldap.username_attribute" "ldap.username_attribute" "uid"; rS "ldap.groups_query" "ldap.groups_query" "";
    rS "s3.endpoint" "s3_proxy.endpoint" ""; rS "s3.bucket" "s3_proxy.bucket" ""; rS "s3.bucket_lookup_type"
    "s3_proxy.bucket_lookup_type" "auto"; rS "s3.prefix" "s3_proxy.prefix" ""; rS "s3.auth_method"
    "s3_proxy.auth_method" ""; rS "s3.access_key_id" "s3_proxy.access_key_id" ""; rS "s3.secret_access_key"
    "s3_proxy.secret_access_key" ""; rS "s3.session_token" "s3_proxy.session_token" ""; rS "s3.signature_type"
    "s3_proxy.signature_type" ""; rS "s3.aws_shared_credentials_file" "s3_proxy.aws_shared_credentials_file"
    ""; rS "s3.aws_profile" "s3_proxy.aws_profile" "default"; rB "s3.disable_ssl" "s3_proxy.disable_ssl"
    false; rB "s3.update_timestamps" "s3_proxy.update_timestamps" false; rS "s3.iam_role_endpoint"
    "s3_proxy.iam_role_endpoint" ""; rS "s3.region" "s3_proxy.region" ""; rI "s3.max_idle_conns"
    "s3_proxy.max_idle_conns" 0; rS "azblob.tenant_id" "azblob_proxy.tenant_id" ""; rS
    "azblob.storage_account" "azblob_proxy.storage_account" ""; rS "azblob.container_name"
    "azblob_proxy.container_name" ""; rS "azblob.prefix" "azblob_proxy.prefix" ""; rB
    "azblob.update_timestamps" "azblob_proxy.update_timestamps" false; rS "azblob.auth_method"
    "azblob_proxy.auth_method" ""; rS "azblob.shared_key" "azblob_proxy.shared_key" ""; rS "azblob.client_id"
    "azblob_proxy.client_id" ""; rS "azblob.client_secret" "azblob_proxy.client_secret" ""; rS
    "azblob.cert_path" "azblob_proxy.cert_path" ""; rB "disable_http_ac_validation"
    "disable_http_ac_validation" false; rB "disable_grpc_ac_deps_check" "disable_grpc_ac_deps_check" false; rB
    "enable_ac_key_instance_mangling" "enable_ac_key_instance_mangling" false; rB "enable_endpoint_metrics"
    "enable_endpoint_metrics" false; rB "http_metrics_prefix" "http_metrics_prefix" false; rB
    "experimental_remote_asset_api" "experimental_remote_asset_api" false; rS "access_log_level"
    "access_log_level" "all"; rS "log_timezone" "log_timezone" "UTC".
    fold G. fold y.
    unfold yaml_Unmarshal_by_tags. rewrite yaml_types. cbn [negb].
    sec "http_proxy.url" "http_proxy.url". sec "grpc_proxy.url" "grpc_proxy.url".
    sec "ldap.url" "ldap.url". sec "s3_proxy.bucket" "s3.bucket". sec "azblob_proxy.tenant_id" "azblob.tenant_id".
    sec "gcs_proxy.bucket" "gcs_proxy.bucket".
    destruct (str_given s "http_proxy.url") eqn:Th;
      [destruct (up (yS y "http_proxy.url" "")) as [uh|] eqn:Uh|];
      (destruct (str_given s "grpc_proxy.url") eqn:Tg;
       [destruct (up (yS y "grpc_proxy.url" "")) as [ug|] eqn:Ug|]).
    all: try match goal with |- context [match Some ?yc with Some _ => _ | None => _ end] => set (YC := yc) end.
    all: cbv beta iota delta [bind].
    all: try lazymatch goal with |- eff (Err _) = eff (Err _) => reflexivity end.
    all: unfold newFromArgs.
  Abort.
End Agree.
