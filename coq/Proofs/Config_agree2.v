(* Proofs/Config_agree2.v — Part 3: the two front ends on settings both can express. *)
From BR Require Import Base.Prelude Gen.Config Model.Config Bridge.Bridge_Config Proofs.Config_agree.
Open Scope string_scope.
Open Scope Z_scope.

(* ------------------------------------------------------------------ *)
(* general facts *)

Lemma eff_finish r : eff (bind r (fun c => Ok c)) = eff r.
Proof. destruct r; reflexivity. Qed.

Lemma finish_eff X c1 c2 : canon c1 = canon c2 ->
  eff (bind (validateConfig X c1) (fun c => Ok c)) = eff (bind (validateConfig X c2) (fun c => Ok c)).
Proof.
  intros H. rewrite !eff_finish, !validate_config_bridge.
  rewrite <- (validate_canon X c1), <- (validate_canon X c2), H. reflexivity.
Qed.

(* NewFromYaml's post-processing, as field updates *)
Lemma post_http (b : bool) v c :
  (if b then set_Config_HTTPAddress v c else c) = set_Config_HTTPAddress (if b then v else Config_HTTPAddress c) c.
Proof. destruct b, c; reflexivity. Qed.
Lemma post_grpc (b : bool) v c :
  (if b then set_Config_GRPCAddress v c else c) = set_Config_GRPCAddress (if b then v else Config_GRPCAddress c) c.
Proof. destruct b, c; reflexivity. Qed.
Lemma post_profile (b1 b2 : bool) v c :
  (if b1 then set_Config_ProfileAddress v c else if b2 then set_Config_ProfileAddress "" c else c)
  = set_Config_ProfileAddress (if b1 then v else if b2 then "" else Config_ProfileAddress c) c.
Proof. destruct b1, b2, c; reflexivity. Qed.
Lemma post_buckets c :
  match Config_MetricsDurationBuckets c with
  | Some g => set_Config_MetricsDurationBuckets (Some (sort_Z g)) c
  | None => c
  end = set_Config_MetricsDurationBuckets (option_map sort_Z (Config_MetricsDurationBuckets c)) c.
Proof. destruct c as [? ? ? ? ? ? ? ? ? ? ? ? ? ? ? ? ? ? ? ? ? ? ? ? ? ? ? b ? ? ? ? ? ? ? ?]; destruct b; reflexivity. Qed.

(* a value the flag's type accepts is accepted by the field the YAML key fills *)
Definition kind_sub (fk yk : kind) : bool :=
  kind_eqb fk yk ||
  match fk, yk with
  | KInt64, KInt | KInt, KInt64 | KInt, KIntPtr | KInt64, KIntPtr | KString, KURL => true
  | _, _ => false
  end.
Lemma kind_sub_spec fk yk v : kind_sub fk yk = true -> kind_accepts fk v = true -> kind_accepts yk v = true.
Proof. destruct fk, yk, v; simpl; intros; try discriminate; reflexivity. Qed.

(* finite check over the generated tables: the only YAML key whose field type does not accept what
   its flag accepts is ldap.cache_time (integer flag, time.Duration field) *)
Definition types_table_ok : bool :=
  forallb (fun r => match find_flag (settings_key (snd (fst r))) cli_flags with
                    | Some f => kind_sub (fl_kind f) (snd r) || String.eqb (settings_key (snd (fst r))) "ldap.cache_time"
                    | None => true
                    end) yaml_fields.
Lemma types_table_checked : types_table_ok = true.
Proof. vm_compute. reflexivity. Qed.

(* both front ends end in validateConfig *)
Lemma finish_ok X c0 c : bind (validateConfig X c0) (fun c => Ok c) = Ok c -> validate_config X c0 = Ok c.
Proof. rewrite validate_config_bridge. destruct (validate_config X c0); simpl; congruence. Qed.

Lemma accepted_means_validated up s c :
  from_flags (model_ext up) s = Ok c \/ from_yaml (model_ext up) s = Ok c ->
  exists c0, validate_config (model_ext up) c0 = Ok c.
Proof.
  intros [H|H].
  - unfold from_flags in H. destruct (flags_ok s); [|discriminate]. unfold get in H.
    destruct (negb _); [discriminate|].
    match type of H with bind ?a _ = _ => destruct a as [hc| | |]; try discriminate end. cbv beta iota delta [bind] in H.
    match type of H with match ?a with _ => _ end = _ => destruct a as [gb| | |]; try discriminate end.
    unfold newFromArgs in H. cbv zeta in H. eexists. apply finish_ok. exact H.
  - unfold from_yaml in H. destruct (yaml_keys_ok s); [|discriminate]. unfold NewFromYaml in H.
    cbv zeta in H.
    match type of H with match ?a with _ => _ end = _ => destruct a as [yc|]; [|discriminate] end.
    eexists. apply finish_ok. exact H.
Qed.

(* the sections and their trigger flags, tabulated from the generated wiring *)
Definition trig_table : list (list string * string) :=
  Eval vm_compute in map (fun st => (section_flags (fst st), snd st)) section_triggers.
Definition flags_for (trig : string) : list string :=
  match find (fun r => String.eqb (snd r) trig) trig_table with Some r => fst r | None => [] end.

Lemma sections_triggered_table s :
  sections_triggered s = forallb (fun r => negb (existsb (present s) (fst r)) || str_given s (snd r)) trig_table.
Proof.
  assert (E : trig_table = map (fun st => (section_flags (fst st), snd st)) section_triggers)
    by (vm_compute; reflexivity).
  unfold sections_triggered. rewrite E, forallb_map. cbn beta iota delta [fst snd]. reflexivity.
Qed.

Section Agree.
  Variable up : string -> option URL.
  Variable s : settings.
  Hypothesis Hflags : flags_ok s = true.
  Hypothesis Hyaml : yaml_keys_ok s = true.
  Hypothesis Hlisten : listeners_explicit s = true.
  Hypothesis Hcache : lookup "ldap.cache_time" s = None.
  Hypothesis Hsec : sections_triggered s = true.
  Hypothesis Hs3 : s3_defaults_given s = true.

  Let G := fun n => lookup n s.
  Let ctx := ctx_of G.
  Let y := yaml_data_of G.
  Let X := model_ext up.

  Lemma G_typed k v : G k = Some v -> flag_accepts k v = true.
  Proof. apply (typed s Hflags). Qed.

  Lemma yaml_types : yaml_types_ok y = true.
  Proof.
    unfold yaml_types_ok. apply forallb_forall. intros [[fp yp] yk] Hin. cbn [fst snd].
    unfold y, yaml_data_of. destruct (G (settings_key yp)) as [v|] eqn:E; [|reflexivity].
    pose proof types_table_checked as T. unfold types_table_ok in T.
    rewrite forallb_forall in T. specialize (T _ Hin). cbn [fst snd] in T.
    pose proof (G_typed _ _ E) as A. unfold flag_accepts in A.
    destruct (find_flag (settings_key yp) cli_flags) as [f|]; [|discriminate].
    apply orb_true_iff in T as [T|T].
    - exact (kind_sub_spec _ _ _ T A).
    - apply String.eqb_eq in T. rewrite T in E. unfold G in E. rewrite Hcache in E. discriminate.
  Qed.

  (* a section of the YAML file is there iff one of its flags is among the settings *)
  Definition no_flag (k : string) : bool := match find_flag k cli_flags with Some _ => false | None => true end.

  Lemma present_section (yks fls : list string) :
    forallb (fun yk => mem_str (settings_key yk) fls || no_flag (settings_key yk)) yks = true ->
    yaml_present y yks = true -> existsb (present s) fls = true.
  Proof.
    intros T P. unfold yaml_present in P. apply existsb_exists in P as [yk [Hin P]].
    rewrite forallb_forall in T. specialize (T _ Hin).
    unfold y, yaml_data_of in P. destruct (G (settings_key yk)) as [v|] eqn:E; [|discriminate].
    apply orb_true_iff in T as [T|T].
    - unfold mem_str in T. apply existsb_exists in T as [f [Hf Ef]]. apply String.eqb_eq in Ef. subst f.
      apply existsb_exists. exists (settings_key yk). split; [exact Hf|].
      unfold present. unfold G in E. rewrite E. reflexivity.
    - apply G_typed in E. unfold flag_accepts in E. unfold no_flag in T.
      destruct (find_flag (settings_key yk) cli_flags); discriminate.
  Qed.

  Lemma section_present (yks fls : list string) (trig ytrig : string) :
    forallb (fun yk => mem_str (settings_key yk) fls || no_flag (settings_key yk)) yks = true ->
    (existsb (present s) fls = true -> str_given s trig = true) ->
    settings_key ytrig = trig -> In ytrig yks ->
    yaml_present y yks = str_given s trig.
  Proof.
    intros T Imp K Hin. destruct (str_given s trig) eqn:E.
    - unfold yaml_present. apply existsb_exists. exists ytrig. split; [exact Hin|].
      unfold y, yaml_data_of. rewrite K. unfold str_given in E. unfold G.
      destruct (lookup trig s); [reflexivity|discriminate].
    - destruct (yaml_present y yks) eqn:P; [|reflexivity].
      apply (present_section _ _ T) in P. apply Imp in P. congruence.
  Qed.

  Lemma trig_imp fls trig : In (fls, trig) trig_table ->
    existsb (present s) fls = true -> str_given s trig = true.
  Proof.
    intros Hin P. rewrite sections_triggered_table in Hsec. rewrite forallb_forall in Hsec.
    specialize (Hsec _ Hin). cbn [fst snd] in Hsec. rewrite P in Hsec. exact Hsec.
  Qed.

  Lemma config_file_empty : Ctx_String ctx "config_file" = "".
  Proof.
    assert (E : G "config_file" = None) by (apply (not_yamlable s Hyaml); vm_compute; reflexivity).
    unfold ctx, ctx_of. cbn [Ctx_String]. unfold flag_value. rewrite E. reflexivity.
  Qed.

  (* ctx.Duration on the integer flag ldap.cache_time: "3600" is not a duration *)
  Lemma cache_time_zero : Ctx_Duration ctx "ldap.cache_time" = yD y "ldap.cache_time" 0.
  Proof.
    unfold ctx, ctx_of, y, yaml_data_of, yD. cbn [Ctx_Duration]. unfold flag_value.
    change (settings_key "ldap.cache_time") with "ldap.cache_time". unfold G. rewrite Hcache. reflexivity.
  Qed.

  Ltac trig t := rewrite (str_given_flag s Hflags t "") by (vm_compute; reflexivity).
  Ltac rS k yk d := try rewrite (ctxS s Hflags k yk d) by (vm_compute; reflexivity).
  Ltac rB k yk d := try rewrite (ctxB s Hflags k yk d) by (vm_compute; reflexivity).
  Ltac rD k yk d := try rewrite (ctxD s Hflags k yk d) by (vm_compute; reflexivity).
  Ltac rI k yk d :=
    let H := fresh in
    assert (H := ctxI s Hflags k yk d); destruct H as [?H ?H]; [vm_compute; reflexivity|vm_compute; reflexivity|];
    repeat match goal with E : Ctx_Int _ k = _ |- _ => try rewrite E; clear E
                      | E : Ctx_Int64 _ k = _ |- _ => try rewrite E; clear E end.
  Ltac sec ytrig trig :=
    let fls := eval vm_compute in (flags_for trig) in
    match goal with
    | |- context [yaml_present y (?h :: ?t)] =>
      rewrite (section_present (h :: t) fls trig ytrig)
        by first [ vm_compute; reflexivity
                 | apply trig_imp; unfold trig_table; simpl; repeat (first [left; reflexivity | right])
                 | simpl; repeat (first [left; reflexivity | right]) ]
    end.

End Agree.
