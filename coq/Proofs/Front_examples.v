(* Proofs/Front_examples.v — concrete requests evaluated on the model (non-vacuity of the C01/C02/C18
   statements about the front-end adapters): all ten write paths at exactly the limit, one byte over
   it, with corrupted payloads, and the read paths on what was stored. *)
From BR Require Import Base.Prelude Model.LRU Model.Disk Model.Front Proofs.Front_base Proofs.Front_ack Proofs.Front_reject.
Open Scope string_scope.
Open Scope Z_scope.

Definition hA := "aaaaaaaaaaaaaaaaaaaaaaaaaaaaaaaaaaaaaaaaaaaaaaaaaaaaaaaaaaaaaaaa".
Definition hB := "bbbbbbbbbbbbbbbbbbbbbbbbbbbbbbbbbbbbbbbbbbbbbbbbbbbbbbbbbbbbbbbb".
Definition hC := "cccccccccccccccccccccccccccccccccccccccccccccccccccccccccccccccc".
Definition hD := "dddddddddddddddddddddddddddddddddddddddddddddddddddddddddddddddd".
Definition hE := "eeeeeeeeeeeeeeeeeeeeeeeeeeeeeeeeeeeeeeeeeeeeeeeeeeeeeeeeeeeeeeee".
Definition hF := "ffffffffffffffffffffffffffffffffffffffffffffffffffffffffffffffff".
Definition h0 := "0000000000000000000000000000000000000000000000000000000000000000".
Definition h1 := "1111111111111111111111111111111111111111111111111111111111111111".
Definition h2 := "2222222222222222222222222222222222222222222222222222222222222222".
Definition h3 := "3333333333333333333333333333333333333333333333333333333333333333".
Definition h4 := "4444444444444444444444444444444444444444444444444444444444444444".
Definition h5 := "5555555555555555555555555555555555555555555555555555555555555555".

Definition good (cid n : Z) : body := mkBody cid n true true.
Definition no_inl : inl_blob := mkInl false None "" (mkBody 0 0 true true) "".

(* max_blob_size = 1000, both storage modes *)
Definition cfgZ := wired true 1000.
Definition cfgU := wired false 1000.

(* all ten write paths with a well-formed item of EXACTLY the limit, then FindMissingBlobs *)
Definition at_limit : list fop :=
  [FHttpPut true hA 1000 XAbsent CeNone (good 1 1000) "r1";
   FHttpPut true hB 311 (XVal 1000) CeZstd (good 2 1000) "r2";
   FBatchUpdate [mkBU false hC 1000 CIdentity (good 3 1000) "r3"; mkBU false hD 1000 CZstd (good 4 1000) "r4"];
   FBsWrite (WN false hE 1000) [mkWMsg true 0 400 false; mkWMsg true 400 600 true] false (good 5 1000) "r5";
   FBsWrite (WN true hF 1000) [mkWMsg true 0 77 true] false (good 6 1000) "r6";
   FBatchUpdate [mkBU false h0 600 CIdentity (good 7 600) "r7"; mkBU false h1 400 CIdentity (good 8 400) "r8"];
   FSplice 1 [mkChunk false h0 600; mkChunk false h1 400] (Some (h2, 1000)) "" true 9 "r9";
   FSplice 0 [mkChunk false h1 400; mkChunk false h0 600] None h3 true 10 "r10";
   FUpdateAR h4 5 true [] (mkInl true (Some (h5, 1000)) h5 (good 11 1000) "r11") no_inl 100 "r12";
   FFetch (Some "9999999999999999999999999999999999999999999999999999999999999999")
          [mkUp true 1000 (good 12 1000) "9999999999999999999999999999999999999999999999999999999999999999" "r13"];
   FFindMissing [(hA, 1000); (hB, 1000); (hC, 1000); (hD, 1000); (hE, 1000); (hF, 1000); (h2, 1000); (h3, 1000); (h5, 1000);
                 ("9999999999999999999999999999999999999999999999999999999999999999", 1000)];
   FCaps].

Definition at_limit_expected : list fobs :=
  [OSt SOk; OSt SOk; OSts SOk [SOk; SOk]; OSt SOk; OSt SOk; OSts SOk [SOk; SOk]; OSt SOk; OSt SOk; OSt SOk;
   OFetched SOk (Some ("9999999999999999999999999999999999999999999999999999999999999999", 1000));
   OMiss []; OCap 1000].

Lemma at_limit_accepted :
  run_ops cfgZ store0 at_limit = at_limit_expected /\ run_ops cfgU store0 at_limit = at_limit_expected.
Proof. split; vm_compute; reflexivity. Qed.

(* the same ten paths one byte over the limit: client error everywhere (FetchBlob: NOT_FOUND), nothing present *)
Definition over_limit : list fop :=
  [FHttpPut true hA 1001 XAbsent CeNone (good 1 1001) "r1";
   FHttpPut true hB 311 (XVal 1001) CeZstd (good 2 1001) "r2";
   FBatchUpdate [mkBU false hC 1001 CIdentity (good 3 1001) "r3"; mkBU false hD 1001 CZstd (good 4 1001) "r4"];
   FBsWrite (WN false hE 1001) [mkWMsg true 0 400 false; mkWMsg true 400 601 true] false (good 5 1001) "r5";
   FBsWrite (WN true hF 1001) [mkWMsg true 0 77 true] false (good 6 1001) "r6";
   FBatchUpdate [mkBU false h0 600 CIdentity (good 7 600) "r7"; mkBU false h1 401 CIdentity (good 8 401) "r8"];
   FSplice 1 [mkChunk false h0 600; mkChunk false h1 401] (Some (h2, 1001)) "" true 9 "r9";
   FSplice 0 [mkChunk false h1 401; mkChunk false h0 600] None h3 true 10 "r10";
   FUpdateAR h4 5 true [] (mkInl true (Some (h5, 1001)) h5 (good 11 1001) "r11") no_inl 100 "r12";
   FFetch (Some "9999999999999999999999999999999999999999999999999999999999999999")
          [mkUp true 1001 (good 12 1001) "9999999999999999999999999999999999999999999999999999999999999999" "r13"];
   FFindMissing [(hA, 1001); (hB, 1001); (hC, 1001); (hD, 1001); (hE, 1001); (hF, 1001); (h2, 1001); (h3, 1001); (h5, 1001);
                 ("9999999999999999999999999999999999999999999999999999999999999999", 1001)];
   FHttpHead h4].

Definition over_limit_expected : list fobs :=
  [OSt bad; OSt bad; OSts SOk [bad; bad]; OSt bad; OSt bad; OSts SOk [SOk; SOk]; OSt bad; OSt bad; OSt bad;
   OFetched (SErr ENotFound) None;
   OMiss [(hA, 1001); (hB, 1001); (hC, 1001); (hD, 1001); (hE, 1001); (hF, 1001); (h2, 1001); (h3, 1001); (h5, 1001);
          ("9999999999999999999999999999999999999999999999999999999999999999", 1001)];
   OHead (SErr ENotFound) (-1)].

Lemma over_limit_refused :
  run_ops cfgZ store0 over_limit = over_limit_expected /\ run_ops cfgU store0 over_limit = over_limit_expected.
Proof. split; vm_compute; reflexivity. Qed.

(* corrupted uploads: flipped byte (hash), truncated, extended, garbage zstd, trailing bytes, aborted
   stream, non-zero first offset, renamed mid-stream, unsupported encoding, wrong declared size *)
Definition corrupted : list fop :=
  [FHttpPut true hA 100 XAbsent CeNone (mkBody 1 100 true false) "r1";                 (* flipped *)
   FHttpPut true hA 99 (XVal 100) CeNone (mkBody 2 99 true false) "r2";                (* truncated *)
   FHttpPut true hA 40 (XVal 100) CeZstd (mkBody 0 0 false false) "r3";                (* garbage zstd *)
   FHttpPut true hA 60 (XVal 100) CeZstd (mkBody 3 100 false true) "r4";               (* bytes behind the frame *)
   FHttpPut true hA 60 (XVal 100) CeZstd (mkBody 4 105 true false) "r5";               (* an extra frame *)
   FHttpPut true hA 100 XAbsent CeOther (good 5 100) "r6";                             (* Content-Encoding: gzip *)
   FBatchUpdate [mkBU false hA 101 CIdentity (good 5 100) "r7"];                       (* declared size + 1 *)
   FBatchUpdate [mkBU false hA 100 CZstd (mkBody 0 0 false false) "r8"];               (* undecodable *)
   FBsWrite (WN false hA 100) [mkWMsg true 0 60 false; mkWMsg true 60 50 true] false (mkBody 6 110 true false) "r9";   (* extended *)
   FBsWrite (WN false hA 100) [mkWMsg true 0 60 false] true (mkBody 7 60 false false) "r10";                          (* aborted *)
   FBsWrite (WN false hA 100) [mkWMsg true 5 100 true] false (good 5 100) "r11";                                       (* offset 5 *)
   FBsWrite (WN true hA 100) [mkWMsg true 0 30 false; mkWMsg false 30 30 true] false (good 5 100) "r12";               (* renamed *)
   FBsWrite WNBad [mkWMsg true 0 30 true] false (good 5 100) "r13";                                                    (* compressed-blobs/gzip *)
   FSplice 1 [mkChunk false h0 600; mkChunk false h1 400] (Some (h2, 1000)) "" true 9 "r14";                           (* chunks not stored *)
   FUpdateAR h4 5 true [] (mkInl true (Some (h5, 100)) hB (mkBody 8 100 true false) "r15") no_inl 100 "r16";            (* inlined, wrong hash *)
   FFetch (Some h5) [mkUp true 100 (mkBody 9 100 true false) hB "r17"; mkUp true (-1) (mkBody 9 100 true false) hB "r18";
                     mkUp true 100 (mkBody 10 70 false false) hC "r19"];                                              (* wrong content, cut short *)
   FFindMissing [(hA, 100); (hA, 101); (h2, 1000); (h5, 100)];
   FHttpHead h4].

Definition corrupted_expected : list fobs :=
  [OSt (SErr EInternal); OSt (SErr EInternal); OSt (SErr EInternal); OSt (SErr EInternal); OSt (SErr EInternal); OSt bad;
   OSts SOk [bad]; OSts SOk [SErr EInternal];
   OSt (SErr EOutOfRange); OSt (SErr EInternal); OSt (SErr EInternal); OSt bad; OSt bad;
   OSt (SErr ENotFound); OSt (SErr EInternal); OFetched (SErr ENotFound) None;
   OMiss [(hA, 100); (hA, 101); (h2, 1000); (h5, 100)]; OHead (SErr ENotFound) (-1)].

Lemma corrupted_rejected :
  run_ops (wired true 100000) store0 corrupted = corrupted_expected /\
  run_ops (wired false 100000) store0 corrupted = corrupted_expected.
Proof. split; vm_compute; reflexivity. Qed.

(* reads of a stored blob (n = 5000) through every path, offsets and limits; the empty blob *)
Definition reads_ops : list fop :=
  [FHttpPut true hA 5000 XAbsent CeNone (good 1 5000) "r1";
   FHttpGet hA false; FHttpGet hA true; FHttpHead hA;
   FBatchRead [(hA, 5000); (hA, 5001); (hB, 7); (emptySha256, 0)] false;
   FBatchRead [(hA, 5000)] true;
   FBsRead (RN false hA 5000) 0 0 [5000];
   FBsRead (RN false hA 5000) 1 0 [4096; 903];
   FBsRead (RN false hA 5000) 4999 1 [1];
   FBsRead (RN false hA 5000) 1000 3999 [2000; 2000];       (* limit one short: OutOfRange after 2000 bytes *)
   FBsRead (RN false hA 5000) 5000 0 [];                    (* offset = n: refused *)
   FBsRead (RN false hA 5000) 5001 0 [];
   FBsRead (RN true hA 5000) 2500 0 [1300];
   FBsRead (RN true hA 5000) 0 10 [];
   FBsRead (RN true emptySha256 0) 0 0 [];
   FGetTree (hA, 5000) [(1, [(hB, 7); (emptySha256, 0)])]].

Definition reads_expected : list fobs :=
  [OSt SOk;
   ORd (mkRd SOk (Some 5000) 1 5000); ORd (mkRd SOk None 1 5000); OHead SOk 5000;
   ORds SOk [mkRd SOk (Some 5000) 1 5000; rd_err ENotFound; rd_err ENotFound; mkRd SOk (Some 0) 0 0];
   ORds SOk [mkRd SOk (Some 5000) 1 5000];
   ORd (mkRd SOk None 1 5000);
   ORd (mkRd SOk None 1 4999);
   ORd (mkRd SOk None 1 1);
   ORd (mkRd (SErr EOutOfRange) None 1 2000);
   ORd (rd_err EBadRequest);
   ORd (rd_err EOutOfRange);
   ORd (mkRd SOk None 1 2500);
   ORd (rd_err EBadRequest);
   ORd (mkRd SOk None 0 0);
   OTree SOk [1; 0]].

Lemma reads_served :
  run_ops (wired true 100000) store0 reads_ops = reads_expected /\
  run_ops (wired false 100000) store0 reads_ops = reads_expected.
Proof. split; vm_compute; reflexivity. Qed.

(* regression cases for two repaired defects: a blob sent with an unsupported compressor is refused
   (it used to be answered OK and not stored); data sent under the empty digest through
   ByteStream.Write is refused (the already-exists shortcut used to answer OK), while a genuinely
   empty upload is accepted *)
Definition hole_entry : bu_entry := mkBU false hA 100 (COther 2) (good 1 100) "r1".

Definition repaired : list fop :=
  [FBatchUpdate [hole_entry];
   FBsWrite (WN false emptySha256 0) [mkWMsg true 0 4096 true] false (mkBody 2 4096 true false) "r2";
   FBsWrite (WN true emptySha256 0) [mkWMsg true 0 50 true] false (mkBody 3 4096 true false) "r3";
   FBsWrite (WN false emptySha256 0) [mkWMsg true 0 0 true] false (mkBody 0 0 true true) "r4";
   FBsWrite (WN true emptySha256 0) [mkWMsg true 0 9 true] false (mkBody 0 0 true true) "r5";
   FHttpPut true emptySha256 5 (XVal 0) CeNone (mkBody 4 5 true false) "r6";
   FFindMissing [(hA, 100)]].

Definition repaired_expected : list fobs :=
  [OSts SOk [bad]; OSt (SErr EOutOfRange); OSt bad; OSt SOk; OSt SOk; OSt bad; OMiss [(hA, 100)]].

Lemma repaired_defects_stay_repaired :
  run_ops cfgZ store0 repaired = repaired_expected /\ run_ops cfgU store0 repaired = repaired_expected.
Proof. split; vm_compute; reflexivity. Qed.

(* a directory written under one storage mode, served after a restart under the other; more entries
   written there; a second restart back: every read returns the same content as before *)
Definition cross_reads : list fop :=
  [FHttpGet hA false; FHttpGet hA true; FHttpHead hA;
   FBatchRead [(hA, 5000); (hB, 70000)] false; FBatchRead [(hA, 5000); (hB, 70000)] true;
   FBsRead (RN false hB 70000) 65536 0 [4464]; FBsRead (RN true hB 70000) 1 0 [];
   FGetTree (hA, 5000) [(1, [(hB, 70000)]); (2, [])]].
Definition cross_reads_expected : list fobs :=
  [ORd (mkRd SOk (Some 5000) 1 5000); ORd (mkRd SOk None 1 5000); OHead SOk 5000;
   ORds SOk [mkRd SOk (Some 5000) 1 5000; mkRd SOk (Some 70000) 2 70000];
   ORds SOk [mkRd SOk (Some 5000) 1 5000; mkRd SOk (Some 70000) 2 70000];
   ORd (mkRd SOk None 2 4464); ORd (mkRd SOk None 2 69999);
   OTree SOk [1; 2]].

Definition cross_mode (first other : bool) : list fop :=
  [FHttpPut true hA 5000 XAbsent CeNone (good 1 5000) "r1";
   FBatchUpdate [mkBU false hB 70000 CZstd (good 2 70000) "r2"]]
  ++ cross_reads ++ [FRestart other] ++ cross_reads
  ++ [FBsWrite (WN false hC 300) [mkWMsg true 0 300 true] false (good 3 300) "r3"; FHttpGet hC true]
  ++ [FRestart first] ++ cross_reads ++ [FHttpGet hC false; FFindMissing [(hA, 5000); (hB, 70000); (hC, 300)]].
Definition cross_mode_expected : list fobs :=
  [OSt SOk; OSts SOk [SOk]] ++ cross_reads_expected ++ [OSt SOk] ++ cross_reads_expected
  ++ [OSt SOk; ORd (mkRd SOk None 3 300)]
  ++ [OSt SOk] ++ cross_reads_expected ++ [ORd (mkRd SOk (Some 300) 3 300); OMiss []].

Lemma cross_mode_served :
  run_ops (wired true 100000) store0 (cross_mode true false) = cross_mode_expected /\
  run_ops (wired false 100000) store0 (cross_mode false true) = cross_mode_expected.
Proof. split; vm_compute; reflexivity. Qed.

(* max_size_hard_limit on the front end: a cache of 3 blocks with the limit one block above; three
   one-block blobs fill it, a fourth is admitted and pushes the oldest into the deletion backlog (the
   remover is held back: no FDrain); now currentSize + backlog = limit and every write path refuses
   with the retryable class (SpliceBlob and FetchBlob included: two repaired defects),
   changing nothing; reads go on; after the remover ran the same upload is admitted *)
Definition hl_fill : list fop :=
  [FInit 12288 16384;
   FBatchUpdate [mkBU false hA 4096 CIdentity (good 1 4096) "r1"];
   FBatchUpdate [mkBU false hB 2048 CIdentity (good 2 2048) "r2"];
   FBatchUpdate [mkBU false hC 2048 CIdentity (good 3 2048) "r3"];
   FBatchUpdate [mkBU false hD 4096 CIdentity (good 4 4096) "r4"];
   FStats].
Definition hl_refused : list fop :=
  [FHttpPut true hE 4096 XAbsent CeNone (good 5 4096) "r5";
   FHttpPut true hE 300 (XVal 4096) CeZstd (good 5 4096) "r6";
   FHttpPutAC hF 20 true 20 "r7";
   FBatchUpdate [mkBU false hE 4096 CIdentity (good 5 4096) "r8"; mkBU false hF 4096 CZstd (good 6 4096) "r9"];
   FBsWrite (WN false hE 4096) [mkWMsg true 0 4000 false; mkWMsg true 4000 96 true] false (good 5 4096) "r10";
   FBsWrite (WN true hE 4096) [mkWMsg true 0 300 true] false (good 5 4096) "r11";
   FUpdateAR h4 5 true [] no_inl no_inl 30 "r12";
   FUpdateAR h4 5 true [] (mkInl true (Some (h5, 100)) h5 (good 7 100) "r13") no_inl 130 "r14";
   FSplice 1 [mkChunk false hB 2048; mkChunk false hC 2048] (Some (h2, 4096)) "" true 8 "r15";
   FFetch (Some h3) [mkUp true 4096 (good 9 4096) h3 "r16"];
   FStats].
Definition hl_reads : list fop :=
  [FHttpGet hD false; FBatchRead [(hB, 2048)] true; FBsRead (RN false hC 2048) 1 0 [2047]; FHttpHead hD;
   FFindMissing [(hA, 4096); (hE, 4096); (h2, 4096); (h3, 4096); (h5, 100)]; FHttpHead h4; FStats].
Definition hl_retry : list fop :=
  [FDrain; FStats; FHttpPut true hE 4096 XAbsent CeNone (good 5 4096) "r17"; FStats].

Definition hl_expected : list fobs :=
  [OSt SOk; OSts SOk [SOk]; OSts SOk [SOk]; OSts SOk [SOk]; OSts SOk [SOk]; OStats 12288 0 3 4096]
  ++ [OSt (SErr EInsufficient); OSt (SErr EInsufficient); OSt (SErr EInsufficient);
      OSts SOk [SErr EInsufficient; SErr EInsufficient];
      OSt (SErr EInsufficient); OSt (SErr EInsufficient); OSt (SErr EInsufficient); OSt (SErr EInsufficient);
      OSt (SErr EInsufficient); OFetched (SErr EInsufficient) None; OStats 12288 0 3 4096]
  ++ [ORd (mkRd SOk (Some 4096) 4 4096); ORds SOk [mkRd SOk (Some 2048) 2 2048]; ORd (mkRd SOk None 3 2047); OHead SOk 4096;
      OMiss [(hA, 4096); (hE, 4096); (h2, 4096); (h3, 4096); (h5, 100)]; OHead (SErr ENotFound) (-1); OStats 12288 0 3 4096]
  ++ [OSt SOk; OStats 12288 0 3 0; OSt SOk; OStats 12288 0 3 2048].   (* the backlog counts the evicted file's own 2048 bytes *)

Lemma hard_limit_scenario :
  run_ops (wired false 100000) store0 (hl_fill ++ hl_refused ++ hl_reads ++ hl_retry) = hl_expected.
Proof. vm_compute. reflexivity. Qed.

(* with the limit off the same uploads are admitted *)
Lemma hard_limit_off_scenario :
  run_ops (wired false 100000) store0
    ([FInit 12288 0] ++ tl hl_fill ++ [FHttpPut true hE 4096 XAbsent CeNone (good 5 4096) "r5";
                                       FBsWrite (WN true hF 4096) [mkWMsg true 0 300 true] false (good 6 4096) "r6"; FStats])
  = [OSt SOk; OSts SOk [SOk]; OSts SOk [SOk]; OSts SOk [SOk]; OSts SOk [SOk]; OStats 12288 0 3 4096;
     OSt SOk; OSt SOk; OStats 12288 0 3 8192].
Proof. vm_compute. reflexivity. Qed.
