(* Proofs/Front_reject.v — C01, the rejecting half: each corruption class is answered with an error,
   never OK.  Two kinds of lemmas: (a) classes the front end itself refuses, with the exact status and
   an untouched state; (b) classes left to the disk layer's verification — contrapositives of
   Front_ack: a payload that is too long, too short, not clean (undecodable or truncated zstd, bytes
   behind the last frame, a stream cut by the client) or has the wrong hash cannot be answered OK. *)
From BR Require Import Base.Prelude Model.LRU Model.Disk Proofs.Disk_ack Model.Front Proofs.Front_base Proofs.Front_ack.
Open Scope Z_scope.

(* a payload that does NOT have exactly the declared length and hash; the three ways it can fail *)
Definition corrupt (b : body) (declared : Z) : Prop :=
  b_len b <> declared \/ b_clean b = false \/ b_hash_ok b = false.

Lemma corrupt_not_good b n : corrupt b n -> ~ body_good b n.
Proof. unfold corrupt, body_good. intros [H|[H|H]] (A & B & C); congruence. Qed.

(* ---------------- (a) refused by the front end itself ---------------- *)

(* HTTP PUT: unsupported Content-Encoding, unparseable X-Digest-SizeBytes, no length at all,
   zero length under a non-empty hash: 400, state untouched *)
Lemma http_put_unsupported_encoding c d u hash cl xd b rnd :
  http_put c d u hash cl xd CeOther b rnd = (d, bad).
Proof.
  unfold http_put. destruct (negb u); [reflexivity|]. destruct (http_declared cl xd) as [len|]; [|reflexivity].
  destruct (len =? -1); [reflexivity|]. destruct ((len =? 0) && negb (String.eqb hash emptySha256)); [reflexivity|].
  destruct (len >? fc_http_max c); reflexivity.
Qed.

Lemma http_put_bad_xdigest c d u hash cl ce b rnd : http_put c d u hash cl XBad ce b rnd = (d, bad).
Proof. unfold http_put. destruct (negb u); reflexivity. Qed.

Lemma http_put_no_length c d u hash ce b rnd : http_put c d u hash (-1) XAbsent ce b rnd = (d, bad).
Proof. unfold http_put. destruct (negb u); reflexivity. Qed.

Lemma http_put_zero_size_nonempty_hash c d u cl xd hash ce b rnd :
  http_declared cl xd = Some 0 -> hash <> emptySha256 -> http_put c d u hash cl xd ce b rnd = (d, bad).
Proof.
  intros HD HN. unfold http_put. destruct (negb u); [reflexivity|]. rewrite HD. cbn.
  destruct (String.eqb hash emptySha256) eqn:E; [apply String.eqb_eq in E; congruence|reflexivity].
Qed.

(* BatchUpdateBlobs: undecodable zstd -> Internal; decoded length differs from the digest -> InvalidArgument *)
Lemma bu_one_undecodable c d e :
  bu_comp e = CZstd -> b_clean (bu_body e) = false -> bu_one c d e = (d, SErr EInternal).
Proof. intros HC HB. unfold bu_one. rewrite HC, HB. reflexivity. Qed.

(* a compressor other than IDENTITY / ZSTD: per-blob InvalidArgument, nothing stored *)
Lemma bu_one_unsupported c d e n : bu_comp e = COther n -> bu_one c d e = (d, bad).
Proof. intros H. unfold bu_one. rewrite H. reflexivity. Qed.

Lemma bu_one_wrong_length c d e :
  b_clean (bu_body e) = true -> b_len (bu_body e) <> bu_size e ->
  bu_one c d e = (d, bad).
Proof.
  intros HB HL. unfold bu_one. destruct (bu_comp e) as [| |n] eqn:E; [| |reflexivity].
  - cbn. replace (b_len (bu_body e) =? bu_size e) with false by lia. reflexivity.
  - rewrite HB. cbn. replace (b_len (bu_body e) =? bu_size e) with false by lia. reflexivity.
Qed.

(* a zero size under a non-empty hash, or a malformed hash, fails the whole call *)
Lemma batch_update_bad_digest c d e t acc :
  bu_nil e = false -> validate_hash (bu_hash e) (bu_size e) = false -> batch_update c d (e :: t) acc = (d, bad, []).
Proof. intros HN HV. cbn. rewrite HN, HV. reflexivity. Qed.

(* ByteStream.Write: unparsable name / unsupported compressor *)
Lemma bs_write_bad_name c d m0 rest ab b rnd :
  bs_write c d WNBad (m0 :: rest) ab b rnd = (d, bad) /\ bs_write c d WNEmpty (m0 :: rest) ab b rnd = (d, bad).
Proof. split; reflexivity. Qed.

Section bs.
  Variables (c : fcfg) (d : dstate) (z : bool) (hash : string) (size : Z) (b : body) (rnd : string).
  Hypothesis Hsize : 0 <= size <= fc_grpc_max c.
  Hypothesis Hhash : validate_hash hash size = true.
  Hypothesis Habsent : bs_shortcut (snd (fst (disk_contains c d CAS hash size))) hash size = false.

  Let d1 := fst (fst (disk_contains c d CAS hash size)).

  Lemma bs_write_prefix m0 rest ab :
    bs_write c d (WN z hash size) (m0 :: rest) ab b rnd =
    if negb (wm_off m0 =? 0) then (d1, SErr EInternal) else
    let '(piped, e) := recv_loop z size 0 true (m0 :: rest) ab in
    let '(d2, r) := disk_put c d1 CAS hash size (bs_stream z b piped (match e with Some _ => true | None => false end)) rnd in
    match e with Some x => (d2, SErr x) | None => (d2, put_status EInternal r) end.
  Proof.
    unfold bs_write, d1. replace (size <? 0) with false by lia. rewrite Hhash. cbn [negb].
    replace (size >? fc_grpc_max c) with false by lia.
    destruct (disk_contains c d CAS hash size) as [[dx ex] fs]. cbn [fst snd] in *. rewrite Habsent. reflexivity.
  Qed.

  (* non-zero first offset *)
  Lemma bs_write_nonzero_offset m0 rest ab :
    wm_off m0 <> 0 -> snd (bs_write c d (WN z hash size) (m0 :: rest) ab b rnd) = SErr EInternal.
  Proof. intros H. rewrite bs_write_prefix. replace (wm_off m0 =? 0) with false by lia. reflexivity. Qed.

  (* whatever the receive loop reports as an error is the answer *)
  Lemma bs_write_recv_error m0 rest ab piped x :
    wm_off m0 = 0 -> recv_loop z size 0 true (m0 :: rest) ab = (piped, Some x) ->
    snd (bs_write c d (WN z hash size) (m0 :: rest) ab b rnd) = SErr x.
  Proof.
    intros HO HR. rewrite bs_write_prefix. rewrite HO. cbn [Z.eqb negb]. rewrite HR.
    destruct (disk_put c d1 CAS hash size _ rnd). reflexivity.
  Qed.
End bs.

(* the receive loop's verdicts (identity = blobs/, zstd = compressed-blobs/zstd/) *)

(* more bytes than declared: OutOfRange *)
Lemma recv_too_many size m0 rest ab :
  wm_len m0 > size -> recv_loop false size 0 true (m0 :: rest) ab = (wm_len m0, Some EOutOfRange).
Proof. intros H. cbn. destruct (wm_len m0 >? size) eqn:E; [reflexivity|lia]. Qed.

(* finish_write with fewer bytes than declared: Unknown *)
Lemma recv_too_few_finished size m0 rest ab :
  wm_len m0 < size -> wm_fin m0 = true -> recv_loop false size 0 true (m0 :: rest) ab = (wm_len m0, Some EInternal).
Proof.
  intros H HF. cbn. destruct (wm_len m0 >? size) eqn:E; [lia|]. rewrite HF.
  destruct (wm_len m0 =? size) eqn:E2; [lia|reflexivity].
Qed.

(* the resource name changes in the second message: InvalidArgument *)
Lemma recv_renamed z size m0 m1 rest ab :
  wm_fin m0 = false -> (z = true \/ wm_len m0 <= size) -> wm_same m1 = false ->
  recv_loop z size 0 true (m0 :: m1 :: rest) ab = (wm_len m0, Some EBadRequest).
Proof.
  intros HF HL HS. cbn. rewrite HF, HS.
  destruct HL as [-> | HL]; cbn; [reflexivity|].
  destruct z; cbn; [reflexivity|]. destruct (wm_len m0 >? size) eqn:E; [lia|reflexivity].
Qed.

(* a stream the client aborts before finishing never ends the loop with success *)
Lemma recv_aborted z size : forall msgs committed first,
  Forall (fun m => wm_fin m = false) msgs -> snd (recv_loop z size committed first msgs true) <> None.
Proof.
  induction msgs as [|m t IH]; intros committed first HF; cbn; [discriminate|].
  inversion HF; subst.
  destruct (negb first && negb (wm_same m)); [discriminate|].
  destruct (negb z && (committed + wm_len m >? size)); [discriminate|].
  rewrite H1. apply IH. assumption.
Qed.

(* SpliceBlob: unsupported digest function, no chunks, bad chunk list (negative/zero size, empty or
   malformed hash, overflowing sum), sum different from the blob size: InvalidArgument, state untouched *)
Lemma splice_bad_digest_function c d dfn cs blob computed ok cid rnd :
  dfn <> 0 -> dfn <> 1 -> splice c d dfn cs blob computed ok cid rnd = (d, bad).
Proof. intros H0 H1. unfold splice. replace (dfn =? 0) with false by lia. replace (dfn =? 1) with false by lia. reflexivity. Qed.

Lemma splice_bad_chunks c d dfn cs blob computed ok cid rnd :
  check_chunks cs 0 = None -> splice c d dfn cs blob computed ok cid rnd = (d, bad).
Proof.
  intros H. unfold splice. destruct (negb ((dfn =? 0) || (dfn =? 1))); [reflexivity|].
  destruct cs; [reflexivity|]. rewrite H. reflexivity.
Qed.

Lemma splice_wrong_total c d dfn cs h s computed ok cid rnd total :
  check_chunks cs 0 = Some total -> total <> s ->
  splice c d dfn cs (Some (h, s)) computed ok cid rnd = (d, bad).
Proof.
  intros HC HT. unfold splice. destruct (negb ((dfn =? 0) || (dfn =? 1))); [reflexivity|].
  destruct cs; [reflexivity|]. rewrite HC.
  destruct ((fc_grpc_max c >? 0) && (s >? fc_grpc_max c)); [reflexivity|].
  destruct ((s =? 0) || String.eqb h emptySha256); [reflexivity|].
  destruct (s <? 0); [reflexivity|]. destruct (true && negb (hash_re h)); [reflexivity|].
  replace (total =? s) with false by lia. reflexivity.
Qed.

(* the int64 sum of the chunk sizes wraps: refused *)
Example splice_overflow_refused :
  check_chunks [mkChunk false emptySha256 1] 0 = None /\
  let h := "aaaaaaaaaaaaaaaaaaaaaaaaaaaaaaaaaaaaaaaaaaaaaaaaaaaaaaaaaaaaaaaa"%string in
  check_chunks [mkChunk false h 4611686018427387909; mkChunk false h 4611686018427387904] 0 = None /\
  check_chunks [mkChunk false h 5; mkChunk false h 7] 0 = Some 12.
Proof. vm_compute. repeat split. Qed.

(* ---------------- (b) left to the disk layer: contrapositives of Front_ack ---------------- *)

Lemma http_put_corrupt_rejected c d u hash cl xd ce b rnd d' st len :
  http_put c d u hash cl xd ce b rnd = (d', st) -> http_declared cl xd = Some len ->
  corrupt b len -> ~ empty_claim hash len (b_len b) -> st <> SOk.
Proof.
  intros H HD HC HE ->. destruct (http_put_sound _ _ _ _ _ _ _ _ _ _ H) as [len' (HD' & _ & _ & [G|E])].
  - rewrite HD in HD'. inversion HD'; subst. exact (corrupt_not_good _ _ HC G).
  - rewrite HD in HD'. inversion HD'; subst. exact (HE E).
Qed.

Lemma bu_one_corrupt_rejected c d e d' st :
  bu_one c d e = (d', st) ->
  corrupt (bu_body e) (bu_size e) -> ~ empty_claim (bu_hash e) (bu_size e) (b_len (bu_body e)) -> st <> SOk.
Proof.
  intros H HC HE ->. destruct (bu_one_sound _ _ _ _ H) as [G|E].
  - exact (corrupt_not_good _ _ HC G).
  - exact (HE E).
Qed.

Lemma bs_write_corrupt_rejected c d hash size msgs ab b rnd d' st :
  bs_write c d (WN true hash size) msgs ab b rnd = (d', st) ->
  bs_shortcut (snd (fst (disk_contains c d CAS hash size))) hash size = false ->
  corrupt b size -> ~ empty_claim hash size (b_len b) -> st <> SOk.
Proof.
  intros H HA HC HE ->. destruct (bs_write_sound _ _ _ _ _ _ _ _ H) as (z & h & s & HN & _ & _ & [P|[piped [_ G]]]).
  - inversion HN; subst. congruence.
  - inversion HN; subst. destruct G as [G|E]; [exact (corrupt_not_good _ _ HC G)|exact (HE E)].
Qed.

(* blobs/: the bytes are counted by the receive loop; what is left to the disk layer is the hash *)
Lemma bs_write_identity_wrong_hash_rejected c d hash size msgs ab b rnd d' st :
  bs_write c d (WN false hash size) msgs ab b rnd = (d', st) ->
  bs_shortcut (snd (fst (disk_contains c d CAS hash size))) hash size = false ->
  b_hash_ok b = false -> hash <> emptySha256 -> st <> SOk.
Proof.
  intros H HA HH HE ->. destruct (bs_write_sound _ _ _ _ _ _ _ _ H) as (z & h & s & HN & _ & _ & [P|[piped [_ G]]]).
  - inversion HN; subst. congruence.
  - inversion HN; subst. destruct G as [[_ G]|(_ & E & _)]; congruence.
Qed.

Lemma splice_wrong_content_rejected c d dfn cs blob computed cid rnd d' st :
  splice c d dfn cs blob computed false cid rnd = (d', st) ->
  (forall dx h s, splice_digest cs blob computed = Some (h, s) -> snd (fst (disk_contains c dx CAS h s)) = false) ->
  st <> SOk.
Proof.
  intros H HA ->. destruct (splice_sound _ _ _ _ _ _ _ _ _ _ H) as (h & s & HD & _ & _ & _ & [[dx P]|[G _]]).
  - rewrite (HA dx h s HD) in P. discriminate.
  - discriminate.
Qed.

Lemma update_ar_corrupt_rejected c d ahash asize valid files so se arlen rnd d' st i h s :
  update_ar c d ahash asize valid files so se arlen rnd = (d', st) ->
  In i (files ++ [so; se]) -> in_present i = true -> in_digest i = Some (h, s) ->
  corrupt (in_body i) s -> ~ empty_claim h s (b_len (in_body i)) -> st <> SOk.
Proof.
  intros H Hin HP HD HC HE ->. destruct (update_ar_sound _ _ _ _ _ _ _ _ _ _ _ H) as (_ & _ & HF).
  rewrite Forall_forall in HF. specialize (HF i Hin HP). rewrite HD in HF.
  destruct HF as [G|E]; [exact (corrupt_not_good _ _ HC G)|exact (HE E)].
Qed.

(* FetchBlob with a checksum: an upstream whose reply does not hash to it, is cut short, or has another
   length than announced, contributes nothing; with only such upstreams the answer is NOT_FOUND *)
Lemma fetch_item_corrupt_rejected c d u h d' r :
  fetch_item c d u (Some h) = (d', r) -> 0 <= up_cl u ->
  corrupt (up_body u) (up_cl u) -> ~ empty_claim h (up_cl u) (b_len (up_body u)) -> forall dg, r <> Ok dg.
Proof.
  intros H HCL HC HE dg ->. unfold fetch_item in H. destruct (negb (up_ok u)); [inversion H|].
  replace (up_cl u <? 0) with false in H by lia.
  destruct (disk_put c d CAS h (up_cl u) (stream_of (up_body u)) (up_rnd u)) as [d1 [e|]] eqn:HP; [inversion H|].
  destruct (disk_put_ok _ _ _ _ _ _ _ HP) as [(_ & L)|(S1 & S2 & S3)].
  - exact (corrupt_not_good _ _ HC (stream_of_good _ _ L)).
  - apply HE. unfold empty_claim. cbn in S3. auto.
Qed.

Lemma fetch_item_unknown_length_wrong_hash c d u h :
  up_cl u < 0 -> up_actual u <> h -> fetch_item c d u (Some h) = (d, Err ENotFound).
Proof.
  intros HCL HH. unfold fetch_item. destruct (negb (up_ok u)); [reflexivity|].
  replace (up_cl u <? 0) with true by lia. destruct (negb (b_clean (up_body u))); [reflexivity|].
  destruct (String.eqb h (up_actual u)) eqn:E; [apply String.eqb_eq in E; congruence|reflexivity].
Qed.
