(* Proofs/LRU_limit.v — the max_size_hard_limit admission check of SizedLRU.Reserve (C17):
   a complete case analysis of [reserve] in an invariant state, admission <-> arithmetic condition,
   refusals change nothing but the metrics peak, retry after the remover has caught up, the option
   switched off, and: no other operation ever reads the limit. *)
From BR Require Import Base.Prelude Model.LRU Proofs.LRU_inv.
Open Scope Z_scope.

(* the state [reserve] returns after its eviction loop ended in [s2] *)
Definition reserved (n : Z) (s2 : state) : state :=
  mkState (order s2) (next s2) (cur s2 + n) (unc s2) (res s2 + n) (maxs s2) (hard s2)
          (evq s2) (qbytes s2) (peak s2).

(* the hard-limit condition: option off, or accounted + evicted-but-not-yet-deleted + new fits *)
Definition limit_ok (n : Z) (s : state) : Prop := hard s <= 0 \/ cur s + qbytes s + n <= hard s.

(* ------------------------------------------------------------------ *)
(* All the ways [reserve] can go in an invariant state *)

Lemma reserve_cases n s : Inv s ->
  (n = 0 /\ reserve n s = (s, Ok tt)) \/
  ((n < 0 \/ n > maxs s) /\ reserve n s = (s, Err EBadRequest)) \/
  (0 < n <= maxs s /\ n + res s > maxs s /\ reserve n s = (s, Err EInsufficient)) \/
  (0 < n <= maxs s /\ n + res s <= maxs s /\ ~ limit_ok n s /\
     reserve n s = (upd_peak n s, Err EInsufficient)) \/
  (0 < n <= maxs s /\ n + res s <= maxs s /\ limit_ok n s /\
     exists s2, EvictSpec (fun c => n + c >? maxs s) (upd_peak n s) s2 false /\
                AcctD 0 0 s2 /\ reserve n s = (reserved n s2, Ok tt)).
Proof.
  intros HI. pose proof HI as (HA & Hm & Hp). unfold reserve, sumLargerThan, limit_ok.
  destruct (n =? 0) eqn:E0; [left; split; [lia|reflexivity]|right].
  destruct (n <? 0) eqn:E1; [left; split; [lia|reflexivity]|].
  destruct (n >? maxs s) eqn:E2; [left; split; [lia|reflexivity]|right].
  destruct (n + res s >? maxs s) eqn:E3; [left; repeat split; lia|right].
  assert (HA1 : AcctD 0 0 (upd_peak n s)) by (apply upd_peak_acct; exact HA).
  destruct ((hard (upd_peak n s) >? 0) && (total_disk s n >? hard (upd_peak n s))) eqn:E4.
  { left. unfold total_disk in E4. simpl in E4. repeat split; lia. }
  right.
  pose proof (evict_while_spec (fun c => n + c >? maxs (upd_peak n s)) 0 0 (upd_peak n s) HA1) as HS.
  destruct (evict_while (fun c => n + c >? maxs (upd_peak n s)) (upd_peak n s)) as [s2 stuck].
  destruct HS as [HA2 HES].
  destruct stuck.
  - exfalso. destruct HES as [ev _ _ _ _ (Hr' & _) _ Hstuck _]. destruct (Hstuck eq_refl) as [Hnil Hc].
    destruct HA2 as [_ _ _ Hc2 _ _ _ _ _]. rewrite Hnil in Hc2. simpl in Hc2, Hc, Hr'. lia.
  - unfold total_disk in E4. simpl in E4. repeat split; try lia.
    exists s2. split; [exact HES|]. split; [exact HA2|reflexivity].
Qed.

Ltac reserve_cases n s HI :=
  let H1 := fresh "H1" in let H2 := fresh "H2" in let H3 := fresh "H3" in
  let E := fresh "E" in let s2 := fresh "s2" in let HS := fresh "HS" in let HA2 := fresh "HA2" in
  destruct (reserve_cases n s HI)
    as [(H1 & E)|[(H1 & E)|[(H1 & H2 & E)|[(H1 & H2 & H3 & E)|(H1 & H2 & H3 & s2 & HS & HA2 & E)]]]];
  rewrite E; simpl.

(* ------------------------------------------------------------------ *)
(* a. admission <-> arithmetic condition *)

Lemma limit_admission n s : Inv s -> 0 < n -> n <= maxs s -> n + res s <= maxs s ->
  (snd (reserve n s) = Ok tt <-> (hard s <= 0 \/ cur s + qbytes s + n <= hard s)) /\
  (~ (hard s <= 0 \/ cur s + qbytes s + n <= hard s) -> snd (reserve n s) = Err EInsufficient).
Proof.
  intros HI Hn Hmx Hres. fold (limit_ok n s).
  reserve_cases n s HI; try lia.
  - split; [split; [discriminate|intros H; contradiction]|reflexivity].
  - split; [split; [intros _; exact H3|reflexivity]|intros H; contradiction].
Qed.

(* b. a refusal changes nothing but the peak gauge *)

Lemma limit_refusal_pure n s e : Inv s -> snd (reserve n s) = Err e ->
  let s' := fst (reserve n s) in
  order s' = order s /\ evq s' = evq s /\ cur s' = cur s /\ res s' = res s /\ unc s' = unc s /\
  qbytes s' = qbytes s /\ maxs s' = maxs s /\ hard s' = hard s /\ next s' = next s.
Proof.
  intros HI. reserve_cases n s HI; intros H; try discriminate; repeat split; reflexivity.
Qed.

(* f. the only errors *)

Lemma limit_error_classes n s e : Inv s -> snd (reserve n s) = Err e ->
  (e = EBadRequest /\ (n < 0 \/ n > maxs s)) \/
  (e = EInsufficient /\ 0 < n <= maxs s /\
     (n + res s > maxs s \/ (0 < hard s /\ cur s + qbytes s + n > hard s))).
Proof.
  intros HI. reserve_cases n s HI; intros H; inversion H; subst.
  - left. split; [reflexivity|exact H1].
  - right. split; [reflexivity|]. split; [exact H1|]. left; exact H2.
  - right. split; [reflexivity|]. split; [exact H1|]. right. unfold limit_ok in H3. lia.
Qed.

Lemma limit_never_other n s : Inv s ->
  match snd (reserve n s) with Ok _ | Err EBadRequest | Err EInsufficient => True | _ => False end.
Proof. intros HI. apply reserve_inv; exact HI. Qed.

(* d. the option switched off: the check never refuses *)

Lemma limit_off n s : Inv s -> hard s <= 0 -> 0 < n -> n <= maxs s -> n + res s <= maxs s ->
  snd (reserve n s) = Ok tt.
Proof.
  intros HI Hh Hn Hmx Hres. apply (limit_admission n s HI Hn Hmx Hres). left; exact Hh.
Qed.

Lemma limit_off_no_507 n s : Inv s -> hard s <= 0 ->
  snd (reserve n s) = Err EInsufficient -> n + res s > maxs s.
Proof.
  intros HI Hh H. destruct (limit_error_classes n s _ HI H) as [[H1 _]|(_ & _ & [H2|H2])];
    [discriminate|exact H2|lia].
Qed.

(* c. retry once the remover has caught up *)

Lemma limit_retry n s : Inv s -> qbytes s = 0 -> 0 < n -> n <= maxs s -> n + res s <= maxs s ->
  cur s + n <= hard s -> snd (reserve n s) = Ok tt.
Proof.
  intros HI Hq Hn Hmx Hres Hh. apply (limit_admission n s HI Hn Hmx Hres). right; lia.
Qed.

Lemma limit_retry_roomy n s : Inv s -> qbytes s = 0 -> 0 < n -> n <= maxs s -> n + res s <= maxs s ->
  hard s >= maxs s + n -> snd (reserve n s) = Ok tt.
Proof.
  intros HI Hq Hn Hmx Hres Hh. apply limit_retry; try assumption.
  destruct HI as (_ & Hle & _). lia.
Qed.

Lemma evictor_step_frame s :
  let s' := fst (evictor_step s) in
  order s' = order s /\ cur s' = cur s /\ res s' = res s /\ unc s' = unc s /\ maxs s' = maxs s /\
  hard s' = hard s /\ next s' = next s /\ peak s' = peak s.
Proof. unfold evictor_step. destruct (evq s); simpl; repeat split; reflexivity. Qed.

Lemma drain_n_frame m : forall s,
  let s' := drain_n m s in
  order s' = order s /\ cur s' = cur s /\ res s' = res s /\ unc s' = unc s /\ maxs s' = maxs s /\
  hard s' = hard s /\ next s' = next s /\ peak s' = peak s.
Proof.
  induction m as [|m IH]; intros s; simpl; [repeat split; reflexivity|].
  destruct (IH (fst (evictor_step s))) as (A1 & A2 & A3 & A4 & A5 & A6 & A7 & A8).
  destruct (evictor_step_frame s) as (B1 & B2 & B3 & B4 & B5 & B6 & B7 & B8).
  repeat split; congruence.
Qed.

Lemma drain_n_empties m : forall s, List.length (evq s) = m -> qbytes s = sumZ qsz (evq s) ->
  evq (drain_n m s) = [] /\ qbytes (drain_n m s) = 0.
Proof.
  induction m as [|m IH]; intros s Hl Hq; simpl.
  - destruct (evq s); [simpl in Hq; split; [reflexivity|exact Hq]|discriminate].
  - unfold evictor_step. destruct (evq s) as [|en t] eqn:E; [discriminate|]. simpl.
    apply IH; simpl.
    + simpl in Hl. lia.
    + simpl in Hq. unfold qsz in Hq at 1. lia.
Qed.

Lemma limit_drain_reaches_zero s : Inv s ->
  qbytes (drain_n (List.length (evq s)) s) = 0 /\ evq (drain_n (List.length (evq s)) s) = [].
Proof.
  intros ([_ _ _ _ _ _ Hq _ _] & _ & _).
  destruct (drain_n_empties (List.length (evq s)) s eq_refl Hq) as [H1 H2]. split; assumption.
Qed.

(* the whole retry: refused now because of the backlog, admitted after the remover's pass *)
Lemma limit_retry_after_drain n s : Inv s -> 0 < n -> n <= maxs s -> n + res s <= maxs s ->
  cur s + n <= hard s -> snd (reserve n (fst (drain s))) = Ok tt.
Proof.
  intros HI Hn Hmx Hres Hh. unfold drain. simpl.
  destruct (drain_n_frame (List.length (evq s)) s) as (_ & A2 & A3 & _ & A5 & A6 & _).
  destruct (limit_drain_reaches_zero s HI) as [Hz _].
  apply limit_retry; try (rewrite ?A2, ?A3, ?A5, ?A6; assumption).
  apply drain_n_inv; exact HI.
Qed.

(* ------------------------------------------------------------------ *)
(* e. nothing but [reserve] reads the limit *)

Definition set_hard (h : Z) (s : state) : state :=
  mkState (order s) (next s) (cur s) (unc s) (res s) (maxs s) h (evq s) (qbytes s) (peak s).

Lemma get_set_hard h k s : get k (set_hard h s) = (set_hard h (fst (get k s)), snd (get k s)).
Proof. unfold get. simpl. destruct (find_key k (order s)); reflexivity. Qed.

Lemma peek_set_hard h k s : peek k (set_hard h s) = peek k s.
Proof. reflexivity. Qed.

Lemma remove_elem_set_hard h e s : remove_elem e (set_hard h s) = set_hard h (remove_elem e s).
Proof. reflexivity. Qed.

Lemma remove_key_set_hard h k s : remove_key k (set_hard h s) = set_hard h (remove_key k s).
Proof. unfold remove_key. simpl. destruct (find_key k (order s)); reflexivity. Qed.

Lemma remove_element_set_hard h id s :
  remove_element id (set_hard h s) = option_map (set_hard h) (remove_element id s).
Proof. unfold remove_element. simpl. destruct (find_id id (order s)); reflexivity. Qed.

Lemma unreserve_set_hard h n s :
  unreserve n (set_hard h s) = (set_hard h (fst (unreserve n s)), snd (unreserve n s)).
Proof.
  unfold unreserve. simpl. destruct (n =? 0); [reflexivity|]. destruct (n <? 0); [reflexivity|].
  destruct ((cur s - n <? 0) || (res s - n <? 0)); reflexivity.
Qed.

Lemma evictor_step_set_hard h s :
  evictor_step (set_hard h s) = (set_hard h (fst (evictor_step s)), snd (evictor_step s)).
Proof. unfold evictor_step. simpl. destruct (evq s); reflexivity. Qed.

Lemma drain_n_set_hard h m : forall s, drain_n m (set_hard h s) = set_hard h (drain_n m s).
Proof.
  induction m as [|m IH]; intros s; simpl; [reflexivity|].
  rewrite evictor_step_set_hard. simpl. apply IH.
Qed.

Lemma evict_loop_set_hard h cond : forall l s,
  evict_loop cond l (set_hard h s) = (set_hard h (fst (evict_loop cond l s)), snd (evict_loop cond l s)).
Proof.
  induction l as [|e t IH]; intros s; simpl; destruct (cond (cur s)); try reflexivity.
  rewrite remove_elem_set_hard. apply IH.
Qed.

(* Add does not look at the limit either (Put always goes through Reserve first) *)
Definition add_tail (delta ud m : Z) (s2 : state) : state * result bool :=
  let '(s3, stuck) := evict_while (fun c => c + delta >? m) s2 in
  if stuck then (s3, Hang "lru.Add: eviction loop on empty list")
  else (bump delta ud s3, Ok true).

Lemma add_tail_set_hard h delta ud m s2 :
  add_tail delta ud m (set_hard h s2)
  = (set_hard h (fst (add_tail delta ud m s2)), snd (add_tail delta ud m s2)).
Proof.
  unfold add_tail, evict_while. simpl. rewrite evict_loop_set_hard.
  destruct (evict_loop (fun c => c + delta >? m) (order s2) s2) as [s3 [|]]; reflexivity.
Qed.

Lemma add_set_hard h k v s :
  add k v (set_hard h s) = (set_hard h (fst (add k v s)), snd (add k v s)).
Proof.
  unfold add. simpl.
  destruct (roundUp4k (sizeOnDisk v) >? maxs s); [reflexivity|].
  destruct (find_key k (order s)) as [e|].
  - match goal with |- context [if ?c then _ else _] => destruct c end; [reflexivity|].
    exact (add_tail_set_hard h (roundUp4k (sizeOnDisk v) - roundUp4k (sizeOnDisk (evalue (ent e))))
             (roundUp4k (size v) - roundUp4k (size (evalue (ent e)))) (maxs s)
             (enqueue (mkEntry (ekey (ent e)) (evalue (ent e)))
                (set_order (remove_id (eid e) (order s) ++ [mkElem (eid e) (mkEntry k v)])
                   (upd_peak (roundUp4k (sizeOnDisk v)) s)))).
  - match goal with |- context [if ?c then _ else _] => destruct c end; [reflexivity|].
    exact (add_tail_set_hard h (roundUp4k (sizeOnDisk v)) (roundUp4k (size v)) (maxs s)
             (mkState (order s ++ [mkElem (next s) (mkEntry k v)]) (S (next s)) (cur s) (unc s) (res s)
                (maxs s) (hard s) (evq s) (qbytes s)
                (peak (upd_peak (roundUp4k (sizeOnDisk v)) s)))).
Qed.

(* every operation other than Reserve behaves identically whatever the limit is *)
Lemma step_set_hard h s o : (forall n, o <> OReserve n) ->
  step (set_hard h s) o = (set_hard h (fst (step s o)), snd (step s o)).
Proof.
  intros Hno. destruct o as [k v|k|k|k|n|n| |]; simpl.
  - rewrite add_set_hard. destruct (add k v s) as [s' r]; reflexivity.
  - rewrite get_set_hard. destruct (get k s) as [s' [[v id]|]]; reflexivity.
  - rewrite remove_key_set_hard. reflexivity.
  - rewrite get_set_hard. destruct (get k s) as [s' [[v id]|]]; simpl; [|reflexivity].
    rewrite remove_element_set_hard. destruct (remove_element id s'); reflexivity.
  - exfalso. exact (Hno n eq_refl).
  - rewrite unreserve_set_hard. destruct (unreserve n s) as [s' r]; reflexivity.
  - rewrite evictor_step_set_hard. destruct (evictor_step s) as [s' r]; reflexivity.
  - unfold drain. simpl. rewrite drain_n_set_hard. reflexivity.
Qed.

Lemma limit_reads_ignore h k s :
  get k (set_hard h s) = (set_hard h (fst (get k s)), snd (get k s)) /\
  peek k (set_hard h s) = peek k s /\
  order (fst (get k (set_hard h s))) = order (fst (get k s)) /\
  snd (get k (set_hard h s)) = snd (get k s).
Proof.
  split; [apply get_set_hard|]. split; [reflexivity|]. rewrite get_set_hard. split; reflexivity.
Qed.

Lemma limit_others_ignore h s :
  (forall k, remove_key k (set_hard h s) = set_hard h (remove_key k s)) /\
  (forall n, unreserve n (set_hard h s) = (set_hard h (fst (unreserve n s)), snd (unreserve n s))) /\
  evictor_step (set_hard h s) = (set_hard h (fst (evictor_step s)), snd (evictor_step s)) /\
  (forall k v, add k v (set_hard h s) = (set_hard h (fst (add k v s)), snd (add k v s))) /\
  (forall o, (forall n, o <> OReserve n) ->
             step (set_hard h s) o = (set_hard h (fst (step s o)), snd (step s o))).
Proof.
  split; [intros; apply remove_key_set_hard|]. split; [intros; apply unreserve_set_hard|].
  split; [apply evictor_step_set_hard|]. split; [intros; apply add_set_hard|].
  intros; apply step_set_hard; assumption.
Qed.
