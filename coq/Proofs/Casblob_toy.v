(* Proofs/Casblob_toy.v — the framing laws assumed of the zstd codec are satisfiable: a toy codec
   (every plaintext byte b becomes the two bytes 7 b; skippable frames are skipped) satisfies all
   of them.  Used by the Examples under the property theorems (non-vacuity). *)
From BR Require Import Base.Prelude Gen.Consts Gen.Funcs Model.Casblob
  Proofs.Casblob_le Proofs.Casblob_lists.
Open Scope list_scope.
Open Scope Z_scope.

Definition toy_enc (x : list Z) : list Z := flat_map (fun b => [7; b]) x.

Fixpoint toy_dec_all (f : list Z) : option (list Z) :=
  match f with
  | [] => Some []
  | m :: t => match t with
              | x :: t' => if m =? 7 then option_map (cons x) (toy_dec_all t') else None
              | [] => None
              end
  end.

(* streaming decoder: skip counter, then either a skippable frame or a "7 b" pair *)
Fixpoint toy_ds (skip : nat) (l : list Z) : option (list Z) :=
  match skip with
  | S k => match l with [] => None | _ :: t => toy_ds k t end
  | O =>
      match l with
      | [] => Some []
      | b :: t =>
          match skippable_len l with
          | Some n => toy_ds (Z.to_nat n - 1) t
          | None =>
              if b =? 7 then
                match t with
                | x :: t' => option_map (cons x) (toy_ds 0 t')
                | [] => None
                end
              else None
          end
      end
  end.

Definition toy_dec_stream (l : list Z) : option (list Z) := toy_ds 0 l.

Lemma toy_dec_enc x : toy_dec_all (toy_enc x) = Some x.
Proof.
  induction x as [|b t IH]; [reflexivity|].
  cbn [toy_enc flat_map app toy_dec_all]. fold (toy_enc t). rewrite IH. reflexivity.
Qed.

Lemma toy_enc_bytes x : bytes_ok x = true -> bytes_ok (toy_enc x) = true.
Proof.
  unfold bytes_ok. induction x as [|b t IH]; [reflexivity|].
  cbn [forallb toy_enc flat_map app]. intros H. apply andb_true_iff in H as [Hb Ht].
  fold (toy_enc t). rewrite Hb, (IH Ht). reflexivity.
Qed.

Lemma seven_not_skippable t : skippable_len (7 :: t) = None.
Proof.
  unfold skippable_len, u32_of.
  destruct (zlen (7 :: t) >=? 8); [|reflexivity]. cbn [andb].
  change (firstn 4 (7 :: t)) with (7 :: firstn 3 t). cbn [le_dec].
  change (7 mod 256) with 7.
  pose proof (le_dec_range (firstn 3 t)) as R.
  set (k := le_dec (firstn 3 t)) in *.
  destruct ((407710288 <=? 7 + 256 * k) && (7 + 256 * k <=? 407710303)) eqn:E; [|reflexivity].
  exfalso. lia.
Qed.

Lemma toy_stream_nil : toy_dec_stream [] = Some [].
Proof. reflexivity. Qed.

Lemma option_map_app_nil (o : option (list Z)) : option_map (app []) o = o.
Proof. destruct o; reflexivity. Qed.

Lemma toy_stream_frame f p r :
  toy_dec_all f = Some p -> toy_dec_stream (f ++ r) = option_map (app p) (toy_dec_stream r).
Proof.
  unfold toy_dec_stream. revert f; induction p as [|x p' IH]; intros f H.
  - destruct f as [|m [|x t]]; cbn [toy_dec_all] in H; try discriminate.
    + cbn [app]. symmetry. apply option_map_app_nil.
    + destruct (m =? 7); [|discriminate]. destruct (toy_dec_all t); discriminate.
  - destruct f as [|m [|x' t]]; cbn [toy_dec_all] in H; try discriminate.
    destruct (m =? 7) eqn:Em; [|discriminate]. apply Z.eqb_eq in Em; subst m.
    destruct (toy_dec_all t) as [q|] eqn:Et; cbn [option_map] in H; [|discriminate].
    inversion H; subst x' q.
    change ((7 :: x :: t) ++ r) with (7 :: x :: (t ++ r)).
    cbn [toy_ds]. rewrite seven_not_skippable. rewrite Z.eqb_refl.
    rewrite (IH t Et). destruct (toy_ds 0 r); reflexivity.
Qed.

Lemma toy_ds_skip k t : (k <= List.length t)%nat -> toy_ds k t = toy_ds 0 (skipn k t).
Proof.
  revert t; induction k as [|k IH]; intros t H; [reflexivity|].
  destruct t as [|x t']; [simpl in H; lia|]. cbn [toy_ds skipn]. apply IH. simpl in H; lia.
Qed.

Lemma skippable_len_bounds l n : skippable_len l = Some n -> 8 <= n <= zlen l.
Proof.
  unfold skippable_len. cbv zeta.
  match goal with |- (if ?b then _ else _) = _ -> _ => destruct b end; [|discriminate].
  destruct (8 + u32_of (skipn 4 l) <=? zlen l) eqn:E; [|discriminate].
  intros H. assert (Hn : n = 8 + u32_of (skipn 4 l)) by congruence. subst n. clear H. pose proof (u32_of_range (skipn 4 l)) as R. unfold two32 in R.
  apply Z.leb_le in E. lia.
Qed.

Lemma toy_stream_skippable l n :
  skippable_len l = Some n -> toy_dec_stream l = toy_dec_stream (zskipn n l).
Proof.
  intros H. pose proof (skippable_len_bounds l n H) as B. unfold toy_dec_stream.
  destruct l as [|b t]; [unfold zlen in B; simpl in B; lia|].
  cbn [toy_ds]. rewrite H. rewrite zlen_cons in B.
  rewrite toy_ds_skip by (unfold zlen in B; lia).
  unfold zskipn. remember (Z.to_nat n - 1)%nat as k eqn:Ek.
  replace (Z.to_nat n) with (S k) by lia. reflexivity.
Qed.
