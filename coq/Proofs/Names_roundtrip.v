(* Proofs/Names_roundtrip.v — the file-name printer and the recogniser of scanDir's pattern invert
   each other; FileLocation writes names of exactly that grammar; getElementPath finds the file
   scanDir indexed. *)
From BR Require Import Base.Prelude Model.LRU Model.Names Proofs.Names_strings.
Open Scope string_scope.
Open Scope Z_scope.

Definition groups_of (p : parsed) : string * string * string * string :=
  (p_hash p, match p_size p with Some n => print_dec n | None => "" end, p_random p,
   if p_legacy p then v1_suffix else "").

Lemma recognise_groups_hash h rest : is_hash h = true ->
  recognise_groups (h ++ rest) =
  match rest with
  | String c rest1 =>
      if negb (Ascii.eqb c "-") then None else
      let '(body, leg) := strip_v1 rest1 in
      let g4 := if leg then v1_suffix else "" in
      match split_dash body with
      | None => if is_random body then Some (h, "", body, g4) else None
      | Some (x, y) => if is_size_digits x && is_random y then Some (h, x, y, g4) else None
      end
  | EmptyString => None
  end.
Proof.
  intros Hh. destruct (is_hash_length h Hh) as [Hlen Hhex].
  unfold recognise_groups. rewrite <- Hlen, split_at_app, Hhex. reflexivity.
Qed.

Lemma alnum_nodot s : all_chars is_alnum s = true -> all_chars (not_char ".") s = true.
Proof. apply all_chars_impl, alnum_not_dot. Qed.
Lemma alnum_nodash s : all_chars is_alnum s = true -> all_chars (not_char "-") s = true.
Proof. apply all_chars_impl, alnum_not_dash. Qed.
Lemma alnum_noslash s : all_chars is_alnum s = true -> all_chars (not_char "/") s = true.
Proof. apply all_chars_impl, alnum_not_slash. Qed.
Lemma digits_alnum s : all_chars is_digit s = true -> all_chars is_alnum s = true.
Proof. apply all_chars_impl, digit_alnum. Qed.
Lemma lhex_alnum_s s : all_chars is_lhex s = true -> all_chars is_alnum s = true.
Proof. apply all_chars_impl, lhex_alnum. Qed.

Lemma recognise_groups_print p : parsed_ok p -> recognise_groups (print_name p) = Some (groups_of p).
Proof.
  destruct p as [h sz r leg]. intros (Hh & Hr & Hs). simpl in Hh, Hr, Hs.
  destruct (is_random_spec r Hr) as [Hrne Hral].
  unfold print_name, groups_of. cbn [p_hash p_size p_random p_legacy].
  rewrite (recognise_groups_hash h _ Hh).
  destruct sz as [n|].
  - (* hash-size-random[.v1] *)
    change (("-" ++ print_dec n) ++ "-" ++ r ++ (if leg then v1_suffix else ""))
      with (String "-" (print_dec n ++ String "-" (r ++ (if leg then v1_suffix else "")))).
    cbn [Ascii.eqb negb]. change (Ascii.eqb "-" "-") with true. cbn [negb].
    replace (print_dec n ++ String "-" (r ++ (if leg then v1_suffix else "")))
      with ((print_dec n ++ String "-" r) ++ (if leg then v1_suffix else ""))
      by (rewrite app_assoc_s; reflexivity).
    assert (Hbody : all_chars (not_char ".") (print_dec n ++ String "-" r) = true).
    { rewrite all_chars_app. simpl. rewrite (alnum_nodot _ (digits_alnum _ (print_dec_digits n))), (alnum_nodot _ Hral).
      reflexivity. }
    assert (Hst : strip_v1 ((print_dec n ++ String "-" r) ++ (if leg then v1_suffix else "")) = (print_dec n ++ String "-" r, leg)).
    { destruct leg; [apply strip_v1_suffix; exact Hbody|rewrite app_nil_r_s; apply strip_v1_plain; exact Hbody]. }
    rewrite Hst.
    rewrite (split_dash_app _ r (alnum_nodash _ (digits_alnum _ (print_dec_digits n)))).
    rewrite (print_dec_size_digits n (proj1 Hs)), Hr. reflexivity.
  - (* hash-random[.v1] *)
    change ("" ++ "-" ++ r ++ (if leg then v1_suffix else "")) with (String "-" (r ++ (if leg then v1_suffix else ""))).
    change (Ascii.eqb "-" "-") with true. cbn [negb].
    assert (Hst : strip_v1 (r ++ (if leg then v1_suffix else "")) = (r, leg)).
    { destruct leg; [apply strip_v1_suffix|rewrite app_nil_r_s; apply strip_v1_plain]; apply alnum_nodot; exact Hral. }
    rewrite Hst, (split_dash_none r (alnum_nodash _ Hral)), Hr. reflexivity.
Qed.

Lemma nonempty_size_digits s : is_size_digits s = true -> nonempty s = true.
Proof. destruct s; [discriminate|reflexivity]. Qed.

Lemma legacy_group_eqb (leg : bool) : String.eqb (if leg then v1_suffix else "") v1_suffix = leg.
Proof. destruct leg; reflexivity. Qed.

(* printer then recogniser *)
Lemma scan_name_print p : parsed_ok p -> scan_name (print_name p) = Ok p.
Proof.
  intros Hok. unfold scan_name. rewrite (recognise_groups_print p Hok).
  destruct p as [h sz r leg]. destruct Hok as (Hh & Hr & Hs). unfold groups_of. cbn [p_hash p_size p_random p_legacy] in *.
  destruct sz as [n|].
  - rewrite (nonempty_size_digits _ (print_dec_size_digits n (proj1 Hs))).
    unfold parse_int64. rewrite (parse_print_dec n) by lia.
    destruct (n <=? maxInt64) eqn:E; [|lia]. rewrite legacy_group_eqb. reflexivity.
  - simpl. rewrite legacy_group_eqb. reflexivity.
Qed.

Lemma recognise_print p : parsed_ok p -> recognise (print_name p) = Some p.
Proof. intros H. unfold recognise. rewrite (scan_name_print p H). reflexivity. Qed.

(* what a match of the pattern says about the name *)
Lemma recognise_groups_spec name h g2 r g4 :
  recognise_groups name = Some (h, g2, r, g4) ->
  name = h ++ (if nonempty g2 then "-" ++ g2 else "") ++ "-" ++ r ++ g4 /\
  is_hash h = true /\ is_random r = true /\ (g2 = "" \/ is_size_digits g2 = true) /\
  (g4 = "" \/ g4 = v1_suffix).
Proof.
  unfold recognise_groups.
  destruct (split_at 64 name) as [[h0 rest]|] eqn:Es; [|discriminate].
  destruct (split_at_spec _ _ _ _ Es) as [-> Hlen].
  destruct (all_chars is_lhex h0) eqn:Ehex; [|discriminate]. cbn [negb].
  destruct rest as [|c rest1]; [discriminate|].
  destruct (Ascii.eqb c "-") eqn:Ec; [|discriminate]. cbn [negb].
  apply Ascii.eqb_eq in Ec. subst c.
  destruct (strip_v1 rest1) as [body leg] eqn:Est.
  pose proof (strip_v1_spec rest1 body leg Est) as Hrest.
  assert (Hhash : is_hash h0 = true) by (unfold is_hash; rewrite Hlen, Ehex; reflexivity).
  assert (Hg4 : (if leg then v1_suffix else "") = "" \/ (if leg then v1_suffix else "") = v1_suffix)
    by (destruct leg; [right|left]; reflexivity).
  destruct (split_dash body) as [[x y]|] eqn:Esd.
  - destruct (is_size_digits x && is_random y) eqn:E; [|discriminate].
    apply andb_true_iff in E as [Ex Ey]. intros H; inversion H; subst.
    rewrite (nonempty_size_digits _ Ex). pose proof (split_dash_spec _ _ _ Esd) as Hb. subst body.
    repeat split; auto. rewrite app_assoc_s. reflexivity.
  - destruct (is_random body) eqn:E; [|discriminate]. intros H; inversion H; subst.
    repeat split; auto.
Qed.

(* recogniser then printer *)
Lemma scan_name_spec name p : scan_name name = Ok p -> print_name p = name /\ parsed_ok p.
Proof.
  unfold scan_name.
  destruct (recognise_groups name) as [[[[h g2] r] g4]|] eqn:E; [|discriminate].
  destruct (recognise_groups_spec _ _ _ _ _ E) as (Hn & Hh & Hr & Hg2 & Hg4).
  assert (Hleg : (if String.eqb g4 v1_suffix then v1_suffix else "") = g4)
    by (destruct Hg4 as [-> | ->]; reflexivity).
  destruct (nonempty g2) eqn:Ene.
  - destruct Hg2 as [-> | Hd]; [discriminate|].
    destruct (parse_size_digits g2 Hd) as (n & Hp & Hn1 & Hpr).
    unfold parse_int64. rewrite Hp. destruct (n <=? maxInt64) eqn:Emax; [|discriminate].
    intros H; inversion H; subst p. unfold print_name, parsed_ok. cbn [p_hash p_size p_random p_legacy].
    rewrite Hpr, Hleg. split; [symmetry; exact Hn|]. repeat split; auto; lia.
  - intros H; inversion H; subst p. unfold print_name, parsed_ok. cbn [p_hash p_size p_random p_legacy].
    rewrite Hleg. split; [symmetry; exact Hn|]. repeat split; auto.
Qed.

Lemma recognise_spec name p : recognise name = Some p -> print_name p = name /\ parsed_ok p.
Proof.
  unfold recognise. destruct (scan_name name) as [q| | |] eqn:E; try discriminate.
  intros H; inversion H; subst. apply scan_name_spec. exact E.
Qed.

(* ------------------------------------------------------------------ *)
(* FileLocation *)

Lemma sprintf_nil : sprintf "" [] = "".
Proof. reflexivity. Qed.

Lemma file_location_eq k legacy h sz r :
  file_location k legacy h sz r = join3 (kind_dir k) (take2 h) (print_name (shape k legacy h sz r)).
Proof.
  unfold file_location, join3, print_name, shape.
  destruct k; [| destruct legacy|]; cbn [p_hash p_size p_random p_legacy kind_dir];
    unfold fmt_cas_v1, fmt_cas_v2, v1_suffix; cbn [sprintf Ascii.eqb Bool.eqb];
    rewrite ?app_assoc_s; cbn [append]; rewrite ?app_nil_r_s; reflexivity.
Qed.

Lemma shape_ok k legacy h sz r :
  is_hash h = true -> is_random r = true -> 1 <= sz <= maxInt64 -> parsed_ok (shape k legacy h sz r).
Proof.
  intros Hh Hr Hs. unfold shape, parsed_ok.
  destruct k; [| destruct legacy|]; cbn [p_hash p_size p_random p_legacy]; repeat split; auto; lia.
Qed.

Lemma print_name_noslash p : parsed_ok p -> all_chars (not_char "/") (print_name p) = true.
Proof.
  destruct p as [h sz r leg]. intros (Hh & Hr & Hs). cbn [p_hash p_size p_random p_legacy] in *.
  destruct (is_hash_length h Hh) as [_ Hhex]. destruct (is_random_spec r Hr) as [_ Hral].
  unfold print_name. cbn [p_hash p_size p_random p_legacy]. rewrite !all_chars_app.
  rewrite (alnum_noslash _ (lhex_alnum_s _ Hhex)), (alnum_noslash _ Hral).
  destruct sz as [n|]; [rewrite all_chars_app, (alnum_noslash _ (digits_alnum _ (print_dec_digits n)))|];
    destruct leg; reflexivity.
Qed.

(* every name FileLocation writes is recognised by scanDir, with the same fields *)
Lemma names_roundtrip k legacy h sz r :
  is_hash h = true -> is_random r = true -> 1 <= sz <= maxInt64 ->
  recognise (basename (file_location k legacy h sz r)) = Some (shape k legacy h sz r).
Proof.
  intros Hh Hr Hs. pose proof (shape_ok k legacy h sz r Hh Hr Hs) as Hok.
  rewrite file_location_eq, basename_join3 by (apply print_name_noslash; exact Hok).
  apply recognise_print. exact Hok.
Qed.

(* ------------------------------------------------------------------ *)
(* lookup keys and getElementPath *)

Lemma kind_of_dir_kind_dir k : kind_of_dir (kind_dir k) = Some k.
Proof. destruct k; reflexivity. Qed.

Lemma key_kind_lookup k h : key_kind (lookup_key k h) = k.
Proof. destruct k; reflexivity. Qed.

Lemma key_hash_lookup k h : String.length h = 64%nat -> key_hash (lookup_key k h) = h.
Proof.
  intros Hl. unfold key_hash, lookup_key.
  replace (kind_str k ++ "/" ++ h) with ((kind_str k ++ "/") ++ h) by (rewrite app_assoc_s; reflexivity).
  rewrite length_app_s, Hl.
  replace (String.length (kind_str k ++ "/") + 64 - 64)%nat with (String.length (kind_str k ++ "/")) by lia.
  rewrite substring_skip, <- Hl. apply substring_all.
Qed.

(* the lookup key scanDir derives from directory and name is LookupKey(kind, hash) *)
Lemma lookup_key_of_location k legacy h sz r :
  is_hash h = true -> is_random r = true -> 1 <= sz <= maxInt64 ->
  exists p, recognise (basename (file_location k legacy h sz r)) = Some p /\
            kind_of_dir (kind_dir k) = Some k /\ lookup_key k (p_hash p) = lookup_key k h.
Proof.
  intros Hh Hr Hs. exists (shape k legacy h sz r). split; [apply names_roundtrip; assumption|].
  split; [apply kind_of_dir_kind_dir|]. destruct k; [|destruct legacy|]; reflexivity.
Qed.
