(* Proofs/ActionResult_store.v — the upload decisions (gRPC UpdateActionResult, HTTP PUT) over
   an ARBITRARY store behaviour, and their consequences on the reference store: acceptance is
   equivalent to validity, a rejected upload leaves the action cache untouched and adds to the CAS
   only blobs that verified, every stored value validates, the latest accepted upload wins. *)
From BR Require Import Base.Prelude Gen.Consts Model.ActionResult Proofs.ActionResult_validate.
Open Scope string_scope.
Open Scope list_scope.
Open Scope Z_scope.

Definition no_ac_put (ops : list store_op) : Prop := existsb is_ac_put ops = false.

Lemma no_ac_put_app a b : no_ac_put a -> no_ac_put b -> no_ac_put (a ++ b).
Proof. unfold no_ac_put. rewrite existsb_app. intros -> ->. reflexivity. Qed.

Lemma no_ac_put_not_in ops k a : no_ac_put ops -> ~ In (OpPutAC k a) ops.
Proof.
  unfold no_ac_put. intros H I. assert (E : existsb is_ac_put ops = true) by (apply existsb_exists; exists (OpPutAC k a); split; [exact I|reflexivity]).
  congruence.
Qed.

(* ------------------------------------------------------------------ *)
Section Generic.
  Context {St : Type}.
  Variable sput : St -> store_op -> St * option errc.
  (* any property of the store that CAS puts (accepted or refused) preserve *)
  Variable P : St -> Prop.
  Hypothesis P_cas : forall s d b, P s -> P (fst (sput s (OpPutCAS d b))).

  Lemma put_files_inv fs : forall s s' fs' ops e,
    put_files sput s fs = (s', fs', ops, e) -> P s ->
    P s' /\ no_ac_put ops /\ (first_err check_file fs = Ok None -> fs' = fs).
  Proof.
    induction fs as [|f t IH]; intros s s' fs' ops e H Ps; simpl in H.
    - inversion H; subst. repeat split; try assumption; reflexivity.
    - assert (TL : first_err check_file (f :: t) = Ok None -> check_file f = Ok None /\ first_err check_file t = Ok None).
      { simpl. destruct (check_file_total f) as [x X]. rewrite X. simpl. destruct x; [discriminate|]. intros Q; split; [reflexivity|exact Q]. }
      destruct f as [f|].
      + assert (FD : check_file (Some f) = Ok None ->
                     mkOF (of_path f) (Some (match of_digest f with Some d => d | None => true_digest (of_contents f) end)) (of_exec f) (of_contents f) = f).
        { intros Q. apply check_file_ok in Q as [a [Q1 [_ [g [Q2 _]]]]]. inversion Q1; subst a. rewrite Q2. destruct f; simpl in *. subst. reflexivity. }
        destruct (blen (of_contents f) >? 0) eqn:E.
        * destruct (sput s (OpPutCAS (match of_digest f with Some d => d | None => true_digest (of_contents f) end) (of_contents f))) as [s1 e1] eqn:SP.
          assert (P1 : P s1) by (pose proof (P_cas s (match of_digest f with Some d => d | None => true_digest (of_contents f) end) (of_contents f) Ps) as Q; rewrite SP in Q; exact Q).
          destruct e1 as [c|].
          -- inversion H; subst. split; [exact P1|split; [reflexivity|]].
             intros Q. apply TL in Q as [Q1 Q2]. rewrite (FD Q1). reflexivity.
          -- destruct (put_files sput s1 t) as [[[s2 t'] ops2] e2] eqn:R. inversion H; subst.
             destruct (IH _ _ _ _ _ R P1) as (Q1 & Q2 & Q3). split; [exact Q1|split; [exact Q2|]].
             intros Q. apply TL in Q as [Q4 Q5]. rewrite (FD Q4), (Q3 Q5). reflexivity.
        * destruct (put_files sput s t) as [[[s2 t'] ops2] e2] eqn:R. inversion H; subst.
          destruct (IH _ _ _ _ _ R Ps) as (Q1 & Q2 & Q3). split; [exact Q1|split; [exact Q2|]].
          intros Q. apply TL in Q as [Q4 Q5]. rewrite (Q3 Q5). reflexivity.
      + destruct (put_files sput s t) as [[[s2 t'] ops2] e2] eqn:R. inversion H; subst.
        destruct (IH _ _ _ _ _ R Ps) as (Q1 & Q2 & Q3). split; [exact Q1|split; [exact Q2|]].
        intros Q. apply TL in Q as [Q4 Q5]. rewrite (Q3 Q5). reflexivity.
  Qed.

  Lemma put_raw_inv s c d s' ops e :
    put_raw sput s c d = (s', ops, e) -> P s -> P s' /\ no_ac_put ops.
  Proof.
    unfold put_raw. destruct (blen c >? 0).
    - destruct (sput s _) as [s1 e1] eqn:SP. intros H Ps; inversion H; subst.
      split; [|reflexivity]. pose proof (P_cas s (match d with Some g => g | None => true_digest c end) c Ps) as Q. rewrite SP in Q. exact Q.
    - intros H Ps; inversion H; subst. split; [exact Ps|reflexivity].
  Qed.

  (* Inversion of UpdateActionResult: either nothing was sent to the action cache (and the call
     failed), or the message passed every check and the LAST operation is the AC put of the
     message-with-worker, whose outcome decides the status. *)
  Lemma update_inv w mok s req s' ops r :
    update_action_result sput w mok s req = (s', ops, r) -> P s ->
    (no_ac_put ops /\ P s' /\ is_ok r = false)
    \/ (exists key ar0 s3 e casops,
          req = Some (mkUpd (Some key) (Some ar0)) /\
          validate_key (hash key) (size_bytes key) = true /\
          validate (Some ar0) = Ok tt /\ mok = true /\
          P s3 /\ no_ac_put casops /\
          ops = casops ++ [OpPutAC (hash key) (add_worker w ar0)] /\
          sput s3 (OpPutAC (hash key) (add_worker w ar0)) = (s', e) /\
          match e with
          | None => r = Ok (add_worker w ar0)
          | Some c => r = Err (grpc_put_err c)
          end).
  Proof.
    unfold update_action_result. intros H Ps.
    destruct req as [rq|]; [|inversion H; subst; left; repeat split; assumption].
    destruct rq as [od oar]; simpl in H.
    destruct od as [key|]; [|inversion H; subst; left; repeat split; assumption].
    destruct (validate_key (hash key) (size_bytes key)) eqn:VK; simpl in H;
      [|inversion H; subst; left; repeat split; assumption].
    destruct (validate oar) as [[]|ve|x|x] eqn:V;
      try (inversion H; subst; left; repeat split; assumption).
    destruct oar as [ar0|]; [|inversion H; subst; left; repeat split; assumption].
    destruct mok; simpl in H; [|inversion H; subst; left; repeat split; assumption].
    rewrite add_worker_not_empty in H.
    destruct (put_files sput s (ar_files (add_worker w ar0))) as [[[s1 fs'] ops1] e1] eqn:PF.
    destruct (put_files_inv _ _ _ _ _ _ PF Ps) as (P1 & N1 & F1).
    destruct e1 as [c1|]; [inversion H; subst; left; repeat split; assumption|].
    assert (fs' = ar_files (add_worker w ar0)).
    { apply F1. rewrite <- validate_add_worker with (w := w) in V. apply validate_files_ok. exact V. }
    subst fs'. rewrite set_files_id in *.
    set (ar1 := add_worker w ar0) in *.
    destruct (put_raw sput s1 (ar_stdout_raw ar1) (ar_stdout_digest ar1)) as [[s2 ops2] e2] eqn:PR1.
    destruct (put_raw_inv _ _ _ _ _ _ PR1 P1) as (P2 & N2).
    destruct e2 as [c2|]; [inversion H; subst; left; repeat split; [apply no_ac_put_app|..]; assumption|].
    destruct (put_raw sput s2 (ar_stderr_raw ar1) (ar_stderr_digest ar1)) as [[s3 ops3] e3] eqn:PR2.
    destruct (put_raw_inv _ _ _ _ _ _ PR2 P2) as (P3 & N3).
    destruct e3 as [c3|]; [inversion H; subst; left; repeat split; [repeat apply no_ac_put_app|..]; assumption|].
    destruct (sput s3 (OpPutAC (hash key) ar1)) as [s4 e4] eqn:SP.
    right. exists key, ar0, s3, e4, (ops1 ++ ops2 ++ ops3).
    assert (OPS : forall tl, ops1 ++ ops2 ++ ops3 ++ tl = (ops1 ++ ops2 ++ ops3) ++ tl)
      by (intros; rewrite <- !app_assoc; reflexivity).
    unfold ar1 in *.
    destruct e4 as [c4|]; inversion H; subst; rewrite OPS.
    all: split; [reflexivity|split; [exact VK|split; [exact V|split; [reflexivity|split; [exact P3|
         split; [repeat apply no_ac_put_app; assumption|split; [reflexivity|split; [exact SP|reflexivity]]]]]]]].
  Qed.

End Generic.

Section GenericHttp.
  Context {St : Type}.
  Variable sput : St -> store_op -> St * option errc.

  (* HTTP PUT: the framing conditions the handler checks before looking at the message:
     declared size known and within the limit, supported encoding, body decompresses to
     exactly the declared number of bytes *)
  Definition HttpFramingOk (max_cas : Z) (r : http_put) : Prop :=
    exists cl data, http_declared r = Some cl /\ cl <> -1 /\ cl <= max_cas /\
      (hp_encoding r = "zstd" \/ hp_encoding r = "" \/ hp_encoding r = "identity") /\
      http_payload r = Some data /\ blen data = cl.

  Lemma enc_supported_spec enc : enc_supported enc = true <-> (enc = "zstd" \/ enc = "" \/ enc = "identity").
  Proof.
    unfold enc_supported. rewrite !orb_true_iff, !String.eqb_eq, str_empty_spec. tauto.
  Qed.

  Lemma http_put_inv mx s r s' ops res :
    http_put_ac sput true mx s r = (s', ops, res) ->
    (ops = [] /\ s' = s /\ is_ok res = false /\
       ~ (HttpFramingOk mx r /\ exists ar0, hp_decoded r = Some ar0 /\ validate (Some ar0) = Ok tt))
    \/ (exists ar0 e,
          HttpFramingOk mx r /\ hp_decoded r = Some ar0 /\ validate (Some ar0) = Ok tt /\
          ops = [OpPutAC (hp_key r) (add_worker (http_worker (hp_remote r)) ar0)] /\
          sput s (OpPutAC (hp_key r) (add_worker (http_worker (hp_remote r)) ar0)) = (s', e) /\
          match e with None => res = Ok tt | Some c => res = Err c end).
  Proof.
    unfold http_put_ac, HttpFramingOk. intros H.
    assert (REJ : forall e, (s, @nil store_op, @Err unit e) = (s', ops, res) ->
                  ops = [] /\ s' = s /\ is_ok res = false) by (intros e Q; inversion Q; subst; repeat split).
    destruct (http_declared r) as [cl|] eqn:D.
    2:{ left. destruct (REJ _ H) as (A & B & C). repeat split; try assumption. intros [[cl [data [E _]]] _]; discriminate. }
    destruct (cl =? -1) eqn:E1.
    { left. destruct (REJ _ H) as (A & B & C). repeat split; try assumption.
      intros [[cl' [data [E [N _]]]] _]. inversion E; subst. lia. }
    destruct (cl >? mx) eqn:E2.
    { left. destruct (REJ _ H) as (A & B & C). repeat split; try assumption.
      intros [[cl' [data [E [_ [N _]]]]] _]. inversion E; subst. lia. }
    destruct (enc_supported (hp_encoding r)) eqn:ENC; simpl in H.
    2:{ left. destruct (REJ _ H) as (A & B & C). repeat split; try assumption.
        intros [[cl' [data [_ [_ [_ [Q _]]]]]] _]. apply enc_supported_spec in Q. congruence. }
    apply enc_supported_spec in ENC.
    destruct (http_payload r) as [data|] eqn:PL.
    2:{ left. destruct (REJ _ H) as (A & B & C). repeat split; try assumption.
        intros [[cl' [data [_ [_ [_ [_ [Q _]]]]]]] _]; discriminate. }
    destruct (blen data =? cl) eqn:E3; simpl in H.
    2:{ left. destruct (REJ _ H) as (A & B & C). repeat split; try assumption.
        intros [[cl' [data' [E [_ [_ [_ [Q Q2]]]]]]] _]. inversion E; subst; inversion Q; subst. lia. }
    destruct (hp_decoded r) as [ar0|] eqn:DEC.
    2:{ left. destruct (REJ _ H) as (A & B & C). repeat split; try assumption.
        intros [_ [ar0 [Q _]]]; discriminate. }
    rewrite validate_add_worker in H.
    destruct (validate_cases (Some ar0)) as [V|V]; rewrite V in H.
    2:{ left. destruct (REJ _ H) as (A & B & C). repeat split; try assumption.
        intros [_ [ar1 [Q Q2]]]. inversion Q; subst. congruence. }
    destruct (sput s (OpPutAC (hp_key r) (add_worker (http_worker (hp_remote r)) ar0))) as [s1 e] eqn:SP.
    right. exists ar0, e.
    split; [exists cl, data; repeat split; try assumption; lia|].
    destruct e; inversion H; subst;
      (split; [reflexivity|split; [exact V|split; [reflexivity|split; [exact SP|reflexivity]]]]).
  Qed.
End GenericHttp.

(* ------------------------------------------------------------------ *)
(* accepted only if valid — for EVERY store behaviour *)

Theorem update_accept_only_if_valid {St} (sput : St -> store_op -> St * option errc) w mok s req s' ops m :
  update_action_result sput w mok s req = (s', ops, Ok m) ->
  exists key ar0, req = Some (mkUpd (Some key) (Some ar0)) /\
    validate_key (hash key) (size_bytes key) = true /\ WellFormed ar0 /\ mok = true /\
    In (OpPutAC (hash key) (spec_with_worker w ar0)) ops.
Proof.
  intros H. destruct (update_inv sput (fun _ => True) (fun _ _ _ _ => I) _ _ _ _ _ _ _ H I)
    as [(_ & _ & F)|(key & ar0 & s3 & e & casops & E1 & E2 & E3 & E4 & _ & _ & E5 & _ & _)]; [discriminate|].
  exists key, ar0. split; [exact E1|split; [exact E2|split; [apply validate_sound; exact E3|split; [exact E4|]]]].
  rewrite <- add_worker_spec, E5. apply in_or_app; right; left; reflexivity.
Qed.

(* accepted iff valid — for a store that accepts every operation *)
Theorem update_accept_iff_valid {St} (sput : St -> store_op -> St * option errc) w mok s req :
  (forall s o, snd (sput s o) = None) ->
  (is_ok (snd (update_action_result sput w mok s req)) = true <->
   exists key ar0, req = Some (mkUpd (Some key) (Some ar0)) /\
     validate_key (hash key) (size_bytes key) = true /\ WellFormed ar0 /\ mok = true).
Proof.
  intros ACC. destruct (update_action_result sput w mok s req) as [[s' ops] r] eqn:H. simpl.
  split.
  - destruct r as [m| | |]; try discriminate. intros _.
    destruct (update_accept_only_if_valid _ _ _ _ _ _ _ _ H) as (key & ar0 & E1 & E2 & E3 & E4 & _).
    exists key, ar0. exact (conj E1 (conj E2 (conj E3 E4))).
  - intros (key & ar0 & E1 & E2 & E3 & E4). subst req mok. apply validate_complete in E3.
    unfold update_action_result in H. simpl in H. rewrite E2, E3 in H. simpl in H.
    rewrite add_worker_not_empty in H.
    destruct (put_files sput s (ar_files (add_worker w ar0))) as [[[s1 fs'] ops1] e1] eqn:PF.
    assert (e1 = None).
    { clear H. revert s s1 fs' ops1 e1 PF. induction (ar_files (add_worker w ar0)) as [|f t IH]; intros s s1 fs' ops1 e1 PF; simpl in PF.
      - inversion PF; reflexivity.
      - destruct f as [f|].
        + destruct (blen (of_contents f) >? 0).
          * destruct (sput s _) as [s2 e2] eqn:SP. pose proof (ACC s (OpPutCAS (match of_digest f with Some d => d | None => true_digest (of_contents f) end) (of_contents f))) as A.
            rewrite SP in A. simpl in A. subst e2.
            destruct (put_files sput s2 t) as [[[s3 t'] ops3] e3] eqn:R. inversion PF; subst. eapply IH; exact R.
          * destruct (put_files sput s t) as [[[s3 t'] ops3] e3] eqn:R. inversion PF; subst. eapply IH; exact R.
        + destruct (put_files sput s t) as [[[s3 t'] ops3] e3] eqn:R. inversion PF; subst. eapply IH; exact R. }
    subst e1.
    destruct (put_files_inv sput (fun _ => True) (fun _ _ _ _ => I) _ _ _ _ _ _ PF I) as (_ & _ & F1).
    assert (fs' = ar_files (add_worker w ar0)) by (apply F1; apply validate_files_ok; rewrite validate_add_worker; exact E3).
    subst fs'. rewrite set_files_id in *.
    assert (RAW : forall s c d, snd (put_raw sput s c d) = None).
    { intros s0 c d. unfold put_raw. destruct (blen c >? 0); [|reflexivity].
      destruct (sput s0 _) as [s2 e2] eqn:SP. simpl.
      pose proof (ACC s0 (OpPutCAS (match d with Some g => g | None => true_digest c end) c)) as A. rewrite SP in A. exact A. }
    destruct (put_raw sput s1 _ _) as [[s2 ops2] e2] eqn:PR1.
    pose proof (RAW s1 (ar_stdout_raw (add_worker w ar0)) (ar_stdout_digest (add_worker w ar0))) as A1.
    rewrite PR1 in A1. simpl in A1. subst e2.
    destruct (put_raw sput s2 _ _) as [[s3 ops3] e3] eqn:PR2.
    pose proof (RAW s2 (ar_stderr_raw (add_worker w ar0)) (ar_stderr_digest (add_worker w ar0))) as A2.
    rewrite PR2 in A2. simpl in A2. subst e3.
    destruct (sput s3 _) as [s4 e4] eqn:SP. pose proof (ACC s3 (OpPutAC (hash key) (add_worker w ar0))) as A3.
    rewrite SP in A3. simpl in A3. subst e4. inversion H; subst. reflexivity.
Qed.

Theorem http_accept_only_if_valid {St} (sput : St -> store_op -> St * option errc) mx s r s' ops :
  http_put_ac sput true mx s r = (s', ops, Ok tt) ->
  HttpFramingOk mx r /\ exists ar0, hp_decoded r = Some ar0 /\ WellFormed ar0 /\
    ops = [OpPutAC (hp_key r) (spec_with_worker (http_worker (hp_remote r)) ar0)].
Proof.
  intros H. destruct (http_put_inv sput _ _ _ _ _ _ H) as [(_ & _ & F & _)|(ar0 & e & E1 & E2 & E3 & E4 & _ & _)]; [discriminate|].
  split; [exact E1|]. exists ar0. split; [exact E2|split; [apply validate_sound; exact E3|]].
  rewrite <- add_worker_spec. exact E4.
Qed.

Theorem http_accept_iff_valid {St} (sput : St -> store_op -> St * option errc) mx s r :
  (forall s o, snd (sput s o) = None) ->
  (is_ok (snd (http_put_ac sput true mx s r)) = true <->
   HttpFramingOk mx r /\ exists ar0, hp_decoded r = Some ar0 /\ WellFormed ar0).
Proof.
  intros ACC. destruct (http_put_ac sput true mx s r) as [[s' ops] res] eqn:H. simpl.
  destruct (http_put_inv sput _ _ _ _ _ _ H) as [(_ & _ & F & N)|(ar0 & e & E1 & E2 & E3 & E4 & E5 & E6)].
  - rewrite F. split; [discriminate|]. intros [Q1 [ar0 [Q2 Q3]]]. exfalso. apply N. split; [exact Q1|].
    exists ar0; split; [exact Q2|apply validate_complete; exact Q3].
  - pose proof (ACC s (OpPutAC (hp_key r) (add_worker (http_worker (hp_remote r)) ar0))) as A.
    rewrite E5 in A. simpl in A. subst e. subst res. split; [|reflexivity]. intros _.
    split; [exact E1|]. exists ar0; split; [exact E2|apply validate_sound; exact E3].
Qed.

(* a rejected upload stores nothing under the action key — for EVERY store behaviour: either
   no AC put was issued at all, or the single AC put issued was the last operation and it is the
   store itself that refused it *)
Theorem update_reject_no_ac_put {St} (sput : St -> store_op -> St * option errc) w mok s req s' ops r :
  update_action_result sput w mok s req = (s', ops, r) -> is_ok r = false ->
  no_ac_put ops \/
  exists casops k a s3 c, ops = casops ++ [OpPutAC k a] /\ no_ac_put casops /\
                          sput s3 (OpPutAC k a) = (s', Some c).
Proof.
  intros H F. destruct (update_inv sput (fun _ => True) (fun _ _ _ _ => I) _ _ _ _ _ _ _ H I)
    as [(N & _ & _)|(key & ar0 & s3 & e & casops & _ & _ & _ & _ & _ & N & E5 & SP & R)]; [left; exact N|].
  destruct e as [c|]; [|subst r; discriminate].
  right. exists casops, (hash key), (add_worker w ar0), s3, c. repeat split; assumption.
Qed.

Theorem http_reject_no_ac_put {St} (sput : St -> store_op -> St * option errc) mx s r s' ops res :
  http_put_ac sput true mx s r = (s', ops, res) -> is_ok res = false ->
  (ops = [] /\ s' = s) \/ exists k a c, ops = [OpPutAC k a] /\ sput s (OpPutAC k a) = (s', Some c).
Proof.
  intros H F. destruct (http_put_inv sput _ _ _ _ _ _ H) as [(E1 & E2 & _)|(ar0 & e & _ & _ & _ & E4 & E5 & E6)]; [left; split; assumption|].
  destruct e as [c|]; [|subst res; discriminate]. right. eexists _, _, c. split; eassumption.
Qed.

(* ------------------------------------------------------------------ *)
(* the reference store *)

(* the CAS only ever grows, by blobs stored under their true digest *)
Definition cas_true (l : list (string * bytes)) : Prop := Forall (fun hb => bsha (snd hb) = fst hb /\ 0 <= blen (snd hb)) l.
Definition cas_ext (s s' : mstore) : Prop :=
  exists added, st_cas s' = added ++ st_cas s /\ cas_true added.

Lemma cas_ext_refl s : cas_ext s s.
Proof. exists []; split; [reflexivity|constructor]. Qed.
Lemma cas_ext_trans a b c : cas_ext a b -> cas_ext b c -> cas_ext a c.
Proof.
  intros [x [E1 T1]] [y [E2 T2]]. exists (y ++ x). rewrite E2, E1, app_assoc. split; [reflexivity|].
  apply Forall_app; split; assumption.
Qed.

Lemma ms_put_cas s d b s' e :
  ms_put s (OpPutCAS d b) = (s', e) ->
  st_ac s' = st_ac s /\ st_raw s' = st_raw s /\ cas_ext s s' /\ (e <> None -> s' = s) /\
  (e = None <-> cas_put_ok d b = None).
Proof.
  simpl. destruct (cas_put_ok d b) as [c|] eqn:OK.
  - intros H; inversion H; subst. repeat split; try reflexivity; try discriminate; apply cas_ext_refl.
  - destruct ((size_bytes d =? 0) && String.eqb (hash d) emptySha) eqn:EB; intros H; inversion H; subst; simpl.
    + repeat split; try reflexivity; try congruence; apply cas_ext_refl.
    + repeat split; try reflexivity; try congruence.
      exists [(hash d, b)]; split; [reflexivity|]. constructor; [|constructor]. simpl.
      unfold cas_put_ok in OK. rewrite EB in OK.
      destruct (size_bytes d <? 0) eqn:E0; [discriminate|].
      destruct (negb (slen (hash d) =? sha256HashStrSize)); [discriminate|].
      destruct ((blen b =? size_bytes d) && String.eqb (bsha b) (hash d)) eqn:E1; [|discriminate].
      apply andb_true_iff in E1 as [E1 E2]. apply String.eqb_eq in E2. split; [exact E2|lia].
Qed.

Lemma ms_put_refused s o s' c : ms_put s o = (s', Some c) -> s' = s.
Proof.
  destruct o as [d b|k a|k n b]; simpl.
  - destruct (cas_put_ok d b); [intros H; inversion H; reflexivity|].
    destruct ((size_bytes d =? 0) && String.eqb (hash d) emptySha); discriminate.
  - destruct (negb (slen k =? sha256HashStrSize)); [intros H; inversion H; reflexivity|discriminate].
  - destruct (n <? 0); [intros H; inversion H; reflexivity|].
    destruct (negb (slen k =? sha256HashStrSize)); [intros H; inversion H; reflexivity|].
    destruct (negb (blen b =? n)); [intros H; inversion H; reflexivity|discriminate].
Qed.

Lemma ms_put_ac_ok s k a s' : ms_put s (OpPutAC k a) = (s', None) ->
  st_ac s' = (k, a) :: st_ac s /\ st_cas s' = st_cas s /\ st_raw s' = st_raw s.
Proof. simpl. destruct (negb (slen k =? sha256HashStrSize)); [discriminate|]. intros H; inversion H; subst. repeat split. Qed.

(* what CAS puts preserve, relative to a starting state [s0] *)
Definition since (s0 s : mstore) : Prop := st_ac s = st_ac s0 /\ st_raw s = st_raw s0 /\ cas_ext s0 s.
Lemma since_refl s : since s s.
Proof. repeat split; apply cas_ext_refl. Qed.
Lemma since_cas s0 s d b : since s0 s -> since s0 (fst (ms_put s (OpPutCAS d b))).
Proof.
  intros (A & B & C). destruct (ms_put s (OpPutCAS d b)) as [s' e] eqn:H. simpl.
  destruct (ms_put_cas _ _ _ _ _ H) as (A' & B' & C' & _). repeat split; [congruence|congruence|eapply cas_ext_trans; eassumption].
Qed.

(* C11 "a rejected upload stores nothing": on the reference store a rejected UpdateActionResult
   leaves the action cache (and the raw key space) exactly as it was; the CAS may have gained
   blobs — only such whose bytes matched the digest they are stored under *)
Theorem update_reject_stores_nothing w mok s req s' ops r :
  update_action_result ms_put w mok s req = (s', ops, r) -> is_ok r = false ->
  st_ac s' = st_ac s /\ st_raw s' = st_raw s /\ cas_ext s s'.
Proof.
  intros H F. destruct (update_inv ms_put (since s) (since_cas s) _ _ _ _ _ _ _ H (since_refl s))
    as [(_ & Q & _)|(key & ar0 & s3 & e & casops & _ & _ & _ & _ & Q & _ & _ & SP & R)]; [exact Q|].
  destruct e as [c|]; [|subst r; discriminate].
  apply ms_put_refused in SP. subst s'. exact Q.
Qed.

Theorem http_reject_stores_nothing mx s r s' ops res :
  http_put_ac ms_put true mx s r = (s', ops, res) -> is_ok res = false -> s' = s.
Proof.
  intros H F. destruct (http_reject_no_ac_put _ _ _ _ _ _ _ H F) as [[_ E]|(k & a & c & _ & SP)]; [exact E|].
  apply ms_put_refused in SP. exact SP.
Qed.

(* an accepted upload: the action cache gains exactly the message with the worker filled in *)
Theorem update_accept_stores w mok s req s' ops m :
  update_action_result ms_put w mok s req = (s', ops, Ok m) ->
  exists key ar0, req = Some (mkUpd (Some key) (Some ar0)) /\ WellFormed ar0 /\
    st_ac s' = (hash key, spec_with_worker w ar0) :: st_ac s /\ st_raw s' = st_raw s /\ cas_ext s s' /\
    validate (Some m) = Ok tt.
Proof.
  intros H. destruct (update_inv ms_put (since s) (since_cas s) _ _ _ _ _ _ _ H (since_refl s))
    as [(_ & _ & F)|(key & ar0 & s3 & e & casops & E1 & _ & E3 & _ & (Q1 & Q2 & Q3) & _ & _ & SP & R)]; [discriminate|].
  destruct e as [c|]; [discriminate|]. inversion R; subst m.
  apply ms_put_ac_ok in SP as (A & B & C).
  exists key, ar0. rewrite <- add_worker_spec.
  split; [exact E1|split; [apply validate_sound; exact E3|split; [congruence|split; [congruence|split]]]].
  - destruct Q3 as [added [E T]]. exists added. split; [congruence|exact T].
  - rewrite validate_add_worker. exact E3.
Qed.

(* the message UpdateActionResult returns is the one it stored *)
Theorem update_accept_returns {St} (sput : St -> store_op -> St * option errc) w mok s req s' ops m :
  update_action_result sput w mok s req = (s', ops, Ok m) ->
  exists key ar0, req = Some (mkUpd (Some key) (Some ar0)) /\ m = spec_with_worker w ar0.
Proof.
  intros H. destruct (update_inv sput (fun _ => True) (fun _ _ _ _ => I) _ _ _ _ _ _ _ H I)
    as [(_ & _ & F)|(key & ar0 & s3 & e & casops & E1 & _ & _ & _ & _ & _ & _ & _ & R)]; [discriminate|].
  destruct e as [c|]; [discriminate|]. inversion R; subst m. exists key, ar0. split; [exact E1|apply add_worker_spec].
Qed.

Theorem http_accept_stores mx s r s' ops :
  http_put_ac ms_put true mx s r = (s', ops, Ok tt) ->
  exists ar0, hp_decoded r = Some ar0 /\ WellFormed ar0 /\
    st_ac s' = (hp_key r, spec_with_worker (http_worker (hp_remote r)) ar0) :: st_ac s /\
    st_cas s' = st_cas s /\ st_raw s' = st_raw s.
Proof.
  intros H. destruct (http_put_inv ms_put _ _ _ _ _ _ H) as [(_ & _ & F & _)|(ar0 & e & _ & E2 & E3 & _ & SP & R)]; [discriminate|].
  destruct e as [c|]; [discriminate|]. apply ms_put_ac_ok in SP as (A & B & C).
  exists ar0. rewrite <- add_worker_spec.
  split; [exact E2|split; [apply validate_sound; exact E3|split; [exact A|split; [exact B|exact C]]]].
Qed.

(* without validation the HTTP front end never touches the AC key space *)
Lemma http_novalidate_ac mx s r s' ops res :
  http_put_ac ms_put false mx s r = (s', ops, res) -> st_ac s' = st_ac s /\ st_cas s' = st_cas s.
Proof.
  unfold http_put_ac. intros H.
  destruct (http_declared r) as [cl|]; [|inversion H; subst; split; reflexivity].
  destruct (cl =? -1); [inversion H; subst; split; reflexivity|].
  destruct (cl >? mx); [inversion H; subst; split; reflexivity|].
  destruct (negb _); [inversion H; subst; split; reflexivity|].
  destruct (http_payload r) as [data|]; [|inversion H; subst; split; reflexivity].
  destruct (ms_put s (OpPutRAW (hp_key r) cl data)) as [s1 e] eqn:SP.
  assert (st_ac s1 = st_ac s /\ st_cas s1 = st_cas s).
  { simpl in SP. destruct (cl <? 0); [inversion SP; subst; split; reflexivity|].
    destruct (negb (slen (hp_key r) =? sha256HashStrSize)); [inversion SP; subst; split; reflexivity|].
    destruct (negb (blen data =? cl)); inversion SP; subst; split; reflexivity. }
  destruct e; inversion H; subst; assumption.
Qed.

(* ------------------------------------------------------------------ *)
(* an acknowledged UpdateActionResult: every operation it issued was accepted by the store, and
   the operations include a CAS Put for every inlined byte string under the digest beside it *)
Section Accepted.
  Context {St : Type}.
  Variable sput : St -> store_op -> St * option errc.
  Variable Acc : store_op -> Prop.
  Hypothesis Acc_ok : forall s o s', sput s o = (s', None) -> Acc o.

  Lemma put_files_acc fs : forall s s' fs' ops,
    put_files sput s fs = (s', fs', ops, None) ->
    Forall Acc ops /\
    forall f, In (Some f) fs -> blen (of_contents f) >? 0 = true ->
      In (OpPutCAS (match of_digest f with Some d => d | None => true_digest (of_contents f) end) (of_contents f)) ops.
  Proof.
    induction fs as [|f t IH]; intros s s' fs' ops H; simpl in H.
    - inversion H; subst. split; [constructor|intros f []].
    - destruct f as [f|].
      + destruct (blen (of_contents f) >? 0) eqn:E.
        * destruct (sput s _) as [s1 e1] eqn:SP. destruct e1 as [c|]; [discriminate|].
          destruct (put_files sput s1 t) as [[[s2 t'] ops2] e2] eqn:R. inversion H; subst.
          destruct (IH _ _ _ _ R) as [A B]. split; [constructor; [eapply Acc_ok; exact SP|exact A]|].
          intros f0 [Q|Q] L; [inversion Q; subst; left; reflexivity|right; apply B; assumption].
        * destruct (put_files sput s t) as [[[s2 t'] ops2] e2] eqn:R. inversion H; subst.
          destruct (IH _ _ _ _ R) as [A B]. split; [exact A|].
          intros f0 [Q|Q] L; [inversion Q; subst; congruence|apply B; assumption].
      + destruct (put_files sput s t) as [[[s2 t'] ops2] e2] eqn:R. inversion H; subst.
        destruct (IH _ _ _ _ R) as [A B]. split; [exact A|].
        intros f0 [Q|Q] L; [discriminate|apply B; assumption].
  Qed.

  Lemma put_raw_acc s c d s' ops :
    put_raw sput s c d = (s', ops, None) ->
    Forall Acc ops /\ (blen c >? 0 = true -> In (OpPutCAS (match d with Some g => g | None => true_digest c end) c) ops).
  Proof.
    unfold put_raw. destruct (blen c >? 0).
    - destruct (sput s _) as [s1 e1] eqn:SP. intros H; inversion H; subst.
      split; [constructor; [eapply Acc_ok; exact SP|constructor]|intros _; left; reflexivity].
    - intros H; inversion H; subst. split; [constructor|discriminate].
  Qed.

  Lemma update_ok_inline_accepted w mok s key ar0 s' ops m :
    update_action_result sput w mok s (Some (mkUpd (Some key) (Some ar0))) = (s', ops, Ok m) ->
    (forall f, In (Some f) (ar_files ar0) -> blen (of_contents f) >? 0 = true ->
       Acc (OpPutCAS (match of_digest f with Some d => d | None => true_digest (of_contents f) end) (of_contents f))) /\
    (blen (ar_stdout_raw ar0) >? 0 = true ->
       Acc (OpPutCAS (match ar_stdout_digest ar0 with Some g => g | None => true_digest (ar_stdout_raw ar0) end) (ar_stdout_raw ar0))) /\
    (blen (ar_stderr_raw ar0) >? 0 = true ->
       Acc (OpPutCAS (match ar_stderr_digest ar0 with Some g => g | None => true_digest (ar_stderr_raw ar0) end) (ar_stderr_raw ar0))).
  Proof.
    unfold update_action_result. simpl. intros H.
    destruct (negb (validate_key (hash key) (size_bytes key))); [discriminate|].
    destruct (validate_cases (Some ar0)) as [V|V]; rewrite V in H; [|discriminate].
    destruct mok; simpl in H; [|discriminate].
    rewrite add_worker_not_empty in H.
    assert (FE : ar_files (add_worker w ar0) = ar_files ar0 /\ ar_stdout_raw (add_worker w ar0) = ar_stdout_raw ar0 /\
                 ar_stdout_digest (add_worker w ar0) = ar_stdout_digest ar0 /\ ar_stderr_raw (add_worker w ar0) = ar_stderr_raw ar0 /\
                 ar_stderr_digest (add_worker w ar0) = ar_stderr_digest ar0).
    { unfold add_worker. destruct (ar_meta ar0) as [mm|]; [destruct (negb _)|]; repeat split. }
    destruct FE as (F1 & F2 & F3 & F4 & F5).
    destruct (put_files sput s (ar_files (add_worker w ar0))) as [[[s1 fs'] ops1] e1] eqn:PF.
    destruct e1 as [c1|]; [discriminate|].
    destruct (put_files_inv sput (fun _ => True) (fun _ _ _ _ => I) _ _ _ _ _ _ PF I) as (_ & _ & FS).
    assert (fs' = ar_files (add_worker w ar0)) by (apply FS; apply validate_files_ok; rewrite validate_add_worker; exact V).
    subst fs'. rewrite set_files_id in H.
    destruct (put_files_acc _ _ _ _ _ PF) as [A1 B1].
    destruct (put_raw sput s1 _ _) as [[s2 ops2] e2] eqn:PR1. destruct e2 as [c2|]; [discriminate|].
    destruct (put_raw_acc _ _ _ _ _ PR1) as [A2 B2].
    destruct (put_raw sput s2 _ _) as [[s3 ops3] e3] eqn:PR2. destruct e3 as [c3|]; [discriminate|].
    destruct (put_raw_acc _ _ _ _ _ PR2) as [A3 B3].
    rewrite Forall_forall in A1, A2, A3. rewrite F1 in B1. rewrite F2, F3 in B2. rewrite F4, F5 in B3.
    split; [intros f I L; apply A1; apply B1; assumption|].
    split; [intros L; apply A2; apply B2; exact L|intros L; apply A3; apply B3; exact L].
  Qed.
End Accepted.

(* the reference store never accepts non-empty data that disagrees with the digest it is put
   under — in particular not under the empty blob's digest *)
Lemma cas_put_ok_consistent d b :
  cas_put_ok d b = None -> blen b >? 0 = true -> blen b = size_bytes d /\ bsha b = hash d.
Proof.
  unfold cas_put_ok. intros H L.
  destruct (size_bytes d <? 0); [discriminate|].
  destruct (negb (slen (hash d) =? sha256HashStrSize)); [discriminate|].
  destruct ((size_bytes d =? 0) && String.eqb (hash d) emptySha); [rewrite L in H; discriminate|].
  destruct ((blen b =? size_bytes d) && String.eqb (bsha b) (hash d)) eqn:E; [|discriminate].
  apply andb_true_iff in E as [E1 E2]. apply String.eqb_eq in E2. split; [lia|exact E2].
Qed.

(* on the reference store an acknowledged gRPC upload is CONSISTENT: every inlined byte string
   with a digest beside it has exactly that length and SHA-256 *)
Theorem update_accept_consistent w mok s key ar0 s' ops m :
  update_action_result ms_put w mok s (Some (mkUpd (Some key) (Some ar0))) = (s', ops, Ok m) ->
  (forall f g, In (Some f) (ar_files ar0) -> blen (of_contents f) >? 0 = true -> of_digest f = Some g ->
     blen (of_contents f) = size_bytes g /\ bsha (of_contents f) = hash g) /\
  (forall g, blen (ar_stdout_raw ar0) >? 0 = true -> ar_stdout_digest ar0 = Some g ->
     blen (ar_stdout_raw ar0) = size_bytes g /\ bsha (ar_stdout_raw ar0) = hash g) /\
  (forall g, blen (ar_stderr_raw ar0) >? 0 = true -> ar_stderr_digest ar0 = Some g ->
     blen (ar_stderr_raw ar0) = size_bytes g /\ bsha (ar_stderr_raw ar0) = hash g).
Proof.
  intros H.
  assert (ACC : forall s o s', ms_put s o = (s', None) ->
                match o with OpPutCAS d b => cas_put_ok d b = None | _ => True end).
  { intros s1 o s2 Q. destruct o as [d b| |]; try exact I. apply (ms_put_cas _ _ _ _ _ Q). reflexivity. }
  destruct (update_ok_inline_accepted ms_put _ ACC _ _ _ _ _ _ _ _ H) as (A & B & C).
  split; [intros f g I L D; specialize (A f I L); rewrite D in A; apply cas_put_ok_consistent; assumption|].
  split; [intros g L D; specialize (B L); rewrite D in B; apply cas_put_ok_consistent; assumption|
          intros g L D; specialize (C L); rewrite D in C; apply cas_put_ok_consistent; assumption].
Qed.
