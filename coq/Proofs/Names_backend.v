(* Proofs/Names_backend.v — object, URL and resource names in the proxy backends are injective
   functions of (key space, hash [, size]) for a fixed prefix / base URL and storage mode; the one
   deliberate identification is RAW = AC in the gRPC backend. *)
From BR Require Import Base.Prelude Model.Names Proofs.Names_strings.
Open Scope string_scope.
Open Scope Z_scope.

Lemma app_eq_length_r (a b c d : string) :
  a ++ b = c ++ d -> String.length b = String.length d -> a = c /\ b = d.
Proof.
  intros H HL. apply app_eq_length; [exact H|].
  assert (HT : String.length (a ++ b) = String.length (c ++ d)) by (rewrite H; reflexivity).
  rewrite !length_app_s in HT. lia.
Qed.

Lemma hash_len h : is_hash h = true -> String.length h = 64%nat.
Proof. intros H. apply (is_hash_length h H). Qed.

(* "<dir>/<hh>/<hash>" with the hash at the end *)
Lemma join3_tail a b h : join3 a b h = (a ++ "/" ++ b ++ "/") ++ h.
Proof. unfold join3. rewrite !app_assoc_s. reflexivity. Qed.

Lemma take2_eq h h' : h = h' -> take2 h = take2 h'.
Proof. intros ->. reflexivity. Qed.

(* the directory component used for a key space *)
Definition key_dir (m : smode) (k : kind) : string :=
  match m, k with Zstd, CAS => "cas.v2" | _, _ => kind_str k end.

Lemma object_key_eq m pre k h : object_key m pre k h = join_prefix pre ++ join3 (key_dir m k) (take2 h) h.
Proof. destruct m, k; reflexivity. Qed.

Lemma key_dir_inj m k k' x y : key_dir m k ++ "/" ++ x = key_dir m k' ++ "/" ++ y -> k = k'.
Proof. destruct m, k, k'; simpl; intros H; try reflexivity; discriminate. Qed.

Lemma join3_inj m k k' h h' :
  is_hash h = true -> is_hash h' = true ->
  join3 (key_dir m k) (take2 h) h = join3 (key_dir m k') (take2 h') h' -> k = k' /\ h = h'.
Proof.
  intros Hh Hh' H. rewrite !join3_tail in H.
  destruct (app_eq_length_r _ _ _ _ H) as [H1 H2]; [rewrite (hash_len _ Hh), (hash_len _ Hh'); reflexivity|].
  split; [|exact H2]. rewrite ?app_assoc_s in H1. eapply key_dir_inj. exact H1.
Qed.

(* S3: for a fixed prefix and mode, (key space, hash) |-> object key is injective *)
Theorem s3_key_injective m pre k k' h h' :
  is_hash h = true -> is_hash h' = true -> s3_key m pre k h = s3_key m pre k' h' -> k = k' /\ h = h'.
Proof.
  intros Hh Hh' H. unfold s3_key in H. rewrite !object_key_eq in H.
  apply app_inv_head_s in H. eapply join3_inj; eassumption.
Qed.

(* Azure: the same, although the prefix is applied twice *)
Theorem az_key_injective m pre k k' h h' :
  is_hash h = true -> is_hash h' = true -> az_key m pre k h = az_key m pre k' h' -> k = k' /\ h = h'.
Proof.
  intros Hh Hh' H. unfold az_key in H. destruct (String.eqb pre "").
  - apply (s3_key_injective m pre); assumption.
  - apply app_inv_head_s in H. apply app_inv_head_s in H. apply (s3_key_injective m pre); assumption.
Qed.

(* old-format and new-format CAS objects live under different names *)
Theorem cas_object_keys_differ_between_modes pre h h' :
  s3_key Zstd pre CAS h <> s3_key Uncompressed pre CAS h'.
Proof.
  unfold s3_key. rewrite !object_key_eq. intros H. apply app_inv_head_s in H.
  unfold join3, key_dir in H. simpl in H. discriminate.
Qed.

(* HTTP (and GCS): base URL ++ "/" ++ directory ++ "/" ++ hash *)
Lemma http_url_eq m base k h : http_url m base k h = (base ++ "/" ++ key_dir m k ++ "/") ++ h.
Proof.
  destruct m, k; unfold http_url, fmt_http, fmt_http_cas_v2, key_dir; cbn [sprintf Ascii.eqb Bool.eqb kind_str];
    rewrite ?app_assoc_s; cbn [append]; rewrite ?app_nil_r_s; reflexivity.
Qed.

Theorem http_url_injective m base k k' h h' :
  is_hash h = true -> is_hash h' = true -> http_url m base k h = http_url m base k' h' -> k = k' /\ h = h'.
Proof.
  intros Hh Hh' H. rewrite !http_url_eq in H.
  destruct (app_eq_length_r _ _ _ _ H) as [H1 H2]; [rewrite (hash_len _ Hh), (hash_len _ Hh'); reflexivity|].
  split; [|exact H2]. apply app_inv_head_s in H1.
  change ("/" ++ key_dir m k ++ "/") with (String "/" (key_dir m k ++ "/" ++ "")) in H1.
  change ("/" ++ key_dir m k' ++ "/") with (String "/" (key_dir m k' ++ "/" ++ "")) in H1.
  inversion H1 as [H3]. eapply key_dir_inj. exact H3.
Qed.

(* gRPC *)
Lemma print_dec_inj a b : 0 <= a -> 0 <= b -> print_dec a = print_dec b -> a = b.
Proof.
  intros Ha Hb H. pose proof (parse_print_dec a Ha) as H1. rewrite H, (parse_print_dec b Hb) in H1.
  inversion H1. reflexivity.
Qed.

Definition grpc_read_prefix (m : smode) : string :=
  match m with Zstd => "compressed-blobs/zstd/" | Uncompressed => "blobs/" end.

Lemma grpc_read_name_eq m h size : grpc_read_name m h size = grpc_read_prefix m ++ h ++ "/" ++ print_dec size.
Proof.
  destruct m; unfold grpc_read_name, fmt_grpc_read_v1, fmt_grpc_read_v2, grpc_read_prefix;
    cbn [sprintf Ascii.eqb Bool.eqb]; rewrite ?app_nil_r_s; reflexivity.
Qed.

Lemma hash_size_inj h h' d d' :
  is_hash h = true -> is_hash h' = true -> h ++ "/" ++ d = h' ++ "/" ++ d' -> h = h' /\ d = d'.
Proof.
  intros Hh Hh' H.
  destruct (app_eq_length _ _ _ _ H) as [H1 H2]; [rewrite (hash_len _ Hh), (hash_len _ Hh'); reflexivity|].
  split; [exact H1|]. inversion H2. reflexivity.
Qed.

Theorem grpc_read_name_injective m h h' s s' :
  is_hash h = true -> is_hash h' = true -> 0 <= s -> 0 <= s' ->
  grpc_read_name m h s = grpc_read_name m h' s' -> h = h' /\ s = s'.
Proof.
  intros Hh Hh' Hs Hs' H. rewrite !grpc_read_name_eq in H. apply app_inv_head_s in H.
  destruct (hash_size_inj _ _ _ _ Hh Hh' H) as [H1 H2]. split; [exact H1|]. apply print_dec_inj; assumption.
Qed.

(* what the gRPC backend is asked for determines the hash; for CAS also the size; AC and RAW
   entries are both action results of the same hash *)
Theorem grpc_key_injective m k k' h h' s s' :
  is_hash h = true -> is_hash h' = true -> 0 <= s -> 0 <= s' ->
  grpc_key m k h s = grpc_key m k' h' s' ->
  h = h' /\ ((k = CAS /\ k' = CAS /\ s = s') \/ (k <> CAS /\ k' <> CAS)).
Proof.
  intros Hh Hh' Hs Hs' H. unfold grpc_key in H.
  destruct k, k'; try discriminate; inversion H as [H1];
    try (split; [reflexivity|right; split; discriminate]).
  destruct (grpc_read_name_injective m h h' s s' Hh Hh' Hs Hs' H1) as [-> ->].
  split; [reflexivity|left; repeat split].
Qed.

Theorem grpc_raw_is_ac m h s s' : grpc_key m RAW h s = grpc_key m AC h s'.
Proof. reflexivity. Qed.

Definition grpc_write_mid (m : smode) : string :=
  match m with Zstd => "/compressed-blobs/zstd/" | Uncompressed => "/blobs/" end.

Lemma grpc_write_name_eq m uuid h size :
  grpc_write_name m uuid h size = "uploads/" ++ uuid ++ grpc_write_mid m ++ h ++ "/" ++ print_dec size.
Proof.
  destruct m; unfold grpc_write_name, fmt_grpc_write_v1, fmt_grpc_write_v2, grpc_write_mid;
    cbn [sprintf Ascii.eqb Bool.eqb]; rewrite ?app_assoc_s; cbn [append]; rewrite ?app_nil_r_s; reflexivity.
Qed.

Theorem grpc_write_name_injective m uuid h h' s s' :
  is_hash h = true -> is_hash h' = true -> 0 <= s -> 0 <= s' ->
  grpc_write_name m uuid h s = grpc_write_name m uuid h' s' -> h = h' /\ s = s'.
Proof.
  intros Hh Hh' Hs Hs' H. rewrite !grpc_write_name_eq in H.
  apply app_inv_head_s in H. apply app_inv_head_s in H. apply app_inv_head_s in H.
  destruct (hash_size_inj _ _ _ _ Hh Hh' H) as [H1 H2]. split; [exact H1|]. apply print_dec_inj; assumption.
Qed.
