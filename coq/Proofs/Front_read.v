(* Proofs/Front_read.v — C02 on the front-end read adapters: ByteStream.Read's offset and limit
   rules and its send loop, the sizes the replies report, and the empty blob on every read path from
   ANY cache state (in particular the empty one). *)
From BR Require Import Base.Prelude Model.LRU Model.Disk Proofs.Disk_ack Model.Front Proofs.Front_base.
Open Scope Z_scope.

Definition nonneg (l : list Z) : Prop := Forall (fun n => 0 <= n) l.
Definition total (l : list Z) : Z := sumZ (fun n => n) l.

(* ---------------- the send loop ---------------- *)

(* what is sent is a prefix of what the reader produced *)
Lemma send_loop_prefix limited : forall reads rem sent,
  exists k, fst (send_loop limited rem reads sent) = sent + total (firstn k reads).
Proof.
  induction reads as [|n t IH]; intros rem sent; cbn.
  - exists O. cbn. unfold total. cbn. lia.
  - destruct (limited && (rem - n <? 0)).
    + exists O. unfold total. cbn. lia.
    + destruct (IH (rem - n) (sent + n)) as [k Hk]. exists (S k). rewrite Hk. unfold total. cbn. lia.
Qed.

(* with a limit, never more than the limit *)
Lemma send_loop_limit : forall reads rem sent,
  nonneg reads -> 0 <= rem -> fst (send_loop true rem reads sent) - sent <= rem.
Proof.
  induction reads as [|n t IH]; intros rem sent HN HR; cbn; [lia|].
  inversion HN; subst. destruct (rem - n <? 0) eqn:E; cbn; [lia|].
  specialize (IH (rem - n) (sent + n) H2). lia.
Qed.

Lemma send_loop_unlimited : forall reads rem sent,
  send_loop false rem reads sent = (sent + total reads, SOk).
Proof.
  induction reads as [|n t IH]; intros rem sent; cbn; [unfold total; cbn; f_equal; lia|].
  rewrite IH. unfold total. cbn. f_equal. lia.
Qed.

(* a limit that covers everything changes nothing *)
Lemma send_loop_enough : forall reads rem sent,
  nonneg reads -> total reads <= rem -> send_loop true rem reads sent = (sent + total reads, SOk).
Proof.
  induction reads as [|n t IH]; intros rem sent HN HT; cbn; [unfold total; cbn; f_equal; lia|].
  inversion HN; subst. unfold total in *. cbn in HT.
  assert (0 <= sumZ (fun n => n) t) by (apply sumZ_nonneg; intros x Hx; rewrite Forall_forall in H2; apply H2; exact Hx).
  replace (rem - n <? 0) with false by lia. cbn. rewrite IH by (assumption || lia). cbn. f_equal. lia.
Qed.

(* a limit shorter than what is there ends in OutOfRange (not in a short OK) *)
Lemma send_loop_short : forall reads rem sent,
  nonneg reads -> 0 <= rem -> total reads > rem -> snd (send_loop true rem reads sent) = SErr EOutOfRange.
Proof.
  induction reads as [|n t IH]; intros rem sent HN HR HT; cbn.
  - unfold total in HT. cbn in HT. lia.
  - inversion HN; subst. destruct (rem - n <? 0) eqn:E; cbn; [reflexivity|].
    apply IH; [assumption|lia|]. unfold total in *. cbn in HT. lia.
Qed.

(* an OK from the loop means nothing was cut *)
Lemma send_loop_ok_all limited : forall reads rem sent sent',
  send_loop limited rem reads sent = (sent', SOk) -> sent' = sent + total reads.
Proof.
  induction reads as [|n t IH]; intros rem sent sent' H; cbn in H.
  - inversion H. unfold total. cbn. lia.
  - destruct (limited && (rem - n <? 0)); [inversion H|]. apply IH in H. unfold total in *. cbn. lia.
Qed.

(* ---------------- ByteStream.Read ---------------- *)

Lemma disk_get_offset_at_end c d h size off z :
  0 < size -> off >= size -> exists e, disk_get c d CAS h size off z = (d, GErr e).
Proof.
  intros HS HO. unfold disk_get.
  assert (H : tstep (fc_disk c) d (spawn (RGet CAS h size off z BMiss "")) =
              Some (d, goto (spawn (RGet CAS h size off z BMiss "")) (Done (GetErr EBadRequest)))).
  { unfold tstep, spawn. cbn [t_pc t_req].
    destruct (negb (Z.of_nat (String.length h) =? hashLen)); [reflexivity|].
    try replace (size <? -1) with false by lia.
    replace (size <=? 0) with false by lia. cbn [kind_eqb andb negb].
    destruct (off <? 0); [reflexivity|].
    replace (size >? 0) with true by lia. replace (off >=? size) with true by lia. reflexivity. }
  rewrite (exec_first_step _ _ _ _ H). eexists. reflexivity.
Qed.

(* C02_limit: with read_limit L > 0 at most L bytes are delivered, whatever the reader's chunking *)
Lemma bs_read_limit c d nm off lim reads d' r :
  bs_read c d nm off lim reads = (d', r) -> 0 < lim -> nonneg reads -> rd_len r <= lim.
Proof.
  unfold bs_read. intros H HL HN.
  destruct nm as [|z hash size]; [inversion H; cbn; lia|].
  repeat match type of H with
  | (if ?b then _ else _) = _ => destruct b eqn:?; [inversion H; cbn; lia|]
  end.
  destruct (disk_get c d CAS hash size off z) as [d1 g]. destruct g; try (inversion H; cbn; lia).
  destruct (negb (sz =? size)); [inversion H; cbn; lia|].
  destruct z; [cbn in *; lia|].
  destruct (send_loop (negb (lim =? 0)) lim reads 0) as [sent st] eqn:ES.
  inversion H; subst. cbn.
  replace (lim =? 0) with false in ES by lia. cbn in ES.
  pose proof (send_loop_limit reads lim 0 HN ltac:(lia)) as HB. rewrite ES in HB. cbn in HB. lia.
Qed.

(* C02_offset_range: a successful read of a non-empty blob was asked for an offset inside it *)
Lemma bs_read_ok_offset c d z hash size off lim reads d' r :
  bs_read c d (RN z hash size) off lim reads = (d', r) -> rd_st r = SOk -> size <> 0 ->
  0 <= off < size /\ 0 <= lim /\ (z = true -> lim = 0).
Proof.
  unfold bs_read. intros H HS HZ.
  repeat match type of H with
  | (if ?b then _ else _) = _ => destruct b eqn:?; [inversion H; subst; cbn in HS; try discriminate; lia|]
  end.
  destruct (Z_lt_ge_dec off size) as [Hlt|Hge].
  - split; [lia|]. split; [lia|]. intros ->. cbn in *. lia.
  - exfalso. destruct (disk_get_offset_at_end c d hash size off z ltac:(lia) Hge) as [e He]. rewrite He in H.
    inversion H; subst. cbn in HS. discriminate.
Qed.

(* how many bytes a successful read delivers: everything from the offset on (compressed-blobs: after
   decoding), resp. everything the reader produced (blobs) *)
Lemma bs_read_ok_length c d z hash size off lim reads d' r :
  bs_read c d (RN z hash size) off lim reads = (d', r) -> rd_st r = SOk -> size <> 0 ->
  if z then rd_len r = size - off else rd_len r = total reads.
Proof.
  unfold bs_read. intros H HS HZ.
  repeat match type of H with
  | (if ?b then _ else _) = _ => destruct b eqn:?; [inversion H; subst; cbn in HS; try discriminate; lia|]
  end.
  destruct (disk_get c d CAS hash size off z) as [d1 g]. destruct g; try (inversion H; subst; cbn in HS; discriminate).
  destruct (negb (sz =? size)); [inversion H; subst; cbn in HS; discriminate|].
  destruct z; [inversion H; subst; reflexivity|].
  destruct (send_loop (negb (lim =? 0)) lim reads 0) as [sent st] eqn:ES.
  inversion H; subst. cbn in *. subst st.
  apply send_loop_ok_all in ES. lia.
Qed.

Lemma bs_read_offset_beyond c d z hash size off lim reads :
  0 < size -> validate_hash hash size = true -> 0 <= lim -> (z = true -> lim = 0) -> off > size ->
  bs_read c d (RN z hash size) off lim reads = (d, rd_err EOutOfRange).
Proof.
  intros HS HV HL HZ HO. unfold bs_read.
  replace (size <? 0) with false by lia. rewrite HV. cbn [negb].
  replace (size =? 0) with false by lia. replace (off <? 0) with false by lia.
  destruct z; [rewrite HZ by reflexivity; cbn|cbn]; replace (off >? size) with true by lia;
    try (replace (lim <? 0) with false by lia); reflexivity.
Qed.

Lemma bs_read_negative c d z hash size off lim reads :
  0 < size -> validate_hash hash size = true -> off < 0 ->
  bs_read c d (RN z hash size) off lim reads = (d, rd_err EBadRequest).
Proof.
  intros HS HV HO. unfold bs_read.
  replace (size <? 0) with false by lia. rewrite HV. cbn [negb].
  replace (size =? 0) with false by lia. replace (off <? 0) with true by lia. reflexivity.
Qed.

(* read_offset = n of a non-empty blob is refused (by disk.get), not answered with an empty OK *)
Lemma bs_read_offset_at_end c d z hash size lim reads :
  0 < size -> validate_hash hash size = true -> 0 <= lim -> (z = true -> lim = 0) ->
  exists e, bs_read c d (RN z hash size) size lim reads = (d, rd_err e).
Proof.
  intros HS HV HL HZ. unfold bs_read.
  replace (size <? 0) with false by lia. rewrite HV. cbn [negb].
  replace (size =? 0) with false by lia. replace (size <? 0) with false by lia.
  assert (E1 : (z && negb (lim =? 0)) = false).
  { destruct z; [rewrite HZ by reflexivity|]; reflexivity. }
  rewrite E1. replace (lim <? 0) with false by lia. replace (size >? size) with false by lia.
  destruct (disk_get_offset_at_end c d hash size size z HS ltac:(lia)) as [e He]. rewrite He.
  eexists. reflexivity.
Qed.

(* ---------------- sizes reported ---------------- *)

(* GET without zstd: Content-Length is the stored logical size, which is also what is delivered *)
Lemma http_get_reports c d hash d' r :
  http_get c d hash false = (d', r) -> rd_st r = SOk -> rd_reported r = Some (rd_len r).
Proof.
  unfold http_get. destruct (disk_get c d CAS hash (-1) 0 false) as [d1 g].
  destruct g; intros H HS; inversion H; subst; cbn in *; try discriminate. reflexivity.
Qed.

(* BatchReadBlobs: a successful entry has exactly the requested size, in either encoding *)
Lemma batch_read_one_reports c d hash size z d' r :
  batch_read_one c d hash size z = (d', r) -> rd_st r = SOk -> rd_reported r = Some size /\ rd_len r = size.
Proof.
  unfold batch_read_one, get_blob_data. intros H HS. destruct z.
  - destruct (disk_get c d CAS hash size 0 true) as [d1 g]. destruct g; try (inversion H; subst; cbn in HS; discriminate).
    destruct (sz =? size) eqn:E; inversion H; subst; cbn in *; try discriminate. split; [reflexivity|lia].
  - destruct (size <? 0); [inversion H; subst; cbn in HS; discriminate|].
    destruct (size =? 0); [inversion H; subst; cbn; split; reflexivity|].
    destruct (disk_get c d CAS hash size 0 false) as [d1 g]. destruct g; try (inversion H; subst; cbn in HS; discriminate).
    destruct (sz =? size); inversion H; subst; cbn in *; try discriminate. split; reflexivity.
Qed.

(* ---------------- the empty blob, from any state ---------------- *)

Lemma empty_http_get c d z :
  http_get c d emptySha256 z = (d, mkRd SOk (if z then None else Some 0) 0 0).
Proof. unfold http_get. rewrite disk_get_empty by lia. reflexivity. Qed.

Lemma empty_http_head c d : http_head c d emptySha256 = (d, SOk, 0).
Proof. unfold http_head. rewrite disk_contains_empty by lia. reflexivity. Qed.

Lemma empty_batch_read c d z : batch_read c d [(emptySha256, 0)] z [] = (d, SOk, [mkRd SOk (Some 0) 0 0]).
Proof.
  cbn [batch_read]. rewrite validate_hash_empty. cbn [negb]. unfold batch_read_one, get_blob_data. destruct z.
  - rewrite disk_get_empty by lia. reflexivity.
  - reflexivity.
Qed.

Lemma empty_bs_read c d z off lim reads :
  bs_read c d (RN z emptySha256 0) off lim reads = (d, mkRd SOk None 0 0).
Proof. unfold bs_read. rewrite validate_hash_empty. reflexivity. Qed.

Lemma empty_get_tree c d table : get_tree c d (emptySha256, 0) table = (d, SOk, [0]).
Proof.
  unfold get_tree. rewrite validate_hash_empty. cbn [negb]. unfold get_blob_data. cbn.
  destruct (List.length table) as [|k]; reflexivity.
Qed.

Lemma empty_inline_read c d : inline_read c d (Some (emptySha256, 0)) = (d, Ok None).
Proof. reflexivity. Qed.
