(* Proofs/ActionResult_history.v — invariants over arbitrary histories on the reference store:
   every action-cache value validates; the CAS holds only blobs under their true digest; the
   latest accepted upload for a key is the one served. *)
From BR Require Import Base.Prelude Gen.Consts Model.ActionResult
  Proofs.ActionResult_validate Proofs.ActionResult_store.
Open Scope string_scope.
Open Scope list_scope.
Open Scope Z_scope.

(* ------------------------------------------------------------------ *)
(* the read path only adds verified blobs to the CAS *)

Lemma maybe_inline_since s0 s i c d n s' c' d' n' :
  maybe_inline s i c d n = Ok (s', c', d', n') -> since s0 s -> since s0 s'.
Proof.
  unfold maybe_inline. intros H Q.
  destruct (negb _).
  - destruct (blen c =? 0); [inversion H; subst; exact Q|].
    destruct (ms_contains s _); [inversion H; subst; exact Q|].
    destruct (ms_put s (OpPutCAS (match d with Some g => g | None => true_digest c end) c)) as [s1 e] eqn:SP.
    pose proof (since_cas s0 s (match d with Some g => g | None => true_digest c end) c Q) as Q1. rewrite SP in Q1. simpl in Q1.
    destruct e; inversion H; subst; exact Q1.
  - destruct (blen c >? 0); [inversion H; subst; exact Q|].
    destruct d as [g|]; [|inversion H; subst; exact Q].
    destruct (size_bytes g =? 0); [inversion H; subst; exact Q|].
    destruct (size_bytes g >? 0); [|inversion H; subst; exact Q].
    destruct (get_blob_data s g); simpl in H; inversion H; subst; exact Q.
Qed.

Lemma inline_files_since s0 want fs : forall s n s' fs' n',
  inline_files s want fs n = Ok (s', fs', n') -> since s0 s -> since s0 s'.
Proof.
  induction fs as [|f t IH]; intros s n s' fs' n' H Q; simpl in H.
  - inversion H; subst; exact Q.
  - destruct f as [fv|]; simpl in H; [|discriminate].
    destruct (maybe_inline s (mem_str (of_path fv) want) (of_contents fv) (of_digest fv) n) as [[[[s1 c] d] n1]| | |] eqn:M;
      simpl in H; try discriminate.
    destruct (inline_files s1 want t n1) as [[[s2 t'] n2]| | |] eqn:R; simpl in H; try discriminate.
    inversion H; subst. eapply IH; [exact R|]. eapply maybe_inline_since; eassumption.
Qed.

Lemma as_unknown_ok {A} (r : result A) x : as_unknown r = Ok x -> r = Ok x.
Proof. destruct r; simpl; congruence. Qed.

Lemma get_action_result_since dc tdec s req s' r :
  get_action_result dc tdec s req = (s', r) -> since s s'.
Proof.
  unfold get_action_result. intros H.
  destruct req as [rq|]; [|inversion H; subst; apply since_refl].
  destruct (g_digest rq) as [key|]; [|inversion H; subst; apply since_refl].
  destruct (negb (validate_key _ _)); [inversion H; subst; apply since_refl|].
  destruct (negb dc).
  { destruct (alookup _ _); [|inversion H; subst; apply since_refl].
    destruct (validate _); inversion H; subst; apply since_refl. }
  destruct (get_validated s tdec (hash key)) as [ar| | |]; try (inversion H; subst; apply since_refl).
  destruct (as_unknown (maybe_inline s (g_stdout rq) (ar_stdout_raw ar) (ar_stdout_digest ar) 0)) as [[[[s1 c1] d1] n1]| | |] eqn:M1;
    try (inversion H; subst; apply since_refl).
  apply as_unknown_ok in M1. pose proof (maybe_inline_since s _ _ _ _ _ _ _ _ _ M1 (since_refl s)) as Q1.
  destruct (as_unknown (maybe_inline s1 (g_stderr rq) (ar_stderr_raw ar) (ar_stderr_digest ar) n1)) as [[[[s2 c2] d2] n2]| | |] eqn:M2;
    try (inversion H; subst; exact Q1).
  apply as_unknown_ok in M2. pose proof (maybe_inline_since s _ _ _ _ _ _ _ _ _ M2 Q1) as Q2.
  destruct (as_unknown (inline_files s2 (g_files rq) (ar_files ar) n2)) as [[[s3 fs] n3]| | |] eqn:M3;
    try (inversion H; subst; exact Q2).
  apply as_unknown_ok in M3. inversion H; subst. eapply inline_files_since; eassumption.
Qed.

(* ------------------------------------------------------------------ *)
(* what one event does to the action cache *)

(* the upload an event acknowledged: key and the message stored (uploaded message with the
   worker filled in) *)
Definition accepted_upload (s : mstore) (e : event) : option (string * action_result) :=
  match e with
  | EvUpdate w mok req =>
      match update_action_result ms_put w mok s req, req with
      | (_, _, Ok _), Some (mkUpd (Some key) (Some ar0)) => Some (hash key, spec_with_worker w ar0)
      | _, _ => None
      end
  | EvHttpPut true mx r =>
      match http_put_ac ms_put true mx s r, hp_decoded r with
      | (_, _, Ok _), Some ar0 => Some (hp_key r, spec_with_worker (http_worker (hp_remote r)) ar0)
      | _, _ => None
      end
  | _ => None
  end.

Lemma ev_step_ac tdec s e :
  st_ac (fst (ev_step tdec s e)) =
  match accepted_upload s e with Some ka => ka :: st_ac s | None => st_ac s end
  /\ cas_ext s (fst (ev_step tdec s e))
  /\ (forall k a, accepted_upload s e = Some (k, a) -> validate (Some a) = Ok tt).
Proof.
  destruct e as [w mok req|v mx r|dc req|d b]; unfold ev_step, accepted_upload.
  - destruct (update_action_result ms_put w mok s req) as [[s' ops] r] eqn:H. simpl.
    destruct r as [m|c|x|x].
    + destruct (update_accept_stores _ _ _ _ _ _ _ H) as (key & ar0 & E1 & E2 & E3 & _ & E5 & _). subst req.
      split; [exact E3|split; [exact E5|]]. intros k a Q; inversion Q; subst.
      rewrite <- add_worker_spec, validate_add_worker. apply validate_complete; exact E2.
    + destruct (update_reject_stores_nothing _ _ _ _ _ _ _ H eq_refl) as (A & _ & C).
      split; [|split; [exact C|discriminate]]. rewrite A. destruct req as [[[k|] [a|]]|]; reflexivity.
    + destruct (update_reject_stores_nothing _ _ _ _ _ _ _ H eq_refl) as (A & _ & C).
      split; [|split; [exact C|discriminate]]. rewrite A. destruct req as [[[k|] [a|]]|]; reflexivity.
    + destruct (update_reject_stores_nothing _ _ _ _ _ _ _ H eq_refl) as (A & _ & C).
      split; [|split; [exact C|discriminate]]. rewrite A. destruct req as [[[k|] [a|]]|]; reflexivity.
  - destruct v.
    + destruct (http_put_ac ms_put true mx s r) as [[s' ops] res] eqn:H. simpl.
      destruct res as [[]|c|x|x].
      * destruct (http_accept_stores _ _ _ _ _ H) as (ar0 & E1 & E2 & E3 & E4 & _). rewrite E1.
        split; [exact E3|split]. { exists []; split; [exact E4|constructor]. }
        intros k a Q; inversion Q; subst. rewrite <- add_worker_spec, validate_add_worker. apply validate_complete; exact E2.
      * pose proof (http_reject_stores_nothing _ _ _ _ _ _ H eq_refl); subst s'.
        split; [destruct (hp_decoded r); reflexivity|split; [apply cas_ext_refl|discriminate]].
      * pose proof (http_reject_stores_nothing _ _ _ _ _ _ H eq_refl); subst s'.
        split; [destruct (hp_decoded r); reflexivity|split; [apply cas_ext_refl|discriminate]].
      * pose proof (http_reject_stores_nothing _ _ _ _ _ _ H eq_refl); subst s'.
        split; [destruct (hp_decoded r); reflexivity|split; [apply cas_ext_refl|discriminate]].
    + destruct (http_put_ac ms_put false mx s r) as [[s' ops] res] eqn:H. simpl.
      destruct (http_novalidate_ac _ _ _ _ _ _ H) as [A B].
      split; [exact A|split; [exists []; split; [exact B|constructor]|discriminate]].
  - destruct (get_action_result dc tdec s req) as [s' r] eqn:H. simpl.
    destruct (get_action_result_since _ _ _ _ _ _ H) as (A & _ & C). split; [exact A|split; [exact C|discriminate]].
  - destruct (ms_put s (OpPutCAS d b)) as [s' e] eqn:H. simpl.
    destruct (ms_put_cas _ _ _ _ _ H) as (A & _ & C & _). split; [exact A|split; [exact C|discriminate]].
Qed.

(* ------------------------------------------------------------------ *)
(* invariants *)

Definition ACValid (s : mstore) : Prop := Forall (fun kv => validate (Some (snd kv)) = Ok tt) (st_ac s).
Definition CasTrue (s : mstore) : Prop := cas_true (st_cas s).

Lemma ev_step_inv tdec s e : ACValid s /\ CasTrue s -> ACValid (fst (ev_step tdec s e)) /\ CasTrue (fst (ev_step tdec s e)).
Proof.
  intros [A C]. destruct (ev_step_ac tdec s e) as (E1 & [added [E2 T]] & V). split.
  - unfold ACValid. rewrite E1. destruct (accepted_upload s e) as [[k a]|]; [|exact A].
    constructor; [apply (V k a); reflexivity|exact A].
  - unfold CasTrue. rewrite E2. apply Forall_app; split; assumption.
Qed.

Lemma ev_run_inv tdec h : forall s, ACValid s /\ CasTrue s -> ACValid (ev_run tdec s h) /\ CasTrue (ev_run tdec s h).
Proof.
  induction h as [|e t IH]; intros s I; [exact I|]. simpl. apply IH. apply ev_step_inv. exact I.
Qed.

(* C11 "whatever is stored under an action key always parses and validates": from the empty
   store, after ANY history of uploads (gRPC, HTTP, valid or not, validation on or off), reads
   and CAS uploads, every value of the action cache is well formed, and every CAS entry is
   stored under its true digest *)
Theorem stored_always_valid tdec h k a :
  alookup k (st_ac (ev_run tdec empty_store h)) = Some a -> WellFormed a.
Proof.
  intros H. destruct (ev_run_inv tdec h empty_store) as [A _]; [split; constructor|].
  unfold ACValid in A. induction (st_ac (ev_run tdec empty_store h)) as [|[k' a'] t IH]; [discriminate|].
  simpl in H. inversion A; subst. destruct (String.eqb k' k).
  - inversion H; subst. apply validate_sound. assumption.
  - apply IH; assumption.
Qed.

Theorem cas_always_true tdec h :
  cas_true (st_cas (ev_run tdec empty_store h)).
Proof. destruct (ev_run_inv tdec h empty_store) as [_ C]; [split; constructor|exact C]. Qed.

(* consequence for readers: a lookup without dependency check never fails validation *)
Theorem get_nodeps_never_internal tdec h req s' :
  get_action_result false tdec (ev_run tdec empty_store h) req <> (s', Err EInternal).
Proof.
  unfold get_action_result. destruct req as [rq|]; [|intros Q; inversion Q].
  destruct (g_digest rq) as [key|]; [|intros Q; inversion Q].
  destruct (negb (validate_key _ _)); [intros Q; inversion Q|]. simpl.
  destruct (alookup (hash key) (st_ac (ev_run tdec empty_store h))) as [a|] eqn:L; [|intros Q; inversion Q].
  apply stored_always_valid in L. apply validate_complete in L. rewrite L. intros Q; inversion Q.
Qed.

(* ------------------------------------------------------------------ *)
(* the latest accepted upload wins *)

Fixpoint no_later_upload (tdec : list (string * tree)) (k : string) (s : mstore) (h : list event) : Prop :=
  match h with
  | [] => True
  | e :: t => (forall a, accepted_upload s e <> Some (k, a)) /\ no_later_upload tdec k (fst (ev_step tdec s e)) t
  end.

Lemma no_later_upload_lookup tdec k h : forall s,
  no_later_upload tdec k s h -> alookup k (st_ac (ev_run tdec s h)) = alookup k (st_ac s).
Proof.
  induction h as [|e t IH]; intros s N; [reflexivity|]. simpl in *. destruct N as [N1 N2].
  rewrite IH by exact N2. destruct (ev_step_ac tdec s e) as (E & _). rewrite E.
  destruct (accepted_upload s e) as [[k' a']|]; [|reflexivity]. simpl.
  destruct (String.eqb k' k) eqn:Q; [|reflexivity]. apply String.eqb_eq in Q. subst k'. exfalso. apply (N1 a'). reflexivity.
Qed.

Lemma ev_run_app tdec s h1 h2 : ev_run tdec s (h1 ++ h2) = ev_run tdec (ev_run tdec s h1) h2.
Proof. unfold ev_run. apply fold_left_app. Qed.

Theorem last_wins tdec s h1 e h2 k a :
  accepted_upload (ev_run tdec s h1) e = Some (k, a) ->
  no_later_upload tdec k (fst (ev_step tdec (ev_run tdec s h1) e)) h2 ->
  alookup k (st_ac (ev_run tdec s (h1 ++ e :: h2))) = Some a.
Proof.
  intros A N. rewrite ev_run_app. simpl. rewrite (no_later_upload_lookup _ _ _ _ N).
  destruct (ev_step_ac tdec (ev_run tdec s h1) e) as (E & _). rewrite E, A. simpl. rewrite String.eqb_refl. reflexivity.
Qed.

(* what an accepted upload stores is the uploaded message up to the worker name *)
Lemma accepted_upload_documented s e k a :
  accepted_upload s e = Some (k, a) ->
  match e with
  | EvUpdate w _ (Some (mkUpd (Some key) (Some ar0))) => k = hash key /\ a = spec_with_worker w ar0 /\ WellFormed ar0
  | EvHttpPut true _ r => k = hp_key r /\ exists ar0, hp_decoded r = Some ar0 /\
                          a = spec_with_worker (http_worker (hp_remote r)) ar0 /\ WellFormed ar0
  | _ => False
  end.
Proof.
  destruct e as [w mok req|v mx r|dc req|d b]; simpl; try discriminate.
  - destruct (update_action_result ms_put w mok s req) as [[s' ops] r] eqn:H.
    destruct r as [m|c|x|x]; try discriminate.
    destruct (update_accept_stores _ _ _ _ _ _ _ H) as (key & ar0 & E1 & E2 & _). subst req.
    intros Q; inversion Q; subst. split; [reflexivity|split; [reflexivity|exact E2]].
  - destruct v; [|discriminate].
    destruct (http_put_ac ms_put true mx s r) as [[s' ops] res] eqn:H.
    destruct res as [[]|c|x|x]; try discriminate.
    destruct (http_accept_stores _ _ _ _ _ H) as (ar0 & E1 & E2 & _). rewrite E1.
    intros Q; inversion Q; subst. split; [reflexivity|]. exists ar0. split; [reflexivity|split; [reflexivity|exact E2]].
Qed.

(* what HTTP serves (the protobuf body and the JSON body encode this one message) is the stored
   value, and the gRPC view without dependency check is the same message *)
Theorem http_serves_stored tdec s k m :
  http_get_ac tdec s k = Ok m ->
  alookup k (st_ac s) = Some m /\ validate (Some m) = Ok tt /\
  forall sz, validate_key k sz = true ->
    get_action_result false tdec s (Some (mkGet (Some (mkDigest k sz)) false false [])) = (s, Ok m).
Proof.
  unfold http_get_ac, get_validated.
  destruct (negb (slen k =? sha256HashStrSize)); [discriminate|].
  destruct (alookup k (st_ac s)) as [a|] eqn:L; [|discriminate].
  destruct (validate_cases (Some a)) as [V|V]; rewrite V; [|discriminate].
  destruct (pending_files_r (ar_files a)); try discriminate.
  destruct (fetch_trees s tdec (ar_dirs a)) as [[ts|]| | |]; try discriminate.
  destruct (forallb _ _); [|discriminate].
  intros Q; inversion Q; subst m. split; [reflexivity|split; [exact V|]].
  intros sz K. unfold get_action_result. simpl. rewrite K. simpl. rewrite L, V. reflexivity.
Qed.
