(* Proofs/Disk_conc3.v — C07, third part: what a step can do to the set of indexed keys.
   Every thread step either permutes the recency list, or is a successful Reserve (PutStart /
   GetProxyDecide), or a successful commit (Add), or the guarded drop after a failed validation.
   Consequences: an indexed key is lost only under space pressure or through that drop; the
   indexed value of a key is always the last commit of that key; an acknowledged upload is found
   unless one of these removed it. *)
From Coq Require Import Permutation.
From BR Require Import Base.Prelude Model.LRU Proofs.LRU_inv Proofs.LRU_spec Proofs.LRU_order Model.Disk
  Proofs.Disk_inv1 Proofs.Disk_inv2 Proofs.Disk_inv Proofs.Disk_conc Proofs.Disk_conc2.
Open Scope Z_scope.

(* ------------------------------------------------------------------ *)
(* the four things a step can do to the recency list *)

Inductive OrdEffect (d : dstate) (t : thread) (d' : dstate) (t' : thread) : Prop :=
| OSame
    (os_perm : Permutation (order (lru d')) (order (lru d)))
    (os_nc : commit_of t t' = None)
| OReserve (n : Z)
    (or_pc : t_pc t = PutStart \/ exists b, t_pc t = GetProxyDecide b)
    (or_res : LRU.reserve n (lru d) = (lru d', Ok tt))
    (or_nc : commit_of t t' = None)
| OCommit (key : string) (v : item) (l1 : LRU.state) (cid : Z)
    (oc_ord : order l1 = order (lru d))
    (oc_inv : Inv l1)
    (oc_cur : cur l1 = cur (lru d) - t_held t)
    (oc_maxs : maxs l1 = maxs (lru d))
    (oc_add : LRU.add key v l1 = (lru d', Ok true))
    (oc_cm : commit_of t t' = Some (key, cid, size v, sizeOnDisk v))
    (oc_tmp : t_tmp t = Some (path_of key v))
| ODrop (v : item) (id : nat) (k : kind) (hash : string) (sz off : Z) (zstd : bool) (b : bget) (rnd : string)
    (od_pc : t_pc t = GetDrop v id)
    (od_req : t_req t = RGet k hash sz off zstd b rnd)
    (od_rm : LRU.remove_element id (lru d) = Some (lru d'))
    (od_cas : kind_eqb k CAS = true)
    (od_leg : legacy v = false)
    (od_sz1 : sz <> -1)
    (od_sz2 : sz <> size v)
    (od_nc : commit_of t t' = None)
    (od_elem : exists e, find_key (lookup_key k hash) (order (lru d)) = Some e /\ eid e = id).

Definition OrdStep (c : cfg) (d : dstate) (X : list xcommit) (t : thread) : Prop :=
  forall d' t', tstep c d t = Some (d', t') ->
  Inv (lru d) -> 0 <= t_held t <= res (lru d) -> thread_ok c (files d) t -> val_ok c (files d) X t ->
  files_ok (lru d) (files d) ->
  OrdEffect d t d' t'.

Ltac same H := inv H; apply OSame; [reflexivity|reflexivity].
Ltac by_perm H P := inv H; apply OSame; [simpl; exact P|reflexivity].
Ltac otriv := intros d' t' H _ _ _ _ _; unfold tstep in H; cbn [t_pc t_req t_held t_tmp] in H;
  repeat dm H; try discriminate H; same H.

Lemma get_perm k l l' g : Inv l -> LRU.get k l = (l', g) -> Permutation (order l') (order l).
Proof.
  intros HI E. pose proof (get_spec k l HI) as H. rewrite E in H.
  destruct H as (_ & _ & _ & _ & _ & _ & H7 & _). exact H7.
Qed.

Lemma fm_local_perm : forall b l l' r, Inv l -> fm_local l b = (l', r) -> Permutation (order l') (order l).
Proof.
  induction b as [|[[h sz] bh] t IH]; intros l l' r HI E; simpl in E.
  - inversion E; subst. reflexivity.
  - destruct ((sz =? 0) && String.eqb h emptySha256).
    + destruct (fm_local l t) as [l2 r2] eqn:E2. inversion E; subst. eapply IH; eassumption.
    + destruct (LRU.get (lookup_key CAS h) l) as [l1 g] eqn:E1.
      destruct (fm_local l1 t) as [l2 r2] eqn:E2. inversion E; subst.
      pose proof (get_touch _ _ _ _ HI E1) as T1.
      etransitivity; [eapply IH; [apply T1|exact E2]|]. eapply get_perm; eassumption.
Qed.

Lemma reserve_ord n s l' r : Inv s -> LRU.reserve n s = (l', r) ->
  r = Ok tt \/ ((forall u, r <> Ok u) /\ order l' = order s).
Proof.
  intros HI E. pose proof (reserve_spec n s HI) as H. rewrite E in H.
  destruct H as (_ & _ & _ & _ & [(-> & _)|([-> | ->] & _ & Ho & _)]).
  - left. reflexivity.
  - right. split; [intros u; discriminate|exact Ho].
  - right. split; [intros u; discriminate|exact Ho].
Qed.

Lemma step_ord_reserve d req pc0 sz pcA (errpc : result unit -> pc) d' t' :
  (let t := mkThread req pc0 0 None in
   let '(l', r) := LRU.reserve sz (lru d) in
   match r with
   | Ok _ => Some (set_lru l' d, mkThread req pcA sz None)
   | _ => Some (set_lru l' d, goto t (errpc r))
   end) = Some (d', t') ->
  Inv (lru d) -> (pc0 = PutStart \/ exists b, pc0 = GetProxyDecide b) ->
  OrdEffect d (mkThread req pc0 0 None) d' t'.
Proof.
  intros H HI Hpc. cbv zeta in H. destruct (LRU.reserve sz (lru d)) as [l' r] eqn:ER.
  assert (Hnc : forall t'', commit_of (mkThread req pc0 0 None) t'' = None).
  { intros t''. destruct Hpc as [->|[b ->]]; reflexivity. }
  destruct (reserve_ord _ _ _ _ HI ER) as [->|[Hne Ho]].
  - inv H. apply (OReserve _ _ _ _ sz); [exact Hpc|exact ER|apply Hnc].
  - destruct r as [u|e|s|s]; [exfalso; exact (Hne u eq_refl)| | |];
      (inv H; apply OSame; [simpl; rewrite Ho; reflexivity|apply Hnc]).
Qed.

Lemma ord_PutStart c d X k hash sz st rnd h tmp :
  OrdStep c d X (mkThread (RPut k hash sz st rnd) PutStart h tmp).
Proof.
  intros d' t' H HI Hh [Hr [Hp1 Hp2]] _ _. simpl in Hp1, Hp2. subst h tmp.
  unfold tstep in H. simpl in H.
  do 3 (match type of H with (if ?b then _ else _) = _ => destruct b end; [same H|]).
  match type of H with (if ?b then _ else _) = _ => destruct b end; [repeat dm H; same H|].
  match type of H with (if ?b then _ else _) = _ => destruct b end; [|same H].
  eapply (step_ord_reserve d _ PutStart sz PutCreate (fun r => Done (PutErr (errc_of r)))); eauto.
Qed.

Lemma ord_GetProxyDecide c d X k hash sz off zstd b rnd h tmp lm :
  OrdStep c d X (mkThread (RGet k hash sz off zstd b rnd) (GetProxyDecide lm) h tmp).
Proof.
  intros d' t' H HI Hh [Hr [Hp1 Hp2]] _ _. simpl in Hp1, Hp2. subst h tmp.
  unfold tstep in H. simpl in H.
  match type of H with (if ?b then _ else _) = _ => destruct b end; [|same H].
  match type of H with (if ?b then _ else _) = _ => destruct b end; [|same H].
  eapply (step_ord_reserve d _ (GetProxyDecide lm) sz GetFetch (fun r => Done (GetErr (errc_of r)))); eauto.
Qed.

Lemma ord_GetStart c d X k hash sz off zstd b rnd h tmp :
  OrdStep c d X (mkThread (RGet k hash sz off zstd b rnd) GetStart h tmp).
Proof.
  intros d' t' H HI _ _ _ _. unfold tstep in H. simpl in H.
  do 6 (match type of H with (if ?b then _ else _) = _ => destruct b end; [same H|]).
  destruct (LRU.get (lookup_key k hash) (lru d)) as [l' g] eqn:EG.
  pose proof (get_perm _ _ _ _ HI EG) as P.
  destruct g as [[v id]|]; repeat dm H; by_perm H P.
Qed.

Lemma ord_HasStart c d X k hash sz b h tmp :
  OrdStep c d X (mkThread (RContains k hash sz b) HasStart h tmp).
Proof.
  intros d' t' H HI _ _ _ _. unfold tstep in H. simpl in H.
  do 2 (match type of H with (if ?b then _ else _) = _ => destruct b end; [same H|]).
  destruct (LRU.get (lookup_key k hash) (lru d)) as [l' g] eqn:EG.
  pose proof (get_perm _ _ _ _ HI EG) as P.
  destruct g as [[v id]|]; repeat dm H; by_perm H P.
Qed.

Lemma ord_FMBatch c d X ds bs ff h tmp todo acc :
  OrdStep c d X (mkThread (RFindMissing ds bs ff) (FMBatch todo acc) h tmp).
Proof.
  intros d' t' H HI _ _ _ _. unfold tstep in H. cbn [t_pc t_req] in H.
  destruct todo as [|x todo]; [same H|].
  destruct (firstn_batch batchSize (x :: todo)) as [batch rest].
  destruct (fm_local (lru d) batch) as [l' rs] eqn:EF.
  pose proof (fm_local_perm _ _ _ _ HI EF) as P.
  repeat dm H; by_perm H P.
Qed.

(* the slow path: the entry found under the lock has its file (si_files), so nothing is removed *)
Lemma ord_GetSlow c d X k hash sz off zstd b rnd h tmp :
  OrdStep c d X (mkThread (RGet k hash sz off zstd b rnd) GetSlow h tmp).
Proof.
  intros d' t' H HI _ _ _ HF. unfold tstep in H. simpl in H.
  destruct (LRU.get (lookup_key k hash) (lru d)) as [l' g] eqn:EG.
  pose proof (get_perm _ _ _ _ HI EG) as P.
  destruct g as [[v id]|]; [|by_perm H P].
  match type of H with match ?x with _ => _ end = _ => destruct x as [f|] eqn:EF end; [by_perm H P|].
  exfalso. pose proof (get_spec (lookup_key k hash) (lru d) HI) as GS. rewrite EG in GS.
  destruct GS as (_ & _ & _ & _ & _ & _ & _ & e & Hf & Hin & Hv & _).
  apply find_key_In in Hf as [_ Hk]. unfold key_of in Hk.
  destruct (HF (ent e)) as (f & Hfile & _).
  { unfold all_entries. apply in_or_app. left. apply in_map. exact Hin. }
  unfold entry_path in Hfile. rewrite Hk, Hv in Hfile. congruence.
Qed.

Lemma ord_GetDrop c d X k hash sz off zstd b rnd h tmp v id :
  OrdStep c d X (mkThread (RGet k hash sz off zstd b rnd) (GetDrop v id) h tmp).
Proof.
  intros d' t' H HI _ _ HV _. unfold val_ok in HV. simpl in HV. destruct HV as (V1 & V2 & V3 & V4).
  unfold tstep in H. simpl in H.
  destruct (find_key (lookup_key k hash) (order (lru d))) as [e|] eqn:EFK; [|same H].
  match type of H with (if ?b then _ else _) = _ => destruct b eqn:EG end; [|same H].
  destruct (LRU.remove_element id (lru d)) as [l2|] eqn:ER; [|same H].
  apply andb_true_iff in EG as [EG _]. apply Nat.eqb_eq in EG.
  inv H. eapply ODrop; try reflexivity; try eassumption. exists e. split; [exact EFK|exact EG].
Qed.

Lemma unreserve_held2 h s :
  Inv s -> 0 <= h <= res s ->
  exists l1, (if h >? 0 then LRU.unreserve h s else (s, Ok tt)) = (l1, Ok tt)
    /\ Inv l1 /\ order l1 = order s /\ cur l1 = cur s - h /\ maxs l1 = maxs s.
Proof.
  intros HI Hh. destruct (h >? 0) eqn:E.
  - destruct (LRU.unreserve h s) as [l1 r1] eqn:EU.
    destruct (unreserve_held _ _ _ _ HI Hh EU) as (-> & HI1 & _ & Hm & _).
    pose proof (unreserve_spec h s) as HS. rewrite EU in HS. destruct HS as (_ & _ & Ho & _ & Hc).
    exists l1. split; [reflexivity|]. split; [exact HI1|]. split; [exact Ho|]. split; [|exact Hm].
    destruct Hc as [(_ & _ & Hc)|(Hc & _)]; [exact Hc|discriminate].
  - exists s. split; [reflexivity|]. split; [exact HI|]. split; [reflexivity|]. split; [lia|reflexivity].
Qed.

Lemma commit_ord d t key v ra rb rc d' t' cid :
  commit_step d t key v ra rb rc = Some (d', t') ->
  Inv (lru d) -> 0 <= t_held t <= res (lru d) -> item_ok v ->
  t_tmp t = Some (path_of key v) ->
  commit_of t (mkThread (t_req t) (Cleanup rb) 0 (t_tmp t)) = None ->
  commit_of t (mkThread (t_req t) (Cleanup ra) 0 None) = Some (key, cid, size v, sizeOnDisk v) ->
  OrdEffect d t d' t'.
Proof.
  intros H HI Hh Hv Htmp Hqb Hca. unfold commit_step in H.
  destruct (unreserve_held2 _ _ HI Hh) as (l1 & EU & HI1 & Ho1 & Hc1 & Hm1). rewrite EU in H.
  destruct (LRU.add key v l1) as [l2 r2] eqn:EA.
  destruct (add_spec key v l1 l2 r2 HI1 Hv EA) as (_ & _ & _ & _ & Hcase).
  destruct Hcase as [(-> & Ho & _)|(-> & _)].
  - inv H. apply OSame; [simpl; rewrite Ho, Ho1; reflexivity|exact Hqb].
  - inv H. eapply OCommit; eassumption.
Qed.

Lemma ord_PutCommit c d X k hash sz st rnd h tmp od :
  OrdStep c d X (mkThread (RPut k hash sz st rnd) (PutCommit od) h tmp).
Proof.
  intros d' t' H HI Hh [Hr (Hp1 & Hp2 & Hp3 & Hp4)] _ _. simpl in Hr, Hp1, Hp2, Hp3, Hh.
  change (tstep c d (mkThread (RPut k hash sz st rnd) (PutCommit od) h tmp))
    with (commit_step d (mkThread (RPut k hash sz st rnd) (PutCommit od) h tmp) (lookup_key k hash)
            (mkItem sz od rnd (kind_eqb k CAS && negb (c_zstd c))) PutOk (PutErr EInternal) (PutErr EInternal)) in H.
  eapply (commit_ord _ _ _ _ _ _ _ _ _ (st_cid st) H); auto.
  - split; simpl; lia.
  - simpl. rewrite Hp1, commit_path. reflexivity.
Qed.

Lemma ord_GetCommit c d X k hash sz off zstd b rnd h tmp cl od f :
  OrdStep c d X (mkThread (RGet k hash sz off zstd b rnd) (GetCommit cl od f) h tmp).
Proof.
  intros d' t' H HI Hh [Hr (Hp1 & Hp2 & Hp3 & Hp4)] _ _. simpl in Hr, Hp1, Hp2, Hp3, Hh.
  change (tstep c d (mkThread (RGet k hash sz off zstd b rnd) (GetCommit cl od f) h tmp))
    with (commit_step d (mkThread (RGet k hash sz off zstd b rnd) (GetCommit cl od f) h tmp) (lookup_key k hash)
            (mkItem cl od rnd (kind_eqb k CAS && negb (c_zstd c)))
            (GetHit cl (f_cid f) (f_len f)) (GetErr EInternal) (GetErr EInternal)) in H.
  eapply (commit_ord _ _ _ _ _ _ _ _ _ (f_cid f) H); auto.
  - split; simpl; lia.
  - simpl. rewrite Hp1, commit_path. reflexivity.
Qed.

Lemma ord_Cleanup c d X req r h tmp : OrdStep c d X (mkThread req (Cleanup r) h tmp).
Proof.
  intros d' t' H HI Hh _ _ _. simpl in Hh. unfold tstep in H.
  destruct req; cbn [t_pc t_req t_held t_tmp] in H;
    (destruct tmp as [p|]; [same H|]);
    (destruct (h >? 0) eqn:Eh; [|same H]);
    (destruct (LRU.unreserve h (lru d)) as [l1 r1] eqn:EU;
     pose proof (unreserve_spec h (lru d)) as HS; rewrite EU in HS; destruct HS as (_ & _ & Ho & _);
     destruct r1; inv H; apply OSame; try reflexivity; simpl; rewrite Ho; reflexivity).
Qed.

Lemma ord_PutFinish c d X k hash sz st rnd h tmp :
  OrdStep c d X (mkThread (RPut k hash sz st rnd) PutFinish h tmp).
Proof.
  intros d' t' H _ _ _ _ _. unfold tstep in H. cbn [t_pc t_req t_held t_tmp] in H.
  destruct (c_proxy c); repeat dm H; try discriminate H; same H.
Qed.

Theorem tstep_ord c d X t : OrdStep c d X t.
Proof.
  destruct t as [req pc h tmp].
  destruct pc; try apply ord_Cleanup; destruct req;
    first [ apply ord_PutFinish | apply ord_PutStart | apply ord_PutCommit | apply ord_GetStart | apply ord_GetSlow
          | apply ord_GetDrop | apply ord_GetProxyDecide | apply ord_GetCommit | apply ord_HasStart
          | apply ord_FMBatch | otriv ].
Qed.

(* ------------------------------------------------------------------ *)
(* indexed keys *)

Lemma peek_Some K l v : peek K l = Some v <-> exists e, find_key K (order l) = Some e /\ evalue (ent e) = v.
Proof.
  unfold peek. destruct (find_key K (order l)) as [e|]; split.
  - intros H. inversion H. exists e. auto.
  - intros (e' & H1 & H2). inversion H1; subst. reflexivity.
  - discriminate.
  - intros (e' & H1 & _). discriminate.
Qed.

Lemma peek_order K l l' : order l' = order l -> peek K l' = peek K l.
Proof. intros H. unfold peek. rewrite H. reflexivity. Qed.

(* if every element of [l] is still in [l'] then every indexed key keeps its value *)
Lemma incl_keeps K l l' v : Inv l' -> (forall e, In e (order l) -> In e (order l')) ->
  peek K l = Some v -> peek K l' = Some v.
Proof.
  intros ([Hk _ _ _ _ _ _ _ _] & _) Hi H. apply peek_Some in H as (e & Hf & Hv).
  apply find_key_In in Hf as [Hin Hkey]. apply peek_Some. exists e. split; [|exact Hv].
  apply find_key_Some_iff; auto.
Qed.

Lemma remove_id_incl id l x : In x (remove_id id l) -> In x l.
Proof.
  induction l as [|y t IH]; simpl; [tauto|]. destruct (Nat.eqb (eid y) id); [tauto|].
  intros [H|H]; [left; exact H|right; apply IH; exact H].
Qed.

Lemma remove_id_keeps id l x : In x l -> eid x <> id -> In x (remove_id id l).
Proof.
  induction l as [|y t IH]; simpl; [tauto|]. intros [->|H] Hn.
  - destruct (Nat.eqb (eid x) id) eqn:E; [apply Nat.eqb_eq in E; contradiction|left; reflexivity].
  - destruct (Nat.eqb (eid y) id); [exact H|right; apply IH; assumption].
Qed.

(* the elements of [touched]: the new one, and the old ones with another key *)
Lemma touched_back k v s e : Inv s -> In e (touched k v s) ->
  ent e = mkEntry k v \/ (In e (order s) /\ key_of e <> k).
Proof.
  intros ([Hk Hi _ _ _ _ _ _ _] & _) H. unfold touched in H.
  destruct (find_key k (order s)) as [e0|] eqn:Ef.
  - apply find_key_In in Ef as [Hin0 Hk0]. apply in_app_iff in H as [H|[<-|[]]]; [|left; reflexivity].
    right. split; [eapply remove_id_incl; exact H|].
    pose proof (Permutation_NoDup (Permutation_map key_of (remove_id_perm (order s) e0 Hi Hin0)) Hk) as ND.
    simpl in ND. apply NoDup_cons_iff in ND as [Hn _]. intros Heq. apply Hn. rewrite Hk0, <- Heq.
    apply in_map. exact H.
  - apply in_app_iff in H as [H|[<-|[]]]; [|left; reflexivity].
    right. split; [exact H|]. apply find_key_None in Ef. intros Heq. apply Ef. rewrite <- Heq.
    apply in_map. exact H.
Qed.

Lemma NoDup_map_eq {A B} (f : A -> B) l x y :
  NoDup (map f l) -> In x l -> In y l -> f x = f y -> x = y.
Proof.
  induction l as [|z t IH]; simpl; intros ND Hx Hy E; [tauto|]. inversion ND as [|? ? Hn ND']; subst.
  destruct Hx as [->|Hx], Hy as [->|Hy]; auto.
  - exfalso. apply Hn. rewrite E. apply in_map. exact Hy.
  - exfalso. apply Hn. rewrite <- E. apply in_map. exact Hx.
Qed.

Lemma touched_fwd k v s e : Inv s -> In e (order s) -> key_of e <> k -> In e (touched k v s).
Proof.
  intros ([_ Hi _ _ _ _ _ _ _] & _) Hin Hne. unfold touched. destruct (find_key k (order s)) as [e0|] eqn:Ef.
  - apply find_key_In in Ef as [Hin0 Hk0]. apply in_or_app. left. apply remove_id_keeps; [exact Hin|].
    intros Heq. apply Hne. rewrite <- Hk0. f_equal. eapply NoDup_map_eq; eassumption.
  - apply in_or_app. left. exact Hin.
Qed.

Lemma touched_new k v s : exists e, In e (touched k v s) /\ ent e = mkEntry k v.
Proof.
  unfold touched. destruct (find_key k (order s)) as [e0|]; eexists; (split; [apply in_or_app; right; left; reflexivity|reflexivity]).
Qed.

(* ------------------------------------------------------------------ *)
(* forward: an indexed key is lost only under pressure or by the guarded drop *)

Definition pressure_reserve (d : dstate) (t : thread) (d' : dstate) : Prop :=
  (t_pc t = PutStart \/ exists b, t_pc t = GetProxyDecide b) /\
  exists n, LRU.reserve n (lru d) = (lru d', Ok tt) /\ n + cur (lru d) > maxs (lru d).

Definition pressure_commit (d : dstate) (t : thread) (d' : dstate) : Prop :=
  exists key v l1, order l1 = order (lru d) /\ cur l1 = cur (lru d) - t_held t /\ maxs l1 = maxs (lru d) /\
    LRU.add key v l1 = (lru d', Ok true) /\ cur l1 + add_delta key v l1 > maxs l1.

Definition failed_validation_drop (t : thread) : Prop :=
  exists v id k hash sz off zstd b rnd,
    t_pc t = GetDrop v id /\ t_req t = RGet k hash sz off zstd b rnd /\
    kind_eqb k CAS = true /\ legacy v = false /\ sz <> -1 /\ sz <> size v.

Lemma ord_loss d t d' t' K :
  OrdEffect d t d' t' -> Inv (lru d) -> Inv (lru d') ->
  peek K (lru d) <> None -> peek K (lru d') = None ->
  pressure_reserve d t d' \/ pressure_commit d t d' \/ failed_validation_drop t.
Proof.
  intros HE HI HI' Hb Ha.
  destruct (peek K (lru d)) as [v|] eqn:Hp; [clear Hb|congruence].
  destruct HE.
  - exfalso. rewrite (incl_keeps K (lru d) (lru d') v HI') in Ha; [discriminate| |exact Hp].
    intros e He. eapply Permutation_in; [apply Permutation_sym; exact os_perm|exact He].
  - left. split; [exact or_pc|]. exists n. split; [exact or_res|].
    destruct (Z_le_gt_dec (n + cur (lru d)) (maxs (lru d))) as [Hfit|Hgt]; [|exact Hgt]. exfalso.
    destruct (reserve_no_pressure n _ _ HI or_res Hfit) as (Ho & _).
    rewrite (peek_order K _ _ Ho) in Ha. congruence.
  - right. left. exists key, v0, l1. repeat (split; [assumption|]).
    destruct (Z_le_gt_dec (cur l1 + add_delta key v0 l1) (maxs l1)) as [Hfit|Hgt]; [|exact Hgt]. exfalso.
    destruct (add_no_pressure _ _ _ _ oc_add Hfit) as (Ho & _).
    rewrite <- (peek_order K _ _ oc_ord) in Hp. apply peek_Some in Hp as (e & Hf & Hv).
    apply find_key_In in Hf as [Hin Hkey].
    destruct HI' as ([Hk' _ _ _ _ _ _ _ _] & _).
    assert (Hex : exists e', In e' (order (lru d')) /\ key_of e' = K).
    { rewrite Ho. destruct (String.eqb key K) eqn:EK.
      - apply String.eqb_eq in EK. subst K. destruct (touched_new key v0 l1) as (e' & H1 & H2).
        exists e'. split; [exact H1|]. unfold key_of in *. rewrite H2. simpl. congruence.
      - exists e. split; [|exact Hkey]. apply touched_fwd; [exact oc_inv|exact Hin|].
        intros Heq. apply String.eqb_neq in EK. apply EK. congruence. }
    destruct Hex as (e' & Hin' & Hkey').
    unfold peek in Ha. rewrite (find_key_Some_iff K _ Hk' e' Hin' Hkey') in Ha. discriminate.
  - right. right. exists v0, id, k, hash, sz, off, zstd, b, rnd. auto 10.
Qed.

(* ------------------------------------------------------------------ *)
(* backward: the indexed value of a key is the last commit of that key *)

Definition ckey (cm : commit) : string := fst (fst (fst cm)).

Definition last_for (K : string) (X : list xcommit) : option xcommit :=
  find (fun x => String.eqb (ckey (snd x)) K) (rev X).

Definition LastInv (l : LRU.state) (X : list xcommit) : Prop :=
  forall K v, peek K l = Some v ->
    exists cid, last_for K X = Some (path_of K v, (K, cid, size v, sizeOnDisk v)).

Lemma last_for_snoc K X x :
  last_for K (X ++ [x]) = if String.eqb (ckey (snd x)) K then Some x else last_for K X.
Proof. unfold last_for. rewrite rev_app_distr. reflexivity. Qed.

Lemma back_keeps K l l' v : Inv l -> (forall e, In e (order l') -> In e (order l)) ->
  peek K l' = Some v -> peek K l = Some v.
Proof. intros HI Hi H. eapply incl_keeps; eassumption. Qed.

Lemma ord_last d t d' t' X :
  OrdEffect d t d' t' -> Inv (lru d) -> Inv (lru d') ->
  LastInv (lru d) X -> LastInv (lru d') (X ++ xcommit_of t t').
Proof.
  intros HE HI HI' HL. destruct HE.
  - unfold xcommit_of. rewrite os_nc, app_nil_r. intros K v Hp. apply HL.
    eapply back_keeps; [exact HI| |exact Hp]. intros e He. eapply Permutation_in; eassumption.
  - unfold xcommit_of. rewrite or_nc, app_nil_r. intros K v Hp. apply HL.
    eapply back_keeps; [exact HI| |exact Hp].
    destruct (reserve_evicts_lru_prefix n _ _ HI or_res) as (ev & Ho & _).
    intros e He. rewrite Ho. apply in_or_app. right. exact He.
  - unfold xcommit_of. rewrite oc_cm, oc_tmp. intros K v' Hp. rewrite last_for_snoc. simpl.
    apply peek_Some in Hp as (e & Hf & Hv). apply find_key_In in Hf as [Hin Hkey].
    destruct (add_true_shape _ _ _ _ oc_add) as (ev & Ht & _).
    assert (Hin' : In e (touched key v l1)) by (rewrite Ht; apply in_or_app; right; exact Hin).
    destruct (touched_back _ _ _ _ oc_inv Hin') as [He|[Hin1 Hne]].
    + unfold key_of in Hkey. rewrite He in Hkey, Hv. simpl in Hkey, Hv. subst K v'.
      unfold ckey. simpl. rewrite String.eqb_refl. exists cid. reflexivity.
    + unfold ckey. simpl. destruct (String.eqb key K) eqn:EK.
      { apply String.eqb_eq in EK. congruence. }
      apply HL. rewrite <- (peek_order K _ _ oc_ord). apply peek_Some. exists e. split; [|exact Hv].
      destruct oc_inv as ([Hk1 _ _ _ _ _ _ _ _] & _). apply find_key_Some_iff; auto.
  - unfold xcommit_of. rewrite od_nc, app_nil_r. intros K v' Hp. apply HL.
    eapply back_keeps; [exact HI| |exact Hp].
    unfold LRU.remove_element in od_rm. destruct (find_id id (order (lru d))) as [e0|]; [|discriminate].
    inversion od_rm as [Heq]. intros e He. try rewrite <- Heq in He. unfold remove_elem, enqueue in He. simpl in He.
    eapply remove_id_incl; exact He.
Qed.

(* a commit indexes its key unless its own Add ran under pressure *)
Lemma commit_indexes d t d' t' key cid lsz len :
  OrdEffect d t d' t' -> Inv (lru d') -> commit_of t t' = Some (key, cid, lsz, len) ->
  pressure_commit d t d' \/
  exists v, peek key (lru d') = Some v /\ size v = lsz /\ sizeOnDisk v = len /\ t_tmp t = Some (path_of key v).
Proof.
  intros HE HI' Hc. destruct HE; try congruence.
  rewrite oc_cm in Hc. inversion Hc; subst key0 cid0 lsz len. clear Hc.
  destruct (Z_le_gt_dec (cur l1 + add_delta key v l1) (maxs l1)) as [Hfit|Hgt].
  - right. exists v. split; [|auto].
    destruct (add_no_pressure _ _ _ _ oc_add Hfit) as (Ho & _).
    destruct (touched_new key v l1) as (e' & H1 & H2). rewrite <- Ho in H1.
    destruct HI' as ([Hk' _ _ _ _ _ _ _ _] & _). apply peek_Some. exists e'. split; [|rewrite H2; reflexivity].
    apply find_key_Some_iff; auto. unfold key_of. rewrite H2. reflexivity.
  - left. exists key, v, l1. auto 10.
Qed.

(* ------------------------------------------------------------------ *)
(* along every run with fresh names *)

Lemma step_facts c s i t d' t' X M :
  SysInv c s -> ConcInv c s X M -> nth_error (thr s) i = Some t -> tstep c (sd s) t = Some (d', t') ->
  OrdEffect (sd s) t d' t' /\ Inv (lru d').
Proof.
  intros HS HC En Et. destruct s as [d ts]. simpl in *.
  assert (Hin : In t ts) by (eapply nth_error_In; exact En).
  pose proof (held_le_res c _ t HS Hin) as Hh. simpl in Hh.
  assert (Hok : thread_ok c (files d) t).
  { destruct HS as [_ _ _ HT _ _ _]. simpl in HT. rewrite Forall_forall in HT. apply HT. exact Hin. }
  assert (Hv : val_ok c (files d) X t).
  { destruct HC as [_ _ _ _ _ _ CV]. simpl in CV. rewrite Forall_forall in CV. apply CV. exact Hin. }
  split.
  - apply (tstep_ord c d X t d' t' Et (si_inv _ _ HS) Hh Hok Hv). apply HS.
  - destruct (thread_step_inv c d ts i t d' t' HS En Et) as [HS' _]. apply HS'.
Qed.

Lemma last_step c s l X M :
  SysInv c s -> ConcInv c s X M -> LastInv (lru (sd s)) X ->
  LastInv (lru (sd (sstep c s l))) (X ++ step_xcommits c s l).
Proof.
  intros HS HC HL. unfold step_xcommits, step_pair. destruct l as [r|i|]; simpl.
  - rewrite app_nil_r. exact HL.
  - destruct (nth_error (thr s) i) as [t|] eqn:En; [|rewrite app_nil_r; exact HL].
    destruct (tstep c (sd s) t) as [[d' t']|] eqn:Et; [|rewrite app_nil_r; exact HL]. simpl.
    destruct (step_facts c s i t d' t' X M HS HC En Et) as [HE HI'].
    eapply ord_last; [exact HE|apply HS|exact HI'|exact HL].
  - rewrite app_nil_r. unfold evictor_step.
    pose proof (evictor_step_spec (lru (sd s)) (si_inv _ _ HS)) as HE.
    destruct (LRU.evictor_step (lru (sd s))) as [l' [en|]]; [|exact HL]. simpl.
    destruct HE as (_ & _ & _ & _ & Ho & _). intros K v Hp. apply HL. rewrite <- (peek_order K _ _ Ho). exact Hp.
Qed.

Lemma conc_run3 c ls : forall s X M,
  Forall label_ok ls -> SysInv c s -> ConcInv c s X M -> LastInv (lru (sd s)) X -> fresh_from c s M ls ->
  exists X' M', ConcInv c (srun c s ls) X' M' /\ LastInv (lru (sd (srun c s ls))) X'
                /\ map snd X' = map snd X ++ commits c s ls.
Proof.
  induction ls as [|l r IH]; intros s X M Hok HS HC HL Hf; simpl.
  - exists X, M. rewrite app_nil_r. auto.
  - inversion Hok as [|? ? Hl Hr]; subst. destruct Hf as [Hf1 Hf2].
    destruct (IH (sstep c s l) (X ++ step_xcommits c s l) (M ++ step_created c s l)) as (X' & M' & H1 & H2 & H3);
      [assumption|apply sstep_inv; assumption|apply conc_step; assumption|eapply last_step; eassumption|exact Hf2|].
    exists X', M'. split; [exact H1|]. split; [exact H2|].
    rewrite H3, map_app, step_xcommits_snd, app_assoc. reflexivity.
Qed.

Lemma reach3 c mx hd ls : 0 < mx -> Forall label_ok ls -> fresh_names c (sinit mx hd) ls ->
  exists X M, SysInv c (srun c (sinit mx hd) ls) /\ ConcInv c (srun c (sinit mx hd) ls) X M
              /\ LastInv (lru (sd (srun c (sinit mx hd) ls))) X /\ map snd X = commits c (sinit mx hd) ls.
Proof.
  intros Hm Hok Hf.
  destruct (conc_run3 c ls (sinit mx hd) [] [] Hok (sinit_inv c mx hd Hm) (conc_init c mx hd)) as (X & M & H1 & H2 & H3).
  - intros K v H. discriminate H.
  - exact Hf.
  - exists X, M. split; [apply srun_inv; assumption|]. auto.
Qed.

(* ---- the indexed value of a key is the last commit of that key ---- *)

Definition last_commit (K : string) (log : list commit) : option commit :=
  find (fun cm => String.eqb (ckey cm) K) (rev log).

Lemma find_map_snd {A B} (p : B -> bool) (l : list (A * B)) :
  find p (map snd l) = option_map snd (find (fun x => p (snd x)) l).
Proof. induction l as [|x t IH]; simpl; [reflexivity|]. destruct (p (snd x)); [reflexivity|exact IH]. Qed.

Lemma last_for_commit K X x : last_for K X = Some x -> last_commit K (map snd X) = Some (snd x).
Proof. unfold last_for, last_commit. intros H. rewrite <- map_rev, find_map_snd. cbv beta.
  unfold xcommit in *. rewrite H. reflexivity. Qed.

Lemma find_rev_split {A} (p : A -> bool) l x : find p (rev l) = Some x ->
  exists l1 l2, l = l1 ++ x :: l2 /\ p x = true /\ Forall (fun y => p y = false) l2.
Proof.
  induction l as [|y t IH] using rev_ind; simpl; [discriminate|].
  rewrite rev_app_distr. simpl. destruct (p y) eqn:E.
  - intros H. inversion H; subst. exists t, []. auto.
  - intros H. destruct (IH H) as (l1 & l2 & H1 & H2 & H3). exists l1, (l2 ++ [y]).
    split; [rewrite H1, <- app_assoc; reflexivity|]. split; [exact H2|].
    apply Forall_app; split; [exact H3|]. constructor; [exact E|constructor].
Qed.

Theorem indexed_is_last_commit c mx hd ls K v :
  0 < mx -> Forall label_ok ls -> fresh_names c (sinit mx hd) ls ->
  peek K (lru (sd (srun c (sinit mx hd) ls))) = Some v ->
  exists cid X1 X2,
    commits c (sinit mx hd) ls = X1 ++ (K, cid, size v, sizeOnDisk v) :: X2 /\
    Forall (fun cm => ckey cm <> K) X2.
Proof.
  intros Hm Hok Hf Hp. destruct (reach3 c mx hd ls Hm Hok Hf) as (X & M & _ & _ & HL & HX).
  destruct (HL K v Hp) as [cid H]. apply last_for_commit in H. rewrite HX in H. simpl in H.
  unfold last_commit in H. apply find_rev_split in H as (X1 & X2 & H1 & _ & H3).
  exists cid, X1, X2. split; [exact H1|]. eapply Forall_impl; [|exact H3].
  intros cm E. simpl in E. apply String.eqb_neq. exact E.
Qed.

(* a commit of the key that is in the log is that last one or an earlier one *)
Lemma in_before_last (K : string) (cm c0 : commit) X1 X2 :
  In cm (X1 ++ c0 :: X2) -> ckey cm = K -> Forall (fun x => ckey x <> K) X2 -> In cm (X1 ++ [c0]).
Proof.
  intros Hin Hk HF. apply in_app_iff in Hin as [H|[H|H]].
  - apply in_or_app. left. exact H.
  - apply in_or_app. right. left. exact H.
  - exfalso. rewrite Forall_forall in HF. exact (HF cm H Hk).
Qed.

(* ---- an acknowledged upload is in the log ---- *)

Theorem acked_is_logged c mx hd ls t k hash sz st rnd :
  0 < mx -> Forall label_ok ls -> fresh_names c (sinit mx hd) ls ->
  In t (thr (srun c (sinit mx hd) ls)) -> t_req t = RPut k hash sz st rnd -> t_pc t = Done PutOk ->
  (k = CAS /\ sz = 0 /\ hash = emptySha256)
  \/ exists od, In (lookup_key k hash, st_cid st, sz, od) (commits c (sinit mx hd) ls).
Proof.
  intros Hm Hok Hf Hin Hreq Hpc. destruct (reach3 c mx hd ls Hm Hok Hf) as (X & M & _ & [_ _ _ _ _ _ CV] & _ & HX).
  rewrite Forall_forall in CV. specialize (CV t Hin). unfold val_ok in CV. rewrite Hpc, Hreq in CV.
  simpl in CV. rewrite HX in CV. exact CV.
Qed.

(* ---- which steps can take an indexed key out of the index ---- *)

Definition loses (c : cfg) (s : sys) (l : label) (K : string) : Prop :=
  peek K (lru (sd s)) <> None /\ peek K (lru (sd (sstep c s l))) = None.

Theorem only_pressure_or_corruption_removes c mx hd ls l K :
  0 < mx -> Forall label_ok ls -> fresh_names c (sinit mx hd) ls ->
  let s := srun c (sinit mx hd) ls in
  loses c s l K ->
  exists i t d' t', l = LStep i /\ nth_error (thr s) i = Some t /\ tstep c (sd s) t = Some (d', t') /\
    (pressure_reserve (sd s) t d' \/ pressure_commit (sd s) t d' \/ failed_validation_drop t).
Proof.
  intros Hm Hok Hf s [Hb Ha]. destruct (reach3 c mx hd ls Hm Hok Hf) as (X & M & HS & HC & _ & _). fold s in HS, HC.
  destruct l as [r|i|]; simpl in Ha.
  - congruence.
  - destruct (nth_error (thr s) i) as [t|] eqn:En; [|congruence].
    destruct (tstep c (sd s) t) as [[d' t']|] eqn:Et; [|congruence]. simpl in Ha.
    destruct (step_facts c s i t d' t' X M HS HC En Et) as [HE HI'].
    exists i, t, d', t'. split; [reflexivity|]. split; [exact En|]. split; [exact Et|].
    eapply ord_loss; [exact HE|apply HS|exact HI'|exact Hb|exact Ha].
  - exfalso. unfold evictor_step in Ha.
    pose proof (evictor_step_spec (lru (sd s)) (si_inv _ _ HS)) as HE.
    destruct (LRU.evictor_step (lru (sd s))) as [l' [en|]]; [|congruence]. simpl in Ha.
    destruct HE as (_ & _ & _ & _ & Ho & _). rewrite (peek_order K _ _ Ho) in Ha. congruence.
Qed.

(* ---- found if acknowledged ---- *)

Lemma no_loss_keeps c K ls2 : forall s1,
  peek K (lru (sd s1)) <> None ->
  (forall a l b, ls2 = a ++ l :: b -> ~ loses c (srun c s1 a) l K) ->
  peek K (lru (sd (srun c s1 ls2))) <> None.
Proof.
  induction ls2 as [|l r IH]; intros s1 Hp Hno; simpl; [exact Hp|].
  apply IH.
  - intros Hn. apply (Hno [] l r eq_refl). split; [exact Hp|exact Hn].
  - intros a l0 b E. apply (Hno (l :: a) l0 b). rewrite E. reflexivity.
Qed.

Lemma srun_app c s a b : srun c s (a ++ b) = srun c (srun c s a) b.
Proof. unfold srun. apply fold_left_app. Qed.

(* If key K is indexed at some moment of a run with fresh names (for instance right after the commit
   of an acknowledged upload, see [commit_indexes_unless_pressure]) and no later step loses it — and
   by [only_pressure_or_corruption_removes] only an eviction under space pressure or the guarded drop
   can — then K is indexed at the end, with the LAST commit of K in the log: any commit of K that
   is in the log (the acknowledged upload's) is that one or an earlier one. *)
Theorem found_if_acked c mx hd ls1 ls2 K :
  0 < mx -> Forall label_ok (ls1 ++ ls2) -> fresh_names c (sinit mx hd) (ls1 ++ ls2) ->
  peek K (lru (sd (srun c (sinit mx hd) ls1))) <> None ->
  (forall a l b, ls2 = a ++ l :: b -> ~ loses c (srun c (srun c (sinit mx hd) ls1) a) l K) ->
  exists v cid X1 X2,
    peek K (lru (sd (srun c (sinit mx hd) (ls1 ++ ls2)))) = Some v /\
    commits c (sinit mx hd) (ls1 ++ ls2) = X1 ++ (K, cid, size v, sizeOnDisk v) :: X2 /\
    Forall (fun cm => ckey cm <> K) X2 /\
    (forall cm, In cm (commits c (sinit mx hd) (ls1 ++ ls2)) -> ckey cm = K ->
       In cm (X1 ++ [(K, cid, size v, sizeOnDisk v)])).
Proof.
  intros Hm Hok Hf Hp Hno.
  pose proof (no_loss_keeps c K ls2 _ Hp Hno) as Hend. rewrite <- srun_app in Hend.
  destruct (peek K (lru (sd (srun c (sinit mx hd) (ls1 ++ ls2))))) as [v|] eqn:Epk; [|congruence].
  destruct (indexed_is_last_commit c mx hd (ls1 ++ ls2) K v Hm Hok Hf Epk) as (cid & X1 & X2 & H1 & H2).
  exists v, cid, X1, X2. split; [reflexivity|]. split; [exact H1|]. split; [exact H2|].
  intros cm Hin Hk. rewrite H1 in Hin. eapply in_before_last; eassumption.
Qed.

(* the commit step of an upload or fetch indexes its key with the committed item, unless its own
   Add had to evict under pressure *)
Theorem commit_indexes_unless_pressure c mx hd ls i t d' t' key cid lsz len :
  0 < mx -> Forall label_ok ls -> fresh_names c (sinit mx hd) ls ->
  let s := srun c (sinit mx hd) ls in
  nth_error (thr s) i = Some t -> tstep c (sd s) t = Some (d', t') ->
  commit_of t t' = Some (key, cid, lsz, len) ->
  pressure_commit (sd s) t d' \/
  exists v, peek key (lru (sd (sstep c s (LStep i)))) = Some v /\ size v = lsz /\ sizeOnDisk v = len.
Proof.
  intros Hm Hok Hf s En Et Hc. destruct (reach3 c mx hd ls Hm Hok Hf) as (X & M & HS & HC & _ & _). fold s in HS, HC.
  destruct (step_facts c s i t d' t' X M HS HC En Et) as [HE HI'].
  destruct (commit_indexes _ _ _ _ _ _ _ _ HE HI' Hc) as [H|(v & H1 & H2 & H3 & _)]; [left; exact H|].
  right. exists v. simpl. rewrite En, Et. simpl. auto.
Qed.
