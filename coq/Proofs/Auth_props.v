(* Proofs/Auth_props.v — the C13 statements.  The domain is finite (12 configurations x the
   regenerated method table / the HTTP endpoints and methods x the credential table): each statement
   has a boolean body (Model/Auth.v) that is checked over the whole domain by ONE vm_compute
   (lemmas *_all), and is then lifted to the quantified Prop with forallb_forall (lift2/3/4) without
   any further computation. *)
From BR Require Import Base.Prelude Gen.Consts Gen.Auth Model.Auth.
Open Scope string_scope.
Open Scope Z_scope.

Lemma forallb_in {A} (f : A -> bool) (l : list A) (x : A) : forallb f l = true -> In x l -> f x = true.
Proof. intros H Hin. rewrite forallb_forall in H. exact (H x Hin). Qed.

Lemma lift2 {A B} (f : A -> B -> bool) la lb :
  all2 f la lb = true -> forall a b, In a la -> In b lb -> f a b = true.
Proof.
  unfold all2. intros H a b Ha Hb.
  exact (forallb_in _ _ b (forallb_in _ _ a H Ha) Hb).
Qed.

Lemma lift3 {A B C} (f : A -> B -> C -> bool) la lb lc :
  all3 f la lb lc = true -> forall a b c, In a la -> In b lb -> In c lc -> f a b c = true.
Proof.
  unfold all3. intros H a b c Ha Hb Hc.
  exact (forallb_in _ _ c (forallb_in _ _ b (forallb_in _ _ a H Ha) Hb) Hc).
Qed.

Lemma lift4 {A B C D} (f : A -> B -> C -> D -> bool) la lb lc ld :
  all4 f la lb lc ld = true ->
  forall a b c d, In a la -> In b lb -> In c lc -> In d ld -> f a b c d = true.
Proof.
  unfold all4. intros H a b c d Ha Hb Hc Hd.
  exact (forallb_in _ _ d (forallb_in _ _ c (forallb_in _ _ b (forallb_in _ _ a H Ha) Hb) Hc) Hd).
Qed.

Lemma all_cfgs_complete : forall c : cfg, In c all_cfgs.
Proof. intros [[| |] [|] [|]]; vm_compute; tauto. Qed.

Lemma all_endpoints_complete : forall e : endpoint, In e all_endpoints.
Proof. intros []; vm_compute; tauto. Qed.

Lemma all_hmethods_complete : forall m : hmethod, In m all_hmethods.
Proof. intros []; vm_compute; tauto. Qed.

Lemma mem_In x l : mem x l = true -> In x l.
Proof.
  unfold mem. intros H. apply existsb_exists in H as [y [Hy E]].
  apply String.eqb_eq in E. subst. exact Hy.
Qed.

Lemma incl_b_sound a b : incl_b a b = true -> incl a b.
Proof. unfold incl_b. intros H x Hx. apply mem_In. exact (forallb_in _ _ x H Hx). Qed.

(* ------------------------------------------------------------------ *)
(* the exhaustive checks: one evaluation each (at Qed) *)

Lemma grpc_mut_all : all3 body_grpc_mut all_cfgs method_names grpc_creds = true.
Proof. vm_cast_no_check (eq_refl true). Qed.
Lemma http_mut_all : all4 body_http_mut all_cfgs all_endpoints all_hmethods http_creds = true.
Proof. vm_cast_no_check (eq_refl true). Qed.
Lemma grpc_reads_all : all3 body_grpc_reads all_cfgs method_names grpc_creds = true.
Proof. vm_cast_no_check (eq_refl true). Qed.
Lemma http_reads_all : all4 body_http_reads all_cfgs all_endpoints all_hmethods http_creds = true.
Proof. vm_cast_no_check (eq_refl true). Qed.
Lemma status_metrics_all : all4 body_status_metrics all_cfgs all_endpoints all_hmethods http_creds = true.
Proof. vm_cast_no_check (eq_refl true). Qed.
Lemma health_all : all2 body_health all_cfgs grpc_creds = true.
Proof. vm_cast_no_check (eq_refl true). Qed.
Lemma only_health_all : forallb body_only_health method_names = true.
Proof. vm_cast_no_check (eq_refl true). Qed.
Lemma valid_grpc_all : all3 body_valid_grpc all_cfgs grpc_creds method_names = true.
Proof. vm_cast_no_check (eq_refl true). Qed.
Lemma valid_http_all : all4 body_valid_http all_cfgs http_creds all_endpoints all_hmethods = true.
Proof. vm_cast_no_check (eq_refl true). Qed.
Lemma table_sound_all :
  incl_b Gen.Consts.readOnlyMethods Spec.non_mutating = true /\
  incl_b Gen.Consts.readOnlyMethods (map fst always_registered) = true /\
  mem Gen.Auth.grpcHealthServiceName (map fst always_registered) = true /\
  mem Gen.Auth.grpcHealthServiceName Spec.non_mutating = true.
Proof. repeat split; vm_cast_no_check (eq_refl true). Qed.
Lemma noauth_grpc_all : all3 body_noauth_grpc all_cfgs grpc_creds method_names = true.
Proof. vm_cast_no_check (eq_refl true). Qed.
Lemma noauth_http_all : all4 body_noauth_http all_cfgs http_creds all_endpoints all_hmethods = true.
Proof. vm_cast_no_check (eq_refl true). Qed.
Lemma order_all : forallb body_order grpc_creds = true.
Proof. vm_cast_no_check (eq_refl true). Qed.
Lemma nopanic_all : all4 body_nopanic all_cfgs all_endpoints all_hmethods http_creds = true.
Proof. vm_cast_no_check (eq_refl true). Qed.

(* ------------------------------------------------------------------ *)

Lemma no_unauth_grpc_mutation :
  forall (c : cfg) (m : string) (bp : bcred * pcred),
    In m method_names -> In bp grpc_creds ->
    auth_on c = true -> mutating m = true -> valid_for c bp = false ->
    grpc_decide c m (wire2 bp) = false.
Proof.
  intros c m bp Hm Hbp Ha Hmu Hv.
  pose proof (lift3 _ _ _ _ grpc_mut_all c m bp (all_cfgs_complete c) Hm Hbp) as H.
  unfold body_grpc_mut in H. rewrite Ha, Hmu, Hv in H. cbn [implb andb negb] in H.
  apply negb_true_iff in H. exact H.
Qed.

Lemma no_unauth_http_mutation :
  forall (c : cfg) (e : endpoint) (m : hmethod) (bp : bcred * pcred),
    In bp http_creds ->
    auth_on c = true -> is_cache_ep e = true -> is_read m = false -> valid_for c bp = false ->
    http_decide c e m (wire2 bp) = false /\
    (m = PUT -> http_outcome c e m (wire2 bp) = H401 \/ http_outcome c e m (wire2 bp) = HNoConn).
Proof.
  intros c e m bp Hbp Ha He Hr Hv.
  pose proof (lift4 _ _ _ _ _ http_mut_all c e m bp (all_cfgs_complete c) (all_endpoints_complete e)
                (all_hmethods_complete m) Hbp) as H.
  unfold body_http_mut in H. rewrite Ha, He, Hr, Hv in H. cbn [implb andb negb] in H.
  apply andb_true_iff in H as [H1 H2]. apply negb_true_iff in H1. split; [exact H1|].
  intros ->. cbn [is_put implb] in H2. unfold refused401 in H2.
  destruct (http_outcome c e PUT (wire2 bp)); try discriminate; tauto.
Qed.

Lemma grpc_reads_closed :
  forall (c : cfg) (m : string) (bp : bcred * pcred),
    In m method_names -> In bp grpc_creds ->
    auth_on c = true -> valid_for c bp = false ->
    grpc_decide c m (wire2 bp) =
      connects c bp && (String.eqb m Spec.health_check || (c_allow c && read_only m)).
Proof.
  intros c m bp Hm Hbp Ha Hv.
  pose proof (lift3 _ _ _ _ grpc_reads_all c m bp (all_cfgs_complete c) Hm Hbp) as H.
  unfold body_grpc_reads in H. rewrite Ha, Hv in H. cbn [implb andb negb] in H.
  apply eqb_prop in H. exact H.
Qed.

Lemma http_reads_closed :
  forall (c : cfg) (e : endpoint) (m : hmethod) (bp : bcred * pcred),
    In bp http_creds ->
    auth_on c = true -> is_cache_ep e = true -> is_read m = true -> valid_for c bp = false ->
    http_decide c e m (wire2 bp) = (c_allow c && connects c bp) /\
    (http_decide c e m (wire2 bp) = false ->
       http_outcome c e m (wire2 bp) = H401 \/ http_outcome c e m (wire2 bp) = HNoConn).
Proof.
  intros c e m bp Hbp Ha He Hr Hv.
  pose proof (lift4 _ _ _ _ _ http_reads_all c e m bp (all_cfgs_complete c) (all_endpoints_complete e)
                (all_hmethods_complete m) Hbp) as H.
  unfold body_http_reads in H. rewrite Ha, He, Hr, Hv in H. cbn [implb andb negb] in H.
  apply andb_true_iff in H as [H1 H2]. apply eqb_prop in H1. split; [exact H1|].
  intros Hd. rewrite Hd in H2. cbn [orb] in H2. unfold refused401 in H2.
  destruct (http_outcome c e m (wire2 bp)); try discriminate; tauto.
Qed.

Lemma status_metrics_closed :
  forall (c : cfg) (e : endpoint) (m : hmethod) (bp : bcred * pcred),
    In bp http_creds ->
    auth_on c = true -> is_cache_ep e = false -> valid_for c bp = false ->
    match http_outcome c e m (wire2 bp) with
    | H401 => c_allow c = false
    | HNoConn => connects c bp = false
    | H404Stub => e = EpMetrics /\ c_metrics c = false
    | HServed => c_allow c = true /\ connects c bp = true
    | _ => False
    end.
Proof.
  intros c e m bp Hbp Ha He Hv.
  pose proof (lift4 _ _ _ _ _ status_metrics_all c e m bp (all_cfgs_complete c) (all_endpoints_complete e)
                (all_hmethods_complete m) Hbp) as H.
  unfold body_status_metrics in H. rewrite Ha, He, Hv in H. cbn [implb andb negb] in H.
  unfold status_metrics_ok in H.
  destruct (http_outcome c e m (wire2 bp)); try discriminate.
  - apply andb_true_iff in H. exact H.
  - apply negb_true_iff in H. exact H.
  - apply negb_true_iff in H. exact H.
  - destruct e; try discriminate. apply negb_true_iff in H. split; [reflexivity|exact H].
Qed.

Lemma health_open :
  forall (c : cfg) (bp : bcred * pcred),
    In bp grpc_creds -> connects c bp = true ->
    grpc_decide c Spec.health_check (wire2 bp) = true.
Proof.
  intros c bp Hbp Hc.
  pose proof (lift2 _ _ _ health_all c bp (all_cfgs_complete c) Hbp) as H.
  unfold body_health in H. rewrite Hc in H. exact H.
Qed.

Lemma only_health_always_open :
  forall m : string, In m method_names -> m <> Spec.health_check ->
    exists (c : cfg) (bp : bcred * pcred),
      auth_on c = true /\ In bp grpc_creds /\ connects c bp = true /\ grpc_decide c m (wire2 bp) = false.
Proof.
  intros m Hm Hne.
  pose proof (forallb_in _ _ m only_health_all Hm) as H. unfold body_only_health in H.
  (* the witness search is a closed term: keep it abstract so that nothing re-evaluates it *)
  remember (existsb (fun c => existsb (fun bp => connects c bp && negb (grpc_decide c m (wire2 bp))) grpc_creds)
                    (filter auth_on all_cfgs)) as X eqn:EX.
  destruct (String.eqb m Spec.health_check) eqn:E; [apply String.eqb_eq in E; contradiction|].
  destruct X; [|discriminate H]. clear H. symmetry in EX.
  apply existsb_exists in EX as [c [Hc H2]]. apply existsb_exists in H2 as [bp [Hbp H3]].
  apply filter_In in Hc as [_ Hc]. apply andb_true_iff in H3 as [H3 H4]. apply negb_true_iff in H4.
  exists c, bp. tauto.
Qed.

Definition http_accepts (c : cfg) (e : endpoint) (m : hmethod) (o : houtcome) : Prop :=
  match o with
  | HServed => True
  | H405 => is_cache_ep e = true /\ (m = POST \/ m = DELETE)    (* CacheHandler knows GET, HEAD, PUT only *)
  | H404Stub => e = EpMetrics /\ c_metrics c = false               (* nothing to serve *)
  | _ => False
  end.

Lemma http_accepts_sound c e m o : http_accepts_b c e m o = true -> http_accepts c e m o.
Proof.
  destruct o; cbn [http_accepts_b http_accepts]; intros H; try discriminate.
  - exact I.
  - apply andb_true_iff in H as [H1 H2]. split; [exact H1|]. destruct m; try discriminate; tauto.
  - destruct e; try discriminate. apply negb_true_iff in H. tauto.
Qed.

Lemma valid_accepted :
  forall c : cfg,
    (forall bp m, In bp grpc_creds -> In m method_names ->
       valid_for c bp = true -> connects c bp = true -> grpc_decide c m (wire2 bp) = true) /\
    (forall bp e m, In bp http_creds ->
       valid_for c bp = true -> connects c bp = true -> http_accepts c e m (http_outcome c e m (wire2 bp))).
Proof.
  intros c. split.
  - intros bp m Hbp Hm Hv Hc.
    pose proof (lift3 _ _ _ _ valid_grpc_all c bp m (all_cfgs_complete c) Hbp Hm) as H.
    unfold body_valid_grpc in H. rewrite Hv, Hc in H. exact H.
  - intros bp e m Hbp Hv Hc.
    pose proof (lift4 _ _ _ _ _ valid_http_all c bp e m (all_cfgs_complete c) Hbp (all_endpoints_complete e)
                  (all_hmethods_complete m)) as H.
    unfold body_valid_http in H. rewrite Hv, Hc in H. cbn [implb andb] in H.
    apply http_accepts_sound. exact H.
Qed.

Lemma table_sound :
  incl Gen.Consts.readOnlyMethods Spec.non_mutating /\
  incl Gen.Consts.readOnlyMethods (map fst always_registered) /\
  In Gen.Auth.grpcHealthServiceName (map fst always_registered) /\
  Gen.Auth.grpcHealthServiceName = Spec.health_check /\
  In Gen.Auth.grpcHealthServiceName Spec.non_mutating.
Proof.
  destruct table_sound_all as [H1 [H2 [H3 H4]]].
  repeat split; try (apply incl_b_sound; assumption); try (apply mem_In; assumption).
Qed.

Lemma no_auth_all_open :
  forall c : cfg, auth_on c = false ->
    (forall bp m, In bp grpc_creds -> In m method_names -> connects c bp = true ->
       grpc_decide c m (wire2 bp) = true) /\
    (forall bp e m, In bp http_creds -> connects c bp = true ->
       http_outcome c e m (wire2 bp) <> H401 /\ http_outcome c e m (wire2 bp) <> HNoConn /\
       http_outcome c e m (wire2 bp) <> HPanic).
Proof.
  intros c Ha. split.
  - intros bp m Hbp Hm Hc.
    pose proof (lift3 _ _ _ _ noauth_grpc_all c bp m (all_cfgs_complete c) Hbp Hm) as H.
    unfold body_noauth_grpc in H. rewrite Ha, Hc in H. exact H.
  - intros bp e m Hbp Hc.
    pose proof (lift4 _ _ _ _ _ noauth_http_all c bp e m (all_cfgs_complete c) Hbp (all_endpoints_complete e)
                  (all_hmethods_complete m)) as H.
    unfold body_noauth_http in H. rewrite Ha, Hc in H. cbn [implb andb negb] in H. unfold open_outcome in H.
    destruct (http_outcome c e m (wire2 bp)); try discriminate; repeat split; discriminate.
Qed.

Lemma login_order_irrelevant :
  forall bp, In bp grpc_creds ->
    login_ok (getLogin (fun l => l) (wire2 bp)) = login_ok (getLogin (@rev _) (wire2 bp)).
Proof.
  intros bp Hbp. pose proof (forallb_in _ _ bp order_all Hbp) as H.
  unfold body_order in H. apply eqb_prop in H. exact H.
Qed.

Lemma no_nil_secret_provider_call :
  forall c e m bp, In bp http_creds -> http_outcome c e m (wire2 bp) <> HPanic.
Proof.
  intros c e m bp Hbp.
  pose proof (lift4 _ _ _ _ _ nopanic_all c e m bp (all_cfgs_complete c) (all_endpoints_complete e)
                (all_hmethods_complete m) Hbp) as H.
  unfold body_nopanic in H. intros E. rewrite E in H. discriminate.
Qed.

(* ------------------------------------------------------------------ *)
(* helpers for the non-vacuity examples in Properties/C13.v *)

Definition named (b p : string) : option (bcred * pcred) :=
  match find_b b basic_creds, find_p p peer_creds with
  | Some x, Some y => Some (x, y)
  | _, _ => None
  end.
Definition in_grpc_creds (bp : bcred * pcred) : bool :=
  existsb (fun x => String.eqb (b_name (fst x)) (b_name (fst bp)) && String.eqb (p_name (snd x)) (p_name (snd bp))) grpc_creds.
Definition in_http_creds (bp : bcred * pcred) : bool :=
  existsb (fun x => String.eqb (b_name (fst x)) (b_name (fst bp)) && String.eqb (p_name (snd x)) (p_name (snd bp))) http_creds.
Definition BatchUpdateBlobs : string := "/build.bazel.remote.execution.v2.ContentAddressableStorage/BatchUpdateBlobs".
Definition GetActionResult : string := "/build.bazel.remote.execution.v2.ActionCache/GetActionResult".
Definition QueryWriteStatus : string := "/google.bytestream.ByteStream/QueryWriteStatus".
Definition blabels_present (l : list (bcred * pcred)) : bool :=
  forallb (fun lb => existsb (fun bp => String.eqb (blabel_name (b_label (fst bp))) lb) l)
          ["none"; "malformed"; "empty-user"; "empty-password"; "unknown-user"; "wrong-password"; "valid"].
Definition clabel_name (l : clabel) : string :=
  match l with LNoCert => "no-cert" | LUnverifiedCert => "unverified-cert" | LValidCert => "valid-cert" end.
Definition clabels_present (l : list (bcred * pcred)) : bool :=
  forallb (fun lb => existsb (fun bp => String.eqb (clabel_name (p_label (snd bp))) lb) l)
          ["no-cert"; "unverified-cert"; "valid-cert"].
