(* Proofs/ProxyBackends_disk.v — the bridge from the real proxies to the disk-level theorems of C12:
   every outcome of httpproxy.Get / grpcproxy.Get IS one of the backend behaviours
   [bget] of Model/Disk.v ([to_bget]); so the theorems of Properties/C12.v, which hold for every
   [bget], hold for disk.Cache with a real proxy attached.  Composed with [get_faults_safe] this gives
   the end-to-end statement: a hit for a locally absent key means the backend answered with a usable
   announcement of exactly the size that is reported, delivered the stream without error, and the
   disk layer validated it; every fault of the backend can only give a miss or an error. *)
From BR Require Import Base.Prelude Model.LRU Proofs.LRU_inv Model.Disk Proofs.Disk_ack Proofs.Disk_fun_get
  Model.ProxyBackends Proofs.ProxyBackends_read.
Open Scope list_scope.
Open Scope Z_scope.

(* every outcome of a real proxy is a [bget]: errors are [BErr], misses [BMiss], and a found object
   keeps its announced size, delivered length and stream verdict *)
Lemma to_bget_spec ob o :
  match o with
  | PErr => to_bget ob o = BErr
  | PMiss => to_bget ob o = BMiss
  | PFound s d e => to_bget ob o = BFound s (o_full ob) d e 1 (o_logical ob)
  end.
Proof. destruct o; reflexivity. Qed.

Lemma to_bget_found_inv ob o cl full delivered berr cid logical :
  to_bget ob o = BFound cl full delivered berr cid logical ->
  o = PFound cl delivered berr /\ full = o_full ob /\ logical = o_logical ob.
Proof. destruct o; cbn; intros H; inversion H; subst. repeat split. Qed.

Lemma to_bget_ok ob o :
  (forall s d e, o = PFound s d e -> 0 <= d) -> bget_ok (to_bget ob o).
Proof. destruct o; cbn; intros Hd; try exact I. eapply Hd. reflexivity. Qed.

(* disk.Cache over httpproxy *)
Lemma http_disk_hit_validated c d k hash sz off zstd rp ob rnd d' s cid flen :
  let b := to_bget ob (http_get (c_zstd c && kind_eqb k CAS) rp) in
  peek (lookup_key k hash) (lru d) = None ->
  exec c d (RGet k hash sz off zstd b rnd) = (d', Some (GetHit s cid flen)) ->
  get_shortcut k hash sz \/
  exists r, rp = HReply r /\ h_status r = 200 /\ h_berr r = false /\ flen = h_body r /\
            (if c_zstd c && kind_eqb k CAS then 16 <= h_body r /\ 0 < s /\ s = h_hdrsize r
             else h_cl r = CLInt s) /\
            fetch_good c k sz s b /\ sz <= c_maxproxy c.
Proof.
  intros b Hp He.
  destruct (get_faults_safe _ _ _ _ _ _ _ _ _ _ _ _ _ Hp He) as [(Hs & _)|(cl & full & dl & cid' & lg & Hb & Hg & -> & _ & -> & _ & Hm)];
    [left; exact Hs|right].
  pose proof Hb as Hb'. unfold b in Hb'. apply to_bget_found_inv in Hb'. destruct Hb' as (Ho & _ & _).
  apply http_get_found_inv in Ho. destruct Ho as (r & -> & Hst & Hd & Hbe & Hv).
  exists r. split; [reflexivity|]. split; [exact Hst|]. split; [symmetry; exact Hbe|].
  split; [exact Hd|]. split; [exact Hv|]. split; [exact Hg|exact Hm].
Qed.

Lemma http_fault_never_hit c d k hash sz off zstd rp ob rnd d' s cid flen :
  http_fault (c_zstd c && kind_eqb k CAS) rp ->
  peek (lookup_key k hash) (lru d) = None -> ~ get_shortcut k hash sz ->
  exec c d (RGet k hash sz off zstd (to_bget ob (http_get (c_zstd c && kind_eqb k CAS) rp)) rnd)
    <> (d', Some (GetHit s cid flen)).
Proof.
  intros F Hp Hn He.
  destruct (http_disk_hit_validated _ _ _ _ _ _ _ _ _ _ _ _ _ _ Hp He) as [H|(r & -> & Hst & _ & _ & Hv & _)];
    [contradiction|].
  cbn [http_fault] in F. destruct F as [F|F]; [lia|].
  destruct (c_zstd c && kind_eqb k CAS).
  - destruct F; lia.
  - destruct F as [F|F]; rewrite F in Hv; discriminate.
Qed.

(* disk.Cache over grpcproxy *)
Lemma grpc_disk_hit_validated c d k hash hex_ok sz off zstd g ob rnd d' s cid flen :
  let b := to_bget ob (grpc_get k hex_ok sz g) in
  peek (lookup_key k hash) (lru d) = None ->
  exec c d (RGet k hash sz off zstd b rnd) = (d', Some (GetHit s cid flen)) ->
  get_shortcut k hash sz \/
  (match k with
   | CAS => rd_open_err (g_rd g) = false /\ rd_end_err (g_rd g) = false /\
            flen = sum_chunks (rd_chunks (g_rd g)) /\
            (if sz <? 0 then hex_ok = true /\ g_fb g = FBResp 0 (Some s) else s = sz)
   | _ => g_ac g = ACOk s /\ flen = s
   end /\ fetch_good c k sz s b /\ sz <= c_maxproxy c).
Proof.
  intros b Hp He.
  destruct (get_faults_safe _ _ _ _ _ _ _ _ _ _ _ _ _ Hp He) as [(Hs & _)|(cl & full & dl & cid' & lg & Hb & Hg & -> & _ & -> & _ & Hm)];
    [left; exact Hs|right].
  pose proof Hb as Hb'. unfold b in Hb'. apply to_bget_found_inv in Hb'. destruct Hb' as (Ho & _ & _).
  apply grpc_get_found_inv in Ho. split; [|split; assumption].
  destruct k.
  - destruct Ho as (Ha & Hd & _). split; [exact Ha|exact Hd].
  - destruct Ho as (Ho & Hd & He' & Hs). split; [exact Ho|]. split; [symmetry; exact He'|]. split; [exact Hd|exact Hs].
  - destruct Ho as (Ha & Hd & _). split; [exact Ha|exact Hd].
Qed.

Lemma grpc_fault_never_hit c d k hash hex_ok sz off zstd g ob rnd d' s cid flen :
  grpc_fault k hex_ok sz g ->
  peek (lookup_key k hash) (lru d) = None -> ~ get_shortcut k hash sz ->
  exec c d (RGet k hash sz off zstd (to_bget ob (grpc_get k hex_ok sz g)) rnd) <> (d', Some (GetHit s cid flen)).
Proof.
  intros F Hp Hn He.
  destruct (grpc_get_fault_degrades k hex_ok sz g F) as [E|E]; rewrite E in He; cbn [to_bget] in He;
    destruct (get_faults_safe _ _ _ _ _ _ _ _ _ _ _ _ _ Hp He) as [(Hs & _)|(cl & full & dl & cid' & lg & Hb & _)];
    try contradiction; discriminate.
Qed.

(* a stream that errs (HTTP body cut short of its Content-Length, gRPC status after some messages)
   never gives a hit, whatever was delivered *)
Lemma stream_error_never_hit c d k hash sz off zstd ob size delivered rnd d' s cid flen :
  peek (lookup_key k hash) (lru d) = None -> ~ get_shortcut k hash sz ->
  exec c d (RGet k hash sz off zstd (to_bget ob (PFound size delivered true)) rnd) <> (d', Some (GetHit s cid flen)).
Proof.
  intros Hp Hn He. cbn [to_bget] in He.
  destruct (get_faults_safe _ _ _ _ _ _ _ _ _ _ _ _ _ Hp He) as [(Hs & _)|(cl & full & dl & cid' & lg & Hbb & _)];
    [contradiction|]. discriminate.
Qed.
