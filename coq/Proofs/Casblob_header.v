(* Proofs/Casblob_header.v — readHeader model: what an accepted header guarantees, that no file
   makes it panic, header encode/parse round trip, and rejection of every file state of an
   unfinished compressed write (zero chunk table). *)
From BR Require Import Base.Prelude Gen.Consts Gen.Funcs Model.Casblob Proofs.Casblob_le.
Open Scope list_scope.
Open Scope Z_scope.

(* ------------------------------------------------------------------ *)
(* the generated header.size / header.frameSize without their wrap-arounds *)

Lemma header_size_val offs :
  8 * zlen offs + 29 < two63 -> Gen.header_size offs = 29 + 8 * zlen offs.
Proof.
  unfold Gen.header_size, zlen, two63. intros H.
  rewrite (wrap64_id (Z.of_nat _)) by (unfold in_i64, two63; lia).
  rewrite (wrap64_id (Z.of_nat _ * 8)) by (unfold in_i64, two63; lia).
  rewrite wrap64_id by (unfold in_i64, two63; lia). lia.
Qed.

Lemma header_frameSize_val offs :
  8 * zlen offs + 29 < two32 -> Gen.header_frameSize offs = 8 * zlen offs + 21.
Proof.
  unfold Gen.header_frameSize, zlen, two32. intros H.
  rewrite (wrapU32_id (Z.of_nat _)) by (unfold two32; lia).
  rewrite (wrapU32_id (Z.of_nat _ * 8)) by (unfold two32; lia).
  rewrite (wrapU32_id (29 + _)) by (unfold two32; lia).
  rewrite (wrapU32_id (29 + _ - 4)) by (unfold two32; lia).
  rewrite wrapU32_id by (unfold two32; lia). lia.
Qed.

(* ------------------------------------------------------------------ *)
(* what validate = Ok tells *)

Definition table_ok (fsz : Z) (offs : list Z) : Prop := increasing_from (-1) offs = Some fsz.

Lemma validate_ok_inv fsz r h :
  validate fsz r = Ok h ->
  r_magic r = skippableFrameMagicNumber /\
  2 <= r_num r <= Z.quot (fsz - chunkTableOffset) 8 /\
  (r_comp r = Zstandard ->
     r_chunk r <> 0 /\ 0 < r_usize r /\
     r_num r - 1 = (if Z.rem (r_usize r) (r_chunk r) =? 0
                    then Z.quot (r_usize r) (r_chunk r) else Z.quot (r_usize r) (r_chunk r) + 1)) /\
  r_frame r = r_num r * 8 + 21 /\
  8 * r_num r <= zlen (r_rest r) /\
  h = mkHeader (r_usize r) (r_comp r) (r_chunk r) (decode_offsets (Z.to_nat (r_num r)) (r_rest r)) /\
  table_ok fsz (h_offs h).
Proof.
  unfold validate. intros H.
  destruct (r_magic r =? skippableFrameMagicNumber) eqn:Em; cbn [negb] in H; [|discriminate].
  destruct (r_num r <? 2) eqn:E2; [discriminate|].
  destruct (r_num r >? Z.quot (fsz - chunkTableOffset) 8) eqn:E3; [discriminate|].
  assert (Hz : r_comp r = Zstandard ->
     r_chunk r <> 0 /\ 0 < r_usize r /\
     r_num r - 1 = (if Z.rem (r_usize r) (r_chunk r) =? 0
                    then Z.quot (r_usize r) (r_chunk r) else Z.quot (r_usize r) (r_chunk r) + 1)).
  { intros Hc. rewrite Hc, Z.eqb_refl in H.
    destruct (r_chunk r =? 0) eqn:Ek; [discriminate|].
    unfold go_quot, go_rem in H. rewrite Ek in H. cbn [bind] in H.
    destruct ((r_usize r <=? 0) || negb (r_num r - 1 =? _)) eqn:Ecnt in H; [discriminate|].
    apply orb_false_iff in Ecnt as [Ea Eb]. apply negb_false_iff in Eb.
    split; [lia|]. split; [lia|]. apply Z.eqb_eq in Eb. exact Eb. }
  match type of H with bind ?zb _ = _ => destruct zb as [[]|e|s|s] eqn:Ezb end;
    cbn [bind] in H; try discriminate.
  destruct (r_frame r =? r_num r * 8 + 8 + 1 + 4 + 8) eqn:Ef; cbn [negb] in H; [|discriminate].
  destruct (go_make (r_num r) 8) as [[]|e|s|s] eqn:Emk; cbn [bind] in H; try discriminate.
  destruct (zlen (r_rest r) <? 8 * r_num r) eqn:Er; [discriminate|].
  destruct (increasing_from (-1) _) as [lst|] eqn:Ei; [|discriminate].
  destruct (lst =? fsz) eqn:El; cbn [negb] in H; [|discriminate].
  inversion H; subst h; clear H. cbn [h_offs].
  apply Z.eqb_eq in El; subst lst.
  repeat split; try lia; try exact Ei; try (apply Hz; assumption).
Qed.

(* ------------------------------------------------------------------ *)
(* no file makes readHeader panic *)

Lemma validate_never_panics fsz r : 0 <= r_frame r < two32 -> is_panic (validate fsz r) = false.
Proof.
  intros Hf. unfold validate.
  destruct (r_magic r =? skippableFrameMagicNumber); cbn [negb]; [|reflexivity].
  destruct (r_num r <? 2) eqn:E2; [reflexivity|].
  destruct (r_num r >? Z.quot (fsz - chunkTableOffset) 8); [reflexivity|].
  match goal with |- is_panic (bind ?zb _) = false =>
    assert (Hx : is_panic zb = false) end.
  { destruct (r_comp r =? Zstandard); [|reflexivity].
    destruct (r_chunk r =? 0) eqn:Ek; [reflexivity|].
    unfold go_quot, go_rem. rewrite Ek. cbn [bind].
    destruct ((r_usize r <=? 0) || _); reflexivity. }
  match goal with |- is_panic (bind ?zb _) = false =>
    destruct zb as [[]|e|s|s] end; cbn [bind]; try reflexivity; try discriminate.
  destruct (r_frame r =? r_num r * 8 + 8 + 1 + 4 + 8) eqn:Ef; cbn [negb]; [|reflexivity].
  unfold go_make.
  destruct ((r_num r <? 0) || (r_num r * 8 >? maxAlloc)) eqn:Emk.
  { exfalso. unfold two32, maxAlloc in *. lia. }
  cbn [bind].
  destruct (zlen (r_rest r) <? 8 * r_num r); [reflexivity|].
  destruct (increasing_from (-1) _); [|reflexivity].
  destruct (_ =? fsz); reflexivity.
Qed.

Theorem parse_header_never_panics : forall bytes, is_panic (parse_header bytes) = false.
Proof.
  intros f. unfold parse_header.
  destruct (zlen f <=? chunkTableOffset + 16); [reflexivity|].
  apply validate_never_panics. unfold decode_raw; cbn [r_frame]. apply u32_of_range.
Qed.

Lemma extract_logical_size_never_panics s : is_panic (extract_logical_size s) = false.
Proof.
  unfold extract_logical_size. destruct (zlen s <? 16); [reflexivity|].
  destruct (_ <=? 0); reflexivity.
Qed.

Lemma extract_logical_size_ok s n : extract_logical_size s = Ok n -> 0 < n /\ n = i64_of (skipn 8 s).
Proof.
  unfold extract_logical_size. destruct (zlen s <? 16); [discriminate|].
  destruct (i64_of (skipn 8 s) <=? 0) eqn:E; [discriminate|]. intros H.
  apply Z.leb_gt in E. injection H as Hn. subst n. split; [exact E|reflexivity].
Qed.

(* ------------------------------------------------------------------ *)
(* decode_raw inverts encode_header on the fixed part *)

Definition fields_ok (h : header) : Prop :=
  in_i64 (h_usize h) /\ 0 <= h_comp h < 256 /\ 0 <= h_chunk h < two32 /\
  8 * zlen (h_offs h) + 29 < two32 /\ Forall in_i64 (h_offs h).

Lemma encode_header_length h : zlen (encode_header h) = 29 + 8 * zlen (h_offs h).
Proof.
  unfold encode_header, zlen. repeat rewrite app_length.
  rewrite !enc_u32_length, !enc_i64_length, enc_u8_length, flat_map_enc_i64_length. lia.
Qed.

Lemma decode_raw_encode h body :
  fields_ok h ->
  decode_raw (encode_header h ++ body) =
  mkRaw skippableFrameMagicNumber (8 * zlen (h_offs h) + 21) (h_usize h) (h_comp h) (h_chunk h)
        (zlen (h_offs h)) (flat_map enc_i64 (h_offs h) ++ body).
Proof.
  intros (Hs & Hc & Hk & Hn & Ho).
  unfold decode_raw, encode_header. repeat rewrite <- app_assoc.
  set (m := enc_u32 skippableFrameMagicNumber).
  set (fs := enc_u32 (Gen.header_frameSize (h_offs h))).
  set (us := enc_i64 (h_usize h)). set (cm := enc_u8 (h_comp h)).
  set (ck := enc_u32 (h_chunk h)). set (nm := enc_i64 (zlen (h_offs h))).
  set (tb := flat_map enc_i64 (h_offs h) ++ body).
  assert (Lm : List.length m = 4%nat) by apply enc_u32_length.
  assert (Lf : List.length fs = 4%nat) by apply enc_u32_length.
  assert (Lu : List.length us = 8%nat) by apply enc_i64_length.
  assert (Lc : List.length cm = 1%nat) by apply enc_u8_length.
  assert (Lk : List.length ck = 4%nat) by apply enc_u32_length.
  assert (Ln : List.length nm = 8%nat) by apply enc_i64_length.
  assert (S4 : skipn 4 (m ++ fs ++ us ++ cm ++ ck ++ nm ++ tb) = fs ++ us ++ cm ++ ck ++ nm ++ tb)
    by (apply skipn_app_exact; exact Lm).
  assert (S8 : skipn 8 (m ++ fs ++ us ++ cm ++ ck ++ nm ++ tb) = us ++ cm ++ ck ++ nm ++ tb).
  { change 8%nat with (4 + 4)%nat. rewrite <- skipn_skipn, S4. apply skipn_app_exact; exact Lf. }
  assert (S16 : skipn 16 (m ++ fs ++ us ++ cm ++ ck ++ nm ++ tb) = cm ++ ck ++ nm ++ tb).
  { change 16%nat with (8 + 8)%nat. rewrite <- skipn_skipn, S8. apply skipn_app_exact; exact Lu. }
  assert (S17 : skipn 17 (m ++ fs ++ us ++ cm ++ ck ++ nm ++ tb) = ck ++ nm ++ tb).
  { change 17%nat with (16 + 1)%nat. rewrite <- skipn_skipn, S16. apply skipn_app_exact; exact Lc. }
  assert (S21 : skipn 21 (m ++ fs ++ us ++ cm ++ ck ++ nm ++ tb) = nm ++ tb).
  { change 21%nat with (17 + 4)%nat. rewrite <- skipn_skipn, S17. apply skipn_app_exact; exact Lk. }
  assert (S29 : skipn 29 (m ++ fs ++ us ++ cm ++ ck ++ nm ++ tb) = tb).
  { change 29%nat with (21 + 8)%nat. rewrite <- skipn_skipn, S21. apply skipn_app_exact; exact Ln. }
  rewrite S4, S8, S16, S17, S21, S29.
  subst m fs us cm ck nm.
  rewrite u32_roundtrip by (unfold two32, skippableFrameMagicNumber; lia).
  rewrite u32_roundtrip
    by (rewrite header_frameSize_val by exact Hn; pose proof (zlen_nonneg (h_offs h)); lia).
  rewrite i64_roundtrip by exact Hs.
  rewrite u8_roundtrip by exact Hc.
  rewrite u32_roundtrip by exact Hk.
  rewrite i64_roundtrip
    by (pose proof (zlen_nonneg (h_offs h)); unfold in_i64, two63, two32 in *; lia).
  rewrite header_frameSize_val by exact Hn. reflexivity.
Qed.

(* whatever parse_header accepts of an encoded header is that header, with a proper table *)
Lemma parse_encode_inv h body h' :
  fields_ok h ->
  parse_header (encode_header h ++ body) = Ok h' ->
  h' = h /\ table_ok (zlen (encode_header h ++ body)) (h_offs h).
Proof.
  intros Hf Hp. unfold parse_header in Hp.
  destruct (_ <=? _) in Hp; [discriminate|].
  rewrite decode_raw_encode in Hp by exact Hf.
  apply validate_ok_inv in Hp. cbn [r_magic r_num r_comp r_chunk r_usize r_frame r_rest] in Hp.
  destruct Hp as (_ & _ & _ & _ & _ & Hh & Ht).
  rewrite to_nat_zlen in Hh.
  destruct Hf as (_ & _ & _ & _ & Ho).
  rewrite decode_offsets_roundtrip in Hh by exact Ho.
  subst h'. cbn [h_offs] in Ht. destruct h; split; [reflexivity|exact Ht].
Qed.

(* ------------------------------------------------------------------ *)
(* round trip: the well-formedness the writer guarantees is enough for readHeader to accept *)

Definition cdiv (a b : Z) : Z := if a mod b =? 0 then a / b else a / b + 1.

Lemma quot_rem_nonneg a b : 0 <= a -> 0 < b -> Z.quot a b = a / b /\ Z.rem a b = a mod b.
Proof. intros Ha Hb. split; [apply Z.quot_div_nonneg|apply Z.rem_mod_nonneg]; lia. Qed.

Definition header_wf (fsz : Z) (h : header) : Prop :=
  fields_ok h /\ 2 <= zlen (h_offs h) /\ table_ok fsz (h_offs h) /\
  (h_comp h = Zstandard ->
     0 < h_chunk h /\ 0 < h_usize h /\ zlen (h_offs h) - 1 = cdiv (h_usize h) (h_chunk h)).

Theorem parse_encode_roundtrip h body :
  let file := encode_header h ++ body in
  0 < zlen body -> header_wf (zlen file) h -> parse_header file = Ok h.
Proof.
  intros file Hb (Hf & Hn & Ht & Hz). unfold parse_header. fold file.
  assert (Hlen : zlen file = 29 + 8 * zlen (h_offs h) + zlen body)
    by (unfold file; rewrite zlen_app, encode_header_length; lia).
  replace (zlen file <=? chunkTableOffset + 16) with false by (unfold chunkTableOffset; lia).
  unfold file at 2. rewrite decode_raw_encode by exact Hf.
  unfold validate. cbn [r_magic r_num r_comp r_chunk r_usize r_frame r_rest].
  rewrite Z.eqb_refl. cbn [negb].
  replace (zlen (h_offs h) <? 2) with false by lia.
  assert (Hq : Z.quot (zlen file - chunkTableOffset) 8 = (zlen file - 29) / 8).
  { unfold chunkTableOffset. apply Z.quot_div_nonneg; lia. }
  rewrite Hq.
  replace (zlen (h_offs h) >? (zlen file - 29) / 8) with false by lia.
  match goal with |- bind ?zb _ = _ => assert (Hzb : zb = Ok tt) end.
  { destruct (h_comp h =? Zstandard) eqn:Ec; [|reflexivity].
    apply Z.eqb_eq in Ec. destruct (Hz Ec) as (Hk & Hu & Hcnt).
    replace (h_chunk h =? 0) with false by lia.
    unfold go_quot, go_rem. replace (h_chunk h =? 0) with false by lia. cbn [bind].
    destruct (quot_rem_nonneg (h_usize h) (h_chunk h)) as [Eq Er]; try lia.
    rewrite Eq, Er. unfold cdiv in Hcnt.
    replace (h_usize h <=? 0) with false by lia. cbn [orb].
    rewrite Hcnt, Z.eqb_refl. reflexivity. }
  rewrite Hzb. cbn [bind].
  replace (8 * zlen (h_offs h) + 21 =? zlen (h_offs h) * 8 + 8 + 1 + 4 + 8) with true by lia.
  cbn [negb]. unfold go_make.
  destruct Hf as (Hs & Hc & Hk & Hnn & Ho).
  replace ((zlen (h_offs h) <? 0) || (zlen (h_offs h) * 8 >? maxAlloc)) with false
    by (unfold maxAlloc, two32 in *; lia).
  cbn [bind].
  replace (zlen (flat_map enc_i64 (h_offs h) ++ body) <? 8 * zlen (h_offs h)) with false.
  2:{ rewrite zlen_app. unfold zlen at 1. rewrite flat_map_enc_i64_length. unfold zlen. lia. }
  rewrite to_nat_zlen. rewrite decode_offsets_roundtrip by exact Ho.
  unfold table_ok in Ht. rewrite Ht. rewrite Z.eqb_refl. cbn [negb]. destruct h; reflexivity.
Qed.

(* ------------------------------------------------------------------ *)
(* torn files: any file that starts with the header of a write in progress is rejected *)

Lemma zero_table_not_increasing fsz n : (1 <= n)%nat -> ~ table_ok fsz (chunkTableOffset :: repeat 0 n).
Proof.
  intros Hn. destruct n as [|n]; [lia|]. unfold table_ok. cbn. discriminate.
Qed.

Lemma header0_fields_ok c t size n :
  in_i64 size -> 0 <= t < 256 -> 0 <= c < two32 -> 8 * (Z.of_nat n + 1) + 29 < two32 ->
  fields_ok (header0 c t size n).
Proof.
  intros Hs Ht Hc Hn. unfold fields_ok, header0; cbn [h_usize h_comp h_chunk h_offs].
  repeat split; try lia; try apply Hs.
  - unfold zlen. simpl List.length. rewrite repeat_length. lia.
  - constructor; [unfold in_i64, two63, chunkTableOffset; lia|].
    apply Forall_forall. intros x Hx. apply repeat_spec in Hx. subst. unfold in_i64, two63. lia.
Qed.

Lemma in_progress_file_rejected c t size n body :
  in_i64 size -> 0 <= t < 256 -> 0 <= c < two32 -> 8 * (Z.of_nat n + 1) + 29 < two32 ->
  (1 <= n)%nat ->
  is_ok (parse_header (encode_header (header0 c t size n) ++ body)) = false.
Proof.
  intros Hs Ht Hc Hn H1.
  destruct (parse_header _) as [h'| | |] eqn:E; try reflexivity.
  exfalso. apply parse_encode_inv in E; [|apply header0_fields_ok; assumption].
  destruct E as [_ Hi]. cbn [header0 h_offs] in Hi.
  eapply zero_table_not_increasing; eassumption.
Qed.

Theorem torn_file_rejected :
  forall (c t size : Z) (nchunks : nat) (frames : list (list Z)) (st : list Z),
    in_i64 size -> 0 <= t < 256 -> 0 <= c < two32 ->
    (1 <= nchunks)%nat -> 8 * (Z.of_nat nchunks + 1) + 29 < two32 ->
    In st (torn_states c t size nchunks frames) ->
    is_ok (parse_header st) = false.
Proof.
  intros c t size n frames st Hs Ht Hc H1 Hn Hin.
  unfold torn_states in Hin. apply in_app_or in Hin as [Hin|Hin].
  - apply in_map_iff in Hin as (k & <- & Hk).
    unfold parse_header.
    assert (zlen (firstn k (encode_header (header0 c t size n))) <= 29).
    { unfold zlen. rewrite firstn_length. simpl in Hk.
      repeat (destruct Hk as [<-|Hk]; [lia|]). destruct Hk. }
    replace (_ <=? chunkTableOffset + 16) with true by (unfold chunkTableOffset; lia).
    reflexivity.
  - apply in_map_iff in Hin as (k & <- & _).
    apply in_progress_file_rejected; assumption.
Qed.
