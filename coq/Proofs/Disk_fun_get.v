(* Proofs/Disk_fun_get.v — the read program of Model/Disk.v (Get) in big-step form, and its
   functional properties in the sequential semantics [exec]:
   * [get_local_spec] / [get_local_complete]: a read that does not use the backend, completely;
   * the proxy branch (C12): faults only ever give miss or error, faithful read-through, no poison;
   * size limits on backend reads (C18), Contains. *)
From Coq Require Import Permutation.
From BR Require Import Base.Prelude Model.LRU Proofs.LRU_inv Proofs.LRU_spec Proofs.LRU_limit Proofs.LRU_order.
From BR Require Import Model.Disk Proofs.Disk_ack Proofs.Disk_fun_fm Proofs.Disk_fun_put.
Open Scope Z_scope.

(* ------------------------------------------------------------------ *)
(* the stages of Get, as equations *)

Section Stages.
Variables (c : cfg) (d : dstate) (k : kind) (hash : string) (sz off : Z) (zstd : bool) (b : bget) (rnd : string).
Variables (h : Z) (tm : option path).
Let req := RGet k hash sz off zstd b rnd.
Let key := lookup_key k hash.

Lemma tstep_get_start :
  tstep c d (mkThread req GetStart h tm) =
  if negb (Z.of_nat (String.length hash) =? hashLen) then Some (d, mkThread req (Done (GetErr EBadRequest)) h tm) else
  if sz <? -1 then Some (d, mkThread req (Done (GetErr EBadRequest)) h tm) else
  if kind_eqb k CAS && (sz <=? 0) && String.eqb hash emptySha256 then Some (d, mkThread req (Done (GetHit 0 0 0)) h tm) else
  if negb (kind_eqb k CAS) && zstd then Some (d, mkThread req (Done (GetErr EBadRequest)) h tm) else
  if off <? 0 then Some (d, mkThread req (Done (GetErr EBadRequest)) h tm) else
  if (sz >? 0) && (off >=? sz) then Some (d, mkThread req (Done (GetErr EBadRequest)) h tm) else
  let '(l', g) := LRU.get key (lru d) in
  match g with
  | Some (v, id) =>
      if mismatch sz (size v) then Some (set_lru l' d, mkThread req (GetProxyDecide false) h tm)
      else Some (set_lru l' d, mkThread req (GetOpen v id) h tm)
  | None => Some (set_lru l' d, mkThread req (GetProxyDecide true) h tm)
  end.
Proof. reflexivity. Qed.

Lemma tstep_get_open v id :
  tstep c d (mkThread req (GetOpen v id) h tm) =
  match find_file (path_of key v) (files d) with
  | Some f => Some (d, mkThread req (GetValidate v id f) h tm)
  | None => Some (d, mkThread req GetSlow h tm)
  end.
Proof. reflexivity. Qed.

Lemma tstep_get_slow :
  tstep c d (mkThread req GetSlow h tm) =
  let '(l', g) := LRU.get key (lru d) in
  match g with
  | Some (v, id) =>
      match find_file (path_of key v) (files d) with
      | Some f => Some (set_lru l' d, mkThread req (GetValidate v id f) h tm)
      | None =>
          match LRU.remove_element id l' with
          | Some l2 => Some (set_lru l2 d, mkThread req (GetProxyDecide false) h tm)
          | None => Some (set_lru l' d, mkThread req (GetProxyDecide false) h tm)
          end
      end
  | None => Some (set_lru l' d, mkThread req (GetProxyDecide false) h tm)
  end.
Proof. reflexivity. Qed.

Lemma tstep_get_validate v id f :
  tstep c d (mkThread req (GetValidate v id f) h tm) =
  if kind_eqb k CAS then
    if (if legacy v then true else f_complete f && ((sz =? -1) || (f_logical f =? sz)))
    then Some (d, mkThread req (Done (GetHit (size v) (f_cid f) (f_len f))) h tm)
    else Some (d, mkThread req (GetDrop v id) h tm)
  else
    if mismatch sz (f_len f) then Some (d, mkThread req (GetProxyDecide false) h tm)
    else Some (d, mkThread req (Done (GetHit (f_len f) (f_cid f) (f_len f))) h tm).
Proof. reflexivity. Qed.

Lemma tstep_get_drop v id :
  tstep c d (mkThread req (GetDrop v id) h tm) =
  match find_key key (order (lru d)) with
  | Some e =>
      if Nat.eqb (eid e) id && item_eqb (evalue (ent e)) v then
        match LRU.remove_element id (lru d) with
        | Some l2 => Some (set_lru l2 d, mkThread req (GetProxyDecide false) h tm)
        | None => Some (d, mkThread req (GetProxyDecide false) h tm)
        end
      else Some (d, mkThread req (GetProxyDecide false) h tm)
  | None => Some (d, mkThread req (GetProxyDecide false) h tm)
  end.
Proof. reflexivity. Qed.

Lemma tstep_get_decide lm :
  tstep c d (mkThread req (GetProxyDecide lm) h tm) =
  if c_proxy c && (sz <=? c_maxproxy c) then
    if sz >? 0 then
      let '(l', r) := LRU.reserve sz (lru d) in
      match r with
      | Ok _ => Some (set_lru l' d, mkThread req GetFetch sz None)
      | _ => Some (set_lru l' d, mkThread req (Done (GetErr (errc_of r))) h tm)
      end
    else Some (d, mkThread req GetFetch h tm)
  else Some (d, mkThread req (Done GetMiss) h tm).
Proof. reflexivity. Qed.

End Stages.

Definition get_legacy (c : cfg) (k : kind) : bool := kind_eqb k CAS && negb (c_zstd c).
Definition get_path (c : cfg) (k : kind) (hash : string) (claimed : Z) (rnd : string) : path :=
  mkPath (lookup_key k hash) (if kind_eqb k CAS && negb (get_legacy c k) then claimed else 0) rnd (get_legacy c k).
Definition get_raw (c : cfg) (k : kind) : bool := negb (kind_eqb k CAS) || negb (c_zstd c).

Section Stages2.
Variables (c : cfg) (d : dstate) (k : kind) (hash : string) (sz off : Z) (zstd : bool) (rnd : string).
Variables (h : Z).

Lemma tstep_get_fetch b tm :
  tstep c d (mkThread (RGet k hash sz off zstd b rnd) GetFetch h tm) =
  let req := RGet k hash sz off zstd b rnd in
  match b with
  | BErr => Some (d, mkThread req (Cleanup (GetErr EInternal)) h tm)
  | BMiss => Some (d, mkThread req (Cleanup GetMiss) h tm)
  | BFound claimed full delivered berr cid logical =>
      if claimed >? c_maxproxy c then Some (d, mkThread req (Cleanup GetMiss) h tm) else
      if mismatch sz claimed || (claimed <? 0) then Some (d, mkThread req (Cleanup GetMiss) h tm) else
      Some (d, mkThread req (GetCreate claimed) h tm)
  end.
Proof. destruct b; reflexivity. Qed.

Lemma tstep_get_create cl full delivered berr cid logical claimed tm :
  tstep c d (mkThread (RGet k hash sz off zstd (BFound cl full delivered berr cid logical) rnd) (GetCreate claimed) h tm) =
  let p := get_path c k hash claimed rnd in
  match find_file p (files d) with
  | Some _ => None
  | None => Some (set_files (put_file (mkFile p cid 0 false logical) (files d)) d,
                  mkThread (RGet k hash sz off zstd (BFound cl full delivered berr cid logical) rnd) (GetCopy claimed) h (Some p))
  end.
Proof. reflexivity. Qed.

Lemma tstep_get_copy cl full delivered berr cid logical claimed p :
  tstep c d (mkThread (RGet k hash sz off zstd (BFound cl full delivered berr cid logical) rnd) (GetCopy claimed) h (Some p)) =
  let req := RGet k hash sz off zstd (BFound cl full delivered berr cid logical) rnd in
  let d1 := set_files (put_file (mkFile p cid delivered false logical) (files d)) d in
  if berr then Some (d1, mkThread req (Cleanup (GetErr EInternal)) h (Some p))
  else Some (d1, mkThread req (GetCheck claimed) h (Some p)).
Proof. reflexivity. Qed.

Lemma tstep_get_check cl full delivered berr cid logical claimed p :
  tstep c d (mkThread (RGet k hash sz off zstd (BFound cl full delivered berr cid logical) rnd) (GetCheck claimed) h (Some p)) =
  let req := RGet k hash sz off zstd (BFound cl full delivered berr cid logical) rnd in
  let f := mkFile p cid delivered true logical in
  let d1 := set_files (put_file f (files d)) d in
  if get_raw c k then
    if negb (delivered =? claimed) then Some (d, mkThread req (Cleanup (GetErr EInternal)) h (Some p))
    else Some (d1, mkThread req (GetCommit claimed delivered f) h (Some p))
  else
    if (delivered =? full) && (logical =? claimed) then Some (d1, mkThread req (GetCommit claimed delivered f) h (Some p))
    else Some (d, mkThread req (Cleanup (GetErr EInternal)) h (Some p)).
Proof. reflexivity. Qed.

Lemma tstep_get_commit b claimed od f tm :
  tstep c d (mkThread (RGet k hash sz off zstd b rnd) (GetCommit claimed od f) h tm) =
  let req := RGet k hash sz off zstd b rnd in
  let '(l1, r1) := if h >? 0 then LRU.unreserve h (lru d) else (lru d, Ok tt) in
  match r1 with
  | Ok _ =>
      let '(l2, r2) := LRU.add (lookup_key k hash) (mkItem claimed od rnd (get_legacy c k)) l1 in
      match r2 with
      | Ok true => Some (set_lru l2 d, mkThread req (Cleanup (GetHit claimed (f_cid f) (f_len f))) 0 None)
      | _ => Some (set_lru l2 d, mkThread req (Cleanup (GetErr EInternal)) 0 tm)
      end
  | _ => Some (set_lru l1 d, mkThread req (Cleanup (GetErr EInternal)) h tm)
  end.
Proof. reflexivity. Qed.

End Stages2.

(* ------------------------------------------------------------------ *)
(* Get in big-step form *)

Definition opt {A B} (x : A * B) : A * option B := (fst x, Some (snd x)).

Definition get_commit_fun (c : cfg) (d : dstate) (k : kind) (hash : string) (rnd : string)
    (h : Z) (p : path) (claimed od : Z) (f : file) : dstate * response :=
  let '(l1, r1) := if h >? 0 then LRU.unreserve h (lru d) else (lru d, Ok tt) in
  match r1 with
  | Ok _ =>
      let '(l2, r2) := LRU.add (lookup_key k hash) (mkItem claimed od rnd (get_legacy c k)) l1 in
      match r2 with
      | Ok true => cleanup_fun (set_lru l2 d) 0 None (GetHit claimed (f_cid f) (f_len f))
      | _ => cleanup_fun (set_lru l2 d) 0 (Some p) (GetErr EInternal)
      end
  | _ => cleanup_fun (set_lru l1 d) h (Some p) (GetErr EInternal)
  end.

(* from GetFetch, holding a reservation of [h] bytes *)
Definition get_fetch_fun (c : cfg) (d : dstate) (k : kind) (hash : string) (sz : Z) (b : bget) (rnd : string)
    (h : Z) : dstate * option response :=
  match b with
  | BErr => opt (cleanup_fun d h None (GetErr EInternal))
  | BMiss => opt (cleanup_fun d h None GetMiss)
  | BFound claimed full delivered berr cid logical =>
      if claimed >? c_maxproxy c then opt (cleanup_fun d h None GetMiss) else
      if mismatch sz claimed || (claimed <? 0) then opt (cleanup_fun d h None GetMiss) else
      let p := get_path c k hash claimed rnd in
      match find_file p (files d) with
      | Some _ => (d, None)
      | None =>
          let d1 := set_files (put_file (mkFile p cid 0 false logical) (files d)) d in
          let d2 := set_files (put_file (mkFile p cid delivered false logical) (files d1)) d1 in
          if berr then opt (cleanup_fun d2 h (Some p) (GetErr EInternal)) else
          let f := mkFile p cid delivered true logical in
          let d3 := set_files (put_file f (files d2)) d2 in
          if (if get_raw c k then delivered =? claimed else (delivered =? full) && (logical =? claimed))
          then opt (get_commit_fun c d3 k hash rnd h p claimed delivered f)
          else opt (cleanup_fun d2 h (Some p) (GetErr EInternal))
      end
  end.

(* from GetProxyDecide *)
Definition get_proxy_fun (c : cfg) (d : dstate) (k : kind) (hash : string) (sz : Z) (b : bget) (rnd : string)
  : dstate * option response :=
  if c_proxy c && (sz <=? c_maxproxy c) then
    if sz >? 0 then
      let '(l', r) := LRU.reserve sz (lru d) in
      match r with
      | Ok _ => get_fetch_fun c (set_lru l' d) k hash sz b rnd sz
      | _ => (set_lru l' d, Some (GetErr (errc_of r)))
      end
    else get_fetch_fun c d k hash sz b rnd 0
  else (d, Some GetMiss).

Definition valid_file (k : kind) (sz : Z) (v : item) (f : file) : bool :=
  if kind_eqb k CAS then (if legacy v then true else f_complete f && ((sz =? -1) || (f_logical f =? sz)))
  else negb (mismatch sz (f_len f)).

Definition hit_of (k : kind) (v : item) (f : file) : response :=
  if kind_eqb k CAS then GetHit (size v) (f_cid f) (f_len f) else GetHit (f_len f) (f_cid f) (f_len f).

(* the guarded removal of an entry whose file could not be read *)
Definition drop_fun (d : dstate) (key : string) (v : item) (id : nat) : dstate :=
  match find_key key (order (lru d)) with
  | Some e =>
      if Nat.eqb (eid e) id && item_eqb (evalue (ent e)) v then
        match LRU.remove_element id (lru d) with Some l2 => set_lru l2 d | None => d end
      else d
  | None => d
  end.

(* from GetValidate *)
Definition get_validate_fun (c : cfg) (d : dstate) (k : kind) (hash : string) (sz : Z) (b : bget) (rnd : string)
    (v : item) (id : nat) (f : file) : dstate * option response :=
  if valid_file k sz v f then (d, Some (hit_of k v f))
  else if kind_eqb k CAS then get_proxy_fun c (drop_fun d (lookup_key k hash) v id) k hash sz b rnd
  else get_proxy_fun c d k hash sz b rnd.

Definition get_guard (k : kind) (hash : string) (sz off : Z) (zstd : bool) : option response :=
  if negb (Z.of_nat (String.length hash) =? hashLen) then Some (GetErr EBadRequest) else
  if sz <? -1 then Some (GetErr EBadRequest) else
  if kind_eqb k CAS && (sz <=? 0) && String.eqb hash emptySha256 then Some (GetHit 0 0 0) else
  if negb (kind_eqb k CAS) && zstd then Some (GetErr EBadRequest) else
  if off <? 0 then Some (GetErr EBadRequest) else
  if (sz >? 0) && (off >=? sz) then Some (GetErr EBadRequest) else None.

Definition get_fun (c : cfg) (d : dstate) (k : kind) (hash : string) (sz off : Z) (zstd : bool) (b : bget)
    (rnd : string) : dstate * option response :=
  match get_guard k hash sz off zstd with
  | Some r => (d, Some r)
  | None =>
      let key := lookup_key k hash in
      let '(l', g) := LRU.get key (lru d) in
      match g with
      | Some (v, id) =>
          if mismatch sz (size v) then get_proxy_fun c (set_lru l' d) k hash sz b rnd
          else
            match find_file (path_of key v) (files d) with
            | Some f => get_validate_fun c (set_lru l' d) k hash sz b rnd v id f
            | None =>
                (* slow path: look up again, drop the entry if its file is still not there *)
                let '(l2, g2) := LRU.get key l' in
                match g2 with
                | Some (v2, id2) =>
                    match find_file (path_of key v2) (files d) with
                    | Some f => get_validate_fun c (set_lru l2 d) k hash sz b rnd v2 id2 f
                    | None =>
                        match LRU.remove_element id2 l2 with
                        | Some l3 => get_proxy_fun c (set_lru l3 d) k hash sz b rnd
                        | None => get_proxy_fun c (set_lru l2 d) k hash sz b rnd
                        end
                    end
                | None => get_proxy_fun c (set_lru l2 d) k hash sz b rnd
                end
            end
      | None => get_proxy_fun c (set_lru l' d) k hash sz b rnd
      end
  end.

Lemma outcome_cleanup' c req n d r h tm : (2 <= n)%nat ->
  outcome c n d (mkThread req (Cleanup r) h tm) = opt (cleanup_fun d h tm r).
Proof. intros H. rewrite outcome_cleanup by exact H. reflexivity. Qed.

Lemma outcome_get_fetch c d k hash sz off zstd b rnd h n : (7 <= n)%nat ->
  outcome c n d (mkThread (RGet k hash sz off zstd b rnd) GetFetch h None) = get_fetch_fun c d k hash sz b rnd h.
Proof.
  intros Hn. unfold get_fetch_fun.
  destruct n as [|n]; [lia|]. rewrite outcome_S, tstep_get_fetch. cbv zeta.
  destruct b as [| |claimed full delivered berr cid logical]; try (apply outcome_cleanup'; lia).
  destruct (claimed >? c_maxproxy c); [apply outcome_cleanup'; lia|].
  destruct (mismatch sz claimed || (claimed <? 0)); [apply outcome_cleanup'; lia|].
  destruct n as [|n]; [lia|]. rewrite outcome_S, tstep_get_create. cbv zeta.
  destruct (find_file (get_path c k hash claimed rnd) (files d)) as [f0|]; [reflexivity|].
  destruct n as [|n]; [lia|]. rewrite outcome_S, tstep_get_copy. cbv zeta.
  destruct berr; [apply outcome_cleanup'; lia|].
  destruct n as [|n]; [lia|]. rewrite outcome_S, tstep_get_check. cbv zeta.
  assert (HC : forall d3 f,
    outcome c n d3 (mkThread (RGet k hash sz off zstd (BFound claimed full delivered false cid logical) rnd)
                             (GetCommit claimed delivered f) h (Some (get_path c k hash claimed rnd)))
    = opt (get_commit_fun c d3 k hash rnd h (get_path c k hash claimed rnd) claimed delivered f)).
  { intros d3 f. destruct n as [|n]; [lia|]. rewrite outcome_S, tstep_get_commit. cbv zeta.
    unfold get_commit_fun.
    match goal with |- context [if h >? 0 then ?a else ?x] => destruct (if h >? 0 then a else x) as [l1 r1] end.
    destruct r1 as [u|e|s|s]; try (apply outcome_cleanup'; lia).
    match goal with |- context [LRU.add ?a ?x ?y] => destruct (LRU.add a x y) as [l2 r2] end.
    destruct r2 as [[|]|e|s|s]; apply outcome_cleanup'; lia. }
  destruct (get_raw c k).
  - destruct (delivered =? claimed); cbn [negb]; [apply HC|apply outcome_cleanup'; lia].
  - destruct ((delivered =? full) && (logical =? claimed)); [apply HC|apply outcome_cleanup'; lia].
Qed.

Lemma outcome_get_proxy c d k hash sz off zstd b rnd lm n : (8 <= n)%nat ->
  outcome c n d (mkThread (RGet k hash sz off zstd b rnd) (GetProxyDecide lm) 0 None) = get_proxy_fun c d k hash sz b rnd.
Proof.
  intros Hn. unfold get_proxy_fun.
  destruct n as [|n]; [lia|]. rewrite outcome_S, tstep_get_decide.
  destruct (c_proxy c && (sz <=? c_maxproxy c)); [|apply outcome_done; reflexivity].
  destruct (sz >? 0); [|apply outcome_get_fetch; lia].
  destruct (LRU.reserve sz (lru d)) as [l' r].
  destruct r as [u|e|s|s]; try (apply outcome_done; reflexivity). apply outcome_get_fetch; lia.
Qed.

Lemma outcome_get_validate c d k hash sz off zstd b rnd v id f n : (10 <= n)%nat ->
  outcome c n d (mkThread (RGet k hash sz off zstd b rnd) (GetValidate v id f) 0 None)
  = get_validate_fun c d k hash sz b rnd v id f.
Proof.
  intros Hn. unfold get_validate_fun, valid_file, hit_of.
  destruct n as [|n]; [lia|]. rewrite outcome_S, tstep_get_validate.
  destruct (kind_eqb k CAS).
  - destruct (if legacy v then true else f_complete f && ((sz =? -1) || (f_logical f =? sz)));
      [apply outcome_done; reflexivity|].
    destruct n as [|n]; [lia|]. rewrite outcome_S, tstep_get_drop. unfold drop_fun.
    destruct (find_key (lookup_key k hash) (order (lru d))) as [e|]; [|apply outcome_get_proxy; lia].
    destruct (Nat.eqb (eid e) id && item_eqb (evalue (ent e)) v); [|apply outcome_get_proxy; lia].
    destruct (LRU.remove_element id (lru d)); apply outcome_get_proxy; lia.
  - destruct (mismatch sz (f_len f)); cbn [negb]; [apply outcome_get_proxy; lia|apply outcome_done; reflexivity].
Qed.

Theorem exec_get_eq c d k hash sz off zstd b rnd :
  exec c d (RGet k hash sz off zstd b rnd) = get_fun c d k hash sz off zstd b rnd.
Proof.
  rewrite exec_outcome.
  change (spawn (RGet k hash sz off zstd b rnd)) with (mkThread (RGet k hash sz off zstd b rnd) GetStart 0 None).
  change (fuel_for (RGet k hash sz off zstd b rnd)) with (S (S (S 21))).
  rewrite outcome_S, tstep_get_start. unfold get_fun, get_guard. cbv zeta.
  destruct (negb (Z.of_nat (String.length hash) =? hashLen)); [apply outcome_done; reflexivity|].
  destruct (sz <? -1); [apply outcome_done; reflexivity|].
  destruct (kind_eqb k CAS && (sz <=? 0) && String.eqb hash emptySha256); [apply outcome_done; reflexivity|].
  destruct (negb (kind_eqb k CAS) && zstd); [apply outcome_done; reflexivity|].
  destruct (off <? 0); [apply outcome_done; reflexivity|].
  destruct ((sz >? 0) && (off >=? sz)); [apply outcome_done; reflexivity|].
  destruct (LRU.get (lookup_key k hash) (lru d)) as [l' g].
  destruct g as [[v id]|]; [|apply outcome_get_proxy; lia].
  destruct (mismatch sz (size v)); [apply outcome_get_proxy; lia|].
  rewrite outcome_S, tstep_get_open. cbn [files set_lru lru].
  destruct (find_file (path_of (lookup_key k hash) v) (files d)) as [f|]; [apply outcome_get_validate; lia|].
  rewrite outcome_S, tstep_get_slow. cbn [files set_lru lru].
  destruct (LRU.get (lookup_key k hash) l') as [l2 g2].
  destruct g2 as [[v2 id2]|]; [|apply outcome_get_proxy; lia].
  destruct (find_file (path_of (lookup_key k hash) v2) (files d)) as [f|]; [apply outcome_get_validate; lia|].
  destruct (LRU.remove_element id2 l2); apply outcome_get_proxy; lia.
Qed.

(* ------------------------------------------------------------------ *)
(* reads that do not use the backend *)

Ltac conj := repeat match goal with |- _ /\ _ => split end.

(* what the index and the directory hold for this request: an entry whose size is compatible, whose
   file is in place and passes the open-time validation *)
Definition local_hit (l : LRU.state) (fs : list file) (k : kind) (hash : string) (sz : Z) : option (item * file) :=
  match peek (lookup_key k hash) l with
  | Some v =>
      if mismatch sz (size v) then None else
      match find_file (path_of (lookup_key k hash) v) fs with
      | Some f => if valid_file k sz v f then Some (v, f) else None
      | None => None
      end
  | None => None
  end.

(* the index is as before, except that the entry of [key] may have been dropped *)
Definition same_but (key : string) (l l' : LRU.state) : Prop :=
  forall k', peek k' l' = peek k' l \/ (k' = key /\ peek k' l' = None).

Local Transparent LRU.remove_element.
Lemma remove_element_unfold id s :
  LRU.remove_element id s = match find_id id (order s) with Some e => Some (remove_elem e s) | None => None end.
Proof. reflexivity. Qed.
Local Opaque LRU.remove_element.

Lemma item_eqb_refl v : item_eqb v v = true.
Proof. unfold item_eqb. rewrite !Z.eqb_refl, String.eqb_refl, Bool.eqb_reflx. reflexivity. Qed.

Lemma find_id_Some l e : NoDup (map eid l) -> In e l -> find_id (eid e) l = Some e.
Proof.
  induction l as [|x t IH]; simpl; intros ND Hin; [tauto|].
  inversion ND as [|? ? Hn ND']; subst. destruct Hin as [->|Hin].
  - rewrite Nat.eqb_refl. reflexivity.
  - destruct (Nat.eqb (eid x) (eid e)) eqn:E; [|apply IH; assumption].
    apply Nat.eqb_eq in E. exfalso. apply Hn. rewrite E. apply in_map. exact Hin.
Qed.

Lemma find_key_remove_id l e k' : NoDup (map key_of l) -> NoDup (map eid l) -> In e l ->
  find_key k' (remove_id (eid e) l) = if String.eqb (key_of e) k' then None else find_key k' l.
Proof.
  intros Hk Hi Hin. destruct (remove_id_split l e Hi Hin) as (l1 & l2 & H1 & H2). rewrite H2.
  rewrite H1 in Hk |- *. clear H1 H2 Hi Hin. rewrite !find_key_app. simpl. unfold key_of in *.
  rewrite map_app in Hk. simpl in Hk. pose proof (NoDup_remove_2 _ _ _ Hk) as Hn.
  destruct (String.eqb (ekey (ent e)) k') eqn:E.
  - apply String.eqb_eq in E. subst k'.
    rewrite (find_key_notin _ l1), (find_key_notin _ l2); [reflexivity| |];
      intros Hc; apply Hn; apply in_or_app; [right|left]; exact Hc.
  - reflexivity.
Qed.

Lemma cleanup_none_facts d h r d' r' : Inv (lru d) -> cleanup_fun d h None r = (d', r') ->
  files d' = files d /\ handed d' = handed d /\ Inv (lru d') /\ (r' = r \/ r' = fail_of r).
Proof.
  intros HI. unfold cleanup_fun. destruct (h >? 0).
  - pose proof (unreserve_inv h (lru d) HI) as HU. destruct (LRU.unreserve h (lru d)) as [l' ur].
    intros H; inversion H; subst. cbn. conj; try reflexivity; try exact HU. destruct ur; auto.
  - intros H; inversion H; subst. conj; auto.
Qed.

Lemma get_proxy_local c d0 k hash sz b rnd d' r :
  Inv (lru d0) -> (b = BMiss \/ c_proxy c = false) ->
  get_proxy_fun c d0 k hash sz b rnd = (d', r) ->
  (r = Some GetMiss \/ exists e, r = Some (GetErr e)) /\ files d' = files d0 /\ handed d' = handed d0 /\
  Inv (lru d') /\
  (c_proxy c && (sz <=? c_maxproxy c) = false -> r = Some GetMiss /\ d' = d0).
Proof.
  intros HI Hb. unfold get_proxy_fun. destruct (c_proxy c && (sz <=? c_maxproxy c)) eqn:EP.
  - destruct Hb as [->|Hb]; [|rewrite Hb in EP; discriminate].
    assert (HF : forall d1 h, Inv (lru d1) -> get_fetch_fun c d1 k hash sz BMiss rnd h = (d', r) ->
              (r = Some GetMiss \/ exists e, r = Some (GetErr e)) /\ files d' = files d1 /\ handed d' = handed d1 /\ Inv (lru d')).
    { intros d1 h HI1. unfold get_fetch_fun, opt. destruct (cleanup_fun d1 h None GetMiss) as [d2 r2] eqn:EC.
      destruct (cleanup_none_facts _ _ _ _ _ HI1 EC) as (H1 & H2 & H3 & H4). cbn [fst snd].
      intros H; inversion H; subst. split; [|auto]. destruct H4 as [->| ->]; [left; reflexivity|right; eexists; reflexivity]. }
    destruct (sz >? 0).
    + pose proof (reserve_spec sz (lru d0) HI) as HR. destruct (LRU.reserve sz (lru d0)) as [l' r0].
      destruct HR as (HI' & _). destruct r0 as [u|e|s|s].
      * intros H. destruct (HF (set_lru l' d0) _ HI' H) as (H1 & H2 & H3 & H4). conj; try assumption. discriminate.
      * intros H; inversion H; subst. cbn. conj; try reflexivity; try assumption; [right; eexists; reflexivity|discriminate].
      * intros H; inversion H; subst. cbn. conj; try reflexivity; try assumption; [right; eexists; reflexivity|discriminate].
      * intros H; inversion H; subst. cbn. conj; try reflexivity; try assumption; [right; eexists; reflexivity|discriminate].
    + intros H. destruct (HF _ _ HI H) as (H1 & H2 & H3 & H4). conj; try assumption. discriminate.
  - intros H; inversion H; subst. conj; auto.
Qed.

(* the complete description *)
Theorem get_local_spec c d k hash sz off zstd b rnd d' r :
  Inv (lru d) -> (b = BMiss \/ c_proxy c = false) ->
  exec c d (RGet k hash sz off zstd b rnd) = (d', r) ->
  match get_guard k hash sz off zstd with
  | Some g => r = Some g /\ d' = d
  | None =>
      files d' = files d /\ handed d' = handed d /\ Inv (lru d') /\
      match local_hit (lru d) (files d) k hash sz with
      | Some (v, f) => r = Some (hit_of k v f) /\ LruSame (lru d) (lru d')
      | None =>
          (r = Some GetMiss \/ exists e, r = Some (GetErr e)) /\
          (c_proxy c && (sz <=? c_maxproxy c) = false ->
             r = Some GetMiss /\ same_but (lookup_key k hash) (lru d) (lru d'))
      end
  end.
Proof.
  intros HI Hb. rewrite exec_get_eq. unfold get_fun.
  destruct (get_guard k hash sz off zstd) as [g|]; [intros H; inversion H; subst; split; reflexivity|].
  set (key := lookup_key k hash).
  pose proof (get_same key (lru d) HI) as HG. destruct (LRU.get key (lru d)) as [l' g].
  destruct HG as (HI' & HS & Hg). unfold local_hit, peek. fold key.
  (* every path that ends in the proxy decision *)
  assert (HP : forall d0, Inv (lru d0) -> files d0 = files d -> handed d0 = handed d ->
             same_but key (lru d) (lru d0) ->
             get_proxy_fun c d0 k hash sz b rnd = (d', r) ->
             files d' = files d /\ handed d' = handed d /\ Inv (lru d') /\
             (r = Some GetMiss \/ exists e, r = Some (GetErr e)) /\
             (c_proxy c && (sz <=? c_maxproxy c) = false -> r = Some GetMiss /\ same_but key (lru d) (lru d'))).
  { intros d0 HI0 Hf0 Hh0 Hsb H. destruct (get_proxy_local _ _ _ _ _ _ _ _ _ HI0 Hb H) as (H1 & H2 & H3 & H4 & H5).
    split; [congruence|]. split; [congruence|]. split; [exact H4|]. split; [exact H1|].
    intros E. destruct (H5 E) as [H6 H7]. split; [exact H6|]. rewrite H7. exact Hsb. }
  assert (Hsame : forall l2, LruSame (lru d) l2 -> same_but key (lru d) l2).
  { intros l2 H2 k'. left. apply same_peek. exact H2. }
  destruct (find_key key (order (lru d))) as [e|] eqn:EK; subst g.
  2:{ intros H. destruct (HP (set_lru l' d) HI' eq_refl eq_refl (Hsame _ HS) H) as (H1 & H2 & H3 & H4 & H5).
      conj; assumption. }
  pose proof (find_key_In _ _ _ EK) as [Hin Hkey].
  (* dropping the entry *)
  assert (HD : forall l2, Inv l2 -> LruSame (lru d) l2 -> forall l3, LRU.remove_element (eid e) l2 = Some l3 ->
             Inv l3 /\ same_but key (lru d) l3).
  { intros l2 HI2 HS2 l3 HR. split; [eapply remove_element_inv; eassumption|].
    rewrite remove_element_unfold in HR.
    destruct (find_id (eid e) (order l2)) as [e2|] eqn:EI; [|discriminate]. inversion HR; subst l3. clear HR.
    pose proof (find_id_In _ _ _ EI) as [Hin2 Hid2].
    destruct HI2 as ([Hk2 Hi2 _ _ _ _ _ _ _] & _ & _).
    assert (He2 : key_of e2 = key).
    { assert (Hine : In e (order l2)) by (eapply Permutation_in; [apply Permutation_sym, (sm_perm _ _ HS2)|exact Hin]).
      pose proof (find_id_Some _ _ Hi2 Hine) as HX. rewrite EI in HX. inversion HX; subst. exact Hkey. }
    intros k'. unfold peek. cbn [order remove_elem enqueue].
    rewrite (find_key_remove_id _ _ k' Hk2 Hi2 Hin2), He2.
    destruct (String.eqb key k') eqn:E.
    - right. apply String.eqb_eq in E. split; [symmetry; exact E|reflexivity].
    - left. rewrite (sm_find _ _ HS2). reflexivity. }
  (* validation of an opened file *)
  assert (HV : forall l2 f, Inv l2 -> LruSame (lru d) l2 ->
             get_validate_fun c (set_lru l2 d) k hash sz b rnd (evalue (ent e)) (eid e) f = (d', r) ->
             files d' = files d /\ handed d' = handed d /\ Inv (lru d') /\
             (if valid_file k sz (evalue (ent e)) f then r = Some (hit_of k (evalue (ent e)) f) /\ LruSame (lru d) (lru d')
              else (r = Some GetMiss \/ exists e0, r = Some (GetErr e0)) /\
                   (c_proxy c && (sz <=? c_maxproxy c) = false -> r = Some GetMiss /\ same_but key (lru d) (lru d')))).
  { intros l2 f HI2 HS2. unfold get_validate_fun. destruct (valid_file k sz (evalue (ent e)) f).
    - intros H; inversion H; subst. cbn. conj; try reflexivity; assumption.
    - destruct (kind_eqb k CAS).
      + unfold drop_fun. fold key. cbn [lru set_lru]. rewrite (sm_find _ _ HS2), EK, Nat.eqb_refl, item_eqb_refl. cbn [andb].
        destruct (LRU.remove_element (eid e) l2) as [l3|] eqn:ER.
        * destruct (HD l2 HI2 HS2 l3 ER) as [HI3 Hsb3]. intros H.
          destruct (HP (set_lru l3 (set_lru l2 d)) HI3 eq_refl eq_refl Hsb3 H) as (H1 & H2 & H3 & H4 & H5).
          conj; assumption.
        * intros H. destruct (HP (set_lru l2 d) HI2 eq_refl eq_refl (Hsame _ HS2) H) as (H1 & H2 & H3 & H4 & H5).
          conj; assumption.
      + intros H. destruct (HP (set_lru l2 d) HI2 eq_refl eq_refl (Hsame _ HS2) H) as (H1 & H2 & H3 & H4 & H5).
        conj; assumption. }
  destruct (mismatch sz (size (evalue (ent e)))).
  { intros H. destruct (HP (set_lru l' d) HI' eq_refl eq_refl (Hsame _ HS) H) as (H1 & H2 & H3 & H4 & H5).
    conj; assumption. }
  destruct (find_file (path_of key (evalue (ent e))) (files d)) as [f|] eqn:EF.
  { intros H. destruct (HV l' f HI' HS H) as (H1 & H2 & H3 & H4).
    split; [exact H1|]. split; [exact H2|]. split; [exact H3|].
    destruct (valid_file k sz (evalue (ent e)) f); exact H4. }
  (* slow path *)
  pose proof (get_same key l' HI') as HG2. destruct (LRU.get key l') as [l2 g2].
  destruct HG2 as (HI2 & HS2 & Hg2). rewrite (sm_find _ _ HS), EK in Hg2. subst g2. rewrite EF.
  assert (HS02 : LruSame (lru d) l2) by (eapply same_trans; eassumption).
  destruct (LRU.remove_element (eid e) l2) as [l3|] eqn:ER.
  - destruct (HD l2 HI2 HS02 l3 ER) as [HI3 Hsb3]. intros H.
    destruct (HP (set_lru l3 d) HI3 eq_refl eq_refl Hsb3 H) as (H1 & H2 & H3 & H4 & H5). conj; assumption.
  - intros H. destruct (HP (set_lru l2 d) HI2 eq_refl eq_refl (Hsame _ HS02) H) as (H1 & H2 & H3 & H4 & H5).
    conj; assumption.
Qed.

Definition get_shortcut (k : kind) (hash : string) (sz : Z) : Prop := k = CAS /\ sz <= 0 /\ hash = emptySha256.

Lemma kind_eqb_eq a b : kind_eqb a b = true <-> a = b.
Proof. destruct a, b; cbn; split; intros H; try reflexivity; discriminate. Qed.

Lemma get_guard_hit k hash sz off zstd s cid flen :
  get_guard k hash sz off zstd = Some (GetHit s cid flen) -> get_shortcut k hash sz /\ s = 0 /\ cid = 0 /\ flen = 0.
Proof.
  unfold get_guard, get_shortcut.
  destruct (negb (Z.of_nat (String.length hash) =? hashLen)); [discriminate|].
  destruct (sz <? -1); [discriminate|].
  destruct (kind_eqb k CAS && (sz <=? 0) && String.eqb hash emptySha256) eqn:E.
  - intros H; inversion H; subst. apply andb_true_iff in E as [E E3]. apply andb_true_iff in E as [E1 E2].
    apply kind_eqb_eq in E1. apply String.eqb_eq in E3. repeat split; try assumption; lia.
  - destruct (negb (kind_eqb k CAS) && zstd); [discriminate|]. destruct (off <? 0); [discriminate|].
    destruct ((sz >? 0) && (off >=? sz)); discriminate.
Qed.

(* the request passes the guards of [get] and is not the empty-blob shortcut *)
Lemma get_guard_none k hash sz off zstd :
  get_guard k hash sz off zstd = None <->
  Z.of_nat (String.length hash) = hashLen /\ -1 <= sz /\ ~ get_shortcut k hash sz /\ (zstd = true -> k = CAS) /\
  0 <= off /\ (0 < sz -> off < sz).
Proof.
  unfold get_guard, get_shortcut.
  destruct (negb (Z.of_nat (String.length hash) =? hashLen)) eqn:E1.
  { split; [discriminate|]. intros (H & _). apply negb_true_iff in E1. lia. }
  apply negb_false_iff in E1.
  destruct (sz <? -1) eqn:E0; [split; [discriminate|]; intros (_ & H & _); lia|].
  destruct (kind_eqb k CAS && (sz <=? 0) && String.eqb hash emptySha256) eqn:E2.
  { split; [discriminate|]. intros (_ & _ & H & _). exfalso. apply H.
    apply andb_true_iff in E2 as [E E3]. apply andb_true_iff in E as [E1' E2'].
    apply kind_eqb_eq in E1'. apply String.eqb_eq in E3. repeat split; try assumption; lia. }
  assert (HS : ~ (k = CAS /\ sz <= 0 /\ hash = emptySha256)).
  { intros (-> & H2 & ->). cbn in E2. assert (E : (sz <=? 0) = true) by lia. rewrite E in E2. discriminate. }
  destruct (negb (kind_eqb k CAS) && zstd) eqn:E3.
  { split; [discriminate|]. intros (_ & _ & _ & H & _). apply andb_true_iff in E3 as [E3 ->].
    rewrite (H eq_refl) in E3. discriminate. }
  destruct (off <? 0) eqn:E4; [split; [discriminate|]; intros (_ & _ & _ & _ & H & _); lia|].
  destruct ((sz >? 0) && (off >=? sz)) eqn:E5; [split; [discriminate|]; intros (_ & _ & _ & _ & _ & H); lia|].
  split; [|reflexivity]. intros _. split; [lia|]. split; [lia|]. split; [exact HS|]. split; [|lia].
  intros ->. rewrite andb_true_r in E3. apply negb_false_iff in E3. apply kind_eqb_eq. exact E3.
Qed.

Lemma valid_file_iff k sz v f :
  valid_file k sz v f = true <->
  (k = CAS -> legacy v = true \/ (f_complete f = true /\ (sz = -1 \/ f_logical f = sz))) /\
  (k <> CAS -> mismatch sz (f_len f) = false).
Proof.
  unfold valid_file. destruct (kind_eqb k CAS) eqn:E.
  - apply kind_eqb_eq in E. subst k. split.
    + intros H. split; [|congruence]. intros _. destruct (legacy v); [left; reflexivity|right].
      apply andb_true_iff in H as [H1 H2]. split; [exact H1|lia].
    + intros [H _]. destruct (H eq_refl) as [->|[-> H2]]; [reflexivity|]. destruct (legacy v); [reflexivity|]. cbn. lia.
  - assert (Hk : k <> CAS) by (intros ->; discriminate). split.
    + intros H. split; [congruence|]. intros _. apply negb_true_iff. exact H.
    + intros [_ H]. rewrite (H Hk). reflexivity.
Qed.

Lemma local_hit_iff l fs k hash sz v f :
  local_hit l fs k hash sz = Some (v, f) <->
  peek (lookup_key k hash) l = Some v /\ mismatch sz (size v) = false /\
  find_file (path_of (lookup_key k hash) v) fs = Some f /\ valid_file k sz v f = true.
Proof.
  unfold local_hit. split.
  - destruct (peek (lookup_key k hash) l) as [v0|]; [|discriminate].
    destruct (mismatch sz (size v0)) eqn:E1; [discriminate|].
    destruct (find_file (path_of (lookup_key k hash) v0) fs) as [f0|] eqn:E2; [|discriminate].
    destruct (valid_file k sz v0 f0) eqn:E3; [|discriminate].
    intros H; inversion H; subst. repeat split; assumption.
  - intros (-> & -> & -> & ->). reflexivity.
Qed.

(* a hit served without the backend comes from the index entry and its file, which passed the
   open-time validation; nothing but the recency order changes *)
Theorem get_local_hit c d k hash sz off zstd b rnd d' s cid flen :
  Inv (lru d) -> (b = BMiss \/ c_proxy c = false) ->
  exec c d (RGet k hash sz off zstd b rnd) = (d', Some (GetHit s cid flen)) ->
  ~ get_shortcut k hash sz ->
  exists v f,
    peek (lookup_key k hash) (lru d) = Some v /\ mismatch sz (size v) = false /\
    find_file (path_of (lookup_key k hash) v) (files d) = Some f /\
    cid = f_cid f /\ flen = f_len f /\
    (k = CAS -> s = size v /\ (legacy v = true \/ (f_complete f = true /\ (sz = -1 \/ f_logical f = sz)))) /\
    (k <> CAS -> s = f_len f /\ mismatch sz (f_len f) = false) /\
    files d' = files d /\ handed d' = handed d /\ Inv (lru d') /\
    (forall k', peek k' (lru d') = peek k' (lru d)) /\ LruSame (lru d) (lru d').
Proof.
  intros HI Hb H HS. pose proof (get_local_spec _ _ _ _ _ _ _ _ _ _ _ HI Hb H) as HL.
  destruct (get_guard k hash sz off zstd) as [g|] eqn:EG.
  { destruct HL as [HL _]. inversion HL; subst g. apply get_guard_hit in EG. tauto. }
  destruct HL as (Hf & Hh & HI' & HL).
  destruct (local_hit (lru d) (files d) k hash sz) as [[v f]|] eqn:EL.
  2:{ destruct HL as [[HL|[e HL]] _]; discriminate. }
  destruct HL as [Hr HSm]. apply local_hit_iff in EL as (E1 & E2 & E3 & E4).
  apply valid_file_iff in E4 as [V1 V2].
  exists v, f. unfold hit_of in Hr. destruct (kind_eqb k CAS) eqn:EK.
  - apply kind_eqb_eq in EK. inversion Hr; subst. conj; try assumption; try reflexivity.
    + intros _. split; [reflexivity|]. apply V1. reflexivity.
    + intros Hc. congruence.
    + intros k'. apply same_peek. exact HSm.
  - assert (Hk : k <> CAS) by (intros ->; discriminate). inversion Hr; subst. conj; try assumption; try reflexivity.
    + intros Hc. congruence.
    + intros _. split; [reflexivity|]. apply V2. exact Hk.
    + intros k'. apply same_peek. exact HSm.
Qed.

(* conversely: when such an entry and file exist, the read is a hit; when they do not, the read
   (without backend use) is a miss or an error, and without a backend for it always a miss *)
Theorem get_local_complete c d k hash sz off zstd b rnd d' r :
  Inv (lru d) -> (b = BMiss \/ c_proxy c = false) ->
  exec c d (RGet k hash sz off zstd b rnd) = (d', r) ->
  get_guard k hash sz off zstd = None ->
  ((exists v f, local_hit (lru d) (files d) k hash sz = Some (v, f) /\ r = Some (hit_of k v f)) \/
   (local_hit (lru d) (files d) k hash sz = None /\
    (r = Some GetMiss \/ exists e, r = Some (GetErr e)) /\
    (c_proxy c && (sz <=? c_maxproxy c) = false ->
       r = Some GetMiss /\ same_but (lookup_key k hash) (lru d) (lru d')))) /\
  files d' = files d /\ handed d' = handed d /\ Inv (lru d').
Proof.
  intros HI Hb H EG. pose proof (get_local_spec _ _ _ _ _ _ _ _ _ _ _ HI Hb H) as HL. rewrite EG in HL.
  destruct HL as (Hf & Hh & HI' & HL). split; [|conj; assumption].
  destruct (local_hit (lru d) (files d) k hash sz) as [[v f]|].
  - left. exists v, f. split; [reflexivity|apply HL].
  - right. split; [reflexivity|exact HL].
Qed.

(* a request refused by the guards (or the empty blob) touches nothing *)
Theorem get_guarded c d k hash sz off zstd b rnd g :
  get_guard k hash sz off zstd = Some g -> exec c d (RGet k hash sz off zstd b rnd) = (d, Some g).
Proof. intros H. rewrite exec_get_eq. unfold get_fun. rewrite H. reflexivity. Qed.

(* ------------------------------------------------------------------ *)
(* the proxy branch (C12, C18) *)

Local Transparent LRU.get.
Lemma get_absent k s : peek k s = None -> LRU.get k s = (s, None).
Proof. unfold peek, LRU.get. destruct (find_key k (order s)); [discriminate|reflexivity]. Qed.
Local Opaque LRU.get.

Lemma cleanup_resp d h tm r : snd (cleanup_fun d h tm r) = r \/ snd (cleanup_fun d h tm r) = fail_of r.
Proof.
  unfold cleanup_fun. destruct (h >? 0); [|left; reflexivity].
  destruct (LRU.unreserve h _) as [l' ur]. destruct ur; auto.
Qed.

Definition not_hit (r : option response) : Prop := forall s cid flen, r <> Some (GetHit s cid flen).

Lemma cleanup_not_hit d h tm r : (forall s cid flen, r <> GetHit s cid flen) -> not_hit (snd (opt (cleanup_fun d h tm r))).
Proof.
  intros Hr s cid flen. unfold opt. cbn [snd]. destruct (cleanup_resp d h tm r) as [-> | ->].
  - intros H; inversion H. eapply Hr; eassumption.
  - destruct r; discriminate.
Qed.

(* the backend's answer passed every check of the fetch path *)
Definition fetch_checks (c : cfg) (sz : Z) (b : bget) : bool :=
  match b with
  | BFound claimed _ _ _ _ _ => negb (claimed >? c_maxproxy c) && negb (mismatch sz claimed || (claimed <? 0))
  | _ => false
  end.
Definition fetch_valid (c : cfg) (k : kind) (b : bget) : bool :=
  match b with
  | BFound claimed full delivered berr _ logical =>
      negb berr && (if get_raw c k then delivered =? claimed else (delivered =? full) && (logical =? claimed))
  | _ => false
  end.

Lemma fetch_good_iff c k sz b :
  fetch_checks c sz b && fetch_valid c k b = true <->
  match b with BFound claimed _ _ _ _ _ => fetch_good c k sz claimed b | _ => False end.
Proof.
  destruct b as [| |claimed full delivered berr cid logical]; cbn [fetch_checks fetch_valid fetch_good andb];
    [split; [discriminate|tauto]..|].
  fold (get_raw c k). split.
  - intros H. apply andb_true_iff in H as [H1 H2]. apply andb_true_iff in H1 as [H1 H1'].
    apply andb_true_iff in H2 as [H2 H3]. apply negb_true_iff in H1'. apply orb_false_iff in H1' as [H4 H5].
    split; [reflexivity|]. split; [destruct berr; [discriminate|reflexivity]|]. split; [lia|]. split; [exact H4|].
    destruct (get_raw c k); lia.
  - intros (_ & -> & H1 & H2 & H3). rewrite H2. cbn [negb orb andb].
    assert (E1 : (claimed >? c_maxproxy c) = false) by lia. assert (E2 : (claimed <? 0) = false) by lia.
    rewrite E1, E2. cbn [negb andb]. destruct (get_raw c k); lia.
Qed.

Definition bget_ok (b : bget) : Prop :=
  match b with BFound _ _ delivered _ _ _ => 0 <= delivered | _ => True end.

Definition get_item (c : cfg) (k : kind) (claimed delivered : Z) (rnd : string) : item :=
  mkItem claimed delivered rnd (get_legacy c k).

(* every way the fetch can go once the reservation is held *)
Lemma get_fetch_cases c d0 k hash sz b rnd h l1 d' r :
  (if h >? 0 then LRU.unreserve h (lru d0) else (lru d0, Ok tt)) = (l1, Ok tt) ->
  Inv l1 -> bget_ok b ->
  get_fetch_fun c d0 k hash sz b rnd h = (d', r) ->
  match b with
  | BErr => r = Some (GetErr EInternal) /\ d' = mkD l1 (files d0) (handed d0)
  | BMiss => r = Some GetMiss /\ d' = mkD l1 (files d0) (handed d0)
  | BFound claimed full delivered berr cid logical =>
      if negb (fetch_checks c sz b) then r = Some GetMiss /\ d' = mkD l1 (files d0) (handed d0)
      else
        let p := get_path c k hash claimed rnd in
        (find_file p (files d0) <> None /\ r = None /\ d' = d0) \/
        (find_file p (files d0) = None /\
         ((fetch_valid c k b = false /\ r = Some (GetErr EInternal) /\ d' = mkD l1 (files d0) (handed d0)) \/
          (fetch_valid c k b = true /\
           exists l2 r2, LRU.add (lookup_key k hash) (get_item c k claimed delivered rnd) l1 = (l2, r2) /\
             item_ok (get_item c k claimed delivered rnd) /\
             ((r2 = Ok false /\ r = Some (GetErr EInternal) /\ d' = mkD l2 (files d0) (handed d0)) \/
              (r2 = Ok true /\ r = Some (GetHit claimed cid delivered) /\
               d' = mkD l2 (mkFile p cid delivered true logical :: files d0) (handed d0))))))
  end.
Proof.
  intros HU HI1 Hb. unfold get_fetch_fun.
  assert (HC : forall tm r0 d1, lru d1 = lru d0 -> handed d1 = handed d0 ->
            opt (cleanup_fun d1 h tm r0) = (d', r) ->
            r = Some r0 /\ d' = mkD l1 (match tm with Some p => remove_file p (files d1) | None => files d1 end) (handed d0)).
  { intros tm r0 d1 Hl Hh. rewrite (cleanup_fun_ok d1 h tm r0 l1) by (rewrite Hl; exact HU).
    unfold opt. cbn [fst snd]. intros H; inversion H; subst. rewrite Hh. split; reflexivity. }
  destruct b as [| |claimed full delivered berr cid logical].
  - intros H. apply (HC None _ d0 eq_refl eq_refl) in H. exact H.
  - intros H. apply (HC None _ d0 eq_refl eq_refl) in H. exact H.
  - cbn [fetch_checks].
    destruct (claimed >? c_maxproxy c); cbn [negb andb]; [intros H; apply (HC None _ d0 eq_refl eq_refl) in H; exact H|].
    destruct (mismatch sz claimed || (claimed <? 0)) eqn:ECl; cbn [negb];
      [intros H; apply (HC None _ d0 eq_refl eq_refl) in H; exact H|].
    apply orb_false_iff in ECl as [_ ECl].
    cbv zeta. set (p := get_path c k hash claimed rnd).
    destruct (find_file p (files d0)) as [f0|] eqn:EF.
    { intros H; inversion H; subst. left. conj; congruence. }
    intros H. right. split; [reflexivity|]. revert H. unfold set_files. cbn [files lru handed].
    rewrite (put_file_fresh' (mkFile p cid 0 false logical) (files d0)) by exact EF.
    rewrite (put_file_over (mkFile p cid 0 false logical) (mkFile p cid delivered false logical)) by reflexivity.
    cbn [fetch_valid]. destruct berr; cbn [negb andb].
    { intros H. apply (HC (Some p)) in H; [|reflexivity|reflexivity]. cbn [files] in H.
      change p with (f_path (mkFile p cid delivered false logical)) in H at 1. rewrite remove_file_head in H.
      left. conj; try reflexivity; apply H. }
    rewrite (put_file_over (mkFile p cid delivered false logical) (mkFile p cid delivered true logical)) by reflexivity.
    destruct (if get_raw c k then delivered =? claimed else (delivered =? full) && (logical =? claimed)).
    2:{ intros H. apply (HC (Some p)) in H; [|reflexivity|reflexivity]. cbn [files] in H.
        change p with (f_path (mkFile p cid delivered false logical)) in H at 1. rewrite remove_file_head in H.
        left. conj; try reflexivity; apply H. }
    right. split; [reflexivity|]. revert H. unfold get_commit_fun. cbn [lru files handed f_cid f_len]. rewrite HU.
    fold (get_item c k claimed delivered rnd).
    destruct (LRU.add (lookup_key k hash) (get_item c k claimed delivered rnd) l1) as [l2 r2] eqn:EA.
    assert (Hit : item_ok (get_item c k claimed delivered rnd)).
    { unfold item_ok, get_item. cbn. cbn in Hb. split; [|exact Hb].
      (* claimed >= 0 was checked *) lia. }
    exists l2, r2. split; [reflexivity|]. split; [exact Hit|].
    destruct (add_spec _ _ _ _ _ HI1 Hit EA) as (_ & _ & _ & _ & [(-> & _)|(-> & _)]).
    + left. split; [reflexivity|]. revert H.
      unfold cleanup_fun, opt, set_lru, set_files; cbn [lru files handed Z.gtb Z.compare fst snd].
      change p with (f_path (mkFile p cid delivered true logical)) at 1. rewrite remove_file_head.
      intros H; inversion H; subst. split; reflexivity.
    + right. split; [reflexivity|]. revert H.
      unfold cleanup_fun, opt, set_lru, set_files; cbn [lru files handed Z.gtb Z.compare fst snd].
      intros H; inversion H; subst. split; reflexivity.
Qed.

(* every way the proxy branch can go, in an invariant index state *)
Lemma get_proxy_cases c d0 k hash sz b rnd d' r :
  Inv (lru d0) -> bget_ok b ->
  get_proxy_fun c d0 k hash sz b rnd = (d', r) ->
  (c_proxy c && (sz <=? c_maxproxy c) = false /\ d' = d0 /\ r = Some GetMiss) \/
  (c_proxy c = true /\ sz <= c_maxproxy c /\
   ((0 < sz /\ exists e, snd (LRU.reserve sz (lru d0)) = Err e /\
               d' = mkD (reserved_index d0 sz) (files d0) (handed d0) /\ r = Some (GetErr e)) \/
    ((0 < sz -> snd (LRU.reserve sz (lru d0)) = Ok tt) /\
     exists d1, lru d1 = reserved_index d0 sz /\ files d1 = files d0 /\ handed d1 = handed d0 /\
       get_fetch_fun c d1 k hash sz b rnd (if sz >? 0 then sz else 0) = (d', r)))).
Proof.
  intros HI Hb. unfold get_proxy_fun. destruct (c_proxy c && (sz <=? c_maxproxy c)) eqn:EP.
  2:{ intros H; inversion H; subst. left. conj; reflexivity. }
  intros H. apply andb_true_iff in EP as [EP1 EP2]. right. split; [exact EP1|]. split; [lia|].
  revert H. unfold reserved_index. destruct (sz >? 0) eqn:G.
  - destruct (LRU.reserve sz (lru d0)) as [l' r0] eqn:ER.
    pose proof (limit_never_other sz (lru d0) HI) as HN. rewrite ER in HN. cbn [snd] in HN.
    destruct r0 as [[]|e|s|s]; try contradiction.
    + intros H. right. split; [intros _; reflexivity|]. exists (set_lru l' d0). conj; try reflexivity. exact H.
    + intros H; inversion H; subst. left. split; [lia|]. exists e. conj; reflexivity.
  - intros H. right. split; [lia|]. exists d0. conj; try reflexivity. exact H.
Qed.

(* C12: whatever the backend does, a hit for a key that was absent locally is a validated backend
   object, reported with its announced size and served from the bytes that were delivered *)
Theorem get_faults_safe c d k hash sz off zstd b rnd d' s cid flen :
  peek (lookup_key k hash) (lru d) = None ->
  exec c d (RGet k hash sz off zstd b rnd) = (d', Some (GetHit s cid flen)) ->
  (get_shortcut k hash sz /\ s = 0 /\ cid = 0 /\ flen = 0) \/
  (exists claimed full delivered cid' logical,
     b = BFound claimed full delivered false cid' logical /\ fetch_good c k sz claimed b /\
     s = claimed /\ cid = cid' /\ flen = delivered /\ c_proxy c = true /\ sz <= c_maxproxy c).
Proof.
  intros Hab. rewrite exec_get_eq. unfold get_fun.
  destruct (get_guard k hash sz off zstd) as [g|] eqn:EG.
  { intros H; inversion H; subst. left. apply get_guard_hit in EG. exact EG. }
  rewrite (get_absent _ _ Hab). unfold get_proxy_fun. intros H. right.
  destruct (c_proxy c && (sz <=? c_maxproxy c)) eqn:EP; [|inversion H].
  apply andb_true_iff in EP as [EP1 EP2].
  assert (HF : forall d1 h, get_fetch_fun c d1 k hash sz b rnd h = (d', Some (GetHit s cid flen)) ->
     exists claimed full delivered cid' logical,
       b = BFound claimed full delivered false cid' logical /\ fetch_good c k sz claimed b /\
       s = claimed /\ cid = cid' /\ flen = delivered).
  { clear H. intros d1 h. unfold get_fetch_fun.
    assert (HN : forall d2 h tm r0, (forall s cid flen, r0 <> GetHit s cid flen) ->
                 opt (cleanup_fun d2 h tm r0) = (d', Some (GetHit s cid flen)) -> False).
    { clear h. intros d2 h tm r0 Hr H. pose proof (cleanup_not_hit d2 h tm r0 Hr s cid flen) as HX.
      rewrite H in HX. apply HX. reflexivity. }
    destruct b as [| |claimed full delivered berr cid' logical];
      try (intros H; exfalso; eapply HN; [|exact H]; discriminate).
    destruct (claimed >? c_maxproxy c) eqn:E1; [intros H; exfalso; eapply HN; [|exact H]; discriminate|].
    destruct (mismatch sz claimed || (claimed <? 0)) eqn:E2; [intros H; exfalso; eapply HN; [|exact H]; discriminate|].
    cbv zeta. destruct (find_file _ (files d1)); [discriminate|].
    destruct berr; [intros H; exfalso; eapply HN; [|exact H]; discriminate|].
    destruct (if get_raw c k then delivered =? claimed else (delivered =? full) && (logical =? claimed)) eqn:E3;
      [|intros H; exfalso; eapply HN; [|exact H]; discriminate].
    unfold get_commit_fun.
    match goal with |- context [if h >? 0 then ?a else ?x] => destruct (if h >? 0 then a else x) as [l1 r1] end.
    destruct r1 as [u|e|s0|s0]; try (intros H; exfalso; eapply HN; [|exact H]; discriminate).
    match goal with |- context [LRU.add ?a ?x ?y] => destruct (LRU.add a x y) as [l2 r2] end.
    destruct r2 as [[|]|e|s0|s0]; try (intros H; exfalso; eapply HN; [|exact H]; discriminate).
    unfold cleanup_fun, opt. cbn [Z.gtb Z.compare fst snd f_cid f_len]. intros H; inversion H; subst.
    exists s, full, flen, cid, logical. conj; try reflexivity.
    pose proof (proj1 (fetch_good_iff c k sz (BFound s full flen false cid logical))) as HG.
    apply HG. cbn [fetch_checks fetch_valid negb andb]. rewrite E1, E2, E3. reflexivity. }
  destruct (sz >? 0).
  - destruct (LRU.reserve sz _) as [l' r0]. destruct r0 as [u|e|s0|s0]; try (inversion H; fail).
    destruct (HF _ _ H) as (cl & fu & de & ci & lo & H1 & H2 & H3 & H4 & H5).
    exists cl, fu, de, ci, lo. conj; try assumption. lia.
  - destruct (HF _ _ H) as (cl & fu & de & ci & lo & H1 & H2 & H3 & H4 & H5).
    exists cl, fu, de, ci, lo. conj; try assumption. lia.
Qed.

Lemma peek_none_suffix' k s s' ev : order s = ev ++ order s' -> peek k s = None -> peek k s' = None.
Proof. apply peek_none_suffix. Qed.

(* the state and answer of a fetch for a key that is absent locally, all cases *)
Theorem get_absent_cases c d k hash sz off zstd b rnd d' r :
  Inv (lru d) -> bget_ok b -> get_guard k hash sz off zstd = None ->
  peek (lookup_key k hash) (lru d) = None ->
  exec c d (RGet k hash sz off zstd b rnd) = (d', r) ->
  get_proxy_fun c d k hash sz b rnd = (d', r).
Proof.
  intros HI Hb EG Hab. rewrite exec_get_eq. unfold get_fun. rewrite EG, (get_absent _ _ Hab).
  destruct d; exact (fun H => H).
Qed.


(* what a fetch does once the reservation is held, in terms of the state before the request *)
Definition fetch_outcome (c : cfg) (d : dstate) (k : kind) (hash : string) (sz : Z) (b : bget) (rnd : string)
    (d' : dstate) (r : option response) : Prop :=
  let l1 := commit_index d sz in
  match b with
  | BErr => r = Some (GetErr EInternal) /\ d' = mkD l1 (files d) (handed d)
  | BMiss => r = Some GetMiss /\ d' = mkD l1 (files d) (handed d)
  | BFound claimed full delivered berr cid logical =>
      if negb (fetch_checks c sz b) then r = Some GetMiss /\ d' = mkD l1 (files d) (handed d)
      else
        let p := get_path c k hash claimed rnd in
        (find_file p (files d) <> None /\ r = None /\ d' = mkD (reserved_index d sz) (files d) (handed d)) \/
        (find_file p (files d) = None /\
         ((fetch_valid c k b = false /\ r = Some (GetErr EInternal) /\ d' = mkD l1 (files d) (handed d)) \/
          (fetch_valid c k b = true /\
           exists l2 r2, LRU.add (lookup_key k hash) (get_item c k claimed delivered rnd) l1 = (l2, r2) /\
             item_ok (get_item c k claimed delivered rnd) /\
             ((r2 = Ok false /\ r = Some (GetErr EInternal) /\ d' = mkD l2 (files d) (handed d)) \/
              (r2 = Ok true /\ r = Some (GetHit claimed cid delivered) /\
               d' = mkD l2 (mkFile p cid delivered true logical :: files d) (handed d))))))
  end.

Theorem get_absent_spec c d k hash sz off zstd b rnd d' r :
  Inv (lru d) -> bget_ok b -> get_guard k hash sz off zstd = None ->
  peek (lookup_key k hash) (lru d) = None ->
  exec c d (RGet k hash sz off zstd b rnd) = (d', r) ->
  (c_proxy c && (sz <=? c_maxproxy c) = false /\ d' = d /\ r = Some GetMiss) \/
  (c_proxy c = true /\ sz <= c_maxproxy c /\
   ((0 < sz /\ exists e, snd (LRU.reserve sz (lru d)) = Err e /\
               d' = mkD (reserved_index d sz) (files d) (handed d) /\ r = Some (GetErr e)) \/
    ((0 < sz -> snd (LRU.reserve sz (lru d)) = Ok tt) /\ fetch_outcome c d k hash sz b rnd d' r))).
Proof.
  intros HI Hb EG Hab H.
  apply (get_absent_cases _ _ _ _ _ _ _ _ _ _ _ HI Hb EG Hab) in H.
  destruct (get_proxy_cases _ _ _ _ _ _ _ _ _ HI Hb H)
    as [HA|(EP1 & EP2 & [HB|(Hres & d1 & Hl1 & Hf1 & Hh1 & HF)])]; [left; exact HA|right..].
  { split; [exact EP1|]. split; [exact EP2|]. left. exact HB. }
  split; [exact EP1|]. split; [exact EP2|]. right. split; [exact Hres|].
  destruct (commit_index_spec d sz HI Hres) as (HI1 & _ & _ & _ & _ & _ & HU).
  assert (HU' : (if (if sz >? 0 then sz else 0) >? 0 then LRU.unreserve (if sz >? 0 then sz else 0) (lru d1)
                 else (lru d1, Ok tt)) = (commit_index d sz, Ok tt)).
  { rewrite Hl1. destruct (sz >? 0) eqn:G; [rewrite G|]; exact HU. }
  pose proof (get_fetch_cases c d1 k hash sz b rnd _ _ _ _ HU' HI1 Hb HF) as HC.
  assert (Hd1 : d1 = mkD (reserved_index d sz) (files d) (handed d)) by (destruct d1; cbn in *; congruence).
  unfold fetch_outcome. rewrite Hf1, Hh1 in HC.
  destruct b as [| |claimed full delivered berr cid logical]; try exact HC.
  destruct (negb (fetch_checks c sz (BFound claimed full delivered berr cid logical))); [exact HC|].
  cbv zeta in *. destruct HC as [(H1 & H2 & H3)|HC]; [left|right; exact HC].
  split; [exact H1|]. split; [exact H2|]. rewrite H3. exact Hd1.
Qed.

(* C12: a failed or refused fetch leaves no trace: nothing becomes present, the reservation is
   returned, the directory is as before *)
Theorem get_no_poison c d k hash sz off zstd b rnd d' r :
  Inv (lru d) -> bget_ok b ->
  peek (lookup_key k hash) (lru d) = None ->
  exec c d (RGet k hash sz off zstd b rnd) = (d', Some r) ->
  (r = GetMiss \/ exists e, r = GetErr e) ->
  Inv (lru d') /\ res (lru d') = res (lru d) /\ files d' = files d /\ handed d' = handed d /\
  (forall k', peek k' (lru d) = None -> peek k' (lru d') = None).
Proof.
  intros HI Hb Hab H Hr.
  destruct (get_guard k hash sz off zstd) as [g|] eqn:EG.
  { rewrite (get_guarded c d k hash sz off zstd b rnd g EG) in H. inversion H; subst. conj; auto. }
  destruct (get_absent_spec _ _ _ _ _ _ _ _ _ _ _ HI Hb EG Hab H)
    as [(_ & -> & _)|(EP1 & EP2 & [(Hsz & e & ER & -> & _)|(Hres & HF)])].
  - conj; auto.
  - cbn [lru files handed]. unfold reserved_index. assert (G : (sz >? 0) = true) by lia. rewrite G.
    pose proof (limit_refusal_pure sz (lru d) e HI ER) as (Ho & _ & _ & Hrs & _).
    pose proof (reserve_inv sz (lru d) HI) as [HI' _].
    conj; try assumption; try reflexivity. intros k'. unfold peek. rewrite Ho. auto.
  - destruct (commit_index_spec d sz HI Hres) as (HI1 & _ & Hr1 & _ & _ & (ev & Hev) & _).
    assert (B3 : forall k', peek k' (lru d) = None -> peek k' (commit_index d sz) = None).
    { intros k'. apply (peek_none_suffix _ _ _ _ Hev). }
    unfold fetch_outcome in HF. cbv zeta in HF.
    destruct b as [| |claimed full delivered berr cid logical].
    + destruct HF as [_ ->]. cbn [lru files handed]. conj; auto.
    + destruct HF as [_ ->]. cbn [lru files handed]. conj; auto.
    + destruct (negb (fetch_checks c sz (BFound claimed full delivered berr cid logical))).
      { destruct HF as [_ ->]. cbn [lru files handed]. conj; auto. }
      destruct HF as [(_ & Hx & _)|(Hfresh & [(_ & _ & ->)|(_ & l2 & r2 & EA & Hit & [(-> & _ & ->)|(_ & Hx & _)])])];
        try discriminate.
      * cbn [lru files handed]. conj; auto.
      * destruct (add_spec _ _ _ _ _ HI1 Hit EA) as (HI2 & Hr2 & _ & _ & [(_ & Ho & _)|(Hx & _)]); [|discriminate].
        cbn [lru files handed]. conj; try assumption; try reflexivity; [congruence|].
        intros k' Hk. pose proof (B3 k' Hk) as Hk1. unfold peek in *. rewrite Ho. exact Hk1.
      * inversion Hx; subst. destruct Hr as [Hr|[e Hr]]; discriminate.
Qed.

Lemma is_cas_key_lookup k hash : is_cas_key (lookup_key k hash) = kind_eqb k CAS.
Proof. destruct k; destruct hash; reflexivity. Qed.

Lemma path_of_get_item c k hash claimed delivered rnd :
  path_of (lookup_key k hash) (get_item c k claimed delivered rnd) = get_path c k hash claimed rnd.
Proof. unfold path_of, get_path, get_item. cbn [legacy size random]. rewrite is_cas_key_lookup. reflexivity. Qed.

(* the conditions of a faithful read-through *)
Record read_through_ok (c : cfg) (d : dstate) (k : kind) (hash : string) (sz off : Z) (zstd : bool)
    (claimed full cid logical : Z) (rnd : string) : Prop := {
  rt_guard : get_guard k hash sz off zstd = None;
  rt_absent : peek (lookup_key k hash) (lru d) = None;
  rt_proxy : c_proxy c = true;
  rt_limit : sz <= c_maxproxy c;
  rt_claimed : 0 <= claimed <= c_maxproxy c;
  rt_size : mismatch sz claimed = false;
  rt_full : 0 <= full;
  (* complete and consistent: raw objects have the announced length, compressed CAS objects state
     the announced size in their header *)
  rt_consistent : if get_raw c k then full = claimed else logical = claimed;
  rt_fresh : find_file (get_path c k hash claimed rnd) (files d) = None;
  rt_space : 0 < sz -> sz <= maxs (lru d) /\ sz + res (lru d) <= maxs (lru d) /\
                       (hard (lru d) <= 0 \/ cur (lru d) + qbytes (lru d) + sz <= hard (lru d));
  rt_fits : res (lru d) + roundUp4k full <= maxs (lru d) }.

(* C12: an object the backend holds and delivers completely is served as it is, and indexed *)
Theorem get_read_through c d k hash sz off zstd claimed full cid logical rnd :
  Inv (lru d) -> read_through_ok c d k hash sz off zstd claimed full cid logical rnd ->
  exists d',
    exec c d (RGet k hash sz off zstd (BFound claimed full full false cid logical) rnd)
      = (d', Some (GetHit claimed cid full)) /\
    Inv (lru d') /\
    peek (lookup_key k hash) (lru d') = Some (get_item c k claimed full rnd) /\
    files d' = mkFile (get_path c k hash claimed rnd) cid full true logical :: files d /\
    handed d' = handed d /\ res (lru d') = res (lru d).
Proof.
  intros HI [EG Hab EP1 EP2 Hcl Hmm Hfull Hcons Hfresh Hspace Hfits].
  set (b := BFound claimed full full false cid logical).
  assert (Hb : bget_ok b) by exact Hfull.
  destruct (exec c d (RGet k hash sz off zstd b rnd)) as [d' r] eqn:E. exists d'.
  assert (Hres : 0 < sz -> snd (LRU.reserve sz (lru d)) = Ok tt).
  { intros Hsz. destruct (Hspace Hsz) as (H1 & H2 & H3). apply (limit_admission sz (lru d) HI Hsz H1 H2). exact H3. }
  assert (Hchk : fetch_checks c sz b = true).
  { cbn [fetch_checks b]. rewrite Hmm. cbn [orb]. lia. }
  assert (Hval : fetch_valid c k b = true).
  { cbn [fetch_valid b negb andb]. destruct (get_raw c k); lia. }
  destruct (get_absent_spec _ _ _ _ _ _ _ _ _ _ _ HI Hb EG Hab E)
    as [(Hx & _)|(_ & _ & [(Hsz & e & ER & _)|(_ & HF)])].
  { rewrite EP1 in Hx. cbn in Hx. lia. }
  { rewrite (Hres Hsz) in ER. discriminate. }
  unfold fetch_outcome in HF. cbv zeta in HF. fold b in HF. rewrite Hchk in HF. cbn [negb] in HF. rewrite Hval in HF.
  destruct HF as [(Hx & _)|(_ & [(Hx & _)|(_ & l2 & r2 & EA & Hit & HF)])]; [contradiction|discriminate|].
  destruct (commit_index_spec d sz HI Hres) as (HI1 & _ & Hr1 & Hm1 & _ & (ev & Hev) & _).
  assert (Hab1 : find_key (lookup_key k hash) (order (commit_index d sz)) = None).
  { pose proof (peek_none_suffix _ _ _ _ Hev Hab) as HX. unfold peek in HX.
    destruct (find_key (lookup_key k hash) (order (commit_index d sz))); [discriminate|reflexivity]. }
  assert (HA : snd (LRU.add (lookup_key k hash) (get_item c k claimed full rnd) (commit_index d sz)) = Ok true).
  { pose proof (roundUp4k_nonneg _ Hfull) as Hnn. assert (H0 : 0 <= res (lru d)) by (destruct HI as ([] & _); assumption).
    apply add_ok; [exact HI1|exact Hit|rewrite Hm1; cbn; lia|].
    unfold add_delta. rewrite Hab1, Hr1, Hm1. cbn. lia. }
  rewrite EA in HA. cbn [snd] in HA. subst r2.
  destruct HF as [(Hx & _)|(_ & -> & ->)]; [discriminate|].
  destruct (present_after_add _ _ _ _ HI1 Hit EA) as [_ Hp]. { rewrite Hr1, Hm1. exact Hfits. }
  destruct (add_spec _ _ _ _ _ HI1 Hit EA) as (HI2 & Hr2 & _).
  cbn [lru files handed]. conj; try assumption; try reflexivity. congruence.
Qed.

(* … and a second read of the same key is then a local hit with the same content *)
Theorem get_read_through_cached c d k hash sz off zstd claimed full cid logical rnd d' b2 rnd2 :
  Inv (lru d) -> read_through_ok c d k hash sz off zstd claimed full cid logical rnd ->
  exec c d (RGet k hash sz off zstd (BFound claimed full full false cid logical) rnd)
    = (d', Some (GetHit claimed cid full)) ->
  exists d2, exec c d' (RGet k hash sz off zstd b2 rnd2) = (d2, Some (GetHit claimed cid full)) /\
             files d2 = files d' /\ forall k', peek k' (lru d2) = peek k' (lru d').
Proof.
  intros HI Hrt E. destruct (get_read_through c d k hash sz off zstd claimed full cid logical rnd HI Hrt)
    as (d1 & E1 & HI' & Hp & Hf & _). rewrite E in E1. inversion E1; subst d1. clear E1.
  destruct Hrt as [EG Hab EP1 EP2 Hcl Hmm Hfull Hcons Hfresh Hspace Hfits].
  pose proof (proj1 (get_guard_none k hash sz off zstd) EG) as (_ & Hsz1 & _).
  (* the entry and its file pass the local checks, so the backend is never consulted *)
  set (v := get_item c k claimed full rnd). set (f := mkFile (get_path c k hash claimed rnd) cid full true logical).
  assert (HV : valid_file k sz v f = true).
  { unfold valid_file, v, f, get_item. cbn [legacy f_complete f_logical f_len]. unfold get_legacy.
    unfold get_raw in Hcons. unfold mismatch in Hmm.
    destruct (kind_eqb k CAS); cbn [andb negb orb] in *.
    - destruct (c_zstd c); cbn [negb] in *; [|reflexivity]. lia.
    - subst full. unfold mismatch. lia. }
  assert (HH : hit_of k v f = GetHit claimed cid full).
  { unfold hit_of, v, f, get_item. cbn [size f_cid f_len]. unfold get_raw in Hcons.
    destruct (kind_eqb k CAS); [reflexivity|]. cbn in Hcons. subst full. reflexivity. }
  assert (HL : local_hit (lru d') (files d') k hash sz = Some (v, f)).
  { apply local_hit_iff. split; [exact Hp|]. split; [exact Hmm|]. split; [|exact HV].
    fold v. unfold v. rewrite path_of_get_item, Hf.
    change (get_path c k hash claimed rnd) with (f_path f). apply find_file_head. }
  rewrite exec_get_eq. unfold get_fun. rewrite EG.
  pose proof (get_same (lookup_key k hash) (lru d') HI') as HG.
  destruct (LRU.get (lookup_key k hash) (lru d')) as [l' g]. destruct HG as (HI2 & HS2 & Hg).
  unfold peek in Hp. destruct (find_key (lookup_key k hash) (order (lru d'))) as [e|]; [|discriminate].
  inversion Hp as [Hv]. subst g. rewrite Hv. fold v. unfold v at 1. cbn [size get_item]. rewrite Hmm.
  apply local_hit_iff in HL as (_ & _ & HF & _). rewrite HF. unfold get_validate_fun. rewrite HV, HH.
  exists (set_lru l' d'). conj; try reflexivity. intros k'. cbn [lru set_lru]. apply same_peek. exact HS2.
Qed.

(* ------------------------------------------------------------------ *)
(* C18, for every interleaving: a fetch is only ever under way for a request whose own size is
   within max_proxy_blob_size (thread-local invariant), and only objects whose announced size is
   within it are committed ([fetch_commit_sound]) *)

Definition proxy_ok (c : cfg) (t : thread) : Prop :=
  match t_req t with
  | RGet k hash sz off zstd b rnd =>
      match t_pc t with
      | GetFetch | GetCreate _ | GetCopy _ | GetCheck _ | GetCommit _ _ _ => c_proxy c = true /\ sz <= c_maxproxy c
      | _ => True
      end
  | _ => True
  end.

Ltac fin_proxy :=
  intros H; inversion H; subst; cbn; try tauto;
  try (intros _; match goal with E : _ && (_ <=? _) = true |- _ => apply andb_true_iff in E as [? ?]; split; [assumption|lia] end).

Lemma tstep_proxy_ok c d t d' t' : tstep c d t = Some (d', t') -> proxy_ok c t -> proxy_ok c t'.
Proof.
  unfold tstep, proxy_ok. destruct t as [req p held tmp]. cbn [t_req t_pc t_held t_tmp].
  destruct req as [k hash sz st rnd|k hash sz off zstd b rnd|k hash sz b|ds bs ff].
  - intros H _. rewrite (tstep_req _ _ _ _ _ H). exact I.
  - destruct p; try (intros H; discriminate H); break_step; fin_proxy.
  - intros H _. rewrite (tstep_req _ _ _ _ _ H). exact I.
  - intros H _. rewrite (tstep_req _ _ _ _ _ H). exact I.
Qed.

Lemma spawn_proxy_ok c r : proxy_ok c (spawn r).
Proof. destruct r; cbn; exact I. Qed.

Lemma sstep_proxy_ok c s l : Forall (proxy_ok c) (thr s) -> Forall (proxy_ok c) (thr (sstep c s l)).
Proof.
  intros HF. destruct l as [r|i|]; cbn.
  - apply Forall_app; split; [exact HF|]. constructor; [apply spawn_proxy_ok|constructor].
  - destruct (nth_error (thr s) i) as [t|] eqn:E; [|exact HF].
    destruct (tstep c (sd s) t) as [[d' t']|] eqn:E2; [|exact HF]. cbn.
    apply Forall_upd_nth; [exact HF|]. eapply tstep_proxy_ok; [exact E2|].
    rewrite Forall_forall in HF. apply HF. eapply nth_error_In; exact E.
  - destruct (evictor_step (sd s)); exact HF.
Qed.

Lemma srun_proxy_ok c ls : forall s, Forall (proxy_ok c) (thr s) -> Forall (proxy_ok c) (thr (srun c s ls)).
Proof. induction ls as [|l t IH]; intros s H; cbn; [exact H|]. apply IH, sstep_proxy_ok, H. Qed.

Theorem proxy_commit_within_limits c mx hd ls t k hash sz off zstd b rnd cl od f :
  In t (thr (srun c (sinit mx hd) ls)) -> t_req t = RGet k hash sz off zstd b rnd ->
  t_pc t = GetCommit cl od f ->
  c_proxy c = true /\ sz <= c_maxproxy c /\ 0 <= cl <= c_maxproxy c /\ fetch_good c k sz cl b.
Proof.
  intros Hin Hreq Hpc.
  pose proof (fetch_commit_sound c mx hd ls t k hash sz off zstd b rnd cl od f Hin Hreq Hpc) as HG.
  assert (HF : Forall (proxy_ok c) (thr (srun c (sinit mx hd) ls))) by (apply srun_proxy_ok; constructor).
  rewrite Forall_forall in HF. specialize (HF t Hin). unfold proxy_ok in HF. rewrite Hreq, Hpc in HF.
  destruct HF as [H1 H2]. split; [exact H1|]. split; [exact H2|]. split; [|exact HG].
  unfold fetch_good in HG. destruct b; try contradiction. tauto.
Qed.

(* reads that do not use the backend never hand anything to the backend queue *)
Lemma get_local_handed c d k hash sz off zstd b rnd d' r :
  Inv (lru d) -> (b = BMiss \/ c_proxy c = false) ->
  exec c d (RGet k hash sz off zstd b rnd) = (d', r) -> handed d' = handed d.
Proof.
  intros HI Hb H. pose proof (get_local_spec c d k hash sz off zstd b rnd d' r HI Hb H) as HL.
  destruct (get_guard k hash sz off zstd); [destruct HL as [_ ->]; reflexivity|apply HL].
Qed.
