(* Proofs/ActionResult_validate.v — the validator against an independent declarative
   specification of a well-formed ActionResult (REAPI field documentation + the text of C11):
   soundness, completeness, totality (no nil dereference), stability under the worker-metadata
   change, and the dependency walk. *)
From BR Require Import Base.Prelude Gen.Consts Model.ActionResult.
Open Scope string_scope.
Open Scope list_scope.
Open Scope Z_scope.

(* ------------------------------------------------------------------ *)
(* the specification *)

Definition LowerHex (c : ascii) : Prop :=
  (48 <= N_of_ascii c <= 57 \/ 97 <= N_of_ascii c <= 102)%N.        (* '0'..'9' or 'a'..'f' *)
Inductive AllChars (P : ascii -> Prop) : string -> Prop :=
| AllChars_nil : AllChars P EmptyString
| AllChars_cons c t : P c -> AllChars P t -> AllChars P (String c t).
Definition IsHash (h : string) : Prop := String.length h = 64%nat /\ AllChars LowerHex h.

Definition DigestWF (d : digest) : Prop := IsHash (hash d) /\ 0 <= size_bytes d.
Definition Absolute (p : string) : Prop := exists t, p = String "/"%char t.
Definition RelPath (p : string) : Prop := p <> "" /\ ~ Absolute p.

(* an element of a repeated field: present and satisfying P *)
Definition Present {A} (P : A -> Prop) (o : option A) : Prop := exists a, o = Some a /\ P a.
(* an optional digest: if present, well formed *)
Definition OptDigestWF (o : option digest) : Prop := forall d, o = Some d -> DigestWF d.

(* OutputFile: path relative and non-empty, digest required *)
Definition FileWF (f : output_file) : Prop :=
  RelPath (of_path f) /\ Present DigestWF (of_digest f).
(* OutputDirectory: path relative (the empty path names the output root), tree digest required *)
Definition DirWF (d : output_dir) : Prop :=
  ~ Absolute (od_path d) /\ Present DigestWF (od_tree d).
(* OutputSymlink: path relative and non-empty, target non-empty *)
Definition SymlinkWF (s : output_symlink) : Prop :=
  RelPath (sl_path s) /\ sl_target s <> "".

Record WellFormed (ar : action_result) : Prop := mkWF {
  wf_files : Forall (Present FileWF) (ar_files ar);
  wf_dirs : Forall (Present DirWF) (ar_dirs ar);
  wf_fsyms : Forall (Present SymlinkWF) (ar_file_symlinks ar);
  wf_syms : Forall (Present SymlinkWF) (ar_symlinks ar);
  wf_dsyms : Forall (Present SymlinkWF) (ar_dir_symlinks ar);
  wf_stdout : OptDigestWF (ar_stdout_digest ar);
  wf_stderr : OptDigestWF (ar_stderr_digest ar) }.

(* ------------------------------------------------------------------ *)
(* strings *)

Lemma lower_hex_spec c : lower_hex c = true <-> LowerHex c.
Proof. unfold lower_hex, LowerHex. cbv zeta. lia. Qed.

Lemma all_hex_spec s : all_hex s = true <-> AllChars LowerHex s.
Proof.
  induction s as [|c t IH]; simpl; split; intros H.
  - constructor.
  - reflexivity.
  - apply andb_true_iff in H as [H1 H2]. constructor; [apply lower_hex_spec; exact H1|apply IH; exact H2].
  - inversion H; subst. apply andb_true_iff; split; [apply lower_hex_spec; assumption|apply IH; assumption].
Qed.

Lemma is_hash_spec h : is_hash h = true <-> IsHash h.
Proof.
  unfold is_hash, IsHash, slen. rewrite andb_true_iff, all_hex_spec. split; intros [H1 H2]; split; try exact H2; lia.
Qed.

Lemma starts_slash_spec p : starts_slash p = true <-> Absolute p.
Proof.
  unfold starts_slash, Absolute. destruct p as [|c t]; split; intros H.
  - discriminate.
  - destruct H as [t H]; discriminate.
  - apply Ascii.eqb_eq in H; subst. exists t; reflexivity.
  - destruct H as [t' H]. inversion H; subst. apply Ascii.eqb_refl.
Qed.

Lemma str_empty_spec s : str_empty s = true <-> s = "".
Proof. unfold str_empty. apply String.eqb_eq. Qed.

Lemma str_empty_false s : str_empty s = false <-> s <> "".
Proof. rewrite <- str_empty_spec. destruct (str_empty s); split; congruence. Qed.

Lemma starts_slash_false p : starts_slash p = false <-> ~ Absolute p.
Proof. rewrite <- starts_slash_spec. destruct (starts_slash p); split; congruence. Qed.

(* ------------------------------------------------------------------ *)
(* maybeNilDigest *)

Lemma maybe_nil_digest_total d : exists e, maybe_nil_digest d = Ok e.
Proof.
  destruct d as [g|]; unfold maybe_nil_digest; simpl; [|eexists; reflexivity].
  destruct (size_bytes g <? 0); [eexists; reflexivity|].
  destruct (negb (is_hash (hash g))); eexists; reflexivity.
Qed.

Lemma maybe_nil_digest_ok d : maybe_nil_digest d = Ok None <-> OptDigestWF d.
Proof.
  unfold OptDigestWF. destruct d as [g|]; unfold maybe_nil_digest; simpl.
  - split.
    + intros H d E; inversion E; subst d. unfold DigestWF.
      destruct (size_bytes g <? 0) eqn:E1; [discriminate|].
      destruct (is_hash (hash g)) eqn:E2; simpl in H; [|discriminate].
      split; [apply is_hash_spec; exact E2|lia].
    + intros H. destruct (H g eq_refl) as [H1 H2]. apply is_hash_spec in H1.
      destruct (size_bytes g <? 0) eqn:E1; [lia|]. rewrite H1. reflexivity.
  - split; [intros _ d E; discriminate|reflexivity].
Qed.

Lemma present_digest_opt d : Present DigestWF d <-> (d <> None /\ OptDigestWF d).
Proof.
  unfold Present, OptDigestWF. split.
  - intros [g [E H]]; subst. split; [discriminate|]. intros d E; inversion E; subst; exact H.
  - intros [N H]. destruct d as [g|]; [|congruence]. exists g; split; [reflexivity|apply H; reflexivity].
Qed.

(* ------------------------------------------------------------------ *)
(* per-element checks: total, and Ok None exactly on well-formed elements *)

Lemma check_file_total f : exists e, check_file f = Ok e.
Proof.
  destruct f as [f|]; unfold check_file; simpl; [|eexists; reflexivity].
  destruct (str_empty (of_path f)); [eexists; reflexivity|].
  destruct (starts_slash (of_path f)); [eexists; reflexivity|].
  destruct (is_nil (of_digest f)); [eexists; reflexivity|].
  destruct (maybe_nil_digest_total (of_digest f)) as [e E]. rewrite E. simpl.
  destruct e; eexists; reflexivity.
Qed.

Lemma check_file_ok f : check_file f = Ok None <-> Present FileWF f.
Proof.
  destruct f as [f|]; unfold check_file, Present, FileWF, RelPath; simpl.
  2:{ split; [discriminate|intros [a [E _]]; discriminate]. }
  split.
  - intros H. exists f; split; [reflexivity|].
    destruct (str_empty (of_path f)) eqn:E1; [discriminate|].
    destruct (starts_slash (of_path f)) eqn:E2; [discriminate|].
    destruct (of_digest f) as [g|] eqn:E3; simpl in H; [|discriminate].
    destruct (maybe_nil_digest_total (Some g)) as [e E]. rewrite E in H. simpl in H.
    destruct e; [discriminate|].
    split; [split; [apply str_empty_false; exact E1|apply starts_slash_false; exact E2]|].
    apply present_digest_opt. split; [discriminate|apply maybe_nil_digest_ok; exact E].
  - intros [a [E [[H1 H2] H3]]]. inversion E; subst a; clear E.
    apply str_empty_false in H1. apply starts_slash_false in H2. rewrite H1, H2.
    apply present_digest_opt in H3 as [N H3]. destruct (of_digest f) as [g|]; [|congruence]. simpl.
    apply maybe_nil_digest_ok in H3. rewrite H3. reflexivity.
Qed.

Lemma check_dir_total d : exists e, check_dir d = Ok e.
Proof.
  destruct d as [d|]; unfold check_dir; simpl; [|eexists; reflexivity].
  destruct (starts_slash (od_path d)); [eexists; reflexivity|].
  destruct (is_nil (od_tree d)); [eexists; reflexivity|].
  destruct (maybe_nil_digest_total (od_tree d)) as [e E]. rewrite E. simpl.
  destruct e; eexists; reflexivity.
Qed.

Lemma check_dir_ok d : check_dir d = Ok None <-> Present DirWF d.
Proof.
  destruct d as [d|]; unfold check_dir, Present, DirWF; simpl.
  2:{ split; [discriminate|intros [a [E _]]; discriminate]. }
  split.
  - intros H. exists d; split; [reflexivity|].
    destruct (starts_slash (od_path d)) eqn:E2; [discriminate|].
    destruct (od_tree d) as [g|] eqn:E3; simpl in H; [|discriminate].
    destruct (maybe_nil_digest_total (Some g)) as [e E]. rewrite E in H. simpl in H.
    destruct e; [discriminate|].
    split; [apply starts_slash_false; exact E2|].
    apply present_digest_opt. split; [discriminate|apply maybe_nil_digest_ok; exact E].
  - intros [a [E [H2 H3]]]. inversion E; subst a; clear E.
    apply starts_slash_false in H2. rewrite H2.
    apply present_digest_opt in H3 as [N H3]. destruct (od_tree d) as [g|]; [|congruence]. simpl.
    apply maybe_nil_digest_ok in H3. rewrite H3. reflexivity.
Qed.

Lemma check_symlink_total a b c d s : exists e, check_symlink a b c d s = Ok e.
Proof.
  destruct s as [s|]; unfold check_symlink; simpl; [|eexists; reflexivity].
  destruct (str_empty (sl_path s)); [eexists; reflexivity|].
  destruct (str_empty (sl_target s)); [eexists; reflexivity|].
  destruct (starts_slash (sl_path s)); eexists; reflexivity.
Qed.

Lemma check_symlink_ok a b c d s : check_symlink a b c d s = Ok None <-> Present SymlinkWF s.
Proof.
  destruct s as [s|]; unfold check_symlink, Present, SymlinkWF, RelPath; simpl.
  2:{ split; [discriminate|intros [x [E _]]; discriminate]. }
  split.
  - intros H. exists s; split; [reflexivity|].
    destruct (str_empty (sl_path s)) eqn:E1; [discriminate|].
    destruct (str_empty (sl_target s)) eqn:E2; [discriminate|].
    destruct (starts_slash (sl_path s)) eqn:E3; [discriminate|].
    split; [split; [apply str_empty_false; exact E1|apply starts_slash_false; exact E3]|apply str_empty_false; exact E2].
  - intros [x [E [[H1 H2] H3]]]. inversion E; subst x; clear E.
    apply str_empty_false in H1, H3. apply starts_slash_false in H2. rewrite H1, H2, H3. reflexivity.
Qed.

(* the range loops *)
Lemma first_err_total {A} (chk : A -> result (option verr)) l :
  (forall x, exists e, chk x = Ok e) -> exists e, first_err chk l = Ok e.
Proof.
  intros T. induction l as [|x t IH]; simpl; [eexists; reflexivity|].
  destruct (T x) as [e E]. rewrite E. simpl. destruct e; [eexists; reflexivity|exact IH].
Qed.

Lemma first_err_ok {A} (chk : A -> result (option verr)) (P : A -> Prop) l :
  (forall x, exists e, chk x = Ok e) -> (forall x, chk x = Ok None <-> P x) ->
  (first_err chk l = Ok None <-> Forall P l).
Proof.
  intros T H. induction l as [|x t IH]; simpl.
  - split; [constructor|reflexivity].
  - destruct (T x) as [e E]. rewrite E. simpl. destruct e as [v|].
    + split; [discriminate|]. intros F; inversion F; subst. apply H in H2. congruence.
    + rewrite IH. split; [intros F; constructor; [apply H; exact E|exact F]|intros F; inversion F; assumption].
Qed.

Lemma andthen_ok r k :
  (exists e, r = Ok e) -> (andthen r k = Ok None <-> r = Ok None /\ k = Ok None).
Proof.
  intros [e E]; subst. unfold andthen; simpl. destruct e.
  - split; [discriminate|intros [H _]; discriminate].
  - split; [intros H; split; [reflexivity|exact H]|intros [_ H]; exact H].
Qed.

Lemma andthen_total r k : (exists e, r = Ok e) -> (exists e, k = Ok e) -> exists e, andthen r k = Ok e.
Proof. intros [e E] [e' E']; subst. unfold andthen; simpl. destruct e; eexists; reflexivity. Qed.

Definition std_check (bad : verr) (d : option digest) : result (option verr) :=
  e <- maybe_nil_digest d;; match e with Some _ => Ok (Some bad) | None => Ok None end.

Lemma std_check_total bad d : exists e, std_check bad d = Ok e.
Proof. unfold std_check. destruct (maybe_nil_digest_total d) as [e E]; rewrite E; simpl. destruct e; eexists; reflexivity. Qed.

Lemma std_check_ok bad d : std_check bad d = Ok None <-> OptDigestWF d.
Proof.
  rewrite <- maybe_nil_digest_ok. unfold std_check.
  destruct (maybe_nil_digest_total d) as [e E]; rewrite E; simpl. destruct e; split; congruence.
Qed.

(* ------------------------------------------------------------------ *)
(* the validator *)

Lemma validate_r_total o : exists e, validate_r o = Ok e.
Proof.
  destruct o as [a|]; unfold validate_r; simpl; [|eexists; reflexivity].
  repeat (apply andthen_total; [apply first_err_total;
    first [apply check_file_total | apply check_dir_total | intros x; apply check_symlink_total]|]).
  apply andthen_total; [apply (std_check_total VBadStdout)|apply (std_check_total VBadStderr)].
Qed.

Lemma validate_r_ok a : validate_r (Some a) = Ok None <-> WellFormed a.
Proof.
  unfold validate_r; simpl.
  rewrite andthen_ok by (apply first_err_total; apply check_file_total).
  rewrite andthen_ok by (apply first_err_total; apply check_dir_total).
  rewrite andthen_ok by (apply first_err_total; intros x; apply check_symlink_total).
  rewrite andthen_ok by (apply first_err_total; intros x; apply check_symlink_total).
  rewrite andthen_ok by (apply first_err_total; intros x; apply check_symlink_total).
  rewrite andthen_ok by (apply (std_check_total VBadStdout)).
  rewrite (first_err_ok check_file (Present FileWF)) by (first [apply check_file_total|apply check_file_ok]).
  rewrite (first_err_ok check_dir (Present DirWF)) by (first [apply check_dir_total|apply check_dir_ok]).
  rewrite !(first_err_ok _ (Present SymlinkWF)) by (intros x; first [apply check_symlink_total|apply check_symlink_ok]).
  change (?X = Ok None /\ ?Y = Ok None) with (std_check VBadStdout (ar_stdout_digest a) = Ok None /\ std_check VBadStderr (ar_stderr_digest a) = Ok None).
  rewrite !std_check_ok.
  split.
  - intros (H1 & H2 & H3 & H4 & H5 & H6 & H7). constructor; assumption.
  - intros [H1 H2 H3 H4 H5 H6 H7]. exact (conj H1 (conj H2 (conj H3 (conj H4 (conj H5 (conj H6 H7)))))).
Qed.

Lemma validate_cases o : validate o = Ok tt \/ validate o = Err EBadRequest.
Proof.
  unfold validate. destruct (validate_r_total o) as [e E]. rewrite E; simpl. destruct e; auto.
Qed.

Lemma validate_never_panics o : is_panic (validate o) = false /\ is_hang (validate o) = false.
Proof. destruct (validate_cases o) as [E|E]; rewrite E; split; reflexivity. Qed.

Lemma validate_nil : validate None = Err EBadRequest.
Proof. reflexivity. Qed.

Lemma validate_sound a : validate (Some a) = Ok tt -> WellFormed a.
Proof.
  unfold validate. destruct (validate_r_total (Some a)) as [e E]. rewrite E; simpl.
  destruct e; [discriminate|]. intros _. apply validate_r_ok. exact E.
Qed.

Lemma validate_complete a : WellFormed a -> validate (Some a) = Ok tt.
Proof. intros H. apply validate_r_ok in H. unfold validate. rewrite H. reflexivity. Qed.

Lemma validate_iff a : validate (Some a) = Ok tt <-> WellFormed a.
Proof. split; [apply validate_sound|apply validate_complete]. Qed.

Lemma valid_iff a : valid a = true <-> WellFormed a.
Proof.
  unfold valid. rewrite <- validate_iff. destruct (validate_cases (Some a)) as [E|E]; rewrite E; simpl; split; congruence.
Qed.

(* every error has a class: the first failing check in source order *)
Lemma validate_r_reports o e : validate_r o = Ok (Some e) -> In e all_verr.
Proof. intros _. destruct e; simpl; tauto. Qed.

(* ------------------------------------------------------------------ *)
(* validity does not look at the execution metadata *)

Lemma validate_set_meta m a : validate (Some (set_meta m a)) = validate (Some a).
Proof. reflexivity. Qed.

Lemma validate_add_worker w a : validate (Some (add_worker w a)) = validate (Some a).
Proof.
  unfold add_worker. destruct (ar_meta a) as [m|]; [|apply validate_set_meta].
  destruct (negb (str_empty (em_worker m))); [reflexivity|apply validate_set_meta].
Qed.

Lemma validate_set_files_same a fs :
  first_err check_file fs = first_err check_file (ar_files a) ->
  validate (Some (set_files fs a)) = validate (Some a).
Proof. intros H. unfold validate, validate_r; simpl. rewrite H. reflexivity. Qed.

(* after the metadata step a message never serialises to zero bytes: errEmptyActionResult is dead *)
Lemma add_worker_not_empty w a : encodes_empty (add_worker w a) = false.
Proof.
  unfold add_worker, encodes_empty. destruct (ar_meta a) as [m|] eqn:E; simpl.
  - destruct (negb (str_empty (em_worker m))); simpl; rewrite ?E;
      destruct (ar_files a), (ar_file_symlinks a), (ar_symlinks a), (ar_dirs a), (ar_dir_symlinks a),
               (ar_stdout_digest a), (ar_stderr_digest a); reflexivity.
  - destruct (ar_files a), (ar_file_symlinks a), (ar_symlinks a), (ar_dirs a), (ar_dir_symlinks a),
             (ar_stdout_digest a), (ar_stderr_digest a); reflexivity.
Qed.

(* the model's metadata step is the documented one *)
Lemma add_worker_spec w a : add_worker w a = spec_with_worker w a.
Proof.
  unfold add_worker, spec_with_worker. destruct (ar_meta a) as [m|]; [|reflexivity].
  destruct (negb (str_empty (em_worker m))); reflexivity.
Qed.

(* ------------------------------------------------------------------ *)
(* the dependency walk (C06): on validated messages and wire-decoded trees the Go loops meet no
   nil pointer and collect exactly [pending]; [referenced] adds the tree blobs *)

Definition TreeDecoded (t : tree) : Prop :=
  (forall d, t_root t = Some d -> Forall (fun n => n <> None) (dir_files d)) /\
  Forall (fun c => forall d, c = Some d -> Forall (fun n => n <> None) (dir_files d)) (t_children t).

Lemma node_digests_r_ok ns :
  Forall (fun n => n <> None) ns -> node_digests_r ns = Ok (somes (map fn_digest (somes ns))).
Proof.
  induction ns as [|n t IH]; intros F; simpl; [reflexivity|].
  inversion F; subst. destruct n as [nv|]; [|congruence]. simpl. rewrite IH by assumption. simpl.
  destruct (fn_digest nv); reflexivity.
Qed.

Lemma dir_digests_r_ok d :
  (forall dv, d = Some dv -> Forall (fun n => n <> None) (dir_files dv)) ->
  dir_digests_r d = Ok (dir_file_digests d).
Proof. destruct d as [dv|]; intros H; simpl; [apply node_digests_r_ok; apply H; reflexivity|reflexivity]. Qed.

Lemma tree_digests_r_ok t : TreeDecoded t -> tree_digests_r t = Ok (tree_file_digests t).
Proof.
  intros [H1 H2]. unfold tree_digests_r, tree_file_digests. rewrite dir_digests_r_ok by exact H1. simpl.
  assert (E : children_digests_r (t_children t) = Ok (List.concat (map dir_file_digests (t_children t)))).
  { induction (t_children t) as [|c r IH]; simpl; [reflexivity|].
    inversion H2; subst. rewrite dir_digests_r_ok by assumption. simpl. rewrite IH by assumption. reflexivity. }
  rewrite E. reflexivity.
Qed.

Lemma pending_files_r_ok fs :
  first_err check_file fs = Ok None -> pending_files_r fs = Ok (files_without_contents fs).
Proof.
  induction fs as [|f t IH]; simpl; intros H; [reflexivity|].
  destruct (check_file_total f) as [e E]. rewrite E in H. simpl in H. destruct e; [discriminate|].
  apply check_file_ok in E as [fv [E1 [_ [g [E2 _]]]]]. subst f. simpl.
  rewrite IH by exact H. simpl. unfold files_without_contents. simpl.
  destruct (blen (of_contents fv) =? 0); [rewrite E2; reflexivity|reflexivity].
Qed.

Lemma pending_files_valid a :
  validate (Some a) = Ok tt -> pending_files_r (ar_files a) = Ok (files_without_contents (ar_files a)).
Proof.
  intros H. apply validate_sound in H. apply pending_files_r_ok.
  apply (first_err_ok check_file (Present FileWF)); [apply check_file_total|apply check_file_ok|apply (wf_files _ H)].
Qed.

(* [referenced] = [pending] plus the tree digests: same multiset of non-tree entries, and every
   pending digest is referenced *)
Lemma zip_dirs_incl ds ts d : In d (zip_dirs false ds ts) -> In d (zip_dirs true ds ts).
Proof.
  revert ts; induction ds as [|x ds IH]; intros [|t ts]; simpl; try tauto.
  rewrite !in_app_iff. intros [H|H]; [right; left; exact H|right; right; apply IH; exact H].
Qed.

Lemma pending_incl_referenced a ts d : In d (pending a ts) -> In d (referenced a ts).
Proof.
  unfold pending, referenced, deps. rewrite !in_app_iff.
  intros [H|[H|H]]; [left; exact H|right; left; apply zip_dirs_incl; exact H|right; right; exact H].
Qed.

Lemma tree_digest_referenced a ts n d t g :
  nth_error (somes (ar_dirs a)) n = Some d -> nth_error ts n = Some t -> od_tree d = Some g ->
  In g (referenced a ts).
Proof.
  intros H1 H2 H3. unfold referenced, deps. rewrite !in_app_iff. right; left.
  revert n ts H1 H2. induction (somes (ar_dirs a)) as [|x ds IH]; intros [|n] [|t' ts] H1 H2; try discriminate.
  - simpl in *. inversion H1; subst x. rewrite H3. left; reflexivity.
  - simpl in *. rewrite !in_app_iff. right; right. eapply IH; eassumption.
Qed.

Lemma validate_files_ok a : validate (Some a) = Ok tt -> first_err check_file (ar_files a) = Ok None.
Proof.
  intros H. apply validate_sound in H.
  apply (first_err_ok check_file (Present FileWF)); [apply check_file_total|apply check_file_ok|apply (wf_files _ H)].
Qed.

Lemma set_files_id a : set_files (ar_files a) a = a.
Proof. destruct a; reflexivity. Qed.
