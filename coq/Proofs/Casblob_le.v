(* Proofs/Casblob_le.v — little-endian field codec round trips and list slicing helpers used by the
   casblob proofs. *)
From BR Require Import Base.Prelude Gen.Consts Gen.Funcs Model.Casblob.
Open Scope list_scope.
Open Scope Z_scope.

(* ------------------------------------------------------------------ *)
(* slicing *)

Lemma firstn_app_exact {A} (a b : list A) n : List.length a = n -> firstn n (a ++ b) = a.
Proof. intros <-. rewrite firstn_app, Nat.sub_diag, firstn_all. simpl. apply app_nil_r. Qed.

Lemma skipn_app_exact {A} (a b : list A) n : List.length a = n -> skipn n (a ++ b) = b.
Proof. intros <-. rewrite skipn_app, Nat.sub_diag, skipn_all. reflexivity. Qed.

Lemma skipn_skipn {A} (l : list A) a b : skipn a (skipn b l) = skipn (b + a) l.
Proof.
  revert l; induction b as [|b IH]; intros l; simpl; [reflexivity|].
  destruct l; [apply skipn_nil | apply IH].
Qed.

Lemma zlen_app {A} (a b : list A) : zlen (a ++ b) = zlen a + zlen b.
Proof. unfold zlen. rewrite app_length. lia. Qed.

Lemma zlen_nonneg {A} (l : list A) : 0 <= zlen l.
Proof. unfold zlen. lia. Qed.

Lemma to_nat_zlen {A} (l : list A) : Z.to_nat (zlen l) = List.length l.
Proof. unfold zlen. apply Nat2Z.id. Qed.

Lemma zlen_cons {A} (x : A) l : zlen (x :: l) = 1 + zlen l.
Proof. unfold zlen. simpl List.length. lia. Qed.

(* ------------------------------------------------------------------ *)
(* le_enc / le_dec *)

Lemma le_enc_length n v : List.length (le_enc n v) = n.
Proof. revert v; induction n as [|n IH]; intros v; simpl; [reflexivity|]. rewrite IH; reflexivity. Qed.

Lemma le_dec_enc n v : le_dec (le_enc n v) = v mod 256 ^ Z.of_nat n.
Proof.
  revert v; induction n as [|n IH]; intros v.
  - simpl. rewrite Z.mod_1_r. reflexivity.
  - cbn [le_enc le_dec]. rewrite IH, Z.mod_mod by lia.
    rewrite Nat2Z.inj_succ, Z.pow_succ_r by lia.
    rewrite Z.rem_mul_r by lia. reflexivity.
Qed.

Lemma le_dec_range l : 0 <= le_dec l < 256 ^ zlen l.
Proof.
  induction l as [|b t IH].
  - simpl. unfold zlen; simpl. lia.
  - cbn [le_dec]. rewrite zlen_cons.
    replace (1 + zlen t) with (Z.succ (zlen t)) by lia.
    rewrite Z.pow_succ_r by apply zlen_nonneg.
    pose proof (Z.mod_pos_bound b 256). lia.
Qed.

Lemma le_enc_bytes_ok n v : bytes_ok (le_enc n v) = true.
Proof.
  revert v; induction n as [|n IH]; intros v; [reflexivity|].
  cbn [le_enc]. unfold bytes_ok in *. cbn [forallb]. rewrite IH.
  unfold byte_ok. pose proof (Z.mod_pos_bound v 256). lia.
Qed.

Lemma firstn_le n (l : list Z) : (List.length (firstn n l) <= n)%nat.
Proof. rewrite firstn_length. lia. Qed.

Lemma u32_of_range l : 0 <= u32_of l < two32.
Proof.
  unfold u32_of. pose proof (le_dec_range (firstn 4 l)) as H.
  pose proof (firstn_le 4 l) as L.
  assert (256 ^ zlen (firstn 4 l) <= 256 ^ 4) by (apply Z.pow_le_mono_r; unfold zlen; lia).
  unfold two32. change (256 ^ 4) with 4294967296 in *. lia.
Qed.

Lemma u8_of_range l : 0 <= u8_of l < 256.
Proof.
  unfold u8_of. pose proof (le_dec_range (firstn 1 l)) as H.
  pose proof (firstn_le 1 l) as L.
  assert (256 ^ zlen (firstn 1 l) <= 256 ^ 1) by (apply Z.pow_le_mono_r; unfold zlen; lia).
  change (256 ^ 1) with 256 in *. lia.
Qed.

Lemma i64_of_range l : in_i64 (i64_of l).
Proof. unfold i64_of. apply wrap64_range. Qed.

(* a field followed by anything decodes to the value written *)
Lemma u32_roundtrip v r : 0 <= v < two32 -> u32_of (enc_u32 v ++ r) = v.
Proof.
  intros H. unfold u32_of, enc_u32.
  rewrite firstn_app_exact by apply le_enc_length.
  rewrite le_dec_enc. change (256 ^ Z.of_nat 4) with 4294967296.
  unfold two32 in H. apply Z.mod_small; lia.
Qed.

Lemma u8_roundtrip v r : 0 <= v < 256 -> u8_of (enc_u8 v ++ r) = v.
Proof.
  intros H. unfold u8_of, enc_u8.
  rewrite firstn_app_exact by apply le_enc_length.
  rewrite le_dec_enc. change (256 ^ Z.of_nat 1) with 256. apply Z.mod_small; lia.
Qed.

Lemma wrap64_mod v : in_i64 v -> wrap64 (v mod two64) = v.
Proof.
  unfold in_i64, wrap64. intros H.
  rewrite Z.add_mod_idemp_l by (unfold two64; lia).
  rewrite Z.mod_small by (unfold two63, two64 in *; lia). lia.
Qed.

Lemma i64_roundtrip v r : in_i64 v -> i64_of (enc_i64 v ++ r) = v.
Proof.
  intros H. unfold i64_of, enc_i64.
  rewrite firstn_app_exact by apply le_enc_length.
  rewrite le_dec_enc. change (256 ^ Z.of_nat 8) with two64. apply wrap64_mod; exact H.
Qed.

Lemma enc_u32_length v : List.length (enc_u32 v) = 4%nat.  Proof. apply le_enc_length. Qed.
Lemma enc_i64_length v : List.length (enc_i64 v) = 8%nat.  Proof. apply le_enc_length. Qed.
Lemma enc_u8_length v : List.length (enc_u8 v) = 1%nat.    Proof. apply le_enc_length. Qed.

(* the table: n int64 fields *)
Lemma flat_map_enc_i64_length offs :
  List.length (flat_map enc_i64 offs) = (8 * List.length offs)%nat.
Proof.
  induction offs as [|x t IH]; [reflexivity|].
  cbn [flat_map]. rewrite app_length, enc_i64_length, IH. simpl List.length. lia.
Qed.

Lemma decode_offsets_roundtrip offs r :
  Forall in_i64 offs ->
  decode_offsets (List.length offs) (flat_map enc_i64 offs ++ r) = offs.
Proof.
  induction offs as [|x t IH]; intros H; [reflexivity|].
  inversion H as [|? ? Hx Ht]; subst.
  cbn [flat_map List.length decode_offsets]. rewrite <- app_assoc.
  rewrite i64_roundtrip by exact Hx.
  rewrite skipn_app_exact by apply enc_i64_length.
  rewrite IH by exact Ht. reflexivity.
Qed.

Lemma decode_offsets_length n l : List.length (decode_offsets n l) = n.
Proof. revert l; induction n as [|n IH]; intros l; simpl; [reflexivity|]. rewrite IH; reflexivity. Qed.

Lemma decode_offsets_in_i64 n l : Forall in_i64 (decode_offsets n l).
Proof.
  revert l; induction n as [|n IH]; intros l; simpl; constructor; [apply i64_of_range|apply IH].
Qed.
