(* Proofs/LRU_order.v — eviction order of the LRU index (C05): the two eviction loops remove a
   least-recently-used PREFIX of the recency list ([order] holds the least recently used element
   first), every removed element was needed, nothing is removed without pressure; a hit moves the
   element to the most-recently-used end; an accepted item that fits is present afterwards.
   The history-level statement (recency list = keys sorted by last use) is in the second half. *)
From Coq Require Import Permutation Sorted.
From BR Require Import Base.Prelude Model.LRU Proofs.LRU_inv Proofs.LRU_spec Proofs.LRU_limit.
Open Scope Z_scope.

(* ------------------------------------------------------------------ *)
(* list lemmas *)

Lemma app_snoc_suffix {A} (T : list A) x ev l :
  T ++ [x] = ev ++ l -> l <> [] -> exists l', l = l' ++ [x].
Proof.
  intros H Hl. destruct (exists_last Hl) as (l' & y & ->). exists l'.
  rewrite app_assoc in H. apply app_inj_tail in H as [_ ->]. reflexivity.
Qed.

Lemma find_id_snoc e l : ~ In (eid e) (map eid l) -> find_id (eid e) (l ++ [e]) = Some e.
Proof.
  induction l as [|x t IH]; simpl; intros Hn.
  - rewrite Nat.eqb_refl. reflexivity.
  - destruct (Nat.eqb (eid x) (eid e)) eqn:Ex.
    + apply Nat.eqb_eq in Ex. exfalso. apply Hn. left. exact Ex.
    + apply IH. intros Hc. apply Hn. right. exact Hc.
Qed.

Lemma remove_id_snoc e l : ~ In (eid e) (map eid l) -> remove_id (eid e) (l ++ [e]) = l.
Proof.
  induction l as [|x t IH]; simpl; intros Hn.
  - rewrite Nat.eqb_refl. reflexivity.
  - destruct (Nat.eqb (eid x) (eid e)) eqn:Ex.
    + apply Nat.eqb_eq in Ex. exfalso. apply Hn. left. exact Ex.
    + f_equal. apply IH. intros Hc. apply Hn. right. exact Hc.
Qed.

(* ------------------------------------------------------------------ *)
(* The eviction loop, without any assumption on the state *)

Lemma evict_loop_shape cond : forall l s, order s = l ->
  EvictSpec cond s (fst (evict_loop cond l s)) (snd (evict_loop cond l s)).
Proof.
  induction l as [|e t IH]; intros s Ho; simpl.
  - destruct (cond (cur s)) eqn:Ec; simpl.
    + apply evict_spec_nil; [discriminate|]. intros _. split; assumption.
    + apply evict_spec_nil; [intros _; exact Ec|discriminate].
  - destruct (cond (cur s)) eqn:Ec; simpl.
    + assert (Ho1 : order (remove_elem e s) = t).
      { unfold remove_elem, enqueue; simpl. rewrite Ho. apply remove_id_head. }
      assert (Hc1 : cur (remove_elem e s) = cur s - r4k_disk e) by reflexivity.
      assert (Hq1 : evq (remove_elem e s) = evq s ++ [ent e]) by reflexivity.
      specialize (IH (remove_elem e s) Ho1).
      destruct (evict_loop cond t (remove_elem e s)) as [s' stuck]. simpl. simpl in IH.
      destruct IH as [ev Hord Hevq Hcur Hunc Hfr Hstop Hstuck Hneed].
      apply (mkEvictSpec cond s s' stuck (e :: ev)).
      * rewrite Ho, <- Ho1, Hord. reflexivity.
      * rewrite Hevq, Hq1. simpl. rewrite <- app_assoc. reflexivity.
      * rewrite Hcur, Hc1. simpl. lia.
      * rewrite Hunc. unfold remove_elem, enqueue; simpl. lia.
      * unfold remove_elem, enqueue in Hfr; simpl in Hfr. exact Hfr.
      * exact Hstop.
      * exact Hstuck.
      * intros ev1 x ev2 H. destruct ev1 as [|y ev1].
        -- simpl. rewrite Z.sub_0_r. exact Ec.
        -- simpl in H. inversion H; subst. specialize (Hneed ev1 x ev2 eq_refl).
           rewrite Hc1 in Hneed. simpl.
           replace (cur s - (r4k_disk y + sumZ r4k_disk ev1))
             with (cur s - r4k_disk y - sumZ r4k_disk ev1) by lia. exact Hneed.
    + apply evict_spec_nil; [intros _; exact Ec|discriminate].
Qed.

(* ------------------------------------------------------------------ *)
(* 1. Reserve (phase one of an upload / a fetch of known size) *)

Lemma reserve_evicts_lru_prefix n s s' : Inv s -> reserve n s = (s', Ok tt) ->
  exists ev,
    order s = ev ++ order s' /\
    evq s' = evq s ++ map ent ev /\
    cur s' = cur s - sumZ r4k_disk ev + n /\
    (forall ev1 e ev2, ev = ev1 ++ e :: ev2 -> n + (cur s - sumZ r4k_disk ev1) > maxs s).
Proof.
  intros HI.
  destruct (reserve_cases n s HI)
    as [(H1 & E)|[(H1 & E)|[(H1 & H2 & E)|[(H1 & H2 & H3 & E)|(H1 & H2 & H3 & s2 & HS & HA2 & E)]]]];
    rewrite E; intros H; inversion H; subst.
  - exists []. simpl. rewrite app_nil_r. repeat split; try lia.
    intros ev1 e ev2 Hx. destruct ev1; discriminate.
  - destruct HS as [ev Hord Hevq Hcur _ _ _ _ Hneed]. exists ev. simpl in *.
    repeat split; try assumption; try lia.
    intros ev1 e ev2 Hx. specialize (Hneed ev1 e ev2 Hx). lia.
Qed.

Lemma reserve_no_pressure n s s' : Inv s -> reserve n s = (s', Ok tt) -> n + cur s <= maxs s ->
  order s' = order s /\ evq s' = evq s /\ cur s' = cur s + n.
Proof.
  intros HI H Hfit. destruct (reserve_evicts_lru_prefix n s s' HI H) as (ev & Ho & Hq & Hc & Hneed).
  destruct ev as [|e ev2].
  - simpl in *. rewrite app_nil_r in Hq. repeat split; [symmetry; exact Ho|exact Hq|lia].
  - specialize (Hneed [] e ev2 eq_refl). simpl in Hneed. lia.
Qed.

(* keeping the most recently used of the evicted entries would not have left room *)
Lemma reserve_minimal n s s' : Inv s -> reserve n s = (s', Ok tt) ->
  forall ev1 e, order s = ev1 ++ e :: order s' -> n + (cur s - sumZ r4k_disk ev1) > maxs s.
Proof.
  intros HI H ev1 e Ho. destruct (reserve_evicts_lru_prefix n s s' HI H) as (ev & Ho' & _ & _ & Hneed).
  apply (Hneed ev1 e []). rewrite Ho' in Ho.
  change (ev1 ++ e :: order s') with (ev1 ++ [e] ++ order s') in Ho. rewrite app_assoc in Ho.
  apply app_inv_tail in Ho. exact Ho.
Qed.

(* ------------------------------------------------------------------ *)
(* 4. Oversize items are rejected without evicting anything *)

Lemma reserve_oversize n s : Inv s -> n > maxs s -> reserve n s = (s, Err EBadRequest).
Proof.
  intros (_ & _ & Hp) H. unfold reserve.
  destruct (n =? 0) eqn:E0; [lia|]. destruct (n <? 0) eqn:E1; [reflexivity|].
  destruct (n >? maxs s) eqn:E2; [reflexivity|lia].
Qed.

Lemma add_oversize k v s : roundUp4k (sizeOnDisk v) > maxs s -> add k v s = (s, Ok false).
Proof. intros H. unfold add. destruct (roundUp4k (sizeOnDisk v) >? maxs s) eqn:E; [reflexivity|lia]. Qed.

Lemma oversize_rejected s : Inv s ->
  (forall n, n > maxs s -> reserve n s = (s, Err EBadRequest)) /\
  (forall k v, roundUp4k (sizeOnDisk v) > maxs s -> add k v s = (s, Ok false)).
Proof. intros HI. split; [intros n; apply reserve_oversize; exact HI|intros k v; apply add_oversize]. Qed.

(* ------------------------------------------------------------------ *)
(* 5. A hit moves the element to the most-recently-used end; a miss moves nothing *)

Lemma get_touch k s : Inv s ->
  match find_key k (order s) with
  | Some e =>
      get k s = (set_order (remove_id (eid e) (order s) ++ [e]) s, Some (evalue (ent e), eid e)) /\
      key_of e = k /\
      exists l1 l2, order s = l1 ++ e :: l2 /\ order (fst (get k s)) = l1 ++ l2 ++ [e]
  | None => get k s = (s, None)
  end.
Proof.
  intros ([_ Hi _ _ _ _ _ _ _] & _ & _). unfold get.
  destruct (find_key k (order s)) as [e|] eqn:E; [|reflexivity].
  apply find_key_In in E as [Hin Hk]. split; [reflexivity|]. split; [exact Hk|].
  destruct (remove_id_split (order s) e Hi Hin) as (l1 & l2 & H1 & H2).
  exists l1, l2. split; [exact H1|]. simpl. rewrite H2, app_assoc. reflexivity.
Qed.

(* ------------------------------------------------------------------ *)
(* 2. Add (phase two: the commit of an upload) *)

(* the recency list right after the new version was linked in, before the eviction loop *)
Definition touched (k : string) (v : item) (s : state) : list elem :=
  match find_key k (order s) with
  | Some e => remove_id (eid e) (order s) ++ [mkElem (eid e) (mkEntry k v)]
  | None => order s ++ [mkElem (next s) (mkEntry k v)]
  end.

(* the version of the same key that the new item replaces *)
Definition replaced (k : string) (s : state) : list entry :=
  match find_key k (order s) with
  | Some e => [mkEntry k (evalue (ent e))]
  | None => []
  end.

(* what the item needs next to the version it replaces *)
Definition add_delta (k : string) (v : item) (s : state) : Z :=
  roundUp4k (sizeOnDisk v)
  - match find_key k (order s) with Some e => roundUp4k (sizeOnDisk (evalue (ent e))) | None => 0 end.

Lemma add_true_shape k v s s' : add k v s = (s', Ok true) ->
  exists ev,
    touched k v s = ev ++ order s' /\
    evq s' = evq s ++ replaced k s ++ map ent ev /\
    cur s' = cur s - sumZ r4k_disk ev + add_delta k v s /\
    res s' = res s /\ maxs s' = maxs s /\
    roundUp4k (sizeOnDisk v) <= maxs s /\ res s + add_delta k v s <= maxs s /\
    cur s' <= maxs s /\
    (forall ev1 e ev2, ev = ev1 ++ e :: ev2 ->
       cur s - sumZ r4k_disk ev1 + add_delta k v s > maxs s).
Proof.
  unfold add, touched, replaced, add_delta.
  destruct (roundUp4k (sizeOnDisk v) >? maxs s) eqn:E0; [intros H; inversion H|].
  set (r0 := roundUp4k (sizeOnDisk v)) in *.
  change (order (upd_peak r0 s)) with (order s).
  destruct (find_key k (order s)) as [e|] eqn:Ef.
  - apply find_key_In in Ef as [Hin Hkey]. unfold key_of in Hkey.
    destruct (res (upd_peak r0 s) + (r0 - roundUp4k (sizeOnDisk (evalue (ent e)))) >? maxs (upd_peak r0 s)) eqn:E1;
      [intros H; inversion H|].
    set (delta := r0 - roundUp4k (sizeOnDisk (evalue (ent e)))) in *.
    set (s2 := enqueue _ _).
    pose proof (evict_loop_shape (fun c => c + delta >? maxs s2) (order s2) s2 eq_refl) as HS.
    unfold evict_while.
    destruct (evict_loop (fun c => c + delta >? maxs s2) (order s2) s2) as [s3 stuck]. simpl in HS.
    destruct stuck; [intros H; inversion H|]. intros H; inversion H; subst s'. clear H.
    destruct HS as [ev Hord Hevq Hcur _ (Hr' & Hm' & _) Hstop _ Hneed].
    specialize (Hstop eq_refl). exists ev. subst s2. simpl in *. rewrite Hkey in Hevq.
    repeat split; try assumption; try lia.
    + rewrite Hevq, <- app_assoc. reflexivity.
    + intros ev1 x ev2 Hx. specialize (Hneed ev1 x ev2 Hx). lia.
  - destruct (res (upd_peak r0 s) + r0 >? maxs (upd_peak r0 s)) eqn:E1; [intros H; inversion H|].
    set (s2 := mkState _ _ _ _ _ _ _ _ _ _).
    pose proof (evict_loop_shape (fun c => c + r0 >? maxs s2) (order s2) s2 eq_refl) as HS.
    unfold evict_while.
    destruct (evict_loop (fun c => c + r0 >? maxs s2) (order s2) s2) as [s3 stuck]. simpl in HS.
    destruct stuck; [intros H; inversion H|]. intros H; inversion H; subst s'. clear H.
    destruct HS as [ev Hord Hevq Hcur _ (Hr' & Hm' & _) Hstop _ Hneed].
    specialize (Hstop eq_refl). exists ev. subst s2. simpl in *.
    repeat split; try assumption; try lia.
    intros ev1 x ev2 Hx. specialize (Hneed ev1 x ev2 Hx). lia.
Qed.

Lemma add_evicts_lru_prefix k v s s' : Inv s -> item_ok v -> add k v s = (s', Ok true) ->
  exists ev,
    touched k v s = ev ++ order s' /\
    evq s' = evq s ++ replaced k s ++ map ent ev /\
    cur s' = cur s - sumZ r4k_disk ev + add_delta k v s /\
    (forall ev1 e ev2, ev = ev1 ++ e :: ev2 ->
       cur s - sumZ r4k_disk ev1 + add_delta k v s > maxs s) /\
    (* the replaced version was indexed (its file in place) until now and is queued for removal now *)
    (forall e, find_key k (order s) = Some e ->
       In e (order s) /\ ent e = mkEntry k (evalue (ent e)) /\ In (mkEntry k (evalue (ent e))) (evq s')).
Proof.
  intros _ _ H. destruct (add_true_shape k v s s' H) as (ev & H1 & H2 & H3 & _ & _ & _ & _ & _ & H4).
  exists ev. split; [exact H1|]. split; [exact H2|]. split; [exact H3|]. split; [exact H4|].
  intros e Hf. pose proof (find_key_In k (order s) e Hf) as [Hin Hk]. split; [exact Hin|]. split.
  - unfold key_of in Hk. destruct (ent e) as [k' v']. simpl in *. subst. reflexivity.
  - rewrite H2. unfold replaced. rewrite Hf. apply in_or_app. right. left. reflexivity.
Qed.

Lemma add_no_pressure k v s s' : add k v s = (s', Ok true) -> cur s + add_delta k v s <= maxs s ->
  order s' = touched k v s /\ evq s' = evq s ++ replaced k s.
Proof.
  intros H Hfit. destruct (add_true_shape k v s s' H) as (ev & H1 & H2 & _ & _ & _ & _ & _ & _ & H4).
  destruct ev as [|e ev2].
  - simpl in *. rewrite app_nil_r in H2. split; [symmetry; exact H1|exact H2].
  - specialize (H4 [] e ev2 eq_refl). simpl in H4. lia.
Qed.

Lemma add_minimal k v s s' : add k v s = (s', Ok true) ->
  forall ev1 e, touched k v s = ev1 ++ e :: order s' ->
    cur s - sumZ r4k_disk ev1 + add_delta k v s > maxs s.
Proof.
  intros H ev1 e Ho. destruct (add_true_shape k v s s' H) as (ev & H1 & _ & _ & _ & _ & _ & _ & _ & H4).
  apply (H4 ev1 e []). rewrite H1 in Ho.
  change (ev1 ++ e :: order s') with (ev1 ++ [e] ++ order s') in Ho. rewrite app_assoc in Ho.
  apply app_inv_tail in Ho. exact Ho.
Qed.

(* ------------------------------------------------------------------ *)
(* 3. An accepted item that fits next to the reservations is present, most recently used *)

Lemma touched_snoc k v s : Inv s ->
  exists T e', touched k v s = T ++ [e'] /\ ent e' = mkEntry k v /\
    cur s - sumZ r4k_disk T + add_delta k v s = res s + roundUp4k (sizeOnDisk v).
Proof.
  intros ([_ Hi _ Hc _ _ _ _ _] & _ & _). unfold touched, add_delta.
  destruct (find_key k (order s)) as [e|] eqn:Ef.
  - apply find_key_In in Ef as [Hin _].
    exists (remove_id (eid e) (order s)), (mkElem (eid e) (mkEntry k v)).
    split; [reflexivity|]. split; [reflexivity|].
    rewrite (sumZ_perm r4k_disk _ _ (remove_id_perm (order s) e Hi Hin)) in Hc. simpl in Hc.
    unfold r4k_disk at 1 in Hc. lia.
  - exists (order s), (mkElem (next s) (mkEntry k v)). split; [reflexivity|]. split; [reflexivity|]. lia.
Qed.

Lemma present_after_add k v s s' : Inv s -> item_ok v -> add k v s = (s', Ok true) ->
  res s + roundUp4k (sizeOnDisk v) <= maxs s ->
  (exists l e, order s' = l ++ [e] /\ ent e = mkEntry k v) /\ peek k s' = Some v.
Proof.
  intros HI Hv H Hfit.
  destruct (add_true_shape k v s s' H) as (ev & H1 & _ & _ & _ & _ & _ & _ & _ & H4).
  destruct (touched_snoc k v s HI) as (T & e' & HT & He' & Hsum).
  assert (Hl : exists l, order s' = l ++ [e']).
  { rewrite HT in H1. destruct (order s') as [|x t] eqn:Eo.
    - exfalso. rewrite app_nil_r in H1. specialize (H4 T e' [] (eq_sym H1)). lia.
    - apply (app_snoc_suffix T e' ev (x :: t) H1). discriminate. }
  destruct Hl as (l & Hl). split; [exists l, e'; split; assumption|].
  destruct (add_inv_eq k v s s' _ HI Hv H) as (([Hk' _ _ _ _ _ _ _ _] & _ & _) & _ & _).
  unfold peek. rewrite (find_key_Some_iff k (order s') Hk' e').
  - rewrite He'. reflexivity.
  - rewrite Hl. apply in_or_app. right. left. reflexivity.
  - unfold key_of. rewrite He'. reflexivity.
Qed.

(* OBSERVATION (F13/O1).  Without the premise [res + new <= max] the new entry itself can be the
   last victim of its own Add, which still returns true: overwrite a one-block entry by a two-block
   one while one block is reserved, max_size = two blocks. *)
Definition self_evict_state : state :=
  run (init 8192 0) [OAdd "cas/a" (mkItem 4096 4096 "1" false); OReserve 4096].

Lemma self_eviction_possible :
  exists s k v, Inv s /\ item_ok v /\ snd (add k v s) = Ok true /\ peek k (fst (add k v s)) = None
    /\ res s + roundUp4k (sizeOnDisk v) > maxs s /\ res s + add_delta k v s <= maxs s.
Proof.
  exists self_evict_state, "cas/a"%string, (mkItem 8192 8192 "2" false).
  split.
  { apply run_inv; [apply init_inv; lia|].
    repeat (apply Forall_cons; [simpl; try exact I; unfold item_ok; simpl; lia|]). apply Forall_nil. }
  split; [unfold item_ok; simpl; lia|].
  vm_compute. repeat split; congruence.
Qed.

(* ------------------------------------------------------------------ *)
(* 6. History level: the recency list is the set of indexed keys sorted by time of last use *)

(* order-preserving sub-list *)
Inductive Sub {A} : list A -> list A -> Prop :=
| Sub_nil : Sub [] []
| Sub_skip x l' l : Sub l' l -> Sub l' (x :: l)
| Sub_keep x l' l : Sub l' l -> Sub (x :: l') (x :: l).

Lemma Sub_refl {A} (l : list A) : Sub l l.
Proof. induction l; constructor; assumption. Qed.

Lemma Sub_nil_l {A} (l : list A) : Sub [] l.
Proof. induction l; constructor; assumption. Qed.

Lemma Sub_app_drop {A} (l1 l2 : list A) : Sub l2 (l1 ++ l2).
Proof. induction l1; simpl; [apply Sub_refl|constructor; assumption]. Qed.

Lemma Sub_app_mid {A} (l1 : list A) x l2 : Sub (l1 ++ l2) (l1 ++ x :: l2).
Proof. induction l1; simpl; [constructor; apply Sub_refl|constructor; assumption]. Qed.

Lemma Sub_app_l {A} (l l2 : list A) : Sub l (l ++ l2).
Proof. induction l; simpl; [apply Sub_nil_l|constructor; assumption]. Qed.

Lemma Sub_In {A} (l' l : list A) x : Sub l' l -> In x l' -> In x l.
Proof.
  induction 1 as [|y l' l HS IH|y l' l HS IH]; simpl; intros Hin; [tauto|right; auto|].
  destruct Hin as [->|Hin]; [left; reflexivity|right; auto].
Qed.

Lemma Sub_Forall {A} (P : A -> Prop) l' l : Sub l' l -> Forall P l -> Forall P l'.
Proof.
  intros HS HF. apply Forall_forall. intros x Hx. rewrite Forall_forall in HF.
  apply HF. eapply Sub_In; eassumption.
Qed.

Lemma Sub_sorted {A} (R : A -> A -> Prop) l' l : Sub l' l -> StronglySorted R l -> StronglySorted R l'.
Proof.
  induction 1 as [|y l' l HS IH|y l' l HS IH]; intros Hs.
  - constructor.
  - apply StronglySorted_inv in Hs as [Hs _]. auto.
  - apply StronglySorted_inv in Hs as [Hs Hf]. constructor; [auto|].
    eapply Sub_Forall; eassumption.
Qed.

Lemma sorted_snoc {A} (R : A -> A -> Prop) l x :
  StronglySorted R l -> Forall (fun a => R a x) l -> StronglySorted R (l ++ [x]).
Proof.
  induction l as [|a t IH]; simpl; intros Hs Hf.
  - constructor; constructor.
  - apply StronglySorted_inv in Hs as [Hs Hfa]. inversion Hf; subst.
    constructor; [apply IH; assumption|]. apply Forall_app; split; [assumption|].
    constructor; [assumption|constructor].
Qed.

Lemma sorted_app_lt {A} (R : A -> A -> Prop) l1 l2 :
  StronglySorted R (l1 ++ l2) -> forall a b, In a l1 -> In b l2 -> R a b.
Proof.
  induction l1 as [|x t IH]; simpl; intros Hs a b Ha Hb; [tauto|].
  apply StronglySorted_inv in Hs as [Hs Hf]. destruct Ha as [->|Ha].
  - rewrite Forall_forall in Hf. apply Hf. apply in_or_app. right. exact Hb.
  - apply IH; assumption.
Qed.

(* which key an operation USES: a write that was accepted, or a lookup that hit
   (GET / HEAD / FindMissingBlobs / dependency check are [OGet]; [ORemoveElem] starts with a
   lookup).  Defined on the observable output of the operation. *)
Definition used (s : state) (o : op) : option string :=
  match o, snd (step s o) with
  | OAdd k _, RBool true => Some k
  | OGet k, RHit _ => Some k
  | ORemoveElem k, RUnit => Some k
  | _, _ => None
  end.

(* a logical clock that ticks once per operation, and the time each key was last used *)
Record clockst := mkClk { clock : nat; lastuse : string -> nat }.

Definition tick (u : option string) (c : clockst) : clockst :=
  mkClk (S (clock c))
        (match u with
         | Some k => fun k' => if String.eqb k' k then clock c else lastuse c k'
         | None => lastuse c
         end).

Definition istep (st : state * clockst) (o : op) : state * clockst :=
  (fst (step (fst st) o), tick (used (fst st) o) (snd st)).

Definition irun (st : state * clockst) (ops : list op) : state * clockst := fold_left istep ops st.

Definition clk0 : clockst := mkClk 0 (fun _ => 0%nat).

Lemma irun_fst ops : forall st, fst (irun st ops) = run (fst st) ops.
Proof. induction ops as [|o t IH]; intros st; simpl; [reflexivity|]. rewrite IH. reflexivity. Qed.

Definition lu_lt (lu : string -> nat) (a b : elem) : Prop := (lu (key_of a) < lu (key_of b))%nat.

Definition OrdInv (l : list elem) (c : clockst) : Prop :=
  StronglySorted (lu_lt (lastuse c)) l /\ Forall (fun e => (lastuse c (key_of e) < clock c)%nat) l.

Lemma ordinv_sub l' l c : Sub l' l -> OrdInv l c -> OrdInv l' c.
Proof. intros HS [H1 H2]. split; [eapply Sub_sorted|eapply Sub_Forall]; eassumption. Qed.

Lemma ordinv_tick_none l c : OrdInv l c -> OrdInv l (tick None c).
Proof.
  intros [H1 H2]. split; [exact H1|]. simpl. eapply Forall_impl; [|exact H2]. simpl. intros; lia.
Qed.

(* using key k: everything else keeps its order, the used element goes last with the current time *)
Lemma ordinv_tick_use rest e' c :
  OrdInv rest c -> ~ In (key_of e') (map key_of rest) -> OrdInv (rest ++ [e']) (tick (Some (key_of e')) c).
Proof.
  intros [H1 H2] Hnin.
  set (lu' := fun k' => if String.eqb k' (key_of e') then clock c else lastuse c k').
  change (tick (Some (key_of e')) c) with (mkClk (S (clock c)) lu').
  unfold OrdInv. cbn [lastuse clock].
  assert (Hsame : forall x, In x rest -> lu' (key_of x) = lastuse c (key_of x)).
  { intros x Hx. unfold lu'. destruct (String.eqb (key_of x) (key_of e')) eqn:E; [|reflexivity].
    apply String.eqb_eq in E. exfalso. apply Hnin. rewrite <- E. apply in_map. exact Hx. }
  assert (Hnew : lu' (key_of e') = clock c) by (unfold lu'; rewrite String.eqb_refl; reflexivity).
  rewrite Forall_forall in H2.
  split.
  - apply sorted_snoc.
    + clear Hnin Hnew. induction rest as [|a t IH]; [constructor|].
      apply StronglySorted_inv in H1 as [Hs Hf]. constructor.
      * apply IH; [exact Hs|intros x Hx; apply H2; right; exact Hx|intros x Hx; apply Hsame; right; exact Hx].
      * apply Forall_forall. intros x Hx. rewrite Forall_forall in Hf. specialize (Hf x Hx).
        unfold lu_lt in *. rewrite (Hsame a (or_introl eq_refl)), (Hsame x (or_intror Hx)). exact Hf.
    + apply Forall_forall. intros x Hx. unfold lu_lt. rewrite Hnew, (Hsame x Hx). apply H2; exact Hx.
  - apply Forall_app; split.
    + apply Forall_forall. intros x Hx. rewrite (Hsame x Hx). specialize (H2 x Hx). lia.
    + constructor; [rewrite Hnew; lia|constructor].
Qed.

(* taking an element out keeps the others in order; its key and identity are gone *)
Lemma remove_id_rest k s e : Inv s -> find_key k (order s) = Some e ->
  In e (order s) /\ key_of e = k /\
  Sub (remove_id (eid e) (order s)) (order s) /\
  ~ In k (map key_of (remove_id (eid e) (order s))) /\
  ~ In (eid e) (map eid (remove_id (eid e) (order s))).
Proof.
  intros ([Hk Hi _ _ _ _ _ _ _] & _ & _) Ef. apply find_key_In in Ef as [Hin Hkey].
  destruct (remove_id_split (order s) e Hi Hin) as (l1 & l2 & H1 & H2).
  split; [exact Hin|]. split; [exact Hkey|]. rewrite H2.
  split; [rewrite H1; apply Sub_app_mid|].
  rewrite H1 in Hk, Hi. rewrite map_app in Hk, Hi. simpl in Hk, Hi.
  apply NoDup_remove_2 in Hk. apply NoDup_remove_2 in Hi. rewrite Hkey in Hk.
  rewrite !map_app. split; assumption.
Qed.

(* what one operation does to the recency list *)
Lemma step_order s o : Inv s -> op_ok o ->
  match used s o with
  | None => Sub (order (fst (step s o))) (order s)
  | Some k => exists rest e', key_of e' = k /\ Sub (order (fst (step s o))) (rest ++ [e']) /\
                              Sub rest (order s) /\ ~ In k (map key_of rest)
  end.
Proof.
  intros HI Hok. destruct o as [k v|k|k|k|n|n| |]; unfold used; simpl.
  - (* Add *)
    simpl in Hok. destruct (add k v s) as [s' r] eqn:E.
    destruct (add_spec k v s s' r HI Hok E) as (_ & _ & _ & _ & [(-> & Ho & _)|(-> & _)]); simpl.
    + rewrite Ho. apply Sub_refl.
    + destruct (add_true_shape k v s s' E) as (ev & H1 & _). unfold touched in H1.
      destruct (find_key k (order s)) as [e|] eqn:Ef.
      * destruct (remove_id_rest k s e HI Ef) as (_ & _ & Hsub & Hnk & _).
        exists (remove_id (eid e) (order s)), (mkElem (eid e) (mkEntry k v)).
        split; [reflexivity|]. split; [rewrite H1; apply Sub_app_drop|]. split; assumption.
      * exists (order s), (mkElem (next s) (mkEntry k v)).
        split; [reflexivity|]. split; [rewrite H1; apply Sub_app_drop|].
        split; [apply Sub_refl|apply find_key_None; exact Ef].
  - (* Get *)
    unfold get. destruct (find_key k (order s)) as [e|] eqn:Ef; simpl; [|apply Sub_refl].
    destruct (remove_id_rest k s e HI Ef) as (_ & Hkey & Hsub & Hnk & _).
    exists (remove_id (eid e) (order s)), e. split; [exact Hkey|]. split; [apply Sub_refl|]. split; assumption.
  - (* Remove by key *)
    unfold remove_key. destruct (find_key k (order s)) as [e|] eqn:Ef; simpl; [|apply Sub_refl].
    destruct (remove_id_rest k s e HI Ef) as (_ & _ & Hsub & _). exact Hsub.
  - (* Get + RemoveElement on the handle *)
    unfold get. destruct (find_key k (order s)) as [e|] eqn:Ef; simpl; [|apply Sub_refl].
    destruct (remove_id_rest k s e HI Ef) as (_ & Hkey & Hsub & Hnk & Hni).
    unfold remove_element. simpl. rewrite (find_id_snoc e _ Hni). simpl.
    rewrite (remove_id_snoc e _ Hni).
    exists (remove_id (eid e) (order s)), e. split; [exact Hkey|]. split; [apply Sub_app_l|]. split; assumption.
  - (* Reserve *)
    destruct (reserve_cases n s HI)
      as [(H1 & E)|[(H1 & E)|[(H1 & H2 & E)|[(H1 & H2 & H3 & E)|(H1 & H2 & H3 & s2 & HS & HA2 & E)]]]];
      rewrite E; simpl; try apply Sub_refl.
    destruct HS as [ev Hord _ _ _ _ _ _ _]. simpl in Hord. rewrite Hord. apply Sub_app_drop.
  - (* Unreserve *)
    pose proof (unreserve_spec n s) as H. destruct (unreserve n s) as [s' r]. simpl.
    destruct H as (_ & _ & Ho & _). rewrite Ho. apply Sub_refl.
  - (* one step of the remover *)
    destruct (evictor_step_frame s) as (Ho & _). destruct (evictor_step s) as [s' r]. simpl in *.
    rewrite Ho. apply Sub_refl.
  - (* remover pass *)
    destruct (drain_n_frame (List.length (evq s)) s) as (Ho & _). rewrite Ho. apply Sub_refl.
Qed.

Lemma istep_ordinv s c o : Inv s -> op_ok o -> OrdInv (order s) c ->
  OrdInv (order (fst (step s o))) (tick (used s o) c).
Proof.
  intros HI Hok HO. pose proof (step_order s o HI Hok) as H.
  destruct (used s o) as [k|].
  - destruct H as (rest & e' & Hk & Hs1 & Hs2 & Hnin). subst k.
    apply (ordinv_sub _ (rest ++ [e'])); [exact Hs1|].
    apply ordinv_tick_use; [|exact Hnin]. eapply ordinv_sub; eassumption.
  - apply ordinv_tick_none. eapply ordinv_sub; eassumption.
Qed.

Lemma irun_ordinv ops : forall s c, Inv s -> Forall op_ok ops -> OrdInv (order s) c ->
  Inv (fst (irun (s, c) ops)) /\ OrdInv (order (fst (irun (s, c) ops))) (snd (irun (s, c) ops)).
Proof.
  induction ops as [|o t IH]; intros s c HI Hok HO; simpl; [split; assumption|].
  inversion Hok; subst. unfold istep at 2. simpl. apply IH; [|assumption|].
  - apply step_inv; assumption.
  - apply istep_ordinv; assumption.
Qed.

(* the instrumented run of a history from the empty index *)
Definition history_state (mx hd : Z) (h : list op) : state * clockst := irun (init mx hd, clk0) h.

Lemma order_is_last_use_order mx hd h : 0 < mx -> Forall op_ok h ->
  let st := history_state mx hd h in
  fst st = run (init mx hd) h /\
  StronglySorted (fun a b => (lastuse (snd st) (key_of a) < lastuse (snd st) (key_of b))%nat)
                 (order (fst st)).
Proof.
  intros Hm Hok st. split; [apply (irun_fst h (init mx hd, clk0))|].
  assert (H0 : OrdInv (order (init mx hd)) clk0) by (split; constructor).
  destruct (irun_ordinv h (init mx hd) clk0 (init_inv mx hd Hm) Hok H0) as (_ & Hs & _). exact Hs.
Qed.

(* Consequence: in any reachable state, every entry a Reserve evicts was used strictly earlier
   than every entry that survives it ... *)
Lemma reserve_evicts_least_recent mx hd h n s' : 0 < mx -> Forall op_ok h ->
  let st := history_state mx hd h in
  reserve n (fst st) = (s', Ok tt) ->
  exists ev, order (fst st) = ev ++ order s' /\
    forall a b, In a ev -> In b (order s') ->
      (lastuse (snd st) (key_of a) < lastuse (snd st) (key_of b))%nat.
Proof.
  intros Hm Hok st H.
  assert (H0 : OrdInv (order (init mx hd)) clk0) by (split; constructor).
  destruct (irun_ordinv h (init mx hd) clk0 (init_inv mx hd Hm) Hok H0) as (HI & Hs & _).
  fold (history_state mx hd h) in HI, Hs. fold st in HI, Hs.
  destruct (reserve_evicts_lru_prefix n (fst st) s' HI H) as (ev & Ho & _).
  exists ev. split; [exact Ho|]. rewrite Ho in Hs. apply (sorted_app_lt _ _ _ Hs).
Qed.

(* ... and likewise for the commit, where the committed key counts as used now *)
Lemma add_evicts_least_recent mx hd h k v s' : 0 < mx -> Forall op_ok h -> item_ok v ->
  let st := history_state mx hd h in
  add k v (fst st) = (s', Ok true) ->
  let c' := tick (Some k) (snd st) in
  exists ev, touched k v (fst st) = ev ++ order s' /\
    forall a b, In a ev -> In b (order s') ->
      (lastuse c' (key_of a) < lastuse c' (key_of b))%nat.
Proof.
  intros Hm Hok Hv st H c'.
  assert (H0 : OrdInv (order (init mx hd)) clk0) by (split; constructor).
  destruct (irun_ordinv h (init mx hd) clk0 (init_inv mx hd Hm) Hok H0) as (HI & HO).
  fold (history_state mx hd h) in HI, HO. fold st in HI, HO.
  destruct (add_true_shape k v (fst st) s' H) as (ev & H1 & _).
  exists ev. split; [exact H1|].
  assert (HT : OrdInv (touched k v (fst st)) c').
  { unfold touched. destruct (find_key k (order (fst st))) as [e|] eqn:Ef.
    - destruct (remove_id_rest k (fst st) e HI Ef) as (_ & _ & Hsub & Hnk & _).
      apply (ordinv_tick_use _ (mkElem (eid e) (mkEntry k v))); [|exact Hnk].
      eapply ordinv_sub; eassumption.
    - apply (ordinv_tick_use _ (mkElem (next (fst st)) (mkEntry k v))); [exact HO|].
      apply find_key_None; exact Ef. }
  destruct HT as [Hs _]. rewrite H1 in Hs. apply (sorted_app_lt _ _ _ Hs).
Qed.
