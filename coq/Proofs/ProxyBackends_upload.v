(* Proofs/ProxyBackends_upload.v — the write side of the real proxies (Model/ProxyBackends.v):
   chunking of ByteStream.Write in grpcproxy.UploadFile, size of every WriteRequest against the
   receive limit of a stock gRPC server, the HEAD/PUT sequence of httpproxy.UploadFile, readers
   closed exactly once. *)
From BR Require Import Base.Prelude Model.LRU Model.Disk Gen.ProxySrc Model.ProxyBackends.
Open Scope list_scope.
Open Scope Z_scope.

(* ------------------------------------------------------------------ *)
(* the loop of UploadFile (CAS) over ANY reader *)

Definition reads_within (b : Z) (reads : list (Z * rerr)) : Prop :=
  forall n e, In (n, e) reads -> n <= b.          (* io.Reader: n <= len(buf) *)

(* every chunk sent is non-empty and at most the buffer *)
Lemma up_loop_sends_bounded b reads : reads_within b reads ->
  forall first idx fa h n, In (h, n) (sends_of (up_loop first idx fa reads)) -> 0 < n <= b.
Proof.
  induction reads as [|[n0 e0] rest IH]; intros Hw first idx fa h n Hin.
  - cbn in Hin. contradiction.
  - cbn [up_loop] in Hin.
    assert (Hrest : reads_within b rest) by (intros n' e' H'; apply (Hw n' e'); right; exact H').
    assert (Hn0 : n0 <= b) by (apply (Hw n0 e0); left; reflexivity).
    assert (Go : In (h, n) (sends_of (if n0 >? 0
               then GSend first n0 :: (if fails_at fa idx then [] else up_loop false (S idx) fa rest)
               else [GCloseAndRecv])) -> 0 < n <= b).
    { destruct (n0 >? 0) eqn:En; [|cbn; contradiction].
      cbn [sends_of flat_map app]. intros [H|H].
      - inversion H; subst. lia.
      - destruct (fails_at fa idx); [cbn in H; contradiction|]. eapply IH; eauto. }
    destruct e0; [apply Go; exact Hin|apply Go; exact Hin|cbn in Hin; contradiction].
Qed.

(* the resource name travels with the first WriteRequest only *)
Definition first_only (first : bool) (l : list (bool * Z)) : Prop :=
  match l with [] => True | (h, _) :: t => h = first /\ forall x, In x t -> fst x = false end.

Lemma up_loop_flags reads : forall first idx fa,
  first_only first (sends_of (up_loop first idx fa reads)).
Proof.
  induction reads as [|[n0 e0] rest IH]; intros first idx fa; [exact I|].
  cbn [up_loop].
  assert (Go : first_only first (sends_of (if n0 >? 0
               then GSend first n0 :: (if fails_at fa idx then [] else up_loop false (S idx) fa rest)
               else [GCloseAndRecv]))).
  { destruct (n0 >? 0); [|exact I]. cbn [sends_of flat_map app first_only]. split; [reflexivity|].
    destruct (fails_at fa idx); [cbn; contradiction|].
    specialize (IH false (S idx) fa). fold (sends_of (up_loop false (S idx) fa rest)).
    destruct (sends_of (up_loop false (S idx) fa rest)) as [|[h n] t]; [cbn; contradiction|].
    cbn [first_only] in IH. destruct IH as (-> & IHt). intros x [<-|Hx]; [reflexivity|apply IHt; exact Hx]. }
  destruct e0; [exact Go|exact Go|exact I].
Qed.

(* no Send after a failed Send; the stream is half-closed exactly once unless a Send failed *)
Definition ends_of (tr : list gact) : list gact :=
  filter (fun a => match a with GCloseSend | GCloseAndRecv => true | _ => false end) tr.

Lemma up_loop_no_failure_ends reads : forall first idx,
  exists e, ends_of (up_loop first idx None reads) = [e].
Proof.
  induction reads as [|[n0 e0] rest IH]; intros first idx; [exists GCloseAndRecv; reflexivity|].
  cbn [up_loop fails_at].
  assert (Go : exists e, ends_of (if n0 >? 0 then GSend first n0 :: up_loop false (S idx) None rest
                                  else [GCloseAndRecv]) = [e]).
  { destruct (n0 >? 0); [|exists GCloseAndRecv; reflexivity]. cbn [ends_of filter]. apply IH. }
  destruct e0; [exact Go|exact Go|exists GCloseSend; reflexivity].
Qed.

(* ------------------------------------------------------------------ *)
(* the reads of a regular file *)

Lemma In_repeat {A} (x y : A) n : In y (repeat x n) -> y = x.
Proof. apply repeat_spec. Qed.

Lemma file_reads_within flen b : 0 <= flen -> reads_within b (file_reads flen b) \/ b <= 0.
Proof.
  intros Hf. destruct (Z_le_gt_dec b 0) as [Hb|Hb]; [right; exact Hb|left].
  unfold file_reads. destruct (b <=? 0) eqn:E; [lia|].
  intros n e Hin. apply in_app_or in Hin. destruct Hin as [Hin|Hin].
  - apply In_repeat in Hin. inversion Hin. lia.
  - apply in_app_or in Hin. destruct Hin as [Hin|Hin].
    + destruct (flen mod b =? 0); [contradiction|]. destruct Hin as [Hin|[]]. inversion Hin.
      pose proof (Z.mod_pos_bound flen b). lia.
    + destruct Hin as [Hin|[]]. inversion Hin. lia.
Qed.

Lemma sends_repeat first idx b rest n : 0 < b ->
  exists l, sends_of (up_loop first idx None (repeat (b, RNil) n ++ rest)) =
            l ++ sends_of (up_loop (first && Nat.eqb n 0) (idx + n) None rest) /\
            sumZ snd l = Z.of_nat n * b.
Proof.
  intros Hb. revert first idx. induction n as [|n IH]; intros first idx.
  - exists []. cbn [repeat app]. rewrite Nat.add_0_r, andb_true_r. split; reflexivity.
  - cbn [repeat app up_loop fails_at]. destruct (b >? 0) eqn:E; [|lia].
    destruct (IH false (S idx)) as (l & Hl & Hs).
    exists ((first, b) :: l). cbn [sends_of flat_map app]. fold (sends_of (up_loop false (S idx) None (repeat (b, RNil) n ++ rest))).
    rewrite Hl. cbn [andb]. rewrite andb_false_r.
    replace (idx + S n)%nat with (S idx + n)%nat by lia. split; [reflexivity|].
    cbn [sumZ snd]. rewrite Hs. lia.
Qed.

(* a healthy upload of a file of flen bytes sends exactly flen bytes and then CloseAndRecv *)
Lemma upload_file_total flen b : 0 <= flen -> 0 < b ->
  sumZ snd (sends_of (grpc_upload_cas false None (file_reads flen b))) = flen.
Proof.
  intros Hf Hb. unfold grpc_upload_cas, file_reads. destruct (b <=? 0) eqn:E; [lia|].
  unfold sends_of at 1. rewrite flat_map_app. cbn [flat_map app]. rewrite app_nil_r.
  fold (sends_of (up_loop true 0 None
     (repeat (b, RNil) (Z.to_nat (flen / b)) ++ (if flen mod b =? 0 then [] else [(flen mod b, RNil)]) ++ [(0, REof)]))).
  destruct (sends_repeat true 0 b ((if flen mod b =? 0 then [] else [(flen mod b, RNil)]) ++ [(0, REof)])
              (Z.to_nat (flen / b)) Hb) as (l & Hl & Hs).
  rewrite Hl, sumZ_app, Hs.
  pose proof (Z.div_pos flen b Hf Hb) as Hq. rewrite Z2Nat.id by exact Hq.
  pose proof (Z.mod_pos_bound flen b Hb) as Hm.
  pose proof (Z.div_mod flen b ltac:(lia)) as Hdm.
  destruct (flen mod b =? 0) eqn:Em.
  - cbn. lia.
  - cbn [app up_loop fails_at]. destruct (flen mod b >? 0) eqn:Eg; [|lia]. cbn. lia.
Qed.

(* ------------------------------------------------------------------ *)
(* sizes on the wire *)

Lemma ndigits_bounds n : 1 <= ndigits n <= 19.
Proof. unfold ndigits. repeat match goal with |- context [if ?c then _ else _] => destruct c end; lia. Qed.

Lemma dec_len_bounds z : 1 <= dec_len z <= 20.
Proof. unfold dec_len. pose proof (ndigits_bounds z). pose proof (ndigits_bounds (- z)). destruct (z <? 0); lia. Qed.

Lemma rn_len_bounds v2 logical : 117 <= rn_len v2 logical <= rn_len_max.
Proof. unfold rn_len, rn_len_max, uuid_len, hash_len. pose proof (dec_len_bounds logical). destruct v2; lia. Qed.

Lemma varint_len_small n : n < 16384 -> varint_len n <= 2.
Proof. intros H. unfold varint_len. destruct (n <? 128); [lia|]. destruct (n <? 16384) eqn:E; lia. Qed.

Lemma varint_len_28 n : n < 268435456 -> varint_len n <= 4.
Proof.
  intros H. unfold varint_len. destruct (n <? 128); [lia|]. destruct (n <? 16384); [lia|].
  destruct (n <? 2097152); [lia|]. destruct (n <? 268435456) eqn:E; lia.
Qed.

Lemma field_len_name v2 logical : field_len (rn_len v2 logical) <= 1 + 2 + rn_len_max.
Proof.
  pose proof (rn_len_bounds v2 logical) as H. unfold field_len. unfold rn_len_max, uuid_len, hash_len in *.
  destruct (rn_len v2 logical =? 0); [lia|].
  pose proof (varint_len_small (rn_len v2 logical)). lia.
Qed.

Lemma field_len_data n : 0 <= n < 268435456 -> field_len n <= 1 + 4 + n.
Proof. intros H. unfold field_len. destruct (n =? 0); [lia|]. pose proof (varint_len_28 n). lia. Qed.

(* the premise on the chunk size under which every WriteRequest fits a stock receiver *)
Definition chunk_fits (maxc : Z) : Prop := 0 < maxc /\ maxc + wire_overhead <= grpc_default_max_recv.

Lemma msg_size_fits maxc v2 logical h n :
  chunk_fits maxc -> 0 < n <= maxc -> msg_size v2 logical (h, n) <= grpc_default_max_recv.
Proof.
  unfold chunk_fits, wire_overhead, grpc_default_max_recv, msg_size, wire_size. cbn [fst snd].
  intros (Hp & Hfit) Hn.
  pose proof (field_len_data n) as Hd. pose proof (field_len_name v2 logical) as Hr.
  unfold rn_len_max, uuid_len, hash_len in *.
  destruct h.
  - lia.
  - change (field_len 0) with 0. lia.
Qed.

Lemma buf_size_le sod maxc : buf_size sod maxc <= maxc.
Proof. unfold buf_size. destruct (sod >? maxc) eqn:E; lia. Qed.

(* The chunk theorem: whatever the entry (any LogicalSize, SizeOnDisk, file length, storage mode),
   wherever a Send fails, every WriteRequest of an upload carries between 1 and maxc bytes and fits
   the default receive limit of a gRPC server, the first carries the resource name and no other does. *)
Lemma upload_msgs_fit maxc v2 logical sod flen open_err fa :
  chunk_fits maxc -> 0 <= flen ->
  let msgs := sends_of (grpc_upload_cas open_err fa (file_reads flen (buf_size sod maxc))) in
  (forall h n, In (h, n) msgs -> 0 < n <= maxc /\ msg_size v2 logical (h, n) <= grpc_default_max_recv) /\
  first_only true msgs.
Proof.
  intros Hc Hf msgs. subst msgs. unfold grpc_upload_cas. destruct open_err; [split; [intros h n []|exact I]|].
  assert (E : sends_of (up_loop true 0 fa (file_reads flen (buf_size sod maxc)) ++ [GCloseRc]) =
              sends_of (up_loop true 0 fa (file_reads flen (buf_size sod maxc)))).
  { unfold sends_of. rewrite flat_map_app. cbn. apply app_nil_r. }
  rewrite E. split; [|apply up_loop_flags].
  intros h n Hin.
  assert (Hn : 0 < n <= maxc).
  { destruct (file_reads_within flen (buf_size sod maxc) Hf) as [Hw|Hb].
    - pose proof (up_loop_sends_bounded _ _ Hw _ _ _ _ _ Hin). pose proof (buf_size_le sod maxc). lia.
    - exfalso. unfold file_reads in Hin. destruct (buf_size sod maxc <=? 0) eqn:Eb; [|lia].
      cbn in Hin. exact Hin. }
  split; [exact Hn|]. apply (msg_size_fits maxc); assumption.
Qed.

(* the generated constant satisfies the premise (this is the obligation a larger chunk size breaks) *)
Lemma maxChunkSize_fits : chunk_fits ProxySrc.maxChunkSize.
Proof. unfold chunk_fits, ProxySrc.maxChunkSize, wire_overhead, rn_len_max, uuid_len, hash_len, grpc_default_max_recv. lia. Qed.

Lemma upload_msgs_fit_gen v2 logical sod flen open_err fa :
  0 <= flen ->
  let msgs := sends_of (grpc_upload_cas open_err fa (file_reads flen (buf_size sod ProxySrc.maxChunkSize))) in
  (forall h n, In (h, n) msgs ->
     0 < n <= ProxySrc.maxChunkSize /\ msg_size v2 logical (h, n) <= grpc_default_max_recv) /\
  first_only true msgs.
Proof. intros Hf. apply upload_msgs_fit; [exact maxChunkSize_fits|exact Hf]. Qed.

(* ... and the requirement is sharp: with a chunk size of 4 MiB the first WriteRequest of a 4 MiB
   file is larger than the limit *)
Lemma chunk_4MiB_does_not_fit :
  exists m, In m (sends_of (grpc_upload_cas false None (file_reads 4194305 (buf_size 4194305 4194304)))) /\
            msg_size false 4194305 m > grpc_default_max_recv.
Proof. exists (true, 4194304). split; [vm_compute; left; reflexivity|vm_compute; reflexivity]. Qed.

(* the reader is closed exactly once (deferred Close), in every arm *)
Definition rc_closes (tr : list gact) : Z := sumZ (fun a => match a with GCloseRc => 1 | _ => 0 end) tr.

Lemma up_loop_no_close reads : forall first idx fa, rc_closes (up_loop first idx fa reads) = 0.
Proof.
  induction reads as [|[n0 e0] rest IH]; intros first idx fa; [reflexivity|].
  cbn [up_loop].
  assert (Go : rc_closes (if n0 >? 0
               then GSend first n0 :: (if fails_at fa idx then [] else up_loop false (S idx) fa rest)
               else [GCloseAndRecv]) = 0).
  { destruct (n0 >? 0); [|reflexivity]. unfold rc_closes. cbn [sumZ].
    destruct (fails_at fa idx); [reflexivity|]. apply IH. }
  destruct e0; [exact Go|exact Go|reflexivity].
Qed.

Lemma grpc_upload_closes_once open_err fa reads : rc_closes (grpc_upload_cas open_err fa reads) = 1.
Proof.
  unfold grpc_upload_cas. destruct open_err; [reflexivity|].
  unfold rc_closes. rewrite sumZ_app. fold (rc_closes (up_loop true 0 fa reads)).
  rewrite up_loop_no_close. reflexivity.
Qed.

(* AC/RAW: the upload spins for ever exactly when the local reader keeps failing before SizeOnDisk
   bytes were read (a fault of the local file, not of the backend) *)
Lemma grpc_upload_ac_hang_iff logical sod avail tail_err parses ok :
  grpc_upload_ac logical sod avail tail_err parses ok = AUHang <-> avail < sod /\ tail_err = true.
Proof.
  unfold grpc_upload_ac. destruct (sod <=? avail) eqn:E; destruct parses; destruct tail_err;
    (split; [intros H; first [discriminate H | split; [lia|reflexivity]]
            |intros (H1 & H2); first [discriminate H2 | lia | reflexivity]]).
Qed.

Lemma grpc_upload_ac_update_iff logical sod avail tail_err parses ok l o :
  grpc_upload_ac logical sod avail tail_err parses ok = AUUpdate l o <->
  sod <= avail /\ parses = true /\ l = logical /\ o = ok.
Proof.
  unfold grpc_upload_ac. destruct (sod <=? avail) eqn:E; destruct parses; destruct tail_err;
    (split; [intros H; first [discriminate H | inversion H; repeat split; lia]
            |intros (H1 & H2 & H3 & H4); first [discriminate H2 | lia | subst; reflexivity]]).
Qed.

(* ------------------------------------------------------------------ *)
(* httpproxy.UploadFile *)

(* the file's reader is closed exactly once, in every arm *)
Lemma http_upload_closes_once logical sod e : closes_of_file (http_upload logical sod e) = 1.
Proof.
  unfold http_upload, closes_of_file.
  destruct (logical =? 0); cbn [negb];
  destruct (hu_headreq_err e); try reflexivity;
  destruct (hu_head e) as [|r]; try destruct (h_status r =? http_StatusOK); try reflexivity;
  destruct (hu_putreq_err e); try reflexivity;
  destruct (hu_put e) as [|r2]; try reflexivity; destruct (h_berr r2); reflexivity.
Qed.

(* at most one PUT, with Content-Length = SizeOnDisk and the file as body (http.NoBody for an entry
   of logical size 0); it is attempted exactly when the HEAD did not answer 200 *)
Lemma http_upload_puts logical sod e :
  puts_of (http_upload logical sod e) =
    if hu_headreq_err e || hu_putreq_err e ||
       (match hu_head e with HReply r => h_status r =? http_StatusOK | _ => false end)
    then [] else [(negb (logical =? 0), sod)].
Proof.
  unfold http_upload, puts_of.
  destruct (logical =? 0); cbn [negb];
  destruct (hu_headreq_err e); cbn [orb]; try reflexivity;
  destruct (hu_head e) as [|r]; try destruct (h_status r =? http_StatusOK); cbn [orb]; try rewrite orb_true_r; try reflexivity;
  destruct (hu_putreq_err e); cbn [orb]; try reflexivity;
  destruct (hu_put e) as [|r2]; try reflexivity; destruct (h_berr r2); reflexivity.
Qed.

(* the status of the PUT reply is never looked at: nothing distinguishes 200 from 500 *)
Lemma http_upload_status_blind logical sod a h b r1 r2 :
  h_berr r1 = h_berr r2 ->
  http_upload logical sod (mkHUp a h b (HReply r1)) = http_upload logical sod (mkHUp a h b (HReply r2)).
Proof. intros E. unfold http_upload. cbn [hu_headreq_err hu_head hu_putreq_err hu_put]. rewrite E. reflexivity. Qed.
