(* Proofs/Config_agree.v — the flag/environment front end and the YAML front end derive the same
   effective configuration from settings both can express.
   Part 1: validation does not look at the two places where the front ends' configurations may
   legitimately differ before validation (max_size_hard_limit -1 vs 0, LDAP username attribute
   "uid" vs ""), so it is enough to compare the configurations up to [canon]. *)
From BR Require Import Base.Prelude Gen.Config Model.Config Bridge.Bridge_Config.
Open Scope string_scope.
Open Scope Z_scope.

Definition canon_ldap (l : LDAPConfig) : LDAPConfig :=
  if String.eqb (LDAPConfig_UsernameAttribute l) "" then set_LDAPConfig_UsernameAttribute "uid" l else l.

(* written with projections so that it computes on any configuration term *)
Definition canon (c : Config) : Config :=
  mkConfig
    (Config_HTTPAddress c) (Config_GRPCAddress c) (Config_ProfileAddress c) (Config_Dir c) (Config_MaxSize
    c) (Z.max 0 (Config_MaxSizeHardLimit c)) (Config_StorageMode c) (Config_ZstdImplementation c)
    (Config_HtpasswdFile c) (option_map canon_ldap (Config_LDAP c)) (Config_MinTLSVersion c)
    (Config_TLSCaFile c) (Config_TLSCertFile c) (Config_TLSKeyFile c) (Config_AllowUnauthenticatedReads c)
    (Config_S3CloudStorage c) (Config_AzBlobConfig c) (Config_GoogleCloudStorage c) (Config_HTTPBackend c)
    (Config_GRPCBackend c) (Config_NumUploaders c) (Config_MaxQueuedUploads c) (Config_IdleTimeout c)
    (Config_DisableHTTPACValidation c) (Config_DisableGRPCACDepsCheck c) (Config_EnableACKeyInstanceMangling
    c) (Config_EnableEndpointMetrics c) (Config_MetricsDurationBuckets c) (Config_HttpMetricsPrefix c)
    (Config_ExperimentalRemoteAssetAPI c) (Config_HTTPReadTimeout c) (Config_HTTPWriteTimeout c)
    (Config_AccessLogLevel c) (Config_LogTimezone c) (Config_MaxBlobSize c) (Config_MaxProxyBlobSize c).

Lemma ldap_defaults_canon l : ldap_defaults (canon_ldap l) = ldap_defaults l.
Proof.
  destruct l as [u b bu bp ua gq ct]. unfold canon_ldap, ldap_defaults. simpl.
  destruct (String.eqb ua "") eqn:E; simpl; [|rewrite E; reflexivity].
  reflexivity.
Qed.

Definition finish (r : result Config) : result Config := bind r (fun c => Ok c).

(* validation of the canonical form: same verdict, and the same effective configuration *)
Lemma validate_canon X c : eff (validate_config X (canon c)) = eff (validate_config X c).
Proof.
  destruct c as [a1 a2 a3 a4 a5 hard a7 a8 a9 ldap a11 a12 a13 a14 a15 a16 a17 a18 a19 a20 a21 a22 a23 a24 a25 a26 a27
                 a28 a29 a30 a31 a32 a33 a34 a35 a36].
  unfold validate_config, canon. cbn [Config_HTTPAddress Config_GRPCAddress Config_ProfileAddress Config_Dir Config_MaxSize Config_MaxSizeHardLimit Config_StorageMode Config_ZstdImplementation Config_HtpasswdFile Config_LDAP Config_MinTLSVersion Config_TLSCaFile Config_TLSCertFile Config_TLSKeyFile Config_AllowUnauthenticatedReads Config_S3CloudStorage Config_AzBlobConfig Config_GoogleCloudStorage Config_HTTPBackend Config_GRPCBackend Config_NumUploaders Config_MaxQueuedUploads Config_IdleTimeout Config_DisableHTTPACValidation Config_DisableGRPCACDepsCheck Config_EnableACKeyInstanceMangling Config_EnableEndpointMetrics Config_MetricsDurationBuckets Config_HttpMetricsPrefix Config_ExperimentalRemoteAssetAPI Config_HTTPReadTimeout Config_HTTPWriteTimeout Config_AccessLogLevel Config_LogTimezone Config_MaxBlobSize Config_MaxProxyBlobSize].
  set (c := mkConfig a1 a2 a3 a4 a5 hard a7 a8 a9 ldap a11 a12 a13 a14 a15 a16 a17 a18 a19 a20 a21 a22 a23 a24 a25 a26 a27
                 a28 a29 a30 a31 a32 a33 a34 a35 a36).
  set (c' := mkConfig a1 a2 a3 a4 a5 (Z.max 0 hard) a7 a8 a9 (option_map canon_ldap ldap) a11 a12 a13 a14 a15 a16 a17 a18
                 a19 a20 a21 a22 a23 a24 a25 a26 a27 a28 a29 a30 a31 a32 a33 a34 a35 a36).
  cbv beta delta [bind].
  replace (st_required c') with (st_required c) by reflexivity.
  destruct (st_required c) as [[]| | |]; try reflexivity; cbv beta iota.
  replace (st_http X c') with (st_http X c) by reflexivity.
  destruct (st_http X c) as [p| | |]; try reflexivity; cbv beta iota.
  replace (st_grpc X c' p) with (st_grpc X c p) by reflexivity.
  destruct (st_grpc X c p) as [[]| | |]; try reflexivity; cbv beta iota.
  replace (st_profile c') with (st_profile c) by reflexivity.
  destruct (st_profile c) as [[]| | |]; try reflexivity; cbv beta iota.
  replace (st_tls_auth_limits c') with (st_tls_auth_limits c) by (subst c c'; destruct ldap; reflexivity).
  destruct (st_tls_auth_limits c) as [[]| | |]; try reflexivity; cbv beta iota.
  replace (st_gcs c') with (st_gcs c) by reflexivity.
  destruct (st_gcs c) as [[]| | |]; try reflexivity; cbv beta iota.
  destruct (st_url_backend a19 "http") as [[]| | |]; try reflexivity; cbv beta iota.
  destruct (st_url_backend a20 "grpc") as [[]| | |]; try reflexivity; cbv beta iota.
  replace (st_s3 X c') with (st_s3 X c) by reflexivity.
  destruct (st_s3 X c) as [[]| | |]; try reflexivity; cbv beta iota.
  replace (st_azblob X c') with (st_azblob X c) by reflexivity.
  destruct (st_azblob X c) as [[]| | |]; try reflexivity; cbv beta iota.
  replace (st_buckets c') with (st_buckets c) by reflexivity.
  destruct (st_buckets c) as [[]| | |]; try reflexivity; cbv beta iota.
  subst c c'. unfold st_ldap. cbn [Config_HtpasswdFile Config_TLSCaFile Config_LDAP].
  destruct ldap as [l|]; cbn [option_map is_some].
  - destruct (_ && _); [reflexivity|].
    replace (LDAPConfig_URL (canon_ldap l)) with (LDAPConfig_URL l)
      by (unfold canon_ldap; destruct l; simpl; destruct (String.eqb _ ""); reflexivity).
    replace (LDAPConfig_BaseDN (canon_ldap l)) with (LDAPConfig_BaseDN l)
      by (unfold canon_ldap; destruct l; simpl; destruct (String.eqb _ ""); reflexivity).
    destruct (String.eqb (LDAPConfig_URL l) ""); [reflexivity|].
    destruct (String.eqb (LDAPConfig_BaseDN l) ""); [reflexivity|].
    rewrite ldap_defaults_canon. cbn [set_Config_LDAP]. unfold st_logging. cbn -[Z.max String.eqb].
    destruct (_ || _); [|reflexivity]. destruct (_ || _); [|reflexivity].
    unfold eff. f_equal. cbn -[Z.max]. rewrite Z.max_assoc, Z.max_id. reflexivity.
  - destruct (_ && _); [reflexivity|]. unfold st_logging. cbn -[Z.max String.eqb].
    destruct (_ || _); [|reflexivity]. destruct (_ || _); [|reflexivity].
    unfold eff. f_equal. cbn -[Z.max]. rewrite Z.max_assoc, Z.max_id. reflexivity.
Qed.

(* ------------------------------------------------------------------ *)
(* Part 2: what a flag read and a YAML key read have in common *)

Lemma value_eqb_eq a b : value_eqb a b = true -> a = b.
Proof.
  destruct a, b; simpl; intros H; try discriminate.
  - apply String.eqb_eq in H. congruence.
  - apply Z.eqb_eq in H. congruence.
  - apply Bool.eqb_prop in H. congruence.
  - apply Z.eqb_eq in H. congruence.
  - f_equal. apply (list_eqb_spec Z.eqb); [intros; apply Z.eqb_eq|exact H].
Qed.

Lemma kind_eqb_eq a b : kind_eqb a b = true -> a = b.
Proof. destruct a, b; simpl; intros H; try discriminate; reflexivity. Qed.

Lemma forallb_map {A B} (f : B -> bool) (h : A -> B) l : forallb f (map h l) = forallb (fun x => f (h x)) l.
Proof. induction l as [|x t IH]; simpl; [reflexivity|rewrite IH; reflexivity]. Qed.

(* the flag named k has this kind and this default *)
Definition flag_is (k : string) (kd : kind) (d : value) : bool :=
  match find_flag k cli_flags with
  | Some f => kind_eqb (fl_kind f) kd && value_eqb (fl_default f) d
  | None => false
  end.

Lemma flag_is_spec k kd d : flag_is k kd d = true ->
  exists f, find_flag k cli_flags = Some f /\ fl_kind f = kd /\ fl_default f = d.
Proof.
  unfold flag_is. destruct (find_flag k cli_flags) as [f|]; [|discriminate].
  intros H. apply andb_true_iff in H as [H1 H2]. exists f. split; [reflexivity|].
  split; [apply kind_eqb_eq; exact H1|apply value_eqb_eq; exact H2].
Qed.

Section FrontEnds.
  Variable up : string -> option URL.
  Variable s : settings.
  Hypothesis Hflags : flags_ok s = true.
  Hypothesis Hyaml : yaml_keys_ok s = true.

  Let G := fun n => lookup n s.
  Let ctx := ctx_of G.
  Let y := yaml_data_of G.

  Lemma typed k v : G k = Some v -> flag_accepts k v = true.
  Proof.
    unfold G. clear ctx y Hyaml. induction s as [|[k' v'] t IH]; simpl in *; [discriminate|].
    apply andb_true_iff in Hflags as [H1 H2].
    destruct (String.eqb k' k) eqn:E.
    - apply String.eqb_eq in E. subst k'. intros [= <-]. exact H1.
    - apply IH; assumption.
  Qed.

  Lemma yamlable k v : G k = Some v -> exists yp, yaml_key_of k = Some yp /\ settings_key yp = k.
  Proof.
    unfold G. clear ctx y Hflags. induction s as [|[k' v'] t IH]; simpl in *; [discriminate|].
    apply andb_true_iff in Hyaml as [H1 H2].
    destruct (String.eqb k' k) eqn:E.
    - apply String.eqb_eq in E. subst k'. intros _.
      destruct (yaml_key_of k) as [yp|]; [|discriminate]. exists yp. split; [reflexivity|].
      apply String.eqb_eq. exact H1.
    - apply IH; assumption.
  Qed.

  (* a key without a YAML spelling is not among the settings *)
  Lemma not_yamlable k : yaml_key_of k = None -> G k = None.
  Proof. intros H. destruct (G k) eqn:E; [|reflexivity]. apply yamlable in E as [yp [E _]]. congruence. Qed.

  Lemma typed_as k kd d v : flag_is k kd d = true -> G k = Some v -> kind_accepts kd v = true.
  Proof.
    intros F E. apply typed in E. unfold flag_accepts in E.
    apply flag_is_spec in F as [f [F1 [F2 _]]]. rewrite F1, F2 in E. exact E.
  Qed.

  Lemma default_of k kd d : flag_is k kd d = true -> G k = None -> flag_value G k = Some d.
  Proof.
    intros F E. unfold flag_value. rewrite E.
    apply flag_is_spec in F as [f [F1 [_ F3]]]. rewrite F1. simpl. congruence.
  Qed.

  Lemma ctxS k yk d : flag_is k KString (VS d) = true -> settings_key yk = k ->
    Ctx_String ctx k = yS y yk d.
  Proof.
    intros F K. unfold ctx, y, ctx_of, yaml_data_of, yS. cbn [Ctx_String]. rewrite K.
    destruct (G k) as [v|] eqn:E.
    - pose proof (typed_as _ _ _ _ F E) as T. unfold flag_value. rewrite E.
      destruct v; simpl in T; try discriminate. reflexivity.
    - rewrite (default_of _ _ _ F E). reflexivity.
  Qed.

  Lemma ctxI k yk d : (flag_is k KInt (VI d) || flag_is k KInt64 (VI d)) = true -> settings_key yk = k ->
    Ctx_Int ctx k = yI y yk d /\ Ctx_Int64 ctx k = yI y yk d.
  Proof.
    intros F K. unfold ctx, y, ctx_of, yaml_data_of, yI. cbn [Ctx_Int Ctx_Int64]. rewrite K.
    apply orb_true_iff in F. destruct (G k) as [v|] eqn:E.
    - assert (T : exists z, v = VI z).
      { destruct F as [F|F]; pose proof (typed_as _ _ _ _ F E) as T; destruct v; simpl in T; try discriminate; eauto. }
      destruct T as [z ->]. unfold flag_value. rewrite E. split; reflexivity.
    - destruct F as [F|F]; rewrite (default_of _ _ _ F E); split; reflexivity.
  Qed.

  Lemma ctxB k yk d : flag_is k KBool (VB d) = true -> settings_key yk = k ->
    Ctx_Bool ctx k = yB y yk d.
  Proof.
    intros F K. unfold ctx, y, ctx_of, yaml_data_of, yB. cbn [Ctx_Bool]. rewrite K.
    destruct (G k) as [v|] eqn:E.
    - pose proof (typed_as _ _ _ _ F E) as T. unfold flag_value. rewrite E.
      destruct v; simpl in T; try discriminate. reflexivity.
    - rewrite (default_of _ _ _ F E). reflexivity.
  Qed.

  Lemma ctxD k yk d : flag_is k KDuration (VD d) = true -> settings_key yk = k ->
    Ctx_Duration ctx k = yD y yk d.
  Proof.
    intros F K. unfold ctx, y, ctx_of, yaml_data_of, yD. cbn [Ctx_Duration]. rewrite K.
    destruct (G k) as [v|] eqn:E.
    - pose proof (typed_as _ _ _ _ F E) as T. unfold flag_value. rewrite E.
      destruct v; simpl in T; try discriminate. reflexivity.
    - rewrite (default_of _ _ _ F E). reflexivity.
  Qed.

  (* a string flag that is given: the YAML default does not matter *)
  Lemma ctxS_given k yk d d' : flag_is k KString (VS d) = true -> settings_key yk = k -> present s k = true ->
    Ctx_String ctx k = yS y yk d'.
  Proof.
    intros F K P. unfold ctx, y, ctx_of, yaml_data_of, yS. cbn [Ctx_String]. rewrite K.
    unfold present in P. fold (G k) in P. destruct (G k) as [v|] eqn:E; [|discriminate].
    pose proof (typed_as _ _ _ _ F E) as T. unfold flag_value. rewrite E.
    destruct v; simpl in T; try discriminate. reflexivity.
  Qed.

  (* whether a string setting is given and not empty, seen from both sides *)
  Lemma str_given_flag k d : flag_is k KString (VS "") = true -> d = "" ->
    negb (String.eqb (Ctx_String ctx k) d) = str_given s k.
  Proof.
    intros F ->. unfold str_given, ctx, ctx_of. cbn [Ctx_String]. fold (G k).
    destruct (G k) as [v|] eqn:E.
    - pose proof (typed_as _ _ _ _ F E) as T. unfold flag_value. rewrite E.
      destruct v; simpl in T; try discriminate. reflexivity.
    - rewrite (default_of _ _ _ F E). reflexivity.
  Qed.
End FrontEnds.
