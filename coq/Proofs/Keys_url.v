(* Proofs/Keys_url.v — what the request-URL recogniser (the model of blobNameSHA256 with Go's
   leftmost-first group semantics) accepts and captures, and the action-cache key both front ends
   derive from a hash and an instance name. *)
From BR Require Import Base.Prelude Model.Keys Proofs.Keys_strings.
Open Scope string_scope.
Open Scope Z_scope.

Definition kw (cas : bool) : string := if cas then "cas/" else "ac/".

(* ---- the tail (ac/|cas/)([a-f0-9]{64})$ *)
Lemma tail_match_inv s t :
  tail_match s = Some t ->
  is_hash (snd t) = true /\ s = (if fst t then "cas/" else "ac/") ++ snd t.
Proof.
  unfold tail_match. intros H.
  destruct (starts_with "ac/" s && is_hash (drop 3 s)) eqn:E1.
  - injection H as <-. apply andb_true_iff in E1 as [P Hh]. split; [exact Hh|].
    apply starts_with_inv in P. exact P.
  - destruct (starts_with "cas/" s && is_hash (drop 4 s)) eqn:E2; [|discriminate].
    injection H as <-. apply andb_true_iff in E2 as [P Hh]. split; [exact Hh|].
    apply starts_with_inv in P. exact P.
Qed.

Lemma tail_match_len s t : tail_match s = Some t -> (67 <= String.length s <= 68)%nat.
Proof.
  intros H. destruct (tail_match_inv s t H) as [Hh ->]. apply is_hash_length in Hh.
  rewrite slength_app, Hh. destruct (fst t); cbn; lia.
Qed.

Lemma tail_match_short s : (String.length s < 67)%nat -> tail_match s = None.
Proof. intros L. destruct (tail_match s) eqn:E; [|reflexivity]. apply tail_match_len in E. lia. Qed.

Lemma tail_match_ac h : is_hash h = true -> tail_match ("ac/" ++ h) = Some (false, h).
Proof. intros H. unfold tail_match. cbn [append starts_with drop]. rewrite !Ascii.eqb_refl, H. reflexivity. Qed.

Lemma tail_match_cas h : is_hash h = true -> tail_match ("cas/" ++ h) = Some (true, h).
Proof. intros H. unfold tail_match. cbn. rewrite H. reflexivity. Qed.

(* ---- the optional group (.*/)? *)
Lemma g1_short s : (String.length s <= 67)%nat -> g1 s = None.
Proof.
  induction s as [|c s IH]; intros L; [reflexivity|]. cbn [g1]. cbn [String.length] in L.
  destruct (Ascii.eqb c nl); [reflexivity|].
  rewrite IH by lia. rewrite tail_match_short by lia. destruct (is_slash c); reflexivity.
Qed.

Lemma g1_tail_none (k : bool) h : is_hash h = true -> g1 (kw k ++ h) = None.
Proof.
  intros Hh. pose proof (is_hash_length h Hh) as L. destruct k.
  - cbn. rewrite (g1_short h) by lia. rewrite (tail_match_short h) by lia. reflexivity.
  - apply g1_short. unfold kw. rewrite slength_app, L. cbn. lia.
Qed.

(* .* takes everything up to the LAST place where the rest still matches *)
Lemma g1_main X T t :
  no_newline X = true -> tail_match T = Some t -> g1 T = None ->
  g1 (X ++ String "/" T) = Some (X, t).
Proof.
  intros HX HT HG. induction X as [|c X IH].
  - cbn. rewrite HG, HT. reflexivity.
  - cbn [append g1]. unfold no_newline in HX. cbn [all_chars] in HX.
    apply andb_true_iff in HX as [Hc HX]. apply negb_true_iff in Hc. rewrite Hc.
    rewrite (IH HX). reflexivity.
Qed.

Lemma trim_suffix_slash_app X : trim_suffix_slash (X ++ "/") = X.
Proof.
  induction X as [|c X IH]; [reflexivity|].
  cbn [append trim_suffix_slash]. destruct X as [|d X]; [reflexivity|].
  cbn [append] in *. rewrite IH. reflexivity.
Qed.

Definition kind_of (cas validateAC : bool) : kind := if cas then CAS else if validateAC then AC else RAW.
(* one leading slash is not part of the instance name *)
Definition strip_lead (p : string) : string :=
  match p with String c r => if is_slash c then r else p | "" => "" end.

Lemma after_opt_slash_prefix X cas h :
  no_newline X = true -> is_hash h = true ->
  after_opt_slash (X ++ String "/" (kw cas ++ h)) = Some (X ++ "/", (cas, h)).
Proof.
  intros HX Hh. unfold after_opt_slash.
  rewrite (g1_main X (kw cas ++ h) (cas, h)); [reflexivity|exact HX| |].
  - destruct cas; [apply tail_match_cas|apply tail_match_ac]; exact Hh.
  - apply (g1_tail_none cas h Hh).
Qed.

Lemma after_opt_slash_bare cas h :
  is_hash h = true -> after_opt_slash (kw cas ++ h) = Some ("", (cas, h)).
Proof.
  intros Hh. unfold after_opt_slash. rewrite (g1_tail_none cas h Hh).
  destruct cas; unfold kw; [rewrite (tail_match_cas h Hh)|rewrite (tail_match_ac h Hh)]; reflexivity.
Qed.

(* Every path P ++ "/" ++ (ac/|cas/) ++ hash with a newline-free P is accepted; the hash is the
   last 64 digits, the instance is P without ONE leading slash. *)
Lemma parse_prefixed P cas h v :
  no_newline P = true -> is_hash h = true ->
  parse_request_url (P ++ String "/" (kw cas ++ h)) v = Some (kind_of cas v, h, strip_lead P).
Proof.
  intros HP Hh. unfold parse_request_url, re_blobName.
  destruct P as [|c P].
  - (* "/ac/<hash>" *)
    cbn [append]. change (is_slash "/") with true. cbv iota.
    rewrite (after_opt_slash_bare cas h Hh). reflexivity.
  - cbn [append]. destruct (is_slash c) eqn:Ec.
    + unfold no_newline in HP. cbn [all_chars] in HP. apply andb_true_iff in HP as [_ HP].
      rewrite (after_opt_slash_prefix P cas h HP Hh). rewrite trim_suffix_slash_app.
      cbn [strip_lead]. rewrite Ec. reflexivity.
    + change (String c (P ++ String "/" (kw cas ++ h))) with (String c P ++ String "/" (kw cas ++ h)).
      rewrite (after_opt_slash_prefix (String c P) cas h HP Hh). rewrite trim_suffix_slash_app.
      cbn [strip_lead]. rewrite Ec. reflexivity.
Qed.

Lemma re_blobName_noslash s : starts_with "/" s = false -> re_blobName s = after_opt_slash s.
Proof.
  destruct s as [|c r]; [reflexivity|]. cbn [starts_with re_blobName]. unfold is_slash.
  rewrite (Ascii.eqb_sym c "/"). destruct (Ascii.eqb "/" c); [discriminate|reflexivity].
Qed.

Lemma parse_bare cas h v :
  is_hash h = true -> parse_request_url (kw cas ++ h) v = Some (kind_of cas v, h, "").
Proof.
  intros Hh. unfold parse_request_url.
  rewrite re_blobName_noslash by (destruct cas; reflexivity).
  rewrite (after_opt_slash_bare cas h Hh). reflexivity.
Qed.

(* the URL a client uses for instance I: the instance comes back unchanged, for EVERY newline-free I *)
Lemma parse_http_ac_url I h v :
  no_newline I = true -> is_hash h = true ->
  parse_request_url (http_ac_url I h) v = Some (kind_of false v, h, I).
Proof.
  intros HI Hh. unfold http_ac_url. destruct (String.eqb I "") eqn:E.
  - apply String.eqb_eq in E. subst I. exact (parse_prefixed "" false h v eq_refl Hh).
  - change ("/" ++ I ++ "/ac/" ++ h) with (String "/" I ++ String "/" (kw false ++ h)).
    rewrite (parse_prefixed (String "/" I) false h v); [reflexivity| |exact Hh].
    unfold no_newline in *. cbn [all_chars]. rewrite HI. reflexivity.
Qed.

(* soundness: whatever is accepted ends in the keyword and a well-formed hash *)
Lemma g1_inv s x t : g1 s = Some (x, t) -> exists T, s = x ++ String "/" T /\ tail_match T = Some t /\ no_newline x = true.
Proof.
  revert x. induction s as [|c s IH]; intros x H; [discriminate|]. cbn [g1] in H.
  destruct (Ascii.eqb c nl) eqn:En; [discriminate|].
  destruct (g1 s) as [[x' t']|] eqn:G.
  - injection H as <- <-. destruct (IH x' eq_refl) as (T & -> & HT & HN).
    exists T. repeat split; [exact HT|]. unfold no_newline in *. cbn [all_chars]. rewrite En, HN. reflexivity.
  - destruct (is_slash c) eqn:Es; [|discriminate].
    destruct (tail_match s) eqn:HT; [|discriminate]. injection H as <- <-.
    unfold is_slash in Es. apply Ascii.eqb_eq in Es. subst c. exists s. repeat split. exact HT.
Qed.

Lemma after_opt_slash_inv s m cas h :
  after_opt_slash s = Some (m, (cas, h)) -> is_hash h = true /\ s = m ++ kw cas ++ h /\ no_newline m = true.
Proof.
  unfold after_opt_slash. destruct (g1 s) as [[x t]|] eqn:G.
  - intros H. injection H as <- ->. destruct (g1_inv s x (cas, h) G) as (T & -> & HT & HN).
    destruct (tail_match_inv T _ HT) as [Hh ->]. cbn [fst snd] in *.
    split; [exact Hh|]. split; [rewrite sapp_assoc; reflexivity|].
    unfold no_newline in *. rewrite all_chars_app, HN. reflexivity.
  - destruct (tail_match s) as [t|] eqn:HT; [|discriminate]. intros H. injection H as <- ->.
    destruct (tail_match_inv s _ HT) as [Hh ->]. repeat split; assumption.
Qed.

Lemma parse_request_url_sound url v k h i :
  parse_request_url url v = Some (k, h, i) ->
  is_hash h = true /\ no_newline i = true /\
  exists pre cas, url = pre ++ kw cas ++ h /\ k = kind_of cas v /\
                  (pre = "" \/ pre = "/" \/ pre = i ++ "/" \/ pre = "/" ++ i ++ "/").
Proof.
  unfold parse_request_url. destruct (re_blobName url) as [[m [cas h']]|] eqn:R; [|discriminate].
  intros H. injection H as <- <- <-.
  assert (TR : forall m, no_newline m = true -> no_newline (trim_suffix_slash m) = true /\ (m = "" \/ m = "/" \/ True)).
  { intros m0 Hm. split; [|auto]. unfold no_newline in *. revert Hm.
    induction m0 as [|c m0 IH]; [reflexivity|]. cbn [all_chars trim_suffix_slash]. intros Hm.
    apply andb_true_iff in Hm as [Hc Hm]. destruct m0 as [|d m0].
    - destruct (is_slash c); [reflexivity|cbn [all_chars]; rewrite Hc; reflexivity].
    - cbn [all_chars]. rewrite Hc. apply IH. exact Hm. }
  assert (M : forall s m, after_opt_slash s = Some (m, (cas, h')) ->
              m = "" \/ m = trim_suffix_slash m ++ "/").
  { intros s m0 A. unfold after_opt_slash in A. destruct (g1 s) as [[x t]|].
    - injection A as <- _. right. rewrite trim_suffix_slash_app. reflexivity.
    - destruct (tail_match s); [injection A as <- _; left; reflexivity|discriminate]. }
  unfold re_blobName in R.
  assert (Main : forall s, after_opt_slash s = Some (m, (cas, h')) ->
            is_hash h' = true /\ no_newline (trim_suffix_slash m) = true /\
            s = m ++ kw cas ++ h' /\ (m = "" \/ m = trim_suffix_slash m ++ "/")).
  { intros s A. destruct (after_opt_slash_inv s m cas h' A) as (Hh & E & HN).
    repeat split; [exact Hh|apply TR; exact HN|exact E|exact (M s m A)]. }
  destruct url as [|c rest].
  - destruct (Main "" R) as (Hh & HN & E & Hm). split; [exact Hh|]. split; [exact HN|].
    exists m, cas. repeat split; [exact E|]. destruct Hm as [->|Hm]; [left; reflexivity|right; right; left; exact Hm].
  - destruct (is_slash c) eqn:Es.
    + unfold is_slash in Es. apply Ascii.eqb_eq in Es. subst c.
      destruct (after_opt_slash rest) as [r|] eqn:A.
      * injection R as ->. destruct (Main rest A) as (Hh & HN & E & Hm). split; [exact Hh|]. split; [exact HN|].
        exists ("/" ++ m), cas. split; [cbn [append]; rewrite E; reflexivity|]. split; [reflexivity|].
        destruct Hm as [->|Hm]; [right; left; reflexivity|right; right; right; cbn [append]; rewrite <- Hm; reflexivity].
      * destruct (Main _ R) as (Hh & HN & E & Hm). split; [exact Hh|]. split; [exact HN|].
        exists m, cas. repeat split; [exact E|]. destruct Hm as [->|Hm]; [left; reflexivity|right; right; left; exact Hm].
    + destruct (Main _ R) as (Hh & HN & E & Hm). split; [exact Hh|]. split; [exact HN|].
      exists m, cas. repeat split; [exact E|]. destruct Hm as [->|Hm]; [left; reflexivity|right; right; left; exact Hm].
Qed.
