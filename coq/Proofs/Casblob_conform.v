(* Proofs/Casblob_conform.v — FormatSpec.conformant files are exactly the files with the layout
   the reader theorems are about; the writer's files conform. *)
From BR Require Import Base.Prelude Gen.Consts Gen.Funcs Model.Casblob Model.FormatSpec
  Proofs.Casblob_le Proofs.Casblob_header Proofs.Casblob_lists Proofs.Casblob_nopanic
  Proofs.Casblob_read Proofs.Casblob_write Proofs.Casblob_spec.
Open Scope list_scope.
Open Scope Z_scope.

Lemma table_at_length f pos n : List.length (table_at f pos n) = n.
Proof. revert pos; induction n as [|n IH]; intros pos; simpl; [reflexivity|]. rewrite IH; reflexivity. Qed.

Lemma slices_length f offs : List.length (slices f offs) = (List.length offs - 1)%nat.
Proof.
  induction offs as [|a t IH]; [reflexivity|].
  destruct t as [|b t']; [reflexivity|].
  change (slices f (a :: b :: t')) with (slice f a b :: slices f (b :: t')).
  cbn [List.length] in *. rewrite IH. lia.
Qed.

(* everything spec_decode checked *)
Lemma spec_decode_inv f size comp chunk chunks :
  spec_decode f = Some (size, comp, chunk, chunks) ->
  let count := i64_at f 21 in
  let offs := table_at f 29 (Z.to_nat count) in
  in_range f /\ u32_at f 0 = spec_magic /\ 2 <= count /\
  u32_at f 4 = 29 + 8 * count - 8 /\ 29 + 8 * count <= zlen f /\
  hd 0 offs = 29 + 8 * count /\ strictly_increasing offs = true /\ last offs 0 = zlen f /\
  0 < size /\ size = i64_at f 8 /\ comp = byte_at f 16 /\ chunk = u32_at f 17 /\
  chunks = slices f offs.
Proof.
  intros H count offs. unfold spec_decode, spec_fixed_part in H. cbv zeta in H.
  destruct (forallb is_byte f) eqn:Er; cbn [negb] in H; [|discriminate].
  destruct (Z.of_nat (List.length f) <? 29) eqn:E0; [discriminate|].
  destruct (u32_at f 0 =? spec_magic) eqn:Em; cbn [negb] in H; [|discriminate].
  fold count in H.
  destruct (count <? 2) eqn:Ec; [discriminate|].
  destruct (u32_at f 4 =? 29 + 8 * count - 8) eqn:Ef; cbn [negb] in H; [|discriminate].
  destruct (Z.of_nat (List.length f) <? 29 + 8 * count) eqn:El; [discriminate|].
  fold offs in H.
  destruct (hd 0 offs =? 29 + 8 * count) eqn:Eh; cbn [negb] in H; [|discriminate].
  destruct (strictly_increasing offs) eqn:Es; cbn [negb] in H; [|discriminate].
  destruct (last offs 0 =? Z.of_nat (List.length f)) eqn:Ela; cbn [negb] in H; [|discriminate].
  destruct (i64_at f 8 <=? 0) eqn:Ez; [discriminate|].
  inversion H; subst. unfold zlen.
  repeat split; try lia; try reflexivity; try exact Er.
Qed.

Lemma bytes_ok_concat (ps : list (list Z)) p :
  bytes_ok (List.concat ps) = true -> In p ps -> bytes_ok p = true.
Proof.
  unfold bytes_ok. induction ps as [|q t IH]; intros H Hin; [destruct Hin|].
  cbn [List.concat] in H. rewrite forallb_app in H. apply andb_true_iff in H as [H1 H2].
  destruct Hin as [->|Hin]; [exact H1|apply IH; assumption].
Qed.

Section Conform.
Variables enc enc_stream : list Z -> list Z.
Variables dec_all dec_stream : list Z -> option (list Z).

Hypothesis dec_enc : forall x, dec_all (enc x) = Some x.
Hypothesis stream_frame : forall f p r,
  dec_all f = Some p -> dec_stream (f ++ r) = option_map (app p) (dec_stream r).
Hypothesis stream_nil : dec_stream [] = Some [].

(* a conformant file, whatever chunk size its header states and whoever compressed the chunks,
   has the layout the reader theorems are about *)
Theorem conformant_layout f data :
  conformant dec_all f data -> zlen f <= maxAlloc ->
  exists h frames ps,
    layout dec_all f h frames ps /\ List.concat ps = data /\ h_usize h = zlen data.
Proof using Type.
  try clear dec_enc; try clear stream_frame; try clear stream_nil; try clear enc_bytes; try clear enc; try clear enc_stream; try clear dec_stream; try clear hashok; idtac.
 
  intros (c & chunks & ps & Hdec & Hc & Hch & HF2) Ha.
  apply spec_decode_inv in Hdec. cbv zeta in Hdec.
  set (count := i64_at f 21) in *.
  set (offs := table_at f 29 (Z.to_nat count)) in *.
  destruct Hdec as (R & Hm & Hn & Hfr & Hfit & Hhd & Hsi & Hla & Hsz & Esz & Ecomp & Echunk & Echunks).
  destruct Hch as (Hcat & Hne & Hfull & Hlast).
  assert (Pp : pieces_ok c ps) by (split; [exact Hne|split; [exact Hfull|exact Hlast]]).
  assert (Hlo : List.length offs = Z.to_nat count) by apply table_at_length.
  assert (Hone : offs <> []) by (intros E; rewrite E in Hlo; simpl in Hlo; lia).
  destruct (slices_partition f offs Hsi Hone ltac:(lia) ltac:(lia)) as (S1 & S2 & S3 & S4).
  rewrite <- Echunks in S1, S2, S4. rewrite Hhd, Hla in S1. rewrite Hhd in S2.
  assert (Hlc : List.length chunks = (Z.to_nat count - 1)%nat) by (rewrite Echunks, slices_length, Hlo; reflexivity).
  assert (HL : List.length ps = (Z.to_nat count - 1)%nat) by (rewrite <- (Forall2_len _ _ _ HF2); exact Hlc).
  set (h := mkHeader (Z.of_nat (List.length data)) spec_zstandard c offs).
  assert (Hzo : zlen offs = count) by (unfold zlen; lia).
  assert (Hah : after_header h = 29 + 8 * count) by (unfold after_header, chunkTableOffset; cbn [h h_offs]; lia).
  assert (Hsum : 1 <= zsum (map zlen chunks)).
  { apply zsum_pos; [exact S4|]. intros E. apply (f_equal (@List.length Z)) in E.
    rewrite map_length, Hlc in E. simpl in E. lia. }
  assert (Hflen : zlen f = 29 + 8 * count + zsum (map zlen chunks)).
  { rewrite <- Hla, S2 at 1. rewrite offsets_from_last. reflexivity. }
  assert (Hparse : parse_header f = Ok h).
  { unfold parse_header. replace (zlen f <=? chunkTableOffset + 16) with false by (unfold chunkTableOffset; lia).
    rewrite validate_ok_intro; unfold decode_raw; cbn [r_magic r_num r_comp r_chunk r_usize r_frame r_rest].
    - rewrite !i64_bridge, !u32_bridge, u8_bridge, table_bridge by exact R.
      fold count. fold offs. unfold h. rewrite <- Esz, <- Ecomp, <- Echunk. reflexivity.
    - change f with (skipn 0 f). rewrite u32_bridge by exact R. exact Hm.
    - rewrite i64_bridge by exact R. exact Hn.
    - rewrite i64_bridge by exact R. exact Hfit.
    - exact Ha.
    - rewrite u8_bridge, u32_bridge, !i64_bridge by exact R. fold count.
      rewrite <- Ecomp, <- Echunk, <- Esz. intros _. split; [lia|]. split; [lia|].
      pose proof (pieces_total c ps Pp) as Htot. rewrite Hcat in Htot. unfold zlen in Htot at 1.
      rewrite Htot. rewrite cdiv_of_pieces; unfold zlen; try lia.
    - rewrite u32_bridge, i64_bridge by exact R. fold count. lia.
    - rewrite i64_bridge by exact R. fold count. unfold zlen. rewrite skipn_length. unfold zlen in Hfit. lia.
    - rewrite i64_bridge, table_bridge by exact R. fold count. fold offs.
      unfold table_ok. destruct (strictly_increasing_loop offs (-1) Hsi Hone ltac:(lia)) as [E _].
      rewrite E, Hla. reflexivity. }
  exists h, chunks, ps. split; [|split; [exact Hcat|reflexivity]].
  constructor.
  - exact Hparse.
  - reflexivity.
  - exists (firstn (Z.to_nat (29 + 8 * count)) f). split.
    + rewrite S1. rewrite slice_to_end by lia. unfold zskipn. symmetry. apply firstn_skipn.
    + rewrite Hah. unfold zlen. rewrite firstn_length. unfold zlen in Hfit. lia.
  - rewrite Hah. cbn [h h_offs]. exact S2.
  - exact HF2.
  - exact Pp.
  - cbn [h h_usize]. rewrite Hcat. reflexivity.
  - exact Ha.
Qed.

(* and conversely a file with that layout, made of bytes, conforms to the published format *)
Theorem layout_conformant f h frames ps :
  layout dec_all f h frames ps -> in_range f -> conformant dec_all f (List.concat ps).
Proof using Type.
  try clear dec_enc; try clear stream_frame; try clear stream_nil; try clear enc_bytes; try clear enc; try clear enc_stream; try clear dec_stream; try clear hashok; idtac.
 
  intros LAY R.
  pose proof (parse_header_facts _ _ (lay_parse _ _ _ _ _ LAY)) as F.
  pose proof (lay_len_frames _ _ _ _ _ LAY) as Hlf.
  pose proof (lay_len_offs _ _ _ _ _ LAY) as Hlo.
  destruct (lay_pieces _ _ _ _ _ LAY) as (Hne & Hfull & Hlast).
  exists (h_chunk h), frames, ps.
  split; [|split; [lia|split; [|exact (lay_dec _ _ _ _ _ LAY)]]].
  2:{ split; [reflexivity|]. split; [exact Hne|]. split; [exact Hfull|exact Hlast]. }
  assert (Hcount : i64_at f 21 = zlen (h_offs h)) by (rewrite <- i64_bridge by exact R; symmetry; apply (hf_count _ _ F)).
  assert (Hoffs : table_at f 29 (Z.to_nat (i64_at f 21)) = h_offs h).
  { rewrite Hcount, to_nat_zlen, <- table_bridge by exact R. symmetry. apply (hf_offs _ _ F). }
  assert (Hpos : Forall (fun l => 0 < l) (map zlen frames)).
  { pose proof (hf_table _ _ F) as Ht. unfold table_ok in Ht.
    apply Forall_forall. intros x Hx. apply (In_nth _ _ 0) in Hx as (i & Hi & <-).
    rewrite map_length in Hi.
    pose proof (increasing_from_step _ _ _ i Ht) as Hs.
    rewrite (lay_offs _ _ _ _ _ LAY) in Hs.
    rewrite offsets_from_length, map_length in Hs. specialize (Hs ltac:(lia)).
    rewrite !offsets_from_nth in Hs by (rewrite map_length; lia).
    rewrite zsum_firstn_S in Hs by (rewrite map_length; lia). lia. }
  assert (Hfr : Forall (fun fr => fr <> []) frames).
  { apply Forall_forall. intros fr Hin E. subst fr. rewrite Forall_forall in Hpos.
    specialize (Hpos (zlen (@nil Z)) (in_map zlen _ _ Hin)). unfold zlen in Hpos; simpl in Hpos. lia. }
  destruct (lay_file _ _ _ _ _ LAY) as (hd0 & Hfile & Hhd).
  unfold spec_decode, spec_fixed_part.
  replace (forallb is_byte f) with true by (symmetry; exact R). cbn [negb].
  pose proof (hf_small _ _ F) as Hsm. pose proof (hf_fit _ _ F) as Hft.
  unfold chunkTableOffset in Hsm. unfold after_header, chunkTableOffset in Hft, Hhd.
  fold (zlen f). replace (zlen f <? 29) with false by lia.
  replace (u32_at f 0) with (u32_of (skipn 0 f)) by (apply u32_bridge; exact R).
  change (skipn 0 f) with f. rewrite (hf_magic _ _ F).
  change (skippableFrameMagicNumber =? spec_magic) with true. cbn [negb].
  rewrite Hcount. replace (zlen (h_offs h) <? 2) with false by (pose proof (hf_num _ _ F); lia).
  replace (u32_at f 4) with (u32_of (skipn 4 f)) by (apply u32_bridge; exact R).
  rewrite (hf_frame _ _ F). unfold after_header, chunkTableOffset.
  rewrite Z.eqb_refl. cbn [negb].
  replace (zlen f <? 29 + 8 * zlen (h_offs h)) with false by lia.
  rewrite <- Hcount, Hoffs, Hcount.
  rewrite (lay_offs _ _ _ _ _ LAY).
  assert (Hhd0 : hd 0 (offsets_from (after_header h) (map zlen frames)) = after_header h)
    by (destruct (map zlen frames); reflexivity).
  rewrite Hhd0. unfold after_header at 1, chunkTableOffset.
  rewrite <- (lay_offs _ _ _ _ _ LAY) at 1. rewrite Z.eqb_refl. cbn [negb].
  rewrite strictly_increasing_offsets_from by exact Hpos. cbn [negb].
  rewrite offsets_from_last.
  assert (Hflen : zlen f = after_header h + zsum (map zlen frames)).
  { rewrite Hfile, zlen_app, zlen_concat. unfold after_header, chunkTableOffset. lia. }
  rewrite <- Hflen, Z.eqb_refl. cbn [negb].
  replace (i64_at f 8) with (i64_of (skipn 8 f)) by (apply i64_bridge; exact R).
  rewrite <- (hf_usize _ _ F).
  destruct (hf_zstd _ _ F (lay_comp _ _ _ _ _ LAY)) as (_ & Hu & _).
  replace (h_usize h <=? 0) with false by lia.
  replace (byte_at f 16) with (u8_of (skipn 16 f)) by (apply u8_bridge; exact R).
  rewrite <- (hf_comp _ _ F), (lay_comp _ _ _ _ _ LAY).
  replace (u32_at f 17) with (u32_of (skipn 17 f)) by (apply u32_bridge; exact R).
  rewrite <- (hf_chunk_eq _ _ F).
  rewrite (lay_size _ _ _ _ _ LAY).
  rewrite Hfile at 1. unfold after_header, chunkTableOffset.
  rewrite slices_of_frames by (try exact Hfr; unfold after_header, chunkTableOffset in Hhd; lia).
  reflexivity.
Qed.

(* ---- the writer's files conform to the published format *)
Variable hashok : list Z -> bool.
Hypothesis enc_bytes : forall x, bytes_ok x = true -> bytes_ok (enc x) = true.

Theorem writer_conforms c data ends size ret file :
  0 < c < two32 -> in_i64 size -> bytes_ok data = true ->
  write_and_close enc hashok c Zstandard data ends size = Ok (ret, file) ->
  zlen file <= maxAlloc -> 8 * (cdiv size c + 1) + 29 < two32 ->
  conformant dec_all file data /\ ret = zlen file /\ size = zlen data /\ hashok data = true.
Proof using dec_enc stream_frame stream_nil enc_bytes.
   try clear enc_stream; idtac.
 
  intros Hc Hi Hb H Ha Hn.
  destruct (writer_layout enc dec_all dec_stream hashok dec_enc stream_frame stream_nil
              c data ends size ret file Hc Hi H Ha Hn)
    as (h & frames & ps & LAY & Hcat & Hsz & _ & _ & Hret & Hh & _ & Hfr & Hfile).
  split; [|split; [exact Hret|split; [exact Hsz|exact Hh]]].
  rewrite <- Hcat. eapply layout_conformant; [exact LAY|].
  rewrite Hfile. apply in_range_app; [apply in_range_encode_header|].
  apply in_range_concat. rewrite Hfr. apply Forall_forall. intros x Hx.
  apply in_map_iff in Hx as (p & <- & Hp). apply bytes_ok_in_range, enc_bytes.
  rewrite <- Hcat in Hb. eapply bytes_ok_concat; eassumption.
Qed.

End Conform.
