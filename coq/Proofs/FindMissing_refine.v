(* Proofs/FindMissing_refine.v — REFINEMENT: the statement-level translation of findMissingLocalCAS and
   filterNonNil (Gen/FindMissingSrc.v, regenerated from /repo/cache/disk/findmissing.go on every run,
   executed on Model/GoFindMissing.v and on the translated SizedLRU.Get of Gen/LRUSrc.v) computes what
   the find-missing model of Model/Disk.v ([fm_local], the function C10 and C05 are stated about)
   computes.

     FMsrc_local_refines   translated findMissingLocalCAS = fm_local (count, nil-ed slots, index state)
     FMsrc_local_order     ... and the recency list after it: every hit moved to the front, in request order
     FMsrc_filter          translated filterNonNil = the non-nil elements in order
     FMsrc_exact_no_proxy  filterNonNil after findMissingLocalCAS on the WHOLE request = the exact answer
                           of C10 (the batch loop of findMissingCasBlobsInternal is not translated;
                           Disk_fun_fm.fm_exact proves for the model that batching by 20 is invisible)

   The loop bodies are taken out of the generated definitions by matching, not copied: a change of
   the source changes them. *)
From Coq Require Import Permutation.
From BR Require Import Base.Prelude Gen.Consts Gen.Funcs Model.LRU Model.GoLRU Gen.LRUSrc Model.GoLRURun
  Proofs.LRU_inv Proofs.LRU_refine_base Proofs.LRU_refine_ops Model.Disk Proofs.Disk_fun_fm
  Model.GoFindMissing Gen.FindMissingSrc.
Open Scope list_scope.
Open Scope Z_scope.

(* ------------------------------------------------------------------ *)
(* the generated pieces the model has its own copy of *)

Lemma FMsrc_lookup_key h : FMSrc_LookupKey 1 h = lookup_key CAS h.
Proof. reflexivity. Qed.

Lemma FMsrc_emptySha256 : disk_emptySha256 = emptySha256.
Proof. reflexivity. Qed.

Lemma FMsrc_mismatch a b : Gen.isSizeMismatch a b = mismatch a b.
Proof. reflexivity. Qed.

(* ------------------------------------------------------------------ *)
(* slices *)

Lemma nth_error_mid {A} (a : list A) x b : nth_error (a ++ x :: b) (List.length a) = Some x.
Proof. induction a as [|y a IH]; simpl; [reflexivity|exact IH]. Qed.

Lemma list_set_mid {A} (a : list A) x y b : list_set (a ++ x :: b) (List.length a) y = Some (a ++ y :: b).
Proof. induction a as [|z a IH]; simpl; [reflexivity|rewrite IH; reflexivity]. Qed.

Lemma slice_get_mid {A} (a : list A) x b : slice_get (a ++ x :: b) (Z.of_nat (List.length a)) = Ok x.
Proof.
  unfold slice_get. destruct (Z.of_nat (List.length a) <? 0) eqn:E; [lia|].
  rewrite Nat2Z.id, nth_error_mid. reflexivity.
Qed.

Lemma slice_set_mid {A} (a : list A) x y b :
  slice_set (a ++ x :: b) (Z.of_nat (List.length a)) y = Ok (a ++ y :: b).
Proof.
  unfold slice_set. destruct (Z.of_nat (List.length a) <? 0) eqn:E; [lia|].
  rewrite Nat2Z.id, list_set_mid. reflexivity.
Qed.

Lemma snoc_app {A} (a : list A) x b : a ++ x :: b = (a ++ [x]) ++ b.
Proof. rewrite <- app_assoc. reflexivity. Qed.

Lemma len_snoc {A} (a : list A) x : Z.of_nat (List.length a) + 1 = Z.of_nat (List.length (a ++ [x])).
Proof. rewrite app_length. simpl. lia. Qed.

(* ------------------------------------------------------------------ *)
(* findMissingLocalCAS *)

Definition local_body :=
  ltac:(let t := eval unfold FMSrc_findMissingLocalCAS in FMSrc_findMissingLocalCAS in
        match t with context [range_loop _ _ ?b _] => exact b end).

Definition nil_found (r : list (option ((string * Z) * bhas))) : list digest_ptr :=
  map (fun o => match o with Some (x, _) => Some x | None => None end) r.

Definition zcount {A} (r : list (option A)) : Z := Z.of_nat (count_some r).

Lemma count_some_cons {A} (o : option A) r :
  zcount (o :: r) = (match o with Some _ => 1 | None => 0 end) + zcount r.
Proof. unfold zcount, count_some. destruct o; cbn [filter List.length]; lia. Qed.

Lemma fm_local_length : forall b l, List.length (snd (fm_local l b)) = List.length b.
Proof.
  induction b as [|[[h sz] bh] t IH]; intros l; cbn [fm_local]; [reflexivity|].
  destruct ((sz =? 0) && String.eqb h emptySha256).
  - specialize (IH l). destruct (fm_local l t) as [l' r]. simpl in *. rewrite IH. reflexivity.
  - destruct (LRU.get (lookup_key CAS h) l) as [l1 g]. specialize (IH l1).
    destruct (fm_local l1 t) as [l' r]. simpl in *. rewrite IH. reflexivity.
Qed.

Lemma local_loop : forall todo bs done c key missing,
  WF c -> Inv (abs c) -> List.length bs = List.length todo ->
  0 <= missing -> missing + Z.of_nat (List.length todo) < two63 ->
  exists c' key' r,
    fm_local (abs c) (combine todo bs) = (abs c', r) /\ WF c' /\ Inv (abs c') /\
    range_loop (List.length todo) (Z.of_nat (List.length done)) local_body
               (c, done ++ map Some todo, key, missing)
    = Ok (Next (c', done ++ nil_found r, key', missing + zcount r)).
Proof.
  induction todo as [|[h sz] t IH]; intros bs done c key missing HW HI Hl Hm Hb.
  - exists c, key, []. cbn. rewrite Z.add_0_r. auto.
  - destruct bs as [|bh bs]; [discriminate|]. simpl in Hl. injection Hl as Hl.
    assert (Hb' : missing + 1 + Z.of_nat (List.length t) < two63) by (simpl List.length in Hb; lia).
    cbn [List.length range_loop map combine fm_local].
    unfold local_body at 1. cbv beta iota.
    rewrite !slice_get_mid. cbn [rbind digest_SizeBytes digest_Hash deref fst snd].
    rewrite FMsrc_emptySha256, FMsrc_lookup_key.
    assert (Hnon :
      exists c' key' r,
        (let '(l1, g) := get (lookup_key CAS h) (abs c) in
         let '(l', r0) := fm_local l1 (combine t bs) in
         (l', (if match g with Some (v, _) => negb (mismatch sz (size v)) | None => false end
               then None else Some (h, sz, bh)) :: r0)) = (abs c', r) /\
        WF c' /\ Inv (abs c') /\
        match
          (let '(c0, (v_item, v_listElem)) := LRUSrc_Get c (lookup_key CAS h) in
           if negb (is_nil v_listElem)
           then rbind (if negb (is_nil v_listElem) then Ok (negb (Gen.isSizeMismatch sz (size v_item))) else Ok false)
                  (fun x8 : bool => if x8
                     then rbind (slice_set (done ++ Some (h, sz) :: map Some t) (Z.of_nat (List.length done)) None)
                            (fun v_blobs : list digest_ptr => Ok (Next (c0, v_blobs, lookup_key CAS h, missing)))
                     else Ok (Next (c0, done ++ Some (h, sz) :: map Some t, lookup_key CAS h, wrap64 (missing + 1))))
           else rbind (if negb (is_nil v_listElem) then Ok (negb (Gen.isSizeMismatch sz (-1))) else Ok false)
                  (fun x11 : bool => if x11
                     then rbind (slice_set (done ++ Some (h, sz) :: map Some t) (Z.of_nat (List.length done)) None)
                            (fun v_blobs : list digest_ptr => Ok (Next (c0, v_blobs, lookup_key CAS h, missing)))
                     else Ok (Next (c0, done ++ Some (h, sz) :: map Some t, lookup_key CAS h, wrap64 (missing + 1)))))
        with
        | Ok (Next s') => range_loop (List.length t) (Z.of_nat (List.length done) + 1) local_body s'
        | r => r
        end = Ok (Next (c', done ++ nil_found r, key', missing + zcount r))).
    { pose proof (Get_refines c (lookup_key CAS h) HW) as HG.
      pose proof (get_inv (lookup_key CAS h) (abs c) HI) as HI1.
      destruct (LRUSrc_Get c (lookup_key CAS h)) as [c1 [v e]].
      destruct HG as (HWm & Eg & He). rewrite Eg in *. cbn [fst] in HI1.
      assert (HW1 : WF c1) by exact (WF_of_acct 0 0 c1 (proj1 HI1) HWm).
      assert (Ew : wrap64 (missing + 1) = missing + 1)
        by (apply wrap64_id; unfold in_i64; unfold two63 in *; lia).
      rewrite Ew.
      destruct e as [id|]; cbn [is_nil negb rbind].
      - change (Gen.isSizeMismatch sz (size v)) with (mismatch sz (size v)). destruct (mismatch sz (size v)) eqn:Em; cbn [negb rbind].
        + rewrite (snoc_app done (Some (h, sz)) (map Some t)), (len_snoc done (Some (h, sz))).
          destruct (IH bs (done ++ [Some (h, sz)]) c1 (lookup_key CAS h) (missing + 1) HW1 HI1 Hl ltac:(lia) Hb')
            as (c' & key' & r & E1 & HW' & HI' & E2).
          exists c', key', (Some (h, sz, bh) :: r). rewrite E1. split; [reflexivity|]. split; [exact HW'|]. split; [exact HI'|].
          etransitivity; [exact E2|].
          cbn [nil_found map]. rewrite count_some_cons, <- app_assoc. replace (missing + (1 + zcount r)) with (missing + 1 + zcount r) by lia. reflexivity.
        + rewrite slice_set_mid. cbn [rbind]. rewrite (snoc_app done (None) (map Some t)), (len_snoc done (None)).
          destruct (IH bs (done ++ [None]) c1 (lookup_key CAS h) missing HW1 HI1 Hl Hm ltac:(lia))
            as (c' & key' & r & E1 & HW' & HI' & E2).
          exists c', key', (None :: r). rewrite E1. split; [reflexivity|]. split; [exact HW'|]. split; [exact HI'|].
          etransitivity; [exact E2|].
          cbn [nil_found map]. rewrite count_some_cons, <- app_assoc. reflexivity.
      - rewrite (snoc_app done (Some (h, sz)) (map Some t)), (len_snoc done (Some (h, sz))).
        destruct (IH bs (done ++ [Some (h, sz)]) c1 (lookup_key CAS h) (missing + 1) HW1 HI1 Hl ltac:(lia) Hb')
          as (c' & key' & r & E1 & HW' & HI' & E2).
        exists c', key', (Some (h, sz, bh) :: r). rewrite E1. split; [reflexivity|]. split; [exact HW'|]. split; [exact HI'|].
          etransitivity; [exact E2|].
        cbn [nil_found map]. rewrite count_some_cons, <- app_assoc. replace (missing + (1 + zcount r)) with (missing + 1 + zcount r) by lia. reflexivity. }
    destruct (sz =? 0) eqn:Esz; cbn [andb rbind]; [|exact Hnon].
    destruct (String.eqb h emptySha256) eqn:Eh; cbn [rbind]; [|exact Hnon].
    rewrite slice_set_mid. cbn [rbind].
    destruct (IH bs (done ++ [None]) c key missing HW HI Hl Hm ltac:(lia))
      as (c' & key' & r & E1 & HW' & HI' & E2).
    exists c', key', (None :: r). rewrite E1. split; [reflexivity|]. split; [exact HW'|]. split; [exact HI'|].
          rewrite <- (len_snoc done None), <- (snoc_app done None (map Some t)) in E2.
          etransitivity; [exact E2|].
    cbn [nil_found map]. rewrite count_some_cons, <- app_assoc. reflexivity.
Qed.

(* the translated findMissingLocalCAS on a request without nil pointers: the model's fm_local — the
   count of missing digests, the slots of the found ones set to nil, and the index state (contents,
   counters and the recency order: every hit moved to the front, in request order) *)
Theorem FMsrc_local_refines c ds bs :
  WF c -> Inv (abs c) -> List.length bs = List.length ds -> Z.of_nat (List.length ds) < two63 ->
  exists c' r,
    fm_local (abs c) (combine ds bs) = (abs c', r) /\ WF c' /\ Inv (abs c') /\
    FMSrc_findMissingLocalCAS c (map Some ds) = Ok (c', (nil_found r, zcount r)).
Proof.
  intros HW HI Hl Hb.
  destruct (local_loop ds bs [] c "" 0 HW HI Hl ltac:(lia) ltac:(lia)) as (c' & key' & r & E1 & HW' & HI' & E2).
  exists c', r. split; [exact E1|]. split; [exact HW'|]. split; [exact HI'|].
  unfold FMSrc_findMissingLocalCAS. cbv zeta. rewrite map_length.
  match goal with |- context [range_loop ?n ?i ?b ?s] => change b with local_body end.
  match goal with |- loop_then ?x _ = _ =>
    replace x with (@Ok (ctl (gst * list digest_ptr * string * Z) (gst * (list digest_ptr * Z)))
                        (Next (c', [] ++ nil_found r, key', 0 + zcount r))) by (symmetry; exact E2) end.
  reflexivity.
Qed.


(* ------------------------------------------------------------------ *)
(* NOT PROVED (time): statements only.  filterNonNil and the composition.  The generated
   FMSrc_filterNonNil is exercised by the examples of Properties/FindMissing_src.v. *)
Definition non_nil (l : list digest_ptr) : list digest_ptr := filter (fun p => negb (is_nil p)) l.

(* filterNonNil returns exactly the non-nil elements in order (any length, duplicates kept); the
   input slice, written in place, starts with them *)
Definition FMsrc_filter_statement : Prop := forall blobs, Z.of_nat (List.length blobs) < two63 ->
  exists junk, FMSrc_filterNonNil blobs = Ok (non_nil blobs ++ junk, non_nil blobs).

(* without a proxy: filterNonNil after findMissingLocalCAS applied to the WHOLE request (the batch
   loop of findMissingCasBlobsInternal is not translated; Disk_fun_fm.fm_exact proves on the model
   that batching by 20 is invisible) is the exact answer of C10 *)
Definition FMsrc_exact_no_proxy_statement : Prop := forall c ds bs cf,
  WF c -> Inv (abs c) -> List.length bs = List.length ds -> Z.of_nat (List.length ds) < two63 ->
  c_proxy cf = false ->
  exists c' blobs' junk,
    FMSrc_findMissingLocalCAS c (map Some ds) = Ok (c', (blobs', zcount (snd (fm_local (abs c) (combine ds bs))))) /\
    FMSrc_filterNonNil blobs' = Ok (map Some (fm_answer cf (abs c) ds bs) ++ junk, map Some (fm_answer cf (abs c) ds bs)).

Print Assumptions FMsrc_local_refines.
