(* Proofs/ACDeps_props.v — C06 for the configuration without a backend: a hit of
   GetValidatedActionResult implies every referenced blob is present with the stated size; an
   absent or wrong-size blob gives a miss (never an error, never a hit); completeness; what a hit
   does to the recency order; nothing else changes. *)
From Coq Require Import Permutation.
From BR Require Import Base.Prelude Model.LRU Proofs.LRU_inv Proofs.LRU_spec.
From BR Require Import Model.Disk Proofs.Disk_ack Proofs.Disk_fun_fm Proofs.Disk_fun_put Proofs.Disk_fun_get.
From BR Require Import Proofs.ACDeps_base.
From BR Require Import Model.ActionResult Proofs.ActionResult_validate Model.ACDeps Proofs.ACDeps_spec.
Open Scope Z_scope.

Ltac conj := repeat match goal with |- _ /\ _ => split end.

Section Props.
  Variable c : cfg.
  Variable dec_ar : Z -> option action_result.
  Variable dec_tree : Z -> option tree.
  Variable b_of : string -> bget.
  Variable has_of : string -> bhas.

  (* [ts] are the decoded Tree messages of the output directories [ds], each the decoding of the
     content the local cache serves for that directory's tree digest *)
  Definition trees_read (d : dstate) (ds : list output_dir) (ts : list tree) : Prop :=
    Forall2 (fun od t => exists g cid, od_tree od = Some g /\ cas_blob d g = Some cid /\ dec_tree cid = Some t) ds ts.

  (* the AC entry is indexed, its file is in place and non-empty, and holds the encoding of [ar] *)
  Definition ac_entry (d : dstate) (key : string) (ar : action_result) : Prop :=
    Z.of_nat (String.length key) = hashLen /\
    exists v f, peek (lookup_key AC key) (lru d) = Some v /\
                find_file (path_of (lookup_key AC key) v) (Disk.files d) = Some f /\
                0 < f_len f /\ dec_ar (f_cid f) = Some ar.

  Lemma trees_spec_read d ds ts : trees_spec dec_tree d ds = Some (Some ts) <-> trees_read d ds ts.
  Proof.
    unfold trees_read. revert ts. induction ds as [|od rest IH]; intros ts; cbn [trees_spec].
    - split; [intros H; inversion H; constructor|intros H; inversion H; reflexivity].
    - split.
      + destruct (od_tree od) as [g|] eqn:Eg; [|discriminate].
        destruct (cas_blob d g) as [cid|] eqn:Ec; [|discriminate].
        destruct (dec_tree cid) as [t|] eqn:Et; [|discriminate].
        destruct (trees_spec dec_tree d rest) as [[ts'|]|] eqn:Er; try discriminate.
        intros H; inversion H; subst. constructor; [exists g, cid; conj; assumption|apply IH; reflexivity].
      + intros H. inversion H as [|? t ? ts' Hrel Hr]; subst. destruct Hrel as (g & cid & Hg & Hc & Ht).
        rewrite Hg, Hc, Ht. apply IH in Hr. rewrite Hr. reflexivity.
  Qed.

  Lemma ac_entry_hit d key ar :
    ac_entry d key ar <->
    Z.of_nat (String.length key) = hashLen /\
    exists v f, local_hit (lru d) (Disk.files d) AC key (-1) = Some (v, f) /\ 0 < f_len f /\ dec_ar (f_cid f) = Some ar.
  Proof.
    unfold ac_entry. split; intros [H0 (v & f & H)]; (split; [exact H0|]); exists v, f.
    - destruct H as (H1 & H2 & H3 & H4). conj; try assumption. apply local_hit_iff. conj; try assumption; reflexivity.
    - destruct H as (H1 & H3 & H4). apply local_hit_iff in H1 as (H1 & _ & H2 & _). conj; assumption.
  Qed.

  Lemma cas_blob_present d g cid : 0 <= size_bytes g -> cas_blob d g = Some cid ->
    present_local (lru d) (dig g) = true.
  Proof.
    intros Hsz. unfold cas_blob, present_local, dig. cbn [fst snd].
    destruct ((size_bytes g <=? 0) && String.eqb (hash g) emptySha256) eqn:ES.
    - intros _. apply andb_true_iff in ES as [E1 ->]. assert (E : (size_bytes g =? 0) = true) by lia. rewrite E. reflexivity.
    - destruct (local_hit (lru d) (Disk.files d) CAS (hash g) (size_bytes g)) as [[v f]|] eqn:EL; [|discriminate].
      intros _. apply local_hit_iff in EL as (H1 & H2 & _). rewrite H1, H2. apply orb_true_r.
  Qed.

  Lemma zip_true_in d : forall ds ts g, trees_read d ds ts -> Forall DirOK ds ->
    In g (zip_dirs true ds ts) -> In g (zip_dirs false ds ts) \/ present_local (lru d) (dig g) = true.
  Proof.
    intros ds ts g H. induction H as [|od t ds ts Hrel Hr IH]; intros Hok; cbn [zip_dirs]; [tauto|].
    destruct Hrel as (g0 & cid & Hg & Hc & Ht).
    inversion Hok as [|? ? [g1 [Hg1 [_ Hsz]]] Hok']; subst. rewrite Hg in *. inversion Hg1; subst g1.
    cbn [app In]. rewrite !in_app_iff. intros [<-|[H|H]].
    - right. eapply cas_blob_present; eassumption.
    - left. left. exact H.
    - destruct (IH Hok' H) as [H1|H1]; [left; right; exact H1|right; exact H1].
  Qed.

  Lemma referenced_cases d ar ts g : trees_read d (somes (ar_dirs ar)) ts -> valid ar = true ->
    In g (referenced ar ts) -> In g (pending ar ts) \/ present_local (lru d) (dig g) = true.
  Proof.
    intros Hr Hv. unfold referenced, pending, deps. rewrite !in_app_iff. intros [H|[H|H]]; [left; left; exact H| |left; right; right; exact H].
    destruct (zip_true_in d _ _ g Hr (wf_dirs_ok ar Hv) H) as [H1|H1]; [left; right; left; exact H1|right; exact H1].
  Qed.

  Lemma forallb_dig l (gs : list digest) :
    forallb (present_local l) (map dig gs) = true <-> forall g, In g gs -> present_local l (dig g) = true.
  Proof.
    rewrite forallb_forall. split.
    - intros H g Hg. apply H. apply in_map. exact Hg.
    - intros H x Hx. apply in_map_iff in Hx as (g & <- & Hg). apply H. exact Hg.
  Qed.

  (* ---------------- 1. a hit is sound ---------------- *)

  Theorem hit_sound d key d' ar :
    c_proxy c = false -> Inv (lru d) ->
    get_validated c dec_ar dec_tree b_of has_of d key = (d', ACHit ar) ->
    ac_entry d key ar /\ valid ar = true /\
    exists ts, trees_read d (somes (ar_dirs ar)) ts /\
               forall g, In g (referenced ar ts) -> present_local (lru d) (hash g, size_bytes g) = true.
  Proof.
    intros Hp HI H. destruct (get_validated_spec c dec_ar dec_tree b_of has_of d key d' _ Hp HI H) as (Ho & _).
    unfold ac_spec in Ho.
    destruct (negb (Z.of_nat (String.length key) =? hashLen)) eqn:EK; [discriminate|]. apply negb_false_iff in EK.
    destruct (local_hit (lru d) (Disk.files d) AC key (-1)) as [[v f]|] eqn:EL; [|discriminate].
    destruct (f_len f <=? 0) eqn:EF; [discriminate|].
    destruct (dec_ar (f_cid f)) as [ar0|] eqn:ED; [|discriminate].
    destruct (valid ar0) eqn:EV; [|discriminate]. cbn [negb] in Ho.
    destruct (trees_spec dec_tree d (somes (ar_dirs ar0))) as [[ts|]|] eqn:ET; try discriminate.
    destruct (forallb (present_local (lru d)) (map dig (pending ar0 ts))) eqn:EA; [|discriminate].
    inversion Ho; subst ar0. clear Ho.
    split; [apply ac_entry_hit; split; [lia|]; exists v, f; conj; try assumption; lia|]. split; [exact EV|].
    apply trees_spec_read in ET. exists ts. split; [exact ET|]. intros g Hg.
    destruct (referenced_cases d ar ts g ET EV Hg) as [H1|H1]; [|exact H1].
    rewrite forallb_dig in EA. apply EA. exact H1.
  Qed.

  (* ---------------- 3. completeness ---------------- *)

  Theorem hit_complete d key ar ts :
    c_proxy c = false -> Inv (lru d) ->
    ac_entry d key ar -> valid ar = true -> trees_read d (somes (ar_dirs ar)) ts ->
    (forall g, In g (referenced ar ts) -> present_local (lru d) (hash g, size_bytes g) = true) ->
    exists d', get_validated c dec_ar dec_tree b_of has_of d key = (d', ACHit ar).
  Proof.
    intros Hp HI Hac Hv Hr Hall.
    destruct (get_validated c dec_ar dec_tree b_of has_of d key) as [d' o] eqn:E. exists d'. f_equal.
    destruct (get_validated_spec c dec_ar dec_tree b_of has_of d key d' o Hp HI E) as (-> & _).
    apply ac_entry_hit in Hac as [HK (v & f & EL & Hlen & ED)]. unfold ac_spec.
    assert (EK : negb (Z.of_nat (String.length key) =? hashLen) = false) by (apply negb_false_iff; lia).
    rewrite EK, EL. assert (EF : (f_len f <=? 0) = false) by lia. rewrite EF, ED, Hv. cbn [negb].
    apply trees_spec_read in Hr. rewrite Hr.
    assert (EA : forallb (present_local (lru d)) (map dig (pending ar ts)) = true).
    { apply forallb_dig. intros g Hg. apply Hall. apply pending_incl_referenced. exact Hg. }
    rewrite EA. reflexivity.
  Qed.

  (* ---------------- 2. an absent dependency gives a miss ---------------- *)

  (* every tree blob that is present decodes (a present blob that does not decode is an error by
     design: the stored ActionResult points at something that is not a Tree) *)
  Definition trees_decode (d : dstate) (ds : list output_dir) : Prop :=
    forall od g cid, In od ds -> od_tree od = Some g -> cas_blob d g = Some cid -> dec_tree cid <> None.

  Lemma trees_spec_cases d : forall ds, Forall DirOK ds -> trees_decode d ds ->
    (exists ts, trees_spec dec_tree d ds = Some (Some ts)) \/
    (trees_spec dec_tree d ds = Some None /\ exists od g, In od ds /\ od_tree od = Some g /\ cas_blob d g = None).
  Proof.
    induction ds as [|od rest IH]; intros Hok Hdec; cbn [trees_spec]; [left; exists []; reflexivity|].
    inversion Hok as [|? ? [g [Hg _]] Hok']; subst. rewrite Hg.
    destruct (cas_blob d g) as [cid|] eqn:Ec.
    2:{ right. split; [reflexivity|]. exists od, g. conj; try assumption. left; reflexivity. }
    destruct (dec_tree cid) as [t|] eqn:Et.
    2:{ exfalso. apply (Hdec od g cid); try assumption. left; reflexivity. }
    destruct (IH Hok') as [(ts & ->)|(-> & od' & g' & H1 & H2 & H3)].
    - intros od' g' cid' Hin. apply Hdec. right; exact Hin.
    - left. exists (t :: ts). reflexivity.
    - right. split; [reflexivity|]. exists od', g'. conj; try assumption. right; exact H1.
  Qed.

  Lemma trees_spec_absent d : forall ds, Forall DirOK ds -> trees_decode d ds ->
    (exists od g, In od ds /\ od_tree od = Some g /\ cas_blob d g = None) ->
    trees_spec dec_tree d ds = Some None.
  Proof.
    intros ds Hok Hdec (od & g & Hin & Hg & Hc).
    destruct (trees_spec_cases d ds Hok Hdec) as [(ts & Hts)|[H _]]; [|exact H].
    exfalso. apply trees_spec_read in Hts. clear Hok Hdec.
    induction Hts as [|od' t ds ts Hrel Hr IH]; [destruct Hin|]. destruct Hrel as (g0 & cid & Hg0 & Hc0 & _).
    destruct Hin as [->|Hin]; [|exact (IH Hin)]. rewrite Hg in Hg0. inversion Hg0; subst. congruence.
  Qed.

  Theorem absent_is_miss d key ar d' o :
    c_proxy c = false -> Inv (lru d) ->
    get_validated c dec_ar dec_tree b_of has_of d key = (d', o) ->
    ac_entry d key ar -> valid ar = true -> trees_decode d (somes (ar_dirs ar)) ->
    ((* the Tree blob of an output directory is absent (or has another size) *)
     (exists od g, In od (somes (ar_dirs ar)) /\ od_tree od = Some g /\ cas_blob d g = None) \/
     (* or some other referenced blob is *)
     (exists ts g, trees_read d (somes (ar_dirs ar)) ts /\ In g (referenced ar ts) /\
                   present_local (lru d) (hash g, size_bytes g) = false)) ->
    o = ACMiss.
  Proof.
    intros Hp HI E Hac Hv Hdec Habs.
    destruct (get_validated_spec c dec_ar dec_tree b_of has_of d key d' o Hp HI E) as (-> & _).
    apply ac_entry_hit in Hac as [HK (v & f & EL & Hlen & ED)]. unfold ac_spec.
    assert (EK : negb (Z.of_nat (String.length key) =? hashLen) = false) by (apply negb_false_iff; lia).
    rewrite EK, EL. assert (EF : (f_len f <=? 0) = false) by lia. rewrite EF, ED, Hv. cbn [negb].
    destruct Habs as [Habs|(ts & g & Hr & Hg & Hn)].
    - rewrite (trees_spec_absent d _ (wf_dirs_ok ar Hv) Hdec Habs). reflexivity.
    - pose proof Hr as Hr'. apply trees_spec_read in Hr'. rewrite Hr'.
      destruct (forallb (present_local (lru d)) (map dig (pending ar ts))) eqn:EA; [|reflexivity].
      exfalso. rewrite forallb_dig in EA.
      change (hash g, size_bytes g) with (dig g) in Hn.
      destruct (referenced_cases d ar ts g Hr Hv Hg) as [H1|H1]; [rewrite (EA g H1) in Hn|rewrite H1 in Hn]; discriminate.
  Qed.

  (* ---------------- 4. a hit is a use of every dependency held locally ---------------- *)

  Definition touched (ks : list string) (e : elem) : bool := existsb (String.eqb (key_of e)) ks.

  Lemma touch_perm k l : NoDup (map eid l) -> Permutation (touch k l) l.
  Proof.
    intros Hi. unfold touch. destruct (find_key k l) as [e|] eqn:E; [|reflexivity].
    apply find_key_In in E as [Hin _]. apply Permutation_sym.
    etransitivity; [apply (remove_id_perm l e Hi Hin)|apply Permutation_cons_append].
  Qed.

  Lemma filter_none {A} (p : A -> bool) l : (forall x, In x l -> p x = false) -> filter p l = [].
  Proof. induction l as [|x t IH]; cbn; intros H; [reflexivity|]. rewrite (H x (or_introl eq_refl)). apply IH. intros y Hy. apply H. right; exact Hy. Qed.

  Lemma filter_ext_in' {A} (p q : A -> bool) l : (forall x, In x l -> p x = q x) -> filter p l = filter q l.
  Proof.
    induction l as [|x t IH]; cbn; intros H; [reflexivity|]. rewrite (H x (or_introl eq_refl)), IH; [reflexivity|].
    intros y Hy. apply H. right; exact Hy.
  Qed.

  (* the recency list after a sequence of touches: the untouched entries in their old relative
     order, then the touched ones *)
  Lemma fold_touch_shape ks : forall l, NoDup (map key_of l) -> NoDup (map eid l) ->
    exists T, fold_left (fun o k => touch k o) ks l = filter (fun e => negb (touched ks e)) l ++ T /\
              Permutation T (filter (touched ks) l).
  Proof.
    induction ks as [|k ks IH]; intros l Hk Hi; cbn [fold_left].
    { exists []. unfold touched. cbn [existsb negb]. split; [|rewrite filter_none; auto].
      rewrite app_nil_r. induction l as [|x t IHl]; cbn; [reflexivity|]. inversion Hk; inversion Hi; subst. rewrite <- IHl; auto. }
    pose proof (touch_perm k l Hi) as HP.
    assert (Hk' : NoDup (map key_of (touch k l))) by (eapply Permutation_NoDup; [apply Permutation_map, Permutation_sym, HP|exact Hk]).
    assert (Hi' : NoDup (map eid (touch k l))) by (eapply Permutation_NoDup; [apply Permutation_map, Permutation_sym, HP|exact Hi]).
    destruct (IH (touch k l) Hk' Hi') as (T' & HF & HT). rewrite HF. clear IH HF.
    unfold touch in *. destruct (find_key k l) as [e|] eqn:E.
    - pose proof (find_key_In _ _ _ E) as [Hin Hke].
      destruct (remove_id_split l e Hi Hin) as (l1 & l2 & H1 & H2). rewrite H2 in *. subst l. clear H2.
      assert (Hne : forall x, In x (l1 ++ l2) -> String.eqb (key_of x) k = false).
      { intros x Hx. rewrite map_app in Hk. cbn in Hk. apply NoDup_remove_2 in Hk. rewrite <- map_app in Hk.
        destruct (String.eqb (key_of x) k) eqn:Ex; [|reflexivity]. apply String.eqb_eq in Ex. exfalso. apply Hk.
        rewrite Hke, <- Ex. apply in_map. exact Hx. }
      assert (Hun : forall x, In x (l1 ++ l2) -> touched (k :: ks) x = touched ks x).
      { intros x Hx. unfold touched. cbn [existsb]. rewrite (Hne x Hx). reflexivity. }
      assert (Hte : touched (k :: ks) e = true) by (unfold touched; cbn [existsb]; rewrite Hke, String.eqb_refl; reflexivity).
      assert (F1 : filter (fun x => negb (touched (k :: ks) x)) (l1 ++ e :: l2)
                   = filter (fun x => negb (touched ks x)) (l1 ++ l2)).
      { rewrite !filter_app. cbn [filter]. rewrite Hte. cbn [negb]. f_equal; apply filter_ext_in'; intros x Hx;
          rewrite Hun; auto; apply in_or_app; [left|right]; exact Hx. }
      assert (F2 : Permutation (filter (touched (k :: ks)) (l1 ++ e :: l2)) (e :: filter (touched ks) (l1 ++ l2))).
      { rewrite !filter_app. cbn [filter]. rewrite Hte. rewrite <- Permutation_middle. constructor.
        rewrite (filter_ext_in' (touched (k :: ks)) (touched ks) l1), (filter_ext_in' (touched (k :: ks)) (touched ks) l2);
          [reflexivity| |]; intros x Hx; apply Hun; apply in_or_app; [right|left]; exact Hx. }
      rewrite F1. destruct (touched ks e) eqn:Ete.
      + exists T'. split.
        * rewrite filter_app. cbn [filter]. rewrite Ete. cbn [negb]. rewrite app_nil_r. reflexivity.
        * rewrite HT, F2. rewrite filter_app. cbn [filter]. rewrite Ete.
          symmetry. apply Permutation_cons_append.
      + exists (e :: T'). split.
        * rewrite filter_app. cbn [filter]. rewrite Ete. cbn [negb]. rewrite <- app_assoc. reflexivity.
        * rewrite F2. constructor. rewrite HT. rewrite filter_app. cbn [filter]. rewrite Ete. rewrite app_nil_r. reflexivity.
    - pose proof (find_key_None _ _ E) as Hn.
      assert (Hun : forall x, In x l -> touched (k :: ks) x = touched ks x).
      { intros x Hx. unfold touched. cbn [existsb]. destruct (String.eqb (key_of x) k) eqn:Ex; [|reflexivity].
        apply String.eqb_eq in Ex. exfalso. apply Hn. rewrite <- Ex. apply in_map. exact Hx. }
      exists T'. split.
      + f_equal. apply filter_ext_in'. intros x Hx. rewrite Hun; auto.
      + rewrite HT. rewrite (filter_ext_in' (touched (k :: ks)) (touched ks) l); auto.
  Qed.

  Theorem hit_touches d key d' ar :
    c_proxy c = false -> Inv (lru d) ->
    get_validated c dec_ar dec_tree b_of has_of d key = (d', ACHit ar) ->
    exists ts, trees_read d (somes (ar_dirs ar)) ts /\
      let ks := hit_keys key ar ts in
      (* exactly: the AC entry, then each tree blob, then each pending digest is moved to the
         most-recently-used end, in this order *)
      lru d' = touch_all ks (lru d) /\
      order (lru d') = fold_left (fun o k => touch k o) ks (order (lru d)) /\
      (* hence: untouched entries first, in their old relative order, then the touched ones *)
      (exists T, order (lru d') = filter (fun e => negb (touched ks e)) (order (lru d)) ++ T /\
                 Permutation T (filter (touched ks) (order (lru d)))) /\
      (* and nothing else changes *)
      LruSame (lru d) (lru d') /\ Disk.files d' = Disk.files d /\ handed d' = handed d /\ Inv (lru d').
  Proof.
    intros Hp HI H.
    destruct (get_validated_spec c dec_ar dec_tree b_of has_of d key d' _ Hp HI H) as (_ & Hf & Hh & HI' & Ht & _).
    destruct (Ht ar eq_refl) as (ts & Hts & Hl). exists ts. split; [apply trees_spec_read; exact Hts|]. cbv zeta.
    split; [exact Hl|]. split; [rewrite Hl; apply touch_all_order|].
    pose proof HI as ([Hk Hi _ _ _ _ _ _ _] & _). split.
    - rewrite Hl, touch_all_order. apply fold_touch_shape; assumption.
    - split; [rewrite Hl; apply touch_all_same; exact HI|]. conj; assumption.
  Qed.

  (* ---------------- 5. nothing but the recency order changes ---------------- *)

  Theorem no_state_change d key d' o :
    c_proxy c = false -> Inv (lru d) ->
    get_validated c dec_ar dec_tree b_of has_of d key = (d', o) ->
    Disk.files d' = Disk.files d /\ handed d' = handed d /\ Inv (lru d') /\
    (deps_sound d key ->
       (forall k, peek k (lru d') = peek k (lru d)) /\
       cur (lru d') = cur (lru d) /\ res (lru d') = res (lru d) /\ unc (lru d') = unc (lru d) /\
       evq (lru d') = evq (lru d) /\ qbytes (lru d') = qbytes (lru d) /\
       Permutation (order (lru d')) (order (lru d))).
  Proof.
    intros Hp HI H.
    destruct (get_validated_spec c dec_ar dec_tree b_of has_of d key d' o Hp HI H) as (_ & Hf & Hh & HI' & _ & Hs).
    conj; try assumption. intros Hd. specialize (Hs Hd). split; [intros k; apply same_peek; exact Hs|].
    destruct Hs. conj; assumption.
  Qed.

  (* the outcome is a function of the index and the directory at the start *)
  Theorem outcome_spec d key d' o :
    c_proxy c = false -> Inv (lru d) ->
    get_validated c dec_ar dec_tree b_of has_of d key = (d', o) -> o = ac_spec dec_ar dec_tree d key.
  Proof. intros Hp HI H. apply (get_validated_spec c dec_ar dec_tree b_of has_of d key d' o Hp HI H). Qed.
End Props.

(* structural condition on the directory that makes every read sound: each indexed entry has its
   file, complete and with the logical size of the entry (or it is a legacy raw file) *)
Definition index_sound (d : dstate) : Prop :=
  forall key v, peek key (lru d) = Some v ->
    exists f, find_file (path_of key v) (Disk.files d) = Some f /\
              (legacy v = true \/ (f_complete f = true /\ f_logical f = size v)).

Lemma index_sound_deps d key : Inv (lru d) -> index_sound d -> deps_sound d key.
Proof.
  intros HI Hs. split.
  - intros v Hv _. destruct (Hs _ _ Hv) as (f & Hf & _). exists f. split; [exact Hf|reflexivity].
  - intros g Hg v Hv Hm. destruct (Hs _ _ Hv) as (f & Hf & Hok). exists f. split; [exact Hf|].
    pose proof (peek_item_ok _ _ _ HI Hv) as [Hv0 _].
    unfold valid_file. cbn [kind_eqb]. destruct Hok as [->|[-> Hl]]; [reflexivity|].
    destruct (legacy v); [reflexivity|]. cbn [andb]. unfold mismatch in Hm. lia.
Qed.

