(* Proofs/Load_add.v — what one Add of the loader does to the recency list and the eviction queue
   when nothing is reserved (the situation during start-up); draining the queue. *)
From Coq Require Import Permutation.
From BR Require Import Base.Prelude Model.LRU Proofs.LRU_inv.
Open Scope Z_scope.

Lemma ent_eta (e : elem) : mkEntry (ekey (ent e)) (evalue (ent e)) = ent e.
Proof. destruct e as [id [k v]]. reflexivity. Qed.

Lemma evict_nil_of_cond (cond : Z -> bool) (c0 : Z) (ev : list elem) :
  (forall ev1 e ev2, ev = ev1 ++ e :: ev2 -> cond (c0 - sumZ r4k_disk ev1) = true) ->
  cond c0 = false -> ev = [].
Proof.
  intros Hneed Hc. destruct ev as [|e ev2]; [reflexivity|].
  specialize (Hneed [] e ev2 eq_refl). simpl in Hneed. rewrite Z.sub_0_r in Hneed. congruence.
Qed.

(* Add with nothing reserved: refused exactly when the file alone exceeds max_size; otherwise the
   entry goes to the most-recently-used end (replacing an entry of the same key, which is queued
   for removal) and least-recently-used entries are evicted, each only because it was needed *)
Lemma add_spec k v s s' r :
  Inv s -> item_ok v -> res s = 0 -> add k v s = (s', r) ->
  let rv := roundUp4k (sizeOnDisk v) in
  (rv > maxs s /\ s' = s /\ r = Ok false) \/
  (rv <= maxs s /\ r = Ok true /\ Inv s' /\ res s' = 0 /\ maxs s' = maxs s /\ hard s' = hard s /\
   exists l1 old l2 ev,
     order s = l1 ++ old ++ l2 /\ (List.length old <= 1)%nat /\
     (forall e, In e old -> key_of e = k) /\
     ~ In k (map key_of (l1 ++ l2)) /\
     map ent (l1 ++ l2) ++ [mkEntry k v] = map ent ev ++ map ent (order s') /\
     evq s' = evq s ++ map ent old ++ map ent ev /\
     (cur s + rv <= maxs s -> ev = []) /\
     (forall ev1 e ev2, ev = ev1 ++ e :: ev2 ->
        cur s - sumZ r4k_disk old - sumZ r4k_disk ev1 + rv > maxs s)).
Proof.
  intros HI Hv Hres Hadd rv.
  destruct (add_inv_eq k v s s' r HI Hv Hadd) as (HI' & _ & _).
  pose proof HI as (HA & Hm & Hp). revert Hadd. unfold add. fold rv.
  destruct (rv >? maxs s) eqn:E0; intros Hadd.
  { inversion Hadd; subst. left. repeat split; auto; lia. }
  right. split; [lia|]. revert Hadd.
  assert (HA1 : AcctD 0 0 (upd_peak rv s)) by (apply upd_peak_acct; exact HA).
  destruct (find_key k (order (upd_peak rv s))) as [e|] eqn:Ef.
  - (* overwrite *)
    apply find_key_In in Ef as [Hin Hkey]. simpl in Hin.
    assert (Hve : item_ok (evalue (ent e))).
    { destruct HA as [_ _ _ _ _ _ _ Hit _]. rewrite Forall_forall in Hit. apply Hit; exact Hin. }
    assert (Hold : 0 <= roundUp4k (sizeOnDisk (evalue (ent e)))) by (apply roundUp4k_nonneg, Hve).
    destruct (res (upd_peak rv s) + (rv - roundUp4k (sizeOnDisk (evalue (ent e)))) >? maxs (upd_peak rv s)) eqn:E1;
      [simpl in E1; lia|].
    set (delta := rv - roundUp4k (sizeOnDisk (evalue (ent e)))) in *.
    set (ud := roundUp4k (size v) - roundUp4k (size (evalue (ent e)))).
    pose proof (touch_acct 0 0 (upd_peak rv s) e v HA1 Hin Hv) as HT. simpl in HT. rewrite Hkey in HT.
    set (s2 := enqueue (mkEntry (ekey (ent e)) (evalue (ent e)))
         (set_order (remove_id (eid e) (order (upd_peak rv s)) ++ [mkElem (eid e) (mkEntry k v)]) (upd_peak rv s))).
    assert (HA2 : AcctD delta ud s2) by (apply enqueue_acct; [exact HT|simpl; exact Hve]).
    pose proof (evict_while_spec (fun c => c + delta >? maxs s2) delta ud s2 HA2) as HS.
    destruct (evict_while (fun c => c + delta >? maxs s2) s2) as [s3 stuck].
    destruct HS as [HA3 [ev Hord Hevq Hcur Hunc (Hr' & Hm' & Hh' & Hn' & Hpk') Hstop Hstuck Hneed]].
    destruct stuck.
    + exfalso. destruct (Hstuck eq_refl) as [Hnil Hc].
      destruct HA3 as [_ _ _ Hc3 _ _ _ _ _]. rewrite Hnil in Hc3. simpl in Hc3, Hc, Hr'. lia.
    + intros H; injection H as Hs' Hr0; subst s' r. split; [reflexivity|]. split; [exact HI'|].
      simpl in Hr', Hm', Hh'. simpl. repeat split; try lia.
      destruct HA as [_ Hids _ _ _ _ _ _ _].
      destruct (remove_id_split (order s) e Hids Hin) as (l1 & l2 & Hs1 & Hs2).
      exists l1, [e], l2, ev. simpl in Hord, Hevq. simpl order in *. rewrite Hs2 in Hord.
      split; [exact Hs1|]. split; [simpl; lia|].
      split; [intros x [<-|[]]; exact Hkey|].
      split.
      { destruct HI as ([Hk _ _ _ _ _ _ _ _] & _). rewrite Hs1 in Hk. rewrite map_app in Hk. simpl in Hk.
        apply NoDup_remove_2 in Hk. rewrite map_app. rewrite <- Hkey. exact Hk. }
      split.
      { change (order (bump delta ud s3)) with (order s3).
        rewrite <- (map_app ent ev (order s3)), <- Hord, (map_app ent (l1 ++ l2)). reflexivity. }
      split.
      { rewrite Hevq. simpl. rewrite ent_eta, <- app_assoc. reflexivity. }
      split.
      { intros Hfit. apply (evict_nil_of_cond (fun c => c + delta >? maxs s2) (cur s2) ev Hneed). simpl. unfold delta. lia. }
      { intros ev1 x ev2 Hsplit. specialize (Hneed ev1 x ev2 Hsplit). simpl in Hneed.
        unfold delta in Hneed. cbn [sumZ]. unfold r4k_disk at 1. lia. }
  - (* new key *)
    destruct (res (upd_peak rv s) + rv >? maxs (upd_peak rv s)) eqn:E1; [simpl in E1; lia|].
    apply find_key_None in Ef. simpl in Ef.
    destruct HA1 as [Hk Hi Hf Hc Hu Hr Hq Hit Hqi]. simpl in Hk, Hi, Hf, Hc, Hu, Hr, Hq, Hit, Hqi.
    set (e' := mkElem (next (upd_peak rv s)) (mkEntry k v)).
    set (s2 := mkState (order (upd_peak rv s) ++ [e']) (S (next (upd_peak rv s))) (cur (upd_peak rv s))
                       (unc (upd_peak rv s)) (res (upd_peak rv s)) (maxs (upd_peak rv s)) (hard (upd_peak rv s))
                       (evq (upd_peak rv s)) (qbytes (upd_peak rv s)) (peak (upd_peak rv s))).
    assert (HA2 : AcctD rv (roundUp4k (size v)) s2).
    { constructor; simpl.
      - rewrite map_app. simpl. apply NoDup_app_snoc; assumption.
      - rewrite map_app. simpl. apply NoDup_app_snoc; [assumption|].
        intros Hx. apply in_map_iff in Hx as (x & Hx1 & Hx2). rewrite Forall_forall in Hf.
        specialize (Hf x Hx2). simpl in Hx1. lia.
      - apply Forall_app; split.
        + eapply Forall_impl; [|exact Hf]. simpl. intros; lia.
        + constructor; [simpl; lia|constructor].
      - rewrite sumZ_app. simpl. change (r4k_disk e') with rv. lia.
      - rewrite sumZ_app. simpl. change (r4k_size e') with (roundUp4k (size v)). lia.
      - exact Hr.
      - exact Hq.
      - apply Forall_app; split; [assumption|]. constructor; [simpl; exact Hv|constructor].
      - exact Hqi. }
    pose proof (evict_while_spec (fun c => c + rv >? maxs s2) rv (roundUp4k (size v)) s2 HA2) as HS.
    destruct (evict_while (fun c => c + rv >? maxs s2) s2) as [s3 stuck].
    destruct HS as [HA3 [ev Hord Hevq Hcur Hunc (Hr' & Hm' & Hh' & Hn' & Hpk') Hstop Hstuck Hneed]].
    destruct stuck.
    + exfalso. destruct (Hstuck eq_refl) as [Hnil Hc2].
      destruct HA3 as [_ _ _ Hc3 _ _ _ _ _]. rewrite Hnil in Hc3. simpl in Hc3, Hc2, Hr'. lia.
    + intros H; injection H as Hs' Hr0; subst s' r. split; [reflexivity|]. split; [exact HI'|].
      simpl in Hr', Hm', Hh'. simpl. repeat split; try lia.
      exists (order s), [], [], ev. simpl in Hord, Hevq. simpl.
      split; [rewrite app_nil_r; reflexivity|]. split; [lia|].
      split; [intros x []|].
      split; [rewrite app_nil_r; exact Ef|].
      split.
      { rewrite app_nil_r. change (order (bump rv (roundUp4k (size v)) s3)) with (order s3).
        rewrite <- (map_app ent ev (order s3)), <- Hord, map_app. reflexivity. }
      split; [exact Hevq|].
      split.
      { intros Hfit. apply (evict_nil_of_cond (fun c => c + rv >? maxs s2) (cur s2) ev Hneed). simpl. lia. }
      { intros ev1 x ev2 Hsplit. specialize (Hneed ev1 x ev2 Hsplit). simpl in Hneed. lia. }
Qed.

(* ------------------------------------------------------------------ *)
(* draining the eviction queue *)

Lemma drain_n_frame n : forall s,
  order (drain_n n s) = order s /\ cur (drain_n n s) = cur s /\ unc (drain_n n s) = unc s /\
  res (drain_n n s) = res s /\ maxs (drain_n n s) = maxs s /\ hard (drain_n n s) = hard s.
Proof.
  induction n as [|n IH]; intros s; simpl; [repeat split; reflexivity|].
  destruct (IH (fst (evictor_step s))) as (H1 & H2 & H3 & H4 & H5 & H6).
  unfold evictor_step in *. destruct (evq s); simpl in *; repeat split; assumption.
Qed.

Lemma drain_n_evq : forall q s, evq s = q -> evq (drain_n (List.length q) s) = [].
Proof.
  induction q as [|en q IH]; intros s Hq; simpl; [exact Hq|].
  apply IH. unfold evictor_step. rewrite Hq. reflexivity.
Qed.

Lemma drain_spec s : Inv s ->
  let '(s', q) := drain s in
  Inv s' /\ q = evq s /\ evq s' = [] /\ order s' = order s /\ cur s' = cur s /\ unc s' = unc s /\
  res s' = res s /\ maxs s' = maxs s.
Proof.
  intros HI. unfold drain.
  destruct (drain_n_frame (List.length (evq s)) s) as (H1 & H2 & H3 & H4 & H5 & _).
  split; [apply drain_n_inv; exact HI|]. split; [reflexivity|].
  split; [apply drain_n_evq; reflexivity|]. repeat split; assumption.
Qed.
