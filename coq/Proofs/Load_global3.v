(* Proofs/Load_global3.v — the kept entries (Load_global.survivors) keep key, sizes, file and
   content: the per-survivor statements of Load_main / Load_prov lifted to the global outcome. *)
From Coq Require Import Permutation Sorting.Sorted.
From BR Require Import Base.Prelude Model.LRU Model.Names Model.Load Proofs.LRU_inv
  Proofs.Names_strings Proofs.Names_roundtrip Proofs.Load_add Proofs.Load_loop Proofs.Load_scan
  Proofs.Load_main Proofs.Load_prov Proofs.Load_global Proofs.Load_global2.
Open Scope Z_scope.
Open Scope list_scope.

Theorem startup_kept_content mx hd t files s present :
  population_ok t = true -> 0 < mx -> scanned t = Ok files -> startup mx hd t = Ok (s, present) ->
  let kept := survivors mx (sort_atime files) in
  map ent (order s) = map sf_entry kept /\
  Permutation present (map sf_place kept) /\
  Forall (fun x =>
    In x files /\
    item_place (sf_key x) (sf_item x) = sf_place x /\
    print_name (s_parsed x) = f_name (s_file x) /\
    sf_key x = lookup_key (s_kind x) (p_hash (s_parsed x)) /\
    sizeOnDisk (sf_item x) = f_size (s_file x) /\
    size (sf_item x) = match p_size (s_parsed x) with Some n => n | None => f_size (s_file x) end /\
    exists g, In g (tree_files t) /\ derived g (s_file x)) kept.
Proof.
  intros Hp Hmx Hs Hst kept.
  destruct (startup_survivors mx hd t files s present Hp Hmx Hs Hst) as (Hi & Hl & _ & _ & _ & Hincl).
  fold kept in Hi, Hl, Hincl. split; [exact Hi|]. split; [exact Hl|].
  pose proof (scanned_provenance t files Hs) as Hprov. unfold from_orig in Hprov.
  pose proof Hs as Hs0.
  unfold scanned, scan_all in Hs.
  destruct (mkdirs_ok t Hp) as (t1 & Hm & Hready). rewrite Hm in Hs. simpl in Hs.
  destruct (migrate_ok t1 Hready) as (t2 & Hmg & Hok & Hno). rewrite Hmg in Hs. simpl in Hs.
  destruct (scan_tree_ok t2 Hok Hno) as (fs & Hsc & HSO). rewrite Hsc in Hs. inversion Hs; subst fs.
  destruct (scanned_ok_population t Hp) as (files' & Hs' & HF). rewrite Hs0 in Hs'. injection Hs' as <-.
  rewrite Forall_forall in *. intros x Hx. pose proof (Hincl x Hx) as Hxf.
  specialize (HSO x Hxf). specialize (HF x Hxf).
  destruct HSO as (Hsn & _ & _). destruct (scan_name_spec _ _ Hsn) as [Hpr _].
  destruct HF as [Hpl _]. split; [exact Hxf|]. repeat split; auto.
  apply Hprov. apply in_map. exact Hxf.
Qed.
