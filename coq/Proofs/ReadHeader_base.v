(* Proofs/ReadHeader_base.v — lemmas about the run-time of the translated readHeader
   (Model/GoCasblob.v): what the reads return on a file that is long enough / too short, and what
   a counting loop over a table computes. *)
From BR Require Import Base.Prelude Gen.Consts Model.Casblob Model.GoCasblob Proofs.Casblob_le.
Open Scope list_scope.
Open Scope Z_scope.

Lemma zlen_skipn {A} (n : nat) (l : list A) :
  Z.of_nat n <= zlen l -> zlen (skipn n l) = zlen l - Z.of_nat n.
Proof. unfold zlen. intros H. rewrite skipn_length. lia. Qed.

Lemma zlen_repeat {A} (x : A) n : zlen (repeat x n) = Z.of_nat n.
Proof. unfold zlen. rewrite repeat_length. reflexivity. Qed.

(* ---- reads ------------------------------------------------------------------------------ *)
Lemma read_u32_ok sz rest old :
  4 <= zlen rest -> binary_Read_u32 (mkF sz rest) old = (mkF sz (skipn 4 rest), u32_of rest, None).
Proof.
  intros H. unfold binary_Read_u32, read_full, advance. cbn [f_rest f_size].
  destruct (Z.of_nat 4 <=? zlen rest) eqn:E; [reflexivity|lia].
Qed.

Lemma read_u8_ok sz rest old :
  1 <= zlen rest -> binary_Read_u8 (mkF sz rest) old = (mkF sz (skipn 1 rest), u8_of rest, None).
Proof.
  intros H. unfold binary_Read_u8, read_full, advance. cbn [f_rest f_size].
  destruct (Z.of_nat 1 <=? zlen rest) eqn:E; [reflexivity|lia].
Qed.

Lemma read_i64_ok sz rest old :
  8 <= zlen rest -> binary_Read_i64 (mkF sz rest) old = (mkF sz (skipn 8 rest), i64_of rest, None).
Proof.
  intros H. unfold binary_Read_i64, read_full, advance. cbn [f_rest f_size].
  destruct (Z.of_nat 8 <=? zlen rest) eqn:E; [reflexivity|lia].
Qed.

Lemma dec_i64s_firstn n : forall l, dec_i64s n (firstn (8 * n) l) = decode_offsets n l.
Proof.
  induction n as [|n IH]; intros l; [reflexivity|].
  cbn [dec_i64s decode_offsets]. unfold i64_of. f_equal.
  - rewrite firstn_firstn. replace (Nat.min 8 (8 * S n)) with 8%nat by lia. reflexivity.
  - replace (8 * S n)%nat with (8 + 8 * n)%nat by lia.
    rewrite <- firstn_skipn_comm. apply IH.
Qed.

Lemma read_i64s_ok sz rest old :
  8 * zlen old <= zlen rest ->
  binary_Read_i64s (mkF sz rest) old =
    (mkF sz (skipn (8 * List.length old) rest), decode_offsets (List.length old) rest, None).
Proof.
  intros H. unfold binary_Read_i64s, read_full, advance. cbn [f_rest f_size].
  destruct (Z.of_nat (8 * List.length old) <=? zlen rest) eqn:E.
  - rewrite dec_i64s_firstn. reflexivity.
  - unfold zlen in *. lia.
Qed.

Lemma read_i64s_short sz rest old :
  zlen rest < 8 * zlen old ->
  binary_Read_i64s (mkF sz rest) old = (mkF sz (skipn (8 * List.length old) rest), old, Some E_read).
Proof.
  intros H. unfold binary_Read_i64s, read_full, advance. cbn [f_rest f_size].
  destruct (Z.of_nat (8 * List.length old) <=? zlen rest) eqn:E; [|reflexivity].
  unfold zlen in *. lia.
Qed.

Lemma go_quot_8 a : go_quot a 8 = Ok (Z.quot a 8).
Proof. reflexivity. Qed.

(* ---- the loop over the table -------------------------------------------------------------- *)
Lemma idx_middle pre x suf : idx (pre ++ x :: suf) (zlen pre) = Ok x.
Proof.
  unfold idx. pose proof (zlen_nonneg pre) as Hp.
  rewrite app_length. cbn [List.length].
  destruct ((zlen pre <? 0) || (Z.of_nat (List.length pre + S (List.length suf)) <=? zlen pre)) eqn:E.
  - unfold zlen in *. lia.
  - rewrite to_nat_zlen. rewrite nth_middle. reflexivity.
Qed.

(* `prev := p; for i := 0; int64(i) < N; i++ { if offs[i] <= prev { return E }; prev = offs[i] }`
   for any loop whose condition, body and step behave like that on the table *)
Lemma table_loop_from (cond : Z * Z -> bool) (body : Z * Z -> xres (Z * Z)) (post : Z * Z -> Z * Z)
  (offs : list Z) (bad : result header) :
  zlen offs < two63 ->
  (forall i p, cond (i, p) = (wrap64 i <? zlen offs)) ->
  (forall i p, post (i, p) = (wrap64 (i + 1), p)) ->
  (forall i p x, idx offs i = Ok x -> body (i, p) = if x <=? p then XRet bad else XNext (i, x)) ->
  forall suf pre p, offs = pre ++ suf ->
    for_loop (S (List.length suf)) cond body post (zlen pre, p) =
      match increasing_from p suf with
      | None => XRet bad
      | Some last => XNext (zlen offs, last)
      end.
Proof.
  intros Hn Hc Hp Hb. induction suf as [|x suf IH]; intros pre p E.
  - cbn [for_loop List.length increasing_from]. rewrite Hc.
    rewrite app_nil_r in E. subst pre.
    rewrite wrap64_id by (pose proof (zlen_nonneg offs); unfold in_i64, two63 in *; lia).
    rewrite Z.ltb_irrefl. reflexivity.
  - cbn [for_loop increasing_from]. rewrite Hc.
    assert (Hlt : zlen pre < zlen offs).
    { rewrite E, zlen_app, zlen_cons. pose proof (zlen_nonneg suf). lia. }
    pose proof (zlen_nonneg pre) as Hp0.
    rewrite wrap64_id by (unfold in_i64, two63 in *; lia).
    destruct (zlen pre <? zlen offs) eqn:El; [|lia].
    rewrite (Hb (zlen pre) p x) by (rewrite E; apply idx_middle).
    destruct (x <=? p); [reflexivity|].
    rewrite Hp. rewrite wrap64_id by (unfold in_i64, two63 in *; lia).
    replace (zlen pre + 1) with (zlen (pre ++ [x])) by (rewrite zlen_app, zlen_cons; unfold zlen; cbn; lia).
    apply IH. rewrite <- app_assoc. exact E.
Qed.

Lemma table_loop (cond : Z * Z -> bool) (body : Z * Z -> xres (Z * Z)) (post : Z * Z -> Z * Z)
  (offs : list Z) (bad : result header) (N p : Z) :
  N = zlen offs -> N < two63 ->
  (forall i p, cond (i, p) = (wrap64 i <? N)) ->
  (forall i p, post (i, p) = (wrap64 (i + 1), p)) ->
  (forall i p x, idx offs i = Ok x -> body (i, p) = if x <=? p then XRet bad else XNext (i, x)) ->
  for_loop (S (Z.to_nat N)) cond body post (0, p) =
    match increasing_from p offs with
    | None => XRet bad
    | Some last => XNext (N, last)
    end.
Proof.
  intros -> Hn Hc Hp Hb. rewrite to_nat_zlen.
  exact (table_loop_from cond body post offs bad Hn Hc Hp Hb offs [] p eq_refl).
Qed.
