(* Proofs/ACDeps_spec.v — GetValidatedActionResult (Model/ACDeps.v) without a backend, as a pure
   function of the index and the directory at the start of the call ([ac_spec]), together with
   its exact effect on the index (a sequence of touches) and the frame. *)
From Coq Require Import Permutation.
From BR Require Import Base.Prelude Model.LRU Proofs.LRU_inv Proofs.LRU_spec.
From BR Require Import Model.Disk Proofs.Disk_ack Proofs.Disk_fun_fm Proofs.Disk_fun_put Proofs.Disk_fun_get.
From BR Require Import Proofs.ACDeps_base.
From BR Require Import Model.ActionResult Proofs.ActionResult_validate Model.ACDeps.
Open Scope Z_scope.

Ltac fin := try reflexivity; try assumption; try (intros; discriminate); try (intros; apply same_refl); try (intros; assumption).

Lemma forallb_ext' {A} (p q : A -> bool) l : (forall x, p x = q x) -> forallb p l = forallb q l.
Proof. intros H. induction l as [|x t IH]; cbn; [reflexivity|]. rewrite H, IH. reflexivity. Qed.

Definition dig (g : digest) : string * Z := (hash g, size_bytes g).

(* the content a CAS read of digest [g] serves from the local cache (the empty blob: content 0) *)
Definition cas_blob (d : dstate) (g : digest) : option Z :=
  if (size_bytes g <=? 0) && String.eqb (hash g) emptySha256 then Some 0 else
  match local_hit (lru d) (Disk.files d) CAS (hash g) (size_bytes g) with
  | Some (v, f) => Some (f_cid f)
  | None => None
  end.

(* an output directory as validate.ActionResult leaves it: a well-formed tree digest *)
Definition DirOK (od : output_dir) : Prop := exists g, od_tree od = Some g /\ DigestWF g.

Definition tree_digests (ds : list output_dir) : list digest := somes (map od_tree ds).

Section Spec.
  Variable c : cfg.
  Variable dec_ar : Z -> option action_result.
  Variable dec_tree : Z -> option tree.
  Variable b_of : string -> bget.
  Variable has_of : string -> bhas.

  (* reading the trees: Some (Some ts) all read and decoded, Some None a tree blob is absent,
     None a present tree blob does not decode (an error by design) *)
  Fixpoint trees_spec (d : dstate) (ds : list output_dir) : option (option (list tree)) :=
    match ds with
    | [] => Some (Some [])
    | od :: rest =>
        match od_tree od with
        | None => None
        | Some g =>
            match cas_blob d g with
            | None => Some None
            | Some cid =>
                match dec_tree cid with
                | None => None
                | Some t => match trees_spec d rest with Some (Some ts) => Some (Some (t :: ts)) | x => x end
                end
            end
        end
    end.

  Definition ac_spec (d : dstate) (key : string) : ac_outcome :=
    if negb (Z.of_nat (String.length key) =? hashLen) then ACErr else
    match local_hit (lru d) (Disk.files d) AC key (-1) with
    | None => ACMiss
    | Some (v, f) =>
        if f_len f <=? 0 then ACMiss else
        match dec_ar (f_cid f) with
        | None => ACErr
        | Some ar =>
            if negb (valid ar) then ACErr else
            match trees_spec d (somes (ar_dirs ar)) with
            | None => ACErr
            | Some None => ACMiss
            | Some (Some ts) =>
                if forallb (present_local (lru d)) (map dig (pending ar ts)) then ACHit ar else ACMiss
            end
        end
    end.

  (* the keys touched, in order, on a hit *)
  Definition hit_keys (key : string) (ar : action_result) (ts : list tree) : list string :=
    lookup_key AC key :: touch_keys (map dig (tree_digests (somes (ar_dirs ar)))) ++ touch_keys (map dig (pending ar ts)).

  (* the entries this call may read have their files in place and valid *)
  Definition deps_sound (d : dstate) (key : string) : Prop :=
    entry_sound d AC key (-1) /\ forall g, 0 <= size_bytes g -> entry_sound d CAS (hash g) (size_bytes g).

  (* ---------------- guards ---------------- *)

  Lemma ac_guard key :
    get_guard AC key (-1) 0 false =
    if negb (Z.of_nat (String.length key) =? hashLen) then Some (GetErr EBadRequest) else None.
  Proof. unfold get_guard. destruct (negb (Z.of_nat (String.length key) =? hashLen)); reflexivity. Qed.

  Lemma tree_guard g : DigestWF g ->
    get_guard CAS (hash g) (size_bytes g) 0 false =
    if (size_bytes g <=? 0) && String.eqb (hash g) emptySha256 then Some (GetHit 0 0 0) else None.
  Proof.
    intros [[Hl _] Hs]. unfold get_guard. rewrite Hl. cbn [Z.of_nat Pos.of_succ_nat Pos.succ negb Z.eqb hashLen Pos.eqb kind_eqb andb].
    assert (E1 : (size_bytes g <? -1) = false) by lia. rewrite E1.
    destruct ((size_bytes g <=? 0) && String.eqb (hash g) emptySha256); [reflexivity|].
    assert (E2 : (size_bytes g >? 0) && (0 >=? size_bytes g) = false) by lia. rewrite E2. reflexivity.
  Qed.

  Lemma peek_item_ok l k v : Inv l -> peek k l = Some v -> item_ok v.
  Proof.
    intros ([_ _ _ _ _ _ _ Hit _] & _) H. unfold peek in H.
    destruct (find_key k (order l)) as [e|] eqn:E; [|discriminate]. inversion H; subst.
    apply find_key_In in E as [Hin _]. rewrite Forall_forall in Hit. exact (Hit e Hin).
  Qed.

  Lemma cas_blob_same d d' g : LruSame (lru d) (lru d') -> Disk.files d' = Disk.files d -> cas_blob d' g = cas_blob d g.
  Proof. intros H1 H2. unfold cas_blob. rewrite H2, (local_hit_same _ _ _ _ _ _ H1). reflexivity. Qed.

  Lemma trees_spec_same d d' ds : LruSame (lru d) (lru d') -> Disk.files d' = Disk.files d -> trees_spec d' ds = trees_spec d ds.
  Proof.
    intros H1 H2. induction ds as [|od rest IH]; cbn; [reflexivity|].
    destruct (od_tree od) as [g|]; [|reflexivity]. rewrite (cas_blob_same _ _ _ H1 H2), IH. reflexivity.
  Qed.

  Lemma entry_sound_same d d' k h sz : LruSame (lru d) (lru d') -> Disk.files d' = Disk.files d ->
    entry_sound d k h sz -> entry_sound d' k h sz.
  Proof. intros H1 H2 H v. rewrite H2, (same_peek _ _ _ H1). apply H. Qed.

  (* ---------------- reading the trees ---------------- *)

  Lemma read_trees_spec : forall ds d1 d2 rt,
    c_proxy c = false -> Inv (lru d1) -> Forall DirOK ds ->
    read_trees c dec_tree b_of d1 ds = (d2, rt) ->
    Disk.files d2 = Disk.files d1 /\ handed d2 = handed d1 /\ Inv (lru d2) /\ rt = trees_spec d1 ds /\
    (forall ts, rt = Some (Some ts) -> lru d2 = touch_all (touch_keys (map dig (tree_digests ds))) (lru d1)) /\
    ((forall g, 0 <= size_bytes g -> entry_sound d1 CAS (hash g) (size_bytes g)) -> LruSame (lru d1) (lru d2)).
  Proof.
    induction ds as [|od rest IH]; intros d1 d2 rt Hp HI Hok; cbn [read_trees trees_spec].
    { intros H; inversion H; subst. conj; fin. }
    inversion Hok as [|? ? [g [Hg Hwf]] Hok']; subst. rewrite Hg.
    unfold tree_digests. cbn [map somes]. rewrite Hg. cbn [somes map]. fold (tree_digests rest).
    pose proof (tree_guard g Hwf) as EG. destruct Hwf as [_ Hsz].
    destruct (exec c d1 (RGet CAS (hash g) (size_bytes g) 0 false (b_of (hash g)) "fetched")) as [d1' r] eqn:E.
    unfold cas_blob at 1.
    destruct ((size_bytes g <=? 0) && String.eqb (hash g) emptySha256) eqn:ES.
    - (* the empty blob *)
      rewrite (get_guarded c d1 _ _ _ _ _ _ _ _ EG) in E. inversion E; subst d1' r. clear E.
      assert (E0 : (0 =? size_bytes g) = true) by lia. rewrite E0. cbn [negb].
      assert (EE : is_empty_digest (dig g) = true).
      { unfold is_empty_digest, dig. cbn [fst snd]. apply andb_true_iff in ES as [_ ->]. lia. }
      unfold touch_keys at 1. cbn [filter]. rewrite EE. cbn [negb]. fold (touch_keys (map dig (tree_digests rest))).
      destruct (dec_tree 0) as [t|]; [|intros H; inversion H; subst; conj; fin].
      destruct (read_trees c dec_tree b_of d1 rest) as [d3 r3] eqn:ER.
      destruct (IH d1 d3 r3 Hp HI Hok' ER) as (H1 & H2 & H3 & H4 & H5 & H6).
      intros H; inversion H; subst d2 rt. conj; try assumption.
      + rewrite <- H4. destruct r3 as [[?|]|]; reflexivity.
      + intros ts Hx. destruct r3 as [[ts'|]|]; try discriminate. apply (H5 ts' eq_refl).
    - (* a stored blob *)
      destruct (get_noproxy_exact c d1 CAS (hash g) (size_bytes g) 0 false _ _ d1' r Hp HI EG E) as (F1 & F2 & F3 & F4).
      destruct (local_hit (lru d1) (Disk.files d1) CAS (hash g) (size_bytes g)) as [[v f]|] eqn:EL.
      + destruct F4 as [-> ->]. unfold hit_of. cbn [kind_eqb].
        apply local_hit_iff in EL as (Hpk & Hmm & _ & _).
        pose proof (peek_item_ok _ _ _ HI Hpk) as [Hv0 _].
        assert (Esz : (size v =? size_bytes g) = true) by (unfold mismatch in Hmm; lia). rewrite Esz. cbn [negb].
        assert (EE : is_empty_digest (dig g) = false).
        { unfold is_empty_digest, dig. cbn [fst snd]. apply andb_false_iff in ES as [ES|ES]; [|rewrite ES; apply andb_false_r].
          assert (E1 : (size_bytes g =? 0) = false) by lia. rewrite E1. reflexivity. }
        unfold touch_keys at 1. cbn [filter]. rewrite EE. cbn [negb map]. fold (touch_keys (map dig (tree_digests rest))).
        cbn [touch_all fold_left dig fst]. fold (touch_all (touch_keys (map dig (tree_digests rest)))).
        pose proof (get_same (lookup_key CAS (hash g)) (lru d1) HI) as HG.
        destruct (LRU.get (lookup_key CAS (hash g)) (lru d1)) as [l' gg]. destruct HG as (HI' & HS & _). cbn [fst] in *.
        destruct (dec_tree (f_cid f)) as [t|]; [|intros H; inversion H; subst; cbn [lru set_lru Disk.files handed]; conj; fin].
        destruct (read_trees c dec_tree b_of (set_lru l' d1) rest) as [d3 r3] eqn:ER.
        destruct (IH (set_lru l' d1) d3 r3 Hp HI' Hok' ER) as (H1 & H2 & H3 & H4 & H5 & H6).
        cbn [lru set_lru Disk.files handed] in *.
        intros H; inversion H; subst d2 rt. conj; try assumption.
        * rewrite <- (trees_spec_same d1 (set_lru l' d1) rest HS eq_refl), <- H4. destruct r3 as [[?|]|]; reflexivity.
        * intros ts Hx. destruct r3 as [[ts'|]|]; try discriminate. apply (H5 ts' eq_refl).
        * intros Hs. eapply same_trans; [exact HS|]. apply H6. intros g' Hg'.
          apply (entry_sound_same d1 (set_lru l' d1)); [exact HS|reflexivity|apply Hs; exact Hg'].
      + destruct F4 as (-> & _ & F5). intros H; inversion H; subst d2 rt.
        conj; fin.
        intros Hs. apply F5. apply Hs. exact Hsz.
  Qed.

  Lemma wf_dirs_ok ar : valid ar = true -> Forall DirOK (somes (ar_dirs ar)).
  Proof.
    intros H. apply valid_iff in H. destruct H as [_ Hd _ _ _ _ _].
    induction Hd as [|x l [od [-> [_ [g [Hg Hwf]]]]] _ IH]; cbn [somes]; constructor; [|exact IH].
    exists g. split; assumption.
  Qed.

  (* ---------------- the whole call ---------------- *)

  Theorem get_validated_spec d key d' o :
    c_proxy c = false -> Inv (lru d) ->
    get_validated c dec_ar dec_tree b_of has_of d key = (d', o) ->
    o = ac_spec d key /\
    Disk.files d' = Disk.files d /\ handed d' = handed d /\ Inv (lru d') /\
    (forall ar, o = ACHit ar ->
       exists ts, trees_spec d (somes (ar_dirs ar)) = Some (Some ts) /\
                  lru d' = touch_all (hit_keys key ar ts) (lru d)) /\
    (deps_sound d key -> LruSame (lru d) (lru d')).
  Proof.
    intros Hp HI. unfold get_validated, ac_spec.
    destruct (exec c d (RGet AC key (-1) 0 false (b_of key) "fetched")) as [d1 r] eqn:E.
    pose proof (ac_guard key) as EG.
    destruct (negb (Z.of_nat (String.length key) =? hashLen)) eqn:EK.
    { rewrite (get_guarded c d _ _ _ _ _ _ _ _ EG) in E. inversion E; subst d1 r.
      intros H; inversion H; subst. conj; fin. }
    destruct (get_noproxy_exact c d AC key (-1) 0 false _ _ d1 r Hp HI EG E) as (F1 & F2 & F3 & F4).
    destruct (local_hit (lru d) (Disk.files d) AC key (-1)) as [[v f]|] eqn:EL.
    2:{ destruct F4 as (-> & _ & F5). intros H; inversion H; subst.
        conj; fin. intros [Hs _]; apply F5; exact Hs. }
    destruct F4 as [-> ->]. unfold hit_of. cbn [kind_eqb].
    pose proof (get_same (lookup_key AC key) (lru d) HI) as HG.
    destruct (LRU.get (lookup_key AC key) (lru d)) as [l1 gg] eqn:EGet. destruct HG as (HI1 & HS1 & _). cbn [fst] in *.
    destruct (f_len f <=? 0).
    { intros H; inversion H; subst. cbn [lru set_lru Disk.files handed].
      conj; fin. }
    destruct (dec_ar (f_cid f)) as [ar|].
    2:{ intros H; inversion H; subst. cbn [lru set_lru Disk.files handed].
        conj; fin. }
    destruct (valid ar) eqn:EV; cbn [negb].
    2:{ intros H; inversion H; subst. cbn [lru set_lru Disk.files handed].
        conj; fin. }
    destruct (read_trees c dec_tree b_of (set_lru l1 d) (somes (ar_dirs ar))) as [d2 rt] eqn:ER.
    destruct (read_trees_spec _ (set_lru l1 d) _ _ Hp HI1 (wf_dirs_ok ar EV) ER) as (G1 & G2 & G3 & G4 & G5 & G6).
    cbn [lru set_lru Disk.files handed] in *.
    rewrite (trees_spec_same d (set_lru l1 d) _ HS1 eq_refl) in G4. subst rt.
    assert (HS2 : deps_sound d key -> LruSame (lru d) (lru d2)).
    { intros [_ Hs]. eapply same_trans; [exact HS1|]. apply G6. intros g Hg.
      apply (entry_sound_same d (set_lru l1 d)); [exact HS1|reflexivity|apply Hs; exact Hg]. }
    destruct (trees_spec d (somes (ar_dirs ar))) as [[ts|]|] eqn:ET.
    2:{ intros H; inversion H; subst. conj; fin. }
    2:{ intros H; inversion H; subst. conj; fin. }
    specialize (G5 ts eq_refl).
    assert (HS12 : LruSame (lru d) (lru d2)).
    { eapply same_trans; [exact HS1|]. rewrite G5. apply touch_all_same. exact HI1. }
    match goal with |- context [exec c d2 (RFindMissing ?xs ?bs true)] =>
      destruct (exec c d2 (RFindMissing xs bs true)) as [d3 r3] eqn:EF;
      destruct (fm_failfast_noproxy c d2 xs bs d3 r3 Hp G3 EF) as (K1 & K2 & K3 & K4 & K5) end.
    change (map (fun g => (hash g, size_bytes g)) (pending ar ts)) with (map dig (pending ar ts)) in *.
    assert (EQ : forallb (present_local (lru d2)) (map dig (pending ar ts))
                 = forallb (present_local (lru d)) (map dig (pending ar ts))).
    { apply forallb_ext'. intros x. apply present_local_same. exact HS12. }
    rewrite EQ in K5.
    destruct (forallb (present_local (lru d)) (map dig (pending ar ts))).
    - destruct K5 as [-> K5]. intros H; inversion H; subst.
      conj; fin; try congruence.
      + intros ar' Hx. inversion Hx; subst ar'. exists ts. split; [exact ET|].
        rewrite K5, G5. unfold hit_keys. cbn [touch_all fold_left]. rewrite EGet. cbn [fst].
        fold (touch_all (touch_keys (map dig (tree_digests (somes (ar_dirs ar)))) ++ touch_keys (map dig (pending ar ts)))).
        rewrite touch_all_app. reflexivity.
      + intros Hs. eapply same_trans; [exact HS12|exact K4].
    - subst r3. intros H; inversion H; subst.
      conj; fin; try congruence.
      intros Hs. eapply same_trans; [exact HS12|exact K4].
  Qed.
End Spec.
