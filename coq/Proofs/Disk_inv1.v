(* Proofs/Disk_inv1.v — the system invariant of the disk-cache transition system (Model/Disk.v):
   definitions, list/file lemmas, the kinds of effect one thread step can have, and the proof that
   every kind of effect preserves the invariant when that thread is replaced in the thread list. *)
From Coq Require Import Permutation.
From BR Require Import Base.Prelude Model.LRU Proofs.LRU_inv Proofs.LRU_spec Model.Disk.
Open Scope Z_scope.

(* ------------------------------------------------------------------ *)
(* paths and files *)

Lemma path_eqb_eq a b : path_eqb a b = true <-> a = b.
Proof.
  destruct a as [k1 s1 r1 l1], b as [k2 s2 r2 l2]. unfold path_eqb. simpl.
  rewrite !andb_true_iff, !String.eqb_eq, Z.eqb_eq, Bool.eqb_true_iff.
  split.
  - intros [[[-> ->] ->] ->]. reflexivity.
  - intros H. inversion H. auto.
Qed.

Lemma path_eqb_refl a : path_eqb a a = true.
Proof. apply path_eqb_eq. reflexivity. Qed.

Lemma path_eqb_neq a b : a <> b -> path_eqb a b = false.
Proof. intros H. destruct (path_eqb a b) eqn:E; [|reflexivity]. apply path_eqb_eq in E. contradiction. Qed.

Lemma find_file_In p fs f : find_file p fs = Some f -> In f fs /\ f_path f = p.
Proof.
  induction fs as [|x t IH]; simpl; [discriminate|].
  destruct (path_eqb (f_path x) p) eqn:E.
  - intros H. inversion H. subst. apply path_eqb_eq in E. auto.
  - intros H. destruct (IH H). auto.
Qed.

Lemma find_file_None p fs : find_file p fs = None -> ~ In p (map f_path fs).
Proof.
  induction fs as [|x t IH]; simpl; [tauto|].
  destruct (path_eqb (f_path x) p) eqn:E; [discriminate|].
  intros H [H1|H1]; [rewrite H1, path_eqb_refl in E; discriminate|exact (IH H H1)].
Qed.

Lemma find_file_notin p fs : ~ In p (map f_path fs) -> find_file p fs = None.
Proof.
  induction fs as [|x t IH]; simpl; [reflexivity|]. intros H.
  destruct (path_eqb (f_path x) p) eqn:E.
  - apply path_eqb_eq in E. exfalso. apply H. left. exact E.
  - apply IH. intros H1. apply H. right. exact H1.
Qed.

Lemma remove_file_notin p fs : find_file p fs = None -> remove_file p fs = fs.
Proof.
  induction fs as [|x t IH]; simpl; [reflexivity|].
  destruct (path_eqb (f_path x) p); [discriminate|]. intros H. rewrite (IH H). reflexivity.
Qed.

Lemma remove_file_perm p fs : In p (map f_path fs) ->
  Permutation (map f_path fs) (p :: map f_path (remove_file p fs)).
Proof.
  induction fs as [|x t IH]; simpl; [tauto|].
  destruct (path_eqb (f_path x) p) eqn:E.
  - apply path_eqb_eq in E. rewrite E. reflexivity.
  - intros [H|H]; [rewrite H, path_eqb_refl in E; discriminate|].
    simpl. rewrite perm_swap. constructor. apply IH. exact H.
Qed.

Lemma find_file_remove_other p q fs : q <> p -> find_file q (remove_file p fs) = find_file q fs.
Proof.
  intros Hn. induction fs as [|x t IH]; simpl; [reflexivity|].
  destruct (path_eqb (f_path x) p) eqn:E.
  - apply path_eqb_eq in E. rewrite E. rewrite path_eqb_neq by congruence. reflexivity.
  - simpl. rewrite IH. reflexivity.
Qed.

Lemma find_file_cons_other f q fs : q <> f_path f -> find_file q (f :: fs) = find_file q fs.
Proof. intros H. simpl. rewrite path_eqb_neq by congruence. reflexivity. Qed.

Lemma find_file_put_same f fs : find_file (f_path f) (put_file f fs) = Some f.
Proof. unfold put_file. simpl. rewrite path_eqb_refl. reflexivity. Qed.

Lemma find_file_put_other f q fs : q <> f_path f -> find_file q (put_file f fs) = find_file q fs.
Proof.
  intros H. unfold put_file. rewrite find_file_cons_other by exact H.
  apply find_file_remove_other. exact H.
Qed.

Lemma put_file_fresh f fs : find_file (f_path f) fs = None -> put_file f fs = f :: fs.
Proof. intros H. unfold put_file. rewrite remove_file_notin by exact H. reflexivity. Qed.

(* ------------------------------------------------------------------ *)
(* thread lists *)

Lemma upd_nth_split {A} (l : list A) : forall i t t', nth_error l i = Some t ->
  exists l1 l2, l = l1 ++ t :: l2 /\ upd_nth i t' l = l1 ++ t' :: l2.
Proof.
  induction l as [|x r IH]; intros [|i] t t' H; simpl in H; try discriminate.
  - inversion H; subst. exists [], r. split; reflexivity.
  - destruct (IH i t t' H) as (l1 & l2 & H1 & H2). exists (x :: l1), l2. simpl. rewrite H2.
    split; [rewrite H1 at 1; reflexivity|reflexivity].
Qed.

Lemma sumZ_mid {A} (f : A -> Z) l1 x l2 : sumZ f (l1 ++ x :: l2) = sumZ f l1 + f x + sumZ f l2.
Proof. rewrite sumZ_app. simpl. lia. Qed.

Definition entry_path (en : entry) : path := path_of (ekey en) (evalue en).
Definition otmp (t : thread) : list path := match t_tmp t with Some p => [p] | None => [] end.
Definition tmp_paths (ts : list thread) : list path := flat_map otmp ts.

Lemma tmp_paths_mid l1 t l2 : tmp_paths (l1 ++ t :: l2) = tmp_paths l1 ++ otmp t ++ tmp_paths l2.
Proof. unfold tmp_paths. rewrite flat_map_app. reflexivity. Qed.

Lemma tmp_paths_In ts q : In q (tmp_paths ts) <-> exists t, In t ts /\ t_tmp t = Some q.
Proof.
  unfold tmp_paths. rewrite in_flat_map. split; intros (t & H1 & H2); exists t; split; auto.
  - unfold otmp in H2. destruct (t_tmp t); simpl in H2; [|tauto]. destruct H2 as [->|[]]. reflexivity.
  - unfold otmp. rewrite H2. left. reflexivity.
Qed.

(* ------------------------------------------------------------------ *)
(* the invariant *)

(* the oracle columns of a request are sane *)
Definition req_ok (r : request) : Prop :=
  match r with
  | RPut _ _ _ st _ => 0 <= st_ondisk st /\ 0 <= st_len st
  | RGet _ _ _ _ _ (BFound claimed full delivered _ _ _) _ => 0 <= delivered <= full
  | _ => True
  end.

(* the name PutCreate / GetCreate computes for an upload of logical size [sz] *)
Definition tmp_path (c : cfg) (k : kind) (hash : string) (sz : Z) (rnd : string) : path :=
  let lg := kind_eqb k CAS && negb (c_zstd c) in
  mkPath (lookup_key k hash) (if kind_eqb k CAS && negb lg then sz else 0) rnd lg.

Definition file_ready (fs : list file) (p : path) (od : Z) : Prop :=
  exists f, find_file p fs = Some f /\ f_complete f = true /\ f_len f = od.

Definition idle (t : thread) : Prop := t_held t = 0 /\ t_tmp t = None.

(* what each program counter guarantees about the thread's locals and its temp file *)
Definition pc_ok (c : cfg) (fs : list file) (t : thread) : Prop :=
  match t_pc t with
  | PutCreate =>
      match t_req t with RPut k hash sz st rnd => t_tmp t = None /\ 0 <= sz | _ => True end
  | PutWrite | PutFinish =>
      match t_req t with
      | RPut k hash sz st rnd => t_tmp t = Some (tmp_path c k hash sz rnd) /\ 0 <= sz
      | _ => True end
  | PutCommit od =>
      match t_req t with
      | RPut k hash sz st rnd =>
          t_tmp t = Some (tmp_path c k hash sz rnd) /\ 0 <= sz /\ 0 <= od
          /\ file_ready fs (tmp_path c k hash sz rnd) od
      | _ => True end
  | GetFetch => t_tmp t = None
  | GetCreate cl => t_tmp t = None /\ 0 <= cl
  | GetCopy cl | GetCheck cl =>
      match t_req t with
      | RGet k hash sz off zstd b rnd => t_tmp t = Some (tmp_path c k hash cl rnd) /\ 0 <= cl
      | _ => True end
  | GetCommit cl od _ =>
      match t_req t with
      | RGet k hash sz off zstd b rnd =>
          t_tmp t = Some (tmp_path c k hash cl rnd) /\ 0 <= cl /\ 0 <= od
          /\ file_ready fs (tmp_path c k hash cl rnd) od
      | _ => True end
  | Cleanup _ => True
  | _ => idle t
  end.

Definition thread_ok (c : cfg) (fs : list file) (t : thread) : Prop :=
  req_ok (t_req t) /\ pc_ok c fs t.

Definition files_ok (l : LRU.state) (fs : list file) : Prop :=
  forall en, In en (all_entries l) -> file_ready fs (entry_path en) (sizeOnDisk (evalue en)).

Record SysInv (c : cfg) (s : sys) : Prop := mkSysInv {
  si_inv   : Inv (lru (sd s));                                   (* C03: accounting exact and bounded *)
  si_res   : res (lru (sd s)) = sumZ t_held (thr s);             (* reserved bytes = what in-flight requests hold *)
  si_held  : Forall (fun t => 0 <= t_held t) (thr s);
  si_thr   : Forall (thread_ok c (files (sd s))) (thr s);        (* pc-local facts *)
  si_dir   : Permutation (map f_path (files (sd s)))
                         (map entry_path (all_entries (lru (sd s))) ++ tmp_paths (thr s));   (* C04 *)
  si_nodup : NoDup (map f_path (files (sd s)));
  si_files : files_ok (lru (sd s)) (files (sd s)) }.

(* ------------------------------------------------------------------ *)
(* ghost events of a step (used by Proofs/Disk_conc.v): the commit a step performs, the name it creates *)

Definition commit : Type := (string * Z * Z * Z)%type.  (* key, content identity, logical size, bytes in the file *)

Definition commit_of (t t' : thread) : option commit :=
  match t_pc t with
  | PutCommit od =>
      match t_req t, t_pc t' with
      | RPut k hash sz st rnd, Cleanup PutOk => Some (lookup_key k hash, st_cid st, sz, od)
      | _, _ => None
      end
  | GetCommit cl od f =>
      match t_req t, t_pc t' with
      | RGet k hash sz off zstd b rnd, Cleanup (GetHit _ _ _) => Some (lookup_key k hash, f_cid f, cl, od)
      | _, _ => None
      end
  | _ => None
  end.

Definition created_of (t t' : thread) : list path :=
  match t_pc t with
  | PutCreate | GetCreate _ => match t_tmp t' with Some p => [p] | None => [] end
  | _ => []
  end.

Definition quiet (t t' : thread) : Prop := commit_of t t' = None /\ created_of t t' = [].

(* ------------------------------------------------------------------ *)
(* the kinds of effect of one step of one thread *)

Inductive Effect (d : dstate) (t : thread) (d' : dstate) (t' : thread) : Prop :=
| EIndex   (* an index critical section (or a pure pc change) that adds no entry *)
    (ef_files : files d' = files d)
    (ef_inv : Inv (lru d'))
    (ef_res : res (lru d') = res (lru d) - t_held t + t_held t')
    (ef_held : 0 <= t_held t')
    (ef_maxs : maxs (lru d') = maxs (lru d))
    (ef_ent : Permutation (all_entries (lru d')) (all_entries (lru d)))
    (ef_tmp : t_tmp t' = t_tmp t)
    (ef_quiet : quiet t t')
| ECommit (p : path) (en : entry)   (* commit succeeded: the temp file becomes the file of a new entry *)
    (ef_files : files d' = files d)
    (ef_inv : Inv (lru d'))
    (ef_res : res (lru d') = res (lru d) - t_held t)
    (ef_held : t_held t' = 0)
    (ef_maxs : maxs (lru d') = maxs (lru d))
    (ef_ent : Permutation (all_entries (lru d')) (en :: all_entries (lru d)))
    (ef_tmp : t_tmp t = Some p)
    (ef_tmp' : t_tmp t' = None)
    (ef_path : entry_path en = p)
    (ef_ready : file_ready (files d) p (sizeOnDisk (evalue en)))
    (ef_commit : exists cid, commit_of t t' = Some (ekey en, cid, size (evalue en), sizeOnDisk (evalue en)))
    (ef_nocreate : created_of t t' = [])
| ECreate (f : file)   (* a temp file with a fresh name *)
    (ef_lru : lru d' = lru d)
    (ef_held : t_held t' = t_held t)
    (ef_tmp : t_tmp t = None)
    (ef_tmp' : t_tmp t' = Some (f_path f))
    (ef_fresh : find_file (f_path f) (files d) = None)
    (ef_files : files d' = f :: files d)
    (ef_nocommit : commit_of t t' = None)
    (ef_created : created_of t t' = [f_path f])
| ERewrite (f : file)   (* the thread rewrites its own temp file *)
    (ef_lru : lru d' = lru d)
    (ef_held : t_held t' = t_held t)
    (ef_tmp : t_tmp t = Some (f_path f))
    (ef_tmp' : t_tmp t' = Some (f_path f))
    (ef_files : files d' = put_file f (files d))
    (ef_quiet : quiet t t')
| ERemove (p : path)   (* the deferred clean-up unlinks the temp file *)
    (ef_lru : lru d' = lru d)
    (ef_held : t_held t' = t_held t)
    (ef_tmp : t_tmp t = Some p)
    (ef_tmp' : t_tmp t' = None)
    (ef_files : files d' = remove_file p (files d))
    (ef_quiet : quiet t t').

(* ------------------------------------------------------------------ *)
(* framing: what a change of the directory at one path leaves alone *)

Lemma thread_ok_frame c fs fs' t :
  (forall q, t_tmp t = Some q -> find_file q fs' = find_file q fs) ->
  thread_ok c fs t -> thread_ok c fs' t.
Proof.
  destruct t as [req pc h tmp]. unfold thread_ok, pc_ok, file_ready. simpl. intros Hq [Hr Hp].
  split; [exact Hr|].
  destruct pc; try exact Hp; destruct req; try exact Hp;
    destruct Hp as (H1 & H2 & H3 & H4); rewrite (Hq _ H1); auto.
Qed.

Lemma others_frame c fs fs' l :
  (forall q, In q (tmp_paths l) -> find_file q fs' = find_file q fs) ->
  Forall (thread_ok c fs) l -> Forall (thread_ok c fs') l.
Proof.
  intros Hq HF. rewrite Forall_forall in *. intros t Ht. apply (thread_ok_frame c fs); [|apply HF; exact Ht].
  intros q Hq'. apply Hq. apply tmp_paths_In. exists t. auto.
Qed.

Lemma frame_files c L fs fs' l1 l2 p :
  (forall q, q <> p -> find_file q fs' = find_file q fs) ->
  ~ In p (map entry_path (all_entries L) ++ tmp_paths l1 ++ tmp_paths l2) ->
  Forall (thread_ok c fs) l1 -> Forall (thread_ok c fs) l2 -> files_ok L fs ->
  Forall (thread_ok c fs') l1 /\ Forall (thread_ok c fs') l2 /\ files_ok L fs'.
Proof.
  intros Hq Hn H1 H2 HF. rewrite !in_app_iff in Hn. split; [|split].
  - apply (others_frame c fs); [|exact H1]. intros q Hin. apply Hq. intros ->. tauto.
  - apply (others_frame c fs); [|exact H2]. intros q Hin. apply Hq. intros ->. tauto.
  - intros en Hen. unfold file_ready. rewrite Hq; [apply HF; exact Hen|].
    intros Heq. apply Hn. left. rewrite <- Heq. apply in_map. exact Hen.
Qed.

(* ------------------------------------------------------------------ *)
(* every kind of effect preserves the invariant *)

Lemma effect_preserves c d t d' t' l1 l2 :
  SysInv c (mkSys d (l1 ++ t :: l2)) -> Effect d t d' t' -> thread_ok c (files d') t' ->
  SysInv c (mkSys d' (l1 ++ t' :: l2)).
Proof.
  intros [HI HR HH HT HD HN HF] HE HT'. simpl in *.
  rewrite sumZ_mid in HR. rewrite tmp_paths_mid in HD.
  apply Forall_app in HH as [HH1 HH2]. inversion HH2 as [|? ? HHt HH2']; subst.
  apply Forall_app in HT as [HT1 HT2]. inversion HT2 as [|? ? HTt HT2']; subst.
  assert (HND : NoDup (map entry_path (all_entries (lru d)) ++ tmp_paths l1 ++ otmp t ++ tmp_paths l2))
    by (eapply Permutation_NoDup; eassumption).
  destruct HE.
  - (* EIndex *)
    constructor; simpl; rewrite ?sumZ_mid, ?tmp_paths_mid, ?ef_files.
    + exact ef_inv.
    + lia.
    + apply Forall_app; split; [exact HH1|]. constructor; assumption.
    + rewrite ef_files in HT'. apply Forall_app; split; [exact HT1|]. constructor; assumption.
    + unfold otmp at 1. rewrite ef_tmp. fold (otmp t). etransitivity; [exact HD|].
      apply Permutation_app_tail. apply Permutation_map. apply Permutation_sym. exact ef_ent.
    + exact HN.
    + intros en Hen. apply HF. eapply Permutation_in; eassumption.
  - (* ECommit *)
    unfold otmp in HD, HND. rewrite ef_tmp in HD, HND.
    constructor; simpl; rewrite ?sumZ_mid, ?tmp_paths_mid, ?ef_files.
    + exact ef_inv.
    + lia.
    + apply Forall_app; split; [exact HH1|]. constructor; [lia|assumption].
    + rewrite ef_files in HT'. apply Forall_app; split; [exact HT1|]. constructor; assumption.
    + unfold otmp at 1. rewrite ef_tmp'. simpl. etransitivity; [exact HD|].
      rewrite (Permutation_map entry_path ef_ent). simpl. rewrite ef_path.
      (* E ++ T1 ++ p :: T2  ~  p :: E ++ T1 ++ T2 *)
      rewrite app_assoc. etransitivity; [apply Permutation_sym, Permutation_middle|].
      rewrite <- app_assoc. reflexivity.
    + exact HN.
    + intros en' Hen. apply (Permutation_in _ ef_ent) in Hen. destruct Hen as [<-|Hen].
      * rewrite ef_path. exact ef_ready.
      * apply HF. exact Hen.
  - (* ECreate *)
    unfold otmp in HD, HND. rewrite ef_tmp in HD, HND. simpl in HD, HND.
    pose proof (find_file_None _ _ ef_fresh) as Hfr.
    assert (Hn : ~ In (f_path f) (map entry_path (all_entries (lru d)) ++ tmp_paths l1 ++ tmp_paths l2)).
    { intros Hin. apply Hfr. eapply Permutation_in; [apply Permutation_sym; exact HD|exact Hin]. }
    destruct (frame_files c (lru d) (files d) (files d') l1 l2 (f_path f)) as (F1 & F2 & F3); auto.
    { intros q Hq. rewrite ef_files. apply find_file_cons_other. exact Hq. }
    constructor; simpl; rewrite ?sumZ_mid, ?tmp_paths_mid, ?ef_lru.
    + exact HI.
    + lia.
    + apply Forall_app; split; [exact HH1|]. constructor; [lia|assumption].
    + apply Forall_app; split; [exact F1|]. constructor; assumption.
    + rewrite ef_files. unfold otmp at 1. rewrite ef_tmp'. simpl.
      rewrite app_assoc. etransitivity; [|apply Permutation_middle]. constructor.
      rewrite <- app_assoc. exact HD.
    + rewrite ef_files. simpl. constructor; assumption.
    + exact F3.
  - (* ERewrite *)
    unfold otmp in HD, HND. rewrite ef_tmp in HD, HND. simpl in HD, HND.
    assert (Hin : In (f_path f) (map f_path (files d))).
    { eapply Permutation_in; [apply Permutation_sym; exact HD|]. rewrite !in_app_iff. right. right. left. reflexivity. }
    assert (Hn : ~ In (f_path f) (map entry_path (all_entries (lru d)) ++ tmp_paths l1 ++ tmp_paths l2)).
    { rewrite app_assoc in HND. apply NoDup_remove_2 in HND. rewrite <- app_assoc in HND. exact HND. }
    destruct (frame_files c (lru d) (files d) (files d') l1 l2 (f_path f)) as (F1 & F2 & F3); auto.
    { intros q Hq. rewrite ef_files. apply find_file_put_other. exact Hq. }
    assert (HP : Permutation (map f_path (files d)) (map f_path (files d'))).
    { rewrite ef_files. unfold put_file. simpl. apply remove_file_perm. exact Hin. }
    constructor; simpl; rewrite ?sumZ_mid, ?tmp_paths_mid, ?ef_lru.
    + exact HI.
    + lia.
    + apply Forall_app; split; [exact HH1|]. constructor; [lia|assumption].
    + apply Forall_app; split; [exact F1|]. constructor; assumption.
    + unfold otmp at 1. rewrite ef_tmp'. simpl. etransitivity; [apply Permutation_sym; exact HP|exact HD].
    + eapply Permutation_NoDup; eassumption.
    + exact F3.
  - (* ERemove *)
    unfold otmp in HD, HND. rewrite ef_tmp in HD, HND. simpl in HD, HND.
    assert (Hin : In p (map f_path (files d))).
    { eapply Permutation_in; [apply Permutation_sym; exact HD|]. rewrite !in_app_iff. right. right. left. reflexivity. }
    assert (Hn : ~ In p (map entry_path (all_entries (lru d)) ++ tmp_paths l1 ++ tmp_paths l2)).
    { rewrite app_assoc in HND. apply NoDup_remove_2 in HND. rewrite <- app_assoc in HND. exact HND. }
    destruct (frame_files c (lru d) (files d) (files d') l1 l2 p) as (F1 & F2 & F3); auto.
    { intros q Hq. rewrite ef_files. apply find_file_remove_other. exact Hq. }
    pose proof (remove_file_perm p (files d) Hin) as HP.
    constructor; simpl; rewrite ?sumZ_mid, ?tmp_paths_mid, ?ef_lru.
    + exact HI.
    + lia.
    + apply Forall_app; split; [exact HH1|]. constructor; [lia|assumption].
    + apply Forall_app; split; [exact F1|]. constructor; assumption.
    + rewrite ef_files. unfold otmp at 1. rewrite ef_tmp'. simpl.
      apply (Permutation_cons_inv (a := p)). etransitivity; [apply Permutation_sym; exact HP|].
      etransitivity; [exact HD|]. rewrite app_assoc. etransitivity; [apply Permutation_sym, Permutation_middle|].
      rewrite <- app_assoc. reflexivity.
    + rewrite ef_files. pose proof (Permutation_NoDup HP HN) as H. inversion H; assumption.
    + exact F3.
Qed.
