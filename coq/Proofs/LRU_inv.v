(* Proofs/LRU_inv.v — the accounting invariant of the LRU index and its preservation by every
   operation; the eviction loops' specification (suffix, minimality, termination). *)
From Coq Require Import Permutation.
From BR Require Import Base.Prelude Model.LRU.
Open Scope Z_scope.

Definition key_of (e : elem) : string := ekey (ent e).
Definition qsz (en : entry) : Z := sizeOnDisk (evalue en).
Definition item_ok (v : item) : Prop := 0 <= size v /\ 0 <= sizeOnDisk v.

(* accounting with a pending delta (d, du): the shape that holds inside Add between the list
   update and the final "currentSize += sizeDelta" *)
Record AcctD (d du : Z) (s : state) : Prop := mkAcct {
  a_keys : NoDup (map key_of (order s));
  a_ids : NoDup (map eid (order s));
  a_fresh : Forall (fun e => (eid e < next s)%nat) (order s);
  a_cur : cur s + d = res s + sumZ r4k_disk (order s);
  a_unc : unc s + du = sumZ r4k_size (order s);
  a_res : 0 <= res s;
  a_q : qbytes s = sumZ qsz (evq s);
  a_items : Forall (fun e => item_ok (evalue (ent e))) (order s);
  a_qitems : Forall (fun en => item_ok (evalue en)) (evq s) }.

Definition Inv (s : state) : Prop := AcctD 0 0 s /\ cur s <= maxs s /\ 0 < maxs s.

(* ------------------------------------------------------------------ *)
(* roundUp4k *)

Lemma roundUp4k_bounds n : n <= roundUp4k n < n + 4096.
Proof. unfold roundUp4k. lia. Qed.

Lemma roundUp4k_nonneg n : 0 <= n -> 0 <= roundUp4k n.
Proof. pose proof (roundUp4k_bounds n). lia. Qed.

Lemma roundUp4k_mult n : (roundUp4k n) mod 4096 = 0.
Proof. unfold roundUp4k. apply Z.mod_mul. lia. Qed.

Lemma roundUp4k_mono a b : a <= b -> roundUp4k a <= roundUp4k b.
Proof. unfold roundUp4k. intros. apply Z.mul_le_mono_nonneg_r; [lia|]. apply Z.div_le_mono; lia. Qed.

Lemma roundUp4k_fix n : n mod 4096 = 0 -> roundUp4k n = n.
Proof. unfold roundUp4k. lia. Qed.

(* ------------------------------------------------------------------ *)
(* list lemmas *)

Lemma sumZ_perm {A} (f : A -> Z) l l' : Permutation l l' -> sumZ f l = sumZ f l'.
Proof. induction 1; simpl; lia. Qed.

Lemma NoDup_app_snoc {A} (l : list A) x : NoDup l -> ~ In x l -> NoDup (l ++ [x]).
Proof.
  intros ND Hx. eapply Permutation_NoDup; [apply Permutation_cons_append|]. constructor; assumption.
Qed.

Lemma find_key_In k l e : find_key k l = Some e -> In e l /\ key_of e = k.
Proof.
  induction l as [|x t IH]; simpl; [discriminate|].
  destruct (String.eqb (ekey (ent x)) k) eqn:E.
  - intros H; inversion H; subst. split; [left; reflexivity|]. apply String.eqb_eq in E. exact E.
  - intros H. destruct (IH H) as [H1 H2]. split; [right; exact H1|exact H2].
Qed.

Lemma find_key_None k l : find_key k l = None -> ~ In k (map key_of l).
Proof.
  induction l as [|x t IH]; simpl; [tauto|].
  destruct (String.eqb (ekey (ent x)) k) eqn:E; [discriminate|].
  intros H [H1|H1].
  - unfold key_of in H1. rewrite H1, String.eqb_refl in E. discriminate.
  - exact (IH H H1).
Qed.

Lemma find_key_Some_iff k l : NoDup (map key_of l) ->
  forall e, In e l -> key_of e = k -> find_key k l = Some e.
Proof.
  induction l as [|x t IH]; simpl; intros ND e Hin Hk; [tauto|].
  inversion ND as [|? ? Hnotin ND']; subst.
  destruct Hin as [->|Hin].
  - unfold key_of. rewrite String.eqb_refl. reflexivity.
  - destruct (String.eqb (ekey (ent x)) (key_of e)) eqn:E.
    + apply String.eqb_eq in E. exfalso. apply Hnotin. unfold key_of at 1. rewrite E.
      apply in_map. exact Hin.
    + apply IH; auto.
Qed.

Lemma find_id_In id l e : find_id id l = Some e -> In e l /\ eid e = id.
Proof.
  induction l as [|x t IH]; simpl; [discriminate|].
  destruct (Nat.eqb (eid x) id) eqn:E.
  - intros H; inversion H; subst. split; [left; reflexivity|]. apply Nat.eqb_eq in E. exact E.
  - intros H. destruct (IH H) as [H1 H2]. split; [right; exact H1|exact H2].
Qed.

Lemma remove_id_perm l e : NoDup (map eid l) -> In e l ->
  Permutation l (e :: remove_id (eid e) l).
Proof.
  induction l as [|x t IH]; simpl; intros ND Hin; [tauto|].
  inversion ND as [|? ? Hnotin ND']; subst.
  destruct (Nat.eqb (eid x) (eid e)) eqn:E.
  - apply Nat.eqb_eq in E. destruct Hin as [->|Hin]; [reflexivity|].
    exfalso. apply Hnotin. rewrite E. apply in_map. exact Hin.
  - destruct Hin as [->|Hin]; [rewrite Nat.eqb_refl in E; discriminate|].
    rewrite perm_swap. constructor. apply IH; assumption.
Qed.

Lemma remove_id_head e t : remove_id (eid e) (e :: t) = t.
Proof. simpl. rewrite Nat.eqb_refl. reflexivity. Qed.

(* remove_id takes out one element and keeps the relative order of the others *)
Lemma remove_id_split l e : NoDup (map eid l) -> In e l ->
  exists l1 l2, l = l1 ++ e :: l2 /\ remove_id (eid e) l = l1 ++ l2.
Proof.
  induction l as [|x t IH]; simpl; intros ND Hin; [tauto|].
  inversion ND as [|? ? Hnotin ND']; subst.
  destruct (Nat.eqb (eid x) (eid e)) eqn:E.
  - apply Nat.eqb_eq in E. destruct Hin as [->|Hin].
    + exists [], t. split; reflexivity.
    + exfalso. apply Hnotin. rewrite E. apply in_map. exact Hin.
  - destruct Hin as [->|Hin]; [rewrite Nat.eqb_refl in E; discriminate|].
    destruct (IH ND' Hin) as (l1 & l2 & H1 & H2).
    exists (x :: l1), l2. simpl. rewrite H1 at 1. rewrite H2. split; reflexivity.
Qed.

Lemma Forall_perm {A} (P : A -> Prop) l l' : Permutation l l' -> Forall P l -> Forall P l'.
Proof. intros Hp HF. apply Forall_forall. intros x Hx. rewrite Forall_forall in HF. apply HF.
  apply Permutation_sym in Hp. eapply Permutation_in; eassumption. Qed.

(* ------------------------------------------------------------------ *)
(* removeElement of the head; the eviction loops *)

Lemma remove_elem_head d du e t s :
  order s = e :: t -> AcctD d du s ->
  AcctD d du (remove_elem e s) /\ order (remove_elem e s) = t
  /\ cur (remove_elem e s) = cur s - r4k_disk e
  /\ evq (remove_elem e s) = evq s ++ [ent e].
Proof.
  intros Ho [Hk Hi Hf Hc Hu Hr Hq Hit Hqi].
  unfold remove_elem, enqueue; simpl. rewrite Ho in *. rewrite remove_id_head.
  simpl in *. inversion Hk; inversion Hi; inversion Hf; inversion Hit; subst.
  repeat split; simpl; auto; try lia.
  - rewrite sumZ_app. simpl. unfold qsz at 2. lia.
  - apply Forall_app; split; [assumption|]. constructor; [assumption|constructor].
Qed.

(* what one run of an eviction loop does *)
Inductive EvictSpec (cond : Z -> bool) (s s' : state) (stuck : bool) : Prop :=
| mkEvictSpec (es_evicted : list elem)
  (es_order : order s = es_evicted ++ order s')
  (es_evq : evq s' = evq s ++ map ent es_evicted)
  (es_cur : cur s' = cur s - sumZ r4k_disk es_evicted)
  (es_unc : unc s' = unc s - sumZ r4k_size es_evicted)
  (es_frame : res s' = res s /\ maxs s' = maxs s /\ hard s' = hard s /\ next s' = next s /\ peak s' = peak s)
  (es_stop : stuck = false -> cond (cur s') = false)
  (es_stuck : stuck = true -> order s' = [] /\ cond (cur s') = true)
  (* every evicted element was evicted because the condition still held just before it *)
  (es_needed : forall ev1 e ev2, es_evicted = ev1 ++ e :: ev2 ->
                cond (cur s - sumZ r4k_disk ev1) = true).

Lemma evict_spec_nil cond s stuck :
  (stuck = false -> cond (cur s) = false) ->
  (stuck = true -> order s = [] /\ cond (cur s) = true) ->
  EvictSpec cond s s stuck.
Proof.
  intros H1 H2. apply (mkEvictSpec cond s s stuck []); simpl; auto.
  - rewrite app_nil_r; reflexivity.
  - lia.
  - lia.
  - intros ev1 e ev2 H. destruct ev1; discriminate.
Qed.

Lemma evict_loop_spec cond d du : forall l s,
  order s = l -> AcctD d du s ->
  let '(s', stuck) := evict_loop cond l s in
  AcctD d du s' /\ EvictSpec cond s s' stuck.
Proof.
  induction l as [|e t IH]; intros s Ho HA; simpl.
  - destruct (cond (cur s)) eqn:Ec.
    + split; [exact HA|]. apply evict_spec_nil; [discriminate|]. intros _. split; assumption.
    + split; [exact HA|]. apply evict_spec_nil; [intros _; exact Ec|discriminate].
  - destruct (cond (cur s)) eqn:Ec.
    + destruct (remove_elem_head d du e t s Ho HA) as (HA1 & Ho1 & Hc1 & Hq1).
      specialize (IH (remove_elem e s) Ho1 HA1).
      destruct (evict_loop cond t (remove_elem e s)) as [s' stuck].
      destruct IH as [HA' [ev Hord Hevq Hcur Hunc Hfr Hstop Hstuck Hneed]].
      split; [exact HA'|].
      apply (mkEvictSpec cond s s' stuck (e :: ev)).
      * rewrite Ho, <- Ho1, Hord. reflexivity.
      * rewrite Hevq, Hq1. simpl. rewrite <- app_assoc. reflexivity.
      * rewrite Hcur, Hc1. simpl. lia.
      * rewrite Hunc. unfold remove_elem, enqueue; simpl. lia.
      * unfold remove_elem, enqueue in Hfr; simpl in Hfr. exact Hfr.
      * exact Hstop.
      * exact Hstuck.
      * intros ev1 x ev2 H. destruct ev1 as [|y ev1].
        -- simpl. rewrite Z.sub_0_r. exact Ec.
        -- simpl in H. inversion H; subst. specialize (Hneed ev1 x ev2 eq_refl).
           rewrite Hc1 in Hneed. simpl.
           replace (cur s - (r4k_disk y + sumZ r4k_disk ev1))
             with (cur s - r4k_disk y - sumZ r4k_disk ev1) by lia. exact Hneed.
    + split; [exact HA|]. apply evict_spec_nil; [intros _; exact Ec|discriminate].
Qed.

Lemma evict_while_spec cond d du s :
  AcctD d du s ->
  let '(s', stuck) := evict_while cond s in
  AcctD d du s' /\ EvictSpec cond s s' stuck.
Proof. intros HA. unfold evict_while. apply evict_loop_spec; [reflexivity|exact HA]. Qed.

(* ------------------------------------------------------------------ *)
(* Moving an element to the most-recently-used end, possibly with a new value *)

Lemma touch_acct d du s e v' :
  AcctD d du s -> In e (order s) ->
  let e' := mkElem (eid e) (mkEntry (key_of e) v') in
  item_ok v' ->
  AcctD (d + (roundUp4k (sizeOnDisk v') - r4k_disk e)) (du + (roundUp4k (size v') - r4k_size e))
        (set_order (remove_id (eid e) (order s) ++ [e']) s).
Proof.
  intros [Hk Hi Hf Hc Hu Hr Hq Hit Hqi] Hin e' Hv'.
  pose proof (remove_id_perm (order s) e Hi Hin) as HP.
  assert (HP' : Permutation (e :: remove_id (eid e) (order s)) (remove_id (eid e) (order s) ++ [e]))
    by (apply Permutation_cons_append).
  assert (Hk2 : NoDup (map key_of (remove_id (eid e) (order s) ++ [e]))).
  { eapply Permutation_NoDup; [|exact Hk]. apply Permutation_map. etransitivity; eassumption. }
  assert (Hi2 : NoDup (map eid (remove_id (eid e) (order s) ++ [e]))).
  { eapply Permutation_NoDup; [|exact Hi]. apply Permutation_map. etransitivity; eassumption. }
  constructor; unfold set_order; simpl.
  - rewrite map_app in *. simpl in *. exact Hk2.
  - rewrite map_app in *. simpl in *. exact Hi2.
  - assert (HF : Forall (fun x => (eid x < next s)%nat) (remove_id (eid e) (order s) ++ [e])).
    { eapply Forall_perm; [|exact Hf]. etransitivity; eassumption. }
    apply Forall_app in HF as [HF1 HF2]. apply Forall_app; split; [exact HF1|].
    inversion HF2; subst. constructor; [simpl; assumption|constructor].
  - rewrite sumZ_app. simpl. rewrite (sumZ_perm r4k_disk _ _ HP) in Hc. simpl in Hc.
    change (r4k_disk e') with (roundUp4k (sizeOnDisk v')). lia.
  - rewrite sumZ_app. simpl. rewrite (sumZ_perm r4k_size _ _ HP) in Hu. simpl in Hu.
    change (r4k_size e') with (roundUp4k (size v')). lia.
  - exact Hr.
  - exact Hq.
  - assert (HF : Forall (fun x => item_ok (evalue (ent x))) (remove_id (eid e) (order s) ++ [e])).
    { eapply Forall_perm; [|exact Hit]. etransitivity; eassumption. }
    apply Forall_app in HF as [HF1 HF2]. apply Forall_app; split; [exact HF1|].
    constructor; [simpl; exact Hv'|constructor].
  - exact Hqi.
Qed.

Lemma touch_same d du s e :
  AcctD d du s -> In e (order s) ->
  AcctD d du (set_order (remove_id (eid e) (order s) ++ [e]) s).
Proof.
  intros HA Hin.
  assert (Hv : item_ok (evalue (ent e))).
  { destruct HA as [_ _ _ _ _ _ _ Hit _]. rewrite Forall_forall in Hit. apply Hit; exact Hin. }
  pose proof (touch_acct d du s e (evalue (ent e)) HA Hin Hv) as H. simpl in H.
  replace (d + (roundUp4k (sizeOnDisk (evalue (ent e))) - r4k_disk e)) with d in H
    by (unfold r4k_disk; lia).
  replace (du + (roundUp4k (size (evalue (ent e))) - r4k_size e)) with du in H
    by (unfold r4k_size; lia).
  destruct e as [id [k v]]. exact H.
Qed.

Lemma enqueue_acct d du s en : AcctD d du s -> item_ok (evalue en) -> AcctD d du (enqueue en s).
Proof.
  intros [Hk Hi Hf Hc Hu Hr Hq Hit Hqi] Hv. constructor; unfold enqueue; simpl; auto.
  - rewrite sumZ_app. simpl. unfold qsz at 2. lia.
  - apply Forall_app; split; [assumption|]. constructor; [assumption|constructor].
Qed.

Lemma upd_peak_acct d du n s : AcctD d du s -> AcctD d du (upd_peak n s).
Proof. intros [Hk Hi Hf Hc Hu Hr Hq Hit Hqi]. constructor; unfold upd_peak; simpl; auto. Qed.

(* ------------------------------------------------------------------ *)
(* Preservation of Inv by every operation; Add and Reserve never get stuck *)

Lemma inv_res_le_cur s : Inv s -> res s <= cur s.
Proof.
  intros ([_ _ _ Hc _ _ _ Hit _] & _ & _).
  assert (0 <= sumZ r4k_disk (order s)).
  { apply sumZ_nonneg. intros x Hx. rewrite Forall_forall in Hit. apply roundUp4k_nonneg, (Hit x Hx). }
  lia.
Qed.

Lemma get_inv k s : Inv s -> Inv (fst (get k s)).
Proof.
  intros (HA & Hm & Hp). unfold get. destruct (find_key k (order s)) as [e|] eqn:E; simpl.
  - apply find_key_In in E as [Hin _]. split; [apply touch_same; assumption|]. simpl. auto.
  - split; auto.
Qed.

Lemma remove_elem_inv s e : Inv s -> In e (order s) -> Inv (remove_elem e s).
Proof.
  intros (HA & Hm & Hp) Hin.
  destruct HA as [Hk Hi Hf Hc Hu Hr Hq Hit Hqi].
  pose proof (remove_id_perm (order s) e Hi Hin) as HP.
  assert (Hv : item_ok (evalue (ent e))) by (rewrite Forall_forall in Hit; apply Hit; exact Hin).
  assert (Hnn : 0 <= r4k_disk e) by (apply roundUp4k_nonneg; apply Hv).
  split; [|unfold remove_elem, enqueue; simpl; split; [lia|exact Hp]].
  constructor; unfold remove_elem, enqueue; simpl.
  - pose proof (Permutation_NoDup (Permutation_map key_of HP) Hk) as H. inversion H; assumption.
  - pose proof (Permutation_NoDup (Permutation_map eid HP) Hi) as H. inversion H; assumption.
  - pose proof (Forall_perm _ _ _ HP Hf) as H. inversion H; assumption.
  - rewrite (sumZ_perm r4k_disk _ _ HP) in Hc. simpl in Hc. lia.
  - rewrite (sumZ_perm r4k_size _ _ HP) in Hu. simpl in Hu. lia.
  - exact Hr.
  - rewrite sumZ_app. simpl. unfold qsz at 2. lia.
  - pose proof (Forall_perm _ _ _ HP Hit) as H. inversion H; assumption.
  - apply Forall_app; split; [assumption|]. constructor; [assumption|constructor].
Qed.

Lemma remove_key_inv k s : Inv s -> Inv (remove_key k s).
Proof.
  intros HI. unfold remove_key. destruct (find_key k (order s)) as [e|] eqn:E; [|exact HI].
  apply remove_elem_inv; [exact HI|]. apply find_key_In in E. tauto.
Qed.

Lemma remove_element_inv id s s' : Inv s -> remove_element id s = Some s' -> Inv s'.
Proof.
  intros HI. unfold remove_element. destruct (find_id id (order s)) as [e|] eqn:E; [|discriminate].
  intros H; inversion H; subst. apply remove_elem_inv; [exact HI|]. apply find_id_In in E. tauto.
Qed.

Lemma unreserve_inv n s : Inv s -> Inv (fst (unreserve n s)).
Proof.
  intros (HA & Hm & Hp). unfold unreserve.
  destruct (n =? 0) eqn:E0; [simpl; split; auto|].
  destruct (n <? 0) eqn:E1; [simpl; split; auto|].
  destruct ((cur s - n <? 0) || (res s - n <? 0)) eqn:E2; [simpl; split; auto|].
  simpl. apply orb_false_iff in E2 as [E2 E3].
  destruct HA as [Hk Hi Hf Hc Hu Hr Hq Hit Hqi].
  split; [constructor; simpl; auto; lia|simpl; split; [lia|exact Hp]].
Qed.

Lemma evictor_step_inv s : Inv s -> Inv (fst (evictor_step s)).
Proof.
  intros (HA & Hm & Hp). unfold evictor_step. destruct (evq s) as [|en t] eqn:E; [simpl; split; auto|].
  simpl. destruct HA as [Hk Hi Hf Hc Hu Hr Hq Hit Hqi]. rewrite E in *. simpl in Hq.
  split; [|simpl; auto]. constructor; simpl; auto.
  - unfold qsz in Hq at 1. lia.
  - inversion Hqi; assumption.
Qed.

Lemma drain_n_inv n : forall s, Inv s -> Inv (drain_n n s).
Proof. induction n as [|n IH]; intros s HI; simpl; [exact HI|]. apply IH, evictor_step_inv, HI. Qed.

Lemma reserve_inv n s : Inv s ->
  Inv (fst (reserve n s)) /\
  match snd (reserve n s) with Ok _ | Err EBadRequest | Err EInsufficient => True | _ => False end.
Proof.
  intros HI. pose proof HI as (HA & Hm & Hp). unfold reserve, sumLargerThan.
  destruct (n =? 0) eqn:E0; [simpl; split; [exact HI|exact I]|].
  destruct (n <? 0) eqn:E1; [simpl; split; [exact HI|exact I]|].
  destruct (n >? maxs s) eqn:E2; [simpl; split; [exact HI|exact I]|].
  destruct (n + res s >? maxs s) eqn:E3; [simpl; split; [exact HI|exact I]|].
  assert (HI1 : Inv (upd_peak n s)) by (split; [apply upd_peak_acct; exact HA|simpl; auto]).
  destruct ((hard (upd_peak n s) >? 0) && (total_disk s n >? hard (upd_peak n s))) eqn:E4;
    [simpl; split; [exact HI1|exact I]|].
  pose proof (evict_while_spec (fun c => n + c >? maxs (upd_peak n s)) 0 0 (upd_peak n s)
                (proj1 HI1)) as HS.
  destruct (evict_while (fun c => n + c >? maxs (upd_peak n s)) (upd_peak n s)) as [s2 stuck].
  destruct HS as [HA2 [ev Hord Hevq Hcur Hunc (Hr' & Hm' & Hh' & Hn' & Hpk') Hstop Hstuck Hneed]].
  simpl in Hm', Hr'.
  destruct stuck.
  - (* impossible: an empty list means cur = res, and n + res <= max was checked *)
    exfalso. destruct (Hstuck eq_refl) as [Hnil Hc].
    destruct HA2 as [_ _ _ Hc2 _ _ _ _ _]. rewrite Hnil in Hc2. simpl in Hc2. simpl in Hc. lia.
  - simpl. specialize (Hstop eq_refl). simpl in Hstop.
    destruct HA2 as [Hk Hi Hf Hc Hu Hr Hq Hit Hqi].
    split; [|exact I].
    split; [constructor; simpl; auto; lia|simpl; split; lia].
Qed.

Lemma add_inv_eq k v s s' r : Inv s -> item_ok v -> add k v s = (s', r) ->
  Inv s' /\ is_hang r = false /\ is_panic r = false.
Proof.
  intros HI Hv. pose proof HI as (HA & Hm & Hp). unfold add.
  destruct (roundUp4k (sizeOnDisk v) >? maxs s) eqn:E0;
    [intros H; inversion H; subst; split; [exact HI|split; reflexivity]|].
  set (r0 := roundUp4k (sizeOnDisk v)) in *.
  assert (HA1 : AcctD 0 0 (upd_peak r0 s)) by (apply upd_peak_acct; exact HA).
  assert (HI1 : Inv (upd_peak r0 s)) by (split; [exact HA1|simpl; auto]).
  destruct (find_key k (order (upd_peak r0 s))) as [e|] eqn:Ef.
  - (* overwrite *)
    apply find_key_In in Ef as [Hin Hkey]. simpl in Hin.
    destruct (res (upd_peak r0 s) + (r0 - roundUp4k (sizeOnDisk (evalue (ent e)))) >? maxs (upd_peak r0 s)) eqn:E1;
      [intros H; inversion H; subst; split; [exact HI1|split; reflexivity]|].
    set (delta := r0 - roundUp4k (sizeOnDisk (evalue (ent e)))) in *.
    set (ud := roundUp4k (size v) - roundUp4k (size (evalue (ent e)))).
    assert (Hve : item_ok (evalue (ent e))).
    { destruct HA as [_ _ _ _ _ _ _ Hit _]. rewrite Forall_forall in Hit. apply Hit; exact Hin. }
    pose proof (touch_acct 0 0 (upd_peak r0 s) e v HA1 Hin Hv) as HT. simpl in HT.
    rewrite Hkey in HT.
    set (s2 := enqueue (mkEntry (ekey (ent e)) (evalue (ent e)))
         (set_order (remove_id (eid e) (order (upd_peak r0 s)) ++ [mkElem (eid e) (mkEntry k v)]) (upd_peak r0 s))).
    assert (HA2 : AcctD delta ud s2).
    { apply enqueue_acct; [|simpl; exact Hve]. exact HT. }
    pose proof (evict_while_spec (fun c => c + delta >? maxs s2) delta ud s2 HA2) as HS.
    destruct (evict_while (fun c => c + delta >? maxs s2) s2) as [s3 stuck].
    destruct HS as [HA3 [ev Hord Hevq Hcur Hunc (Hr' & Hm' & Hh' & Hn' & Hpk') Hstop Hstuck Hneed]].
    simpl in Hr', Hm'.
    destruct stuck.
    + exfalso. destruct (Hstuck eq_refl) as [Hnil Hc]. pose proof (inv_res_le_cur s HI) as Hrc.
      destruct HA3 as [_ _ _ Hc3 _ _ _ _ _]. rewrite Hnil in Hc3. simpl in Hc3, Hc. lia.
    + intros H; inversion H; subst. specialize (Hstop eq_refl). simpl in Hstop.
      destruct HA3 as [Hk3 Hi3 Hf3 Hc3 Hu3 Hr3 Hq3 Hit3 Hqi3].
      split; [|split; reflexivity].
      split; [constructor; simpl; auto; lia|simpl; split; lia].
  - (* new key *)
    destruct (res (upd_peak r0 s) + r0 >? maxs (upd_peak r0 s)) eqn:E1;
      [intros H; inversion H; subst; split; [exact HI1|split; reflexivity]|].
    apply find_key_None in Ef. simpl in Ef.
    destruct HA1 as [Hk Hi Hf Hc Hu Hr Hq Hit Hqi]. simpl in Hk, Hi, Hf, Hc, Hu, Hr, Hq, Hit, Hqi.
    set (e' := mkElem (next (upd_peak r0 s)) (mkEntry k v)).
    set (s2 := mkState (order (upd_peak r0 s) ++ [e']) (S (next (upd_peak r0 s))) (cur (upd_peak r0 s))
                       (unc (upd_peak r0 s)) (res (upd_peak r0 s)) (maxs (upd_peak r0 s)) (hard (upd_peak r0 s))
                       (evq (upd_peak r0 s)) (qbytes (upd_peak r0 s)) (peak (upd_peak r0 s))).
    assert (HA2 : AcctD r0 (roundUp4k (size v)) s2).
    { constructor; simpl.
      - rewrite map_app. simpl. apply NoDup_app_snoc; assumption.
      - rewrite map_app. simpl. apply NoDup_app_snoc; [assumption|].
        intros Hx. apply in_map_iff in Hx as (x & Hx1 & Hx2). rewrite Forall_forall in Hf.
        specialize (Hf x Hx2). simpl in Hx1. lia.
      - apply Forall_app; split.
        + eapply Forall_impl; [|exact Hf]. simpl. intros; lia.
        + constructor; [simpl; lia|constructor].
      - rewrite sumZ_app. simpl. change (r4k_disk e') with r0. lia.
      - rewrite sumZ_app. simpl. change (r4k_size e') with (roundUp4k (size v)). lia.
      - exact Hr.
      - exact Hq.
      - apply Forall_app; split; [assumption|]. constructor; [simpl; exact Hv|constructor].
      - exact Hqi. }
    pose proof (evict_while_spec (fun c => c + r0 >? maxs s2) r0 (roundUp4k (size v)) s2 HA2) as HS.
    destruct (evict_while (fun c => c + r0 >? maxs s2) s2) as [s3 stuck].
    destruct HS as [HA3 [ev Hord Hevq Hcur Hunc (Hr' & Hm' & Hh' & Hn' & Hpk') Hstop Hstuck Hneed]].
    simpl in Hr', Hm'.
    destruct stuck.
    + exfalso. destruct (Hstuck eq_refl) as [Hnil Hc2]. pose proof (inv_res_le_cur s HI) as Hrc.
      destruct HA3 as [_ _ _ Hc3 _ _ _ _ _]. rewrite Hnil in Hc3. simpl in Hc3, Hc2. lia.
    + intros H; inversion H; subst. specialize (Hstop eq_refl). simpl in Hstop.
      destruct HA3 as [Hk3 Hi3 Hf3 Hc3 Hu3 Hr3 Hq3 Hit3 Hqi3].
      split; [|split; reflexivity].
      split; [constructor; simpl; auto; lia|simpl; split; lia].
Qed.

Lemma add_inv k v s : Inv s -> item_ok v ->
  Inv (fst (add k v s)) /\ is_hang (snd (add k v s)) = false /\ is_panic (snd (add k v s)) = false.
Proof. intros HI Hv. destruct (add k v s) as [s' r] eqn:E. simpl. eapply add_inv_eq; eassumption. Qed.

(* ------------------------------------------------------------------ *)
(* every reachable state *)

Definition op_ok (o : op) : Prop := match o with OAdd _ v => item_ok v | _ => True end.

Lemma init_inv mx hd : 0 < mx -> Inv (init mx hd).
Proof.
  intros H. split; [|simpl; split; lia].
  constructor; simpl; auto; try constructor; lia.
Qed.

Lemma step_inv s o : Inv s -> op_ok o -> Inv (fst (step s o)) /\ snd (step s o) <> RHang.
Proof.
  intros HI Hok. destruct o as [k v|k|k|k|n|n| |]; simpl in *.
  - destruct (add k v s) as [s' r] eqn:E.
    destruct (add_inv_eq k v s s' r HI Hok E) as (H1 & H2 & H3). simpl. split; [exact H1|].
    destruct r; simpl in *; discriminate.
  - pose proof (get_inv k s HI) as H. destruct (get k s) as [s' [[v id]|]]; simpl in *; (split; [exact H|discriminate]).
  - split; [apply remove_key_inv; exact HI|discriminate].
  - pose proof (get_inv k s HI) as H. unfold get in *.
    destruct (find_key k (order s)) as [e|] eqn:E; simpl in *; [|split; [exact HI|discriminate]].
    unfold remove_element. simpl.
    assert (Hf : find_id (eid e) (remove_id (eid e) (order s) ++ [e]) = Some e).
    { apply find_key_In in E as [Hin _]. destruct HI as ([_ Hi _ _ _ _ _ _ _] & _ & _).
      destruct (remove_id_split (order s) e Hi Hin) as (l1 & l2 & H1 & H2). rewrite H2.
      assert (Hn : ~ In (eid e) (map eid (l1 ++ l2))).
      { rewrite H1 in Hi. rewrite map_app in Hi. simpl in Hi. apply NoDup_remove_2 in Hi.
        rewrite map_app. exact Hi. }
      clear - Hn. induction (l1 ++ l2) as [|x t IH]; simpl.
      - rewrite Nat.eqb_refl. reflexivity.
      - simpl in Hn. destruct (Nat.eqb (eid x) (eid e)) eqn:Ex.
        + apply Nat.eqb_eq in Ex. exfalso. apply Hn. left. exact Ex.
        + apply IH. intros Hc. apply Hn. right. exact Hc. }
    rewrite Hf. simpl. split; [|discriminate].
    apply remove_elem_inv; [exact H|]. simpl. apply in_or_app. right. left. reflexivity.
  - pose proof (reserve_inv n s HI) as (H1 & H2).
    destruct (reserve n s) as [s' r]; simpl in *. split; [exact H1|].
    destruct r as [u|e|p|h]; try contradiction; discriminate.
  - pose proof (unreserve_inv n s HI) as H1. unfold unreserve in *.
    destruct (n =? 0); [simpl; split; [exact H1|discriminate]|].
    destruct (n <? 0); [simpl; split; [exact H1|discriminate]|].
    destruct ((cur s - n <? 0) || (res s - n <? 0)); simpl; (split; [exact H1|discriminate]).
  - pose proof (evictor_step_inv s HI) as H. destruct (evictor_step s) as [s' [en|]]; simpl in *; (split; [exact H|discriminate]).
  - split; [apply drain_n_inv; exact HI|discriminate].
Qed.

Lemma run_inv ops : forall s, Inv s -> Forall op_ok ops -> Inv (run s ops).
Proof.
  induction ops as [|o t IH]; intros s HI Hok; simpl; [exact HI|].
  inversion Hok; subst. apply IH; [|assumption]. apply step_inv; assumption.
Qed.

(* no operation of any history gets stuck *)
Lemma trace_no_hang ops : forall s, Inv s -> Forall op_ok ops ->
  Forall (fun ob => fst ob <> RHang) (trace s ops).
Proof.
  induction ops as [|o t IH]; intros s HI Hok; simpl; [constructor|].
  inversion Hok; subst. pose proof (step_inv s o HI H1) as [H3 H4].
  destruct (step s o) as [s' r]; simpl in *. constructor; [exact H4|]. apply IH; assumption.
Qed.

Lemma evict_loop_frame cond : forall l s, maxs (fst (evict_loop cond l s)) = maxs s.
Proof.
  induction l as [|e t IH]; intros s; simpl; destruct (cond (cur s)); simpl; try reflexivity.
  rewrite IH. reflexivity.
Qed.

Lemma evict_while_frame cond s : maxs (fst (evict_while cond s)) = maxs s.
Proof. apply evict_loop_frame. Qed.

Lemma step_maxs s o : maxs (fst (step s o)) = maxs s.
Proof.
  destruct o as [k v|k|k|k|n|n| |]; simpl.
  - unfold add.
    destruct (roundUp4k (sizeOnDisk v) >? maxs s); [reflexivity|].
    destruct (find_key k (order (upd_peak (roundUp4k (sizeOnDisk v)) s))) as [e|].
    + match goal with |- context [if ?c then _ else _] => destruct c end; [reflexivity|].
      match goal with |- context [evict_while ?c ?st] =>
        pose proof (evict_while_frame c st) as Hf; destruct (evict_while c st) as [s3 [|]] end;
      simpl in *; exact Hf.
    + match goal with |- context [if ?c then _ else _] => destruct c end; [reflexivity|].
      match goal with |- context [evict_while ?c ?st] =>
        pose proof (evict_while_frame c st) as Hf; destruct (evict_while c st) as [s3 [|]] end;
      simpl in *; exact Hf.
  - unfold get. destruct (find_key k (order s)); reflexivity.
  - unfold remove_key. destruct (find_key k (order s)); reflexivity.
  - unfold get. destruct (find_key k (order s)) as [e|]; simpl; [|reflexivity].
    unfold remove_element. simpl. destruct (find_id _ _); reflexivity.
  - unfold reserve.
    destruct (n =? 0); [reflexivity|]. destruct (n <? 0); [reflexivity|].
    destruct (n >? maxs s); [reflexivity|]. destruct (sumLargerThan n (res s) (maxs s)); [reflexivity|].
    match goal with |- context [if ?c then _ else _] => destruct c end; [reflexivity|].
    match goal with |- context [evict_while ?c ?st] =>
        pose proof (evict_while_frame c st) as Hf; destruct (evict_while c st) as [s3 [|]] end;
      simpl in *; exact Hf.
  - unfold unreserve. destruct (n =? 0); [reflexivity|]. destruct (n <? 0); [reflexivity|].
    match goal with |- context [if ?c then _ else _] => destruct c end; reflexivity.
  - unfold evictor_step. destruct (evq s); reflexivity.
  - unfold drain. simpl. generalize (List.length (evq s)). intros n. revert s.
    induction n as [|n IHn]; intros s; simpl; [reflexivity|]. rewrite IHn.
    unfold evictor_step. destruct (evq s); reflexivity.
Qed.

Lemma run_maxs ops : forall s, maxs (run s ops) = maxs s.
Proof. induction ops as [|o t IH]; intros s; simpl; [reflexivity|]. rewrite IH. apply step_maxs. Qed.

Definition entries_size (s : state) : Z := sumZ (fun e => roundUp4k (sizeOnDisk (evalue (ent e)))) (order s).
Definition logical_size (s : state) : Z := sumZ (fun e => roundUp4k (size (evalue (ent e)))) (order s).

Lemma lru_accounting mx hd h :
  0 < mx -> Forall op_ok h ->
  let s := run (init mx hd) h in
  cur s = res s + entries_size s /\ cur s <= mx /\ 0 <= res s /\
  unc s = logical_size s /\
  stats s = (res s + entries_size s, res s, Z.of_nat (List.length (order s)), logical_size s) /\
  NoDup (map key_of (order s)) /\
  qbytes s = sumZ qsz (evq s).
Proof.
  intros Hm Hok s.
  assert (HI : Inv s) by (apply run_inv; [apply init_inv; exact Hm|exact Hok]).
  assert (Hmax : maxs s = mx) by (subst s; rewrite run_maxs; reflexivity).
  destruct HI as ([Hk Hi Hf Hc Hu Hr Hq Hit Hqi] & Hle & Hpos).
  unfold entries_size, logical_size, stats.
  change (fun e : elem => roundUp4k (sizeOnDisk (evalue (ent e)))) with r4k_disk.
  change (fun e : elem => roundUp4k (size (evalue (ent e)))) with r4k_size.
  rewrite Z.add_0_r in Hc, Hu.
  repeat split; try assumption; try lia.
  rewrite <- Hu, <- Hc. reflexivity.
Qed.
