(* Proofs/Validate_refine.v — the TRANSLATED utils/validate/action_result.go (Gen/ValidateSrc.v,
   regenerated from the Go source on every run by tools/go2coq/gen_validate.go) computes exactly
   what the hand-written model does:

     ValidateSrc_maybeNilDigest d = maybe_nil_digest d
     ValidateSrc_ActionResult ar  = validate_r ar            for every input, nil included.

   The proofs unfold the generated definitions and walk them with generic steps (one case split
   per `if`, one lemma application per range loop), so they do not mention the shape of the
   generated text beyond "a sequence of range loops followed by straight-line checks".  They
   survive renamings and reorderings that cannot change the result (e.g. testing the leading
   slash before the empty path); dropping, reordering or rewording a check, selecting another
   field, removing a nil check, changing a comparison or the hash pattern makes them fail. *)
From BR Require Import Base.Prelude Model.ActionResult Model.GoValidate Gen.ValidateSrc.
Open Scope string_scope.
Open Scope list_scope.
Open Scope Z_scope.

(* ------------------------------------------------------------------ *)
(* the run-time of Model/GoValidate.v *)

(* the lookup from texts to errors inverts [verr_msg] / [derr_msg]: no two errors share a text *)
Lemma verr_of_msg_msg : forall e, verr_of_msg (verr_msg e) = Some e.
Proof. destruct e; vm_compute; reflexivity. Qed.
Lemma derr_of_msg_msg : forall e, derr_of_msg (derr_msg e) = Some e.
Proof. destruct e; vm_compute; reflexivity. Qed.

Lemma find_msg_sound {E} (msg_of : E -> string) l m e : find_msg msg_of l m = Some e -> msg_of e = m.
Proof.
  induction l as [|x t IH]; cbn [find_msg]; [discriminate|].
  destruct (String.eqb (msg_of x) m) eqn:Hx; [|exact IH].
  intros H; injection H as <-. apply String.eqb_eq; exact Hx.
Qed.
Lemma raise_verr_sound m e : raise verr_of_msg m = Ok (Some e) -> verr_msg e = m.
Proof.
  unfold raise. destruct (verr_of_msg m) as [e'|] eqn:H; [|discriminate].
  intros H1; injection H1 as <-. exact (find_msg_sound _ _ _ _ H).
Qed.

Lemma HasPrefix_slash : forall s, strings_HasPrefix s "/" = starts_slash s.
Proof.
  intros [|c t]; [reflexivity|]. unfold strings_HasPrefix, starts_slash; cbn [String.prefix].
  destruct (ascii_dec "/" c) as [<-|Hne]; [destruct t; reflexivity|].
  symmetry; apply Ascii.eqb_neq; congruence.
Qed.

Lemma regexp_hash : forall s, regexp_MatchString "^[a-f0-9]{64}$" s = Ok (is_hash s).
Proof. reflexivity. Qed.

(* a loop body refines a per-element check of the model: same early return, same panic, and it
   falls through (with whatever values of the assigned locals) exactly when the check passes *)
Definition body_refines {A S : Type} (body : A -> S -> result (flow S (option verr)))
                        (chk : A -> result (option verr)) : Prop :=
  forall x s,
    match chk x with
    | Ok (Some v) => body x s = Ok (Returned (Some v))
    | Ok None => exists s', body x s = Ok (Continue s')
    | Err e => body x s = Err e
    | Panic m => body x s = Panic m
    | Hang m => body x s = Hang m
    end.

(* one `for _, x := range l { body }; rest` of the translation is one [andthen (first_err ..)] of
   the model, provided the rest does not depend on the locals the loop leaves behind *)
Lemma range_loop_first_err {A S : Type} (body : A -> S -> result (flow S (option verr)))
      (chk : A -> result (option verr)) (k : S -> result (option verr)) (km : result (option verr)) :
  body_refines body chk -> (forall s, k s = km) ->
  forall (l : list A) (s : S),
    (r <- range_loop l body s;; match r with Returned v => Ok v | Continue s' => k s' end)
    = andthen (first_err chk l) km.
Proof.
  intros Hb Hk. induction l as [|x t IH]; intros s; cbn [range_loop first_err].
  - unfold andthen; cbn [bind]. apply Hk.
  - specialize (Hb x s). specialize (IH).
    unfold andthen in *. destruct (chk x) as [[v|]|e|m|m]; cbn [bind] in *.
    + rewrite Hb; reflexivity.
    + destruct Hb as [s' Hb]. rewrite Hb; cbn [bind]. apply IH.
    + rewrite Hb; reflexivity.
    + rewrite Hb; reflexivity.
    + rewrite Hb; reflexivity.
Qed.

(* ------------------------------------------------------------------ *)
(* generic steps over the generated text *)

(* every `return <error>`: look the text up once, by computation *)
Ltac eval_raise :=
  repeat match goal with
  | |- context [@raise ?E ?f ?m] =>
      let v := eval vm_compute in (@raise E f m) in
      replace (@raise E f m) with v by (vm_compute; reflexivity)
  end.

Ltac unfold_pb :=
  unfold pb_Digest_Hash, pb_Digest_SizeBytes, pb_OutputFile_Path, pb_OutputFile_Digest,
    pb_OutputDirectory_Path, pb_OutputDirectory_TreeDigest, pb_OutputSymlink_Path,
    pb_OutputSymlink_Target, pb_ActionResult_OutputFiles, pb_ActionResult_OutputFileSymlinks,
    pb_ActionResult_OutputSymlinks, pb_ActionResult_OutputDirectories,
    pb_ActionResult_OutputDirectorySymlinks, pb_ActionResult_StdoutDigest,
    pb_ActionResult_StderrDigest, pb_Digest, pb_OutputFile, pb_OutputDirectory, pb_OutputSymlink,
    pb_ActionResult, str_empty in *.

Ltac vred_with tac :=
  cbn [is_nil deref bind ret_loop negb starts_slash];
  tac; rewrite ?HasPrefix_slash, ?regexp_hash;
  cbn [is_nil deref bind ret_loop negb starts_slash].

(* one case split: a pointer compared with nil, the outcome of a call, a condition *)
Ltac vstep_with tac :=
  match goal with
  | H : String.eqb ?a ?b = true |- _ => apply String.eqb_eq in H; try rewrite H in *
  | |- context [is_nil ?o] => is_var o; destruct o
  | |- context [bind ?r _] =>
      lazymatch r with
      | Ok _ => fail
      | Err _ => fail
      | Panic _ => fail
      | Hang _ => fail
      | context [if _ then _ else _] => fail
      | _ => destruct r as [? | ? | ? | ?] eqn:?
      end
  | |- context [if ?c then _ else _] => destruct c eqn:?
  end; vred_with tac.

(* a finished branch: both sides agree, or the case is impossible (two comparisons of the same
   numbers that contradict each other) *)
Ltac vdone := solve [ reflexivity | eexists; reflexivity | exfalso; lia | exfalso; congruence ].

(* ------------------------------------------------------------------ *)
(* maybeNilDigest *)

Theorem ValidateSrc_maybeNilDigest_refines :
  forall d, ValidateSrc_maybeNilDigest d = maybe_nil_digest d.
Proof.
  intros d. unfold ValidateSrc_maybeNilDigest, maybe_nil_digest, ValidateSrc_re_HashKeyRegex.
  unfold_pb. eval_raise. vred_with ltac:(idtac).
  repeat (first [ vdone | vstep_with ltac:(idtac) ]).
Qed.

(* ------------------------------------------------------------------ *)
(* ActionResult *)

Ltac vred := vred_with ltac:(rewrite ?ValidateSrc_maybeNilDigest_refines).
Ltac vstep := vstep_with ltac:(rewrite ?ValidateSrc_maybeNilDigest_refines).

(* a loop body against the model's check of one element *)
Ltac solve_body :=
  let x := fresh "x" in let s := fresh "s" in
  intros x s; unfold check_file, check_dir, check_symlink; unfold_pb; vred;
  repeat (first [ vdone | vstep ]).

Theorem ValidateSrc_ActionResult_refines :
  forall ar, ValidateSrc_ActionResult ar = validate_r ar.
Proof.
  intros ar. unfold ValidateSrc_ActionResult, validate_r.
  unfold_pb. eval_raise.
  destruct ar as [a|]; vred; [|reflexivity].
  (* the range loops, in order *)
  repeat (apply range_loop_first_err; [ solve_body | intros ? ]; vred).
  (* the checks after the last loop *)
  unfold andthen. repeat (first [ vdone | vstep ]).
Qed.

(* the same statement on the outcome callers see (nil / error / panic) *)
Corollary ValidateSrc_ActionResult_validate :
  forall ar, (e <- ValidateSrc_ActionResult ar;; match e with None => Ok tt | Some _ => Err EBadRequest end)
             = validate ar.
Proof. intros ar. rewrite ValidateSrc_ActionResult_refines. reflexivity. Qed.

(* every error the translated function can return carries the text the Go code gives it *)
Corollary ValidateSrc_ActionResult_error_text :
  forall ar e, ValidateSrc_ActionResult ar = Ok (Some e) -> verr_of_msg (verr_msg e) = Some e.
Proof. intros ar e _. apply verr_of_msg_msg. Qed.

(* ------------------------------------------------------------------ *)
(* instances, evaluated on both sides *)

Definition ex_hash : string := "e3b0c44298fc1c149afbf4c8996fb92427ae41e4649b934ca495991b7852b855".
Definition ex_digest : digest := mkDigest ex_hash 7.
Definition ex_file (p : string) (d : option digest) : option output_file :=
  Some (mkOF p d false no_bytes).

(* valid: two files, a directory, one symlink of each kind, both digests *)
Definition ex_valid : action_result :=
  mkAR [ex_file "a/b" (Some ex_digest); ex_file "c" (Some (mkDigest ex_hash 0))]
       [Some (mkSL "l1" "t1")] [Some (mkSL "l2" "t2")]
       [Some (mkOD "d" (Some ex_digest))] [Some (mkSL "l3" "t3")]
       0 no_bytes (Some ex_digest) no_bytes (Some ex_digest) None.

Example ValidateSrc_ex_valid :
  ValidateSrc_ActionResult (Some ex_valid) = Ok None /\ validate_r (Some ex_valid) = Ok None.
Proof. split; vm_compute; reflexivity. Qed.

(* a middle check: files and directories pass, the second OutputSymlinks entry has no target *)
Definition ex_middle : action_result :=
  mkAR [ex_file "a/b" (Some ex_digest)]
       [Some (mkSL "l1" "t1")] [Some (mkSL "l2" "t2"); Some (mkSL "l4" "")]
       [Some (mkOD "d" (Some ex_digest))] [Some (mkSL "/abs" "t3")]
       0 no_bytes None no_bytes None None.

Example ValidateSrc_ex_middle :
  ValidateSrc_ActionResult (Some ex_middle) = Ok (Some VEmptySymTarget)
  /\ validate_r (Some ex_middle) = Ok (Some VEmptySymTarget).
Proof. split; vm_compute; reflexivity. Qed.

(* a nil element: the directory list holds nil after a valid entry *)
Definition ex_nil_elem : action_result :=
  mkAR [ex_file "a/b" (Some ex_digest)] [] []
       [Some (mkOD "d" (Some ex_digest)); None] []
       0 no_bytes None no_bytes None None.

Example ValidateSrc_ex_nil_elem :
  ValidateSrc_ActionResult (Some ex_nil_elem) = Ok (Some VNilDir)
  /\ validate_r (Some ex_nil_elem) = Ok (Some VNilDir).
Proof. split; vm_compute; reflexivity. Qed.

(* a wrapped digest error, a negative size in maybeNilDigest, the nil message *)
Example ValidateSrc_ex_more :
  ValidateSrc_ActionResult (Some (mkAR [ex_file "a" (Some (mkDigest "xyz" 3))] [] [] [] [] 0 no_bytes None no_bytes None None))
    = Ok (Some VBadFileDigest)
  /\ ValidateSrc_maybeNilDigest (Some (mkDigest ex_hash (-1))) = Ok (Some DNegative)
  /\ maybe_nil_digest (Some (mkDigest ex_hash (-1))) = Ok (Some DNegative)
  /\ ValidateSrc_maybeNilDigest (Some (mkDigest "xyz" 3)) = Ok (Some DBadHash)
  /\ ValidateSrc_maybeNilDigest None = Ok None
  /\ ValidateSrc_ActionResult None = Ok (Some VNilAR).
Proof. repeat split; vm_compute; reflexivity. Qed.

Print Assumptions ValidateSrc_maybeNilDigest_refines.
Print Assumptions ValidateSrc_ActionResult_refines.
