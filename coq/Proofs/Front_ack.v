(* Proofs/Front_ack.v — C01 on the front-end adapters: whenever a write path answers OK, the disk
   layer's Put was called with the DECLARED digest and a stream that is exactly the (decoded) payload,
   and accepted it — so by Disk_ack the payload's logical bytes have the declared length and hash.
   The only other ways to an OK are spelled out in each statement (already present; the empty blob
   with no data). *)
From BR Require Import Base.Prelude Model.LRU Model.Disk Proofs.Disk_ack Model.Front Proofs.Front_base.
Open Scope Z_scope.

(* destruct the test of the outermost [if] of hypothesis H; branches that already contradict H vanish *)
Ltac dif H :=
  match type of H with
  | (if ?b then _ else _) = _ => let E := fresh "E" in destruct b eqn:E; try (inversion H; fail)
  end.

(* the empty digest claimed and no data delivered *)
Definition empty_claim (hash : string) (sz : Z) (delivered : Z) : Prop :=
  sz = 0 /\ hash = emptySha256 /\ delivered <= 0.

(* ---------------- HTTP PUT (plain and zstd) ---------------- *)

Lemma http_put_sound c d u hash cl xd ce b rnd d' :
  http_put c d u hash cl xd ce b rnd = (d', SOk) ->
  exists len, http_declared cl xd = Some len /\ 0 <= len <= fc_http_max c /\ ce <> CeOther /\
              (body_good b len \/ empty_claim hash len (b_len b)).
Proof.
  unfold http_put. intros H. dif H.
  destruct (http_declared cl xd) as [len|]; [|inversion H].
  exists len. dif H. dif H. dif H.
  assert (Hput : forall r0, disk_put c d CAS hash len (stream_of b) rnd = (d', r0) ->
                 (match r0 with None => SOk | Some e => SErr e end) = SOk ->
                 0 <= len <= fc_http_max c /\ (body_good b len \/ empty_claim hash len (b_len b))).
  { intros r0 HP HS. destruct r0; [discriminate|].
    destruct (disk_put_ok _ _ _ _ _ _ _ HP) as [(G & L)|(S1 & S2 & S3)].
    - split; [lia|]. left. apply stream_of_good. exact L.
    - split; [lia|]. right. unfold empty_claim. cbn in S3. auto. }
  destruct ce; try (inversion H; fail);
    destruct (disk_put c d CAS hash len (stream_of b) rnd) as [d1 r0] eqn:HP; inversion H; subst;
    destruct (Hput r0 eq_refl H2) as [A B]; (split; [reflexivity|split; [exact A|split; [discriminate|exact B]]]).
Qed.

(* ---------------- BatchUpdateBlobs ---------------- *)

Definition bu_good (e : bu_entry) : Prop :=
  body_good (bu_body e) (bu_size e) \/ empty_claim (bu_hash e) (bu_size e) (b_len (bu_body e)).

(* per blob: OK means good (an unsupported compressor is answered InvalidArgument) *)
Lemma bu_one_sound c d e d' :
  bu_one c d e = (d', SOk) -> bu_good e.
Proof.
  unfold bu_one. intros H.
  destruct (bu_comp e) as [| |n] eqn:EC; [| |inversion H].
  - cbn in H. dif H.
    destruct (disk_put c d CAS (bu_hash e) (b_len (bu_body e)) (stream_of (bu_body e)) (bu_rnd e)) as [d1 r0] eqn:HP.
    inversion H; subst. apply put_status_ok in H2. subst r0.
    apply negb_false_iff, Z.eqb_eq in E.
    destruct (disk_put_ok _ _ _ _ _ _ _ HP) as [(G & L)|(S1 & S2 & S3)].
    + left. rewrite <- E. apply stream_of_good. exact L.
    + right. unfold empty_claim. cbn in S3. rewrite <- E. auto.
  - dif H. dif H.
    destruct (disk_put c d CAS (bu_hash e) (b_len (bu_body e)) (stream_of (bu_body e)) (bu_rnd e)) as [d1 r0] eqn:HP.
    inversion H; subst. apply put_status_ok in H2. subst r0.
    apply negb_false_iff, Z.eqb_eq in E0.
    destruct (disk_put_ok _ _ _ _ _ _ _ HP) as [(G & L)|(S1 & S2 & S3)].
    + left. rewrite <- E0. apply stream_of_good. exact L.
    + right. unfold empty_claim. cbn in S3. rewrite <- E0. auto.
Qed.

Definition bu_entry_ok (e : bu_entry) (s : status) : Prop :=
  s = SOk -> bu_good e.

Lemma batch_update_sound c : forall es d acc d' l,
  batch_update c d es acc = (d', SOk, l) ->
  exists l', l = acc ++ l' /\ Forall2 bu_entry_ok es l'.
Proof.
  induction es as [|e t IH]; intros d acc d' l H; cbn in H.
  - inversion H; subst. exists []. split; [rewrite app_nil_r; reflexivity|constructor].
  - dif H. dif H. destruct (bu_one c d e) as [d1 s] eqn:E1.
    destruct (IH _ _ _ _ H) as [l' [-> HF]].
    exists (s :: l'). split; [rewrite <- app_assoc; reflexivity|].
    constructor; [|exact HF]. intros ->. eapply bu_one_sound; exact E1.
Qed.

(* ---------------- ByteStream.Write ---------------- *)

Lemma bs_write_sound c d nm msgs ab b rnd d' :
  bs_write c d nm msgs ab b rnd = (d', SOk) ->
  exists z hash size, nm = WN z hash size /\ 0 <= size <= fc_grpc_max c /\ validate_hash hash size = true /\
    (bs_shortcut (snd (fst (disk_contains c d CAS hash size))) hash size = true   (* already present (and not the empty digest): nothing written *)
     \/ (exists piped, recv_loop z size 0 true msgs ab = (piped, None) /\
           if z then body_good b size \/ empty_claim hash size (b_len b)
           else (piped = size /\ b_hash_ok b = true) \/ empty_claim hash size piped)).
Proof.
  unfold bs_write. intros H.
  destruct msgs as [|m0 rest]; [destruct ab; inversion H|].
  destruct nm as [| |z hash size]; try (inversion H; fail).
  exists z, hash, size. dif H. dif H. dif H.
  apply negb_false_iff in E0.
  split; [reflexivity|]. split; [lia|]. split; [exact E0|].
  destruct (disk_contains c d CAS hash size) as [[d1 ex] fs] eqn:EC. cbn [fst snd].
  destruct (bs_shortcut ex hash size) eqn:ESC; [left; reflexivity|right].
  dif H.
  destruct (recv_loop z size 0 true (m0 :: rest) ab) as [piped e] eqn:ER.
  destruct (disk_put c d1 CAS hash size
             (bs_stream z b piped match e with Some _ => true | None => false end) rnd) as [d2 r] eqn:HP.
  destruct e as [x|]; [inversion H|].
  inversion H; subst. apply put_status_ok in H2. subst r.
  exists piped. split; [reflexivity|].
  destruct (disk_put_ok _ _ _ _ _ _ _ HP) as [(G & L)|(S1 & S2 & S3)].
  - destruct z; cbn in L.
    + left. apply stream_of_good. exact L.
    + left. destruct L as (L1 & _ & L3). split; assumption.
  - destruct z; cbn in S3; right; unfold empty_claim; auto.
Qed.

(* ---------------- SpliceBlob ---------------- *)

Lemma splice_sound c d dfn cs blob computed concat_ok cid rnd d' :
  splice c d dfn cs blob computed concat_ok cid rnd = (d', SOk) ->
  exists h s, splice_digest cs blob computed = Some (h, s) /\ check_chunks cs 0 = Some s /\ 0 < s /\
    (fc_grpc_max c > 0 -> s <= fc_grpc_max c) /\
    ((exists dx, snd (fst (disk_contains c dx CAS h s)) = true)             (* already present *)
     \/ (concat_ok = true /\ exists dx dy, feed_chunks c dx cs 0 = (dy, s, None))).
Proof.
  unfold splice, splice_digest. intros H. dif H.
  destruct cs as [|k0 ks] eqn:Ecs; [inversion H|]. rewrite <- Ecs in *.
  destruct (check_chunks cs 0) as [total|] eqn:ECK; [|inversion H].
  destruct blob as [[h s]|].
  - exists h, s. dif H. dif H. dif H. dif H. dif H.
    apply negb_false_iff, Z.eqb_eq in E4. subst total.
    apply orb_false_iff in E1 as [E1 _].
    split; [reflexivity|]. split; [reflexivity|]. split; [lia|]. split; [lia|].
    destruct (disk_contains c d CAS h s) as [[d2 ex] fs] eqn:EC.
    destruct ex; [left; exists d; rewrite EC; reflexivity|right].
    destruct (feed_chunks c d2 cs 0) as [[d3 piped] werr] eqn:EF.
    destruct (disk_put c d3 CAS h s
               (mkStream cid piped false match werr with None => concat_ok | Some _ => false end piped) rnd) as [d4 r] eqn:HP.
    destruct r; [inversion H|].
    destruct (disk_put_ok _ _ _ _ _ _ _ HP) as [(G & L1 & L2 & L3)|(S1 & _)]; [|lia].
    cbn in L1, L3. destruct werr; [discriminate|]. subst piped.
    split; [exact L3|]. exists d2, d3. exact EF.
  - destruct (feed_chunks c d cs 0) as [[d1 p0] e0] eqn:EF0.
    destruct e0 as [x|]; [inversion H|].
    exists computed, total. dif H. dif H. dif H. dif H. dif H.
    apply orb_false_iff in E1 as [E1 _].
    split; [reflexivity|]. split; [reflexivity|]. split; [lia|]. split; [lia|].
    destruct (disk_contains c d1 CAS computed total) as [[d2 ex] fs] eqn:EC.
    destruct ex; [left; exists d1; rewrite EC; reflexivity|right].
    destruct (feed_chunks c d2 cs 0) as [[d3 piped] werr] eqn:EF.
    destruct (disk_put c d3 CAS computed total
               (mkStream cid piped false match werr with None => concat_ok | Some _ => false end piped) rnd) as [d4 r] eqn:HP.
    destruct r; [inversion H|].
    destruct (disk_put_ok _ _ _ _ _ _ _ HP) as [(G & L1 & L2 & L3)|(S1 & _)]; [|lia].
    cbn in L1, L3. destruct werr; [discriminate|]. subst piped.
    split; [exact L3|]. exists d2, d3. exact EF.
Qed.

(* ---------------- blobs inlined in UpdateActionResult ---------------- *)

Definition inl_good (i : inl_blob) : Prop :=
  in_present i = true ->
  match in_digest i with
  | Some (h, s) => body_good (in_body i) s \/ empty_claim h s (b_len (in_body i))
  | None => True          (* the server computes the digest from the bytes it stores *)
  end.

Lemma put_inlined_sound c : forall l d d', put_inlined c d l = (d', None) -> Forall inl_good l.
Proof.
  induction l as [|i t IH]; intros d d' H; [constructor|]. cbn in H.
  destruct (in_present i) eqn:EP; cbn in H.
  - destruct (inl_digest i) as [h s] eqn:ED.
    destruct (disk_put c d CAS h s (inl_stream i) (in_rnd i)) as [d1 r] eqn:HP.
    destruct r; [inversion H|].
    constructor; [|eapply IH; exact H].
    intros _. unfold inl_digest, inl_stream in *. destruct (in_digest i) as [[h0 s0]|]; [|exact I].
    inversion ED; subst.
    destruct (disk_put_ok _ _ _ _ _ _ _ HP) as [(G & L)|(S1 & S2 & S3)].
    + left. apply stream_of_good. exact L.
    + right. unfold empty_claim. cbn in S3. auto.
  - constructor; [intros X; congruence|eapply IH; exact H].
Qed.

Lemma update_ar_sound c d ahash asize valid files so se arlen rnd d' :
  update_ar c d ahash asize valid files so se arlen rnd = (d', SOk) ->
  validate_hash ahash asize = true /\ valid = true /\ Forall inl_good (files ++ [so; se]).
Proof.
  unfold update_ar. intros H. dif H. dif H. dif H.
  apply negb_false_iff in E. apply negb_false_iff in E0.
  destruct (put_inlined c d (files ++ [so; se])) as [d1 r] eqn:EP.
  destruct r; [inversion H|].
  split; [exact E|]. split; [exact E0|]. eapply put_inlined_sound; exact EP.
Qed.

(* a refused inlined blob means the ActionResult is not stored either: the call fails before the AC Put *)
Lemma update_ar_refused_no_ac c d ahash asize files so se arlen rnd d1 e :
  validate_hash ahash asize = true -> arlen <> 0 ->
  put_inlined c d (files ++ [so; se]) = (d1, Some e) ->
  update_ar c d ahash asize true files so se arlen rnd = (d1, SErr (grpc_code e EInternal)).
Proof.
  intros Hv Hn HP. unfold update_ar. rewrite Hv. cbn [negb].
  replace (arlen =? 0) with false by lia. rewrite HP. reflexivity.
Qed.

(* ---------------- FetchBlob ---------------- *)

Definition fetched_from (u : upstream) (sri : option string) (h : string) (s : Z) : Prop :=
  up_ok u = true /\
  ((sri = Some h /\ up_cl u = s /\ 0 <= s /\ (body_good (up_body u) s \/ empty_claim h s (b_len (up_body u))))
   \/ (b_clean (up_body u) = true /\ h = up_actual u /\ s = b_len (up_body u) /\ (sri = None \/ sri = Some h))).

Lemma fetch_item_sound c d u sri d' h s :
  fetch_item c d u sri = (d', Ok (h, s)) -> fetched_from u sri h s.
Proof.
  unfold fetch_item, fetched_from. intros H. dif H. apply negb_false_iff in E. split; [exact E|].
  assert (Hcomputed :
    (if negb (b_clean (up_body u)) then (d, Err ENotFound)
     else if match sri with Some h0 => negb (String.eqb h0 (up_actual u)) | None => false end then (d, Err ENotFound)
     else match disk_put c d CAS (up_actual u) (b_len (up_body u))
                  (mkStream (b_cid (up_body u)) (b_len (up_body u)) false true (b_len (up_body u))) (up_rnd u) with
          | (d'0, None) => (d'0, Ok (up_actual u, b_len (up_body u)))
          | (d'0, Some e) => (d'0, Err e)
          end) = (d', Ok (h, s)) ->
    b_clean (up_body u) = true /\ h = up_actual u /\ s = b_len (up_body u) /\ (sri = None \/ sri = Some h)).
  { clear H. intros H. dif H. dif H. apply negb_false_iff in E0.
    destruct (disk_put c d CAS (up_actual u) (b_len (up_body u)) _ (up_rnd u)) as [d1 r]. destruct r; [inversion H|].
    inversion H; subst. split; [exact E0|]. split; [reflexivity|]. split; [reflexivity|].
    destruct sri as [h0|]; [right|left; reflexivity].
    apply negb_false_iff, String.eqb_eq in E1. congruence. }
  destruct sri as [h0|].
  - destruct (up_cl u <? 0) eqn:ECL.
    + right. apply Hcomputed. exact H.
    + left. destruct (disk_put c d CAS h0 (up_cl u) (stream_of (up_body u)) (up_rnd u)) as [d1 r] eqn:HP.
      destruct r; [inversion H|]. inversion H; subst.
      split; [reflexivity|]. split; [reflexivity|]. split; [lia|].
      destruct (disk_put_ok _ _ _ _ _ _ _ HP) as [(G & L)|(S1 & S2 & S3)].
      * left. apply stream_of_good. exact L.
      * right. unfold empty_claim. cbn in S3. auto.
  - right. apply Hcomputed. destruct (up_cl u <? 0); exact H.
Qed.

Lemma fetch_uris_sound c sri : forall us d d' h s,
  fetch_uris c d us sri = (d', SOk, Some (h, s)) -> exists u, In u us /\ fetched_from u sri h s.
Proof.
  induction us as [|u t IH]; intros d d' h s H; cbn in H; [inversion H|].
  destruct (fetch_item c d u sri) as [d1 r] eqn:EI. destruct r as [dg|e| |].
  - inversion H; subst. exists u. split; [left; reflexivity|]. eapply fetch_item_sound; exact EI.
  - destruct e; try (destruct (IH _ _ _ _ H) as [u' [Hin Hf]]; exists u'; split; [right; exact Hin|exact Hf]).
    inversion H.
  - destruct (IH _ _ _ _ H) as [u' [Hin Hf]]. exists u'. split; [right; exact Hin|exact Hf].
  - destruct (IH _ _ _ _ H) as [u' [Hin Hf]]. exists u'. split; [right; exact Hin|exact Hf].
Qed.

Lemma fetch_blob_sound c d sri us d' h s :
  fetch_blob c d sri us = (d', SOk, Some (h, s)) ->
  (sri = Some h /\ snd (fst (disk_contains c d CAS h (-1))) = true /\ snd (disk_contains c d CAS h (-1)) = s)
  \/ exists u, In u us /\ fetched_from u sri h s.
Proof.
  unfold fetch_blob. intros H. destruct sri as [h0|].
  - destruct (disk_contains c d CAS h0 (-1)) as [[d1 found] sz] eqn:EC.
    destruct (found && (0 <=? sz)) eqn:EF.
    + inversion H; subst. left. apply andb_true_iff in EF as [-> _]. rewrite EC. auto.
    + right. eapply fetch_uris_sound; exact H.
  - right. eapply fetch_uris_sound; exact H.
Qed.

(* every status FetchBlob's download loop can produce *)
Lemma fetch_uris_status c sri : forall us d d' st dg,
  fetch_uris c d us sri = (d', st, dg) ->
  (st = SOk /\ dg <> None) \/ (st = SErr ENotFound /\ dg = None) \/ (st = SErr EInsufficient /\ dg = None).
Proof.
  induction us as [|u t IH]; intros d d' st dg H; cbn in H.
  - inversion H; subst. right. left. auto.
  - destruct (fetch_item c d u sri) as [d1 r]. destruct r as [x|e| |].
    + inversion H; subst. left. split; [reflexivity|discriminate].
    + destruct e; try (eapply IH; exact H). inversion H; subst. right. right. auto.
    + eapply IH; exact H.
    + eapply IH; exact H.
Qed.
