(* Proofs/ResNames_refine.v — the functions TRANSLATED on this run from /repo/server/grpc_bytestream.go
   and /repo/cache/cache.go (Gen/ResNamesSrc.v) compute, for EVERY input, what the hand-written models
   of Model/ByteStream.v and Model/Keys.v compute — Panic outcomes included (there are none: every
   index expression of the Go code is guarded). *)
From BR Require Import Base.Prelude Model.Keys Model.ByteStream Model.GoStrings Gen.ResNamesSrc
  Proofs.Keys_strings Proofs.ByteStream_names.
Open Scope string_scope.
Open Scope list_scope.
Open Scope Z_scope.

(* ------------------------------------------------------------------ *)
(* indexing into the middle of a slice *)

Lemma nth_error_mid {A} (pre : list A) x suf : nth_error (pre ++ x :: suf) (List.length pre) = Some x.
Proof. induction pre as [|a pre IH]; simpl; [reflexivity|exact IH]. Qed.

Lemma skipn_mid {A} (pre : list A) x suf : skipn (List.length pre + 1) (pre ++ x :: suf) = suf.
Proof. induction pre as [|a pre IH]; simpl; [reflexivity|exact IH]. Qed.

Lemma index_mid {A} (pre : list A) x suf site :
  index (pre ++ x :: suf) (Z.of_nat (List.length pre)) site = Ok x.
Proof.
  unfold index. destruct (Z.of_nat (List.length pre) <? 0) eqn:E; [lia|].
  rewrite Nat2Z.id, nth_error_mid. reflexivity.
Qed.

Lemma slice_from_mid {A} (pre : list A) x suf site :
  slice_from (pre ++ x :: suf) (Z.of_nat (List.length pre) + 1) site = Ok suf.
Proof.
  unfold slice_from, go_len. rewrite app_length. simpl List.length.
  destruct ((Z.of_nat (List.length pre) + 1 <? 0) || (Z.of_nat (List.length pre + S (List.length suf)) <? Z.of_nat (List.length pre) + 1)) eqn:E; [lia|].
  replace (Z.to_nat (Z.of_nat (List.length pre) + 1)) with (List.length pre + 1)%nat by lia.
  rewrite skipn_mid. reflexivity.
Qed.

(* ------------------------------------------------------------------ *)
(* `for i := range fields { if <fields[i] hits> { ..; break } }` is a first-match scan *)

Fixpoint scan {St} (hit : string -> list string -> St -> option St) (l : list string) (s : St) : St :=
  match l with
  | [] => s
  | x :: r => match hit x r s with Some s' => s' | None => scan hit r s end
  end.

Lemma idx_loop_scan {St} (fields : list string) (body : Z -> St -> result (lflow St))
      (hit : string -> list string -> St -> option St) :
  (forall pre x suf s, fields = pre ++ x :: suf ->
     body (Z.of_nat (List.length pre)) s = Ok (match hit x suf s with Some s' => Break s' | None => Next s end)) ->
  forall suf pre s, fields = pre ++ suf ->
    idx_loop (List.length suf) (Z.of_nat (List.length pre)) body s = Ok (scan hit suf s).
Proof.
  intros Hb suf. induction suf as [|x suf IH]; intros pre s E; simpl; [reflexivity|].
  rewrite (Hb pre x suf s E). destruct (hit x suf s) as [s'|]; simpl; [reflexivity|].
  replace (Z.of_nat (List.length pre) + 1) with (Z.of_nat (List.length (pre ++ [x])))
    by (rewrite app_length; simpl; lia).
  apply IH. rewrite <- app_assoc. exact E.
Qed.

Lemma range_index_scan {St} (fields : list string) (body : Z -> St -> result (lflow St))
      (hit : string -> list string -> St -> option St) :
  (forall pre x suf s, fields = pre ++ x :: suf ->
     body (Z.of_nat (List.length pre)) s = Ok (match hit x suf s with Some s' => Break s' | None => Next s end)) ->
  forall s, range_index fields body s = Ok (scan hit fields s).
Proof. intros Hb s. unfold range_index. apply (idx_loop_scan fields body hit Hb fields [] s). reflexivity. Qed.

(* the two scans of the parsers, as the model's [after_first] *)
Definition read_hit (x : string) (suf : list string) (s : list string * bool * bool) : option (list string * bool * bool) :=
  let '(_, fb, fcb) := s in
  if String.eqb x "blobs" then Some (suf, true, fcb)
  else if String.eqb x "compressed-blobs" then Some (suf, fb, true) else None.

Lemma scan_read l r b c :
  scan read_hit l (r, b, c) =
  match after_first (fun f => String.eqb f "blobs" || String.eqb f "compressed-blobs") l with
  | Some (kw, rem) => if String.eqb kw "blobs" then (rem, true, c) else (rem, b, true)
  | None => (r, b, c)
  end.
Proof.
  induction l as [|x l IH]; simpl; [reflexivity|].
  destruct (String.eqb x "blobs") eqn:E1; simpl; [rewrite E1; reflexivity|].
  destruct (String.eqb x "compressed-blobs") eqn:E2; simpl; [rewrite E1; reflexivity|exact IH].
Qed.

Definition write_hit (x : string) (suf : list string) (s : list string) : option (list string) :=
  if String.eqb x "uploads" then Some suf else None.

Lemma scan_write l r :
  scan write_hit l r =
  match after_first (String.eqb "uploads") l with Some (_, rem) => rem | None => r end.
Proof.
  induction l as [|x l IH]; cbn [scan after_first]; [reflexivity|]. unfold write_hit at 1.
  rewrite (String.eqb_sym "uploads" x). destruct (String.eqb x "uploads"); [reflexivity|exact IH].
Qed.

(* ------------------------------------------------------------------ *)
(* the refinements *)

Lemma go_len_nil {A} : go_len (@nil A) = 0. Proof. reflexivity. Qed.
Lemma go_len_cons {A} (x : A) l : go_len (x :: l) = go_len l + 1.
Proof. unfold go_len. simpl List.length. lia. Qed.
Lemma go_len_nonneg {A} (l : list A) : 0 <= go_len l. Proof. unfold go_len. lia. Qed.

Local Opaque parse_int64 validate_hash split_slash.

Ltac len_cases :=
  rewrite ?go_len_cons, ?go_len_nil;
  repeat match goal with
         | |- context [go_len ?l] => let H := fresh "Hlen" in pose proof (go_len_nonneg l) as H; generalize dependent (go_len l); intros
         end;
  repeat match goal with
         | |- context [?a =? ?b] => let E := fresh "E" in destruct (a =? b) eqn:E; try lia
         | |- context [?a <? ?b] => let E := fresh "E" in destruct (a <? b) eqn:E; try lia
         end.

Lemma index_0 {A} (a : A) l s : index (a :: l) 0 s = Ok a. Proof. reflexivity. Qed.
Lemma index_1 {A} (a b : A) l s : index (a :: b :: l) 1 s = Ok b. Proof. reflexivity. Qed.
Lemma index_2 {A} (a b c : A) l s : index (a :: b :: c :: l) 2 s = Ok c. Proof. reflexivity. Qed.
Lemma index_3 {A} (a b c d : A) l s : index (a :: b :: c :: d :: l) 3 s = Ok d. Proof. reflexivity. Qed.
Lemma index_4 {A} (a b c d e : A) l s : index (a :: b :: c :: d :: e :: l) 4 s = Ok e. Proof. reflexivity. Qed.
Ltac idx := rewrite ?index_0, ?index_1, ?index_2, ?index_3, ?index_4; cbn [bind negb orb andb].

(* the tail shared by all four branches: ParseInt, the sign check, validateHash, the final return *)
Ltac tail :=
  unfold strconv_ParseInt, parse_size_hash;
  change ((10 =? 10) && (64 =? 64)) with true; cbn iota;
  match goal with |- context [parse_int64 ?s] => destruct (parse_int64 s) as [?v|] end;
  cbn [bind negb err_is_nil]; idx; [|reflexivity];
  match goal with |- context [?x <? 0] => destruct (x <? 0) end; [reflexivity|];
  unfold grpcServer_validateHash, lift_validate;
  match goal with |- context [validate_hash ?h ?x] => destruct (validate_hash h x) end; reflexivity.

Theorem ResNamesSrc_parseReadResource_refines :
  forall name pfx, ResNamesSrc_parseReadResource name pfx = parse_read_resource name.
Proof.
  intros name pfx. unfold ResNamesSrc_parseReadResource, parse_read_resource, strings_Split.
  simpl String.eqb. cbn [bind]. generalize (split_slash name) as fields. intros fields.
  rewrite (range_index_scan fields _ read_hit).
  2:{ intros pre x suf [[r b] c] ->. rewrite !index_mid, !slice_from_mid. cbn [bind]. unfold read_hit.
      destruct (String.eqb x "blobs"); [reflexivity|].
      destruct (String.eqb x "compressed-blobs"); reflexivity. }
  cbn [bind]. rewrite scan_read. unfold parse_read_fields.
  destruct (after_first _ fields) as [[kw rem]|]; [|reflexivity].
  destruct (String.eqb kw "blobs").
  - destruct rem as [|h [|sz [|x rem]]]; try (len_cases; reflexivity).
    len_cases. idx. tail.
  - destruct rem as [|c [|h [|sz [|x rem]]]]; try (len_cases; reflexivity).
    len_cases. idx.
    destruct (String.eqb c "zstd"); cbn [negb]; [|reflexivity].
    idx. tail.
Qed.

Theorem ResNamesSrc_parseWriteResource_refines :
  forall name, ResNamesSrc_parseWriteResource name = parse_write_resource name.
Proof.
  intros name. unfold ResNamesSrc_parseWriteResource, parse_write_resource, strings_Split.
  simpl String.eqb. cbn [bind]. generalize (split_slash name) as fields. intros fields.
  rewrite (range_index_scan fields _ write_hit).
  2:{ intros pre x suf r ->. rewrite !index_mid. cbn [bind]. unfold write_hit.
      destruct (String.eqb x "uploads"); [rewrite slice_from_mid|]; reflexivity. }
  cbn [bind]. rewrite scan_write. unfold parse_write_fields.
  destruct (after_first _ fields) as [[kw rem]|]; [|reflexivity].
  destruct rem as [|u [|r1 [|r2 [|r3 [|r4 rest]]]]]; try (len_cases; reflexivity).
  - (* exactly four fields after "uploads": only the blobs form fits *)
    len_cases. idx. destruct (String.eqb r1 "blobs"); idx; [tail|].
    rewrite orb_true_r. reflexivity.
  - len_cases. idx. destruct (String.eqb r1 "blobs"); idx; [tail|].
    destruct (String.eqb r1 "compressed-blobs"); cbn [negb orb andb bind]; [|reflexivity].
    idx. destruct (String.eqb r2 "zstd"); cbn [negb]; [|reflexivity].
    idx. tail.
Qed.

Theorem ResNamesSrc_LookupKey_refines :
  forall k hash, ResNamesSrc_LookupKey (kind_to_Z k) hash = Ok (lookup_key k hash).
Proof.
  intros k hash. unfold ResNamesSrc_LookupKey, lookup_key, EntryKind_String.
  destruct k; reflexivity.
Qed.

Theorem ResNamesSrc_TransformActionCacheKey_refines :
  forall H key instance logger,
    ResNamesSrc_TransformActionCacheKey H key instance logger = Ok (transform_ac_key H key instance).
Proof.
  intros H key instance logger. unfold ResNamesSrc_TransformActionCacheKey, transform_ac_key.
  destruct (String.eqb instance ""); reflexivity.
Qed.

(* ------------------------------------------------------------------ *)
(* no panic: every index / slice expression of the translated parsers is guarded *)

Local Transparent validate_hash split_slash.

Definition ok_or_bad {A} (r : result A) : Prop := (exists x, r = Ok x) \/ r = Err EBadRequest.

Lemma validate_hash_outcomes h s : validate_hash h s = Ok tt \/ validate_hash h s = Err EBadRequest.
Proof.
  unfold validate_hash. destruct (s =? 0); [destruct (String.eqb h emptySha256); auto|].
  destruct (negb _); [auto|]. destruct (is_hash h); auto.
Qed.

Lemma parse_size_hash_outcomes h s c : ok_or_bad (parse_size_hash h s c).
Proof.
  unfold parse_size_hash, lift_validate, ok_or_bad. destruct (parse_int64 s) as [v|]; [|auto].
  destruct (v <? 0); [auto|]. destruct (validate_hash_outcomes h v) as [E|E]; rewrite E; eauto.
Qed.

Lemma parse_read_outcomes name : ok_or_bad (parse_read_resource name).
Proof.
  unfold parse_read_resource, parse_read_fields.
  destruct (after_first _ _) as [[kw rem]|]; [|right; reflexivity].
  destruct (String.eqb kw "blobs").
  - destruct rem as [|a [|b [|c r]]]; try (right; reflexivity). apply parse_size_hash_outcomes.
  - destruct rem as [|a [|b [|c [|d r]]]]; try (right; reflexivity).
    destruct (String.eqb a "zstd"); [apply parse_size_hash_outcomes|right; reflexivity].
Qed.

Lemma parse_write_outcomes name : ok_or_bad (parse_write_resource name).
Proof.
  unfold parse_write_resource, parse_write_fields.
  destruct (after_first _ _) as [[kw rem]|]; [|right; reflexivity].
  destruct rem as [|u [|r1 [|r2 [|r3 rest]]]]; try (right; reflexivity).
  destruct (String.eqb r1 "blobs"); [apply parse_size_hash_outcomes|].
  destruct rest as [|r4 rest]; [right; reflexivity|].
  destruct (_ && _); [apply parse_size_hash_outcomes|right; reflexivity].
Qed.

Lemma ok_or_bad_no_panic {A} (r : result A) : ok_or_bad r -> is_panic r = false /\ is_hang r = false.
Proof. intros [[x ->]| ->]; split; reflexivity. Qed.

Theorem ResNamesSrc_outcomes :
  forall name pfx,
    ok_or_bad (ResNamesSrc_parseReadResource name pfx) /\ ok_or_bad (ResNamesSrc_parseWriteResource name).
Proof.
  intros name pfx. rewrite ResNamesSrc_parseReadResource_refines, ResNamesSrc_parseWriteResource_refines.
  split; [apply parse_read_outcomes|apply parse_write_outcomes].
Qed.

Theorem ResNamesSrc_never_panic :
  forall name pfx,
    is_panic (ResNamesSrc_parseReadResource name pfx) = false /\
    is_panic (ResNamesSrc_parseWriteResource name) = false.
Proof.
  intros name pfx. destruct (ResNamesSrc_outcomes name pfx) as [R W].
  split; [apply (ok_or_bad_no_panic _ R)|apply (ok_or_bad_no_panic _ W)].
Qed.

(* ------------------------------------------------------------------ *)
(* the instance prefix: segments before the first reserved one do not matter *)

Lemma split_slash_cat a b : split_slash (a ++ "/" ++ b)%string = split_slash a ++ split_slash b.
Proof.
  induction a as [|c a IH].
  - change ("" ++ "/" ++ b)%string with (String "/" b). cbn [split_slash].
    destruct (split_slash_nonempty b) as (x & r & E). rewrite E. reflexivity.
  - change (String c a ++ "/" ++ b)%string with (String c (a ++ "/" ++ b)%string). cbn [split_slash]. rewrite IH.
    destruct (split_slash_nonempty a) as (x & r & E). rewrite E. cbn [app].
    destruct (is_slash c); reflexivity.
Qed.

Lemma after_first_skip kw pre l :
  forallb (fun s => negb (kw s)) pre = true -> after_first kw (pre ++ l) = after_first kw l.
Proof.
  induction pre as [|x pre IH]; cbn [forallb app after_first]; intros H; [reflexivity|].
  apply andb_true_iff in H as [H1 H2]. apply negb_true_iff in H1. rewrite H1. exact (IH H2).
Qed.

Lemma write_prefix_irrelevant inst rest :
  forallb (not_kw "uploads") (split_slash inst) = true ->
  parse_write_resource (inst ++ "/" ++ rest)%string = parse_write_resource rest.
Proof.
  intros H. unfold parse_write_resource, parse_write_fields.
  rewrite split_slash_cat, after_first_skip; [reflexivity|exact H].
Qed.

Lemma read_prefix_irrelevant inst rest :
  forallb not_read_kw (split_slash inst) = true ->
  parse_read_resource (inst ++ "/" ++ rest)%string = parse_read_resource rest.
Proof.
  intros H. unfold parse_read_resource, parse_read_fields.
  rewrite split_slash_cat, after_first_skip; [reflexivity|exact H].
Qed.

Theorem ResNamesSrc_instance_prefix_irrelevant :
  forall inst rest pfx,
    (forallb (not_kw "uploads") (split_slash inst) = true ->
     ResNamesSrc_parseWriteResource (inst ++ "/" ++ rest)%string = ResNamesSrc_parseWriteResource rest) /\
    (forallb not_read_kw (split_slash inst) = true ->
     ResNamesSrc_parseReadResource (inst ++ "/" ++ rest)%string pfx = ResNamesSrc_parseReadResource rest pfx).
Proof.
  intros inst rest pfx. rewrite !ResNamesSrc_parseReadResource_refines, !ResNamesSrc_parseWriteResource_refines.
  split; [apply write_prefix_irrelevant|apply read_prefix_irrelevant].
Qed.

(* the C16 name theorems, about the translated parsers *)
Theorem ResNamesSrc_names_write :
  forall inst uuid h szs sz meta (z : bool),
    forallb (not_kw "uploads") inst = true ->
    forallb no_slash (inst ++ uuid :: h :: szs :: meta)%list = true ->
    parse_int64 szs = Some sz -> 0 <= sz -> validate_hash h sz = Ok tt ->
    ResNamesSrc_parseWriteResource
      (join_slash (inst ++ "uploads" :: uuid ::
                   (if z then ["compressed-blobs"; "zstd"] else ["blobs"]) ++ h :: szs :: meta)%list)
    = Ok (h, sz, if z then ResNamesSrc_casblob_Zstandard else ResNamesSrc_casblob_Identity).
Proof.
  intros. rewrite ResNamesSrc_parseWriteResource_refines.
  replace (if z then ResNamesSrc_casblob_Zstandard else ResNamesSrc_casblob_Identity)
    with (if z then cmp_zstd else cmp_identity) by (destruct z; reflexivity).
  apply names_write; assumption.
Qed.

Theorem ResNamesSrc_names_read :
  forall inst h szs sz (z : bool) pfx,
    forallb not_read_kw inst = true ->
    forallb no_slash (inst ++ [h; szs])%list = true ->
    parse_int64 szs = Some sz -> 0 <= sz -> validate_hash h sz = Ok tt ->
    ResNamesSrc_parseReadResource
      (join_slash (inst ++ (if z then ["compressed-blobs"; "zstd"] else ["blobs"]) ++ [h; szs])%list) pfx
    = Ok (h, sz, if z then ResNamesSrc_casblob_Zstandard else ResNamesSrc_casblob_Identity).
Proof.
  intros. rewrite ResNamesSrc_parseReadResource_refines.
  replace (if z then ResNamesSrc_casblob_Zstandard else ResNamesSrc_casblob_Identity)
    with (if z then cmp_zstd else cmp_identity) by (destruct z; reflexivity).
  apply names_read; assumption.
Qed.
