(* Proofs/Casblob_write.v — WriteAndClose: what an acknowledged write implies (length, hash,
   clean end of stream), the shape of the chunks, and that the file it leaves has the layout the
   reader theorems are about. *)
From BR Require Import Base.Prelude Gen.Consts Gen.Funcs Model.Casblob
  Proofs.Casblob_le Proofs.Casblob_header Proofs.Casblob_lists Proofs.Casblob_nopanic
  Proofs.Casblob_read.
Open Scope list_scope.
Open Scope Z_scope.

(* ------------------------------------------------------------------ *)
(* the chunk loop *)

Lemma write_plan_shape c : 0 < c -> forall k rem avail lens,
  Z.of_nat k * c < rem <= (Z.of_nat k + 1) * c ->
  write_plan (S k) c rem avail = Ok lens ->
  lens = repeat c k ++ [rem - Z.of_nat k * c] /\ rem <= avail.
Proof.
  intros Hc k; induction k as [|k IH]; intros rem avail lens Hr H.
  - cbn [write_plan] in H. replace (rem <=? c) with true in H by lia.
    destruct (avail <? rem) eqn:Ea; [discriminate|]. cbn [bind] in H. inversion H; subst.
    split; [simpl; f_equal; lia|lia].
  - rewrite Nat2Z.inj_succ in Hr.
    change (write_plan (S (S k)) c rem avail) with
      (let chunkEnd := if rem <=? c then rem else c in
       if avail <? chunkEnd then Err W_short
       else do l <- write_plan (S k) c (rem - chunkEnd) (avail - chunkEnd); Ok (chunkEnd :: l)) in H.
    cbv zeta in H.
    assert (Hgt : c < rem) by nia.
    replace (rem <=? c) with false in H by lia.
    destruct (avail <? c) eqn:Ea; [discriminate|].
    destruct (write_plan (S k) c (rem - c) (avail - c)) as [l'| | |] eqn:Ep; cbn [bind] in H;
      try discriminate.
    inversion H; subst lens.
    assert (Hb : Z.of_nat k * c < rem - c <= (Z.of_nat k + 1) * c) by nia.
    destruct (IH _ _ _ Hb Ep) as [-> Hav].
    split; [|lia]. cbn [repeat app]. f_equal. f_equal. f_equal. rewrite Nat2Z.inj_succ. lia.
Qed.

Lemma zsum_repeat c k r : zsum (repeat c k ++ [r]) = Z.of_nat k * c + r.
Proof.
  induction k as [|k IH]; [unfold zsum; simpl; lia|].
  cbn [repeat app]. change (zsum (c :: repeat c k ++ [r])) with (c + zsum (repeat c k ++ [r])).
  rewrite IH, Nat2Z.inj_succ. lia.
Qed.

(* number of chunks of the compressed writer *)
Lemma num_chunks_zstd c size :
  0 < c -> 0 < size -> num_chunks c Zstandard size = cdiv size c.
Proof.
  intros Hc Hs. unfold num_chunks, cdiv. rewrite Z.eqb_refl.
  destruct (quot_rem_nonneg size c) as [-> ->]; try lia.
  pose proof (Z.mod_pos_bound size c Hc).
  destruct (size mod c >? 0) eqn:E1; destruct (size mod c =? 0) eqn:E2; lia.
Qed.

Lemma cdiv_bounds c size : 0 < c -> 0 < size ->
  1 <= cdiv size c /\ (cdiv size c - 1) * c < size <= cdiv size c * c.
Proof.
  intros Hc Hs. unfold cdiv.
  pose proof (Z.div_mod size c ltac:(lia)). pose proof (Z.mod_pos_bound size c Hc).
  assert (0 <= size / c) by (apply Z.div_pos; lia).
  destruct (size mod c =? 0) eqn:E; split; nia.
Qed.

(* an acknowledged compressed write: the stream had exactly the declared length, ended cleanly,
   hashed to the declared digest, and was cut into full chunks plus a non-empty last one *)
Lemma write_ctl_zstd_ok c size avail e hk lens :
  0 < c -> write_ctl c Zstandard size avail e hk = Ok lens ->
  let k := Z.to_nat (cdiv size c - 1) in
  0 < size /\ avail = size /\ e = false /\ hk = true /\
  lens = repeat c k ++ [size - Z.of_nat k * c] /\
  Z.of_nat k * c < size <= (Z.of_nat k + 1) * c.
Proof.
  intros Hc H k. unfold write_ctl in H.
  destruct (size <=? 0) eqn:Es; [discriminate|].
  change (Zstandard =? Identity) with false in H. cbv iota in H.
  assert (Hs : 0 < size) by lia.
  rewrite num_chunks_zstd in H by lia.
  destruct (cdiv_bounds c size Hc Hs) as [Hn1 Hn2].
  replace (Z.to_nat (cdiv size c)) with (S k) in H by (unfold k; lia).
  assert (Hk : Z.of_nat k = cdiv size c - 1) by (unfold k; lia).
  destruct (write_plan (S k) c size avail) as [l| | |] eqn:Ep; cbn [bind] in H; try discriminate.
  assert (Hb : Z.of_nat k * c < size <= (Z.of_nat k + 1) * c) by (rewrite Hk; lia).
  destruct (write_plan_shape c Hc k size avail l Hb Ep) as [-> Hav]. fold zsum in H. rewrite zsum_repeat in H.
  replace (avail - (Z.of_nat k * c + (size - Z.of_nat k * c))) with (avail - size) in H by lia.
  destruct (avail - size >=? c) eqn:E1; [discriminate|].
  destruct ((avail - size =? 0) && negb e) eqn:E2; cbn [negb] in H; [|discriminate].
  destruct hk; cbn [negb] in H; [|discriminate].
  inversion H; subst lens.
  apply andb_true_iff in E2 as [E2 E3]. destruct e; [discriminate|].
  repeat split; try lia; rewrite Hk; lia.
Qed.

(* ------------------------------------------------------------------ *)
(* cutting the data *)

Lemma zfirstn_length (l : list Z) n : 0 <= n <= zlen l -> zlen (zfirstn n l) = n.
Proof. intros H. unfold zfirstn, zlen in *. rewrite firstn_length. lia. Qed.

Lemma zskipn_length (l : list Z) n : 0 <= n <= zlen l -> zlen (zskipn n l) = zlen l - n.
Proof. intros H. unfold zskipn, zlen in *. rewrite skipn_length. lia. Qed.

Lemma zfirstn_zskipn (l : list Z) n : zfirstn n l ++ zskipn n l = l.
Proof. apply firstn_skipn. Qed.

Lemma split_by_spec lens data :
  Forall (fun l => 0 <= l) lens -> zsum lens = zlen data ->
  List.concat (split_by lens data) = data /\ map zlen (split_by lens data) = lens.
Proof.
  revert data; induction lens as [|l t IH]; intros data Hl Hs.
  - unfold zsum in Hs; simpl in Hs. destruct data; [split; reflexivity|rewrite zlen_cons in Hs].
    pose proof (zlen_nonneg data). lia.
  - inversion Hl as [|? ? H1 H2]; subst.
    change (zsum (l :: t)) with (l + zsum t) in Hs.
    assert (0 <= zsum t) by (apply sumZ_nonneg; intros y Hy; rewrite Forall_forall in H2; apply H2; exact Hy).
    cbn [split_by List.concat map].
    destruct (IH (zskipn l data) H2) as [E1 E2]; [rewrite zskipn_length; lia|].
    rewrite E1, E2, zfirstn_length by lia. split; [apply zfirstn_zskipn|reflexivity].
Qed.

Lemma nth_repeat_app (c r : Z) k i :
  nth i (repeat c k ++ [r]) 0 = if (i <? k)%nat then c else if (i =? k)%nat then r else 0.
Proof.
  revert i; induction k as [|k IH]; intros i.
  - destruct i as [|[|i]]; reflexivity.
  - destruct i as [|i]; [reflexivity|]. cbn [repeat app nth]. rewrite IH.
    change (S i <? S k)%nat with (i <? k)%nat. change (S i =? S k)%nat with (i =? k)%nat. reflexivity.
Qed.

Lemma pieces_of_split c k r data :
  0 < c -> 0 < r <= c -> zlen data = Z.of_nat k * c + r ->
  let ps := split_by (repeat c k ++ [r]) data in
  pieces_ok c ps /\ List.concat ps = data /\ List.length ps = S k /\ Forall (fun p => p <> []) ps.
Proof.
  intros Hc Hr Hd ps.
  assert (Hnn : Forall (fun l => 0 <= l) (repeat c k ++ [r])).
  { apply Forall_app; split; [apply Forall_forall; intros x Hx; apply repeat_spec in Hx; lia|].
    constructor; [lia|constructor]. }
  destruct (split_by_spec (repeat c k ++ [r]) data Hnn) as [E1 E2]; [rewrite zsum_repeat; lia|].
  fold ps in E1, E2.
  assert (Hlen : List.length ps = S k).
  { rewrite <- (map_length zlen), E2, app_length, repeat_length. simpl. lia. }
  assert (Hnth : forall i, zlen (nth i ps []) = nth i (repeat c k ++ [r]) 0).
  { intros i. rewrite <- E2. change 0 with (zlen (@nil Z)) at 1. rewrite map_nth. reflexivity. }
  split; [|split; [exact E1|split; [exact Hlen|]]].
  - split; [intros E; rewrite E in Hlen; simpl in Hlen; lia|]. split.
    + intros i Hi. rewrite Hnth, nth_repeat_app. rewrite Hlen in Hi.
      replace (i <? k)%nat with true by (symmetry; apply Nat.ltb_lt; lia). reflexivity.
    + rewrite Hlen. replace (S k - 1)%nat with k by lia. rewrite Hnth, nth_repeat_app.
      rewrite Nat.ltb_irrefl, Nat.eqb_refl. lia.
  - apply Forall_forall. intros p Hp. apply (In_nth _ _ []) in Hp as (i & Hi & <-).
    intros E. pose proof (Hnth i) as Hz. rewrite E in Hz. rewrite nth_repeat_app in Hz.
    rewrite Hlen in Hi. unfold zlen in Hz; simpl in Hz.
    destruct (i <? k)%nat eqn:E3; [lia|].
    destruct (i =? k)%nat eqn:E4; [lia|].
    apply Nat.ltb_ge in E3. apply Nat.eqb_neq in E4. lia.
Qed.

Lemma zsum_pos l : Forall (fun x => 0 < x) l -> l <> [] -> 1 <= zsum l.
Proof.
  intros H Hne. destruct l as [|x t]; [congruence|].
  change (zsum (x :: t)) with (x + zsum t).
  pose proof (Forall_inv H) as Hx. pose proof (Forall_inv_tail H) as Ht. cbv beta in Hx.
  assert (0 <= zsum t).
  { apply sumZ_nonneg. intros y Hy. rewrite Forall_forall in Ht. specialize (Ht y Hy). lia. }
  lia.
Qed.

(* ------------------------------------------------------------------ *)
Section WriteProofs.
Variables enc enc_stream : list Z -> list Z.
Variables dec_all dec_stream : list Z -> option (list Z).
Variable hashok : list Z -> bool.

Hypothesis dec_enc : forall x, dec_all (enc x) = Some x.
Hypothesis stream_frame : forall f p r,
  dec_all f = Some p -> dec_stream (f ++ r) = option_map (app p) (dec_stream r).
Hypothesis stream_nil : dec_stream [] = Some [].

Lemma frames_decode_map_enc ps : frames_decode dec_all (map enc ps) ps.
Proof using dec_enc.
  try clear stream_frame; try clear stream_nil; try clear enc_stream; idtac.
  induction ps; constructor; [apply dec_enc|assumption]. Qed.

Lemma enc_frames_positive ps :
  Forall (fun p => p <> []) ps -> Forall (fun l => 0 < l) (map zlen (map enc ps)).
Proof using dec_enc stream_frame stream_nil.
   try clear enc_stream; try clear hashok; idtac.
 
  intros H. apply Forall_forall. intros x Hx.
  apply in_map_iff in Hx as (f & <- & Hf). apply in_map_iff in Hf as (p & <- & Hp).
  rewrite Forall_forall in H. specialize (H p Hp).
  pose proof (frame_nonempty dec_all dec_stream stream_frame stream_nil (enc p) p (dec_enc p) H) as Hne.
  destruct (enc p); [congruence|]. rewrite zlen_cons. pose proof (zlen_nonneg l). lia.
Qed.

(* the file an acknowledged compressed write leaves *)
Theorem writer_layout c data ends size ret file :
  0 < c < two32 -> in_i64 size ->
  write_and_close enc hashok c Zstandard data ends size = Ok (ret, file) ->
  zlen file <= maxAlloc -> 8 * (cdiv size c + 1) + 29 < two32 ->
  exists h frames ps,
    layout dec_all file h frames ps /\ List.concat ps = data /\
    size = zlen data /\ h_usize h = size /\ h_chunk h = c /\ ret = zlen file /\
    hashok data = true /\ ends = false /\ frames = map enc ps /\
    file = encode_header h ++ List.concat frames.
Proof using dec_enc stream_frame stream_nil.
   try clear enc_stream; idtac.
 
  intros Hc Hi64 H Ha Hn. unfold write_and_close in H.
  change (Zstandard =? Identity) with false in H. cbv iota in H.
  destruct (write_ctl c Zstandard size (zlen data) ends _) as [lens| | |] eqn:Ew; cbn [bind] in H;
    try discriminate.
  apply write_ctl_zstd_ok in Ew; [|lia]. cbv zeta in Ew.
  set (k := Z.to_nat (cdiv size c - 1)) in *.
  destruct Ew as (Hs & Hav & He & Hh & -> & Hk).
  assert (Hfd : zfirstn size data = data).
  { unfold zfirstn. apply firstn_all2. unfold zlen in Hav. lia. }
  rewrite Hfd in Hh.
  destruct (pieces_of_split c k (size - Z.of_nat k * c) data) as (Pp & Pc & Pl & Pn); try lia.
  set (ps := split_by (repeat c k ++ [size - Z.of_nat k * c]) data) in *.
  set (frames := map enc ps) in *.
  assert (Hlens : List.length (repeat c k ++ [size - Z.of_nat k * c]) = S k)
    by (rewrite app_length, repeat_length; simpl; lia).
  rewrite Hlens in H.
  assert (Hkk : Z.of_nat k = cdiv size c - 1).
  { destruct (cdiv_bounds c size) as [H1 _]; try lia; unfold k; lia. }
  assert (Hhs : Gen.header_size (h_offs (header0 c Zstandard size (S k))) = 29 + 8 * (Z.of_nat k + 2)).
  { rewrite header_size_val; cbn [header0 h_offs]; unfold zlen; simpl List.length;
      rewrite repeat_length; unfold two63, two32 in *; lia. }
  rewrite Hhs in H.
  set (hs := 29 + 8 * (Z.of_nat k + 2)) in *.
  set (offs := offsets_from hs (map zlen frames)) in *.
  set (h := mkHeader size Zstandard c offs) in *.
  assert (Hrf : ret = last offs 0 /\ file = encode_header h ++ List.concat frames) by (split; congruence).
  destruct Hrf as [Hret Hfile]. rewrite Hfile in Ha |- *. rewrite Hret. clear H Hret Hfile.
  assert (Hlf : List.length frames = S k) by (unfold frames; rewrite map_length; exact Pl).
  assert (Hzo : zlen offs = Z.of_nat k + 2).
  { unfold offs, zlen. rewrite offsets_from_length, map_length, Hlf. lia. }
  assert (Hah : after_header h = hs) by (unfold after_header, chunkTableOffset; cbn [h h_offs]; rewrite Hzo; lia).
  assert (Hpos : Forall (fun l => 0 < l) (map zlen frames)) by (apply enc_frames_positive; exact Pn).
  assert (Hflen : zlen (encode_header h ++ List.concat frames) = hs + zsum (map zlen frames)).
  { rewrite zlen_app, encode_header_length, zlen_concat. cbn [h h_offs]. rewrite Hzo. unfold hs. lia. }
  assert (Hsum1 : 1 <= zsum (map zlen frames)).
  { apply zsum_pos; [exact Hpos|]. intros E. apply (f_equal (@List.length Z)) in E.
    rewrite map_length, Hlf in E. simpl in E. lia. }
  exists h, frames, ps.
  assert (Hparse : parse_header (encode_header h ++ List.concat frames) = Ok h).
  { apply parse_encode_roundtrip.
    - rewrite zlen_concat. lia.
    - rewrite Hflen. unfold header_wf. cbn [h h_usize h_comp h_chunk h_offs]. rewrite Hzo.
      split; [|split; [lia|split]].
      + unfold fields_ok. cbn [h h_usize h_comp h_chunk h_offs]. rewrite Hzo.
        split; [exact Hi64|].
        split; [unfold Zstandard; lia|]. split; [lia|]. split; [lia|].
        apply Forall_forall. intros x Hx. unfold offs in Hx.
        apply offsets_from_bound in Hx; [|unfold hs; lia|].
        * rewrite Hflen in Ha. unfold in_i64, two63, maxAlloc, hs in *. lia.
        * apply Forall_forall. intros y Hy. rewrite Forall_forall in Hpos. specialize (Hpos y Hy). lia.
      + unfold table_ok, offs. apply increasing_offsets_from; [unfold hs; lia|exact Hpos].
      + intros _. split; [lia|]. split; [lia|]. lia. }
  split; [|repeat split; try reflexivity; try assumption; try lia].
  - constructor.
    + exact Hparse.
    + reflexivity.
    + exists (encode_header h). split; [reflexivity|]. rewrite encode_header_length, Hah.
      cbn [h h_offs]. rewrite Hzo. unfold hs. lia.
    + rewrite Hah. reflexivity.
    + apply frames_decode_map_enc.
    + exact Pp.
    + cbn [h h_usize]. rewrite Pc. unfold zlen in *. lia.
    + exact Ha.
  - rewrite Hflen. unfold offs. rewrite offsets_from_last. reflexivity.
Qed.

(* conversely a matching, cleanly ending stream with the right hash is always acknowledged *)
Theorem writer_accepts c data :
  0 < c -> data <> [] -> hashok data = true ->
  exists ret file, write_and_close enc hashok c Zstandard data false (zlen data) = Ok (ret, file).
Proof using Type.
  try clear dec_enc; try clear stream_frame; try clear stream_nil; try clear enc_stream; try clear dec_all; try clear dec_stream; idtac.
 
  intros Hc Hd Hh.
  assert (Hs : 0 < zlen data) by (destruct data; [congruence|rewrite zlen_cons; pose proof (zlen_nonneg data); lia]).
  unfold write_and_close. change (Zstandard =? Identity) with false. cbv iota.
  assert (Hfd : zfirstn (zlen data) data = data) by (unfold zfirstn; apply firstn_all2; unfold zlen; lia).
  rewrite Hfd, Hh.
  destruct (write_ctl c Zstandard (zlen data) (zlen data) false true) as [lens| | |] eqn:Ew;
    [cbn [bind]; eexists; eexists; reflexivity| | |]; exfalso.
  all: unfold write_ctl in Ew; replace (zlen data <=? 0) with false in Ew by lia;
    change (Zstandard =? Identity) with false in Ew; cbv iota in Ew;
    rewrite num_chunks_zstd in Ew by lia;
    destruct (cdiv_bounds c (zlen data) Hc Hs) as [Hn1 Hn2];
    set (k := Z.to_nat (cdiv (zlen data) c - 1)) in *;
    replace (Z.to_nat (cdiv (zlen data) c)) with (S k) in Ew by (unfold k; lia);
    assert (Hk : Z.of_nat k = cdiv (zlen data) c - 1) by (unfold k; lia).
  all: assert (Hplan : forall j rem avail, Z.of_nat j * c < rem <= (Z.of_nat j + 1) * c -> rem <= avail ->
          write_plan (S j) c rem avail = Ok (repeat c j ++ [rem - Z.of_nat j * c])).
  1,3,5: (intros j; induction j as [|j IHj]; intros rem avail Hr Hav;
    [cbn [write_plan]; replace (rem <=? c) with true by lia; replace (avail <? rem) with false by lia;
     cbn [bind repeat app]; f_equal; f_equal; lia|
     rewrite Nat2Z.inj_succ in Hr;
     change (write_plan (S (S j)) c rem avail) with
       (let chunkEnd := if rem <=? c then rem else c in
        if avail <? chunkEnd then Err W_short
        else do l <- write_plan (S j) c (rem - chunkEnd) (avail - chunkEnd); Ok (chunkEnd :: l));
     cbv zeta; assert (c < rem) by nia; replace (rem <=? c) with false by lia;
     replace (avail <? c) with false by lia;
     rewrite IHj by nia; cbn [bind repeat app]; f_equal; f_equal; f_equal; f_equal;
     rewrite Nat2Z.inj_succ; lia]).
  all: rewrite Hplan in Ew by (try rewrite Hk; lia); cbn [bind] in Ew; fold zsum in Ew;
    rewrite zsum_repeat in Ew;
    replace (zlen data - (Z.of_nat k * c + (zlen data - Z.of_nat k * c))) with 0 in Ew by lia;
    replace (0 >=? c) with false in Ew by lia; cbn in Ew; discriminate.
Qed.

End WriteProofs.
