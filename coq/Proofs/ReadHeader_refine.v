(* Proofs/ReadHeader_refine.v — the function TRANSLATED from readHeader on this run
   (Gen/ReadHeaderSrc.v, statement by statement) computes exactly Casblob.parse_header, the model
   every theorem about readHeader is stated for: same header, same error class, a panic exactly
   where the model has one (nowhere).  The only premise is that the file size fits the int64
   that os.FileInfo.Size() returns. *)
From BR Require Import Base.Prelude Gen.Consts Model.Casblob Model.GoCasblob Gen.ReadHeaderSrc
  Proofs.Casblob_le Proofs.Casblob_header Proofs.ReadHeader_base.
Open Scope list_scope.
Open Scope Z_scope.

Ltac rh_cbn :=
  cbn [xbind xrun xlift bind negb orb andb err_is_nil ret_nil_err file_Stat fi_Size f_size f_rest
       h_usize h_comp h_chunk h_offs set_h_usize set_h_comp set_h_chunk set_h_offs zero_header
       r_magic r_frame r_usize r_comp r_chunk r_num r_rest fst snd].

Ltac w64 := rewrite wrap64_id by (unfold in_i64, two63, two32 in *; lia).
(* innermost first: any wrap64 whose argument is in range *)
Ltac w64s :=
  repeat match goal with
  | |- context [wrap64 ?z] => rewrite (wrap64_id z) by (unfold in_i64, two63, two32 in *; lia)
  end.

(* everything after the check of the chunk count against the logical size *)
Local Lemma quot_rem_pos a b : 0 < a -> 0 < b -> Z.quot a b = a / b /\ Z.rem a b = a mod b.
Proof. intros. apply quot_rem_nonneg; lia. Qed.

Theorem readHeader_refines (file : list Z) :
  zlen file < two63 -> ReadHeaderSrc_readHeader (open_file file) = parse_header file.
Proof.
  intros Hsz. unfold ReadHeaderSrc_readHeader, parse_header, open_file, chunkTableOffset.
  rh_cbn. change (29 + 16) with 45.
  destruct (zlen file <=? 45) eqn:Hsmall; rh_cbn; [reflexivity|].
  (* the six fixed-size reads *)
  rewrite read_u32_ok by lia. rh_cbn.
  unfold validate, decode_raw, skippableFrameMagicNumber, chunkTableOffset, Zstandard. rh_cbn.
  destruct (u32_of file =? 407710288) eqn:Hmagic; rh_cbn; [|reflexivity].
  rewrite read_u32_ok by (rewrite zlen_skipn by lia; lia). rh_cbn.
  rewrite skipn_skipn; cbn [Nat.add].
  rewrite read_i64_ok by (rewrite zlen_skipn by lia; lia). rh_cbn.
  rewrite skipn_skipn; cbn [Nat.add].
  rewrite read_u8_ok by (rewrite zlen_skipn by lia; lia). rh_cbn.
  rewrite skipn_skipn; cbn [Nat.add].
  rewrite read_u32_ok by (rewrite zlen_skipn by lia; lia). rh_cbn.
  rewrite skipn_skipn; cbn [Nat.add].
  rewrite read_i64_ok by (rewrite zlen_skipn by lia; lia). rh_cbn.
  rewrite skipn_skipn; cbn [Nat.add].
  pose proof (u32_of_range (skipn 4 file)) as Rframe.
  pose proof (i64_of_range (skipn 8 file)) as Rusize.
  pose proof (u32_of_range (skipn 17 file)) as Rchunk.
  pose proof (i64_of_range (skipn 21 file)) as Rnum.
  assert (Hrest : zlen (skipn 29 file) = zlen file - 29) by (rewrite zlen_skipn by lia; lia).
  set (frame := u32_of (skipn 4 file)) in *.
  set (usize := i64_of (skipn 8 file)) in *.
  set (comp := u8_of (skipn 16 file)) in *.
  set (chunk := u32_of (skipn 17 file)) in *.
  set (num := i64_of (skipn 21 file)) in *.
  set (rest := skipn 29 file) in *.
  unfold in_i64, two63, two32 in *.
  destruct (num <? 2) eqn:Hnum; rh_cbn; [reflexivity|].
  w64. rewrite go_quot_8. rh_cbn.
  rewrite (Z.quot_div_nonneg (zlen file - 29) 8) by lia.
  w64.
  destruct (num >? (zlen file - 29) / 8) eqn:Hfit; rh_cbn; [reflexivity|].
  w64s.
  (* the rest of the function, once for the three ways through the Zstandard block *)
  match goal with
  | |- xrun (xbind _ ?k) = bind _ ?k' => assert (Hk : xrun (k tt) = k' tt)
  end.
  { rh_cbn. w64s.
    destruct (frame =? num * 8 + 8 + 1 + 4 + 8) eqn:Hframe; rh_cbn; [|reflexivity].
    unfold make_i64s.
    destruct (go_make num 8) as [[]|e|s|s] eqn:Hmk; rh_cbn; try reflexivity.
    assert (Hrep : zlen (repeat 0 (Z.to_nat num)) = num) by (rewrite zlen_repeat; lia).
    destruct (zlen rest <? 8 * num) eqn:Hshort.
    - rewrite read_i64s_short by (rewrite Hrep; lia). rh_cbn. reflexivity.
    - rewrite read_i64s_ok by (rewrite Hrep; lia). rh_cbn.
      rewrite repeat_length.
      set (offs := decode_offsets (Z.to_nat num) rest).
      assert (Hlen : num = zlen offs).
      { unfold offs, zlen. rewrite decode_offsets_length. lia. }
      rewrite (table_loop _ _ _ offs (raise_msg "offset table values should increase: %d -> %d") num (-1) Hlen);
        [ | unfold two63; lia | intros; reflexivity | intros; reflexivity
          | intros i p x Hx; rh_cbn; rewrite Hx; rh_cbn; destruct (x <=? p); rh_cbn; reflexivity ].
      destruct (increasing_from (-1) offs) as [last|]; rh_cbn; [|reflexivity].
      destruct (last =? zlen file); rh_cbn; reflexivity. }
  destruct (comp =? 1) eqn:Hcomp; rh_cbn; [|exact Hk].
  destruct (chunk =? 0) eqn:Hchunk; rh_cbn; [reflexivity|].
  unfold go_quot, go_rem. rewrite Hchunk. rh_cbn.
  destruct (usize <=? 0) eqn:Hu.
  - destruct (negb (wrap64 (Z.rem usize chunk) =? 0)); rh_cbn; reflexivity.
  - destruct (quot_rem_pos usize chunk) as [Eq Er]; [lia|lia|]. rewrite Eq, Er.
    assert (0 <= usize mod chunk < chunk) by (apply Z.mod_pos_bound; lia).
    assert (0 <= usize / chunk <= usize).
    { split; [apply Z.div_pos; lia|]. apply Z.div_le_upper_bound; nia. }
    w64s.
    destruct (usize mod chunk =? 0) eqn:Hm; rh_cbn.
    + destruct (num - 1 =? usize / chunk); rh_cbn; [exact Hk|reflexivity].
    + assert (usize / chunk + 1 <= usize).
      { pose proof (Z.div_mod usize chunk). nia. }
      w64. destruct (num - 1 =? usize / chunk + 1); rh_cbn; [exact Hk|reflexivity].
Qed.
