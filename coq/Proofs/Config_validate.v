(* Proofs/Config_validate.v — every invalid class is refused by validate_config whatever the other
   fields are: a failing stage makes the whole chain fail, because every earlier stage either
   fails itself or hands on. *)
From BR Require Import Base.Prelude Gen.Config Model.Config.
Open Scope string_scope.
Open Scope Z_scope.

Definition fails {A} (r : result A) : Prop := exists e, r = Err e.
(* a stage ends in Ok or Err: the configuration code has no panicking or blocking construct
   (go2coq refuses an unguarded dereference) *)
Definition ok_or_err {A} (r : result A) : Prop :=
  match r with Ok _ | Err _ => True | Panic _ | Hang _ => False end.

Lemma bind_fails_l {A B} (r : result A) (k : A -> result B) : fails r -> fails (bind r k).
Proof. intros [e ->]. exists e. reflexivity. Qed.

Lemma bind_fails_r {A B} (r : result A) (k : A -> result B) :
  ok_or_err r -> (forall a, r = Ok a -> fails (k a)) -> fails (bind r k).
Proof.
  destruct r as [a|e|s|s]; simpl; intros H K; [apply K; reflexivity|exists e; reflexivity|destruct H|destruct H].
Qed.

Ltac split_all :=
  repeat match goal with
         | |- context [if ?b then _ else _] => destruct b
         | |- context [match ?x with _ => _ end] => destruct x
         end.
Ltac stage_ok_or_err := intros; cbv beta delta [err]; split_all; exact I.

Lemma st_required_ooe c : ok_or_err (st_required c).
Proof. unfold st_required. stage_ok_or_err. Qed.
Lemma st_http_ooe X c : ok_or_err (st_http X c).
Proof. unfold st_http. stage_ok_or_err. Qed.
Lemma st_grpc_ooe X c p : ok_or_err (st_grpc X c p).
Proof. unfold st_grpc. stage_ok_or_err. Qed.
Lemma st_profile_ooe c : ok_or_err (st_profile c).
Proof. unfold st_profile. stage_ok_or_err. Qed.
Lemma st_tls_auth_limits_ooe c : ok_or_err (st_tls_auth_limits c).
Proof. unfold st_tls_auth_limits. stage_ok_or_err. Qed.
Lemma st_gcs_ooe c : ok_or_err (st_gcs c).
Proof. unfold st_gcs. stage_ok_or_err. Qed.
Lemma st_url_backend_ooe o p : ok_or_err (st_url_backend o p).
Proof. unfold st_url_backend, url_backend_validate. stage_ok_or_err. Qed.
Lemma st_s3_ooe X c : ok_or_err (st_s3 X c).
Proof. unfold st_s3. stage_ok_or_err. Qed.
Lemma st_azblob_ooe X c : ok_or_err (st_azblob X c).
Proof. unfold st_azblob. stage_ok_or_err. Qed.
Lemma st_buckets_ooe c : ok_or_err (st_buckets c).
Proof. unfold st_buckets. stage_ok_or_err. Qed.
Lemma st_ldap_ooe c : ok_or_err (st_ldap c).
Proof. unfold st_ldap. stage_ok_or_err. Qed.

#[export] Hint Resolve st_required_ooe st_http_ooe st_grpc_ooe st_profile_ooe st_tls_auth_limits_ooe st_gcs_ooe
  st_url_backend_ooe st_s3_ooe st_azblob_ooe st_buckets_ooe st_ldap_ooe : ooe.

(* go down the chain until the stage that is known to fail *)
Ltac descend :=
  unfold validate_config;
  repeat first [ apply bind_fails_l; solve [eauto] | apply bind_fails_r; [solve [auto with ooe]|intros ? ?] ].

Lemma required_fails X c : fails (st_required c) -> fails (validate_config X c).
Proof. intros H. descend. Qed.

Lemma http_fails X c : fails (st_http X c) -> fails (validate_config X c).
Proof. intros H. descend. Qed.

Lemma grpc_fails X c : (forall p, st_http X c = Ok p -> fails (st_grpc X c p)) -> fails (validate_config X c).
Proof. intros H. descend. Qed.

Lemma tls_auth_limits_fails X c : fails (st_tls_auth_limits c) -> fails (validate_config X c).
Proof. intros H. descend. Qed.

(* ------------------------------------------------------------------ *)
(* the classes *)

Lemma if_true_fails {A} (b : bool) (n : Z) (r : result A) : b = true -> fails (if b then err n else r).
Proof. intros ->. exists (EOther n). reflexivity. Qed.

Lemma class_missing_dir X c : Config_Dir c = "" -> validate_config X c = Err (EOther 1).
Proof. intros H. unfold validate_config, st_required. rewrite H. reflexivity. Qed.

Lemma class_max_size X c : Config_MaxSize c <= 0 -> fails (validate_config X c).
Proof.
  intros H. apply required_fails. unfold st_required.
  destruct (String.eqb (Config_Dir c) ""); [eexists; reflexivity|].
  apply if_true_fails. lia.
Qed.

Definition known_storage_mode (m : string) : bool := String.eqb m "zstd" || String.eqb m "uncompressed".
Definition known_zstd_implementation (m : string) : bool := String.eqb m "go" || String.eqb m "cgo".

Lemma class_storage_mode X c : known_storage_mode (Config_StorageMode c) = false -> fails (validate_config X c).
Proof.
  unfold known_storage_mode. intros H. apply orb_false_iff in H as [H1 H2].
  apply required_fails. unfold st_required. rewrite H1, H2. simpl.
  destruct (String.eqb (Config_Dir c) ""); [eexists; reflexivity|].
  destruct (Config_MaxSize c <=? 0); eexists; reflexivity.
Qed.

Lemma class_zstd_implementation X c :
  known_zstd_implementation (Config_ZstdImplementation c) = false -> fails (validate_config X c).
Proof.
  unfold known_zstd_implementation. intros H. apply orb_false_iff in H as [H1 H2].
  apply required_fails. unfold st_required. rewrite H1, H2. simpl.
  destruct (String.eqb (Config_Dir c) ""); [eexists; reflexivity|].
  destruct (Config_MaxSize c <=? 0); [eexists; reflexivity|].
  destruct (_ && _); eexists; reflexivity.
Qed.

Lemma class_many_backends X c : proxy_count c > 1 -> fails (validate_config X c).
Proof.
  intros H. apply required_fails. unfold st_required.
  destruct (String.eqb (Config_Dir c) ""); [eexists; reflexivity|].
  destruct (Config_MaxSize c <=? 0); [eexists; reflexivity|].
  destruct (_ && _); [eexists; reflexivity|].
  destruct (_ && _); [eexists; reflexivity|].
  apply if_true_fails. lia.
Qed.

(* a TCP listener address that net.SplitHostPort refuses, or unix:// without a path *)
Definition malformed_listener (X : Ext) (a : string) : Prop :=
  if String.prefix "unix://" a then str_drop 7 a = "" else net_SplitHostPort X a = None.

Lemma class_malformed_http X c : malformed_listener X (Config_HTTPAddress c) -> fails (validate_config X c).
Proof.
  unfold malformed_listener. intros H. apply http_fails. unfold st_http.
  destruct (String.prefix "unix://" (Config_HTTPAddress c)); rewrite H; eexists; reflexivity.
Qed.

Lemma class_malformed_grpc X c :
  grpc_listens c = true -> malformed_listener X (Config_GRPCAddress c) -> fails (validate_config X c).
Proof.
  unfold malformed_listener. intros L H. apply grpc_fails. intros p _. unfold st_grpc. rewrite L.
  destruct (String.prefix "unix://" (Config_GRPCAddress c)); rewrite H; eexists; reflexivity.
Qed.

Lemma class_same_port X c hh gh p :
  String.prefix "unix://" (Config_HTTPAddress c) = false ->
  net_SplitHostPort X (Config_HTTPAddress c) = Some (hh, p) ->
  grpc_listens c = true -> String.prefix "unix://" (Config_GRPCAddress c) = false ->
  net_SplitHostPort X (Config_GRPCAddress c) = Some (gh, p) -> p <> "" ->
  fails (validate_config X c).
Proof.
  intros U1 S1 L U2 S2 NE. apply grpc_fails. intros q Hq.
  unfold st_http in Hq. rewrite U1, S1 in Hq. injection Hq as <-.
  unfold st_grpc. rewrite L, U2, S2.
  apply if_true_fails. rewrite String.eqb_refl.
  destruct (String.eqb p "") eqn:E; [apply String.eqb_eq in E; contradiction|reflexivity].
Qed.

Lemma eqb_empty_false s : s <> "" -> String.eqb s "" = false.
Proof. intros H. destruct (String.eqb s "") eqn:E; [apply String.eqb_eq in E; contradiction|reflexivity]. Qed.

Lemma class_half_tls X c :
  (Config_TLSCertFile c <> "" /\ Config_TLSKeyFile c = "") \/ (Config_TLSCertFile c = "" /\ Config_TLSKeyFile c <> "") ->
  fails (validate_config X c).
Proof.
  intros H. apply tls_auth_limits_fails. unfold st_tls_auth_limits.
  destruct (_ && _); [eexists; reflexivity|].
  apply if_true_fails.
  destruct H as [[H1 H2]|[H1 H2]].
  - rewrite H2, (eqb_empty_false _ H1). reflexivity.
  - rewrite H1, (eqb_empty_false _ H2). reflexivity.
Qed.

Lemma class_mtls_without_certificate X c :
  Config_TLSCaFile c <> "" -> (Config_TLSCertFile c = "" \/ Config_TLSKeyFile c = "") -> fails (validate_config X c).
Proof.
  intros Hca H. apply tls_auth_limits_fails. unfold st_tls_auth_limits.
  destruct (_ && _); [eexists; reflexivity|].
  destruct (_ || _); [eexists; reflexivity|].
  apply if_true_fails. rewrite (eqb_empty_false _ Hca).
  destruct H as [H|H]; rewrite H; simpl; [reflexivity|apply orb_true_r].
Qed.

Lemma class_unauthenticated_reads X c :
  Config_AllowUnauthenticatedReads c = true -> no_authentication c = true -> fails (validate_config X c).
Proof.
  unfold no_authentication. intros Ha H.
  apply andb_true_iff in H as [H H3]. apply andb_true_iff in H as [H1 H2].
  apply tls_auth_limits_fails. unfold st_tls_auth_limits.
  destruct (_ && _); [eexists; reflexivity|].
  destruct (_ || _); [eexists; reflexivity|].
  destruct (_ && _); [eexists; reflexivity|].
  apply if_true_fails. rewrite Ha, H1, H2, H3. reflexivity.
Qed.

Lemma class_blob_limits X c : Config_MaxBlobSize c <= 0 \/ Config_MaxProxyBlobSize c <= 0 -> fails (validate_config X c).
Proof.
  intros H. apply tls_auth_limits_fails. unfold st_tls_auth_limits.
  destruct (_ && _); [eexists; reflexivity|].
  destruct (_ || _); [eexists; reflexivity|].
  destruct (_ && _); [eexists; reflexivity|].
  destruct (_ && _); [eexists; reflexivity|].
  destruct (Config_MaxBlobSize c <=? 0) eqn:E1; [eexists; reflexivity|].
  apply if_true_fails. lia.
Qed.

(* the modelled net.SplitHostPort refuses these (harness: the real one does too) *)
Lemma split_host_port_malformed :
  map split_host_port ["localhost"; "8080"; "1.2.3.4:80:90"; "[::1"; "[::1]"; "::1:8080"; "host:80]"; "a[b:1"; "[::1]8080:1"; ""]
  = [None; None; None; None; None; None; None; None; None; None].
Proof. vm_compute. reflexivity. Qed.
