(* Proofs/LRU_refine_add.v — the translated Add (Gen/LRUSrc.v: LRUSrc_Add) computes LRU.add. *)
From Coq Require Import Permutation.
From BR Require Import Base.Prelude Gen.Funcs Model.LRU Model.GoLRU Gen.LRUSrc Model.GoLRURun
  Proofs.LRU_inv Bridge.Bridge_LRU Proofs.LRU_refine_base Proofs.LRU_refine_loop Proofs.LRU_refine_prims.
Open Scope list_scope.
Open Scope Z_scope.

Local Opaque wrap64 wrapU64 Gen.roundUp4k Gen.sumLargerThan.

Definition add_hang : string := "lru.Add: eviction loop on empty list".

(* ------------------------------------------------------------------ *)
(* the loop bounds at the start of Add's eviction loop (model side) *)

Lemma In_remove_id id x l : In x (remove_id id l) -> In x l.
Proof.
  induction l as [|a t IH]; simpl; [tauto|].
  destruct (Nat.eqb (eid a) id); simpl; [tauto|]. intros [H|H]; [left; exact H|right; apply IH; exact H].
Qed.

Lemma Inv_upd_peak n s : Inv s -> Inv (upd_peak n s).
Proof. intros (HA & H1 & H2). split; [apply upd_peak_acct; exact HA|exact (conj H1 H2)]. Qed.

Lemma overwrite_Bnd s e k v :
  Inv s -> sizes_ok s = true -> In e (order s) -> key_of e = k ->
  0 <= size v < two62 -> 0 <= sizeOnDisk v < two62 -> roundUp4k (sizeOnDisk v) <= maxs s ->
  Bnd (roundUp4k (sizeOnDisk v) - r4k_disk e) (roundUp4k (size v) - r4k_size e)
      (enqueue (mkEntry (ekey (ent e)) (evalue (ent e)))
         (set_order (remove_id (eid e) (order s) ++ [mkElem (eid e) (mkEntry k v)]) s)).
Proof.
  intros HI Hs Hin Hk V1 V2 Hr.
  pose proof (Inv_Bnd0 s HI Hs) as HB0.
  pose proof (sizes_ok_spec _ Hs) as (M1 & M2 & M3).
  pose proof HI as (HA & Hcm & Hmp).
  destruct (acct_sums 0 0 _ HA) as (S1 & S2 & S3 & S4 & S5).
  destruct (acct_item 0 0 s e HA Hin) as (I1 & I2 & I3 & I4 & I5).
  pose proof HA as [_ Hids _ Ac Au Ar _ Ait _].
  assert (Hve : item_ok (evalue (ent e))) by (rewrite Forall_forall in Ait; apply Ait; exact Hin).
  pose proof (touch_acct 0 0 s e v HA Hin ltac:(unfold item_ok; lia)) as HT. cbv zeta in HT.
  rewrite Hk in HT.
  replace (0 + (roundUp4k (sizeOnDisk v) - r4k_disk e)) with (roundUp4k (sizeOnDisk v) - r4k_disk e) in HT by lia.
  replace (0 + (roundUp4k (size v) - r4k_size e)) with (roundUp4k (size v) - r4k_size e) in HT by lia.
  pose proof (enqueue_acct _ _ _ (mkEntry (ekey (ent e)) (evalue (ent e))) HT Hve) as HA2.
  pose proof (roundUp4k_bounds (sizeOnDisk v)) as R1.
  pose proof (r4k_le62 (size v) ltac:(lia)) as R2.
  pose proof (roundUp4k_bounds (size v)) as R3.
  pose proof (sumZ_perm sod _ _ (remove_id_perm (order s) e Hids Hin)) as HP. simpl in HP.
  constructor; [exact HA2|..]; unfold enqueue, set_order; simpl;
    unfold sod, r4k_disk, r4k_size, two61, two62, maxInt64 in *; try lia.
  - apply Forall_app. split.
    + apply Forall_forall. intros x Hx. apply In_remove_id in Hx.
      pose proof (b_items _ _ _ HB0) as HF. rewrite Forall_forall in HF. apply (HF x Hx).
    + constructor; [simpl; lia|constructor].
  - rewrite sumZ_app. simpl. lia.
Qed.

Lemma pushnew_Bnd s k v :
  Inv s -> sizes_ok s = true -> find_key k (order s) = None ->
  0 <= size v < two62 -> 0 <= sizeOnDisk v < two62 -> roundUp4k (sizeOnDisk v) <= maxs s ->
  Bnd (roundUp4k (sizeOnDisk v)) (roundUp4k (size v))
      (mkState (order s ++ [mkElem (next s) (mkEntry k v)]) (S (next s)) (cur s) (unc s) (res s)
               (maxs s) (hard s) (evq s) (qbytes s) (peak s)).
Proof.
  intros HI Hs Ef V1 V2 Hr.
  pose proof (Inv_Bnd0 s HI Hs) as HB0.
  pose proof (sizes_ok_spec _ Hs) as (M1 & M2 & M3).
  pose proof HI as (HA & Hcm & Hmp).
  destruct (acct_sums 0 0 _ HA) as (S1 & S2 & S3 & S4 & S5).
  apply find_key_None in Ef.
  pose proof HA as [Hk Hi Hf Hc Hu Hr' Hq Hit Hqi].
  pose proof (roundUp4k_bounds (sizeOnDisk v)) as R1.
  pose proof (r4k_le62 (size v) ltac:(lia)) as R2.
  pose proof (roundUp4k_bounds (size v)) as R3.
  constructor; simpl; unfold two61, two62, maxInt64 in *; try lia.
  - constructor; simpl.
    + rewrite map_app. simpl. apply NoDup_app_snoc; assumption.
    + rewrite map_app. simpl. apply NoDup_app_snoc; [assumption|].
      intros Hx. apply in_map_iff in Hx as (x & Hx1 & Hx2). rewrite Forall_forall in Hf.
      specialize (Hf x Hx2). lia.
    + apply Forall_app; split.
      * eapply Forall_impl; [|exact Hf]. simpl. intros; lia.
      * constructor; [simpl; lia|constructor].
    + rewrite sumZ_app. simpl. unfold r4k_disk at 2. simpl. lia.
    + rewrite sumZ_app. simpl. unfold r4k_size at 2. simpl. lia.
    + exact Hr'.
    + exact Hq.
    + apply Forall_app; split; [assumption|]. constructor; [simpl; unfold item_ok; lia|constructor].
    + exact Hqi.
  - apply Forall_app. split; [exact (b_items _ _ _ HB0)|]. constructor; [unfold sod; simpl; lia|constructor].
  - rewrite sumZ_app. simpl. unfold sod at 2. simpl. unfold sod in *. lia.
Qed.

(* ------------------------------------------------------------------ *)
(* the eviction loop of Add and the final size update *)

Lemma add_tail c c4 delta ud :
  Bnd delta ud (abs c4) -> WFm c4 -> (List.length (g_ll c4) <= S (List.length (g_ll c)))%nat ->
  match
    match
      while (fuel_of c) (fun c0 : gst => wrap64 (g_currentSize c0 + delta) >? g_maxSize c0)
        (fun c0 : gst =>
           match ll_Back c0 with
           | Some v_ele => Next (LRUSrc_removeElement c0 v_ele)
           | None => Next c0
           end) c4
    with
    | Some (Next c2) =>
        Some (set_uncompressedSize (set_currentSize c2 (wrap64 (g_currentSize c2 + delta)))
                (wrap64 (g_uncompressedSize (set_currentSize c2 (wrap64 (g_currentSize c2 + delta))) + ud)),
              true)
    | Some (Return r0) => Some r0
    | None => None
    end
  with
  | Some (c', b) =>
      WFm c' /\
      match evict_while (fun x : Z => x + delta >? maxs (abs c4)) (abs c4) with
      | (s3, true) => (s3, Hang add_hang)
      | (s3, false) => (bump delta ud s3, Ok true)
      end = (abs c', Ok b)
  | None =>
      exists s', match evict_while (fun x : Z => x + delta >? maxs (abs c4)) (abs c4) with
                 | (s3, true) => (s3, Hang add_hang)
                 | (s3, false) => (bump delta ud s3, Ok true)
                 end = (s', Hang add_hang)
  end.
Proof.
  intros HB Hm Hlen.
  set (condG := fun c0 : gst => wrap64 (g_currentSize c0 + delta) >? g_maxSize c0).
  set (body := fun c0 : gst => match ll_Back c0 with
                               | Some v_ele => @Next gst (gst * bool) (LRUSrc_removeElement c0 v_ele)
                               | None => Next c0 end).
  set (condM := fun x : Z => x + delta >? maxs (abs c4)).
  assert (Hbody : forall c0, body c0 = match ll_Back c0 with
                                       | Some e => Next (LRUSrc_removeElement c0 e)
                                       | None => (fun c1 => Next c1) c0 end) by reflexivity.
  assert (Hcond : forall c0, Bnd delta ud (abs c0) -> g_maxSize c0 = g_maxSize c4 ->
                             condG c0 = condM (cur (abs c0))).
  { intros c0 HB0 HM0. unfold condG, condM. destruct (Bnd_P_nonneg _ _ _ HB0) as (P1 & _).
    pose proof (b_P _ _ _ HB0) as P2. change (cur (abs c0)) with (g_currentSize c0) in *.
    rewrite w64 by (unfold two63, maxInt64 in *; lia). rewrite HM0. reflexivity. }
  destruct (while_evict delta ud (g_maxSize c4) (gst * bool) condG condM (fun c1 => Next c1) body
              Hbody Hcond (order (abs c4)) c4 eq_refl HB Hm eq_refl)
    as (c' & n & Hn & Hw & Ha & Hm' & HB' & HM' & Hs).
  assert (Hlen' : List.length (order (abs c4)) = List.length (g_ll c4)).
  { simpl. rewrite rev_length, map_length. reflexivity. }
  replace (fuel_of c) with (n + S (S (List.length (g_ll c)) - n))%nat by (unfold fuel_of; lia).
  rewrite Hw. unfold evict_while.
  destruct (evict_loop condM (order (abs c4)) (abs c4)) as [s3 stuck]. simpl in Ha, Hs. subst s3.
  destruct stuck.
  - destruct Hs as [Hnil Hc]. rewrite (while_spin condG body c' Hc).
    + exists (abs c'). reflexivity.
    + unfold body. rewrite (ll_Back_nil c' Hnil). reflexivity.
  - rewrite (while_stop condG body c' _ Hs). split.
    + eapply WFm_ext; [| | |exact Hm']; reflexivity.
    + destruct (Bnd_P_nonneg _ _ _ HB') as (P1 & P3 & _).
      pose proof (b_P _ _ _ HB') as P2. pose proof (b_U _ _ _ HB') as P4.
      change (cur (abs c')) with (g_currentSize c') in *.
      change (unc (abs c')) with (g_uncompressedSize c') in *.
      f_equal. unfold bump, abs. simpl.
      rewrite !w64 by (unfold two63, maxInt64 in *; lia). reflexivity.
Qed.

(* ------------------------------------------------------------------ *)

Lemma Add_refines c k v : WF c -> Inv (abs c) -> boundedb (abs c) (OAdd k v) = true ->
  match LRUSrc_Add (fuel_of c) c k v with
  | Some (c', b) => WFm c' /\ add k v (abs c) = (abs c', Ok b)
  | None => exists s', add k v (abs c) = (s', Hang add_hang)
  end.
Proof.
  intros HW HI Hb.
  unfold boundedb in Hb. rewrite !andb_true_iff in Hb. destruct Hb as ((((Hs & V1a) & V1b) & V2a) & V2b).
  assert (V1 : 0 <= size v < two62) by lia. assert (V2 : 0 <= sizeOnDisk v < two62) by lia.
  clear V1a V1b V2a V2b.
  pose proof (sizes_ok_spec _ Hs) as (M1 & M2 & M3).
  destruct (acct_sums 0 0 _ (proj1 HI)) as (S1 & S2 & S3 & S4 & S5).
  pose proof HI as ([_ _ _ Ac Au Ar _ _ _] & Hcm & Hmp).
  unfold LRUSrc_Add, add.
  rewrite (r4k_bridge (sizeOnDisk v)) by (unfold two62 in *; lia).
  rewrite (r4k_bridge (size v)) by (unfold two62 in *; lia).
  pose proof (roundUp4k_bounds (sizeOnDisk v)) as R1.
  pose proof (r4k_le62 (size v) ltac:(lia)) as R2.
  pose proof (roundUp4k_bounds (size v)) as R3.
  set (r := roundUp4k (sizeOnDisk v)) in *.
  change (maxs (abs c)) with (g_maxSize c) in *.
  change (cur (abs c)) with (g_currentSize c) in *.
  change (res (abs c)) with (g_reservedSize c) in *.
  change (qbytes (abs c)) with (g_queuedEvictionsSize c) in *.
  change (unc (abs c)) with (g_uncompressedSize c) in *.
  destruct (r >? g_maxSize c) eqn:E0.
  { split; [apply HW|reflexivity]. }
  rewrite (calc_eq c r) by (unfold two61, two62, two64 in *; lia).
  cbv beta iota zeta.
  set (c1 := set_totalDiskSizePeak c _).
  change (upd_peak r (abs c)) with (abs c1).
  assert (HW1 : WF c1) by (apply WF_set_peak; exact HW).
  assert (HI1 : Inv (abs c1)) by (apply (Inv_upd_peak r (abs c) HI)).
  assert (Hs1 : sizes_ok (abs c1) = true) by exact Hs.
  rewrite (find_key_abs c1 k HW1).
  destruct (map_get c1 k) as [ee|] eqn:Eg; cbn [option_map]; cbv beta iota.
  - (* overwrite *)
    assert (Hee : In ee (g_ll c1) /\ key c1 ee = k) by (apply (wf_map c1 (wf_m c1 HW1)); exact Eg).
    destruct Hee as (Hin & Hk).
    pose proof (In_abs_order c1 ee Hin) as Hino.
    destruct (Inv_elem (abs c1) (abs_elem c1 ee) HI1 Hs1 Hino) as (B1 & B2 & B3 & B4 & B5).
    destruct (acct_item 0 0 _ _ (proj1 HI1) Hino) as (I1 & I2 & I3 & I4 & I5).
    pose proof (overwrite_Bnd (abs c1) (abs_elem c1 ee) k v HI1 Hs1 Hino Hk V1 V2 ltac:(simpl; lia)) as HB4.
    change (ent (abs_elem c1 ee)) with (elem_value c1 ee) in *.
    unfold sod, r4k_disk, r4k_size in *.
    change (ent (abs_elem c1 ee)) with (elem_value c1 ee) in *.
    change (order (abs c1)) with (order (abs c)) in I2, I4.
    rewrite (r4k_bridge (sizeOnDisk (evalue (elem_value c1 ee)))) by exact B1.
    rewrite (r4k_bridge (size (evalue (elem_value c1 ee)))) by exact B2.
    change (res (abs c1)) with (g_reservedSize c). change (maxs (abs c1)) with (g_maxSize c).
    change (g_reservedSize c1) with (g_reservedSize c). change (g_maxSize c1) with (g_maxSize c).
    fold r in HB4.
    set (delta := r - roundUp4k (sizeOnDisk (evalue (elem_value c1 ee)))) in *.
    set (ud := roundUp4k (size v) - roundUp4k (size (evalue (elem_value c1 ee)))) in *.
    rewrite (w64 delta) by (unfold two61, two62, two63 in *; lia).
    rewrite (w64 ud) by (unfold two61, two62, two63 in *; lia).
    rewrite (w64 (g_reservedSize c + delta)) by (unfold two61, two62, two63 in *; lia).
    destruct (g_reservedSize c + delta >? g_maxSize c) eqn:E1.
    { split; [apply HW1|reflexivity]. }
    match goal with |- context [while _ _ _ ?c4] => change c4 with (overwrite c1 ee v) end.
    pose proof (overwrite_abs c1 ee v (wf_nodup _ HW1) Hin B5) as Habs4. rewrite Hk in Habs4.
    change (ent (abs_elem c1 ee)) with (elem_value c1 ee) in Habs4.
    change (eid (abs_elem c1 ee)) with ee in *.
    rewrite <- Habs4. rewrite <- Habs4 in HB4.
    apply add_tail; [exact HB4|apply overwrite_WFm; assumption|].
    destruct (overwrite_frame c1 ee v Hin) as (El & _). rewrite El. simpl.
    pose proof (remove_nat_len ee (g_ll c) Hin) as HL. lia.
  - (* new key *)
    assert (Ef : find_key k (order (abs c1)) = None) by (rewrite (find_key_abs c1 k HW1), Eg; reflexivity).
    pose proof (pushnew_Bnd (abs c1) k v HI1 Hs1 Ef V1 V2 ltac:(simpl; lia)) as HB4. fold r in HB4.
    pose proof (pushnew_abs c1 k v (wf_fresh _ HW1)) as Habs4.
    rewrite <- Habs4. rewrite <- Habs4 in HB4.
    change (res (abs c1)) with (g_reservedSize c). change (maxs (abs c1)) with (g_maxSize c).
    change (g_reservedSize c1) with (g_reservedSize c). change (g_maxSize c1) with (g_maxSize c).
    rewrite (w64 (g_reservedSize c + r)) by (unfold two61, two62, two63 in *; lia).
    destruct (g_reservedSize c + r >? g_maxSize c) eqn:E1.
    { split; [apply HW1|reflexivity]. }
    unfold ll_PushFront. cbv beta iota zeta.
    match goal with |- context [while _ _ _ ?c4] => change c4 with (pushnew c1 k v) end.
    apply add_tail; [exact HB4|apply pushnew_WFm; assumption|].
    apply Nat.le_refl.
Qed.
