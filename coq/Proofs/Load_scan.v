(* Proofs/Load_scan.v — on every population of the grammar (Model/Load.v population_ok) directory
   creation, migration of the legacy layouts and the scan succeed, and every scanned file is one
   whose path getElementPath reconstructs (so it can be unlinked / evicted later). *)
From BR Require Import Base.Prelude Model.LRU Model.Names Model.Load Proofs.LRU_inv
  Proofs.Names_strings Proofs.Names_roundtrip Proofs.Load_loop.
Open Scope Z_scope.
Open Scope list_scope.

(* ------------------------------------------------------------------ *)
(* names *)

Lemma lower_length s : String.length (lower s) = String.length s.
Proof. induction s as [|c t IH]; simpl; [reflexivity|]. rewrite IH. reflexivity. Qed.

Lemma dsstore_not_hex2 n : is_dsstore n = true -> is_hex2 n = false.
Proof.
  unfold is_dsstore, is_hex2. intros H. apply String.eqb_eq in H.
  assert (HL : String.length n = 9%nat) by (rewrite <- lower_length, H; reflexivity).
  rewrite HL. reflexivity.
Qed.

Lemma dsstore_hash_false n : is_hash n = true -> is_dsstore n = false.
Proof.
  intros Hh. destruct (is_hash_length n Hh) as [HL _]. unfold is_dsstore.
  destruct (String.eqb (lower n) lowercaseDSStoreFile) eqn:E; [|reflexivity].
  apply String.eqb_eq in E. assert (H : String.length (lower n) = 9%nat) by (rewrite E; reflexivity).
  rewrite lower_length, HL in H. discriminate.
Qed.

Lemma lostfound_eq n : is_lostfound n = true -> n = lostAndFound.
Proof. apply String.eqb_eq. Qed.

Lemma hex2_take2 n : is_hex2 n = true -> take2 n = n.
Proof.
  unfold is_hex2. intros H. apply andb_true_iff in H as [H _]. apply Nat.eqb_eq in H.
  destruct n as [|a [|b [|c t]]]; simpl in H; try discriminate. reflexivity.
Qed.

Lemma hex2_length n : is_hex2 n = true -> String.length n = 2%nat.
Proof. unfold is_hex2. intros H. apply andb_true_iff in H as [H _]. apply Nat.eqb_eq in H. exact H. Qed.

Lemma hash_take2_hex2 h : is_hash h = true -> is_hex2 (take2 h) = true.
Proof.
  intros H. destruct (is_hash_length h H) as [HL Hx].
  destruct h as [|a [|b t]]; simpl in HL; try discriminate.
  simpl in Hx. apply andb_true_iff in Hx as [Ha Hx]. apply andb_true_iff in Hx as [Hb _].
  unfold take2. simpl. destruct t; unfold is_hex2; simpl; rewrite Ha, Hb; reflexivity.
Qed.

(* the names the migration gives to legacy files are names of the v2 grammar *)
Definition legacy_flag (k : kind) : bool := match k with CAS => true | _ => false end.

Lemma v0_target_scan k h : is_hash h = true ->
  scan_name (v0_target_name k h) = Ok (mkParsed h None "222444666" (legacy_flag k)).
Proof.
  intros Hh. replace (v0_target_name k h) with (print_name (mkParsed h None "222444666" (legacy_flag k)))
    by (destruct k; reflexivity).
  apply scan_name_print. repeat split; auto.
Qed.

Definition v1_random (k : kind) : string := match k with CAS => "556677" | _ => "112233" end.

Lemma v1_target_scan k h : is_hash h = true ->
  scan_name (v1_target_name k h) = Ok (mkParsed h None (v1_random k) (legacy_flag k)).
Proof.
  intros Hh. replace (v1_target_name k h) with (print_name (mkParsed h None (v1_random k) (legacy_flag k)))
    by (destruct k; reflexivity).
  apply scan_name_print. repeat split; auto. destruct k; reflexivity.
Qed.

Lemma migrated_leaf_ok k h r sub size at_ cid name :
  scan_name name = Ok (mkParsed h None r (legacy_flag k)) -> take2 h = sub -> 0 <= size ->
  leaf_ok k sub (LF (mkFile name size at_ cid)) = true.
Proof.
  intros Hs Ht Hsz. unfold leaf_ok. simpl. rewrite Hs. unfold name_fits. simpl.
  rewrite Ht, String.eqb_refl. destruct (0 <=? size) eqn:E; [|lia]. destruct k; reflexivity.
Qed.

(* ------------------------------------------------------------------ *)
(* os.Rename into the v2 tree *)

Definition has_top (d : string) (t : tree) : bool := existsb (String.eqb d) (map top_name t).

Lemma leaf_put_ok k sub f : forall c,
  forallb (leaf_ok k sub) c = true -> leaf_ok k sub (LF f) = true ->
  exists c', leaf_put (LF f) c = Some c' /\ forallb (leaf_ok k sub) c' = true.
Proof.
  induction c as [|x r IH]; simpl; intros Hc Hf.
  - exists [LF f]. simpl. rewrite Hf. split; reflexivity.
  - apply andb_true_iff in Hc as [Hx Hr].
    destruct (String.eqb (leaf_name x) (f_name f)) eqn:En.
    + destruct x as [g|n]; simpl.
      * exists (LF f :: r). simpl. rewrite Hf, Hr. split; reflexivity.
      * exfalso. simpl in Hx, En. apply lostfound_eq in Hx. subst n. apply String.eqb_eq in En.
        unfold leaf_ok in Hf. apply andb_true_iff in Hf as [_ Hf]. rewrite <- En in Hf. vm_compute in Hf. discriminate.
    + destruct (IH Hr Hf) as (c' & -> & Hc'). exists (x :: c'). simpl. rewrite Hx, Hc'. split; reflexivity.
Qed.

Lemma sub_put_ok k sub f : forall c,
  forallb (sub_ok k) c = true -> is_hex2 sub = true -> leaf_ok k sub (LF f) = true ->
  exists c', sub_put sub (LF f) c = Some c' /\ forallb (sub_ok k) c' = true.
Proof.
  induction c as [|x r IH]; simpl; intros Hc Hh Hf.
  - rewrite Hh. exists [SD sub [LF f]]. split; [reflexivity|]. simpl. unfold leafdir_ok. simpl.
    rewrite Hh, Hf. rewrite orb_true_r. reflexivity.
  - apply andb_true_iff in Hc as [Hx Hr].
    destruct (String.eqb (sub_name x) sub) eqn:En.
    + apply String.eqb_eq in En. destruct x as [g|n c0]; simpl in *.
      * exfalso. subst sub. rewrite (dsstore_not_hex2 _ Hx) in Hh. discriminate.
      * subst n. apply orb_true_iff in Hx as [Hx|Hx].
        { exfalso. apply lostfound_eq in Hx. subst sub. vm_compute in Hh. discriminate. }
        apply andb_true_iff in Hx as [_ Hx]. unfold leafdir_ok in Hx.
        destruct (leaf_put_ok k sub f c0 Hx Hf) as (c' & -> & Hc').
        exists (SD sub c' :: r). split; [reflexivity|]. simpl. unfold leafdir_ok. rewrite Hh, Hc', Hr, orb_true_r. reflexivity.
    + destruct (IH Hr Hh Hf) as (c' & -> & Hc'). exists (x :: c'). simpl. rewrite Hx, Hc'. split; reflexivity.
Qed.

Lemma kind_dir_facts k :
  is_lostfound (kind_dir k) = false /\ is_dsstore (kind_dir k) = false /\ kind_of_dir (kind_dir k) = Some k.
Proof. destruct k; repeat split; reflexivity. Qed.

Lemma kind_str_facts k :
  is_lostfound (kind_str k) = false /\ is_dsstore (kind_str k) = false /\ kind_of_dir (kind_str k) = None
  /\ kind_of_legacy_dir (kind_str k) = Some k.
Proof. destruct k; repeat split; reflexivity. Qed.

(* what a well-formed entry called <kind>.v2 must be *)
Lemma top_named_kind_dir k x : top_ok x = true -> top_name x = kind_dir k ->
  exists c, x = TD (kind_dir k) c /\ forallb (sub_ok k) c = true.
Proof.
  destruct (kind_dir_facts k) as (Hl & Hd & Hk).
  destruct x as [g|n c]; simpl; intros Hx Hn.
  - rewrite Hn, Hd in Hx. discriminate.
  - subst n. rewrite Hl, Hk in Hx. simpl in Hx. exists c. split; [reflexivity|exact Hx].
Qed.

Lemma top_put_ok k sub f : forall t,
  forallb top_ok t = true -> is_hex2 sub = true -> leaf_ok k sub (LF f) = true ->
  match top_put (kind_dir k) sub (LF f) t with
  | Some t' => forallb top_ok t' = true /\ map top_name t' = map top_name t
  | None => has_top (kind_dir k) t = false
  end.
Proof.
  destruct (kind_dir_facts k) as (Hl & Hd & Hk).
  induction t as [|x r IH]; simpl; intros Ht Hh Hf; [reflexivity|].
  apply andb_true_iff in Ht as [Hx Hr].
  destruct (String.eqb (top_name x) (kind_dir k)) eqn:En.
  - apply String.eqb_eq in En. destruct (top_named_kind_dir k x Hx En) as (c & -> & Hc).
    destruct (sub_put_ok k sub f c Hc Hh Hf) as (c' & -> & Hc').
    simpl. rewrite Hl, Hk. simpl. unfold subdir_ok. rewrite Hc', Hr. split; reflexivity.
  - specialize (IH Hr Hh Hf). destruct (top_put (kind_dir k) sub (LF f) r) as [r'|].
    + destruct IH as [H1 H2]. simpl. rewrite Hx, H1, H2. split; reflexivity.
    + unfold has_top in *. simpl. rewrite String.eqb_sym, En, IH. reflexivity.
Qed.

(* ------------------------------------------------------------------ *)
(* migration *)

Lemma migrate_v1_ok k n : forall content t,
  is_hex2 n = true -> forallb (v1_leaf_ok n) content = true -> forallb top_ok t = true ->
  forallb top_ok (migrate_v1 k (take2 n) content t) = true /\
  map top_name (migrate_v1 k (take2 n) content t) = map top_name t.
Proof.
  induction content as [|e r IH]; simpl; intros t Hn Hc Ht; [split; [exact Ht|reflexivity]|].
  apply andb_true_iff in Hc as [He Hr].
  destruct e as [f|d]; simpl in He; [|discriminate]. simpl.
  destruct (is_hash (f_name f)) eqn:Eh.
  - rewrite (dsstore_hash_false _ Eh) in He. rewrite orb_false_r in He.
    apply andb_true_iff in He as [He Hsz]. apply andb_true_iff in He as [_ Hpre].
    apply String.eqb_eq in Hpre.
    assert (Hleaf : leaf_ok k (take2 n) (LF (mkFile (v1_target_name k (f_name f)) (f_size f) (f_atime f) (f_cid f))) = true).
    { eapply migrated_leaf_ok; [apply v1_target_scan; exact Eh| |lia]. rewrite (hex2_take2 n Hn). exact Hpre. }
    assert (Hh2 : is_hex2 (take2 n) = true) by (rewrite (hex2_take2 n Hn); exact Hn).
    pose proof (top_put_ok k (take2 n) _ t Ht Hh2 Hleaf) as Hput.
    destruct (top_put (kind_dir k) (take2 n) _ t) as [t'|]; [|split; [exact Ht|reflexivity]].
    destruct Hput as [H1 H2]. destruct (IH t' Hn Hr H1) as [H3 H4]. split; [exact H3|congruence].
  - simpl in He. destruct (is_dsstore (f_name f)); [apply IH; assumption|split; [exact Ht|reflexivity]].
Qed.

Lemma migrate_items_ok k : forall items t,
  forallb legacy_ok items = true -> forallb top_ok t = true -> has_top (kind_dir k) t = true ->
  exists t', migrate_items k items t = Ok t' /\ forallb top_ok t' = true /\ map top_name t' = map top_name t.
Proof.
  induction items as [|x r IH]; simpl; intros t Hi Ht Hk; [exists t; repeat split; assumption|].
  apply andb_true_iff in Hi as [Hx Hr].
  destruct x as [f|n content]; simpl in Hx.
  - destruct (is_hash (f_name f)) eqn:Eh; [|apply IH; assumption].
    simpl in Hx.
    assert (Hleaf : leaf_ok k (take2 (f_name f)) (LF (mkFile (v0_target_name k (f_name f)) (f_size f) (f_atime f) (f_cid f))) = true).
    { eapply migrated_leaf_ok; [apply v0_target_scan; exact Eh|reflexivity|lia]. }
    pose proof (top_put_ok k (take2 (f_name f)) _ t Ht (hash_take2_hex2 _ Eh) Hleaf) as Hput.
    simpl. destruct (top_put (kind_dir k) (take2 (f_name f)) _ t) as [t'|]; [|congruence].
    destruct Hput as [H1 H2].
    assert (Hk' : has_top (kind_dir k) t' = true) by (unfold has_top in *; rewrite H2; exact Hk).
    destruct (IH t' Hr H1 Hk') as (t2 & -> & H3 & H4). exists t2. repeat split; congruence.
  - apply andb_true_iff in Hx as [Hn Hc].
    rewrite (hex2_length n Hn). simpl.
    destruct (migrate_v1_ok k n content t Hn Hc Ht) as [H1 H2].
    assert (Hk' : has_top (kind_dir k) (migrate_v1 k (take2 n) content t) = true)
      by (unfold has_top in *; rewrite H2; exact Hk).
    destruct (IH _ Hr H1 Hk') as (t2 & -> & H3 & H4). exists t2. repeat split; congruence.
Qed.

Lemma has_top_remove d n : forall t,
  has_top d (remove_top n t) = if String.eqb d n then false else has_top d t.
Proof.
  unfold has_top, remove_top. induction t as [|x r IH]; simpl; [destruct (String.eqb d n); reflexivity|].
  destruct (String.eqb (top_name x) n) eqn:En; simpl.
  - rewrite IH. destruct (String.eqb d n) eqn:Ed; [reflexivity|].
    apply String.eqb_eq in En. rewrite En, Ed. reflexivity.
  - rewrite IH. destruct (String.eqb d n) eqn:Ed; [|reflexivity].
    apply String.eqb_eq in Ed. subst d. rewrite String.eqb_sym, En. reflexivity.
Qed.

Lemma forallb_remove_top n t : forallb top_ok t = true -> forallb top_ok (remove_top n t) = true.
Proof.
  unfold remove_top. induction t as [|x r IH]; simpl; intros H; [reflexivity|].
  apply andb_true_iff in H as [Hx Hr]. destruct (negb _); simpl; [rewrite Hx|]; apply IH; exact Hr.
Qed.

Lemma find_top_none n t : find_top n t = None -> has_top n t = false.
Proof.
  unfold find_top, has_top. induction t as [|x r IH]; simpl; [reflexivity|].
  destruct (String.eqb (top_name x) n) eqn:E; [discriminate|]. intros H. rewrite String.eqb_sym, E. apply IH, H.
Qed.

Lemma find_top_some n t e : find_top n t = Some e -> In e t /\ top_name e = n.
Proof.
  unfold find_top. intros H. apply find_some in H as [H1 H2]. apply String.eqb_eq in H2. split; assumption.
Qed.

Definition tree_ready (t : tree) : Prop :=
  forallb top_ok t = true /\ forall k, has_top (kind_dir k) t = true.

Lemma kind_dir_not_str k k' : String.eqb (kind_dir k') (kind_str k) = false.
Proof. destruct k, k'; reflexivity. Qed.

Lemma migrate_kind_ok k t : tree_ready t ->
  exists t', migrate_kind k t = Ok t' /\ tree_ready t' /\ has_top (kind_str k) t' = false /\
             (forall d, has_top d t = false -> has_top d t' = false).
Proof.
  intros [Ht Hk]. unfold migrate_kind.
  destruct (find_top (kind_str k) t) as [e|] eqn:Ef.
  - destruct (find_top_some _ _ _ Ef) as [Hin Hn].
    assert (He : top_ok e = true) by (rewrite forallb_forall in Ht; apply Ht; exact Hin).
    destruct (kind_str_facts k) as (Hl & Hd & Hkd & Hkl).
    destruct e as [g|n items]; simpl in He, Hn.
    + rewrite Hn, Hd in He. discriminate.
    + subst n. rewrite Hl, Hkd, Hkl in He. simpl in He.
      destruct (migrate_items_ok k items t He Ht (Hk k)) as (t1 & -> & H1 & H2). simpl.
      exists (remove_top (kind_str k) t1). split; [reflexivity|].
      assert (Hsame : forall d, has_top d t1 = has_top d t) by (intros d; unfold has_top; rewrite H2; reflexivity).
      split; [split; [apply forallb_remove_top; exact H1|]|split].
      * intros k'. rewrite has_top_remove, kind_dir_not_str, Hsame. apply Hk.
      * rewrite has_top_remove, String.eqb_refl. reflexivity.
      * intros d Hdn. rewrite has_top_remove. destruct (String.eqb d (kind_str k)); [reflexivity|]. rewrite Hsame. exact Hdn.
  - exists t. split; [reflexivity|]. split; [split; assumption|]. split; [apply find_top_none; exact Ef|auto].
Qed.

Lemma migrate_ok t : tree_ready t ->
  exists t', migrate t = Ok t' /\ forallb top_ok t' = true /\ forall k, has_top (kind_str k) t' = false.
Proof.
  intros H0. unfold migrate.
  destruct (migrate_kind_ok AC t H0) as (t1 & -> & H1 & Ha1 & _). simpl.
  destruct (migrate_kind_ok CAS t1 H1) as (t2 & -> & H2 & Hc2 & Hp2). simpl.
  destruct (migrate_kind_ok RAW t2 H2) as (t3 & -> & H3 & Hr3 & Hp3).
  exists t3. split; [reflexivity|]. split; [apply H3|].
  intros [| |]; [apply Hp3, Hp2, Ha1|apply Hp3, Hc2|exact Hr3].
Qed.

(* ------------------------------------------------------------------ *)
(* New's MkdirAll calls *)

Lemma no_hex2_file k l : forallb (sub_ok k) l = true ->
  existsb (fun e => match e with SF f => is_hex2 (f_name f) | SD _ _ => false end) l = false.
Proof.
  induction l as [|x r IH]; simpl; intros H; [reflexivity|].
  apply andb_true_iff in H as [Hx Hr]. rewrite (IH Hr).
  destruct x as [f|n c]; simpl in *; [rewrite (dsstore_not_hex2 _ Hx)|]; reflexivity.
Qed.

Lemma top_blocked_false k t : forallb top_ok t = true -> top_blocked k t = false.
Proof.
  intros Ht. unfold top_blocked. destruct (find_top (kind_dir k) t) as [e|] eqn:Ef; [|reflexivity].
  destruct (find_top_some _ _ _ Ef) as [Hin Hn].
  assert (He : top_ok e = true) by (rewrite forallb_forall in Ht; apply Ht; exact Hin).
  destruct (top_named_kind_dir k e He Hn) as (c & -> & Hc). apply (no_hex2_file k). exact Hc.
Qed.

Lemma has_top_app d t x : has_top d (t ++ [x]) = has_top d t || String.eqb d (top_name x).
Proof. unfold has_top. rewrite map_app, existsb_app. simpl. rewrite orb_false_r. reflexivity. Qed.

Lemma ensure_top_ok k t : forallb top_ok t = true ->
  forallb top_ok (ensure_top k t) = true /\ has_top (kind_dir k) (ensure_top k t) = true /\
  (forall d, has_top d t = true -> has_top d (ensure_top k t) = true).
Proof.
  intros Ht. unfold ensure_top. destruct (find_top (kind_dir k) t) as [e|] eqn:Ef.
  - split; [exact Ht|]. split; [|auto].
    destruct (find_top_some _ _ _ Ef) as [Hin Hn]. unfold has_top. apply existsb_exists.
    exists (kind_dir k). split; [|apply String.eqb_refl]. rewrite <- Hn. apply in_map. exact Hin.
  - destruct (kind_dir_facts k) as (Hl & Hd & Hk). split.
    + rewrite forallb_app, Ht. simpl. rewrite Hl, Hk. reflexivity.
    + split; [rewrite has_top_app; simpl; rewrite String.eqb_refl; apply orb_true_r|].
      intros d Hd0. rewrite has_top_app, Hd0. reflexivity.
Qed.

Lemma mkdirs_ok t : population_ok t = true -> exists t1, mkdirs t = Ok t1 /\ tree_ready t1.
Proof.
  unfold population_ok. intros Ht. unfold mkdirs. rewrite !top_blocked_false by exact Ht. simpl.
  destruct (ensure_top_ok CAS t Ht) as (H1 & Hc & Hm1).
  destruct (ensure_top_ok AC _ H1) as (H2 & Ha & Hm2).
  destruct (ensure_top_ok RAW _ H2) as (H3 & Hr & Hm3).
  eexists. split; [reflexivity|]. split; [exact H3|].
  intros [| |]; [apply Hm3, Ha|apply Hm3, Hm2, Hc|exact Hr].
Qed.

(* ------------------------------------------------------------------ *)
(* scanDir *)

Definition scanned_ok (x : sfile) : Prop :=
  scan_name (f_name (s_file x)) = Ok (s_parsed x) /\
  name_fits (s_kind x) (s_sub x) (s_parsed x) = true /\ 0 <= f_size (s_file x).

Lemma scan_leaf_ok k sub : forall c, forallb (leaf_ok k sub) c = true ->
  exists fs, scan_leaf k sub c = Ok fs /\ Forall scanned_ok fs.
Proof.
  induction c as [|x r IH]; simpl; intros H; [exists []; split; [reflexivity|constructor]|].
  apply andb_true_iff in H as [Hx Hr]. destruct (IH Hr) as (fs & Hfs & HF).
  destruct x as [f|n]; simpl in Hx.
  - apply andb_true_iff in Hx as [Hsz Hx].
    destruct (scan_name (f_name f)) as [p| | |] eqn:Es; try discriminate.
    rewrite Hfs. simpl. exists (mkSfile k sub f p :: fs). split; [reflexivity|].
    constructor; [|exact HF]. repeat split; simpl; auto; lia.
  - rewrite Hx. exists fs. split; assumption.
Qed.

Lemma scan_sub_ok k : forall l, forallb (sub_ok k) l = true ->
  exists fs, scan_sub k l = Ok fs /\ Forall scanned_ok fs.
Proof.
  induction l as [|x r IH]; simpl; intros H; [exists []; split; [reflexivity|constructor]|].
  apply andb_true_iff in H as [Hx Hr]. destruct (IH Hr) as (fs & Hfs & HF).
  destruct x as [f|n c]; simpl in Hx.
  - rewrite Hx. exists fs. split; assumption.
  - destruct (is_lostfound n) eqn:El; [exists fs; split; assumption|]. simpl in Hx.
    apply andb_true_iff in Hx as [Hn Hc]. rewrite Hn. simpl.
    destruct (scan_leaf_ok k n c Hc) as (fa & -> & HFa). rewrite Hfs. simpl.
    exists (fa ++ fs). split; [reflexivity|]. apply Forall_app. split; assumption.
Qed.

Lemma legacy_dir_name n k : kind_of_legacy_dir n = Some k -> n = kind_str k.
Proof.
  unfold kind_of_legacy_dir.
  destruct (String.eqb n "cas") eqn:E1; [apply String.eqb_eq in E1; intros H; inversion H; subst; reflexivity|].
  destruct (String.eqb n "ac") eqn:E2; [apply String.eqb_eq in E2; intros H; inversion H; subst; reflexivity|].
  destruct (String.eqb n "raw") eqn:E3; [apply String.eqb_eq in E3; intros H; inversion H; subst; reflexivity|].
  discriminate.
Qed.

Lemma scan_tree_ok : forall t, forallb top_ok t = true -> (forall k, has_top (kind_str k) t = false) ->
  exists fs, scan_tree t = Ok fs /\ Forall scanned_ok fs.
Proof.
  induction t as [|x r IH]; simpl; intros H Hno; [exists []; split; [reflexivity|constructor]|].
  apply andb_true_iff in H as [Hx Hr].
  assert (Hno' : forall k, has_top (kind_str k) r = false).
  { intros k. specialize (Hno k). unfold has_top in *. simpl in Hno. apply orb_false_iff in Hno. tauto. }
  destruct (IH Hr Hno') as (fs & Hfs & HF).
  destruct x as [f|n l]; simpl in Hx.
  - rewrite Hx. exists fs. split; assumption.
  - destruct (is_lostfound n) eqn:El; [exists fs; split; assumption|]. simpl in Hx.
    destruct (kind_of_dir n) as [k|] eqn:Ek.
    + destruct (scan_sub_ok k l Hx) as (fa & -> & HFa). rewrite Hfs. simpl.
      exists (fa ++ fs). split; [reflexivity|]. apply Forall_app. split; assumption.
    + exfalso. destruct (kind_of_legacy_dir n) as [k|] eqn:Ekl; [|discriminate].
      apply legacy_dir_name in Ekl. specialize (Hno k). unfold has_top in Hno. simpl in Hno.
      rewrite Ekl, String.eqb_refl in Hno. discriminate.
Qed.

(* getElementPath finds every scanned file of the grammar again *)
Lemma scanned_fits x : scanned_ok x -> file_fits x.
Proof.
  destruct x as [k sub f p]. intros (Hs & Hn & Hsz). simpl in *.
  destruct (scan_name_spec _ _ Hs) as [Hpr (Hh & Hr & Hps)].
  destruct (is_hash_length _ Hh) as [HL _].
  unfold name_fits in Hn. apply andb_true_iff in Hn as [Hsub Hshape]. apply String.eqb_eq in Hsub.
  split.
  - unfold item_place, sf_key, sf_item, sf_place. simpl.
    rewrite key_kind_lookup, (key_hash_lookup k _ HL), Hsub. f_equal. rewrite <- Hpr. f_equal.
    destruct p as [h sz r leg]. simpl in *. unfold shape.
    destruct k; destruct sz as [n|]; destruct leg; simpl in Hshape; try discriminate; reflexivity.
  - unfold sf_item, item_ok. simpl. split; [|exact Hsz].
    destruct (p_size p) as [n|]; [lia|exact Hsz].
Qed.

(* directory creation + migration + scan *)
Definition scanned (t : tree) : result (list sfile) := scan_all t.

Lemma startup_scanned mx hd t : startup mx hd t = rbind (scanned t) (load_files mx hd).
Proof.
  unfold startup, scanned, scan_all. destruct (mkdirs t) as [t1| | |]; simpl; try reflexivity.
  destruct (migrate t1) as [t2| | |]; simpl; reflexivity.
Qed.

Theorem scanned_ok_population t : population_ok t = true ->
  exists files, scanned t = Ok files /\ Forall file_fits files.
Proof.
  intros Hp. unfold scanned, scan_all.
  destruct (mkdirs_ok t Hp) as (t1 & -> & Hready). simpl.
  destruct (migrate_ok t1 Hready) as (t2 & -> & Hok & Hno). simpl.
  destruct (scan_tree_ok t2 Hok Hno) as (fs & -> & HF).
  exists fs. split; [reflexivity|]. eapply Forall_impl; [|exact HF]. apply scanned_fits.
Qed.
