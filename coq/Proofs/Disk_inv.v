(* Proofs/Disk_inv.v — the system invariant holds in every reachable state of the disk-cache
   transition system (any number of concurrent requests, any interleaving, any failure branch, the
   background remover at any moment); quiescence corollaries. *)
From Coq Require Import Permutation.
From BR Require Import Base.Prelude Model.LRU Proofs.LRU_inv Proofs.LRU_spec Model.Disk
  Proofs.Disk_inv1 Proofs.Disk_inv2.
Open Scope Z_scope.

Definition label_ok (l : label) : Prop := match l with LSpawn r => req_ok r | _ => True end.

(* ------------------------------------------------------------------ *)
(* one thread's reservation is part of the reserved total *)

Lemma held_le_res c s t : SysInv c s -> In t (thr s) -> 0 <= t_held t <= res (lru (sd s)).
Proof.
  intros [_ HR HH _ _ _ _] Hin. apply in_split in Hin as (l1 & l2 & E). rewrite E in *.
  rewrite sumZ_mid in HR. apply Forall_app in HH as [H1 H2]. inversion H2 as [|? ? Ht H2']; subst.
  assert (0 <= sumZ t_held l1) by (apply sumZ_nonneg; rewrite Forall_forall in H1; exact H1).
  assert (0 <= sumZ t_held l2) by (apply sumZ_nonneg; rewrite Forall_forall in H2'; exact H2').
  lia.
Qed.

Lemma effect_maxs d t d' t' : Effect d t d' t' -> maxs (lru d') = maxs (lru d).
Proof. intros []; congruence. Qed.

(* ------------------------------------------------------------------ *)
(* the three kinds of label *)

Lemma spawn_ok c fs r : req_ok r -> thread_ok c fs (spawn r).
Proof. intros H. split; [exact H|]. destruct r; unfold pc_ok, idle; simpl; auto. Qed.

Lemma spawn_inv c s r : req_ok r -> SysInv c s -> SysInv c (mkSys (sd s) (thr s ++ [spawn r])).
Proof.
  intros Hr [HI HR HH HT HD HN HF]. constructor; simpl.
  - exact HI.
  - rewrite sumZ_app. simpl. lia.
  - apply Forall_app; split; [exact HH|]. constructor; [simpl; lia|constructor].
  - apply Forall_app; split; [exact HT|]. constructor; [apply spawn_ok; exact Hr|constructor].
  - unfold tmp_paths. rewrite flat_map_app. simpl. rewrite app_nil_r. exact HD.
  - exact HN.
  - exact HF.
Qed.

Lemma thread_step_inv c d ts i t d' t' :
  SysInv c (mkSys d ts) -> nth_error ts i = Some t -> tstep c d t = Some (d', t') ->
  SysInv c (mkSys d' (upd_nth i t' ts)) /\ maxs (lru d') = maxs (lru d).
Proof.
  intros HS Hn Hst.
  assert (Hin : In t ts) by (eapply nth_error_In; exact Hn).
  pose proof (held_le_res c _ t HS Hin) as Hh. simpl in Hh.
  assert (Hok : thread_ok c (files d) t).
  { destruct HS as [_ _ _ HT _ _ _]. simpl in HT. rewrite Forall_forall in HT. apply HT. exact Hin. }
  destruct (tstep_effect c d t d' t' Hst (si_inv _ _ HS) Hh Hok) as [HE HT'].
  destruct (upd_nth_split ts i t t' Hn) as (l1 & l2 & E1 & E2). rewrite E2. rewrite E1 in HS.
  split; [eapply effect_preserves; eassumption|eapply effect_maxs; exact HE].
Qed.

Lemma evict_inv c d d' ts : SysInv c (mkSys d ts) -> evictor_step d = Some d' ->
  SysInv c (mkSys d' ts) /\ maxs (lru d') = maxs (lru d).
Proof.
  intros [HI HR HH HT HD HN HF] H. simpl in *. unfold evictor_step in H.
  pose proof (evictor_step_spec (lru d) HI) as HS.
  destruct (LRU.evictor_step (lru d)) as [l' [en|]]; [|discriminate]. inversion H; subst d'; clear H.
  destruct HS as (HI' & Hres & Hm & _ & Ho & _ & Hq). simpl.
  fold (entry_path en). set (p := entry_path en) in *.
  assert (HA : all_entries (lru d) = map ent (order l') ++ en :: evq l').
  { unfold all_entries. rewrite Ho, Hq. reflexivity. }
  assert (HP0 : Permutation (map entry_path (all_entries (lru d)) ++ tmp_paths ts)
                            (p :: map entry_path (all_entries l') ++ tmp_paths ts)).
  { rewrite HA. unfold all_entries. rewrite !map_app. simpl. fold p. rewrite <- app_assoc. simpl.
    apply Permutation_sym. rewrite <- app_assoc. apply Permutation_middle. }
  assert (HND : NoDup (p :: map entry_path (all_entries l') ++ tmp_paths ts)).
  { eapply Permutation_NoDup; [exact HP0|]. eapply Permutation_NoDup; eassumption. }
  inversion HND as [|? ? Hn HND']; subst.
  assert (Hin : In p (map f_path (files d))).
  { eapply Permutation_in; [apply Permutation_sym; etransitivity; [exact HD|exact HP0]|]. left. reflexivity. }
  assert (HF0 : files_ok l' (files d)).
  { intros e He. apply HF. rewrite HA. unfold all_entries in He. apply in_app_iff in He.
    apply in_app_iff. destruct He as [He|He]; [left; exact He|right; right; exact He]. }
  destruct (frame_files c l' (files d) (remove_file p (files d)) ts [] p) as (F1 & _ & F3); auto.
  { intros q Hq'. apply find_file_remove_other. exact Hq'. }
  { simpl. rewrite app_nil_r. exact Hn. }
  pose proof (remove_file_perm p (files d) Hin) as HP.
  split; [|exact Hm]. constructor; simpl.
  - exact HI'.
  - lia.
  - exact HH.
  - exact F1.
  - apply (Permutation_cons_inv (a := p)). etransitivity; [apply Permutation_sym; exact HP|].
    etransitivity; [exact HD|exact HP0].
  - pose proof (Permutation_NoDup HP HN) as H. inversion H; assumption.
  - exact F3.
Qed.

(* ------------------------------------------------------------------ *)
(* every step, every run *)

Theorem sstep_inv c s l : label_ok l -> SysInv c s -> SysInv c (sstep c s l).
Proof.
  intros Hl HS. destruct l as [r|i|]; simpl.
  - apply spawn_inv; assumption.
  - destruct (nth_error (thr s) i) as [t|] eqn:En; [|exact HS].
    destruct (tstep c (sd s) t) as [[d' t']|] eqn:Et; [|exact HS].
    destruct s as [d ts]. simpl in *. eapply thread_step_inv; eassumption.
  - destruct (evictor_step (sd s)) as [d'|] eqn:Ee; [|exact HS].
    destruct s as [d ts]. simpl in *. eapply evict_inv; eassumption.
Qed.

Lemma sstep_maxs c s l : label_ok l -> SysInv c s ->
  maxs (lru (sd (sstep c s l))) = maxs (lru (sd s)).
Proof.
  intros Hl HS. destruct l as [r|i|]; simpl.
  - reflexivity.
  - destruct (nth_error (thr s) i) as [t|] eqn:En; [|reflexivity].
    destruct (tstep c (sd s) t) as [[d' t']|] eqn:Et; [|reflexivity].
    destruct s as [d ts]. simpl in *. eapply thread_step_inv; eassumption.
  - destruct (evictor_step (sd s)) as [d'|] eqn:Ee; [|reflexivity].
    destruct s as [d ts]. simpl in *. eapply evict_inv; eassumption.
Qed.

Lemma sinit_inv c mx hd : 0 < mx -> SysInv c (sinit mx hd).
Proof.
  intros H. constructor; simpl.
  - apply init_inv. exact H.
  - reflexivity.
  - constructor.
  - constructor.
  - constructor.
  - constructor.
  - intros en [].
Qed.

Lemma srun_from c ls : forall s, Forall label_ok ls -> SysInv c s ->
  SysInv c (srun c s ls) /\ maxs (lru (sd (srun c s ls))) = maxs (lru (sd s)).
Proof.
  induction ls as [|l t IH]; intros s Hok HS; simpl; [split; [exact HS|reflexivity]|].
  inversion Hok as [|? ? Hl Ht]; subst.
  destruct (IH (sstep c s l)) as [HA HB]; [assumption|apply sstep_inv; assumption|].
  split; [exact HA|]. rewrite HB. apply sstep_maxs; assumption.
Qed.

Theorem srun_inv c mx hd ls : 0 < mx -> Forall label_ok ls -> SysInv c (srun c (sinit mx hd) ls).
Proof. intros Hm Hok. apply srun_from; [exact Hok|apply sinit_inv; exact Hm]. Qed.

Lemma srun_maxs c mx hd ls : 0 < mx -> Forall label_ok ls ->
  maxs (lru (sd (srun c (sinit mx hd) ls))) = mx.
Proof.
  intros Hm Hok. destruct (srun_from c ls (sinit mx hd) Hok (sinit_inv c mx hd Hm)) as [_ H]. exact H.
Qed.

(* ------------------------------------------------------------------ *)
(* quiescence *)

Definition all_done (ts : list thread) : Prop := Forall (fun t => exists r, t_pc t = Done r) ts.

Lemma done_idle c fs ts : Forall (thread_ok c fs) ts -> all_done ts -> Forall idle ts.
Proof.
  unfold all_done. rewrite !Forall_forall. intros H1 H2 t Ht.
  destruct (H1 t Ht) as [_ Hp]. destruct (H2 t Ht) as [r Hr]. unfold pc_ok in Hp. rewrite Hr in Hp. exact Hp.
Qed.

Lemma idle_tmp ts : Forall idle ts -> tmp_paths ts = [].
Proof.
  induction 1 as [|t l [_ H] _ IH]; [reflexivity|]. unfold tmp_paths in *. simpl. rewrite IH.
  unfold otmp. rewrite H. reflexivity.
Qed.

Lemma idle_held ts : Forall idle ts -> sumZ t_held ts = 0.
Proof. induction 1 as [|t l [H _] _ IH]; simpl; lia. Qed.

(* C04: at quiescence the directory holds exactly the files of the indexed entries *)
Theorem disk_quiescent_dir c mx hd ls :
  0 < mx -> Forall label_ok ls ->
  let s := srun c (sinit mx hd) ls in
  all_done (thr s) -> evq (lru (sd s)) = [] ->
  Permutation (map f_path (files (sd s))) (map entry_path (map ent (order (lru (sd s))))) /\
  NoDup (map f_path (files (sd s))) /\
  (forall e, In e (order (lru (sd s))) ->
     exists f, find_file (entry_path (ent e)) (files (sd s)) = Some f /\ f_complete f = true
               /\ f_len f = sizeOnDisk (evalue (ent e))) /\
  (forall f, In f (files (sd s)) -> exists e, In e (order (lru (sd s))) /\ f_path f = entry_path (ent e)).
Proof.
  intros Hm Hok s Hd Hq. pose proof (srun_inv c mx hd ls Hm Hok) as [HI HR HH HT HD HN HF]. fold s in HI, HR, HH, HT, HD, HN, HF.
  pose proof (done_idle _ _ _ HT Hd) as Hidle.
  rewrite (idle_tmp _ Hidle), app_nil_r in HD. unfold all_entries in HD, HF. rewrite Hq, app_nil_r in HD.
  split; [exact HD|]. split; [exact HN|]. split.
  - intros e He. apply (HF (ent e)). unfold all_entries. rewrite Hq, app_nil_r. apply in_map. exact He.
  - intros f Hf. assert (Hin : In (f_path f) (map entry_path (map ent (order (lru (sd s)))))).
    { eapply Permutation_in; [exact HD|]. apply in_map. exact Hf. }
    rewrite map_map in Hin. apply in_map_iff in Hin as (e & H1 & H2). exists e. split; [exact H2|]. symmetry. exact H1.
Qed.

(* C03 at the disk level: exact and bounded accounting in every reachable state *)
Theorem disk_accounting c mx hd ls :
  0 < mx -> Forall label_ok ls ->
  let s := srun c (sinit mx hd) ls in
  let l := lru (sd s) in
  cur l = res l + entries_size l /\ cur l <= mx /\ res l = sumZ t_held (thr s) /\ 0 <= res l /\
  Forall (fun t => 0 <= t_held t) (thr s).
Proof.
  intros Hm Hok s l. pose proof (srun_inv c mx hd ls Hm Hok) as [HI HR HH _ _ _ _]. fold s in HI, HR, HH. fold l in HI, HR.
  pose proof (srun_maxs c mx hd ls Hm Hok) as Hmx. fold s in Hmx. fold l in Hmx.
  destruct HI as ([_ _ _ Hc _ Hr _ _ _] & Hle & _).
  unfold entries_size. change (fun e : elem => roundUp4k (sizeOnDisk (evalue (ent e)))) with r4k_disk.
  repeat split; try assumption; lia.
Qed.

Theorem disk_quiescent_res c mx hd ls :
  0 < mx -> Forall label_ok ls ->
  let s := srun c (sinit mx hd) ls in
  all_done (thr s) -> res (lru (sd s)) = 0.
Proof.
  intros Hm Hok s Hd. pose proof (srun_inv c mx hd ls Hm Hok) as [_ HR _ HT _ _ _]. fold s in HR, HT.
  rewrite HR. apply idle_held. eapply done_idle; eassumption.
Qed.

(* the "INTERNAL ERROR: failed to unreserve" paths of commit and of the deferred clean-up are
   unreachable: returning what a live request holds always succeeds *)
Theorem no_thread_error_from_accounting c mx hd ls :
  0 < mx -> Forall label_ok ls ->
  let s := srun c (sinit mx hd) ls in
  forall t, In t (thr s) -> snd (LRU.unreserve (t_held t) (lru (sd s))) = Ok tt.
Proof.
  intros Hm Hok s t Hin. pose proof (srun_inv c mx hd ls Hm Hok) as HS. fold s in HS.
  apply unreserve_ok; [eapply held_le_res; eassumption|]. apply inv_res_le_cur. apply HS.
Qed.

(* so the deferred clean-up of a request whose temp file is gone always answers with the response
   it was given, never with the internal error of a failed Unreserve *)
Theorem cleanup_keeps_response c mx hd ls :
  0 < mx -> Forall label_ok ls ->
  let s := srun c (sinit mx hd) ls in
  forall t r, In t (thr s) -> t_pc t = Cleanup r -> t_tmp t = None ->
  exists d', tstep c (sd s) t = Some (d', mkThread (t_req t) (Done r) 0 None).
Proof.
  intros Hm Hok s t r Hin Hpc Htmp. pose proof (srun_inv c mx hd ls Hm Hok) as HS. fold s in HS.
  pose proof (held_le_res c s t HS Hin) as Hh. pose proof (si_inv _ _ HS) as HI.
  destruct t as [req pc h tmp]. simpl in *. subst pc tmp.
  assert (E : tstep c (sd s) (mkThread req (Cleanup r) h None) =
    if h >? 0 then
      let '(l', ur) := LRU.unreserve h (lru (sd s)) in
      match ur with
      | Ok _ => Some (set_lru l' (sd s), mkThread req (Done r) 0 None)
      | _ => Some (set_lru l' (sd s), mkThread req (Done (match r with PutOk | PutErr _ => PutErr EInternal | _ => GetErr EInternal end)) 0 None)
      end
    else Some (sd s, goto (mkThread req (Cleanup r) h None) (Done r))) by (destruct req; reflexivity).
  rewrite E. destruct (h >? 0) eqn:Eh.
  - destruct (LRU.unreserve h (lru (sd s))) as [l1 r1] eqn:EU.
    destruct (unreserve_held _ _ _ _ HI Hh EU) as (-> & _). eexists. reflexivity.
  - assert (h = 0) by lia. subst h. eexists. reflexivity.
Qed.
