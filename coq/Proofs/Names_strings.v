(* Proofs/Names_strings.v — strings, character classes, decimal numbers: the lemmas the file-name
   round trip (Names_roundtrip.v) and the backend-key injectivity (Names_backend.v) rest on. *)
From Coq Require Import DecimalString DecimalN DecimalFacts Decimal.
From BR Require Import Base.Prelude Model.Names.
Open Scope string_scope.
Open Scope Z_scope.

(* ------------------------------------------------------------------ *)
(* append *)

Lemma app_assoc_s (a b c : string) : (a ++ b) ++ c = a ++ (b ++ c).
Proof. induction a as [|x a IH]; simpl; [reflexivity|]. rewrite IH. reflexivity. Qed.

Lemma app_nil_r_s (a : string) : a ++ "" = a.
Proof. induction a as [|x a IH]; simpl; [reflexivity|]. rewrite IH. reflexivity. Qed.

Lemma length_app_s (a b : string) : String.length (a ++ b) = (String.length a + String.length b)%nat.
Proof. induction a as [|x a IH]; simpl; [reflexivity|]. rewrite IH. reflexivity. Qed.

Lemma app_inv_head_s (a b c : string) : a ++ b = a ++ c -> b = c.
Proof. induction a as [|x a IH]; simpl; intros H; [exact H|]. inversion H. apply IH. assumption. Qed.

(* two ways of cutting one string at the same position are the same cut *)
Lemma app_eq_length (a b c d : string) :
  a ++ b = c ++ d -> String.length a = String.length c -> a = c /\ b = d.
Proof.
  revert c. induction a as [|x a IH]; intros [|y c]; simpl; intros H HL; try discriminate.
  - split; [reflexivity|exact H].
  - inversion H; subst. inversion HL as [HL']. destruct (IH c H2 HL') as [-> ->]. split; reflexivity.
Qed.

Lemma all_chars_app p a b : all_chars p (a ++ b) = all_chars p a && all_chars p b.
Proof. induction a as [|x a IH]; simpl; [reflexivity|]. rewrite IH. apply andb_assoc. Qed.

Lemma all_chars_impl (p q : ascii -> bool) s :
  (forall c, p c = true -> q c = true) -> all_chars p s = true -> all_chars q s = true.
Proof.
  intros Hpq. induction s as [|x s IH]; simpl; [reflexivity|].
  intros H. apply andb_true_iff in H as [H1 H2]. rewrite (Hpq x H1), (IH H2). reflexivity.
Qed.

(* ------------------------------------------------------------------ *)
(* substring / prefix *)

Lemma substring_0_app (a b : string) : substring 0 (String.length a) (a ++ b) = a.
Proof. induction a as [|x a IH]; simpl; [destruct b; reflexivity|]. rewrite IH. reflexivity. Qed.

Lemma substring_skip (a b : string) n : substring (String.length a) n (a ++ b) = substring 0 n b.
Proof. induction a as [|x a IH]; simpl; [reflexivity|]. exact IH. Qed.

Lemma substring_all (b : string) : substring 0 (String.length b) b = b.
Proof. induction b as [|x b IH]; simpl; [reflexivity|]. rewrite IH. reflexivity. Qed.

Lemma split_at_app (a b : string) : split_at (String.length a) (a ++ b) = Some (a, b).
Proof. induction a as [|x a IH]; simpl; [reflexivity|]. rewrite IH. reflexivity. Qed.

Lemma split_at_spec n : forall s a b, split_at n s = Some (a, b) -> s = a ++ b /\ String.length a = n.
Proof.
  induction n as [|n IH]; intros s a b; simpl.
  - intros H; inversion H; subst. split; reflexivity.
  - destruct s as [|c t]; [discriminate|].
    destruct (split_at n t) as [[a' b']|] eqn:E; [|discriminate].
    intros H; inversion H; subst. destruct (IH t a' b E) as [-> <-]. split; reflexivity.
Qed.

(* ------------------------------------------------------------------ *)
(* character classes: facts proved by running through the 256 characters *)

Ltac all_chars_256 c := destruct c as [[] [] [] [] [] [] [] []]; vm_compute; try reflexivity; try discriminate; auto.

Definition not_char (d c : ascii) : bool := negb (Ascii.eqb c d).

Lemma lhex_alnum c : is_lhex c = true -> is_alnum c = true.
Proof. all_chars_256 c. Qed.
Lemma digit_alnum c : is_digit c = true -> is_alnum c = true.
Proof. all_chars_256 c. Qed.
Lemma digit19_digit c : is_digit19 c = true -> is_digit c = true.
Proof. all_chars_256 c. Qed.
Lemma alnum_not_dash c : is_alnum c = true -> not_char "-" c = true.
Proof. all_chars_256 c. Qed.
Lemma alnum_not_dot c : is_alnum c = true -> not_char "." c = true.
Proof. all_chars_256 c. Qed.
Lemma alnum_not_slash c : is_alnum c = true -> not_char "/" c = true.
Proof. all_chars_256 c. Qed.

Lemma not_char_eqb d c : not_char d c = true -> Ascii.eqb c d = false.
Proof. unfold not_char. destruct (Ascii.eqb c d); [discriminate|reflexivity]. Qed.

Lemma is_hash_length h : is_hash h = true -> String.length h = 64%nat /\ all_chars is_lhex h = true.
Proof. unfold is_hash. intros H. apply andb_true_iff in H as [H1 H2]. apply Nat.eqb_eq in H1. split; assumption. Qed.

Lemma is_random_spec r : is_random r = true -> r <> "" /\ all_chars is_alnum r = true.
Proof.
  unfold is_random. intros H. apply andb_true_iff in H as [H1 H2]. split; [|exact H2].
  destruct r; [discriminate|discriminate].
Qed.

(* ------------------------------------------------------------------ *)
(* decimal numbers *)

Lemma string_of_uint_digits d : all_chars is_digit (NilEmpty.string_of_uint d) = true.
Proof. induction d; simpl; try rewrite IHd; reflexivity. Qed.

Lemma print_dec_digits n : all_chars is_digit (print_dec n) = true.
Proof. apply string_of_uint_digits. Qed.

Lemma parse_print_dec n : 0 <= n -> parse_dec (print_dec n) = Some n.
Proof.
  intros Hn. unfold parse_dec, print_dec. rewrite NilEmpty.usu, Unsigned.of_to, Z2N.id by exact Hn. reflexivity.
Qed.

(* a digit string is read digit by digit *)
Lemma uint_of_digits s : all_chars is_digit s = true ->
  exists d, NilEmpty.uint_of_string s = Some d /\ NilEmpty.string_of_uint d = s.
Proof.
  induction s as [|c s IH]; simpl; intros H.
  - exists Nil. split; reflexivity.
  - apply andb_true_iff in H as [Hc Hs]. destruct (IH Hs) as (d & Hd & Hp). rewrite Hd.
    destruct c as [[] [] [] [] [] [] [] []]; try (vm_compute in Hc; discriminate); simpl;
      eexists; (split; [reflexivity|simpl; rewrite Hp; reflexivity]).
Qed.

Definition head_nonzero (d : uint) : Prop :=
  match d with Nil | D0 _ => False | _ => True end.

Lemma head_nonzero_unorm d : head_nonzero d -> unorm d = d.
Proof. destruct d; simpl; intros H; try contradiction; reflexivity. Qed.

Lemma size_digits_head s d : is_size_digits s = true -> NilEmpty.string_of_uint d = s -> head_nonzero d.
Proof.
  destruct s as [|c t]; [discriminate|]. simpl. intros H Hp. apply andb_true_iff in H as [Hc _].
  destruct d; simpl in Hp; try discriminate; inversion Hp; subst; simpl; try exact I.
  vm_compute in Hc. discriminate.
Qed.

Lemma size_digits_all_digits s : is_size_digits s = true -> all_chars is_digit s = true.
Proof.
  destruct s as [|c t]; [discriminate|]. simpl. intros H. apply andb_true_iff in H as [Hc Ht].
  rewrite (digit19_digit c Hc), Ht. reflexivity.
Qed.

(* ParseInt on [1-9][0-9]*: a positive number that prints back to the same digits *)
Lemma parse_size_digits s : is_size_digits s = true ->
  exists n, parse_dec s = Some n /\ 1 <= n /\ print_dec n = s.
Proof.
  intros Hs. destruct (uint_of_digits s (size_digits_all_digits s Hs)) as (d & Hd & Hp).
  pose proof (size_digits_head s d Hs Hp) as Hh.
  exists (Z.of_N (N.of_uint d)). unfold parse_dec, print_dec. rewrite Hd. split; [reflexivity|].
  rewrite N2Z.id, Unsigned.to_of, (head_nonzero_unorm d Hh). split; [|exact Hp].
  destruct (N.of_uint d) as [|p] eqn:E; [|lia].
  exfalso. pose proof (Unsigned.to_of d) as H. rewrite E, (head_nonzero_unorm d Hh) in H.
  simpl in H. subst d. exact Hh.
Qed.

Lemma print_dec_size_digits n : 1 <= n -> is_size_digits (print_dec n) = true.
Proof.
  intros Hn. unfold print_dec.
  set (d := N.to_uint (Z.to_N n)).
  assert (Hu : unorm d = d) by (subst d; rewrite <- (Unsigned.to_of (N.to_uint (Z.to_N n))), Unsigned.of_to; reflexivity).
  assert (Hnz : d <> D0 Nil).
  { intros E. assert (N.of_uint d = 0%N) by (rewrite E; reflexivity).
    subst d. rewrite Unsigned.of_to in H. lia. }
  assert (Hh : head_nonzero d).
  { unfold unorm in Hu. pose proof (nzhead_nonzero d) as Hn0.
    destruct (nzhead d) eqn:En; try (rewrite <- Hu; exact I).
    - exfalso. apply Hnz. symmetry. exact Hu.
    - exfalso. apply (Hn0 u). reflexivity. }
  pose proof (string_of_uint_digits d) as Hd.
  destruct d; simpl in *; try contradiction; exact Hd.
Qed.

(* ------------------------------------------------------------------ *)
(* the three small parsers *)

Lemma strip_v1_cons c t :
  strip_v1 (String c t) =
  if String.eqb (String c t) v1_suffix then (EmptyString, true)
  else let '(b, l) := strip_v1 t in (String c b, l).
Proof. reflexivity. Qed.

Lemma strip_v1_spec s : forall b l, strip_v1 s = (b, l) -> s = b ++ (if l then v1_suffix else "").
Proof.
  induction s as [|c t IH]; intros b l.
  - simpl. intros H; inversion H; subst. reflexivity.
  - rewrite strip_v1_cons. destruct (String.eqb (String c t) v1_suffix) eqn:E.
    + intros H; inversion H; subst. apply String.eqb_eq in E. exact E.
    + destruct (strip_v1 t) as [b' l'] eqn:Et. intros H; inversion H; subst.
      rewrite (IH b' l eq_refl) at 1. reflexivity.
Qed.

Lemma eqb_v1_false c t : Ascii.eqb c "." = false -> String.eqb (String c t) v1_suffix = false.
Proof. intros H. unfold v1_suffix. simpl. rewrite H. reflexivity. Qed.

Lemma strip_v1_plain body : all_chars (not_char ".") body = true -> strip_v1 body = (body, false).
Proof.
  induction body as [|c t IH]; intros H; [reflexivity|].
  simpl in H. apply andb_true_iff in H as [Hc Ht].
  rewrite strip_v1_cons, (eqb_v1_false c t (not_char_eqb _ _ Hc)), (IH Ht). reflexivity.
Qed.

Lemma strip_v1_suffix body : all_chars (not_char ".") body = true -> strip_v1 (body ++ v1_suffix) = (body, true).
Proof.
  induction body as [|c t IH]; intros H; [reflexivity|].
  simpl in H. apply andb_true_iff in H as [Hc Ht].
  change (String c t ++ v1_suffix) with (String c (t ++ v1_suffix)).
  rewrite strip_v1_cons, (eqb_v1_false c _ (not_char_eqb _ _ Hc)), (IH Ht). reflexivity.
Qed.

Lemma split_dash_spec s : forall a b, split_dash s = Some (a, b) -> s = a ++ String "-" b.
Proof.
  induction s as [|c t IH]; intros a b; simpl; [discriminate|].
  destruct (Ascii.eqb c "-") eqn:E.
  - intros H; inversion H; subst. apply Ascii.eqb_eq in E. subst. reflexivity.
  - destruct (split_dash t) as [[a' b']|] eqn:Et; [|discriminate].
    intros H; inversion H; subst. rewrite (IH a' b eq_refl). reflexivity.
Qed.

Lemma split_dash_none s : all_chars (not_char "-") s = true -> split_dash s = None.
Proof.
  induction s as [|c t IH]; simpl; intros H; [reflexivity|].
  apply andb_true_iff in H as [Hc Ht]. rewrite (not_char_eqb _ _ Hc), (IH Ht). reflexivity.
Qed.

Lemma split_dash_app a b : all_chars (not_char "-") a = true -> split_dash (a ++ String "-" b) = Some (a, b).
Proof.
  induction a as [|c t IH]; simpl; intros H; [reflexivity|].
  apply andb_true_iff in H as [Hc Ht]. rewrite (not_char_eqb _ _ Hc), (IH Ht). reflexivity.
Qed.

(* basename *)
Lemma basename_aux_plain c : forall acc, all_chars (not_char "/") c = true -> basename_aux acc c = acc ++ c.
Proof.
  induction c as [|x c IH]; simpl; intros acc H; [symmetry; apply app_nil_r_s|].
  apply andb_true_iff in H as [Hx Hc]. rewrite (not_char_eqb _ _ Hx), (IH _ Hc), app_assoc_s. reflexivity.
Qed.

Lemma basename_aux_dir d c : forall acc, all_chars (not_char "/") c = true ->
  basename_aux acc (d ++ String "/" c) = c.
Proof.
  induction d as [|x d IH]; simpl; intros acc H.
  - apply (basename_aux_plain c ""). exact H.
  - destruct (Ascii.eqb x "/"); apply IH; exact H.
Qed.

Lemma basename_join3 a b c : all_chars (not_char "/") c = true -> basename (join3 a b c) = c.
Proof.
  intros H. unfold basename, join3.
  replace (a ++ "/" ++ b ++ "/" ++ c) with ((a ++ "/" ++ b) ++ String "/" c)
    by (rewrite !app_assoc_s; reflexivity).
  apply basename_aux_dir. exact H.
Qed.
