#!/bin/sh
# regenerate _CoqProject (all .v files except Cases/) and the Makefile
cd "$(dirname "$0")"
{ echo "-Q . BR"; echo "-arg -w -arg -notation-overridden,-deprecated-hint-without-locality,-deprecated-instance-without-locality"; find Base Gen Model Proofs Bridge Properties -name '*.v' | sort; } > _CoqProject.new
if ! cmp -s _CoqProject.new _CoqProject 2>/dev/null; then mv _CoqProject.new _CoqProject; coq_makefile -f _CoqProject -o Makefile >/dev/null; else rm _CoqProject.new; fi
[ -f Makefile ] || coq_makefile -f _CoqProject -o Makefile >/dev/null
