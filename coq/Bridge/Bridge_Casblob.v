(* Bridge/Bridge_Casblob.v — the constants and small functions regenerated from
   /repo/cache/disk/casblob/casblob.go (Gen.Consts, Gen.Funcs) are the published values of the v2
   format (FormatSpec), and the generated header.size / header.frameSize mean what the model's
   arithmetic says.  A symmetric change of writer and reader in the Go source breaks a lemma here. *)
From BR Require Import Base.Prelude Gen.Consts Gen.Funcs Gen.CasblobSrc Model.Casblob Model.FormatSpec
  Proofs.Casblob_le Proofs.Casblob_header.
Open Scope list_scope.
Open Scope Z_scope.

Lemma magic_pinned :
  skippableFrameMagicNumber = 407710288 (* 0x184D2A50 *) /\
  skippableFrameMagicNumber = spec_magic /\
  enc_u32 skippableFrameMagicNumber = [80; 42; 77; 24] (* 50 2A 4D 18: little-endian *).
Proof. repeat split; reflexivity. Qed.

Lemma chunkTableOffset_pinned :
  chunkTableOffset = 29 /\ chunkTableOffset = spec_fixed_part /\ chunkTableOffset = 4 + 4 + 8 + 1 + 4 + 8.
Proof. repeat split; reflexivity. Qed.

Lemma compression_types_pinned :
  Identity = 0 /\ Zstandard = 1 /\ Identity = spec_identity /\ Zstandard = spec_zstandard.
Proof. repeat split; reflexivity. Qed.

Lemma defaultChunkSize_pinned :
  defaultChunkSize = 1048576 /\ defaultChunkSize = spec_default_chunk /\ 0 < defaultChunkSize < two32.
Proof. repeat split; reflexivity. Qed.

(* the 9-byte frame served for the empty blob is the zstd frame of the empty string:
   magic FD2FB528 (LE), frame header descriptor 0x20 (single segment), content size 0,
   one last raw block of size 0 *)
Lemma emptyZstdBlob_pinned : emptyZstdBlob = [40; 181; 47; 253; 32; 0; 1; 0; 0].
Proof. reflexivity. Qed.

(* generated header.size() / header.frameSize() (explicit int64 / uint32 wrap-around) *)
Lemma header_size_bridge offs :
  8 * zlen offs + 29 < two63 -> Gen.header_size offs = chunkTableOffset + 8 * zlen offs.
Proof. intros H. rewrite header_size_val by exact H. reflexivity. Qed.

Lemma header_frameSize_bridge offs :
  8 * zlen offs + 29 < two32 -> Gen.header_frameSize offs = chunkTableOffset + 8 * zlen offs - 4 - 4.
Proof. intros H. rewrite header_frameSize_val by exact H. unfold chunkTableOffset. lia. Qed.

(* the frame-size field makes the header exactly one skippable frame: 8 + frameSize = header size *)
Lemma header_is_one_skippable_frame offs :
  8 * zlen offs + 29 < two32 -> 8 + Gen.header_frameSize offs = Gen.header_size offs.
Proof.
  intros H. rewrite header_frameSize_val by exact H.
  rewrite header_size_val by (unfold two32, two63 in *; lia). lia.
Qed.

(* byte positions of every header field, tied to the generated constants *)
Lemma header_layout h body :
  fields_ok h ->
  let f := encode_header h ++ body in
  firstn 4 f = [80; 42; 77; 24] /\
  u32_of f = skippableFrameMagicNumber /\
  u32_of (skipn 4 f) = chunkTableOffset + 8 * zlen (h_offs h) - 8 /\
  i64_of (skipn 8 f) = h_usize h /\
  u8_of (skipn 16 f) = h_comp h /\
  u32_of (skipn 17 f) = h_chunk h /\
  i64_of (skipn 21 f) = zlen (h_offs h) /\
  decode_offsets (List.length (h_offs h)) (skipn (Z.to_nat chunkTableOffset) f) = h_offs h /\
  skipn (Z.to_nat (Gen.header_size (h_offs h))) f = body.
Proof.
  intros Hf f. pose proof (decode_raw_encode h body Hf) as E. fold f in E.
  unfold decode_raw in E.
  pose proof (f_equal r_magic E) as E1. pose proof (f_equal r_frame E) as E2.
  pose proof (f_equal r_usize E) as E3. pose proof (f_equal r_comp E) as E4.
  pose proof (f_equal r_chunk E) as E5. pose proof (f_equal r_num E) as E6.
  pose proof (f_equal r_rest E) as E7.
  cbn [r_magic r_frame r_usize r_comp r_chunk r_num r_rest] in E1, E2, E3, E4, E5, E6, E7.
  destruct Hf as (Hs & Hc & Hk & Hn & Ho).
  split; [reflexivity|]. split; [exact E1|]. split; [rewrite E2; unfold chunkTableOffset; lia|].
  split; [exact E3|]. split; [exact E4|]. split; [exact E5|]. split; [exact E6|].
  split.
  - change (Z.to_nat chunkTableOffset) with 29%nat. rewrite E7.
    apply decode_offsets_roundtrip. exact Ho.
  - rewrite header_size_val by (unfold two32, two63 in *; lia).
    unfold f. apply skipn_app_exact.
    pose proof (encode_header_length h) as L. unfold zlen in *. lia.
Qed.

(* ------------------------------------------------------------------ *)
(* The control skeleton of casblob.go as regenerated literal text (Gen/CasblobSrc.v): every check,
   its order, the order of the fields read and written, and the arithmetic the model mirrors.  An
   edited, added, removed or reordered check in the Go source breaks one of these lemmas; whoever
   repairs it has to re-validate Model/Casblob.v against the new source. *)
Local Open Scope string_scope.

(* the fields are read in this order (decode_raw: positions 0,4,8,16,17,21; table after the checks) *)
Lemma readHeader_reads_pinned : CasblobSrc.readHeader_reads = [
  "&magicNumber";
  "&frameSize";
  "&h.uncompressedSize";
  "&h.compression";
  "&h.chunkSize";
  "&numOffsets";
  "h.chunkOffsets"
].
Proof. reflexivity. Qed.

(* validate / parse_header mirror exactly these checks in this order (E_small, E_magic, E_nochunk, E_fit, Zstandard block: E_chunk0, expected++ , E_count; E_frame; loop E_incr; E_last) *)
Lemma readHeader_checks_pinned : CasblobSrc.readHeader_checks = [
  "foundFileSize <= (chunkTableOffset + 16)";
  "magicNumber != skippableFrameMagicNumber";
  "numOffsets < 2";
  "numOffsets > (foundFileSize - chunkTableOffset) / 8";
  "h.compression == Zstandard";
  "h.chunkSize == 0";
  "h.uncompressedSize % int64(h.chunkSize) != 0";
  "h.uncompressedSize <= 0 || numOffsets - 1 != expectedChunks";
  "int64(frameSize) != metadataSize";
  "h.chunkOffsets[i] <= prevOffset";
  "prevOffset != foundFileSize"
].
Proof. reflexivity. Qed.

(* the arithmetic of validate: truncated division (go_quot), metadataSize, make (go_make), prevOffset := -1 *)
Lemma readHeader_exprs_pinned : CasblobSrc.readHeader_exprs = [
  "foundFileSize := fileInfo.Size()";
  "expectedChunks := h.uncompressedSize / int64(h.chunkSize)";
  "metadataSize := numOffsets * 8 + 8 + 1 + 4 + 8";
  "h.chunkOffsets = make([]int64, numOffsets)";
  "prevOffset := int64(-1)";
  "prevOffset = h.chunkOffsets[i]"
].
Proof. reflexivity. Qed.

(* encode_header writes exactly these fields in this order *)
Lemma header_write_fields_pinned : CasblobSrc.header_write_fields = [
  "uint32(skippableFrameMagicNumber)";
  "h.frameSize()";
  "h.uncompressedSize";
  "h.compression";
  "h.chunkSize";
  "int64(len(h.chunkOffsets))";
  "h.chunkOffsets"
].
Proof. reflexivity. Qed.

(* uncompressed_reader: open_blob (E_expected), Identity branch, E_unsupported, seek_chunk, remainder = 0, E_remainder, last chunk *)
Lemma getUncompressed_checks_pinned : CasblobSrc.getUncompressed_checks = [
  "expectedSize != -1 && h.uncompressedSize != expectedSize";
  "h.compression == Identity";
  "offset > 0";
  "h.compression != Zstandard";
  "chunkNum > 0";
  "remainder == 0";
  "remainder > int64(len(uncompressedFirstChunk))";
  "chunkNum == int64(len(h.chunkOffsets) - 2)"
].
Proof. reflexivity. Qed.

(* seek_chunk / read_first_chunk: chunkNum, remainder, make of the compressed chunk *)
Lemma getUncompressed_exprs_pinned : CasblobSrc.getUncompressed_exprs = [
  "chunkNum := int64(offset / int64(h.chunkSize))";
  "remainder := offset % int64(h.chunkSize)";
  "compressedFirstChunk := make([]byte, h.chunkOffsets[chunkNum + 1] - h.chunkOffsets[chunkNum])"
].
Proof. reflexivity. Qed.

(* zstd_reader: as above plus the offset = 0 whole-file case *)
Lemma getZstd_checks_pinned : CasblobSrc.getZstd_checks = [
  "expectedSize != -1 && h.uncompressedSize != expectedSize";
  "h.compression == Identity";
  "offset > 0";
  "h.compression != Zstandard";
  "offset == 0";
  "chunkNum > 0";
  "remainder == 0";
  "remainder > int64(len(uncompressedFirstChunk))";
  "chunkNum == int64(len(h.chunkOffsets) - 2)"
].
Proof. reflexivity. Qed.

(* zstd_reader: slice at remainder and re-encode *)
Lemma getZstd_exprs_pinned : CasblobSrc.getZstd_exprs = [
  "chunkNum := int64(offset / int64(h.chunkSize))";
  "remainder := offset % int64(h.chunkSize)";
  "compressedFirstChunk := make([]byte, h.chunkOffsets[chunkNum + 1] - h.chunkOffsets[chunkNum])";
  "chunkToRecompress := uncompressedFirstChunk[remainder:]";
  "recompressedChunk := zstd.EncodeAll(chunkToRecompress, nil)"
].
Proof. reflexivity. Qed.

(* write_ctl / write_plan / header0: chunk count, first table entry = chunkTableOffset, chunkEnd = min(chunkSize, remaining) *)
Lemma writeAndClose_exprs_pinned : CasblobSrc.writeAndClose_exprs = [
  "chunkSize := uint32(defaultChunkSize)";
  "numChunks := int64(1)";
  "remainder := int64(0)";
  "numChunks = size / int64(chunkSize)";
  "remainder = size % int64(chunkSize)";
  "numOffsets := numChunks + 1";
  "h.chunkOffsets[0] = chunkTableOffset";
  "fileOffset := h.size()";
  "remainingRawData := size";
  "uncompressedChunk := *chunkBufferPtr";
  "h.chunkOffsets[nextChunk] = fileOffset";
  "chunkEnd := int64(chunkSize)";
  "chunkEnd = remainingRawData";
  "remainingRawData -= chunkEnd";
  "fileOffset += int64(written)";
  "h.chunkOffsets[nextChunk] = fileOffset"
].
Proof. reflexivity. Qed.

(* write_ctl: W_size, chunk count, Identity branch (W_count, W_hash), chunkEnd, probe (W_extra / W_probe), W_hash *)
Lemma writeAndClose_checks_pinned : CasblobSrc.writeAndClose_checks = [
  "size <= 0";
  "t == Zstandard";
  "remainder > 0";
  "t == Identity";
  "n != size";
  "actualHash != hash";
  "remainingRawData <= int64(chunkSize)";
  "err != io.EOF";
  "actualHash != hash"
].
Proof. reflexivity. Qed.

(* extract_logical_size: 16 bytes, int64 at offset 8 *)
Lemma extractLogicalSize_exprs_pinned : CasblobSrc.extractLogicalSize_exprs = [
  "interesting := 16";
  "earlyHeader := make([]byte, interesting)";
  "br := bytes.NewReader(earlyHeader[8:])"
].
Proof. reflexivity. Qed.

(* extract_logical_size: E_read, E_nonpos *)
Lemma extractLogicalSize_checks_pinned : CasblobSrc.extractLogicalSize_checks = [
  "n != 16";
  "uncompressedSize <= 0"
].
Proof. reflexivity. Qed.
